/-
  Lemmas/LifeCall.lean — method calls of the region calculus: what `sigOK` says about the entry a call
  creates (shape lemmas), and preservation of the invariant by each effect class.
-/
import BumpProof.Lemmas.LifeStep

namespace Life

theorem ltBounded_cases {o : Owner} {l : Lt} (h : ltBounded o l = true) : l = .recv ∨ (l = .param ∧ o.hasParam = true) := by
  unfold ltBounded at h
  simp only [Bool.or_eq_true, Bool.and_eq_true, beq_iff_eq] at h
  exact h

theorem evalLt_bounded {o : Owner} {l : Lt} (h : ltBounded o l = true) (e : Entry) (m : Mode) :
    ∃ R, evalLt e m l = some R ∧ (R = .borrow e.var m :: e.self ∨ (R = e.param ∧ o.hasParam = true)) := by
  rcases ltBounded_cases h with rfl | ⟨rfl, hp⟩
  · exact ⟨_, rfl, Or.inl rfl⟩
  · exact ⟨_, rfl, Or.inr ⟨rfl, hp⟩⟩

theorem alloc_shape {s : Sig} (had : sigAdequate s = true) (hop : s.op = .alloc) {x : Var} {d : Nat} {e : Entry} {m : Mode}
    {res : Option Entry} (h : mkResult x d e m s.ret s.lts = some res) :
    ∃ R, res = some ⟨x, .val, .own, R, R, true, d⟩ ∧
      (R = .borrow e.var m :: e.self ∨ (R = e.param ∧ s.ownerK.hasParam = true)) ∧
      (s.recv = .value → s.ownerK = .coll ∧ R = e.param) ∧ (s.ownerK = .coll → s.recv = .value) ∧
      (s.ownerK = .bump ∨ s.ownerK = .scope ∨ s.ownerK = .trScope ∨ s.ownerK = .trTypedScope ∨
       s.ownerK = .trMutTypedScope ∨ s.ownerK = .coll ∨ s.ownerK = .trAllocator) := by
  unfold sigAdequate at had
  rw [hop] at had
  simp only [Bool.and_eq_true, Bool.or_eq_true, bne_iff_ne, ne_eq, beq_iff_eq] at had
  rcases had with ⟨⟨⟨⟨hval, hlts⟩, hvalue⟩, hcoll⟩, hown⟩
  -- the lifetime list is a singleton
  rcases hl : s.lts with _ | ⟨l, _ | ⟨l2, rest⟩⟩ <;> rw [hl] at hlts <;> simp only at hlts
  · cases hlts
  · rcases evalLt_bounded hlts e m with ⟨R, hR, hRc⟩
    have hres : res = some ⟨x, .val, .own, R, R, true, d⟩ := by
      rw [hl] at h
      cases hr : s.ret <;> rw [hr] at hval h <;> simp [Ret.isValue] at hval <;>
        simp [mkResult, hR] at h <;> exact h.symm
    refine ⟨R, hres, hRc, ?_, ?_, ?_⟩
    · intro hv
      rcases hvalue with hne | ⟨hc, hp⟩
      · exact absurd hv hne
      · refine ⟨hc, ?_⟩
        rw [hl] at hp
        have : l = .param := by simpa using hp
        subst this
        simp [evalLt] at hR; exact hR.symm
    · intro hc
      rcases hcoll with hne | hv
      · exact absurd hc hne
      · exact hv
    · rcases hown with (((((h1 | h1) | h1) | h1) | h1) | h1) | h1
      · exact Or.inl h1
      · exact Or.inr (Or.inl h1)
      · exact Or.inr (Or.inr (Or.inl h1))
      · exact Or.inr (Or.inr (Or.inr (Or.inl h1)))
      · exact Or.inr (Or.inr (Or.inr (Or.inr (Or.inl h1))))
      · exact Or.inr (Or.inr (Or.inr (Or.inr (Or.inr (Or.inl h1)))))
      · exact Or.inr (Or.inr (Or.inr (Or.inr (Or.inr (Or.inr h1)))))
  · cases hlts

/-- which receivers a method of the given owner applies to (given that no `&mut Bump` scope impl exists) -/
def ownerKinds (o : Owner) (e : Entry) : Prop :=
  match o with
  | .bump => e.kind = .bump
  | .scope => e.kind = .scope ∨ e.kind = .claim ∨ e.kind = .poolGuard
  | .guard => e.kind = .guard
  | .claim => e.kind = .claim
  | .pool => e.kind = .pool
  | .poolGuard => e.kind = .poolGuard
  | .trAllocator => e.kind = .bump ∨ e.kind = .scope
  | .trScope => e.kind = .scope
  | .coll => e.kind = .coll
  | .trTypedScope | .trMutTypedScope =>
      e.kind = .scope ∨ e.kind = .claim ∨ e.kind = .poolGuard ∨ (e.kind = .bump ∧ e.acc = .shrRef)

theorem applicable_kinds {t : Table} (himpl : t.implLt .refMutBump = none) {o : Owner} {e : Entry}
    (h : applicable t o e = true) : ownerKinds o e := by
  unfold applicable at h
  unfold ownerKinds
  cases o <;> cases hk : e.kind <;> rw [hk] at h <;> simp at h ⊢
  all_goals
    unfold scopeTraitOn at h
    rw [hk] at h
    cases ha : e.acc <;> rw [ha] at h <;> simp [himpl] at h ⊢

theorem mem_cons_region {l : Loan} {a : Loan} {r : Region} (h : l ∈ a :: r) : l = a ∨ l ∈ r := List.mem_cons.1 h

/-- the static half of an allocation: the environment `Γ1` is `Γ` after the use of the receiver `e` -/
theorem alloc_core {Γ Γ1 : SEnv} {σ : DState} (inv : Inv Γ σ) (inv1 : Inv Γ1 σ) {e : Entry} {r : Rt}
    (he : e ∈ Γ.ents) (hv : e.valid = true) (hr : σ.get e.var = some r) (heH : e.isHandle = true) {m : Mode}
    (hsub : ∀ g ∈ Γ1.ents, g.valid = true → g ∈ Γ.ents ∧ g.self.mutOn e.var = false)
    (hkeep : ∀ ep ∈ Γ.ents, ep.valid = true → (∀ l ∈ ep.self, l ∈ e.self) → ep.var ≠ e.var → ep ∈ Γ1.ents)
    (x : Var) (R : Region) (d : Nat) (hfresh : x ∉ Γ1.used)
    (hR : (R = .borrow e.var m :: e.self ∧ e ∈ Γ1.ents) ∨ R = e.param)
    (hender : (e.kind = .guard ∨ (e.kind = .bump ∧ e.acc ≠ .shrRef)) → R = .borrow e.var m :: e.self) :
    Inv { Γ1 with ents := ⟨x, .val, .own, R, R, true, d⟩ :: Γ1.ents, used := x :: Γ1.used }
        (σ.set x (Rt.val r.arena (σ.epochs r.arena).getLast?)) := by
  have hc := inv.closed e he hv
  have hek : e.kind ≠ .val := by simp [Entry.isHandle] at heH; exact heH.1
  -- a place borrowed by `e` is not `e` itself
  have hpne : ∀ p mo, Loan.borrow p mo ∈ e.self → p ≠ e.var := by
    intro p mo hp hpe
    have : e.self.on e.var = true := List.any_eq_true.2 ⟨_, hp, by simp [Loan.on, hpe]⟩
    rw [hc.2.2.1] at this; exact Bool.false_ne_true this
  apply inv1.addVal (e := e) (rh := r) _ x R d hfresh
  · -- closed
    intro p mo hp
    rcases hR with ⟨rfl, heΓ1⟩ | rfl
    · rcases mem_cons_region hp with h | h
      · cases h
        exact ⟨e, heΓ1, rfl, hv, hek, fun l hl => List.mem_cons_of_mem _ hl⟩
      · rcases hc.2.1 p mo h with ⟨ep, hep, h1, h2, h3, h4⟩
        exact ⟨ep, hkeep ep hep h2 h4 (h1 ▸ hpne p mo h), h1, h2, h3, fun l hl => List.mem_cons_of_mem _ (h4 l hl)⟩
    · have hps := hc.1 _ hp
      rcases hc.2.1 p mo hps with ⟨ep, hep, h1, h2, h3, h4⟩
      exact ⟨ep, hkeep ep hep h2 h4 (h1 ▸ hpne p mo hps), h1, h2, h3, hc.2.2.2 p mo hp ep hep h1⟩
  · -- the receiver's allocation region is part of the value's region
    intro l hl
    rcases hR with ⟨rfl, _⟩ | rfl
    · exact List.mem_cons_of_mem _ (hc.1 l hl)
    · exact hl
  · -- the receiver itself as an ender
    intro g hg hgv hge rg hrg hon
    have := inv.eq_of_var_eq (hsub g hg hgv).1 he hge
    subst this
    rw [hr] at hrg; cases hrg
    have hRr : R = .borrow g.var m :: g.self := by
      apply hender
      rcases hon with ⟨hk, _⟩ | ⟨hk, hacc, _⟩ | ⟨hk, _⟩
      · exact Or.inl hk
      · exact Or.inr ⟨hk, hacc⟩
      · simp [Entry.isHandle, hk] at heH
    rw [hRr]; exact Region.on_cons_self _ _ _
  · -- the other enders
    intro g hg hgv hge rg hrg hon
    rcases hsub g hg hgv with ⟨hgΓ, hnm⟩
    rcases inv.handles e he hv heH r hr g hgΓ hgv hge rg hrg hon with h | h
    · exact h
    · rw [hnm] at h; exact absurd h Bool.false_ne_true

/-- `Γ1` is `Γ` after a use of the valid entry `e` in mode `m` -/
structure AfterUse (Γ Γ1 : SEnv) (e : Entry) (m : Mode) : Prop where
  used : Γ1.used = Γ.used
  frames : Γ1.frames = Γ.frames
  sub : ∀ g ∈ Γ1.ents, g.valid = true → g ∈ Γ.ents ∧
        (match m with | .shr => g.self.mutOn e.var = false | .mut => g.self.on e.var = false)
  keep : ∀ ep ∈ Γ.ents, ep.valid = true → (∀ l ∈ ep.self, l ∈ e.self) → ep.var ≠ e.var → ep ∈ Γ1.ents

theorem AfterUse.mutOn {Γ Γ1 : SEnv} {e : Entry} {m : Mode} (h : AfterUse Γ Γ1 e m) {g : Entry} (hg : g ∈ Γ1.ents)
    (hv : g.valid = true) : g ∈ Γ.ents ∧ g.self.mutOn e.var = false := by
  rcases h.sub g hg hv with ⟨h1, h2⟩
  refine ⟨h1, ?_⟩
  cases m
  · exact h2
  · cases hm : g.self.mutOn e.var
    · rfl
    · have h3 := Region.on_of_mutOn hm
      simp only at h2
      rw [h2] at h3; exact absurd h3 Bool.false_ne_true

theorem AfterUse.noConflict {Γ Γ1 : SEnv} {e : Entry} {m : Mode} (h : AfterUse Γ Γ1 e m) : NoConflict Γ1 e.var m :=
  fun g hg hv => (h.sub g hg hv).2

theorem any_false_of_subset {p : Loan → Bool} {r s : Region} (hsub : ∀ l ∈ r, l ∈ s) (h : s.any p = false) : r.any p = false := by
  apply Bool.eq_false_iff.2
  intro hr
  rcases List.any_eq_true.1 hr with ⟨l, hl, hp⟩
  have : s.any p = true := List.any_eq_true.2 ⟨l, hsub l hl, hp⟩
  rw [h] at this; exact Bool.false_ne_true this

theorem any_mutOn_false_of_on_false {r : Region} {v : Var} (h : r.any (·.on v) = false) : r.any (·.mutOn v) = false := by
  apply Bool.eq_false_iff.2
  intro hr
  rcases List.any_eq_true.1 hr with ⟨l, hl, hp⟩
  have : r.any (·.on v) = true := List.any_eq_true.2 ⟨l, hl, Loan.on_of_mutOn hp⟩
  rw [h] at this; exact Bool.false_ne_true this

theorem access_afterUse {Γ Γ1 : SEnv} {σ : DState} (inv : Inv Γ σ) {e : Entry} (he : e ∈ Γ.ents) (hv : e.valid = true)
    {recv : Recv} (hacc : Γ.access e recv = .ok Γ1) :
    Inv Γ1 σ ∧ AfterUse Γ Γ1 e recv.mode ∧ (recv ≠ .value → e ∈ Γ1.ents) ∧ (recv = .refMut → e.acc ≠ .shrRef) ∧
    (recv = .value → e.movable = true ∧ e.kind ≠ .claim ∧ e.kind ≠ .poolGuard ∧ Γ1 = Γ.remove e.var) := by
  have hfree : e.self.any (·.on e.var) = false := (inv.closed e he hv).2.2.1
  rcases access_ok hacc with ⟨rfl, rfl⟩ | ⟨rfl, hne, rfl⟩ | ⟨rfl, hmv, hk1, hk2, rfl⟩
  · refine ⟨inv.useShr _, ⟨rfl, rfl, ?_, ?_⟩, ?_, ?_, ?_⟩
    · intro g hg hgv; exact mem_useShr_valid hg hgv
    · intro ep hep _ hsub _
      exact mem_killEnts_of_survivor hep (any_mutOn_false_of_on_false (any_false_of_subset hsub hfree))
    · intro _; exact mem_killEnts_of_survivor he (any_mutOn_false_of_on_false hfree)
    · intro h; cases h
    · intro h; cases h
  · refine ⟨inv.useMut _, ⟨rfl, rfl, ?_, ?_⟩, ?_, ?_, ?_⟩
    · intro g hg hgv; exact mem_useMut_valid hg hgv
    · intro ep hep _ hsub _
      exact mem_killEnts_of_survivor hep (any_false_of_subset hsub hfree)
    · intro _; exact mem_killEnts_of_survivor he hfree
    · intro _; exact hne
    · intro h; cases h
  · refine ⟨inv.remove _, ⟨rfl, rfl, ?_, ?_⟩, ?_, ?_, ?_⟩
    · intro g hg hgv
      rcases mem_remove_valid hg hgv with ⟨h1, h2, _⟩
      exact ⟨h1, h2⟩
    · intro ep hep _ hsub hne
      exact List.mem_filter.2 ⟨mem_killEnts_of_survivor hep (any_false_of_subset hsub hfree), by simpa using hne⟩
    · intro h; exact absurd rfl h
    · intro h; cases h
    · intro _; exact ⟨hmv, hk1, hk2, rfl⟩

theorem effRecv_of_not_claim {s : Sig} (h : s.ret ≠ .claimGuard) : effRecv s = s.recv := by
  unfold effRecv
  have : (s.ret == Ret.claimGuard) = false := by simpa using h
  simp [this]

/-- dynamic prelude of every call on a handle: the receiver is there, is neither a value nor a pool, its arena is alive -/
theorem runCall_handle {σ : DState} {x h : Var} {op : Op} {r : Rt} (hr : σ.get h = some r) (hk1 : r.kind ≠ .val)
    (hk2 : r.kind ≠ .pool) (hlive : σ.epochs r.arena ≠ []) :
    runCall σ x h op =
      match op with
      | .alloc => if r.kind.allocates then .ok (σ.set x (Rt.val r.arena (σ.epochs r.arena).getLast?)) else .error .stuck
      | .mkGuard => if r.kind.scopes then .ok ((σ.push r.arena).2.set x ⟨.guard, r.arena, some σ.next, false, []⟩) else .error .stuck
      | .guardScope => if r.kind == .guard then .ok ((σ.guardReset h r).set x (Rt.hdl .scope r.arena)) else .error .stuck
      | .guardReset => if r.kind == .guard then .ok (σ.guardReset h r) else .error .stuck
      | .resetAll => if r.kind == .bump then .ok (σ.resetArena r.arena) else .error .stuck
      | .viewScope => if r.kind.scopes then .ok (σ.set x (Rt.hdl .scope r.arena)) else .error .stuck
      | .viewSame =>
          if r.kind == .bump then .ok (σ.set x (Rt.hdl .bump r.arena))
          else if r.kind.scopes then .ok (σ.set x (Rt.hdl .scope r.arena)) else .error .stuck
      | .claim => if r.kind.scopes then .ok (σ.set x (Rt.hdl .claim r.arena)) else .error .stuck
      | .convert => if r.kind == .bump || r.kind == .scope then .ok (σ.set x r) else .error .stuck
      | _ => .error .stuck := by
  unfold runCall
  rw [hr]
  have h1 : (r.kind == Kind.val) = false := by simpa using hk1
  have h2 : (r.kind == Kind.pool) = false := by simpa using hk2
  have h3 : (σ.epochs r.arena == []) = false := by simpa using hlive
  simp only [h1, h2, h3]
  cases op <;> simp

theorem call_alloc {t : Table} (hok : sigOK t = true) {Γ Γ' Γ1 : SEnv} {σ : DState} (inv : Inv Γ σ)
    {sig : Sig} {e : Entry} {res : Option Entry} {x : Var}
    (hs : sig ∈ t.sigs) (hop : sig.op = .alloc) (he : e ∈ Γ.ents) (hv : e.valid = true)
    (happ : applicable t sig.ownerK e = true) (hacc : Γ.access e (effRecv sig) = .ok Γ1)
    (hres : mkResult x Γ.depth e (effRecv sig).mode sig.ret sig.lts = some res)
    (hdecl : DeclRes Γ1 Γ' res) :
    ∃ σ', runCall σ x e.var .alloc = .ok σ' ∧ Inv Γ' σ' := by
  rcases inv.get_of_valid he hv with ⟨r, hr, ht⟩
  have had := sigOK_sig hok hs
  have himpl := sigOK_impls hok
  rcases alloc_shape had hop hres with ⟨R, rfl, hR, hvalue, hcollrecv, hown⟩
  simp only [DeclRes] at hdecl
  rcases declare_ok hdecl with ⟨hfresh, rfl⟩
  have hkinds := applicable_kinds himpl happ
  -- the receiver allocates; if it can end epochs itself, it is an inherent `Bump` method (which returns `'_`)
  have hfacts : e.kind.allocates = true ∧ e.isHandle = true ∧ e.kind ≠ .guard ∧
      ((e.kind = .bump ∧ e.acc ≠ .shrRef) → sig.ownerK.hasParam = false) := by
    rcases hown with ho | ho | ho | ho | ho | ho | ho <;> rw [ho] at hkinds <;> simp only [ownerKinds] at hkinds
    · rw [hkinds, ho]; simp [Kind.allocates, Entry.isHandle, hkinds, Owner.hasParam]
    · rcases hkinds with hk | hk | hk <;> simp [hk, Kind.allocates, Entry.isHandle]
    · simp [hkinds, Kind.allocates, Entry.isHandle]
    · rcases hkinds with hk | hk | hk | ⟨hk, ha⟩ <;> simp [hk, Kind.allocates, Entry.isHandle]
      intro h; exact absurd ha h
    · rcases hkinds with hk | hk | hk | ⟨hk, ha⟩ <;> simp [hk, Kind.allocates, Entry.isHandle]
      intro h; exact absurd ha h
    · simp [hkinds, Kind.allocates, Entry.isHandle]
    · rcases hkinds with hk | hk <;> simp [hk, ho, Kind.allocates, Entry.isHandle, Owner.hasParam]
  rcases hfacts with ⟨hallocs, heH, hng, hbumpender⟩
  have hlive := ht.2.2.2.1 heH
  have hk1 : r.kind ≠ .val := by rw [ht.1]; simp [Entry.isHandle] at heH; exact heH.1
  have hk2 : r.kind ≠ .pool := by rw [ht.1]; simp [Entry.isHandle] at heH; exact heH.2
  refine ⟨σ.set x (Rt.val r.arena (σ.epochs r.arena).getLast?), ?_, ?_⟩
  · rw [runCall_handle hr hk1 hk2 hlive]; simp [ht.1, hallocs]
  · rcases access_afterUse inv he hv hacc with ⟨inv1, hau, hkeepE, _, hval⟩
    have hfresh' : x ∉ Γ1.used := hfresh
    apply alloc_core inv inv1 he hv hr heH (fun g hg hgv => hau.mutOn hg hgv) hau.keep x R Γ.depth hfresh'
    · rcases hR with hR | ⟨hR, _⟩
      · left
        refine ⟨hR, hkeepE ?_⟩
        intro hrv
        -- a by-value call returns the receiver's allocation region, which is not the `'_` region
        have hrecv : effRecv sig = .value := hrv
        have hnc : sig.ret ≠ .claimGuard := by
          intro hc
          unfold effRecv at hrecv; simp [hc] at hrecv
        rw [effRecv_of_not_claim hnc] at hrecv
        have := (hvalue hrecv).2
        rw [hR] at this
        -- `borrow e :: e.self = e.param` contradicts `param ⊆ self` and self-loan-freedom
        have hin : Loan.borrow e.var (effRecv sig).mode ∈ e.self := (inv.closed e he hv).1 _ (this ▸ List.mem_cons_self)
        have : e.self.on e.var = true := Region.on_of_mem hin
        rw [(inv.closed e he hv).2.2.1] at this; exact absurd this Bool.false_ne_true
      · exact Or.inr hR
    · intro hender
      rcases hender with hg | hb
      · exact absurd hg hng
      · rcases hR with hR | ⟨_, hp⟩
        · exact hR
        · rw [hbumpender hb] at hp; cases hp

/-! ### calls that create a handle borrowing the receiver -/

/-- what `sigOK` guarantees about the entry created by `scope_guard`, `guard.scope()`, the views and `claim` -/
structure DerivedShape (e : Entry) (m : Mode) (x : Var) (o : Owner) (ne : Entry) : Prop where
  var : ne.var = x
  valid : ne.valid = true
  handle : ne.isHandle = true
  self1 : Loan.borrow e.var m ∈ ne.self
  self2 : ∀ l ∈ e.self, l ∈ ne.self
  self3 : ∀ l ∈ ne.self, l = .borrow e.var m ∨ l ∈ e.self ∨ ∃ k, l = .frame k
  param : ((∀ l ∈ ne.param, l ∈ ne.self) ∧ Loan.borrow e.var m ∈ ne.param ∧ ∀ l ∈ e.self, l ∈ ne.param) ∨
          (ne.param = e.param ∧ o.hasParam = true)
  excl : ne.acc ≠ .shrRef → m = .mut
  ownScope : ne.kind = .scope → ne.acc = .own → ∀ l ∈ ne.self, l ∈ ne.param
  bumpRef : ne.kind = .bump → ne.acc ≠ .own
  guardOwn : ne.kind = .guard → ne.acc = .own

theorem mode_of_refMut {s : Sig} (h : s.recv = .refMut) : (effRecv s).mode = .mut := by
  unfold effRecv; split <;> simp [Recv.mode, h]

theorem effRecv_mode_claim {s : Sig} (h : s.ret = .claimGuard) : (effRecv s).mode = .mut := by
  unfold effRecv; simp [h, Recv.mode]

@[simp] theorem evalLt_recv (e : Entry) (m : Mode) : evalLt e m .recv = some (.borrow e.var m :: e.self) := rfl

theorem DerivedShape.mk' {e : Entry} {m : Mode} {x : Var} {d : Nat} {o : Owner} (k : Kind) (a : Acc) (P : Region)
    (hk1 : k ≠ .val) (hk2 : k ≠ .pool)
    (hP : P = .borrow e.var m :: e.self ∨ (P = e.param ∧ o.hasParam = true))
    (hex : a ≠ .shrRef → m = .mut) (hW : k = .scope → a = .own → P = .borrow e.var m :: e.self)
    (hb : k = .bump → a ≠ .own) (hg : k = .guard → a = .own) :
    DerivedShape e m x o ⟨x, k, a, .borrow e.var m :: e.self, P, true, d⟩ :=
  ⟨rfl, rfl, by simp [Entry.isHandle, hk1, hk2], List.mem_cons_self, fun l hl => List.mem_cons_of_mem _ hl,
   fun l hl => by
     rcases List.mem_cons.1 hl with h | h
     · exact Or.inl h
     · exact Or.inr (Or.inl h),
   by
     rcases hP with hP | hP
     · left; rw [hP]; exact ⟨fun l hl => hl, List.mem_cons_self, fun l hl => List.mem_cons_of_mem _ hl⟩
     · exact Or.inr hP,
   hex, fun h1 h2 l hl => by rw [hW h1 h2]; exact hl, hb, hg⟩

theorem mkGuard_shape {s : Sig} (had : sigAdequate s = true) (hop : s.op = .mkGuard) {x : Var} {d : Nat} {e : Entry}
    {res : Option Entry} (h : mkResult x d e (effRecv s).mode s.ret s.lts = some res) :
    ∃ ne, res = some ne ∧ DerivedShape e (effRecv s).mode x s.ownerK ne ∧ ne.kind = .guard ∧ s.recv = .refMut ∧
      s.ret ≠ .claimGuard ∧ ne.param = .borrow e.var (effRecv s).mode :: e.self ∧
      (s.ownerK = .bump ∨ s.ownerK = .scope ∨ s.ownerK = .trAllocator) := by
  unfold sigAdequate at had
  rw [hop] at had
  simp only [Bool.and_eq_true, Bool.or_eq_true, beq_iff_eq] at had
  rcases had with ⟨⟨⟨hrecv, hret⟩, hlts⟩, hown⟩
  rw [hret, hlts] at h
  simp [mkResult, evalLt] at h
  subst h
  refine ⟨_, rfl, DerivedShape.mk' .guard .own _ (by decide) (by decide) (Or.inl rfl) (fun _ => mode_of_refMut hrecv)
    (fun h => by cases h) (fun h => by cases h) (fun _ => rfl), rfl, hrecv, by rw [hret]; decide, rfl, ?_⟩
  rcases hown with (h1 | h1) | h1
  · exact Or.inl h1
  · exact Or.inr (Or.inl h1)
  · exact Or.inr (Or.inr h1)

theorem guardScope_shape {s : Sig} (had : sigAdequate s = true) (hop : s.op = .guardScope) {x : Var} {d : Nat} {e : Entry}
    {res : Option Entry} (h : mkResult x d e (effRecv s).mode s.ret s.lts = some res) :
    ∃ ne, res = some ne ∧ DerivedShape e (effRecv s).mode x s.ownerK ne ∧ ne.kind = .scope ∧ s.ownerK = .guard ∧
      s.recv = .refMut ∧ s.ret ≠ .claimGuard ∧ ne.param = .borrow e.var (effRecv s).mode :: e.self := by
  unfold sigAdequate at had
  rw [hop] at had
  simp only [Bool.and_eq_true, beq_iff_eq] at had
  rcases had with ⟨⟨⟨hown, hrecv⟩, hret⟩, hlts⟩
  rw [hret, hlts] at h
  simp [mkResult, evalLt] at h
  subst h
  exact ⟨_, rfl, DerivedShape.mk' .scope .mutRef _ (by decide) (by decide) (Or.inl rfl) (fun _ => mode_of_refMut hrecv)
    (fun _ h => by cases h) (fun h => by cases h) (fun h => by cases h), rfl, hown, hrecv, by rw [hret]; decide, rfl⟩

theorem viewScope_shape {s : Sig} (had : sigAdequate s = true) (hop : s.op = .viewScope) {x : Var} {d : Nat} {e : Entry}
    {res : Option Entry} (h : mkResult x d e (effRecv s).mode s.ret s.lts = some res) :
    ∃ ne, res = some ne ∧ DerivedShape e (effRecv s).mode x s.ownerK ne ∧ ne.kind = .scope ∧ s.ret ≠ .claimGuard ∧
      s.recv ≠ .value ∧ s.ownerK ≠ .pool ∧ s.ownerK ≠ .guard ∧ s.ownerK ≠ .coll := by
  unfold sigAdequate at had
  rw [hop] at had
  simp only [Bool.and_eq_true, bne_iff_ne, ne_eq] at had
  rcases had with ⟨⟨⟨⟨ho1, ho2⟩, ho3⟩, hnv⟩, hshape⟩
  cases hr : s.ret <;> rw [hr] at hshape h <;> (try simp only at hshape) <;> try (exact absurd hshape Bool.false_ne_true)
  · -- scopeRef
    rcases hl : s.lts with _ | ⟨l0, _ | ⟨l1, _ | _⟩⟩ <;> rw [hl] at hshape h <;> (try simp only at hshape) <;>
      try (exact absurd hshape Bool.false_ne_true)
    cases l0 <;> (try simp only at hshape) <;> try (exact absurd hshape Bool.false_ne_true)
    rcases evalLt_bounded hshape e (effRecv s).mode with ⟨P, hP, hPc⟩
    simp [mkResult, evalLt_recv, hP] at h
    subst h
    exact ⟨_, rfl, DerivedShape.mk' .scope .shrRef P (by decide) (by decide) hPc (fun h => absurd rfl h)
      (fun _ h => by cases h) (fun h => by cases h) (fun h => by cases h), rfl, by decide, hnv, ho1, ho2, ho3⟩
  · -- scopeMut
    rcases hl : s.lts with _ | ⟨l0, _ | ⟨l1, _ | _⟩⟩ <;> rw [hl] at hshape h <;> (try simp only at hshape) <;>
      try (exact absurd hshape Bool.false_ne_true)
    cases l0 <;> (try simp only at hshape) <;> try (exact absurd hshape Bool.false_ne_true)
    simp only [Bool.and_eq_true, beq_iff_eq] at hshape
    rcases evalLt_bounded hshape.2 e (effRecv s).mode with ⟨P, hP, hPc⟩
    simp [mkResult, evalLt_recv, hP] at h
    subst h
    exact ⟨_, rfl, DerivedShape.mk' .scope .mutRef P (by decide) (by decide) hPc (fun _ => mode_of_refMut hshape.1)
      (fun _ h => by cases h) (fun h => by cases h) (fun h => by cases h), rfl, by decide, hnv, ho1, ho2, ho3⟩
  · -- scopeVal
    rcases hl : s.lts with _ | ⟨l0, _ | _⟩ <;> rw [hl] at hshape h <;> (try simp only at hshape) <;>
      try (exact absurd hshape Bool.false_ne_true)
    cases l0 <;> (try simp only at hshape) <;> try (exact absurd hshape Bool.false_ne_true)
    simp only [beq_iff_eq] at hshape
    simp [mkResult, evalLt] at h
    subst h
    exact ⟨_, rfl, DerivedShape.mk' .scope .own _ (by decide) (by decide) (Or.inl rfl) (fun _ => mode_of_refMut hshape)
      (fun _ _ => rfl) (fun h => by cases h) (fun h => by cases h), rfl, by decide, hnv, ho1, ho2, ho3⟩

theorem viewSame_shape {s : Sig} (had : sigAdequate s = true) (hop : s.op = .viewSame) {x : Var} {d : Nat} {e : Entry}
    {res : Option Entry} (h : mkResult x d e (effRecv s).mode s.ret s.lts = some res) :
    ∃ ne, res = some ne ∧ DerivedShape e (effRecv s).mode x s.ownerK ne ∧ s.ret ≠ .claimGuard ∧ s.recv ≠ .value ∧
      ((s.ownerK = .bump ∧ ne.kind = .bump ∧ ne.param = .borrow e.var (effRecv s).mode :: e.self) ∨
       (s.ownerK = .scope ∧ ne.kind = .scope)) := by
  unfold sigAdequate at had
  rw [hop] at had
  simp only [Bool.and_eq_true, bne_iff_ne, ne_eq] at had
  rcases had with ⟨hnv, hshape⟩
  cases ho : s.ownerK <;> rw [ho] at hshape <;> (try simp only at hshape) <;> try (exact absurd hshape Bool.false_ne_true)
  · -- Bump
    cases hr : s.ret <;> rw [hr] at hshape h <;> (try simp only at hshape) <;> try (exact absurd hshape Bool.false_ne_true)
    · rcases hl : s.lts with _ | ⟨l0, _ | _⟩ <;> rw [hl] at hshape h <;> (try simp only at hshape) <;>
        try (exact absurd hshape Bool.false_ne_true)
      cases l0 <;> (try simp only at hshape) <;> try (exact absurd hshape Bool.false_ne_true)
      simp [mkResult, evalLt] at h
      subst h
      exact ⟨_, rfl, DerivedShape.mk' .bump .shrRef _ (by decide) (by decide) (Or.inl rfl) (fun h => absurd rfl h)
        (fun h => by cases h) (fun _ => by decide) (fun h => by cases h), by decide, hnv, Or.inl ⟨rfl, rfl, rfl⟩⟩
    · rcases hl : s.lts with _ | ⟨l0, _ | _⟩ <;> rw [hl] at hshape h <;> (try simp only at hshape) <;>
        try (exact absurd hshape Bool.false_ne_true)
      cases l0 <;> (try simp only at hshape) <;> try (exact absurd hshape Bool.false_ne_true)
      simp only [beq_iff_eq] at hshape
      simp [mkResult, evalLt] at h
      subst h
      exact ⟨_, rfl, DerivedShape.mk' .bump .mutRef _ (by decide) (by decide) (Or.inl rfl) (fun _ => mode_of_refMut hshape)
        (fun h => by cases h) (fun _ => by decide) (fun h => by cases h), by decide, hnv, Or.inl ⟨rfl, rfl, rfl⟩⟩
  · -- BumpScope
    cases hr : s.ret <;> rw [hr] at hshape h <;> (try simp only at hshape) <;> try (exact absurd hshape Bool.false_ne_true)
    · rcases hl : s.lts with _ | ⟨l0, _ | ⟨l1, _ | _⟩⟩ <;> rw [hl] at hshape h <;> (try simp only at hshape) <;>
        try (exact absurd hshape Bool.false_ne_true)
      cases l0 <;> (try simp only at hshape) <;> try (exact absurd hshape Bool.false_ne_true)
      rcases evalLt_bounded hshape e (effRecv s).mode with ⟨P, hP, hPc⟩
      simp [mkResult, evalLt_recv, hP] at h
      subst h
      exact ⟨_, rfl, DerivedShape.mk' .scope .shrRef P (by decide) (by decide) hPc (fun h => absurd rfl h)
        (fun _ h => by cases h) (fun h => by cases h) (fun h => by cases h), by decide, hnv, Or.inr ⟨rfl, rfl⟩⟩
    · rcases hl : s.lts with _ | ⟨l0, _ | ⟨l1, _ | _⟩⟩ <;> rw [hl] at hshape h <;> (try simp only at hshape) <;>
        try (exact absurd hshape Bool.false_ne_true)
      cases l0 <;> (try simp only at hshape) <;> try (exact absurd hshape Bool.false_ne_true)
      simp only [Bool.and_eq_true, beq_iff_eq] at hshape
      rcases evalLt_bounded hshape.2 e (effRecv s).mode with ⟨P, hP, hPc⟩
      simp [mkResult, evalLt_recv, hP] at h
      subst h
      exact ⟨_, rfl, DerivedShape.mk' .scope .mutRef P (by decide) (by decide) hPc (fun _ => mode_of_refMut hshape.1)
        (fun _ h => by cases h) (fun h => by cases h) (fun h => by cases h), by decide, hnv, Or.inr ⟨rfl, rfl⟩⟩

theorem claim_shape {s : Sig} (had : sigAdequate s = true) (hop : s.op = .claim) {x : Var} {d : Nat} {e : Entry}
    (hwf : ∀ l ∈ e.param, l ∈ e.self)
    {res : Option Entry} (h : mkResult x d e (effRecv s).mode s.ret s.lts = some res) :
    ∃ ne, res = some ne ∧ DerivedShape e (effRecv s).mode x s.ownerK ne ∧ ne.kind = .claim ∧ s.ret = .claimGuard ∧
      (s.ownerK = .bump ∨ s.ownerK = .scope ∨ s.ownerK = .trScope) := by
  unfold sigAdequate at had
  rw [hop] at had
  simp only [Bool.and_eq_true, Bool.or_eq_true, bne_iff_ne, ne_eq, beq_iff_eq] at had
  rcases had with ⟨⟨⟨_, hret⟩, hown⟩, hshape⟩
  rcases hl : s.lts with _ | ⟨l0, _ | ⟨l1, _ | _⟩⟩ <;> rw [hl] at hshape <;> (try simp only at hshape) <;>
    try (exact absurd hshape Bool.false_ne_true)
  cases l0 <;> (try simp only at hshape) <;> try (exact absurd hshape Bool.false_ne_true)
  rcases evalLt_bounded hshape e (effRecv s).mode with ⟨P, hP, hPc⟩
  rw [hret, hl] at h
  simp [mkResult, evalLt_recv, hP] at h
  subst h
  have hPsub : ∀ l ∈ P, l = .borrow e.var (effRecv s).mode ∨ l ∈ e.self := by
    intro l hl'
    rcases hPc with rfl | ⟨rfl, _⟩
    · exact List.mem_cons.1 hl'
    · exact Or.inr (hwf l hl')
  have hs3 : ∀ l ∈ Loan.borrow e.var (effRecv s).mode :: (e.self ++ P),
      l = .borrow e.var (effRecv s).mode ∨ l ∈ e.self ∨ ∃ k, l = Loan.frame k := by
    intro l hl'
    rcases List.mem_cons.1 hl' with h1 | h1
    · exact Or.inl h1
    · rcases List.mem_append.1 h1 with h2 | h2
      · exact Or.inr (Or.inl h2)
      · rcases hPsub l h2 with h3 | h3
        · exact Or.inl h3
        · exact Or.inr (Or.inl h3)
  have hsh : DerivedShape e (effRecv s).mode x s.ownerK
      ⟨x, .claim, .own, .borrow e.var (effRecv s).mode :: (e.self ++ P), P, true, d⟩ :=
    { var := rfl
      valid := rfl
      handle := (by simp [Entry.isHandle])
      self1 := List.mem_cons_self
      self2 := fun l hl => List.mem_cons_of_mem _ (List.mem_append_left _ hl)
      self3 := hs3
      param := (by
        rcases hPc with hP | hP
        · left
          rw [hP]
          exact ⟨fun l hl => by
                  rcases List.mem_cons.1 hl with h | h
                  · rw [h]; exact List.mem_cons_self
                  · exact List.mem_cons_of_mem _ (List.mem_append_left _ h),
                 List.mem_cons_self, fun l hl => List.mem_cons_of_mem _ hl⟩
        · exact Or.inr hP)
      excl := fun _ => effRecv_mode_claim hret
      ownScope := fun h => by cases h
      bumpRef := fun h => by cases h
      guardOwn := fun h => by cases h }
  refine ⟨_, rfl, hsh, rfl, hret, ?_⟩
  · rcases hown with (h1 | h1) | h1
    · exact Or.inl h1
    · exact Or.inr (Or.inl h1)
    · exact Or.inr (Or.inr h1)

/-- `addDerived` with the region hypotheses discharged from a `DerivedShape` -/
theorem derived_add {Γ1 : SEnv} {σ1 : DState} (inv1 : Inv Γ1 σ1) {e : Entry} (he1 : e ∈ Γ1.ents) (hv : e.valid = true)
    (heH : e.isHandle = true) {rh : Rt} (hrh : σ1.get e.var = some rh) {m : Mode} (hK : NoConflict Γ1 e.var m)
    {x : Var} {o : Owner} {ne : Entry} (sh : DerivedShape e m x o ne) (hfresh : x ∉ Γ1.used)
    (hacc : m = .mut → e.acc ≠ .shrRef)
    (hender : (e.kind = .guard ∨ (e.kind = .bump ∧ e.acc ≠ .shrRef)) → Loan.borrow e.var m ∈ ne.param)
    (rn : Rt) (hrk : rn.kind = ne.kind) (hra : rn.arena = rh.arena) (hro : rn.own = false)
    (hep : ∀ n, rn.epoch = some n → ne.kind = .guard ∧ n < σ1.next ∧ n ∈ σ1.epochs rh.arena ∧
           (σ1.epochs rh.arena).head? ≠ some n ∧
           (∀ ex ∈ σ1.epochs rh.arena, ex ∉ cutAt n (σ1.epochs rh.arena) → ex = n) ∧
           (∀ v ∈ Γ1.ents, v.valid = true → v.kind = .val → ∀ rv, σ1.get v.var = some rv → rv.epoch ≠ some n))
    (hnoVals : ne.kind = .bump → ne.acc ≠ .shrRef → ∀ v ∈ Γ1.ents, v.valid = true → v.kind = .val →
           ∀ rv, σ1.get v.var = some rv → ∀ ex, rv.epoch = some ex → rv.arena ≠ rh.arena) :
    Inv { Γ1 with ents := ne :: Γ1.ents, used := x :: Γ1.used } (σ1.set x rn) := by
  have hc := inv1.closed e he1 hv
  have hvar := sh.var
  subst hvar
  have hsubP : ∀ l ∈ ne.param, l ∈ ne.self := by
    intro l hl
    rcases sh.param with ⟨hp, _, _⟩ | ⟨hp, _⟩
    · exact hp l hl
    · rw [hp] at hl; exact sh.self2 l (hc.1 l hl)
  apply inv1.addDerived he1 hv heH hrh m hK ne rn hfresh sh.valid sh.handle hrk hra hro sh.self1 sh.self2 sh.self3
  · exact hsubP
  · intro l hl
    rcases sh.param with ⟨_, _, hp⟩ | ⟨hp, _⟩
    · exact hp l (hc.1 l hl)
    · rw [hp]; exact hl
  · exact hender
  · -- the allocation region of the new handle is closed
    intro p mo hp ep hep hpv l hl
    rcases sh.param with ⟨hp1, _, hp3⟩ | ⟨hpar, _⟩
    · rcases sh.self3 _ (hp1 _ hp) with h | h | ⟨k, h⟩
      · cases h
        have := inv1.eq_of_var_eq hep he1 hpv
        subst this
        exact hp3 l hl
      · rcases hc.2.1 p mo h with ⟨ep0, hep0, h1, _, _, h4⟩
        have := inv1.eq_of_var_eq hep hep0 (hpv.trans h1.symm)
        subst this
        exact hp3 l (h4 l hl)
      · cases h
    · rw [hpar] at hp ⊢
      exact hc.2.2.2 p mo hp ep hep hpv l hl
  · intro h
    have := sh.excl h
    exact ⟨this, hacc this⟩
  · exact sh.ownScope
  · exact sh.bumpRef
  · exact sh.guardOwn
  · exact hep
  · exact hnoVals

theorem ownerKinds_scopes {o : Owner} {e : Entry} (h : ownerKinds o e)
    (ho : o ≠ .pool ∧ o ≠ .guard ∧ o ≠ .coll) : e.kind.scopes = true ∧ e.isHandle = true := by
  unfold ownerKinds at h
  cases o <;> simp only at h <;> simp at ho
  all_goals (first
    | (rcases h with h | h | h | ⟨h, _⟩ <;> simp [h, Kind.scopes, Entry.isHandle])
    | (rcases h with h | h | h <;> simp [h, Kind.scopes, Entry.isHandle])
    | (rcases h with h | h <;> simp [h, Kind.scopes, Entry.isHandle])
    | simp [h, Kind.scopes, Entry.isHandle])

/-- a receiver that can itself end epochs (a guard, an exclusive `Bump`) is only reached through owners without an
    allocation lifetime of their own, so whatever it hands out is tied to the borrow of the receiver -/
theorem ender_owner_noParam {o : Owner} {e : Entry} (h : ownerKinds o e)
    (he : e.kind = .guard ∨ (e.kind = .bump ∧ e.acc ≠ .shrRef)) : o.hasParam = false := by
  unfold ownerKinds at h
  cases o <;> simp only at h <;> simp [Owner.hasParam]
  all_goals (rcases he with he | ⟨he, ha⟩ <;> simp_all)

theorem mode_mut_of_recv {recv : Recv} (h : recv.mode = .mut) : recv = .refMut ∨ recv = .value := by
  cases recv <;> simp [Recv.mode] at h ⊢

/-- the common static + binding part of every call that creates a derived handle (no change of epochs in between) -/
theorem call_derived {t : Table} (hok : sigOK t = true) {Γ Γ' Γ1 : SEnv} {σ : DState} (inv : Inv Γ σ)
    {sig : Sig} {e : Entry} {x : Var} {ne : Entry}
    (he : e ∈ Γ.ents) (hv : e.valid = true) {r : Rt} (hr : σ.get e.var = some r) (heH : e.isHandle = true)
    (happ : applicable t sig.ownerK e = true) (hacc : Γ.access e (effRecv sig) = .ok Γ1)
    (hnv : effRecv sig ≠ .value)
    (sh : DerivedShape e (effRecv sig).mode x sig.ownerK ne) (hdecl : Γ1.declare ne = .ok Γ')
    (rn : Rt) (hrk : rn.kind = ne.kind) (hra : rn.arena = r.arena) (hro : rn.own = false) (hre : rn.epoch = none)
    (hbumpmut : ne.kind = .bump → ne.acc ≠ .shrRef → e.kind = .bump) :
    Inv Γ' (σ.set x rn) := by
  have himpl := sigOK_impls hok
  have hkinds := applicable_kinds himpl happ
  rcases access_afterUse inv he hv hacc with ⟨inv1, hau, hkeepE, hmutacc, _⟩
  rcases declare_ok hdecl with ⟨hfresh, rfl⟩
  have hvar := sh.var
  have he1 : e ∈ Γ1.ents := hkeepE hnv
  have hr1 : σ.get e.var = some r := hr
  have haccm : (effRecv sig).mode = .mut → e.acc ≠ .shrRef := by
    intro hm
    rcases mode_mut_of_recv hm with h | h
    · exact hmutacc h
    · exact absurd h hnv
  rw [hvar] at hfresh ⊢
  apply derived_add inv1 he1 hv heH hr1 hau.noConflict sh hfresh haccm _ rn hrk hra hro
  · intro n hn; rw [hre] at hn; cases hn
  · -- a new exclusive `Bump` reference: the receiver is an exclusive `Bump`, every value of the arena borrowed from it
    intro hk hacc' v hv1 hvv hvk rv hrv ex hex harena
    have hek := hbumpmut hk hacc'
    have hm := sh.excl hacc'
    have heacc := haccm hm
    rcases hau.sub v hv1 hvv with ⟨hvΓ, hno⟩
    rw [hm] at hno; simp only at hno
    apply inv.no_val_covered he hv hr hvΓ hvv hvk hno hrv hex
    exact ⟨Or.inr (Or.inl ⟨hek, heacc, harena.symm⟩), fun hg => by rw [hek] at hg; cases hg⟩
  · intro hend
    rcases sh.param with ⟨_, hp, _⟩ | ⟨_, hp⟩
    · exact hp
    · rw [ender_owner_noParam hkinds hend] at hp; cases hp

theorem Typed.kind_ne {σ : DState} {e : Entry} {r : Rt} (ht : Typed σ e r) (heH : e.isHandle = true) :
    r.kind ≠ .val ∧ r.kind ≠ .pool ∧ σ.epochs r.arena ≠ [] := by
  refine ⟨?_, ?_, ht.2.2.2.1 heH⟩ <;> rw [ht.1] <;> simp [Entry.isHandle] at heH
  · exact heH.1
  · exact heH.2

theorem call_viewScope {t : Table} (hok : sigOK t = true) {Γ Γ' Γ1 : SEnv} {σ : DState} (inv : Inv Γ σ)
    {sig : Sig} {e : Entry} {res : Option Entry} {x : Var}
    (hs : sig ∈ t.sigs) (hop : sig.op = .viewScope) (he : e ∈ Γ.ents) (hv : e.valid = true)
    (happ : applicable t sig.ownerK e = true) (hacc : Γ.access e (effRecv sig) = .ok Γ1)
    (hres : mkResult x Γ.depth e (effRecv sig).mode sig.ret sig.lts = some res)
    (hdecl : DeclRes Γ1 Γ' res) :
    ∃ σ', runCall σ x e.var .viewScope = .ok σ' ∧ Inv Γ' σ' := by
  rcases inv.get_of_valid he hv with ⟨r, hr, ht⟩
  rcases viewScope_shape (sigOK_sig hok hs) hop hres with ⟨ne, rfl, sh, hk, hnc, hnv, ho1, ho2, ho3⟩
  simp only [DeclRes] at hdecl
  have hkinds := applicable_kinds (sigOK_impls hok) happ
  rcases ownerKinds_scopes hkinds ⟨ho1, ho2, ho3⟩ with ⟨hsc, heH⟩
  rcases ht.kind_ne heH with ⟨hk1, hk2, hlive⟩
  refine ⟨σ.set x (Rt.hdl .scope r.arena), ?_, ?_⟩
  · rw [runCall_handle hr hk1 hk2 hlive]; simp [ht.1, hsc]
  · exact call_derived hok inv he hv hr heH happ hacc (by rw [effRecv_of_not_claim hnc]; exact hnv) sh hdecl
      (Rt.hdl .scope r.arena) (by rw [hk]; rfl) rfl rfl rfl (fun h => by rw [hk] at h; cases h)

theorem call_viewSame {t : Table} (hok : sigOK t = true) {Γ Γ' Γ1 : SEnv} {σ : DState} (inv : Inv Γ σ)
    {sig : Sig} {e : Entry} {res : Option Entry} {x : Var}
    (hs : sig ∈ t.sigs) (hop : sig.op = .viewSame) (he : e ∈ Γ.ents) (hv : e.valid = true)
    (happ : applicable t sig.ownerK e = true) (hacc : Γ.access e (effRecv sig) = .ok Γ1)
    (hres : mkResult x Γ.depth e (effRecv sig).mode sig.ret sig.lts = some res)
    (hdecl : DeclRes Γ1 Γ' res) :
    ∃ σ', runCall σ x e.var .viewSame = .ok σ' ∧ Inv Γ' σ' := by
  rcases inv.get_of_valid he hv with ⟨r, hr, ht⟩
  rcases viewSame_shape (sigOK_sig hok hs) hop hres with ⟨ne, rfl, sh, hnc, hnv, hcase⟩
  simp only [DeclRes] at hdecl
  have hkinds := applicable_kinds (sigOK_impls hok) happ
  have hnv' : effRecv sig ≠ .value := by rw [effRecv_of_not_claim hnc]; exact hnv
  rcases hcase with ⟨ho, hk, _⟩ | ⟨ho, hk⟩
  · -- on a `Bump`
    rw [ho] at hkinds; simp only [ownerKinds] at hkinds
    have heH : e.isHandle = true := by simp [Entry.isHandle, hkinds]
    rcases ht.kind_ne heH with ⟨hk1, hk2, hlive⟩
    refine ⟨σ.set x (Rt.hdl .bump r.arena), ?_, ?_⟩
    · rw [runCall_handle hr hk1 hk2 hlive]; simp [ht.1, hkinds]
    · exact call_derived hok inv he hv hr heH happ hacc hnv' sh hdecl (Rt.hdl .bump r.arena) (by rw [hk]; rfl) rfl rfl rfl
        (fun _ _ => hkinds)
  · -- on a `BumpScope` (possibly through a claim guard / pool guard)
    rw [ho] at hkinds; simp only [ownerKinds] at hkinds
    have hfacts : e.kind.scopes = true ∧ e.isHandle = true ∧ e.kind ≠ .bump := by
      rcases hkinds with h | h | h <;> simp [h, Kind.scopes, Entry.isHandle]
    rcases hfacts with ⟨hsc, heH, hnb⟩
    rcases ht.kind_ne heH with ⟨hk1, hk2, hlive⟩
    refine ⟨σ.set x (Rt.hdl .scope r.arena), ?_, ?_⟩
    · rw [runCall_handle hr hk1 hk2 hlive]
      simp [ht.1, hsc]
      intro h; exact absurd h hnb
    · exact call_derived hok inv he hv hr heH happ hacc hnv' sh hdecl (Rt.hdl .scope r.arena) (by rw [hk]; rfl) rfl rfl rfl
        (fun h => by rw [hk] at h; cases h)

theorem call_claim {t : Table} (hok : sigOK t = true) {Γ Γ' Γ1 : SEnv} {σ : DState} (inv : Inv Γ σ)
    {sig : Sig} {e : Entry} {res : Option Entry} {x : Var}
    (hs : sig ∈ t.sigs) (hop : sig.op = .claim) (he : e ∈ Γ.ents) (hv : e.valid = true)
    (happ : applicable t sig.ownerK e = true) (hacc : Γ.access e (effRecv sig) = .ok Γ1)
    (hres : mkResult x Γ.depth e (effRecv sig).mode sig.ret sig.lts = some res)
    (hdecl : DeclRes Γ1 Γ' res) :
    ∃ σ', runCall σ x e.var .claim = .ok σ' ∧ Inv Γ' σ' := by
  rcases inv.get_of_valid he hv with ⟨r, hr, ht⟩
  rcases claim_shape (sigOK_sig hok hs) hop (inv.closed e he hv).1 hres with ⟨ne, rfl, sh, hk, hret, hown⟩
  simp only [DeclRes] at hdecl
  have hkinds := applicable_kinds (sigOK_impls hok) happ
  have hfacts : e.kind.scopes = true ∧ e.isHandle = true := by
    rcases hown with ho | ho | ho <;> rw [ho] at hkinds <;> simp only [ownerKinds] at hkinds
    · simp [hkinds, Kind.scopes, Entry.isHandle]
    · rcases hkinds with h | h | h <;> simp [h, Kind.scopes, Entry.isHandle]
    · simp [hkinds, Kind.scopes, Entry.isHandle]
  rcases hfacts with ⟨hsc, heH⟩
  rcases ht.kind_ne heH with ⟨hk1, hk2, hlive⟩
  have hnv : effRecv sig ≠ .value := by unfold effRecv; simp [hret]
  refine ⟨σ.set x (Rt.hdl .claim r.arena), ?_, ?_⟩
  · rw [runCall_handle hr hk1 hk2 hlive]; simp [ht.1, hsc]
  · exact call_derived hok inv he hv hr heH happ hacc hnv sh hdecl (Rt.hdl .claim r.arena) (by rw [hk]; rfl) rfl rfl rfl
      (fun h => by rw [hk] at h; cases h)

theorem DState.epochs_push_self {σ : DState} {a : Nat} (h : a < σ.arenas.length) :
    (σ.push a).2.epochs a = σ.epochs a ++ [σ.next] := by
  rw [DState.push_eq]; exact DState.epochs_withEpochs_self (Or.inl h) _

@[simp] theorem DState.get_push (σ : DState) (a : Nat) (v : Var) : (σ.push a).2.get v = σ.get v := rfl
@[simp] theorem DState.next_push (σ : DState) (a : Nat) : (σ.push a).2.next = σ.next + 1 := rfl

/-- the facts `addDerived` wants about a guard whose own epoch `σ.next` was just pushed on top of arena `a` -/
theorem fresh_guard_epoch {Γ : SEnv} {σ : DState} (inv : Inv Γ σ) {a : Nat} (hlive : σ.epochs a ≠ []) :
    σ.next < (σ.push a).2.next ∧ σ.next ∈ (σ.push a).2.epochs a ∧ ((σ.push a).2.epochs a).head? ≠ some σ.next ∧
    (∀ ex ∈ (σ.push a).2.epochs a, ex ∉ cutAt σ.next ((σ.push a).2.epochs a) → ex = σ.next) ∧
    (∀ v ∈ Γ.ents, v.valid = true → v.kind = .val → ∀ rv, σ.get v.var = some rv → rv.epoch ≠ some σ.next) := by
  have ha := DState.lt_of_epochs_ne_nil hlive
  have hnot : σ.next ∉ σ.epochs a := fun h => Nat.lt_irrefl _ ((inv.epochs a).2 _ h)
  rw [DState.epochs_push_self ha]
  refine ⟨Nat.lt_succ_self _, by simp, ?_, ?_, ?_⟩
  · cases hl : σ.epochs a with
    | nil => exact absurd hl hlive
    | cons y l =>
      simp
      intro hy
      exact hnot (by rw [hl, ← hy]; exact List.mem_cons_self)
  · intro ex hex hnc
    rw [cutAt_append_self hnot] at hnc
    rcases List.mem_append.1 hex with h | h
    · exact absurd h hnc
    · simpa using h
  · intro v hv hvv hvk rv hrv hex
    rcases inv.typed v hv hvv with ⟨r', hr', _, _, _, _, _, h6, _⟩
    rw [hrv] at hr'; cases hr'
    exact Nat.lt_irrefl _ (h6 _ hex)

theorem call_mkGuard {t : Table} (hok : sigOK t = true) {Γ Γ' Γ1 : SEnv} {σ : DState} (inv : Inv Γ σ)
    {sig : Sig} {e : Entry} {res : Option Entry} {x : Var}
    (hs : sig ∈ t.sigs) (hop : sig.op = .mkGuard) (he : e ∈ Γ.ents) (hv : e.valid = true)
    (happ : applicable t sig.ownerK e = true) (hacc : Γ.access e (effRecv sig) = .ok Γ1)
    (hres : mkResult x Γ.depth e (effRecv sig).mode sig.ret sig.lts = some res)
    (hdecl : DeclRes Γ1 Γ' res) :
    ∃ σ', runCall σ x e.var .mkGuard = .ok σ' ∧ Inv Γ' σ' := by
  rcases inv.get_of_valid he hv with ⟨r, hr, ht⟩
  rcases mkGuard_shape (sigOK_sig hok hs) hop hres with ⟨ne, rfl, sh, hk, hrecv, hnc, hparam, hown⟩
  simp only [DeclRes] at hdecl
  have hkinds := applicable_kinds (sigOK_impls hok) happ
  have hfacts : e.kind.scopes = true ∧ e.isHandle = true := by
    rcases hown with ho | ho | ho <;> rw [ho] at hkinds <;> simp only [ownerKinds] at hkinds
    · simp [hkinds, Kind.scopes, Entry.isHandle]
    · rcases hkinds with h | h | h <;> simp [h, Kind.scopes, Entry.isHandle]
    · rcases hkinds with h | h <;> simp [h, Kind.scopes, Entry.isHandle]
  rcases hfacts with ⟨hsc, heH⟩
  rcases ht.kind_ne heH with ⟨hk1, hk2, hlive⟩
  have heff : effRecv sig = .refMut := by rw [effRecv_of_not_claim hnc]; exact hrecv
  refine ⟨(σ.push r.arena).2.set x ⟨.guard, r.arena, some σ.next, false, []⟩, ?_, ?_⟩
  · rw [runCall_handle hr hk1 hk2 hlive]; simp [ht.1, hsc]
  · rcases access_afterUse inv he hv hacc with ⟨inv1, hau, hkeepE, hmutacc, _⟩
    rcases declare_ok hdecl with ⟨hfresh, rfl⟩
    have he1 : e ∈ Γ1.ents := hkeepE (by rw [heff]; decide)
    have inv1p := inv1.push r.arena (DState.lt_of_epochs_ne_nil hlive)
    rcases fresh_guard_epoch inv1 hlive with ⟨f1, f2, f3, f4, f5⟩
    rw [sh.var] at hfresh ⊢
    apply derived_add inv1p he1 hv heH (rh := r) (by simpa using hr) hau.noConflict sh hfresh
      (fun _ => hmutacc heff) (fun _ => by rw [hparam]; exact List.mem_cons_self) ⟨.guard, r.arena, some σ.next, false, []⟩ (by rw [hk]) rfl rfl
    · intro n hn
      have : n = σ.next := by simpa using hn.symm
      subst this
      exact ⟨hk, f1, f2, f3, f4, fun v hv1 hvv hvk rv hrv => f5 v hv1 hvv hvk rv (by simpa using hrv)⟩
    · intro hb; rw [hk] at hb; cases hb

/-! ### guard reset (and the conservative "a further scope() ends the epoch") -/

@[simp] theorem DState.get_endFrom (σ : DState) (a e : Nat) (v : Var) : (σ.endFrom a e).get v = σ.get v := rfl
@[simp] theorem DState.next_endFrom (σ : DState) (a e : Nat) : (σ.endFrom a e).next = σ.next := rfl

theorem DState.epochs_endFrom_self {σ : DState} {a : Nat} (h : a < σ.arenas.length) (e : Nat) :
    (σ.endFrom a e).epochs a = cutAt e (σ.epochs a) := by
  rw [DState.endFrom_eq]; exact DState.epochs_withEpochs_self (Or.inl h) _

theorem guardReset_sound {Γ : SEnv} {σ : DState} (inv : Inv Γ σ) {g : Entry} (hg : g ∈ Γ.ents) (hv : g.valid = true)
    (hk : g.kind = .guard) {r : Rt} (hr : σ.get g.var = some r) :
    Inv (Γ.useMut g.var) (σ.guardReset g.var r) ∧
    ∃ r', (σ.guardReset g.var r).get g.var = some r' ∧ r'.arena = r.arena := by
  rcases inv.typed g hg hv with ⟨r0, hr0, ht1, _, _, ht4, _, ht6, ht7⟩
  rw [hr] at hr0; cases hr0
  have inv1 := inv.useMut g.var
  have hgH : g.isHandle = true := by simp [Entry.isHandle, hk]
  have hlive := ht4 hgH
  have ha := DState.lt_of_epochs_ne_nil hlive
  unfold DState.guardReset
  cases hep : r.epoch with
  | none => exact ⟨inv1, r, hr, rfl⟩
  | some eg =>
    simp only
    by_cases hm : (σ.epochs r.arena).contains eg = true
    · rw [if_pos hm]
      have hmem : eg ∈ σ.epochs r.arena := by simpa using hm
      have hg1 : g ∈ (Γ.useMut g.var).ents := inv.receiver_survives hg hv _ (fun l hl => hl)
      have hon : EnderOn σ g r r.arena := Or.inl ⟨hk, rfl, eg, hep, hmem⟩
      -- 1. the guard's epoch and everything above ends
      have inv2 : Inv (Γ.useMut g.var) (σ.endFrom r.arena eg) := by
        apply inv1.endFrom r.arena eg ha
        · intro _ _ _ _ _ _ _
          exact cutAt_ne_nil hlive (ht7 hk eg hep)
        · intro v hv1 hvv hvk rv hrv hb ex hex
          rcases mem_useMut_valid hv1 hvv with ⟨hvΓ, hno⟩
          have hin := (inv.vals v hvΓ hvv hvk rv hrv ex hex).1
          rw [hb] at hin
          by_cases hc : ex ∈ cutAt eg (σ.epochs r.arena)
          · exact hc
          · exfalso
            apply inv.no_val_covered hg hv hr hvΓ hvv hvk hno hrv hex
            rw [hb]
            exact ⟨hon, fun _ eg' heg' => by rw [hep] at heg'; cases heg'; exact hc⟩
      have hlive2 : (σ.endFrom r.arena eg).epochs r.arena ≠ [] := by
        rw [DState.epochs_endFrom_self ha]; exact cutAt_ne_nil hlive (ht7 hk eg hep)
      have ha2 : r.arena < (σ.endFrom r.arena eg).arenas.length := DState.lt_of_epochs_ne_nil hlive2
      -- 2. a new epoch begins
      have inv3 := inv2.push r.arena ha2
      rcases fresh_guard_epoch inv2 hlive2 with ⟨f1, f2, f3, f4, f5⟩
      simp only [DState.next_endFrom] at f1 f2 f3 f4 f5
      -- 3. it is the guard's own from now on
      refine ⟨?_, _, DState.get_set_self _ _ _, rfl⟩
      have hr3 : ((σ.endFrom r.arena eg).push r.arena).2.get g.var = some r := by simpa using hr
      apply inv3.rebind hg1 hv hr3 { r with epoch := some σ.next } rfl
      · refine ⟨ht1, ?_, ?_, ?_, ?_, ?_, ?_⟩
        · intro h; rw [hk] at h; cases h
        · intro h; rw [hk] at h; cases h
        · intro _
          show ((σ.endFrom r.arena eg).push r.arena).2.epochs r.arena ≠ []
          exact List.ne_nil_of_mem f2
        · intro h; rw [hk] at h; cases h
        · intro ex hex
          have : ex = σ.next := by simpa using hex.symm
          subst this; exact f1
        · intro _ eg' heg'
          have : eg' = σ.next := by simpa using heg'.symm
          subst this; exact f3
      · intro h; rw [hk] at h; cases h
      · -- old values: the guard's new epoch holds none of them
        intro v hv1 hvv hvk _ rv hrv ex hex hend
        exfalso
        have harena : rv.arena = r.arena := by
          rcases hend.1 with ⟨_, ha', _⟩ | ⟨hb, _⟩ | ⟨hp, _⟩
          · exact ha'.symm
          · rw [hk] at hb; cases hb
          · rw [hk] at hp; cases hp
        have hin := (inv3.vals v hv1 hvv hvk rv hrv ex hex).1
        rw [harena] at hin
        have hnc := hend.2 hk σ.next rfl
        rw [harena] at hnc
        have := f4 ex hin hnc
        exact f5 v hv1 hvv hvk rv (by simpa using hrv) (this ▸ hex)
      · -- old handles: they were covered by the guard before
        intro h hh hvh hH hne rh hrh hon'
        rcases mem_useMut_valid hh hvh with ⟨hhΓ, hno⟩
        right
        have harena : r.arena = rh.arena := by
          rcases hon' with ⟨_, ha', _⟩ | ⟨hb, _⟩ | ⟨hp, _⟩
          · exact ha'
          · rw [hk] at hb; cases hb
          · rw [hk] at hp; cases hp
        exact inv.handle_covered hg hv hr hhΓ hvh hH (Ne.symm hne) hno (by simpa using hrh) (harena ▸ hon)
    · rw [if_neg hm]
      exact ⟨inv1, r, hr, rfl⟩

theorem unit_shape {s : Sig} (had : sigAdequate s = true) (hop : s.op = .guardReset ∨ s.op = .resetAll) {x : Var} {d : Nat}
    {e : Entry} {m : Mode} {res : Option Entry} (h : mkResult x d e m s.ret s.lts = some res) :
    res = none ∧ s.recv = .refMut ∧ s.ret ≠ .claimGuard ∧
    (s.op = .guardReset → s.ownerK = .guard) ∧ (s.op = .resetAll → s.ownerK = .bump ∨ s.ownerK = .pool) := by
  unfold sigAdequate at had
  rcases hop with hop | hop <;> rw [hop] at had <;>
    simp only [Bool.and_eq_true, Bool.or_eq_true, beq_iff_eq] at had
  · rcases had with ⟨⟨⟨ho, hrecv⟩, hret⟩, hlts⟩
    rw [hret, hlts] at h
    simp [mkResult] at h
    exact ⟨h.symm, hrecv, by rw [hret]; decide, fun _ => ho, fun h' => by rw [hop] at h'; cases h'⟩
  · rcases had with ⟨⟨⟨ho, hrecv⟩, hret⟩, hlts⟩
    rw [hret, hlts] at h
    simp [mkResult] at h
    exact ⟨h.symm, hrecv, by rw [hret]; decide, fun h' => (by rw [hop] at h'; cases h'), fun _ => ho⟩

theorem call_guardReset {t : Table} (hok : sigOK t = true) {Γ Γ' Γ1 : SEnv} {σ : DState} (inv : Inv Γ σ)
    {sig : Sig} {e : Entry} {res : Option Entry} {x : Var}
    (hs : sig ∈ t.sigs) (hop : sig.op = .guardReset) (he : e ∈ Γ.ents) (hv : e.valid = true)
    (happ : applicable t sig.ownerK e = true) (hacc : Γ.access e (effRecv sig) = .ok Γ1)
    (hres : mkResult x Γ.depth e (effRecv sig).mode sig.ret sig.lts = some res)
    (hdecl : DeclRes Γ1 Γ' res) :
    ∃ σ', runCall σ x e.var .guardReset = .ok σ' ∧ Inv Γ' σ' := by
  rcases inv.get_of_valid he hv with ⟨r, hr, ht⟩
  rcases unit_shape (sigOK_sig hok hs) (Or.inl hop) hres with ⟨rfl, hrecv, hnc, hog, _⟩
  simp only [DeclRes] at hdecl
  subst hdecl
  have hkinds := applicable_kinds (sigOK_impls hok) happ
  rw [hog hop] at hkinds; simp only [ownerKinds] at hkinds
  have heH : e.isHandle = true := by simp [Entry.isHandle, hkinds]
  rcases ht.kind_ne heH with ⟨hk1, hk2, hlive⟩
  have heff : effRecv sig = .refMut := by rw [effRecv_of_not_claim hnc]; exact hrecv
  rw [heff] at hacc
  rcases access_ok hacc with ⟨h, _⟩ | ⟨_, _, rfl⟩ | ⟨h, _⟩
  · cases h
  · refine ⟨σ.guardReset e.var r, ?_, (guardReset_sound inv he hv hkinds hr).1⟩
    rw [runCall_handle hr hk1 hk2 hlive]; simp [ht.1, hkinds]
  · cases h

theorem call_guardScope {t : Table} (hok : sigOK t = true) {Γ Γ' Γ1 : SEnv} {σ : DState} (inv : Inv Γ σ)
    {sig : Sig} {e : Entry} {res : Option Entry} {x : Var}
    (hs : sig ∈ t.sigs) (hop : sig.op = .guardScope) (he : e ∈ Γ.ents) (hv : e.valid = true)
    (happ : applicable t sig.ownerK e = true) (hacc : Γ.access e (effRecv sig) = .ok Γ1)
    (hres : mkResult x Γ.depth e (effRecv sig).mode sig.ret sig.lts = some res)
    (hdecl : DeclRes Γ1 Γ' res) :
    ∃ σ', runCall σ x e.var .guardScope = .ok σ' ∧ Inv Γ' σ' := by
  rcases inv.get_of_valid he hv with ⟨r, hr, ht⟩
  rcases guardScope_shape (sigOK_sig hok hs) hop hres with ⟨ne, rfl, sh, hk, hog, hrecv, hnc, hparam⟩
  simp only [DeclRes] at hdecl
  have hkinds := applicable_kinds (sigOK_impls hok) happ
  rw [hog] at hkinds; simp only [ownerKinds] at hkinds
  have heH : e.isHandle = true := by simp [Entry.isHandle, hkinds]
  rcases ht.kind_ne heH with ⟨hk1, hk2, hlive⟩
  have heff : effRecv sig = .refMut := by rw [effRecv_of_not_claim hnc]; exact hrecv
  have hmode : (effRecv sig).mode = .mut := by rw [heff]; rfl
  rw [heff] at hacc
  rcases access_ok hacc with ⟨h, _⟩ | ⟨_, hacc', rfl⟩ | ⟨h, _⟩
  · cases h
  · refine ⟨(σ.guardReset e.var r).set x (Rt.hdl .scope r.arena), ?_, ?_⟩
    · rw [runCall_handle hr hk1 hk2 hlive]; simp [ht.1, hkinds]
    · rcases guardReset_sound inv he hv hkinds hr with ⟨inv2, r', hr', harena⟩
      rcases declare_ok hdecl with ⟨hfresh, rfl⟩
      have he1 : e ∈ (Γ.useMut e.var).ents := inv.receiver_survives he hv _ (fun l hl => hl)
      rw [sh.var] at hfresh ⊢
      rw [hmode] at sh hparam
      apply derived_add inv2 he1 hv heH hr' (noConflict_useMut Γ e.var) sh hfresh (fun _ => hacc')
        (fun _ => by rw [hparam]; exact List.mem_cons_self)
        (Rt.hdl .scope r.arena) (by rw [hk]; rfl) harena.symm rfl
      · intro n hn; cases hn
      · intro hb; rw [hk] at hb; cases hb
  · cases h

end Life
