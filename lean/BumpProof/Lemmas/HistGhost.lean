/-
  Lemmas/HistGhost.lean — for `Arena.Hist.Inv`: the guards of `stepCore` inverted
  (`validLayout`, `noPrepared`, `noFrames`), the relation `Stable` (ghost state untouched, chunks
  covered), case analyses of the position-only model functions, and `LiveOK` under position moves.
-/
import BumpProof.Lemmas.HistBasic

set_option linter.unusedSimpArgs false
set_option linter.unusedVariables false

namespace Arena.Hist
open Rs

variable {cfg : Cfg}

/-! ## power of two, `validLayout`, `noPrepared`, `noFrames` -/

theorem p2_of_is_power_of_two : ∀ a : Nat, Rs.is_power_of_two a = true → ∃ k, a = 2 ^ k := by
  intro a
  induction a using Nat.strongRecOn with
  | _ a ih =>
    intro h
    unfold Rs.is_power_of_two at h
    simp only [Bool.and_eq_true, bne_iff_ne, ne_eq, beq_iff_eq] at h
    obtain ⟨h0, hand⟩ := h
    by_cases h1 : a = 1
    · exact ⟨0, h1⟩
    · have hshift : (a >>> 1) &&& ((a - 1) >>> 1) = 0 := by
        rw [← Nat.shiftRight_and_distrib, hand]; simp
      simp only [Nat.shiftRight_eq_div_pow, Nat.pow_one] at hshift
      rcases Nat.mod_two_eq_zero_or_one a with hm | hm
      · have e : (a - 1) / 2 = a / 2 - 1 := by omega
        rw [e] at hshift
        have hb : Rs.is_power_of_two (a / 2) = true := by
          unfold Rs.is_power_of_two
          simp only [Bool.and_eq_true, bne_iff_ne, ne_eq, beq_iff_eq]
          exact ⟨by omega, hshift⟩
        obtain ⟨k, hk⟩ := ih (a / 2) (by omega) hb
        exact ⟨k + 1, by rw [Nat.pow_succ]; omega⟩
      · have e : (a - 1) / 2 = a / 2 := by omega
        rw [e, Nat.and_self] at hshift
        omega

theorem validLayout_valid {L : Layout} {u : Unit} (h : validLayout L = .ok u) : L.Valid := by
  unfold validLayout at h
  split at h
  · rename_i hc
    simp only [Bool.and_eq_true, decide_eq_true_eq] at hc
    obtain ⟨⟨_, hp⟩, hs⟩ := hc
    obtain ⟨k, hk⟩ := p2_of_is_power_of_two _ hp
    refine ⟨⟨k, ?_, hk⟩, hs⟩
    have himax : Rs.IMAX < 2 ^ 63 := by decide
    have : 2 ^ k ≤ 2 ^ 63 := by rw [← hk]; omega
    by_cases hlt : k < 64
    · exact hlt
    · exfalso
      have : 2 ^ 64 ≤ 2 ^ k := Nat.pow_le_pow_right (by decide) (by omega)
      have : (2:Nat) ^ 63 < 2 ^ 64 := by decide
      omega
  · cases h

theorem noPrepared_ok {s : State} {u : Unit} (h : noPrepared s = .ok u) : s.prepared = none := by
  unfold noPrepared at h
  split at h
  · rename_i hc; simpa using hc
  · cases h

theorem noFrames_ok {s : State} {u : Unit} (h : noFrames s = .ok u) : s.frames = [] := by
  unfold noFrames at h
  split at h
  · rename_i hc; simpa using hc
  · cases h

theorem minAlignOK_of_check {n : Nat} (h : (n == 1 || n == 2 || n == 4 || n == 8 || n == 16) = true) : MinAlignOK n := by
  simp only [Bool.or_eq_true, beq_iff_eq] at h
  unfold MinAlignOK
  omega

theorem minAlignOK_of_not_check {n : Nat}
    (h : ¬ ((!(n == 1 || n == 2 || n == 4 || n == 8 || n == 16)) = true)) : MinAlignOK n := by
  unfold MinAlignOK
  simp only [Bool.not_eq_true', Bool.not_eq_false, Bool.or_eq_true, beq_iff_eq, Bool.not_eq_eq_eq_not, Bool.not_true,
    Bool.or_eq_false_iff, beq_eq_false_iff_ne, ne_eq, not_and, Decidable.not_not] at h
  omega

/-! ## `Stable`: the ghost state is untouched and every chunk is still there -/

structure Stable (s s' : State) : Prop where
  live : s'.live = s.live
  frames : s'.frames = s.frames
  nextId : s'.nextId = s.nextId
  userCps : s'.userCps = s.userCps
  prepared : s'.prepared = s.prepared
  cov : ChunksCov s s'

theorem Stable.refl (s : State) : Stable s s := ⟨rfl, rfl, rfl, rfl, rfl, ChunksCov.refl s⟩

theorem Stable.trans {a b c : State} (h1 : Stable a b) (h2 : Stable b c) : Stable a c :=
  ⟨h2.live.trans h1.live, h2.frames.trans h1.frames, h2.nextId.trans h1.nextId, h2.userCps.trans h1.userCps,
   h2.prepared.trans h1.prepared, h1.cov.trans h2.cov⟩

theorem Stable.of_ext {n : Nat} {s s' : State} (h : Ledger.Ext n s s') : Stable s s' :=
  ⟨h.live, h.frames, h.nextId, h.userCps, h.prepared, ChunksCov.of_ext h⟩

theorem Stable.of_onlyData {s s' : State} (h : Mem.OnlyDataChanged s s') : Stable s s' := by
  obtain ⟨h1, h2⟩ := h
  refine ⟨by rw [h1], by rw [h1], by rw [h1], by rw [h1], by rw [h1], ChunksCov.of_geom h2⟩

theorem Stable.setPos (s : State) (i p : Nat) : Stable s (setPos s i p) :=
  ⟨rfl, rfl, rfl, rfl, rfl, ChunksCov.setPos s i p⟩

theorem Stable.setCurPos (s : State) (p : Nat) : Stable s (setCurPos s p) := by
  unfold Arena.setCurPos
  split
  · exact Stable.setPos s _ p
  · exact Stable.refl s

theorem Stable.withCur (s : State) (c : Cur) : Stable s { s with cur := c } :=
  ⟨rfl, rfl, rfl, rfl, rfl, ChunksCov.refl s⟩

theorem Stable.liveSub {s s' : State} (h : Stable s s') : LiveSub s s' := LiveSub.of_eq h.live

/-! ## Case analyses of the position-only functions -/

theorem resetToStart_cases (cfg : Cfg) (s : State) :
    resetToStart cfg s = s ∨
    ∃ i c rest, s.cur = .chunk i ∧ s.chunks = c :: rest ∧
      resetToStart cfg s = { s with chunks := c.resetPos cfg :: rest, cur := .chunk 0 } := by
  unfold resetToStart
  split
  · rename_i i hi
    split
    · exact Or.inl rfl
    · rename_i c rest hc
      exact Or.inr ⟨i, c, rest, hi, hc, rfl⟩
  · exact Or.inl rfl

theorem resetToStart_stable (cfg : Cfg) (s : State) : Stable s (resetToStart cfg s) := by
  rcases resetToStart_cases cfg s with h | ⟨i, c, rest, _, _, h⟩
  · rw [h]; exact Stable.refl s
  · rw [h]
    exact ⟨rfl, rfl, rfl, rfl, rfl, ChunksCov.of_shape (by rw [← h]; exact resetToStart_shape s)⟩

theorem resetToStart_cur (cfg : Cfg) (s : State) :
    (resetToStart cfg s).cur = s.cur ∨ ∃ j, (resetToStart cfg s).cur = .chunk j ∧ ∃ i, s.cur = .chunk i := by
  rcases resetToStart_cases cfg s with h | ⟨i, c, rest, hi, _, h⟩
  · rw [h]; exact Or.inl rfl
  · rw [h]; exact Or.inr ⟨0, rfl, i, hi⟩

theorem resetTo_stable {s s' : State} {cp : Checkpoint} (h : resetTo cfg s cp = .ok s') : Stable s s' := by
  rcases Mem.resetTo_inv h with ⟨_, rfl⟩ | ⟨i, c, p, _, _, _, rfl⟩
  · exact resetToStart_stable cfg s
  · exact ⟨rfl, rfl, rfl, rfl, rfl, ChunksCov.setPos s i p⟩

/-- after `reset_to` the arena is unallocated / claimed only if nothing happened -/
theorem resetTo_cur {s s' : State} {cp : Checkpoint} (h : resetTo cfg s cp = .ok s') :
    (s'.cur = s.cur ∧ s'.chunks = s.chunks) ∨ ∃ j, s'.cur = .chunk j := by
  rcases Mem.resetTo_inv h with ⟨_, rfl⟩ | ⟨i, c, p, _, _, _, rfl⟩
  · rcases resetToStart_cases cfg s with h | ⟨i, c, rest, hi, _, h⟩
    · rw [h]; exact Or.inl ⟨rfl, rfl⟩
    · rw [h]; exact Or.inr ⟨0, rfl⟩
  · exact Or.inr ⟨i, rfl⟩

/-- a sound checkpoint on which `reset_to` succeeded is a `CheckpointOK` one -/
theorem checkpointOK_of {s s' : State} {cp : Checkpoint} (hg : CpGeom cfg s cp) (h : resetTo cfg s cp = .ok s') :
    CheckpointOK cfg s cp := by
  unfold CpGeom at hg
  unfold CheckpointOK
  cases hk : cp.cur with
  | chunk i => rw [hk] at hg; exact hg
  | claimed => rw [hk] at hg; exact hg
  | unallocated =>
    simp only
    unfold resetTo at h
    rw [hk] at h
    cases hga : cfg.ga
    · rfl
    · simp [hga] at h

theorem alignTo_cases {s s' : State} {n : Nat} (h : alignTo cfg s n = .ok s') :
    s' = s ∨ ∃ i c p, s.cur = .chunk i ∧ s.chunks[i]? = some c ∧
      liftM (Gen.LibArith.align_pos cfg.up n c.pos) = .ok p ∧ s' = setPos s i p := by
  unfold alignTo at h
  simp only [bind, Except.bind, pure, Except.pure] at h
  split at h
  · split at h
    · rename_i i hi
      split at h
      · cases h; exact Or.inl rfl
      · rename_i c hc
        split at h
        · cases h
        · rename_i p hp
          cases h
          exact Or.inr ⟨i, c, p, hi, hc, hp, rfl⟩
    · cases h; exact Or.inl rfl
  · cases h; exact Or.inl rfl

theorem alignGuardDrop_cases {s s' : State} {n : Nat} (h : alignGuardDrop cfg s n = .ok s') :
    s' = s ∨ ∃ i c p, s.cur = .chunk i ∧ s.chunks[i]? = some c ∧
      liftM (Gen.LibArith.align_pos cfg.up n c.pos) = .ok p ∧ s' = setPos s i p := by
  unfold alignGuardDrop at h
  simp only [bind, Except.bind, pure, Except.pure] at h
  split at h
  · rename_i i hi
    split at h
    · cases h; exact Or.inl rfl
    · rename_i c hc
      split at h
      · cases h
      · rename_i p hp
        cases h
        exact Or.inr ⟨i, c, p, hi, hc, hp, rfl⟩
  · cases h; exact Or.inl rfl

theorem deallocate_stable {s s' : State} {ptr size : Nat} (h : deallocate cfg s ptr size = .ok s') : Stable s s' := by
  rcases Mem.deallocate_inv h with rfl | ⟨i, p, _, _, _, rfl⟩
  · exact Stable.refl _
  · exact Stable.setPos _ _ _

theorem deallocate_cur {s s' : State} {ptr size : Nat} (h : deallocate cfg s ptr size = .ok s') : s'.cur = s.cur := by
  rcases Mem.deallocate_inv h with rfl | ⟨i, p, _, _, _, rfl⟩ <;> rfl

/-! ## `LiveOK` when the position of the current chunk moves further into the free part -/

theorem minAlign_p2 {n : Nat} (h : MinAlignOK n) : Lemmas.P2 n ∧ n < 2 ^ 64 := by
  rcases h with h | h | h | h | h <;> rw [h]
  · exact ⟨⟨0, rfl⟩, by decide⟩
  · exact ⟨⟨1, rfl⟩, by decide⟩
  · exact ⟨⟨2, rfl⟩, by decide⟩
  · exact ⟨⟨3, rfl⟩, by decide⟩
  · exact ⟨⟨4, rfl⟩, by decide⟩

theorem liveOK_movePos {s : State} {i p : Nat} {c : Chunk} (hl : Mem.LiveOK cfg s)
    (hcur : s.cur = .chunk i) (hc : s.chunks[i]? = some c)
    (hp : if cfg.up then c.pos ≤ p else p ≤ c.pos) : Mem.LiveOK cfg (setPos s i p) := by
  refine ⟨hl.aligned, ?_, hl.disjoint⟩
  intro b hb hs
  obtain ⟨i', j, cj, h1, h2, h3, h4, h5⟩ := hl.placed b hb hs
  have hii : i' = i := by rw [hcur] at h1; cases h1; rfl
  subst hii
  by_cases hji : j = i'
  · subst hji
    rw [hc] at h3; cases h3
    refine ⟨j, j, _, hcur, Nat.le_refl _, Mem.setPos_getElem?_self hc p, h4, fun _ => ?_⟩
    have hside := h5 rfl
    unfold Mem.OnAllocatedSide at hside ⊢
    cases hup : cfg.up
    · simp only [hup, Bool.false_eq_true, ↓reduceIte] at hside hp ⊢; omega
    · simp only [hup, ↓reduceIte] at hside hp ⊢; omega
  · exact ⟨i', j, cj, hcur, h2, (Mem.setPos_getElem?_ne hji p).trans h3, h4, fun e => absurd e hji⟩

/-- `align_pos` moves a position towards the free side -/
theorem align_pos_dir {n x p : Nat} (hn : MinAlignOK n) (h : liftM (Gen.LibArith.align_pos cfg.up n x) = .ok p) :
    if cfg.up then x ≤ p else p ≤ x := by
  cases hup : cfg.up
  · simp only [Bool.false_eq_true, ↓reduceIte]
    rw [hup] at h
    exact Mem.align_pos_down_le h
  · simp only [↓reduceIte]
    rw [hup] at h
    exact Mem.align_pos_up_ge (minAlign_p2 hn).1 (minAlign_p2 hn).2 h

theorem liveOK_alignTo {s s' : State} {n : Nat} (hl : Mem.LiveOK cfg s) (hn : MinAlignOK n)
    (h : alignTo cfg s n = .ok s') : Mem.LiveOK cfg s' := by
  rcases alignTo_cases h with rfl | ⟨i, c, p, hcur, hc, hp, rfl⟩
  · exact hl
  · exact liveOK_movePos hl hcur hc (align_pos_dir hn hp)

theorem liveOK_alignGuardDrop {s s' : State} {n : Nat} (hl : Mem.LiveOK cfg s) (hn : MinAlignOK n)
    (h : alignGuardDrop cfg s n = .ok s') : Mem.LiveOK cfg s' := by
  rcases alignGuardDrop_cases h with rfl | ⟨i, c, p, hcur, hc, hp, rfl⟩
  · exact hl
  · exact liveOK_movePos hl hcur hc (align_pos_dir hn hp)

/-- the position of a chunk that is not the current one does not matter for `LiveOK` -/
theorem liveOK_moveOther {s : State} {j p : Nat} (hl : Mem.LiveOK cfg s) (hne : s.cur ≠ .chunk j) :
    Mem.LiveOK cfg (setPos s j p) := by
  refine ⟨hl.aligned, ?_, hl.disjoint⟩
  intro b hb hs
  obtain ⟨i, k, ck, h1, h2, h3, h4, h5⟩ := hl.placed b hb hs
  by_cases hkj : k = j
  · subst hkj
    have hki : k ≠ i := fun e => hne (e ▸ h1)
    exact ⟨i, k, _, h1, h2, Mem.setPos_getElem?_self h3 p, h4, fun e => absurd e hki⟩
  · exact ⟨i, k, ck, h1, h2, (Mem.setPos_getElem?_ne hkj p).trans h3, h4, h5⟩

theorem liveOK_alignChunkAt {s s' : State} {n : Nat} {st : Cur} (hl : Mem.LiveOK cfg s)
    (h : alignChunkAt cfg s n st = .ok s') : Mem.LiveOK cfg s' := by
  rcases alignChunkAt_cases h with rfl | ⟨j, c, p, _, hne, _, _, rfl⟩
  · exact hl
  · exact liveOK_moveOther hl hne

theorem alignChunkAt_stable {s s' : State} {n : Nat} {st : Cur} (h : alignChunkAt cfg s n st = .ok s') :
    Stable s s' := by
  rcases alignChunkAt_cases h with rfl | ⟨j, c, p, _, _, _, _, rfl⟩
  · exact Stable.refl _
  · exact Stable.setPos _ _ _

theorem alignTo_stable {s s' : State} {n : Nat} (h : alignTo cfg s n = .ok s') : Stable s s' := by
  rcases alignTo_cases h with rfl | ⟨i, c, p, _, _, _, rfl⟩
  · exact Stable.refl _
  · exact Stable.setPos _ _ _

theorem alignGuardDrop_stable {s s' : State} {n : Nat} (h : alignGuardDrop cfg s n = .ok s') : Stable s s' := by
  rcases alignGuardDrop_cases h with rfl | ⟨i, c, p, _, _, _, rfl⟩
  · exact Stable.refl _
  · exact Stable.setPos _ _ _

/-! ## The checkpoint taken now -/

theorem cpOK_checkpoint {g : GState} (h : Inv cfg g) : CpOK cfg g.s (checkpoint cfg g.s) g.s.nextId := by
  refine ⟨?_, Nat.le_refl _, fun b hb _ hs => C01.checkpoint_placedAt h.live hb hs⟩
  unfold CpGeom checkpoint
  simp only
  cases hcur : g.s.cur with
  | claimed => exact absurd hcur h.notClaimed
  | unallocated => trivial
  | chunk i =>
    obtain ⟨c, hi, hw, _⟩ := h.geom.curChunk hcur
    refine ⟨c, hi, ?_, ?_⟩
    · rw [curPos_chunk hcur hi]; exact hw.pos_ge
    · rw [curPos_chunk hcur hi]; exact hw.pos_le

end Arena.Hist
