/-
  Lemmas/Hist2Adv.lean — which constructors of `stepCore` can never make `stats().allocated()` smaller
  (`Adv cfg g.s g'.s`), from a state satisfying the invariant.
-/
import BumpProof.Lemmas.Hist2Stats
import BumpProof.Lemmas.Hist2Frames
import BumpProof.Lemmas.Hist2Claim
import BumpProof.Props.C13

set_option linter.unusedSimpArgs false
set_option linter.unusedVariables false

namespace Arena
/-- THE operations that can make `stats().allocated()` smaller: reclaiming the newest allocation (`deallocate`,
    `shrink`, `shrink_slice` — unless addressed through the opt-out wrapper), leaving a scope (`scopeExit`,
    `scopedAlignedExit`, `reset_to`), resetting (`reset`, `reset_to_start`) and `drop` -/
def Op.mayReclaim : Op → Bool
  | .drop => true
  | .deallocate _ via => via != .withoutDealloc
  | .shrink _ _ via => via != .withoutShrink
  | .shrinkSlice _ _ => true
  | .scopeExit => true
  | .scopedAlignedExit => true
  | .resetTo _ => true
  | .reset => true
  | .resetToStart => true
  | _ => false

def Op.isTryWith : Op → Bool
  | .allocTryWith _ _ _ _ _ _ => true
  | _ => false
end Arena

namespace Arena.Hist
open Rs Ledger

variable {cfg : Cfg}

/-- same chunk list and same current chunk as a state that did not decrease -/
theorem Adv.congr_right {s s' t : State} (h : Adv cfg s t) (h1 : s'.chunks = t.chunks) (h2 : s'.cur = t.cur) :
    Adv cfg s s' := by
  unfold Adv at h ⊢
  have : stats cfg s' = stats cfg t := by unfold stats; rw [h1, h2]
  rw [this]; exact h

theorem alignTo_adv {s s' : State} {n : Nat} (hn : MinAlignOK n) (h : alignTo cfg s n = .ok s') : Adv cfg s s' := by
  rcases alignTo_cases h with rfl | ⟨i, c, p, hcur, hc, hp, rfl⟩
  · exact Adv.refl _
  · exact adv_setPos hcur hc (align_pos_dir hn hp)

theorem alignGuardDrop_adv {s s' : State} {n : Nat} (hn : MinAlignOK n) (h : alignGuardDrop cfg s n = .ok s') :
    Adv cfg s s' := by
  rcases alignGuardDrop_cases h with rfl | ⟨i, c, p, hcur, hc, hp, rfl⟩
  · exact Adv.refl _
  · exact adv_setPos hcur hc (align_pos_dir hn hp)

/-- re-aligning the chunk a `BumpAlignGuard` started in (not the current one) changes no statistic -/
theorem alignChunkAt_adv {s s' : State} {n : Nat} {st : Cur} (h : alignChunkAt cfg s n st = .ok s') : Adv cfg s s' :=
  Adv.of_eq (congrArg (·.allocated) (stats_alignChunkAt h))

theorem writeRange_adv {s s' : State} {lo hi : Nat} {f : Nat → UInt8} (h : writeRange cfg s lo hi f = .ok s') :
    Adv cfg s s' := adv_onlyData (Mem.writeRange_onlyData h)

theorem zeroRange_adv {s s' : State} {a n : Nat} (h : zeroRange cfg s a n = .ok s') : Adv cfg s s' := writeRange_adv h

theorem copyBytes_adv {s s' : State} {a b n : Nat} {no : Bool} (h : copyBytes cfg s a b n no = .ok s') : Adv cfg s s' :=
  adv_onlyData (Mem.copyBytes_onlyData h)

/-- typed `reserve`: the current chunk and every position stay (a chunk may be appended) -/
theorem reserve_adv {s s' : State} (hg : GeomInv cfg s) {n : Nat} {r : Except AErr Unit}
    (h : reserve cfg s n = .ok (s', r)) : Adv cfg s s' := by
  obtain ⟨hext, _, _⟩ := reserve_frame h
  rcases reserve_cur h with hc | ⟨hc, _⟩
  · cases hcu : s.cur with
    | claimed => exact Adv.of_zero (Or.inl hcu)
    | unallocated => exact Adv.of_zero (Or.inr hcu)
    | chunk i =>
      obtain ⟨c, hci, _⟩ := hg.cur i hcu
      obtain ⟨c', hc', sp, hp⟩ := (hext (i+1)).chunk i c hci
      refine Adv.of_eq (stats_allocated_congr hcu (hc.trans hcu) hci hc' sp.1 sp.2.1 (hp (Nat.lt_succ_self i)) ?_)
      intro j _ x hx
      obtain ⟨x', hx', spx, _⟩ := (hext 0).chunk j x hx
      exact ⟨x', hx', spx.1, spx.2.1⟩
  · exact Adv.of_zero (Or.inr hc)

theorem reserveDyn_adv (hc : CfgOK cfg) {s s' : State} (hg : GeomInv cfg s) (hr : RespsOK cfg s) {n : Nat}
    {r : Except AErr Unit} (h : reserveDyn cfg s n = .ok (s', r)) : Adv cfg s s' := by
  unfold reserveDyn at h
  simp only [bind, Except.bind, pure, Except.pure] at h
  (repeat' split at h) <;> first | (cases h; done) | cases h
  · exact Adv.refl _
  · rename_i hl _ v hv
    obtain ⟨s1, r1⟩ := v
    have hlo : layoutOk n 1 = true := by
      cases hq : layoutOk n 1
      · rw [hq] at hl; exact absurd rfl hl
      · rfl
    exact allocGeneric_adv hc hg hr .range (Ledger.valid_of_layoutOk hlo) (custom_truthful _) (custom_truthful _)
      (fun _ => Nat.one_dvd _) hv

/-- take one constructor apart; every non-faulting path is left as a goal `Adv cfg g.s g'.s` with the final state
    reduced to the last state a model function produced -/
syntax "adv_op " ident : tactic
macro_rules
  | `(tactic| adv_op $h) =>
    `(tactic| (unfold stepCore at $h:ident
               simp only [bind, Except.bind, pure, Except.pure, throw, throwThe, MonadExceptOf.throw,
                 okOut, addBlock, removeBlock, killFrom, Bool.false_eq_true, ↓reduceIte, Bool.true_or, Bool.false_or] at $h:ident
               (repeat' split at $h:ident) <;>
                 (first | (cases $h:ident; done) | (cases $h:ident; rw [adv_iff]; (try dsimp only); rw [← adv_iff]))))

variable {g g' : GState} {out : Out}

theorem adv_newWithSize {n : Nat} (hs : stepCore cfg g (.newWithSize n) = .ok (g', out)) : Adv cfg g.s g'.s := by
  unfold stepCore at hs
  simp only [bind, Except.bind, pure, Except.pure] at hs
  split at hs
  · cases hs
  · rename_i hp
    exact Adv.of_zero (Or.inr (pristine_of_check hp).2)

theorem adv_newWithCapacity {L : Layout} (hs : stepCore cfg g (.newWithCapacity L) = .ok (g', out)) : Adv cfg g.s g'.s := by
  unfold stepCore at hs
  simp only [bind, Except.bind, pure, Except.pure] at hs
  split at hs
  · cases hs
  · split at hs
    · cases hs
    · rename_i hp
      exact Adv.of_zero (Or.inr (pristine_of_check hp).2)

theorem adv_newUnallocated (hs : stepCore cfg g .newUnallocated = .ok (g', out)) : Adv cfg g.s g'.s := by
  adv_op hs
  exact Adv.refl _

theorem adv_allocate (hi : Inv cfg g) (hr : RespsOK cfg g.s) {L : Layout} {z : Bool} {via : Via}
    (hs : stepCore cfg g (.allocate L z via) = .ok (g', out)) : Adv cfg g.s g'.s := by
  adv_op hs
  all_goals
    have hL := validLayout_valid (by assumption)
    first
    | exact alloc_adv hi.cfgOK hi.geom hr hL (by assumption)
    | exact (alloc_adv hi.cfgOK hi.geom hr hL (by assumption)).trans (zeroRange_adv (by assumption))

theorem adv_allocLayout (hi : Inv cfg g) (hr : RespsOK cfg g.s) {L : Layout} {hh : Hints}
    (hs : stepCore cfg g (.allocLayout L hh) = .ok (g', out)) : Adv cfg g.s g'.s := by
  adv_op hs
  all_goals
    have hL := validLayout_valid (by assumption)
    have hh : hh.sma = true → L.align ∣ L.size := sma_of_check (by assumption)
    exact allocGeneric_adv hi.cfgOK hi.geom hr .alloc hL hh (custom_truthful L) (fun hk => by cases hk) (by assumption)

theorem adv_prepare (hi : Inv cfg g) (hr : RespsOK cfg g.s) {L : Layout}
    (hs : stepCore cfg g (.prepare L) = .ok (g', out)) : Adv cfg g.s g'.s := by
  adv_op hs
  all_goals
    have hL := validLayout_valid (by assumption)
    have hd : L.align ∣ L.size := dvd_of_check (by assumption)
    exact allocGeneric_adv hi.cfgOK hi.geom hr .range hL (custom_truthful L) (custom_truthful L) (fun _ => hd) (by assumption)

theorem adv_prepareSlice (hi : Inv cfg g) (hr : RespsOK cfg g.s) {esize ealign minCap : Nat} {rev : Bool}
    (hp2 : Rs.is_power_of_two ealign = true)
    (hs : stepCore cfg g (.prepareSlice esize ealign minCap rev) = .ok (g', out)) : Adv cfg g.s g'.s := by
  adv_op hs
  all_goals first
    | exact Adv.refl _
    | (have hdv := prepareSlice_dvd (by assumption) (by assumption)
       have hL := layoutOk_valid hp2 (layoutOk_of_not (by assumption))
       exact allocGeneric_adv hi.cfgOK hi.geom hr .range hL (fun _ => hdv) (fun _ => hdv) (fun _ => hdv) (by assumption))

theorem adv_fillPrepared {len seed : Nat} (hs : stepCore cfg g (.fillPrepared len seed) = .ok (g', out)) :
    Adv cfg g.s g'.s := by
  adv_op hs
  exact writeRange_adv (by assumption)

theorem adv_abandonPrepared (hs : stepCore cfg g .abandonPrepared = .ok (g', out)) : Adv cfg g.s g'.s := by
  adv_op hs
  exact Adv.refl _

theorem adv_reserve (hi : Inv cfg g) (hr : RespsOK cfg g.s) {n : Nat} {dyn : Bool}
    (hs : stepCore cfg g (.reserve n dyn) = .ok (g', out)) : Adv cfg g.s g'.s := by
  cases dyn
  · adv_op hs
    all_goals exact reserve_adv hi.geom (by assumption)
  · adv_op hs
    all_goals exact reserveDyn_adv hi.cfgOK hi.geom hr (by assumption)

theorem adv_scopeEnter (hs : stepCore cfg g .scopeEnter = .ok (g', out)) : Adv cfg g.s g'.s := by
  adv_op hs
  exact Adv.refl _

theorem adv_checkpoint {k : Nat} (hs : stepCore cfg g (.checkpoint k) = .ok (g', out)) : Adv cfg g.s g'.s := by
  adv_op hs
  exact Adv.refl _

theorem adv_claim (hs : stepCore cfg g .claim = .ok (g', out)) : Adv cfg g.s g'.s := by
  adv_op hs
  exact Adv.refl _

theorem adv_claimEnd (hs : stepCore cfg g .claimEnd = .ok (g', out)) : Adv cfg g.s g'.s := by
  adv_op hs
  exact Adv.refl _

theorem adv_onClaimed {op : Op} (hs : stepCore cfg g (.onClaimed op) = .ok (g', out)) : Adv cfg g.s g'.s := by
  obtain ⟨_, ho⟩ := onClaimed_outcome hs
  cases ho with
  | panic msg _ _ e => subst e; exact Adv.refl _
  | refused e' _ e _ => subst e; exact Adv.refl _
  | dealloc b via _ _ e => subst e; exact Adv.of_chunks rfl rfl
  | shrunk b L via blk _ _ _ e => subst e; exact Adv.of_chunks rfl rfl

theorem adv_alignedEnter {n : Nat} (hs : stepCore cfg g (.alignedEnter n) = .ok (g', out)) : Adv cfg g.s g'.s := by
  adv_op hs
  · exact Adv.refl _
  · exact alignTo_adv (minAlignOK_of_not_check (by assumption)) (by assumption)

theorem adv_scopedAlignedEnter {n : Nat} (hs : stepCore cfg g (.scopedAlignedEnter n) = .ok (g', out)) :
    Adv cfg g.s g'.s := by
  adv_op hs
  exact alignTo_adv (minAlignOK_of_not_check (by assumption)) (by assumption)

theorem adv_withSettings {n : Nat} {ga cl : Bool} (hs : stepCore cfg g (.withSettings n ga cl) = .ok (g', out)) :
    Adv cfg g.s g'.s := by
  adv_op hs
  all_goals first
    | exact Adv.refl _
    | exact alignTo_adv (minAlignOK_of_not_check (by assumption)) (by assumption)

theorem adv_alignedExit (hi : Inv cfg g) (hs : stepCore cfg g .alignedExit = .ok (g', out)) : Adv cfg g.s g'.s := by
  adv_op hs
  · rename_i outer start rest hf _ v1 hv1 _ v hv
    have hfr := hi.frames
    rw [hf] at hfr
    have ho : MinAlignOK outer := by
      cases hm : g.marks <;> rw [hm] at hfr <;> exact hfr.1
    exact (alignGuardDrop_adv ho hv1).trans (alignChunkAt_adv hv)
  · exact Adv.refl _

theorem adv_write {b seed : Nat} (hs : stepCore cfg g (.write b seed) = .ok (g', out)) : Adv cfg g.s g'.s := by
  adv_op hs
  exact writeRange_adv (by assumption)

theorem adv_split {b a : Nat} (hs : stepCore cfg g (.split b a) = .ok (g', out)) : Adv cfg g.s g'.s := by
  adv_op hs
  exact Adv.refl _

/-! ## opt-outs of `deallocate` -/

theorem stats_deallocate_optout {b : Nat} {via : Via} (hopt : via = .withoutDealloc ∨ cfg.deallocates = false)
    (hs : stepCore cfg g (.deallocate b via) = .ok (g', out)) : stats cfg g'.s = stats cfg g.s := by
  unfold stepCore at hs
  simp only [bind, Except.bind, pure, Except.pure] at hs
  (repeat' split at hs) <;> first | (cases hs; done) | cases hs
  · rfl
  · rename_i hvia _ s' hd
    have : s' = g.s := by
      rcases hopt with rfl | hdis
      · exact absurd (by decide) hvia
      · rw [C13.deallocate_optout cfg g.s _ _ hdis] at hd
        cases hd; rfl
    subst this
    rfl

/-! ## `WithoutShrink` -/

theorem shrinkWithoutShrink_adv (hc : CfgOK cfg) {s s' : State} (hg : GeomInv cfg s) (hr : RespsOK cfg s)
    {ptr oldSize : Nat} {L : Layout} (hL : L.Valid) {r : Except AErr (Nat × Nat)}
    (h : shrinkWithoutShrink cfg s ptr oldSize L = .ok (s', r)) : Adv cfg s s' := by
  unfold shrinkWithoutShrink at h
  simp only [bind, Except.bind, pure, Except.pure] at h
  (repeat' split at h) <;> first | (cases h; done) | cases h
  · exact Adv.refl _
  · exact alloc_adv hc hg hr hL (by assumption)
  · exact (alloc_adv hc hg hr hL (by assumption)).trans (copyBytes_adv (by assumption))

theorem adv_shrink_withoutShrink (hi : Inv cfg g) (hr : RespsOK cfg g.s) {b : Nat} {L : Layout}
    (hs : stepCore cfg g (.shrink b L .withoutShrink) = .ok (g', out)) : Adv cfg g.s g'.s := by
  adv_op hs
  all_goals first
    | (have hne : ¬ (Via.withoutShrink == Via.withoutShrink) = true := by assumption
       exact absurd (by decide) hne)
    | (have hL := validLayout_valid (by assumption)
       exact shrinkWithoutShrink_adv hi.cfgOK hi.geom hr hL (by assumption))

/-! ## finalising a prepared allocation -/

theorem committed_adv {s s' : State} {addr size lo hi : Nat} (hcm : Committed cfg s s' addr size lo hi)
    {i : Nat} {c : Chunk} (hcur : s.cur = .chunk i) (hci : s.chunks[i]? = some c)
    (hside : if cfg.up then c.pos ≤ lo else hi ≤ c.pos) : Adv cfg s s' := by
  obtain ⟨s1, np, _, hod, rfl, hdir⟩ := hcm.mid
  have hcur1 : s1.cur = .chunk i := by rw [hod.1]; exact hcur
  obtain ⟨c1, hc1, hgm⟩ := Mem.getElem?_geom hod.2 hci
  have hpos : c1.pos = c.pos := by
    unfold Chunk.memGeom at hgm
    simp only [Prod.mk.injEq] at hgm
    exact hgm.2.2.1
  refine (adv_onlyData hod).trans (adv_setCurPos hcur1 hc1 ?_)
  rw [hpos]
  cases hup : cfg.up <;> simp only [hup, Bool.false_eq_true, ↓reduceIte] at hdir hside ⊢ <;> omega

theorem adv_commit (hi : Inv cfg g) {size : Nat} {rev : Bool}
    (hs : stepCore cfg g (.commit size rev) = .ok (g', out)) : Adv cfg g.s g'.s := by
  unfold stepCore at hs
  simp only [bind, Except.bind, pure, Except.pure] at hs
  split at hs
  · rename_i p hp
    have hpo := hi.prep p hp
    split at hs
    · cases hs
    · split at hs
      · cases hs
      · split at hs
        · cases hs
        · rename_i x hx
          obtain ⟨s', addr⟩ := x
          simp only at hs
          cases hs
          have hcm := allocatePrepared_cases (s := { g.s with prepared := none }) hi.geom.minAlign hx
          obtain ⟨i, c, hcur, hci, hlh, hside⟩ := hpo.range
          have : Adv cfg ({ g.s with prepared := none } : State) s' := by
            refine committed_adv hcm (i := i) (c := c) hcur hci ?_
            cases hup : cfg.up <;> simp only [hup, Bool.false_eq_true, ↓reduceIte] at hside ⊢
            · exact hside.2
            · exact hside.1
          exact Adv.congr_right (t := s') (this.trans (Adv.refl _)) rfl rfl |>.trans (Adv.refl _) |> fun h =>
            (Adv.of_chunks (cfg := cfg) (s := g.s) (s' := ({ g.s with prepared := none } : State)) rfl rfl).trans h
  · cases hs

theorem adv_commitSlice (hi : Inv cfg g) {len : Nat}
    (hs : stepCore cfg g (.commitSlice len) = .ok (g', out)) : Adv cfg g.s g'.s := by
  unfold stepCore at hs
  simp only [bind, Except.bind, pure, Except.pure] at hs
  split at hs
  · rename_i p hp
    have hpo := hi.prep p hp
    split at hs
    · cases hs
    · split at hs
      · cases hs
      · rename_i hchk
        have hlen : len ≤ (p.rend - p.rstart) / p.esize := by simpa using hchk
        split at hs
        · cases hs
        · rename_i x hx
          obtain ⟨s', addr⟩ := x
          simp only at hs
          cases hs
          obtain ⟨i, c, hcur, hci, hlh, hside⟩ := hpo.range
          have hcapm : (p.rend - p.rstart) / p.esize * p.esize ≤ p.rend - p.rstart := Nat.div_mul_le_self _ _
          have hrev : p.rev = true → (p.rend - p.rstart) / p.esize * p.esize ≤ (if p.rev then p.rend else p.rstart) := by
            intro hrv; rw [hrv]; simp only [↓reduceIte]; omega
          have hcm := allocatePreparedSlice_cases (s := { g.s with prepared := none }) hi.geom.minAlign hlen hrev hx
          have : Adv cfg ({ g.s with prepared := none } : State) s' := by
            refine committed_adv hcm (i := i) (c := c) hcur hci ?_
            cases hup : cfg.up <;> cases hrv : p.rev <;>
              simp only [hup, hrv, Bool.false_eq_true, ↓reduceIte] at hside ⊢ <;> omega
          exact (Adv.of_chunks (cfg := cfg) (s := g.s) (s' := ({ g.s with prepared := none } : State)) rfl rfl).trans
            (Adv.congr_right (t := s') this rfl rfl)
  · cases hs

/-! ## `grow` never gives anything back -/

theorem up_align_ge {x ma p : Nat} (hma : MinAlignOK ma)
    (h : liftM (Gen.LibArith.up_align_usize_unchecked x ma) = .ok p) : x ≤ p := by
  refine Mem.align_pos_up_ge (minAlign_p2 hma).1 (minAlign_p2 hma).2 (x := x) (ma := ma) ?_
  unfold Gen.LibArith.align_pos
  simp only [↓reduceIte]
  cases hq : Gen.LibArith.up_align_usize_unchecked x ma with
  | error e => rw [hq] at h; cases h
  | ok v => rw [hq] at h; simpa [bind, Except.bind, pure, Except.pure] using h

theorem down_align_le {x a p : Nat} (h : liftM (Gen.LibArith.down_align_usize x a) = .ok p) : p ≤ x := by
  refine Mem.align_pos_down_le (ma := a) (x := x) ?_
  unfold Gen.LibArith.align_pos
  simp only [Bool.false_eq_true, ↓reduceIte]
  cases hq : Gen.LibArith.down_align_usize x a with
  | error e => rw [hq] at h; cases h
  | ok v => rw [hq] at h; simpa [bind, Except.bind, pure, Except.pure] using h

theorem bump_down_le {x sz a p : Nat} (h : liftM (Gen.LibArith.bump_down x sz a) = .ok p) : p ≤ x := by
  unfold Gen.LibArith.bump_down at h
  simp only [bind, Except.bind, pure, Except.pure] at h
  cases hq : Gen.LibArith.down_align_usize (Rs.saturating_sub x sz) a with
  | error e => rw [hq] at h; cases h
  | ok v =>
    rw [hq] at h
    have : v = p := by simpa [liftM] using h
    subst this
    have h1 := down_align_le (x := Rs.saturating_sub x sz) (a := a) (p := v) (by rw [hq]; rfl)
    have h2 : Rs.saturating_sub x sz ≤ x := by unfold Rs.saturating_sub; omega
    omega

theorem curChunk_some {s : State} {c : Chunk} (h : curChunk? s = some c) : ∃ i, s.cur = .chunk i ∧ s.chunks[i]? = some c := by
  unfold curChunk? at h
  split at h
  · rename_i i hi; exact ⟨i, hi, h⟩
  · cases h

theorem grow_inplace_up_adv {s : State} {ptr oldSize newSize al t np : Nat} {c : Chunk} {u : Unit}
    (hup : cfg.up = true) (hlast : (isLast cfg s ptr oldSize && alignFits ptr al) = true)
    (hcc : curChunk? s = some c) (hsz : liftM (Rs.assert (decide (newSize ≥ oldSize))) = .ok u)
    (ht : liftM (Rs.add ptr newSize) = .ok t) (hnp : liftM (Gen.LibArith.up_align_usize_unchecked t s.minAlign) = .ok np)
    (hm : MinAlignOK s.minAlign) : Adv cfg s (setCurPos s np) := by
  obtain ⟨i, hcur, hci⟩ := curChunk_some hcc
  refine adv_setCurPos hcur hci ?_
  simp only [hup, ↓reduceIte]
  have hl : isLast cfg s ptr oldSize = true := by
    simp only [Bool.and_eq_true] at hlast; exact hlast.1
  unfold isLast at hl
  simp only [hup, ↓reduceIte, beq_iff_eq] at hl
  rw [curPos_chunk hcur hci] at hl
  have h1 := liftM_add_ok ht
  have h2 := up_align_ge hm hnp
  have h3 : oldSize ≤ newSize := of_decide_eq_true (Ledger.assert_eq_ok hsz)
  omega

theorem grow_inplace_down_adv {s s1 : State} {ptr oldSize add al newAddr a b n : Nat} {no : Bool} {c : Chunk}
    (hup : ¬ cfg.up = true) (hlast : isLast cfg s ptr oldSize = true) (hcc : curChunk? s = some c)
    (hna : liftM (Gen.LibArith.bump_down ptr add al) = .ok newAddr)
    (hcopy : copyBytes cfg s a b n no = .ok s1) : Adv cfg s (setCurPos s1 newAddr) := by
  obtain ⟨i, hcur, hci⟩ := curChunk_some hcc
  have hup' : cfg.up = false := by simpa using hup
  have hod := Mem.copyBytes_onlyData hcopy
  have hcur1 : s1.cur = .chunk i := by rw [hod.1]; exact hcur
  obtain ⟨c1, hc1, hgm⟩ := Mem.getElem?_geom hod.2 hci
  have hpos : c1.pos = c.pos := by
    unfold Chunk.memGeom at hgm
    simp only [Prod.mk.injEq] at hgm
    exact hgm.2.2.1
  refine (adv_onlyData hod).trans (adv_setCurPos hcur1 hc1 ?_)
  simp only [hup', Bool.false_eq_true, ↓reduceIte]
  unfold isLast at hlast
  simp only [hup', Bool.false_eq_true, ↓reduceIte, beq_iff_eq] at hlast
  rw [curPos_chunk hcur hci] at hlast
  have := bump_down_le hna
  omega

theorem inAnotherChunk_adv_pair (hc : CfgOK cfg) {s s1 : State} (h : GeomInv cfg s) (hr : RespsOK cfg s) {k : Kind}
    {L : Layout} {hints : Hints} (hL : L.Valid) (hh : hints.sma = true → L.align ∣ L.size)
    (hk : k = .range → L.align ∣ L.size) {v : State × Except AErr (Nat × Nat)} {α : Type} {x y : α}
    (hv : inAnotherChunk cfg k s L hints = .ok v) (he : (v.fst, x) = (s1, y)) : Adv cfg s s1 := by
  obtain ⟨v1, v2⟩ := v
  cases he
  exact inAnotherChunk_adv hc h hr k hL hh hk hv

theorem grow_adv (hc : CfgOK cfg) {s s' : State} (hg : GeomInv cfg s) (hr : RespsOK cfg s) {ptr oldSize : Nat}
    {L : Layout} (hL : L.Valid) {r : Except AErr Nat} (h : grow cfg s ptr oldSize L = .ok (s', r)) : Adv cfg s s' := by
  unfold grow at h
  simp only [bind, Except.bind, pure, Except.pure] at h
  (repeat' split at h) <;> first | (cases h; done) | (try cases h)
  all_goals first
    | exact grow_inplace_up_adv (by assumption) (by assumption) (by assumption) (by assumption) (by assumption)
        (by assumption) hg.minAlign
    | exact grow_inplace_down_adv (by assumption) (by assumption) (by assumption) (by assumption) (by assumption)
    | exact alloc_adv hc hg hr hL (by assumption)
    | exact (alloc_adv hc hg hr hL (by assumption)).trans (copyBytes_adv (by assumption))
    | exact inAnotherChunk_adv_pair (k := .alloc) hc hg hr hL (custom_truthful L) (fun hx => by cases hx) (by assumption) (by assumption)
    | exact (inAnotherChunk_adv_pair (k := .alloc) hc hg hr hL (custom_truthful L) (fun hx => by cases hx) (by assumption)
        (by assumption)).trans (copyBytes_adv (by assumption))

theorem adv_grow (hi : Inv cfg g) (hr : RespsOK cfg g.s) {b : Nat} {L : Layout} {z : Bool} {via : Via}
    (hs : stepCore cfg g (.grow b L z via) = .ok (g', out)) : Adv cfg g.s g'.s := by
  adv_op hs
  all_goals
    have hL := validLayout_valid (by assumption)
    first
    | exact grow_adv hi.cfgOK hi.geom hr hL (by assumption)
    | exact (grow_adv hi.cfgOK hi.geom hr hL (by assumption)).trans (zeroRange_adv (by assumption))

/-! ## `SHRINKS = false` -/

theorem shrink_optout_adv (hc : CfgOK cfg) {s s' : State} (hg : GeomInv cfg s) (hr : RespsOK cfg s)
    (hsh : cfg.shrinks = false) {ptr oldSize : Nat} {L : Layout} (hL : L.Valid) {r : Except AErr (Nat × Nat)}
    (h : shrink cfg s ptr oldSize L = .ok (s', r)) : Adv cfg s s' := by
  unfold shrink at h
  simp only [bind, Except.bind, pure, Except.pure, hsh, Bool.false_and, Bool.false_eq_true, ↓reduceIte, Bool.not_false,
    Bool.true_or] at h
  (repeat' split at h) <;> first | (cases h; done) | (try cases h)
  all_goals first
    | exact Adv.refl _
    | exact alloc_adv hc hg hr hL (by assumption)
    | exact (alloc_adv hc hg hr hL (by assumption)).trans (copyBytes_adv (by assumption))

theorem adv_shrink_optout (hi : Inv cfg g) (hr : RespsOK cfg g.s) (hsh : cfg.shrinks = false) {b : Nat} {L : Layout}
    {via : Via} (hs : stepCore cfg g (.shrink b L via) = .ok (g', out)) : Adv cfg g.s g'.s := by
  adv_op hs
  all_goals
    have hL := validLayout_valid (by assumption)
    first
    | exact shrinkWithoutShrink_adv hi.cfgOK hi.geom hr hL (by assumption)
    | exact shrink_optout_adv hi.cfgOK hi.geom hr hsh hL (by assumption)

theorem stats_shrinkSlice_optout (hsh : cfg.shrinks = false) {b n : Nat}
    (hs : stepCore cfg g (.shrinkSlice b n) = .ok (g', out)) : stats cfg g'.s = stats cfg g.s := by
  unfold stepCore at hs
  simp only [bind, Except.bind, pure, Except.pure] at hs
  (repeat' split at hs) <;> first | (cases hs; done) | skip
  all_goals
    rename_i hx
    rw [C13.shrinkSlice_optout cfg g.s _ _ _ _ hsh] at hx
    cases hx <;> cases hs <;> rfl

/-- EVERY constructor that is not in `Op.mayReclaim` (and is not `alloc_try_with`, see `Props/Hist2.lean`) never
    makes `stats().allocated()` smaller -/
theorem stepCore_adv {op : Op} (hcov : op.Covered) (hi : Inv cfg g) (hr : RespsOK cfg g.s)
    (h1 : op.mayReclaim = false) (h2 : op.isTryWith = false)
    (hs : stepCore cfg g op = .ok (g', out)) : Adv cfg g.s g'.s := by
  cases op with
  | drop => cases h1
  | reset => cases h1
  | resetToStart => cases h1
  | scopeExit => cases h1
  | scopedAlignedExit => cases h1
  | resetTo k => cases h1
  | shrinkSlice b n => cases h1
  | allocTryWith L off vsize ok inner m => cases h2
  | deallocate b via =>
    cases via <;> first | (cases h1; done) | skip
    exact Nat.le_of_eq (congrArg StatsOut.allocated (stats_deallocate_optout (Or.inl rfl) hs)).symm
  | shrink b L via =>
    cases via <;> first | (cases h1; done) | skip
    exact adv_shrink_withoutShrink hi hr hs
  | newWithSize n => exact adv_newWithSize hs
  | newWithCapacity L => exact adv_newWithCapacity hs
  | newUnallocated => exact adv_newUnallocated hs
  | allocate L z via => exact adv_allocate hi hr hs
  | grow b L z via => exact adv_grow hi hr hs
  | allocLayout L hh => exact adv_allocLayout hi hr hs
  | prepare L => exact adv_prepare hi hr hs
  | commit size rev => exact adv_commit hi hs
  | prepareSlice esize ealign minCap rev =>
    exact adv_prepareSlice hi hr (by simpa [Op.Covered, Op.covered] using hcov) hs
  | fillPrepared len seed => exact adv_fillPrepared hs
  | commitSlice len => exact adv_commitSlice hi hs
  | abandonPrepared => exact adv_abandonPrepared hs
  | reserve n dyn => exact adv_reserve hi hr hs
  | scopeEnter => exact adv_scopeEnter hs
  | checkpoint k => exact adv_checkpoint hs
  | claim => exact adv_claim hs
  | claimEnd => exact adv_claimEnd hs
  | onClaimed op' => exact adv_onClaimed hs
  | alignedEnter n => exact adv_alignedEnter hs
  | alignedExit => exact adv_alignedExit hi hs
  | scopedAlignedEnter n => exact adv_scopedAlignedEnter hs
  | withSettings n ga cl => exact adv_withSettings hs
  | write b seed => exact adv_write hs
  | split b at_ => exact adv_split hs

end Arena.Hist
