/-
  Lemmas/Hist2SfRun.lean — a claim frame below the regions opened since is invisible to every operation that is
  not addressed to the claimed handle: step-by-step simulation of a run with the frame by a run without it.
-/
import BumpProof.Lemmas.Hist2SfStep
import BumpProof.Lemmas.Hist2Forms
import BumpProof.Lemmas.Hist2Scope

set_option linter.unusedSimpArgs false
set_option linter.unusedVariables false

namespace Arena.Hist
open Rs Ledger

variable {cfg : Cfg}

/-- every frame-free constructor commutes with replacing the region stack -/
theorem sfo_all {op : Op} (hop : op.frameFree = true) (fs : List Frame) (g : GState) :
    stepCore cfg (gf fs g) op = (stepCore cfg g op).map (lg fs) := by
  cases op <;> first | (cases hop; done) | skip
  case newWithSize n => exact sfo_newWithSize fs g n
  case newWithCapacity L => exact sfo_newWithCapacity fs g L
  case newUnallocated => exact sfo_newUnallocated fs g
  case allocate L z via => exact sfo_allocate fs g L z via
  case deallocate b via => exact sfo_deallocate fs g b via
  case grow b L z via => exact sfo_grow fs g b L z via
  case shrink b L via => exact sfo_shrink fs g b L via
  case allocLayout L hh => exact sfo_allocLayout fs g L hh
  case shrinkSlice b n => exact sfo_shrinkSlice fs g b n
  case prepare L => exact sfo_prepare fs g L
  case commit size rev => exact sfo_commit fs g size rev
  case prepareSlice a b c d => exact sfo_prepareSlice fs g a b c d
  case fillPrepared a b => exact sfo_fillPrepared fs g a b
  case commitSlice len => exact sfo_commitSlice fs g len
  case abandonPrepared => exact sfo_abandonPrepared fs g
  case reserve n dyn => exact sfo_reserve fs g n dyn
  case checkpoint k => exact sfo_checkpoint fs g k
  case resetTo k => exact sfo_resetTo fs g k
  case allocTryWith L off vsize ok inner m => exact sfo_allocTryWith fs g L off vsize ok inner m
  case write b seed => exact sfo_write fs g b seed
  case split b a => exact sfo_split fs g b a

theorem map_eq_ok {α β : Type} {f : α → β} {x : R α} {y : β} (h : x.map f = .ok y) : ∃ a, x = .ok a ∧ y = f a := by
  cases x with
  | error e => cases h
  | ok a => cases h; exact ⟨a, rfl, rfl⟩

theorem gf_eq_frames {fs : List Frame} {g : GState} (h : g = gf fs g) : g.s.frames = fs := by
  rw [h]; rfl

/-- `gc` is `g` with one extra `.claim` region inserted just above the regions `base` -/
def CS (base : List Frame) (g gc : GState) : Prop :=
  ∃ pre, g.s.frames = pre ++ base ∧ gc = gf (pre ++ .claim :: base) g

theorem length_absurd {α : Type} {base pre' : List α} {a : α} (h : base = pre' ++ a :: base) : False := by
  have := congrArg List.length h
  simp only [List.length_append, List.length_cons] at this
  omega

/-- one `stepCore` with the extra claim frame is one `stepCore` without it -/
theorem cs_stepCore {base : List Frame} {g gc gc' : GState} {op : Op} {out : Out} (hcs : CS base g gc)
    (hnc : ∀ op', op ≠ .onClaimed op') (hs : stepCore cfg gc op = .ok (gc', out))
    (hab : ∃ pre', gc'.s.frames = pre' ++ .claim :: base) :
    ∃ g', stepCore cfg g op = .ok (g', out) ∧ CS base g' gc' := by
  obtain ⟨pre, hf, rfl⟩ := hcs
  -- frame-free constructors
  have free : op.frameFree = true → ∃ g', stepCore cfg g op = .ok (g', out) ∧ CS base g' gc' := by
    intro hop
    rw [sfo_all hop] at hs
    obtain ⟨⟨g', o⟩, h0, he⟩ := map_eq_ok hs
    cases he
    have hself := sfo_all (cfg := cfg) hop g.s.frames g
    rw [gf_self, h0] at hself
    have hfr : g'.s.frames = g.s.frames := by
      have : g' = gf g.s.frames g' := by
        have := hself
        simp only [Except.map, lg, Except.ok.injEq, Prod.mk.injEq] at this
        exact this.1
      exact gf_eq_frames this
    exact ⟨g', h0, pre, hfr.trans hf, rfl⟩
  -- pushing constructors
  have push : (∀ fs g, stepCore cfg (gf fs g) op = (stepCore cfg g op).map (lgPush fs)) →
      ∃ g', stepCore cfg g op = .ok (g', out) ∧ CS base g' gc' := by
    intro hp
    rw [hp] at hs
    obtain ⟨⟨g', o⟩, h0, he⟩ := map_eq_ok hs
    cases he
    have hself := hp g.s.frames g
    rw [gf_self, h0] at hself
    have hfr : g'.s.frames = g'.s.frames.take 1 ++ g.s.frames := by
      have : g' = gf (g'.s.frames.take 1 ++ g.s.frames) g' := by
        have := hself
        simp only [Except.map, lgPush, Except.ok.injEq, Prod.mk.injEq] at this
        exact this.1
      exact gf_eq_frames this
    refine ⟨g', h0, g'.s.frames.take 1 ++ pre, ?_, ?_⟩
    · rw [List.append_assoc, ← hf]; exact hfr
    · show gf (g'.s.frames.take 1 ++ (pre ++ Frame.claim :: base)) g' = _
      rw [List.append_assoc]
  -- popping constructors
  have pop : (∀ f0 T T' g, g.s.frames = f0 :: T → stepCore cfg (gf (f0 :: T') g) op = (stepCore cfg g op).map (lg T')) →
      (pre = [] → False) → ∃ g', stepCore cfg g op = .ok (g', out) ∧ CS base g' gc' := by
    intro hq hne
    cases pre with
    | nil => exact (hne rfl).elim
    | cons f0 pre0 =>
      have hf' : g.s.frames = f0 :: (pre0 ++ base) := hf
      have e : gf (f0 :: pre0 ++ Frame.claim :: base) g = gf (f0 :: (pre0 ++ Frame.claim :: base)) g := rfl
      rw [e, hq f0 _ _ g hf'] at hs
      obtain ⟨⟨g', o⟩, h0, he⟩ := map_eq_ok hs
      cases he
      have hself := hq f0 (pre0 ++ base) (pre0 ++ base) g hf'
      rw [← hf', gf_self, h0] at hself
      have hfr : g'.s.frames = pre0 ++ base := by
        have : g' = gf (pre0 ++ base) g' := by
          have := hself
          simp only [Except.map, lg, Except.ok.injEq, Prod.mk.injEq] at this
          exact this.1
        exact gf_eq_frames this
      exact ⟨g', h0, pre0, hfr, rfl⟩
  -- an exclusive-access constructor cannot run: the stack is not empty
  have hne : (gf (pre ++ Frame.claim :: base) g).s.frames ≠ [] := by
    show pre ++ Frame.claim :: base ≠ []
    simp
  cases op with
  | drop => exact absurd (fs_drop hs) hne
  | reset => exact absurd (fs_reset hs) hne
  | resetToStart => exact absurd (fs_resetToStart hs) hne
  | withSettings n ga cl => exact absurd (fs_withSettings hs) hne
  | onClaimed op' => exact absurd rfl (hnc op')
  | scopeEnter => exact push sfp_scopeEnter
  | claim => exact push sfp_claim
  | alignedEnter n => exact push (fun fs g => sfp_alignedEnter fs g n)
  | scopedAlignedEnter n => exact push (fun fs g => sfp_scopedAlignedEnter fs g n)
  | scopeExit =>
    refine pop sfq_scopeExit (fun hp => ?_)
    subst hp
    obtain ⟨cp, rest, m, ms, s', xf, _⟩ := scopeExit_form hs
    have : Frame.claim :: base = Frame.scope cp :: rest := xf
    cases this
  | scopedAlignedExit =>
    refine pop sfq_scopedAlignedExit (fun hp => ?_)
    subst hp
    obtain ⟨cp, outer, rest, m, ms, s', xf, _⟩ := scopedAlignedExit_form hs
    have : Frame.claim :: base = Frame.scopedAligned cp outer :: rest := xf
    cases this
  | alignedExit =>
    refine pop sfq_alignedExit (fun hp => ?_)
    subst hp
    obtain ⟨outer, f, hfk, xf, _⟩ := alignedExit_form hs
    have : Frame.claim :: base = f :: gc'.s.frames := xf
    rcases hfk with ⟨_, rfl⟩ | rfl <;> cases this
  | claimEnd =>
    refine pop sfq_claimEnd (fun hp => ?_)
    subst hp
    obtain ⟨rest, xf, e⟩ := claimEnd_form hs
    have hx : Frame.claim :: base = Frame.claim :: rest := xf
    simp only [List.cons.injEq, true_and] at hx
    subst hx
    obtain ⟨pre', hp'⟩ := hab
    rw [e] at hp'
    exact length_absurd (show base = pre' ++ Frame.claim :: base from hp')
  | newWithSize n => exact free rfl
  | newWithCapacity L => exact free rfl
  | newUnallocated => exact free rfl
  | allocate L z via => exact free rfl
  | deallocate b via => exact free rfl
  | grow b L z via => exact free rfl
  | shrink b L via => exact free rfl
  | allocLayout L hh => exact free rfl
  | shrinkSlice b n => exact free rfl
  | prepare L => exact free rfl
  | commit size rev => exact free rfl
  | prepareSlice a b c d => exact free rfl
  | fillPrepared a b => exact free rfl
  | commitSlice len => exact free rfl
  | abandonPrepared => exact free rfl
  | reserve n dyn => exact free rfl
  | checkpoint k => exact free rfl
  | resetTo k => exact free rfl
  | allocTryWith L off vsize ok inner m => exact free rfl
  | write b seed => exact free rfl
  | split b a => exact free rfl

/-- … one `step` -/
theorem cs_step {base : List Frame} {g gc gc' : GState} {op : Op} {resps : List BaseResp} {out : Out}
    {reqs : List BaseReq} (hcs : CS base g gc) (hnc : ∀ op', op ≠ .onClaimed op')
    (hs : step cfg gc op resps = .ok (gc', out, reqs)) (hab : ∃ pre', gc'.s.frames = pre' ++ .claim :: base) :
    ∃ g', step cfg g op resps = .ok (g', out, reqs) ∧ CS base g' gc' := by
  obtain ⟨h1, h2, h3⟩ := step_ok hs
  have hcs' : CS base (install g resps) (install gc resps) := by
    obtain ⟨pre, hf, rfl⟩ := hcs
    exact ⟨pre, hf, rfl⟩
  obtain ⟨g', hg', hcs2⟩ := cs_stepCore hcs' hnc h1 hab
  obtain ⟨pre2, hf2, e2⟩ := hcs2
  have hr : g'.s.resps = [] := by
    have : gc'.s.resps = g'.s.resps := by rw [e2]; rfl
    rw [← this]; exact h2
  have hq : g'.s.reqs = reqs := by
    have : gc'.s.reqs = g'.s.reqs := by rw [e2]; rfl
    rw [← this]; exact h3.symm
  refine ⟨g', ?_, pre2, hf2, e2⟩
  rw [← hq]
  exact step_of_stepCore hg' hr

/-- … a whole run, with the same base-allocator log -/
theorem cs_runLog {base : List Frame} : ∀ (w : List (Op × List BaseResp)) (g gc gc2 : GState) (log : List LogEntry),
    CS base g gc → (∀ x ∈ w, ∀ op', x.1 ≠ .onClaimed op') → Above cfg (.claim :: base) gc w →
    runLog cfg gc w = .ok (gc2, log) → ∃ g2, runLog cfg g w = .ok (g2, log) ∧ CS base g2 gc2 := by
  intro w
  induction w with
  | nil =>
    intro g gc gc2 log hcs _ _ hr
    simp only [runLog, pure, Except.pure, Except.ok.injEq, Prod.mk.injEq] at hr
    obtain ⟨rfl, rfl⟩ := hr
    exact ⟨g, rfl, hcs⟩
  | cons x rest ih =>
    intro g gc gc2 log hcs hw ha hr
    obtain ⟨op, resps⟩ := x
    obtain ⟨gc1, out, reqs, log1, hs, hrest, rfl⟩ := runLog_cons hr
    have ha1 := ha.2 gc1 out reqs hs
    obtain ⟨g1, hs1, hcs1⟩ := cs_step hcs (hw (op, resps) List.mem_cons_self) hs ha1.head
    obtain ⟨g2, hr2, hcs2⟩ := ih g1 gc1 gc2 log1 hcs1 (fun y hy => hw y (List.mem_cons_of_mem _ hy)) ha1 hrest
    refine ⟨g2, ?_, hcs2⟩
    unfold runLog
    simp only [bind, Except.bind, pure, Except.pure, hs1, hr2]

/-- the first step of a run installs its own responses: what the start state held is irrelevant -/
theorem runLog_install (g : GState) (r : List BaseResp) (x : Op × List BaseResp) (rest : List (Op × List BaseResp)) :
    runLog cfg (install g r) (x :: rest) = runLog cfg g (x :: rest) := by
  obtain ⟨op, resps⟩ := x
  unfold runLog
  rfl

/-- CLAIM TRANSPARENCY: `claim`, a history `w` without operations on the claimed handle that never ends the claim
    and is back at its level at the end, `claimEnd` — is `w` alone: same final state (up to the request list of the
    last step, which `claimEnd` leaves empty), same outputs and base-allocator traffic (`log`) -/
theorem claim_transparent {g g1 g2c g3 : GState} {w : List (Op × List BaseResp)} {o1 o3 : Out}
    {q1 q3 : List BaseReq} {log : List LogEntry} (hw : ∀ x ∈ w, ∀ op', x.1 ≠ .onClaimed op')
    (h1 : step cfg g .claim [] = .ok (g1, o1, q1))
    (hrun : runLog cfg g1 w = .ok (g2c, log)) (habove : Above cfg g1.s.frames g1 w) (hbal : g2c.s.frames = g1.s.frames)
    (h3 : step cfg g2c .claimEnd [] = .ok (g3, o3, q3)) :
    ∃ g2, runLog cfg g w = .ok (g2, log) ∧ g3 = install g2 [] := by
  obtain ⟨e1, _⟩ := claim_form (step_ok h1).1
  have hf1 : g1.s.frames = .claim :: g.s.frames := by rw [e1]; rfl
  have hcs : CS g.s.frames (install g []) g1 := ⟨[], rfl, e1⟩
  rw [hf1] at habove
  obtain ⟨g2, hr2, pre, hfp, e2⟩ := cs_runLog w (install g []) g1 g2c log hcs hw habove hrun
  obtain ⟨rest, xf, e3⟩ := claimEnd_form (step_ok h3).1
  -- back at the level of the claim: `pre = []`
  have hpre : pre = [] := by
    have h5 : g2c.s.frames = pre ++ Frame.claim :: g.s.frames := by rw [e2]; rfl
    rw [hbal, hf1] at h5
    have := congrArg List.length h5
    simp only [List.length_cons, List.length_append] at this
    exact List.eq_nil_of_length_eq_zero (by omega)
  subst hpre
  have hrest : rest = g.s.frames := by
    have h5 : (install g2c []).s.frames = Frame.claim :: g.s.frames := by rw [e2]; rfl
    rw [xf] at h5
    simp only [List.cons.injEq, true_and] at h5
    exact h5
  have hfin : g3 = install g2 [] := by
    rw [e3, e2, hrest]
    have : g2.s.frames = g.s.frames := hfp
    show ({ install (gf _ g2) [] with s := { (install (gf _ g2) []).s with frames := g.s.frames } } : GState) = install g2 []
    rw [← this]
    rfl
  cases w with
  | nil =>
    simp only [runLog, pure, Except.pure, Except.ok.injEq, Prod.mk.injEq] at hr2
    obtain ⟨rfl, rfl⟩ := hr2
    exact ⟨g, rfl, hfin⟩
  | cons x rest' =>
    rw [runLog_install] at hr2
    exact ⟨g2, hr2, hfin⟩

end Arena.Hist
