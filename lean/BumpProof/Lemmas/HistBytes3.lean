/-
  Lemmas/HistBytes3.lean — non-vacuity of the hypotheses of `bytes_step` / `bytes_stepCore`
  (`Lemmas/HistBytes2.lean`): a reachable state with two live blocks on which writing operations
  (`write`, zeroed `allocate`, `grow`, `shrink`) succeed while the other block stays live.
-/
import BumpProof.Lemmas.HistBytes2
import BumpProof.Lemmas.HistEx
set_option linter.unusedSimpArgs false
set_option linter.unusedVariables false
namespace Arena.Hist
open Rs

/-- create, allocate 24 bytes (block 0), allocate 40 bytes (block 1) -/
def exOps3 : List (Op × List BaseResp) := exOps.take 3

/-- the state after `exOps3` -/
def exG3 : GState :=
  match runOps exCfg (initG exCfg) exOps3 with
  | .ok g => g
  | .error _ => default

set_option maxRecDepth 1000000 in
theorem exG3_run : runOps exCfg (initG exCfg) exOps3 = .ok exG3 := by rfl

set_option maxRecDepth 1000000 in
theorem exG3_inv : Inv exCfg exG3 :=
  inv_reachable exCfg_ok (coveredCheck_sound (by decide)) (runEnvCheck_sound _ _ (by rfl)) exG3_run

set_option maxRecDepth 1000000 in
/-- both blocks are live in `exG3` -/
theorem exG3_live : exG3.s.live.map (fun b => (b.id, b.addr, b.size)) = [(0, 0x10020, 24), (1, 0x10040, 40)] := by rfl

set_option maxRecDepth 1000000 in
/-- hypotheses of `bytes_step` for a `write` to block 1; block 0 is live before and after -/
example : Inv exCfg exG3 ∧ EnvOK exCfg exG3 [] ∧
    ∃ g' out reqs, step exCfg exG3 (.write 1 7) [] = .ok (g', out, reqs) ∧
      g'.s.live.map (fun b => (b.id, b.addr, b.size)) = [(0, 0x10020, 24), (1, 0x10040, 40)] :=
  ⟨exG3_inv, envCheck_sound (by rfl), _, _, _, rfl, rfl⟩

set_option maxRecDepth 1000000 in
/-- … for a zeroed allocation -/
example : EnvOK exCfg exG3 [] ∧
    ∃ g' out reqs, step exCfg exG3 (.allocate exL1 true .plain) [] = .ok (g', out, reqs) ∧
      g'.s.live.map (fun b => b.id) = [0, 1, 2] :=
  ⟨envCheck_sound (by rfl), _, _, _, rfl, rfl⟩

set_option maxRecDepth 1000000 in
/-- … for a zeroed `grow` of the last block (in place) and of the first block (moved) -/
example : EnvOK exCfg exG3 [] ∧
    (∃ g' out reqs, step exCfg exG3 (.grow 1 { size := 64, align := 8 } true .plain) [] = .ok (g', out, reqs) ∧
      g'.s.live.map (fun b => b.id) = [0, 2]) ∧
    (∃ g' out reqs, step exCfg exG3 (.grow 0 { size := 64, align := 8 } true .plain) [] = .ok (g', out, reqs) ∧
      g'.s.live.map (fun b => b.id) = [1, 2]) :=
  ⟨envCheck_sound (by rfl), ⟨_, _, _, rfl, rfl⟩, ⟨_, _, _, rfl, rfl⟩⟩

set_option maxRecDepth 1000000 in
/-- … for `shrink` and `shrink_slice` of the last block -/
example : (∃ g' out reqs, step exCfg exG3 (.shrink 1 { size := 16, align := 8 } .plain) [] = .ok (g', out, reqs) ∧
      g'.s.live.map (fun b => b.id) = [0, 2]) ∧
    (∃ g' out reqs, step exCfg exG3 (.shrinkSlice 1 16) [] = .ok (g', out, reqs) ∧
      g'.s.live.map (fun b => b.id) = [0, 2]) :=
  ⟨⟨_, _, _, rfl, rfl⟩, ⟨_, _, _, rfl, rfl⟩⟩

set_option maxRecDepth 1000000 in
/-- … for a prepared allocation that is filled and committed while both blocks stay live -/
example : ∃ g1 o1 r1 g2 o2 r2 g3 o3 r3,
    step exCfg exG3 (.prepareSlice 4 4 8 false) [] = .ok (g1, o1, r1) ∧
    step exCfg g1 (.fillPrepared 3 2) [] = .ok (g2, o2, r2) ∧
    step exCfg g2 (.commitSlice 3) [] = .ok (g3, o3, r3) ∧
    g3.s.live.map (fun b => b.id) = [0, 1, 2] :=
  ⟨_, _, _, _, _, _, _, _, _, rfl, rfl, rfl, rfl⟩

end Arena.Hist
