/-
  Lemmas/GeomRealloc.lean — `grow`, `shrink`, `shrink_slice`: preservation of the invariant.
-/
import BumpProof.Lemmas.GeomCopy
import BumpProof.Lemmas.GeomReserve

set_option linter.unusedSimpArgs false
set_option linter.unusedVariables false

namespace Arena
open Rs Lemmas

/-- the common post-condition: invariant, admissible pending responses, same minimum alignment -/
structure BasicPost (cfg : Cfg) (s s' : State) : Prop where
  inv : GeomInv cfg s'
  resps : RespsOK cfg s'
  minAlign : s'.minAlign = s.minAlign
  trace : Trace s s'

section
variable {cfg : Cfg}

theorem BasicPost.refl {s : State} (h : GeomInv cfg s) (hr : RespsOK cfg s) : BasicPost cfg s s := ⟨h, hr, rfl, Trace.refl _⟩

theorem SlowPost.basic {α : Type} {L : Layout} {s s' : State} {r : Except AErr α} (p : SlowPost cfg L s s' r) :
    BasicPost cfg s s' := ⟨p.inv, p.resps, p.minAlign, p.trace⟩

theorem BasicPost.copy {s s1 s2 : State} (p : BasicPost cfg s s1) {src dst len : Nat} {no : Bool}
    (he : copyBytes cfg s1 src dst len no = .ok s2) : BasicPost cfg s s2 := by
  have hg := copyBytes_geom he
  exact ⟨hg.inv p.inv, hg.respsOK p.resps, hg.minAlign.trans p.minAlign, p.trace.post hg.shape hg.resps⟩

/-- the `moveTo` continuation of `grow` -/
theorem moveTo_post {s s1 s' : State} {ptr oldSize : Nat} {r1 r : Except AErr Nat} (p : BasicPost cfg s s1)
    (he : (match (s1, r1) with
      | (s', Except.error e) => (pure (s', Except.error e) : R (State × Except AErr Nat))
      | (s', Except.ok np) => do
        let s'' ← copyBytes cfg s' ptr np oldSize true
        pure (s'', Except.ok np)) = .ok (s', r)) : BasicPost cfg s s' := by
  cases r1 with
  | error e => cases he; exact p
  | ok np =>
    obtain ⟨s2, h1, h2⟩ := bind_eq_ok he
    cases h2
    exact p.copy h1

theorem curChunk?_eq_some {s : State} {c : Chunk} (h : curChunk? s = some c) :
    ∃ i, s.cur = .chunk i ∧ s.chunks[i]? = some c := by
  unfold curChunk? at h
  split at h
  · exact ⟨_, ‹_›, h⟩
  · cases h

theorem isLast_pos {s : State} {ptr size i : Nat} {c : Chunk} (hl : isLast cfg s ptr size = true)
    (hcur : s.cur = .chunk i) (hi : s.chunks[i]? = some c) :
    if cfg.up then ptr + size = c.pos else ptr = c.pos := by
  unfold isLast at hl
  rw [curPos_chunk hcur hi] at hl
  cases hup : cfg.up
  · simp only [hup, Bool.false_eq_true, ↓reduceIte, beq_iff_eq] at hl ⊢; exact hl
  · simp only [hup, ↓reduceIte, beq_iff_eq] at hl ⊢; exact hl

theorem grow_post (hc : CfgOK cfg) {s : State} (h : GeomInv cfg s) (hr : RespsOK cfg s) {ptr oldSize : Nat}
    {newL : Layout} (hL : newL.Valid) (hb : isLast cfg s ptr oldSize = true → BlockInCur cfg s ptr oldSize)
    {s' : State} {r : Except AErr Nat} (he : grow cfg s ptr oldSize newL = .ok (s', r)) : BasicPost cfg s s' := by
  unfold grow at he
  obtain ⟨_, _, he⟩ := bind_eq_ok he
  simp only at he
  have hslow : ∀ {s' r}, (inAnotherChunk cfg Kind.alloc s newL Hints.custom >>= fun x =>
      match x with
      | (s1, r1) => (match (s1, Except.map (fun x => x.fst) r1) with
        | (s', Except.error e) => (pure (s', Except.error e) : R (State × Except AErr Nat))
        | (s', Except.ok np) => do
          let s'' ← copyBytes cfg s' ptr np oldSize true
          pure (s'', Except.ok np))) = .ok (s', r) → BasicPost cfg s s' := by
    intro s' r he
    obtain ⟨⟨s1, r1⟩, h1, h2⟩ := bind_eq_ok he
    have hcu : Hints.custom.sma = true → newL.align ∣ newL.size := fun hx => by cases hx
    have p := ((inAnotherChunk_ok hc h hr .alloc hL hcu (fun hx => by cases hx)).1 s1 r1 h1).basic
    exact moveTo_post p h2
  have halloc : ∀ {s' r}, (alloc cfg s newL >>= fun x =>
      (match x with
        | (s', Except.error e) => (pure (s', Except.error e) : R (State × Except AErr Nat))
        | (s', Except.ok np) => do
          let s'' ← copyBytes cfg s' ptr np oldSize true
          pure (s'', Except.ok np))) = .ok (s', r) → BasicPost cfg s s' := by
    intro s' r he
    obtain ⟨⟨s1, r1⟩, h1, h2⟩ := bind_eq_ok he
    have p := ((alloc_ok hc h hr hL).1 s1 r1 h1).basic
    exact moveTo_post p h2
  split at he
  · -- upwards
    split at he
    · rename_i hcond
      simp only [Bool.and_eq_true] at hcond
      split at he
      · cases he
      · rename_i c hcc
        obtain ⟨i, hcur, hi⟩ := curChunk?_eq_some hcc
        have hw := h.chunks i c hi
        obtain ⟨rem, h1, he⟩ := bind_eq_ok he
        split at he
        · rename_i hle
          obtain ⟨t, h2, he⟩ := bind_eq_ok he
          obtain ⟨np, h3, he⟩ := bind_eq_ok he
          cases he
          have h1' := liftM_eq_ok h1
          have h2' := liftM_eq_ok h2
          have h3' := liftM_eq_ok h3
          unfold Rs.sub at h1'
          split at h1'
          · cases h1'
            unfold Rs.add at h2'
            split at h2'
            · cases h2'
              obtain ⟨j, c2, hcur2, hi2, hb1, hb2, hb3⟩ := hb hcond.1
              rw [hcur] at hcur2; cases hcur2
              rw [hi] at hi2; cases hi2
              have hend := hw.end_lt64
              have h16 := hw.end16 hc
              have hm := h.minAlign
              have hmle := hm.le
              rw [up_align_usize_unchecked_eq hm.p2 hm.lt64 (by rw [two_pow_64] at hend ⊢; omega)] at h3'
              cases h3'
              have hup1 : ptr + newL.size ≤ Spec.upAlign (ptr + newL.size) s.minAlign := le_upAlign _ hm.pos
              have hup2 : Spec.upAlign (ptr + newL.size) s.minAlign ≤ c.contentEnd cfg :=
                upAlign_le_of_dvd hm.pos (hm.dvd_of_16 h16) (by omega)
              exact ⟨h.setCurPos hcur hi (by omega) hup2 (upAlign_dvd _ _),
                fun x hx => hr x (by rw [setCurPos_resps] at hx; exact hx), setCurPos_minAlign _ _,
                Trace.of_shape (setCurPos_shape _ _) (setCurPos_resps _ _)⟩
            · cases h2'
          · cases h1'
        · exact hslow he
    · exact halloc he
  · -- downwards
    rename_i hup
    split at he
    · rename_i hlast
      split at he
      · cases he
      · rename_i c hcc
        obtain ⟨i, hcur, hi⟩ := curChunk?_eq_some hcc
        have hw := h.chunks i c hi
        obtain ⟨add, h1, he⟩ := bind_eq_ok he
        obtain ⟨newAddr, h2, he⟩ := bind_eq_ok he
        split at he
        · rename_i hge
          obtain ⟨newEnd, h3, he⟩ := bind_eq_ok he
          obtain ⟨s1, h4, he⟩ := bind_eq_ok he
          cases he
          have h2' := liftM_eq_ok h2
          have hpos := isLast_pos hlast hcur hi
          simp only [hup, Bool.false_eq_true, ↓reduceIte] at hpos
          have hm := h.minAlign
          have hp2 : P2 (Rs.max newL.align s.minAlign) := by rw [rs_max_eq]; exact hL.p2.max hm.p2
          have hlt : Rs.max newL.align s.minAlign < 2 ^ 64 := by
            rw [rs_max_eq, Lemmas.Size.natmax]
            have := hL.lt64; have := hm.lt64; omega
          have hend := hw.end_lt64
          have hple := hw.pos_le
          rw [lib_bump_down_eq hp2 hlt (by omega)] at h2'
          cases h2'
          have hle : Spec.downAlign (ptr - add) (Rs.max newL.align s.minAlign) ≤ ptr :=
            Nat.le_trans (downAlign_le _ _) (Nat.sub_le _ _)
          have hdvd : s.minAlign ∣ Spec.downAlign (ptr - add) (Rs.max newL.align s.minAlign) := by
            rw [rs_max_eq]
            exact Nat.dvd_trans (dvd_max_right hL.p2 hm.p2) (downAlign_dvd _ _)
          have hg := copyBytes_geom h4
          obtain ⟨g1, g2', g3, g4, _⟩ := hg.setCurPos_inv h hcur hi hge (by omega) hdvd
          exact ⟨g1, fun x hx => hr x (by rw [g4] at hx; exact hx), g3, Trace.of_shape g2' g4⟩
        · exact hslow he
    · exact halloc he

/-! ## shrinking in place: the two position computations -/

/-- upwards: the position moves back to just past the shrunk block -/
theorem shrink_up_core (hc : CfgOK cfg) {s : State} (h : GeomInv cfg s) {i : Nat} {c : Chunk}
    (hcur : s.cur = .chunk i) (hi : s.chunks[i]? = some c) {ptr newSize : Nat}
    (h1 : c.contentStart cfg ≤ ptr) (h2 : ptr + newSize ≤ c.pos) {e np : Nat}
    (he : Rs.add ptr newSize = .ok e) (hnp : Gen.LibArith.up_align_usize_unchecked e s.minAlign = .ok np) :
    c.contentStart cfg ≤ np ∧ np ≤ c.contentEnd cfg ∧ s.minAlign ∣ np := by
  have hw := h.chunks i c hi
  have hm := h.minAlign
  have hmle := hm.le
  have hend := hw.end_lt64
  have h16 := hw.end16 hc
  have hple := hw.pos_le
  unfold Rs.add at he
  split at he
  · cases he
    rw [up_align_usize_unchecked_eq hm.p2 hm.lt64 (by rw [two_pow_64] at hend ⊢; omega)] at hnp
    cases hnp
    have hup1 : ptr + newSize ≤ Spec.upAlign (ptr + newSize) s.minAlign := le_upAlign _ hm.pos
    have hup2 : Spec.upAlign (ptr + newSize) s.minAlign ≤ c.contentEnd cfg :=
      upAlign_le_of_dvd hm.pos (hm.dvd_of_16 h16) (by omega)
    exact ⟨by omega, hup2, upAlign_dvd _ _⟩
  · cases he

/-- downwards: the block moves up against the old end; the new position is its new start -/
theorem shrink_down_core (hc : CfgOK cfg) {s : State} (h : GeomInv cfg s) {i : Nat} {c : Chunk}
    (hcur : s.cur = .chunk i) (hi : s.chunks[i]? = some c) {ptr oldSize newSize al : Nat} (hal : P2 al) (hal64 : al < 2 ^ 64)
    (hap : al ∣ ptr) (h1 : ptr = c.pos) (h2 : ptr + oldSize ≤ c.contentEnd cfg) (h3 : newSize ≤ oldSize)
    {oldEnd newAddr : Nat} (he : Rs.add ptr oldSize = .ok oldEnd)
    (hna : Gen.LibArith.bump_down oldEnd newSize (Rs.max al s.minAlign) = .ok newAddr) :
    c.contentStart cfg ≤ newAddr ∧ newAddr ≤ c.contentEnd cfg ∧ s.minAlign ∣ newAddr := by
  have hw := h.chunks i c hi
  obtain ⟨c', hc', hd⟩ := h.cur i hcur
  rw [hi] at hc'; cases hc'
  have hm := h.minAlign
  have hend := hw.end_lt64
  have hpge := hw.pos_ge
  unfold Rs.add at he
  split at he
  · cases he
    have hp2 : P2 (Rs.max al s.minAlign) := by rw [rs_max_eq]; exact hal.max hm.p2
    have hlt : Rs.max al s.minAlign < 2 ^ 64 := by
      rw [rs_max_eq, Lemmas.Size.natmax]
      have := hm.lt64; omega
    rw [lib_bump_down_eq hp2 hlt (by omega)] at hna
    cases hna
    have hpd : Rs.max al s.minAlign ∣ ptr := by
      rw [rs_max_eq]
      rcases Nat.le_total al s.minAlign with hle | hle
      · rw [show Nat.max al s.minAlign = s.minAlign from Nat.max_eq_right hle]; rw [h1]; exact hd
      · rw [show Nat.max al s.minAlign = al from Nat.max_eq_left hle]; exact hap
    have hge : ptr ≤ Spec.downAlign (ptr + oldSize - newSize) (Rs.max al s.minAlign) :=
      le_downAlign_of_dvd hp2.pos hpd (by omega)
    have hle : Spec.downAlign (ptr + oldSize - newSize) (Rs.max al s.minAlign) ≤ ptr + oldSize - newSize :=
      downAlign_le _ _
    have hdvd : s.minAlign ∣ Spec.downAlign (ptr + oldSize - newSize) (Rs.max al s.minAlign) := by
      rw [rs_max_eq]
      exact Nat.dvd_trans (dvd_max_right hal hm.p2) (downAlign_dvd _ _)
    exact ⟨by omega, by omega, hdvd⟩
  · cases he

theorem alignFits_dvd {ptr al : Nat} (h : alignFits ptr al = true) : al ∣ ptr := by
  unfold alignFits at h
  exact Nat.dvd_of_mod_eq_zero (by simpa using h)

theorem SameShape.getElem?' {s s' : State} (h : SameShape s s') {j : Nat} {c : Chunk} (hj : s.chunks[j]? = some c) :
    ∃ c', s'.chunks[j]? = some c' ∧ c'.shape = c.shape := by
  have h1 := h.getElem? j
  rw [hj] at h1
  cases hc : s'.chunks[j]? with
  | none => rw [hc] at h1; simp at h1
  | some c' =>
    rw [hc] at h1
    simp only [Option.map_some, Option.some.injEq] at h1
    exact ⟨c', rfl, h1⟩

theorem shape_contentStart {c c' : Chunk} (h : c'.shape = c.shape) : c'.contentStart cfg = c.contentStart cfg := by
  simp only [Chunk.shape, Prod.mk.injEq] at h
  unfold Chunk.contentStart; rw [h.1]

theorem shape_contentEnd {c c' : Chunk} (h : c'.shape = c.shape) : c'.contentEnd cfg = c.contentEnd cfg := by
  simp only [Chunk.shape, Prod.mk.injEq] at h
  unfold Chunk.contentEnd; rw [h.1, h.2.1]

theorem shrink_post (hc : CfgOK cfg) {s : State} (h : GeomInv cfg s) (hr : RespsOK cfg s) {ptr oldSize : Nat}
    {newL : Layout} (hL : newL.Valid) (hb : isLast cfg s ptr oldSize = true → BlockInCur cfg s ptr oldSize)
    {s' : State} {r : Except AErr (Nat × Nat)} (he : shrink cfg s ptr oldSize newL = .ok (s', r)) :
    BasicPost cfg s s' := by
  unfold shrink at he
  obtain ⟨_, hassert, he⟩ := bind_eq_ok he
  have hsz : newL.size ≤ oldSize := by
    have := liftM_eq_ok hassert
    unfold Rs.assert at this
    split at this
    · simpa using ‹decide (newL.size ≤ oldSize) = true›
    · cases this
  have hcu : Hints.custom.sma = true → newL.align ∣ newL.size := fun hx => by cases hx
  split at he
  · -- the alignment does not fit: `shrink_unfit`
    split at he
    · rename_i hcond
      simp only [Bool.and_eq_true] at hcond
      have hbc := hb hcond.2
      obtain ⟨s1, h1, he⟩ := bind_eq_ok he
      obtain ⟨s1', d1, d2, d3, d4, d5, d6, _⟩ := deallocAssumeLast_ok hc h hbc
      rw [d1] at h1; cases h1
      have hr1 : RespsOK cfg s1 := fun x hx => hr x (by rw [d6] at hx; exact hx)
      rw [tryCur_eq hc d2 .alloc hL hcu] at he
      simp only [r_ok_bind] at he
      cases ht : tryCurSpec cfg .alloc s1 newL with
      | some x =>
        obtain ⟨⟨np, snd⟩, s2⟩ := x
        rw [ht] at he
        simp only at he
        obtain ⟨s3, h3, he⟩ := bind_eq_ok he
        cases he
        obtain ⟨g1, g2, g3, g4, g5, g6⟩ := tryCurSpec_inv hc d2 hL ht
        have p2 : BasicPost cfg s s2 := ⟨g1, fun x hx => hr1 x (by rw [g5] at hx; exact hx), g4.trans d5,
          Trace.of_shape (d3.trans g2) (g5.trans d6)⟩
        exact p2.copy h3
      | none =>
        rw [ht] at he
        simp only at he
        obtain ⟨i, c, hcur, hi, _⟩ := hbc
        obtain ⟨c0, hc0, hd0⟩ := h.cur i hcur
        rw [hi] at hc0; cases hc0
        have hw := h.chunks i c hi
        obtain ⟨c1, hi1, hsh⟩ := d3.getElem?' hi
        have hinv2 : GeomInv cfg (setCurPos s1 (curPos cfg s)) := by
          rw [curPos_chunk hcur hi]
          exact d2.setCurPos (d4.trans hcur) hi1 (by rw [shape_contentStart hsh]; exact hw.pos_ge)
            (by rw [shape_contentEnd hsh]; exact hw.pos_le) (by rw [d5]; exact hd0)
        have hr2 : RespsOK cfg (setCurPos s1 (curPos cfg s)) :=
          fun x hx => hr1 x (by rw [setCurPos_resps] at hx; exact hx)
        obtain ⟨⟨s3, r3⟩, h3, he⟩ := bind_eq_ok he
        have p3 := ((inAnotherChunk_ok hc hinv2 hr2 .alloc hL hcu (fun hx => by cases hx)).1 s3 r3 h3).basic
        have p3' : BasicPost cfg s s3 := ⟨p3.inv, p3.resps, p3.minAlign.trans ((setCurPos_minAlign _ _).trans d5),
          p3.trace.pre (d3.trans (setCurPos_shape _ _)) ((setCurPos_resps _ _).trans d6)⟩
        simp only at he
        cases r3 with
        | error e => cases he; exact p3'
        | ok v =>
          obtain ⟨np, snd⟩ := v
          simp only at he
          obtain ⟨s4, h4, he⟩ := bind_eq_ok he
          cases he
          exact p3'.copy h4
    · obtain ⟨⟨s1, r1⟩, h1, he⟩ := bind_eq_ok he
      have p := ((alloc_ok hc h hr hL).1 s1 r1 h1).basic
      cases r1 with
      | error e => cases he; exact p
      | ok np =>
        simp only at he
        obtain ⟨s2, h2, he⟩ := bind_eq_ok he
        cases he
        exact p.copy h2
  · rename_i hfit
    have hfit' : alignFits ptr newL.align = true := by simpa using hfit
    split at he
    · cases he; exact BasicPost.refl h hr
    · rename_i hcond
      have hcond' : cfg.shrinks = true ∧ isLast cfg s ptr oldSize = true := by
        simp only [Bool.or_eq_true, Bool.not_eq_true', not_or, Bool.not_eq_false] at hcond
        exact hcond
      obtain ⟨i, c, hcur, hi, hb1, hb2, hb3⟩ := hb hcond'.2
      have hpos := isLast_pos hcond'.2 hcur hi
      split at he
      · rename_i hup
        simp only [hup, ↓reduceIte] at hpos hb3
        obtain ⟨e, h1, he⟩ := bind_eq_ok he
        obtain ⟨np, h2, he⟩ := bind_eq_ok he
        rw [hcur] at he
        simp only at he
        cases he
        obtain ⟨g1, g2, g3⟩ := shrink_up_core hc h hcur hi hb1 (by omega) (liftM_eq_ok h1) (liftM_eq_ok h2)
        exact ⟨h.setCurPos hcur hi g1 g2 g3, fun x hx => hr x (by rw [setCurPos_resps] at hx; exact hx),
          setCurPos_minAlign _ _, Trace.of_shape (setCurPos_shape _ _) (setCurPos_resps _ _)⟩
      · rename_i hup
        simp only [hup, Bool.false_eq_true, ↓reduceIte] at hpos hb3
        obtain ⟨oldEnd, h1, he⟩ := bind_eq_ok he
        obtain ⟨newAddr, h2, he⟩ := bind_eq_ok he
        obtain ⟨s1, h3, he⟩ := bind_eq_ok he
        rw [hcur] at he
        simp only at he
        cases he
        obtain ⟨g1, g2, g3⟩ := shrink_down_core hc h hcur hi hL.p2 hL.lt64 (alignFits_dvd hfit') hpos hb2 hsz
          (liftM_eq_ok h1) (liftM_eq_ok h2)
        have hg := copyBytes_geom h3
        obtain ⟨q1, q2', q3, q4, _⟩ := hg.setCurPos_inv h hcur hi g1 g2 g3
        exact ⟨q1, fun x hx => hr x (by rw [q4] at hx; exact hx), q3, Trace.of_shape q2' q4⟩

theorem shrinkWithoutShrink_post (hc : CfgOK cfg) {s : State} (h : GeomInv cfg s) (hr : RespsOK cfg s) {ptr oldSize : Nat}
    {newL : Layout} (hL : newL.Valid)
    {s' : State} {r : Except AErr (Nat × Nat)} (he : shrinkWithoutShrink cfg s ptr oldSize newL = .ok (s', r)) :
    BasicPost cfg s s' := by
  unfold shrinkWithoutShrink at he
  split at he
  · cases he; exact BasicPost.refl h hr
  · obtain ⟨⟨s1, r1⟩, h1, he⟩ := bind_eq_ok he
    have p := ((alloc_ok hc h hr hL).1 s1 r1 h1).basic
    cases r1 with
    | error e => cases he; exact p
    | ok np =>
      simp only at he
      obtain ⟨s2, h2, he⟩ := bind_eq_ok he
      cases he
      exact p.copy h2

/-- `shrink_slice`: the element alignment divides the block address (it is a `NonNull<[T]>`) -/
theorem shrinkSlice_post (hc : CfgOK cfg) {s : State} (h : GeomInv cfg s) (hr : RespsOK cfg s)
    {ptr oldSize newSize ealign : Nat} (hal : P2 ealign) (hal64 : ealign < 2 ^ 64) (hap : ealign ∣ ptr)
    (hsz : newSize ≤ oldSize) (hb : isLast cfg s ptr oldSize = true → BlockInCur cfg s ptr oldSize)
    {s' : State} {r : Option Nat} (he : shrinkSlice cfg s ptr oldSize newSize ealign = .ok (s', r)) :
    BasicPost cfg s s' := by
  unfold shrinkSlice at he
  split at he
  · cases he; exact BasicPost.refl h hr
  · split at he
    · cases he; exact BasicPost.refl h hr
    · rename_i hnl
      have hlast : isLast cfg s ptr oldSize = true := by simpa using hnl
      obtain ⟨i, c, hcur, hi, hb1, hb2, hb3⟩ := hb hlast
      have hpos := isLast_pos hlast hcur hi
      rw [hcur] at he
      simp only at he
      split at he
      · rename_i hup
        simp only [hup, ↓reduceIte] at hpos hb3
        obtain ⟨e, h1, he⟩ := bind_eq_ok he
        obtain ⟨np, h2, he⟩ := bind_eq_ok he
        cases he
        obtain ⟨g1, g2, g3⟩ := shrink_up_core hc h hcur hi hb1 (by omega) (liftM_eq_ok h1) (liftM_eq_ok h2)
        exact ⟨h.setCurPos hcur hi g1 g2 g3, fun x hx => hr x (by rw [setCurPos_resps] at hx; exact hx),
          setCurPos_minAlign _ _, Trace.of_shape (setCurPos_shape _ _) (setCurPos_resps _ _)⟩
      · rename_i hup
        simp only [hup, Bool.false_eq_true, ↓reduceIte] at hpos hb3
        obtain ⟨oldEnd, h1, he⟩ := bind_eq_ok he
        obtain ⟨newAddr, h2, he⟩ := bind_eq_ok he
        obtain ⟨s1, h3, he⟩ := bind_eq_ok he
        cases he
        obtain ⟨g1, g2, g3⟩ := shrink_down_core hc h hcur hi hal hal64 hap hpos hb2 hsz
          (liftM_eq_ok h1) (liftM_eq_ok h2)
        have hg := copyBytes_geom h3
        obtain ⟨q1, q2', q3, q4, _⟩ := hg.setCurPos_inv h hcur hi g1 g2 g3
        exact ⟨q1, fun x hx => hr x (by rw [q4] at hx; exact hx), q3, Trace.of_shape q2' q4⟩

end
end Arena
