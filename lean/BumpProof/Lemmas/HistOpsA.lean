/-
  Lemmas/HistOpsA.lean — preservation of `Arena.Hist.Inv` by the operations that do not allocate:
  scopes, checkpoints, resets, claims, minimum-alignment regions, deallocate, drop.
-/
import BumpProof.Lemmas.HistGhost
import BumpProof.Props.C18

set_option linter.unusedSimpArgs false
set_option linter.unusedVariables false

namespace Arena.Hist
open Rs

variable {cfg : Cfg}

/-- assembling the invariant of a successor state -/
theorem Inv.step_to {g : GState} (h : Inv cfg g) {s' : State} {ms : List Nat}
    (hgeom : GeomInv cfg s') (hdisj : ChunksDisjoint s') (hlive : Mem.LiveOK cfg s')
    (hun : UnallocEmpty s') (hnc : s'.cur ≠ .claimed) (hlc : s'.cur = .unallocated → s'.live = [])
    (hcov : ChunksCov g.s s') (hsub : LiveSub g.s s') (hn : g.s.nextId ≤ s'.nextId)
    (hids : ∀ b ∈ s'.live, b.id < s'.nextId)
    (hfr : FramesOK cfg s' s'.minAlign s'.frames ms) (hms : ∀ m ∈ ms, m ≤ s'.nextId)
    (hcps : ∀ x ∈ s'.userCps, x ∈ g.s.userCps ∨ CpOK cfg s' x.2.1 x.2.2)
    (hprep : ∀ p, s'.prepared = some p → PrepOK cfg s' p) : Inv cfg ⟨s', ms⟩ :=
  ⟨h.cfgOK, hgeom, hdisj, hlive, hun, hnc, hlc, hids,
   fun b hb => (hsub b hb).elim (fun hb' => h.aligns b hb') (fun hb' => hb'.2), hfr, hms,
   fun x hx => (hcps x hx).elim (fun hx' => (h.cps x hx').mono hcov hsub hn) id, hprep⟩

theorem mem_filter_sub {α} {p : α → Bool} {l : List α} {x : α} (h : x ∈ l.filter p) : x ∈ l :=
  (List.mem_filter.mp h).1

/-! ## operations that only touch the ghost state -/

theorem inv_newUnallocated {g g' : GState} {out : Out} (h : Inv cfg g)
    (hs : stepCore cfg g .newUnallocated = .ok (g', out)) : Inv cfg g' := by
  unfold stepCore at hs
  simp only [bind, Except.bind, pure, Except.pure] at hs
  split at hs
  · cases hs
  · cases hs; exact h

theorem inv_scopeEnter {g g' : GState} {out : Out} (h : Inv cfg g)
    (hs : stepCore cfg g .scopeEnter = .ok (g', out)) : Inv cfg g' := by
  unfold stepCore at hs
  simp only [bind, Except.bind, pure, Except.pure] at hs
  split at hs
  · cases hs
  · rename_i u hu
    have hp := noPrepared_ok hu
    cases hs
    have hcov : ChunksCov g.s { g.s with frames := .scope (checkpoint cfg g.s) :: g.s.frames } := ChunksCov.of_eq rfl
    have hsub : LiveSub g.s { g.s with frames := .scope (checkpoint cfg g.s) :: g.s.frames } := LiveSub.of_eq rfl
    refine h.step_to (geom_congr (s := g.s) rfl rfl rfl h.geom) (disj_congr (s := g.s) rfl h.disj)
      (liveOK_congr (s := g.s) rfl rfl rfl h.live) h.unalloc h.notClaimed h.liveCur hcov hsub (Nat.le_refl _) h.ids
      ?_ ?_ (fun x hx => Or.inl hx) (fun p hp' => by simp only [hp] at hp'; cases hp')
    · simp only [FramesOK]
      exact ⟨(cpOK_checkpoint h).mono hcov hsub (Nat.le_refl _), h.frames.mono' hcov hsub (Nat.le_refl _)⟩
    · intro m hm
      rcases List.mem_cons.mp hm with rfl | hm
      · exact Nat.le_refl _
      · exact h.marks m hm

theorem inv_checkpoint {g g' : GState} {out : Out} {k : Nat} (h : Inv cfg g)
    (hs : stepCore cfg g (.checkpoint k) = .ok (g', out)) : Inv cfg g' := by
  unfold stepCore at hs
  simp only [bind, Except.bind, pure, Except.pure] at hs
  split at hs
  · cases hs
  · rename_i u hu
    have hp := noPrepared_ok hu
    split at hs
    · cases hs
    · cases hs
      refine h.step_to (s' := { g.s with userCps := _ }) (geom_congr (s := g.s) rfl rfl rfl h.geom)
        (disj_congr (s := g.s) rfl h.disj)
        (liveOK_congr (s := g.s) rfl rfl rfl h.live) h.unalloc h.notClaimed h.liveCur (ChunksCov.of_eq rfl)
        (LiveSub.of_eq rfl) (Nat.le_refl _) h.ids
        (h.frames.congr rfl rfl rfl) h.marks
        ?_ (fun p hp' => by simp only [hp] at hp'; cases hp')
      intro x hx
      rcases List.mem_cons.mp hx with rfl | hx
      · exact Or.inr ((cpOK_checkpoint h).mono (ChunksCov.of_eq rfl) (LiveSub.of_eq rfl) (Nat.le_refl _))
      · exact Or.inl (mem_filter_sub hx)

theorem inv_claim {g g' : GState} {out : Out} (h : Inv cfg g)
    (hs : stepCore cfg g .claim = .ok (g', out)) : Inv cfg g' := by
  unfold stepCore at hs
  simp only [bind, Except.bind, pure, Except.pure] at hs
  split at hs
  · cases hs
  · rename_i u hu
    have hp := noPrepared_ok hu
    split at hs
    · cases hs
    · cases hs
      refine h.step_to (s' := { g.s with frames := _ }) (geom_congr (s := g.s) rfl rfl rfl h.geom)
        (disj_congr (s := g.s) rfl h.disj)
        (liveOK_congr (s := g.s) rfl rfl rfl h.live) h.unalloc h.notClaimed h.liveCur (ChunksCov.of_eq rfl)
        (LiveSub.of_eq rfl) (Nat.le_refl _) h.ids ?_ h.marks
        (fun x hx => Or.inl hx) (fun p hp' => by simp only [hp] at hp'; cases hp')
      simp only [FramesOK]
      exact h.frames.congr rfl rfl rfl

theorem inv_claimEnd {g g' : GState} {out : Out} (h : Inv cfg g)
    (hs : stepCore cfg g .claimEnd = .ok (g', out)) : Inv cfg g' := by
  unfold stepCore at hs
  simp only [bind, Except.bind, pure, Except.pure] at hs
  split at hs
  · cases hs
  · rename_i u hu
    have hp := noPrepared_ok hu
    split at hs
    · rename_i rest hfr
      cases hs
      have hf := h.frames
      rw [hfr] at hf
      simp only [FramesOK] at hf
      refine h.step_to (s' := { g.s with frames := rest }) (geom_congr (s := g.s) rfl rfl rfl h.geom)
        (disj_congr (s := g.s) rfl h.disj)
        (liveOK_congr (s := g.s) rfl rfl rfl h.live) h.unalloc h.notClaimed h.liveCur (ChunksCov.of_eq rfl)
        (LiveSub.of_eq rfl) (Nat.le_refl _) h.ids ?_ h.marks
        (fun x hx => Or.inl hx) (fun p hp' => by simp only [hp] at hp'; cases hp')
      exact hf.congr rfl rfl rfl
    · cases hs

theorem inv_abandonPrepared {g g' : GState} {out : Out} (h : Inv cfg g)
    (hs : stepCore cfg g .abandonPrepared = .ok (g', out)) : Inv cfg g' := by
  unfold stepCore at hs
  simp only [bind, Except.bind, pure, Except.pure] at hs
  split at hs
  · cases hs
    refine h.step_to (s' := { g.s with prepared := none }) (geom_congr (s := g.s) rfl rfl rfl h.geom)
      (disj_congr (s := g.s) rfl h.disj)
      (liveOK_congr (s := g.s) rfl rfl rfl h.live) h.unalloc h.notClaimed h.liveCur (ChunksCov.of_eq rfl)
      (LiveSub.of_eq rfl) (Nat.le_refl _) h.ids
      (h.frames.congr rfl rfl rfl) h.marks
      (fun x hx => Or.inl hx) (fun p hp' => by cases hp')
  · cases hs

/-! ## leaving a scope, `reset_to` -/

/-- the common core of scope exit / `reset_to` / `scoped_aligned` exit: the state after `resetTo` (run with
    minimum alignment `ma`) followed by `killFrom m`, with new frames `fs` / marks `ms` -/
theorem inv_after_resetTo {g : GState} (h : Inv cfg g) {ma : Nat} (hma : MinAlignOK ma) {cp : Checkpoint} {m : Nat}
    (hcp : CpOK cfg g.s cp m) (hprep : g.s.prepared = none) {s' : State}
    (hr : resetTo cfg { g.s with minAlign := ma } cp = .ok s') {fs : List Frame} {ms : List Nat}
    (hfr : FramesOK cfg g.s ma fs ms) (hms : ∀ x ∈ ms, x ≤ g.s.nextId) :
    Inv cfg ⟨killFrom { s' with frames := fs } m, ms⟩ := by
  have hc := h.cfgOK
  have hg0 : CpGeom cfg { g.s with minAlign := ma } cp := hcp.geom
  have hck : CheckpointOK cfg g.s cp := checkpointOK_of (s := { g.s with minAlign := ma }) hg0 hr
  obtain ⟨s1, e1, e2, e3, e4, _⟩ := resetTo_ok_min hc h.geom hma hck
  rw [e1] at hr; injection hr with hr; subst hr
  have hst : Stable { g.s with minAlign := ma } s1 := resetTo_stable e1
  have hcov : ChunksCov g.s (killFrom { s1 with frames := fs } m) := hst.cov
  have hsub : LiveSub g.s (killFrom { s1 with frames := fs } m) := by
    intro b hb
    have := mem_filter_sub hb
    exact Or.inl (hst.live ▸ this)
  have hn : g.s.nextId ≤ (killFrom { s1 with frames := fs } m).nextId := Nat.le_of_eq hst.nextId.symm
  have hl0 : Mem.LiveOK cfg { g.s with minAlign := ma } := liveOK_congr (s := g.s) rfl rfl rfl h.live
  have hlive := Mem.liveOK_resetTo_killFrom hl0 hma (fun b hb hid hs => placedAt_mono (ChunksCov.of_eq rfl) (hcp.older b hb hid hs)) e1
  have hcur := resetTo_cur e1
  refine h.step_to (geom_congr (s := s1) rfl rfl rfl e2) (disj_congr (s := s1) rfl (e3.disjoint h.disj))
    (liveOK_congr (s := killFrom s1 m) rfl rfl rfl hlive) ?_ ?_ ?_ hcov hsub hn ?_ ?_ ?_ ?_ ?_
  · intro hu
    rcases hcur with ⟨c1, c2⟩ | ⟨j, hj⟩
    · exact c2.trans (h.unalloc (c1 ▸ hu))
    · rw [show (killFrom { s1 with frames := fs } m).cur = s1.cur from rfl, hj] at hu; cases hu
  · intro hu
    rcases hcur with ⟨c1, c2⟩ | ⟨j, hj⟩
    · exact h.notClaimed (c1 ▸ hu)
    · rw [show (killFrom { s1 with frames := fs } m).cur = s1.cur from rfl, hj] at hu; cases hu
  · intro hu
    rcases hcur with ⟨c1, c2⟩ | ⟨j, hj⟩
    · have := h.liveCur (c1 ▸ hu)
      show s1.live.filter _ = []
      rw [hst.live, show ({ g.s with minAlign := ma } : State).live = g.s.live from rfl, this]; rfl
    · rw [show (killFrom { s1 with frames := fs } m).cur = s1.cur from rfl, hj] at hu; cases hu
  · intro b hb
    rcases hsub b hb with hb' | hb'
    · have := h.ids b hb'; omega
    · exact absurd (h.ids b ((hst.live ▸ mem_filter_sub hb))) (by have := hb'.1; omega)
  · show FramesOK cfg _ s1.minAlign fs ms
    rw [e4]
    exact hfr.mono' hcov hsub hn
  · intro x hx
    exact Nat.le_trans (hms x hx) hn
  · intro x hx
    have := mem_filter_sub hx
    exact Or.inl (hst.userCps ▸ this)
  · intro p hp
    have : s1.prepared = none := hst.prepared.trans hprep
    rw [show (killFrom { s1 with frames := fs } m).prepared = s1.prepared from rfl, this] at hp
    cases hp

theorem minAlign_self (s : State) : ({ s with minAlign := s.minAlign } : State) = s := rfl

theorem inv_scopeExit {g g' : GState} {out : Out} (h : Inv cfg g)
    (hs : stepCore cfg g .scopeExit = .ok (g', out)) : Inv cfg g' := by
  unfold stepCore at hs
  simp only [bind, Except.bind, pure, Except.pure] at hs
  split at hs
  · cases hs
  · rename_i u hu
    have hp := noPrepared_ok hu
    split at hs
    · rename_i cp rest m ms hfr hmk
      split at hs
      · cases hs
      · rename_i s' hs'
        cases hs
        have hf := h.frames
        rw [hfr, hmk] at hf
        simp only [FramesOK] at hf
        have hms := h.marks
        rw [hmk] at hms
        exact inv_after_resetTo h h.geom.minAlign hf.1 hp hs' hf.2
          (fun x hx => hms x (List.mem_cons_of_mem _ hx))
    · cases hs

theorem inv_scopedAlignedExit {g g' : GState} {out : Out} (h : Inv cfg g)
    (hs : stepCore cfg g .scopedAlignedExit = .ok (g', out)) : Inv cfg g' := by
  unfold stepCore at hs
  simp only [bind, Except.bind, pure, Except.pure] at hs
  split at hs
  · cases hs
  · rename_i u hu
    have hp := noPrepared_ok hu
    split at hs
    · rename_i cp outer rest m ms hfr hmk
      split at hs
      · cases hs
      · rename_i s' hs'
        cases hs
        have hf := h.frames
        rw [hfr, hmk] at hf
        simp only [FramesOK] at hf
        have hms := h.marks
        rw [hmk] at hms
        exact inv_after_resetTo h hf.1 hf.2.1 hp hs' hf.2.2
          (fun x hx => hms x (List.mem_cons_of_mem _ hx))
    · cases hs

theorem inv_resetTo {g g' : GState} {out : Out} {k : Nat} (h : Inv cfg g)
    (hs : stepCore cfg g (.resetTo k) = .ok (g', out)) : Inv cfg g' := by
  unfold stepCore at hs
  simp only [bind, Except.bind, pure, Except.pure] at hs
  split at hs
  · cases hs
  · rename_i u hu
    have hp := noPrepared_ok hu
    split at hs
    · cases hs
    · rename_i k' cp mark hfind
      split at hs
      · cases hs
      · split at hs
        · cases hs
        · split at hs
          · cases hs
          · rename_i s' hs'
            cases hs
            have hmem := List.mem_of_find?_eq_some hfind
            have hcp := h.cps _ hmem
            have := inv_after_resetTo h h.geom.minAlign hcp hp hs' h.frames h.marks
            have hfr : s'.frames = g.s.frames := (resetTo_stable hs').frames
            have e : ({ s' with frames := g.s.frames } : State) = s' := by rw [← hfr]
            rw [e] at this
            exact this

end Arena.Hist
