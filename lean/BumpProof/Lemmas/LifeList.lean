/-
  Lemmas/LifeList.lean — facts about the association-list store and the arena table of the dynamic state of
  the region calculus (`Life/Calculus.lean`).
-/
import BumpProof.Life.Calculus

namespace Life

@[simp] theorem DState.get_set_self (σ : DState) (x : Var) (r : Rt) : (σ.set x r).get x = some r := by
  simp [DState.get, DState.set]

theorem DState.get_set_ne (σ : DState) {x v : Var} (r : Rt) (h : v ≠ x) : (σ.set x r).get v = σ.get v := by
  have : (x == v) = false := by simpa using fun h' => h h'.symm
  simp [DState.get, DState.set, this]

@[simp] theorem DState.epochs_set (σ : DState) (x : Var) (r : Rt) (a : Nat) : (σ.set x r).epochs a = σ.epochs a := rfl
@[simp] theorem DState.next_set (σ : DState) (x : Var) (r : Rt) : (σ.set x r).next = σ.next := rfl
@[simp] theorem DState.frames_set (σ : DState) (x : Var) (r : Rt) : (σ.set x r).frames = σ.frames := rfl
@[simp] theorem DState.store_setEpochs (σ : DState) (a : Nat) (eps : List Nat) : (σ.setEpochs a eps).store = σ.store := rfl
@[simp] theorem DState.get_setEpochs (σ : DState) (a : Nat) (eps : List Nat) (v : Var) : (σ.setEpochs a eps).get v = σ.get v := rfl
@[simp] theorem DState.next_setEpochs (σ : DState) (a : Nat) (eps : List Nat) : (σ.setEpochs a eps).next = σ.next := rfl
@[simp] theorem DState.frames_setEpochs (σ : DState) (a : Nat) (eps : List Nat) : (σ.setEpochs a eps).frames = σ.frames := rfl

theorem DState.lt_of_epochs_ne_nil {σ : DState} {a : Nat} (h : σ.epochs a ≠ []) : a < σ.arenas.length := by
  unfold DState.epochs at h
  by_cases hlt : a < σ.arenas.length
  · exact hlt
  · exfalso; apply h
    simp [List.getD, List.getElem?_eq_none (Nat.le_of_not_lt hlt)]

theorem DState.epochs_setEpochs_self {σ : DState} {a : Nat} (h : a < σ.arenas.length) (eps : List Nat) :
    (σ.setEpochs a eps).epochs a = eps := by
  simp [DState.epochs, DState.setEpochs, List.getD, h]

theorem DState.epochs_setEpochs_ne (σ : DState) {a b : Nat} (h : b ≠ a) (eps : List Nat) :
    (σ.setEpochs a eps).epochs b = σ.epochs b := by
  simp [DState.epochs, DState.setEpochs, List.getD, List.getElem?_set_ne (Ne.symm h)]

/-- whatever the index, putting `[]` leaves `[]` -/
theorem DState.epochs_setEpochs_nil (σ : DState) (a : Nat) : (σ.setEpochs a []).epochs a = [] := by
  by_cases h : a < σ.arenas.length
  · exact DState.epochs_setEpochs_self h []
  · have hl : (σ.arenas.set a []).length ≤ a := by simpa using Nat.le_of_not_lt h
    simp [DState.epochs, DState.setEpochs, List.getD, List.getElem?_eq_none hl]

/-! ### epoch stacks -/

theorem cutAt_nil (e : Nat) : cutAt e [] = [] := rfl

theorem cutAt_cons (e x : Nat) (l : List Nat) : cutAt e (x :: l) = if x = e then [] else x :: cutAt e l := by
  unfold cutAt
  by_cases h : x = e
  · subst h; simp [List.takeWhile]
  · have hb : (x != e) = true := by simpa using h
    simp [List.takeWhile, hb, h]

theorem cutAt_sublist (e : Nat) (l : List Nat) : (cutAt e l).Sublist l := by
  unfold cutAt; exact List.takeWhile_sublist _

theorem mem_cutAt {e x : Nat} {l : List Nat} (h : x ∈ cutAt e l) : x ∈ l := (cutAt_sublist e l).subset h

theorem nodup_cutAt {e : Nat} {l : List Nat} (h : l.Nodup) : (cutAt e l).Nodup :=
  List.Nodup.sublist (cutAt_sublist e l) h

theorem not_mem_cutAt_self (e : Nat) (l : List Nat) : e ∉ cutAt e l := by
  induction l with
  | nil => simp [cutAt_nil]
  | cons x l ih =>
    rw [cutAt_cons]
    by_cases h : x = e
    · simp [h]
    · simp [h, ih]; exact fun h' => h h'.symm

theorem cutAt_of_not_mem {e : Nat} {l : List Nat} (h : e ∉ l) : cutAt e l = l := by
  induction l with
  | nil => rfl
  | cons x l ih =>
    rw [cutAt_cons]
    have hx : x ≠ e := fun hx => h (hx ▸ List.mem_cons_self)
    simp [hx, ih (fun hm => h (List.mem_cons_of_mem _ hm))]

/-- pushing new epochs on top does not change what lies below an epoch that is already open -/
theorem cutAt_append_of_mem {e : Nat} {l : List Nat} (h : e ∈ l) (n : List Nat) : cutAt e (l ++ n) = cutAt e l := by
  induction l with
  | nil => cases h
  | cons x l ih =>
    rw [List.cons_append, cutAt_cons, cutAt_cons]
    by_cases hx : x = e
    · simp [hx]
    · simp [hx]
      rcases List.mem_cons.1 h with h | h
      · exact absurd h.symm hx
      · exact ih h

/-- for an epoch that survives a cut, the epochs below it are the same before and after -/
theorem cutAt_cutAt_of_mem {e0 e : Nat} {l : List Nat} (h : e ∈ cutAt e0 l) : cutAt e (cutAt e0 l) = cutAt e l := by
  induction l with
  | nil => simp [cutAt_nil] at h
  | cons x l ih =>
    rw [cutAt_cons] at h ⊢
    by_cases hx0 : x = e0
    · simp [hx0] at h
    · simp [hx0] at h ⊢
      rw [cutAt_cons, cutAt_cons]
      by_cases hx : x = e
      · simp [hx]
      · simp [hx]
        rcases h with h | h
        · exact absurd h.symm hx
        · exact ih h

/-- the top of a stack that contains `e` is at or above `e` -/
theorem getLast_not_mem_cutAt {e : Nat} {l : List Nat} (hn : l.Nodup) (h : e ∈ l) {t : Nat} (ht : l.getLast? = some t) :
    t ∉ cutAt e l := by
  induction l with
  | nil => cases h
  | cons x l ih =>
    rw [cutAt_cons]
    by_cases hx : x = e
    · simp [hx]
    · simp [hx]
      rcases List.mem_cons.1 h with h | h
      · exact absurd h.symm hx
      · have hl : l ≠ [] := List.ne_nil_of_mem h
        have ht' : l.getLast? = some t := by
          rw [List.getLast?_cons_of_ne_nil hl] at ht; exact ht
        refine ⟨?_, ih (List.nodup_cons.1 hn).2 h ht'⟩
        intro hxt
        have : t ∈ l := List.mem_of_getLast? ht'
        exact (List.nodup_cons.1 hn).1 (hxt ▸ this)

theorem head?_cutAt (e : Nat) (l : List Nat) : (cutAt e l).head? = none ∨ (cutAt e l).head? = l.head? := by
  cases l with
  | nil => exact Or.inl rfl
  | cons x l =>
    rw [cutAt_cons]
    by_cases hx : x = e
    · simp [hx]
    · simp [hx]

theorem cutAt_ne_nil {e : Nat} {l : List Nat} (hl : l ≠ []) (hh : l.head? ≠ some e) : cutAt e l ≠ [] := by
  cases l with
  | nil => exact absurd rfl hl
  | cons x l =>
    rw [cutAt_cons]
    have hx : x ≠ e := fun hx => hh (by simp [hx])
    simp [hx]

theorem cutAt_append_self {n : Nat} {l : List Nat} (h : n ∉ l) : cutAt n (l ++ [n]) = l := by
  induction l with
  | nil => simp [cutAt_cons, cutAt_nil]
  | cons x l ih =>
    rw [List.cons_append, cutAt_cons]
    have hx : x ≠ n := fun hx => h (hx ▸ List.mem_cons_self)
    simp [hx, ih (fun hm => h (List.mem_cons_of_mem _ hm))]

end Life
