/-
  Lemmas/SizeSpec.lean — facts about the wide-integer specification `Spec/Size.lean`:
  `nextPow2`, the header constants, `calcSizeRaw` and `calcSize`.
-/
import BumpProof.Lemmas.SizeAux

namespace Lemmas.Size
open Rs Spec

theorem natmax (a b : Nat) : Nat.max a b = Max.max a b := rfl

/-! ## `nextPow2` -/

theorem npotFrom_spec (h : Nat) : ∀ fuel k, h ≤ 2 ^ (k + fuel) →
    ∃ i, k ≤ i ∧ Rs.npotFrom h fuel (2 ^ k) = 2 ^ i ∧ h ≤ 2 ^ i ∧ (i = k ∨ 2 ^ (i - 1) < h) := by
  intro fuel
  induction fuel with
  | zero => intro k hk; exact ⟨k, Nat.le_refl k, rfl, hk, Or.inl rfl⟩
  | succ n ih =>
    intro k hk
    unfold Rs.npotFrom
    by_cases hle : h ≤ 2 ^ k
    · rw [if_pos hle]; exact ⟨k, Nat.le_refl k, rfl, hle, Or.inl rfl⟩
    · rw [if_neg hle]
      have h2 : 2 * 2 ^ k = 2 ^ (k + 1) := by rw [Nat.pow_succ, Nat.mul_comm]
      rw [h2]
      obtain ⟨i, hki, he, hhi, hor⟩ := ih (k + 1) (by rw [show k + 1 + n = k + (n + 1) by omega]; exact hk)
      refine ⟨i, by omega, he, hhi, Or.inr ?_⟩
      rcases hor with rfl | h3
      · rw [Nat.add_sub_cancel]; omega
      · exact h3

/-- `nextPow2 h` is the least power of two `≥ h` -/
theorem nextPow2_spec {h : Nat} (hh : h ≤ 2 ^ 64) :
    ∃ i, nextPow2 h = 2 ^ i ∧ h ≤ 2 ^ i ∧ ∀ m, h ≤ 2 ^ m → i ≤ m := by
  obtain ⟨i, _, he, hhi, hor⟩ := npotFrom_spec h 64 0 (by simpa using hh)
  refine ⟨i, he, hhi, ?_⟩
  intro m hm
  rcases hor with rfl | h3
  · omega
  · have : 2 ^ (i - 1) < 2 ^ m := Nat.lt_of_lt_of_le h3 hm
    have : i - 1 < m := (Nat.pow_lt_pow_iff_right (by decide)).1 this
    omega

/-! ## Header constants -/

/-- the size step: one assumed page, or the header alignment if that is larger -/
def stepOf (H : Layout) : Nat := Nat.max 4096 H.align
/-- the hint after clamping to the minimum size -/
def hOf (H : Layout) (hint : Nat) : Nat := Nat.max hint (minSize H)

theorem calcSizeRaw_def (H : Layout) (hint : Nat) :
    calcSizeRaw H hint =
      if hOf H hint < stepOf H then nextPow2 (hOf H hint) else upAlign (hOf H hint) (stepOf H) := rfl

theorem hdr_p2 {H : Layout} (hH : HeaderOK H) : P2 H.align := by
  obtain ⟨j, _, _, hj⟩ := hH.pow; exact ⟨j, hj⟩

theorem hdr_ge {H : Layout} (hH : HeaderOK H) : 16 ≤ H.align := by
  obtain ⟨j, hj4, _, hj⟩ := hH.pow
  rw [hj]; show 2 ^ 4 ≤ 2 ^ j; exact Nat.pow_le_pow_right (by decide) hj4

theorem hdr_le {H : Layout} (hH : HeaderOK H) : H.align ≤ 65536 := by
  obtain ⟨j, _, hj16, hj⟩ := hH.pow
  rw [hj]; show 2 ^ j ≤ 2 ^ 16; exact Nat.pow_le_pow_right (by decide) hj16

theorem hdr_lt64 {H : Layout} (hH : HeaderOK H) : H.align < 2 ^ 64 := by
  have := hdr_le hH; rw [two_pow_64]; omega

theorem hdr_16_dvd {H : Layout} (hH : HeaderOK H) : 16 ∣ H.align :=
  P2.dvd_of_le ⟨4, rfl⟩ (hdr_p2 hH) (hdr_ge hH)

theorem upAlign_16 {H : Layout} (hH : HeaderOK H) : upAlign 16 H.align = H.align := by
  have hpos := (hdr_p2 hH).pos
  apply Nat.le_antisymm
  · exact upAlign_le_of_dvd hpos (Nat.dvd_refl _) (hdr_ge hH)
  · apply Nat.le_of_dvd
    · have := le_upAlign 16 hpos; omega
    · exact upAlign_dvd 16 H.align

theorem minSize_eq {H : Layout} (hH : HeaderOK H) : minSize H = H.align + H.size := by
  unfold minSize; rw [upAlign_16 hH]

theorem minSize_lt {H : Layout} (hH : HeaderOK H) : minSize H < 2 ^ 64 := by
  rw [minSize_eq hH, two_pow_64]
  have := hdr_le hH
  have := hH.le
  omega

theorem step_p2 {H : Layout} (hH : HeaderOK H) : P2 (stepOf H) :=
  P2.max ⟨12, rfl⟩ (hdr_p2 hH)

theorem step_ge (H : Layout) : 4096 ≤ stepOf H ∧ H.align ≤ stepOf H := by
  unfold stepOf; rw [natmax]; omega

theorem step_le {H : Layout} (hH : HeaderOK H) : stepOf H ≤ 65536 := by
  have := hdr_le hH
  unfold stepOf; rw [natmax]; omega

theorem step_lt64 {H : Layout} (hH : HeaderOK H) : stepOf H < 2 ^ 64 := by
  have := step_le hH; rw [two_pow_64]; omega

theorem align_dvd_step {H : Layout} (hH : HeaderOK H) : H.align ∣ stepOf H :=
  P2.dvd_of_le (hdr_p2 hH) (step_p2 hH) (step_ge H).2

theorem hOf_ge (H : Layout) (hint : Nat) : hint ≤ hOf H hint ∧ minSize H ≤ hOf H hint := by
  unfold hOf; rw [natmax]; omega

theorem hOf_mono (H : Layout) {h1 h2 : Nat} (h : h1 ≤ h2) : hOf H h1 ≤ hOf H h2 := by
  unfold hOf; rw [natmax, natmax]; omega

theorem hOf_lt {H : Layout} (hH : HeaderOK H) {hint : Nat} (hh : hint < 2 ^ 64) : hOf H hint < 2 ^ 64 := by
  have := minSize_lt hH
  unfold hOf; rw [natmax]; omega

/-! ## `calcSizeRaw` -/

/-- the two branches of `calcSizeRaw` -/
theorem raw_cases {H : Layout} (hH : HeaderOK H) (hint : Nat) :
    (hOf H hint < stepOf H ∧ ∃ i, calcSizeRaw H hint = 2 ^ i ∧ hOf H hint ≤ 2 ^ i ∧
        ∀ m, hOf H hint ≤ 2 ^ m → i ≤ m) ∨
    (stepOf H ≤ hOf H hint ∧ calcSizeRaw H hint = upAlign (hOf H hint) (stepOf H)) := by
  rw [calcSizeRaw_def]
  by_cases hlt : hOf H hint < stepOf H
  · rw [if_pos hlt]
    have := step_le hH
    exact Or.inl ⟨hlt, nextPow2_spec (by rw [two_pow_64]; omega)⟩
  · rw [if_neg hlt]
    exact Or.inr ⟨by omega, rfl⟩

/-- in the power-of-two branch the result is at most one step -/
theorem raw_le_step {H : Layout} (hH : HeaderOK H) {hint : Nat} (hlt : hOf H hint < stepOf H) :
    calcSizeRaw H hint ≤ stepOf H := by
  rcases raw_cases hH hint with ⟨_, i, he, _, hmin⟩ | ⟨hge, _⟩
  · obtain ⟨m, hm⟩ := step_p2 hH
    rw [he, hm]
    exact Nat.pow_le_pow_right (by decide) (hmin m (by omega))
  · omega

theorem raw_ge_h {H : Layout} (hH : HeaderOK H) (hint : Nat) : hOf H hint ≤ calcSizeRaw H hint := by
  rcases raw_cases hH hint with ⟨_, i, he, hle, _⟩ | ⟨_, he⟩
  · omega
  · rw [he]; exact le_upAlign _ (step_p2 hH).pos

theorem raw_ge {H : Layout} (hH : HeaderOK H) (hint : Nat) :
    hint ≤ calcSizeRaw H hint ∧ minSize H ≤ calcSizeRaw H hint := by
  have := raw_ge_h hH hint
  have := hOf_ge H hint
  omega

theorem raw_lt_step {H : Layout} (hH : HeaderOK H) {hint : Nat}
    (hlt : calcSizeRaw H hint < stepOf H) : P2 (calcSizeRaw H hint) := by
  rcases raw_cases hH hint with ⟨_, i, he, _, _⟩ | ⟨hge, _⟩
  · exact ⟨i, he⟩
  · have := raw_ge_h hH hint; omega

theorem raw_ge_step {H : Layout} (hH : HeaderOK H) {hint : Nat}
    (hge : stepOf H ≤ calcSizeRaw H hint) : stepOf H ∣ calcSizeRaw H hint := by
  rcases raw_cases hH hint with ⟨hlt, _⟩ | ⟨_, he⟩
  · have := raw_le_step hH hlt
    have : calcSizeRaw H hint = stepOf H := by omega
    rw [this]; exact Nat.dvd_refl _
  · rw [he]; exact upAlign_dvd _ _

theorem raw_dvd {H : Layout} (hH : HeaderOK H) (hint : Nat) : H.align ∣ calcSizeRaw H hint := by
  by_cases hlt : calcSizeRaw H hint < stepOf H
  · apply P2.dvd_of_le (hdr_p2 hH) (raw_lt_step hH hlt)
    have := (raw_ge hH hint).2
    rw [minSize_eq hH] at this
    omega
  · exact Nat.dvd_trans (align_dvd_step hH) (raw_ge_step hH (by omega))

theorem raw_16_dvd {H : Layout} (hH : HeaderOK H) (hint : Nat) : 16 ∣ calcSizeRaw H hint :=
  Nat.dvd_trans (hdr_16_dvd hH) (raw_dvd hH hint)

theorem raw_mono {H : Layout} (hH : HeaderOK H) {h1 h2 : Nat} (hle : h1 ≤ h2) :
    calcSizeRaw H h1 ≤ calcSizeRaw H h2 := by
  have hm := hOf_mono H hle
  rcases raw_cases hH h1 with ⟨hlt1, i1, he1, hle1, hmin1⟩ | ⟨hge1, he1⟩
  · rcases raw_cases hH h2 with ⟨hlt2, i2, he2, hle2, hmin2⟩ | ⟨hge2, he2⟩
    · rw [he1, he2]
      exact Nat.pow_le_pow_right (by decide) (hmin1 i2 (by omega))
    · have := raw_le_step hH hlt1
      have := raw_ge_h hH h2
      omega
  · rcases raw_cases hH h2 with ⟨hlt2, _⟩ | ⟨hge2, he2⟩
    · omega
    · rw [he1, he2]; exact upAlign_mono _ hm

/-! ## `sizeAlign` and `calcSize` -/

theorem sizeAlign_cases {H : Layout} (hH : HeaderOK H) (up : Bool) :
    (up = true ∨ H.align ≤ 16) ∧ sizeAlign up H = 16 ∨
    (up = false ∧ 16 < H.align) ∧ sizeAlign up H = H.align := by
  have := hdr_ge hH
  unfold sizeAlign
  cases up
  · by_cases h : H.align ≤ 16
    · refine Or.inl ⟨Or.inr h, ?_⟩
      simp only [Bool.false_eq_true, ↓reduceIte, natmax]; omega
    · refine Or.inr ⟨⟨rfl, by omega⟩, ?_⟩
      simp only [Bool.false_eq_true, ↓reduceIte, natmax]; omega
  · exact Or.inl ⟨Or.inl rfl, rfl⟩

theorem sizeAlign_pos {H : Layout} (hH : HeaderOK H) (up : Bool) : 0 < sizeAlign up H := by
  have := hdr_ge hH
  rcases sizeAlign_cases hH up with ⟨_, h⟩ | ⟨_, h⟩ <;> omega

theorem sizeAlign_16_dvd {H : Layout} (hH : HeaderOK H) (up : Bool) : 16 ∣ sizeAlign up H := by
  rcases sizeAlign_cases hH up with ⟨_, h⟩ | ⟨_, h⟩
  · rw [h]; exact Nat.dvd_refl 16
  · rw [h]; exact hdr_16_dvd hH

/-- unfolding of `calcSize` into its three cases -/
theorem calcSize_cases {H : Layout} (hH : HeaderOK H) (up : Bool) (hint : Nat) :
    (2 ^ 64 ≤ calcSizeRaw H hint ∧ calcSize up H hint = none) ∨
    (calcSizeRaw H hint < 2 ^ 64 ∧ (up = true ∨ H.align ≤ 16) ∧ sizeAlign up H = 16 ∧
      calcSize up H hint = some (calcSizeRaw H hint - 16)) ∨
    (calcSizeRaw H hint < 2 ^ 64 ∧ (up = false ∧ 16 < H.align) ∧ sizeAlign up H = H.align ∧
      calcSize up H hint = some (calcSizeRaw H hint)) := by
  by_cases hr : 2 ^ 64 ≤ calcSizeRaw H hint
  · left; refine ⟨hr, ?_⟩
    unfold calcSize; simp only [ge_iff_le, hr, ↓reduceIte]
  · right
    rcases sizeAlign_cases hH up with ⟨hc, hs⟩ | ⟨hc, hs⟩
    · left; refine ⟨by omega, hc, hs, ?_⟩
      unfold calcSize
      simp only [ge_iff_le, hr, ↓reduceIte, hc, hs]
      have : 16 ∣ calcSizeRaw H hint - 16 := Nat.dvd_sub (raw_16_dvd hH hint) (Nat.dvd_refl 16)
      rw [downAlign_eq_self this]
    · right; refine ⟨by omega, hc, hs, ?_⟩
      unfold calcSize
      have : ¬ (up = true ∨ H.align ≤ 16) := by
        intro h
        rcases h with h | h
        · rw [hc.1] at h; cases h
        · omega
      simp only [ge_iff_le, hr, ↓reduceIte, this]

/-! ## The two `offset_add_layout` calls shared by the generated functions -/

open Gen.SizeConfig

theorem oal_overhead : offset_add_layout 0 { size := 16, align := 8 } = .ok (some 16) := by
  rw [offset_add_layout_eq ⟨3, rfl⟩ (by decide)]
  rfl

theorem oal_header {H : Layout} (hH : HeaderOK H) : offset_add_layout 16 H = .ok (some (minSize H)) := by
  rw [offset_add_layout_eq (hdr_p2 hH) (hdr_lt64 hH)]
  have : upAlign 16 H.align + H.size = minSize H := rfl
  rw [this, if_pos (minSize_lt hH)]

end Lemmas.Size
