/-
  Lemmas/SizeAux.lean — helper lemmas for Lemmas/SizeEq.lean (property C12):
  alignment arithmetic, powers of two, bit masks, the checked `Rs` operators and
  the small generated helpers of `Gen.SizeConfig`.  Self-contained (own namespace
  `Lemmas.Size`) so that it does not depend on the C11 lemma files.
-/
import BumpProof.Gen.SizeConfig
import BumpProof.Spec.Size

namespace Lemmas.Size
open Rs Spec

/-! ## `downAlign` / `upAlign` over unbounded naturals -/

theorem downAlign_eq (x a : Nat) : downAlign x a = x - x % a := by
  unfold downAlign
  have := Nat.div_add_mod x a
  rw [Nat.mul_comm] at this
  omega

theorem downAlign_dvd (x a : Nat) : a ∣ downAlign x a :=
  Nat.dvd_mul_left a _

theorem downAlign_le (x a : Nat) : downAlign x a ≤ x :=
  Nat.div_mul_le_self x a

theorem lt_downAlign_add {a : Nat} (x : Nat) (ha : 0 < a) : x < downAlign x a + a := by
  rw [downAlign_eq]
  have := Nat.mod_lt x ha
  have := Nat.mod_le x a
  omega

theorem le_downAlign_of_dvd {x a q : Nat} (ha : 0 < a) (hq : a ∣ q) (hqx : q ≤ x) :
    q ≤ downAlign x a := by
  obtain ⟨c, rfl⟩ := hq
  unfold downAlign
  rw [Nat.mul_comm a c]
  rw [Nat.mul_comm a c] at hqx
  exact Nat.mul_le_mul_right a ((Nat.le_div_iff_mul_le ha).2 hqx)

theorem downAlign_eq_self {x a : Nat} (h : a ∣ x) : downAlign x a = x := by
  rw [downAlign_eq, Nat.mod_eq_zero_of_dvd h]; rfl

theorem downAlign_mono {x y : Nat} (a : Nat) (h : x ≤ y) : downAlign x a ≤ downAlign y a := by
  unfold downAlign
  exact Nat.mul_le_mul_right a (Nat.div_le_div_right h)

theorem upAlign_eq_downAlign (x a : Nat) : upAlign x a = downAlign (x + (a - 1)) a := rfl

theorem upAlign_dvd (x a : Nat) : a ∣ upAlign x a :=
  Nat.dvd_mul_left a _

theorem le_upAlign {a : Nat} (x : Nat) (ha : 0 < a) : x ≤ upAlign x a := by
  have := lt_downAlign_add (x + (a - 1)) ha
  rw [upAlign_eq_downAlign]
  omega

theorem upAlign_le_of_dvd {x a q : Nat} (ha : 0 < a) (hq : a ∣ q) (hxq : x ≤ q) :
    upAlign x a ≤ q := by
  obtain ⟨c, rfl⟩ := hq
  unfold upAlign
  rw [Nat.mul_comm a c]
  apply Nat.mul_le_mul_right
  apply Nat.le_of_lt_succ
  rw [Nat.div_lt_iff_lt_mul ha]
  have : (c + 1) * a = c * a + a := Nat.succ_mul c a
  rw [Nat.mul_comm a c] at hxq
  show x + (a - 1) < (c + 1) * a
  omega

theorem upAlign_lt {a : Nat} (x : Nat) (ha : 0 < a) : upAlign x a < x + a := by
  have := downAlign_le (x + (a - 1)) a
  rw [upAlign_eq_downAlign]
  omega

theorem upAlign_eq_self {x a : Nat} (ha : 0 < a) (h : a ∣ x) : upAlign x a = x :=
  Nat.le_antisymm (upAlign_le_of_dvd ha h (Nat.le_refl x)) (le_upAlign x ha)

theorem upAlign_mono {x y : Nat} (a : Nat) (h : x ≤ y) : upAlign x a ≤ upAlign y a := by
  rw [upAlign_eq_downAlign, upAlign_eq_downAlign]
  exact downAlign_mono a (by omega)

/-- aligning an `a`-aligned address up to a coarser alignment `b` (`a ∣ b`) moves it by at
    most `b - a` -/
theorem upAlign_le_add_sub {p a b : Nat} (hb : 0 < b) (hap : a ∣ p) (hab : a ∣ b) :
    upAlign p b ≤ p + (b - a) := by
  have h1 : a ∣ upAlign p b := Nat.dvd_trans hab (upAlign_dvd p b)
  have h2 := upAlign_lt p hb
  obtain ⟨c, hc⟩ := hap
  obtain ⟨d, hd⟩ := h1
  obtain ⟨e, he⟩ := hab
  have h4 : a * d < a * (c + e) := by rw [Nat.mul_add, ← hc, ← hd, ← he]; exact h2
  have h5 : d < c + e := Nat.lt_of_mul_lt_mul_left h4
  have h6 : a * (d + 1) ≤ a * (c + e) := Nat.mul_le_mul_left a h5
  rw [Nat.mul_add, Nat.mul_add, Nat.mul_one, ← hc, ← hd, ← he] at h6
  omega

/-! ## Powers of two -/

/-- `a` is a power of two -/
def P2 (a : Nat) : Prop := ∃ k, a = 2 ^ k

theorem P2.pos {a : Nat} (h : P2 a) : 0 < a := by
  obtain ⟨k, rfl⟩ := h; exact Nat.pow_pos (by decide)

theorem P2.dvd_of_le {a b : Nat} (ha : P2 a) (hb : P2 b) (h : a ≤ b) : a ∣ b := by
  obtain ⟨i, rfl⟩ := ha
  obtain ⟨j, rfl⟩ := hb
  exact Nat.pow_dvd_pow 2 ((Nat.pow_le_pow_iff_right (by decide)).1 h)

theorem P2.dvd_or_dvd {a b : Nat} (ha : P2 a) (hb : P2 b) : a ∣ b ∨ b ∣ a := by
  rcases Nat.le_total a b with h | h
  · exact Or.inl (ha.dvd_of_le hb h)
  · exact Or.inr (hb.dvd_of_le ha h)

theorem P2.max {a b : Nat} (ha : P2 a) (hb : P2 b) : P2 (Nat.max a b) := by
  rcases Nat.le_total a b with h | h
  · rw [show Nat.max a b = b from Nat.max_eq_right h]; exact hb
  · rw [show Nat.max a b = a from Nat.max_eq_left h]; exact ha

theorem P2.dvd_two_pow_64 {a : Nat} (ha : P2 a) (h : a < 2 ^ 64) : a ∣ 2 ^ 64 :=
  ha.dvd_of_le ⟨64, rfl⟩ (Nat.le_of_lt h)

/-- aligning an `a`-aligned address up to a power of two `b` moves it by at most `b - a`
    (not at all if `b ≤ a`) -/
theorem upAlign_le_p2 {x a b : Nat} (ha : P2 a) (hb : P2 b) (hax : a ∣ x) :
    upAlign x b ≤ x + (b - a) := by
  rcases ha.dvd_or_dvd hb with h | h
  · exact upAlign_le_add_sub hb.pos hax h
  · rw [upAlign_eq_self hb.pos (Nat.dvd_trans h hax)]; omega

theorem two_pow_64 : (2:Nat) ^ 64 = 18446744073709551616 := by decide

/-! ## Bit masks -/

theorem is_power_of_two_two_pow (k : Nat) : Rs.is_power_of_two (2 ^ k) = true := by
  unfold Rs.is_power_of_two
  have hpos : 0 < 2 ^ k := Nat.pow_pos (by decide)
  have h1 : (2 ^ k &&& (2 ^ k - 1)) = 0 := by
    rw [Nat.and_two_pow_sub_one_eq_mod]
    exact Nat.mod_self _
  simp [h1]

theorem P2.is_power_of_two {a : Nat} (h : P2 a) : Rs.is_power_of_two a = true := by
  obtain ⟨k, rfl⟩ := h; exact is_power_of_two_two_pow k

theorem band_bnot_two_pow {x k : Nat} (hx : x < 2 ^ 64) (hk : k ≤ 64) :
    Rs.band x (Rs.bnot (2 ^ k - 1)) = x - x % 2 ^ k := by
  unfold Rs.band Rs.bnot Rs.MAX
  have hpos : 0 < 2 ^ k := Nat.pow_pos (by decide)
  have hsplit : (2:Nat) ^ 64 = 2 ^ k * 2 ^ (64 - k) := by
    rw [← Nat.pow_add]; congr 1; omega
  have h1 : 2 ^ 64 - 1 - (2 ^ k - 1) = 2 ^ k * (2 ^ (64 - k) - 1) := by
    rw [Nat.mul_sub, Nat.mul_one, ← hsplit]; omega
  have h2 : x - x % 2 ^ k = 2 ^ k * (x / 2 ^ k) := by
    have := Nat.div_add_mod x (2 ^ k); omega
  rw [h1, h2]
  apply Nat.eq_of_testBit_eq
  intro i
  rw [Nat.testBit_and, Nat.testBit_two_pow_mul, Nat.testBit_two_pow_mul, Nat.testBit_two_pow_sub_one,
    Nat.testBit_div_two_pow]
  by_cases hik : k ≤ i
  · have hi : i - k + k = i := by omega
    simp only [hik, decide_true, Bool.true_and, hi]
    by_cases hi64 : i < 64
    · have : i - k < 64 - k := by omega
      simp [this]
    · have : x < 2 ^ i := Nat.lt_of_lt_of_le hx (Nat.pow_le_pow_right (by decide) (by omega))
      simp [Nat.testBit_lt_two_pow this]
  · simp [hik]

theorem P2.band_bnot {a x : Nat} (ha : P2 a) (ha64 : a < 2 ^ 64) (hx : x < 2 ^ 64) :
    Rs.band x (Rs.bnot (a - 1)) = downAlign x a := by
  obtain ⟨k, rfl⟩ := ha
  have hk : k < 64 := (Nat.pow_lt_pow_iff_right (by decide)).1 ha64
  rw [band_bnot_two_pow hx (Nat.le_of_lt hk), downAlign_eq]

/-! ## The checked `Rs` operators -/

theorem sub_ok {a b : Nat} (h : b ≤ a) : Rs.sub a b = .ok (a - b) := by
  unfold Rs.sub; rw [if_pos h]; rfl

theorem rem_ok {a b : Nat} (h : b ≠ 0) : Rs.rem a b = .ok (a % b) := by
  unfold Rs.rem; rw [if_neg h]; rfl

theorem assert_ok {b : Bool} (h : b = true) : Rs.assert b = .ok () := by
  subst h; rfl

theorem checked_add_some {a b : Nat} (h : a + b < 2 ^ 64) : Rs.checked_add a b = some (a + b) := by
  unfold Rs.checked_add Rs.MAX; rw [if_pos (by omega)]

theorem checked_add_none {a b : Nat} (h : 2 ^ 64 ≤ a + b) : Rs.checked_add a b = none := by
  unfold Rs.checked_add Rs.MAX; rw [if_neg (by omega)]

theorem checked_add_eq (a b : Nat) :
    Rs.checked_add a b = if a + b < 2 ^ 64 then some (a + b) else none := by
  by_cases h : a + b < 2 ^ 64
  · rw [if_pos h, checked_add_some h]
  · rw [if_neg h, checked_add_none (by omega)]

/-! ## The small generated helpers -/

open Gen.SizeConfig

theorem max_eq (a b : Nat) : Gen.SizeConfig.max a b = .ok (Nat.max a b) := by
  unfold Gen.SizeConfig.max
  by_cases h : a > b
  · simp only [h, decide_true, ↓reduceIte]
    rw [show Nat.max a b = a from Nat.max_eq_left (by omega)]; rfl
  · simp only [h, decide_false]
    rw [show Nat.max a b = b from Nat.max_eq_right (by omega)]; rfl

theorem down_align_eq {x a : Nat} (ha : P2 a) (ha64 : a < 2 ^ 64) (hx : x < 2 ^ 64) :
    down_align x a = .ok (downAlign x a) := by
  unfold down_align
  have hpos := ha.pos
  rw [assert_ok ha.is_power_of_two, sub_ok (by omega)]
  simp only [bind, Except.bind, pure, Except.pure]
  rw [ha.band_bnot ha64 hx]

/-- `up_align` returns `none` exactly when the wide-integer result does not fit -/
theorem up_align_eq {x a : Nat} (ha : P2 a) (ha64 : a < 2 ^ 64) :
    up_align x a = .ok (if upAlign x a < 2 ^ 64 then some (upAlign x a) else none) := by
  unfold up_align
  have hpos := ha.pos
  rw [assert_ok ha.is_power_of_two, sub_ok (by omega)]
  simp only [bind, Except.bind, pure, Except.pure]
  by_cases h : x + (a - 1) < 2 ^ 64
  · rw [checked_add_some h]
    have : upAlign x a < 2 ^ 64 := by
      have := downAlign_le (x + (a - 1)) a
      rw [upAlign_eq_downAlign]; omega
    rw [if_pos this]
    simp only []
    rw [ha.band_bnot ha64 h]; rfl
  · rw [checked_add_none (by omega)]
    have : ¬ upAlign x a < 2 ^ 64 := by
      have := le_downAlign_of_dvd (x := x + (a - 1)) hpos (ha.dvd_two_pow_64 ha64) (by omega)
      rw [upAlign_eq_downAlign]; omega
    rw [if_neg this]

theorem offset_add_layout_eq {x : Nat} {L : Layout} (ha : P2 L.align) (ha64 : L.align < 2 ^ 64) :
    offset_add_layout x L =
      .ok (if upAlign x L.align + L.size < 2 ^ 64 then some (upAlign x L.align + L.size) else none) := by
  unfold offset_add_layout
  simp only [up_align_eq ha ha64, bind, Except.bind, pure, Except.pure]
  by_cases h : upAlign x L.align < 2 ^ 64
  · rw [if_pos h]
    simp only []
    rw [checked_add_eq]
    by_cases h2 : upAlign x L.align + L.size < 2 ^ 64
    · simp only [if_pos h2]
    · simp only [if_neg h2]
  · rw [if_neg h, if_neg (by omega)]

end Lemmas.Size
