/-
  Lemmas/CtrlState.lean — the small `Gen.LibArith` helpers evaluated (`align_pos`, `bump_down`, …) and
  how `setCurPos` / `setPos` act on the observable parts of the arena state.
-/
import BumpProof.Lemmas.CtrlBase

set_option linter.unusedVariables false
set_option linter.unusedSimpArgs false

namespace Ctrl
open Arena Rs Lemmas

/-! ## `Gen.LibArith` -/

theorem lib_down_align_eq {x a : Nat} (ha : P2 a) (ha64 : a < 2 ^ 64) (hx : x < 2 ^ 64) :
    Gen.LibArith.down_align_usize x a = .ok (Spec.downAlign x a) := by
  unfold Gen.LibArith.down_align_usize
  rw [assert_ok ha.is_power_of_two, ok_bind, sub_one_ok ha.pos, ok_bind]
  show Except.ok _ = _
  rw [ha.band_bnot ha64 hx]

theorem lib_up_align_eq {x a : Nat} (ha : P2 a) (ha64 : a < 2 ^ 64) (hx : x + (a - 1) < 2 ^ 64) :
    Gen.LibArith.up_align_usize_unchecked x a = .ok (Spec.upAlign x a) := by
  unfold Gen.LibArith.up_align_usize_unchecked
  have hle : x + (a - 1) ≤ Rs.MAX := by rw [MAX_eq]; rw [two_pow_64] at hx; omega
  simp only [assert_ok ha.is_power_of_two, ok_bind, sub_one_ok ha.pos, add_ok hle]
  show Except.ok _ = _
  rw [ha.band_bnot ha64 hx, upAlign_eq_downAlign]

theorem lib_bump_down_eq {x sz a : Nat} (ha : P2 a) (ha64 : a < 2 ^ 64) (hx : x < 2 ^ 64) :
    Gen.LibArith.bump_down x sz a = .ok (Spec.downAlign (x - sz) a) := by
  unfold Gen.LibArith.bump_down Rs.saturating_sub
  rw [lib_down_align_eq ha ha64 (by omega)]

theorem lib_align_pos_up {x a : Nat} (ha : P2 a) (ha64 : a < 2 ^ 64) (hx : x + (a - 1) < 2 ^ 64) :
    Gen.LibArith.align_pos true a x = .ok (Spec.upAlign x a) := by
  unfold Gen.LibArith.align_pos
  simp only [↓reduceIte, lib_up_align_eq ha ha64 hx]

theorem lib_align_pos_down {x a : Nat} (ha : P2 a) (ha64 : a < 2 ^ 64) (hx : x < 2 ^ 64) :
    Gen.LibArith.align_pos false a x = .ok (Spec.downAlign x a) := by
  unfold Gen.LibArith.align_pos
  simp only [Bool.false_eq_true, ↓reduceIte, lib_down_align_eq ha ha64 hx]

theorem MinAlignOk.lt64 {m : Nat} (h : MinAlignOk m) : m < 2 ^ 64 := by
  have := h.le; omega

/-! ## `setPos` / `setCurPos` -/

theorem setCurPos_chunk {s : State} {i : Nat} (hc : s.cur = .chunk i) (q : Nat) :
    setCurPos s q = setPos s i q := by
  unfold setCurPos; rw [hc]

theorem setPos_cur (s : State) (i q : Nat) : (setPos s i q).cur = s.cur := rfl
theorem setPos_minAlign (s : State) (i q : Nat) : (setPos s i q).minAlign = s.minAlign := rfl
theorem setPos_live (s : State) (i q : Nat) : (setPos s i q).live = s.live := rfl
theorem setPos_frames (s : State) (i q : Nat) : (setPos s i q).frames = s.frames := rfl
theorem setPos_chunks (s : State) (i q : Nat) :
    (setPos s i q).chunks = s.chunks.modify i (fun c => { c with pos := q }) := rfl

theorem setCurPos_cur (s : State) (q : Nat) : (setCurPos s q).cur = s.cur := by
  unfold setCurPos; split <;> rfl
theorem setCurPos_minAlign (s : State) (q : Nat) : (setCurPos s q).minAlign = s.minAlign := by
  unfold setCurPos; split <;> rfl
theorem setCurPos_live (s : State) (q : Nat) : (setCurPos s q).live = s.live := by
  unfold setCurPos; split <;> rfl

theorem setPos_get_same {s : State} {i : Nat} {c : Chunk} (h : s.chunks[i]? = some c) (q : Nat) :
    (setPos s i q).chunks[i]? = some { c with pos := q } := by
  rw [setPos_chunks, List.getElem?_modify, h]; simp

theorem setPos_get_other {s : State} {i j : Nat} (h : i ≠ j) (q : Nat) :
    (setPos s i q).chunks[j]? = s.chunks[j]? := by
  rw [setPos_chunks, List.getElem?_modify]; simp [h]

theorem setPos_setPos (s : State) (i q r : Nat) : setPos (setPos s i q) i r = setPos s i r := by
  unfold setPos
  simp only [List.modify_modify_eq]
  rfl

/-- the state-level facts about the current chunk that the bump computations see -/
structure CurChunk (s : State) (i : Nat) (c : Chunk) : Prop where
  cur : s.cur = .chunk i
  get : s.chunks[i]? = some c

theorem CurChunk.setCurPos {s : State} {i : Nat} {c : Chunk} (h : CurChunk s i c) (q : Nat) :
    CurChunk (setCurPos s q) i { c with pos := q } := by
  rw [setCurPos_chunk h.cur]
  exact ⟨h.cur, setPos_get_same h.get q⟩

theorem CurChunk.curPos {s : State} {i : Nat} {c : Chunk} (h : CurChunk s i c) (cfg : Cfg) :
    curPos cfg s = c.pos := by
  unfold Arena.curPos; simp only [h.cur, h.get]

theorem CurChunk.freeRange {s : State} {i : Nat} {c : Chunk} (h : CurChunk s i c) (cfg : Cfg) :
    freeRange cfg s = if cfg.up then (c.pos, c.contentEnd cfg) else (c.contentStart cfg, c.pos) := by
  unfold Arena.freeRange; simp only [h.cur, h.get]

theorem CurChunk.curChunk? {s : State} {i : Nat} {c : Chunk} (h : CurChunk s i c) : curChunk? s = some c := by
  unfold Arena.curChunk?; simp only [h.cur, h.get]

theorem contentEnd_setpos (cfg : Cfg) (c : Chunk) (q : Nat) :
    Chunk.contentEnd cfg { c with pos := q } = c.contentEnd cfg := rfl
theorem contentStart_setpos (cfg : Cfg) (c : Chunk) (q : Nat) :
    Chunk.contentStart cfg { c with pos := q } = c.contentStart cfg := rfl

/-- a free range that is not the dummy range comes from a real current chunk -/
theorem curChunk_of_freeRange {cfg : Cfg} {s : State}
    (h : freeRange cfg s ≠ (dummyAddr + 16, dummyAddr)) : ∃ i c, CurChunk s i c := by
  unfold Arena.freeRange at h
  split at h
  · rename_i i hc
    split at h
    · rename_i c hg; exact ⟨i, c, hc, hg⟩
    · exact absurd rfl h
  · exact absurd rfl h

end Ctrl
