/-
  Lemmas/LifeCall2.lean — the remaining effect classes of method calls (reset, pool, by-value conversion),
  collections, closures, stores, and the one-step theorem of the region calculus.
-/
import BumpProof.Lemmas.LifeCall

namespace Life

/-! ### `reset` -/

theorem runCall_pool {σ : DState} {x h : Var} {op : Op} {r : Rt} (hr : σ.get h = some r) (hk : r.kind = .pool) :
    runCall σ x h op =
      match op with
      | .poolGet =>
          .ok (({ σ with arenas := σ.arenas ++ [[σ.next]], next := σ.next + 1 } : DState).set h
                { r with arenas := σ.arenas.length :: r.arenas } |>.set x (Rt.hdl .poolGuard σ.arenas.length))
      | .resetAll => .ok (r.arenas.foldl (fun σ a => σ.resetArena a) σ)
      | _ => .error .stuck := by
  unfold runCall
  rw [hr]
  simp only [hk]
  cases op <;> simp

theorem call_resetAll {t : Table} (hok : sigOK t = true) {Γ Γ' Γ1 : SEnv} {σ : DState} (inv : Inv Γ σ)
    {sig : Sig} {e : Entry} {res : Option Entry} {x : Var}
    (hs : sig ∈ t.sigs) (hop : sig.op = .resetAll) (he : e ∈ Γ.ents) (hv : e.valid = true)
    (happ : applicable t sig.ownerK e = true) (hacc : Γ.access e (effRecv sig) = .ok Γ1)
    (hres : mkResult x Γ.depth e (effRecv sig).mode sig.ret sig.lts = some res)
    (hdecl : DeclRes Γ1 Γ' res) :
    ∃ σ', runCall σ x e.var .resetAll = .ok σ' ∧ Inv Γ' σ' := by
  rcases inv.get_of_valid he hv with ⟨r, hr, ht⟩
  rcases unit_shape (sigOK_sig hok hs) (Or.inr hop) hres with ⟨rfl, hrecv, hnc, _, hown⟩
  simp only [DeclRes] at hdecl
  subst hdecl
  have hkinds := applicable_kinds (sigOK_impls hok) happ
  have heff : effRecv sig = .refMut := by rw [effRecv_of_not_claim hnc]; exact hrecv
  rw [heff] at hacc
  rcases access_ok hacc with ⟨h, _⟩ | ⟨_, hacc', rfl⟩ | ⟨h, _⟩
  · cases h
  · have inv1 := inv.useMut e.var
    rcases hown hop with ho | ho <;> rw [ho] at hkinds <;> simp only [ownerKinds] at hkinds
    · -- `Bump::reset`
      have heH : e.isHandle = true := by simp [Entry.isHandle, hkinds]
      rcases ht.kind_ne heH with ⟨hk1, hk2, hlive⟩
      refine ⟨σ.resetArena r.arena, ?_, ?_⟩
      · rw [runCall_handle hr hk1 hk2 hlive]; simp [ht.1, hkinds]
      · apply inv1.resetArena r.arena (DState.lt_of_epochs_ne_nil hlive)
        intro v hv1 hvv hvk rv hrv ex hex harena
        rcases mem_useMut_valid hv1 hvv with ⟨hvΓ, hno⟩
        apply inv.no_val_covered he hv hr hvΓ hvv hvk hno hrv hex
        exact ⟨Or.inr (Or.inl ⟨hkinds, hacc', harena.symm⟩), fun hg => by rw [hkinds] at hg; cases hg⟩
    · -- `BumpPool::reset`
      refine ⟨r.arenas.foldl (fun σ a => σ.resetArena a) σ, ?_, ?_⟩
      · rw [runCall_pool hr (by rw [ht.1]; exact hkinds)]
      · apply Inv.resetArenas r.arenas inv1 (ht.2.2.1 hkinds).2
        intro v hv1 hvv hvk rv hrv ex hex hm
        rcases mem_useMut_valid hv1 hvv with ⟨hvΓ, hno⟩
        apply inv.no_val_covered he hv hr hvΓ hvv hvk hno hrv hex
        exact ⟨Or.inr (Or.inr ⟨hkinds, hm⟩), fun hg => by rw [hkinds] at hg; cases hg⟩
  · cases h

/-! ### `BumpPool::get` -/

theorem poolGet_shape {s : Sig} (had : sigAdequate s = true) (hop : s.op = .poolGet) {x : Var} {d : Nat} {e : Entry}
    {m : Mode} {res : Option Entry} (h : mkResult x d e m s.ret s.lts = some res) :
    res = some ⟨x, .poolGuard, .own, .borrow e.var m :: e.self, .borrow e.var m :: e.self, true, d⟩ ∧
    s.ownerK = .pool ∧ s.recv ≠ .value ∧ s.ret ≠ .claimGuard := by
  unfold sigAdequate at had
  rw [hop] at had
  simp only [Bool.and_eq_true, bne_iff_ne, ne_eq, beq_iff_eq] at had
  rcases had with ⟨⟨⟨ho, hnv⟩, hret⟩, hlts⟩
  rw [hret, hlts] at h
  simp [mkResult] at h
  exact ⟨h.symm, ho, hnv, by rw [hret]; decide⟩

theorem DState.newArena_eq (σ : DState) : ({ σ with arenas := σ.arenas ++ [[σ.next]], next := σ.next + 1 } : DState) = σ.newArena := rfl

theorem call_poolGet {t : Table} (hok : sigOK t = true) {Γ Γ' Γ1 : SEnv} {σ : DState} (inv : Inv Γ σ)
    {sig : Sig} {e : Entry} {res : Option Entry} {x : Var}
    (hs : sig ∈ t.sigs) (hop : sig.op = .poolGet) (he : e ∈ Γ.ents) (hv : e.valid = true)
    (happ : applicable t sig.ownerK e = true) (hacc : Γ.access e (effRecv sig) = .ok Γ1)
    (hres : mkResult x Γ.depth e (effRecv sig).mode sig.ret sig.lts = some res)
    (hdecl : DeclRes Γ1 Γ' res) :
    ∃ σ', runCall σ x e.var .poolGet = .ok σ' ∧ Inv Γ' σ' := by
  rcases inv.get_of_valid he hv with ⟨r, hr, ht⟩
  rcases poolGet_shape (sigOK_sig hok hs) hop hres with ⟨rfl, ho, hnv, hnc⟩
  simp only [DeclRes] at hdecl
  have hkinds := applicable_kinds (sigOK_impls hok) happ
  rw [ho] at hkinds; simp only [ownerKinds] at hkinds
  have hnv' : effRecv sig ≠ .value := by rw [effRecv_of_not_claim hnc]; exact hnv
  refine ⟨_, runCall_pool hr (by rw [ht.1]; exact hkinds), ?_⟩
  show Inv Γ' ((σ.newArena.set e.var { r with arenas := σ.arenas.length :: r.arenas }).set x (Rt.hdl .poolGuard σ.arenas.length))
  rcases access_afterUse inv he hv hacc with ⟨inv1, hau, hkeepE, _, _⟩
  rcases declare_ok hdecl with ⟨hfresh, rfl⟩
  have he1 : e ∈ Γ1.ents := hkeepE hnv'
  have hpoolT := ht.2.2.1 hkinds
  -- 1. the new arena; 2. the pool records it
  have inv2 := inv1.newArena
  have hr2 : σ.newArena.get e.var = some r := hr
  have inv3 : Inv Γ1 (σ.newArena.set e.var { r with arenas := σ.arenas.length :: r.arenas }) := by
    apply inv2.rebind he1 hv hr2 { r with arenas := σ.arenas.length :: r.arenas } rfl
    · refine ⟨ht.1, ?_, ?_, ?_, ?_, ?_, ?_⟩
      · intro h; rw [hkinds] at h; cases h
      · intro _
        refine ⟨hpoolT.1, ?_⟩
        intro a ha
        simp only [DState.newArena, List.length_append, List.length_cons, List.length_nil]
        rcases List.mem_cons.1 ha with rfl | ha
        · omega
        · have := hpoolT.2 a ha; omega
      · intro h; simp [Entry.isHandle, hkinds] at h
      · intro h; rw [hkinds] at h; cases h
      · intro ex hex; exact Nat.lt_succ_of_lt (ht.2.2.2.2.2.1 ex hex)
      · intro h; rw [hkinds] at h; cases h
    · intro h; rw [hkinds] at h; cases h
    · intro v hv1 hvv hvk _ rv hrv ex hex hend
      apply (inv2.vals v hv1 hvv hvk rv hrv ex hex).2 e he1 hv r hr2
      refine ⟨?_, fun hg => by rw [hkinds] at hg; cases hg⟩
      rcases hend.1 with ⟨hg, _⟩ | ⟨hb, _⟩ | ⟨_, hm⟩
      · rw [hkinds] at hg; cases hg
      · rw [hkinds] at hb; cases hb
      · rcases List.mem_cons.1 hm with h | h
        · exfalso
          have := inv1.val_arena_lt hv1 hvv hvk (show σ.get v.var = some rv from hrv) hex
          omega
        · exact Or.inr (Or.inr ⟨hkinds, h⟩)
    · intro h hh hvh hH _ rh hrh hon
      apply inv2.handles h hh hvh hH rh hrh e he1 hv (fun heq => by
        have := inv1.eq_of_var_eq he1 hh heq; subst this
        simp [Entry.isHandle, hkinds] at hH) r hr2
      rcases hon with ⟨hg, _⟩ | ⟨hb, _⟩ | ⟨_, hm⟩
      · rw [hkinds] at hg; cases hg
      · rw [hkinds] at hb; cases hb
      · rcases List.mem_cons.1 hm with h' | h'
        · exfalso
          have := inv1.handle_arena_lt hh hvh hH (show σ.get h.var = some rh from hrh)
          omega
        · exact Or.inr (Or.inr ⟨hkinds, h'⟩)
  -- 3. the guard on the new arena
  have hxe : x ≠ e.var := fun h => hfresh (h ▸ inv1.used e he1)
  have hget3 : ∀ g ∈ Γ1.ents, g.var ≠ e.var →
      (σ.newArena.set e.var { r with arenas := σ.arenas.length :: r.arenas }).get g.var = σ.get g.var :=
    fun g _ hne => DState.get_set_ne _ _ hne
  have hnotOn : ∀ a, ¬ EnderOn (σ.newArena.set e.var { r with arenas := σ.arenas.length :: r.arenas })
      ⟨x, .poolGuard, .own, .borrow e.var (effRecv sig).mode :: e.self, .borrow e.var (effRecv sig).mode :: e.self, true, Γ.depth⟩
      (Rt.hdl .poolGuard σ.arenas.length) a := by
    intro a hon
    rcases hon with ⟨hk, _⟩ | ⟨hk, _⟩ | ⟨hk, _⟩ <;> cases hk
  -- nothing that existed before lives on the new arena
  have hnoHandle : ∀ h ∈ Γ1.ents, h.valid = true → h.isHandle = true → ∀ rh,
      (σ.newArena.set e.var { r with arenas := σ.arenas.length :: r.arenas }).get h.var = some rh →
      rh.arena ≠ σ.arenas.length := by
    intro h hh hvh hH rh hrh heq
    have hne : h.var ≠ e.var := fun heq' => by
      have := inv1.eq_of_var_eq hh he1 heq'; subst this
      simp [Entry.isHandle, hkinds] at hH
    rw [hget3 h hh hne] at hrh
    have := inv1.handle_arena_lt hh hvh hH hrh
    omega
  apply inv3.add _ (Rt.hdl .poolGuard σ.arenas.length) hfresh rfl
  · refine ⟨rfl, ?_, ?_, ?_, ?_, ?_, ?_⟩
    · intro h; cases h
    · intro h; cases h
    · intro _
      show σ.newArena.epochs σ.arenas.length ≠ []
      rw [DState.epochs_newArena_self]; simp
    · intro h; cases h
    · intro ex h; cases h
    · intro h; cases h
  · have hclosedP : ∀ p mo, Loan.borrow p mo ∈ Loan.borrow e.var (effRecv sig).mode :: e.self →
        ∃ ep ∈ Γ1.ents, ep.var = p ∧ ep.valid = true ∧ ep.kind ≠ .val ∧
          ∀ l ∈ ep.self, l ∈ Loan.borrow e.var (effRecv sig).mode :: e.self := by
      intro p mo hp
      rcases List.mem_cons.1 hp with h | h
      · cases h
        exact ⟨e, he1, rfl, hv, by rw [hkinds]; decide, fun l hl => List.mem_cons_of_mem _ hl⟩
      · rw [hpoolT.1] at h; cases h
    refine ⟨fun l hl => hl, hclosedP, ?_⟩
    intro p mo hp ep hep hpv l hl
    rcases hclosedP p mo hp with ⟨ep0, hep0, h1, _, _, h4⟩
    have := inv1.eq_of_var_eq hep hep0 (hpv.trans h1.symm)
    subst this; exact h4 l hl
  · intro h; cases h
  · intro v _ _ _ rv _ ex _ hend; exact absurd hend.1 (hnotOn _)
  · -- the only ender of the new arena is the pool
    intro _ g hg hgv rg hrg hon
    left
    by_cases hge : g.var = e.var
    · have := inv1.eq_of_var_eq hg he1 hge; subst this
      exact Region.on_cons_self _ _ _
    · exfalso
      rw [hget3 g hg hge] at hrg
      have hon' : EnderOn σ.newArena g rg σ.arenas.length := hon
      have := inv1.ender_arena_lt hg hgv hrg (EnderOn_of_newArena inv1 hg hgv hrg hon')
      omega
  · intro h _ _ _ rh _ hon; exact absurd hon (hnotOn _)
  · intro _ _ h2 hh2 hv2 hH2 r2 hr2' har
    exact absurd har.symm (hnoHandle h2 hh2 hv2 hH2 r2 hr2')
  · intro _ h1 hh1 hv1 hH1 _ r1 hr1 har
    exact absurd har (hnoHandle h1 hh1 hv1 hH1 r1 hr1)

/-! ### `with_settings(self)` -/

theorem convert_shape {s : Sig} (had : sigAdequate s = true) (hop : s.op = .convert) {x : Var} {d : Nat} {e : Entry}
    {m : Mode} {res : Option Entry} (h : mkResult x d e m s.ret s.lts = some res) :
    s.recv = .value ∧ s.ret ≠ .claimGuard ∧
    ((s.ownerK = .bump ∧ res = some ⟨x, .bump, .own, [], [], true, d⟩) ∨
     (s.ownerK = .scope ∧ res = some ⟨x, .scope, .own, e.param, e.param, true, d⟩)) := by
  unfold sigAdequate at had
  rw [hop] at had
  simp only [Bool.and_eq_true, beq_iff_eq] at had
  rcases had with ⟨hrecv, hshape⟩
  cases ho : s.ownerK <;> rw [ho] at hshape <;> (try simp only at hshape) <;> try (exact absurd hshape Bool.false_ne_true)
  · cases hr : s.ret <;> rw [hr] at hshape h <;> (try simp only at hshape) <;> try (exact absurd hshape Bool.false_ne_true)
    rcases hl : s.lts with _ | ⟨l0, _⟩ <;> rw [hl] at hshape h <;> (try simp only at hshape) <;>
      try (exact absurd hshape Bool.false_ne_true)
    simp [mkResult] at h
    exact ⟨hrecv, by decide, Or.inl ⟨rfl, h.symm⟩⟩
  · cases hr : s.ret <;> rw [hr] at hshape h <;> (try simp only at hshape) <;> try (exact absurd hshape Bool.false_ne_true)
    rcases hl : s.lts with _ | ⟨l0, _ | _⟩ <;> rw [hl] at hshape h <;> (try simp only at hshape) <;>
      try (exact absurd hshape Bool.false_ne_true)
    cases l0 <;> (try simp only at hshape) <;> try (exact absurd hshape Bool.false_ne_true)
    simp [mkResult, evalLt] at h
    exact ⟨hrecv, by decide, Or.inr ⟨rfl, h.symm⟩⟩

theorem call_convert {t : Table} (hok : sigOK t = true) {Γ Γ' Γ1 : SEnv} {σ : DState} (inv : Inv Γ σ)
    {sig : Sig} {e : Entry} {res : Option Entry} {x : Var}
    (hs : sig ∈ t.sigs) (hop : sig.op = .convert) (he : e ∈ Γ.ents) (hv : e.valid = true)
    (happ : applicable t sig.ownerK e = true) (hacc : Γ.access e (effRecv sig) = .ok Γ1)
    (hres : mkResult x Γ.depth e (effRecv sig).mode sig.ret sig.lts = some res)
    (hdecl : DeclRes Γ1 Γ' res) :
    ∃ σ', runCall σ x e.var .convert = .ok σ' ∧ Inv Γ' σ' := by
  rcases inv.get_of_valid he hv with ⟨r, hr, ht⟩
  rcases convert_shape (sigOK_sig hok hs) hop hres with ⟨hrecv, hnc, hcase⟩
  have hkinds := applicable_kinds (sigOK_impls hok) happ
  have heff : effRecv sig = .value := by rw [effRecv_of_not_claim hnc]; exact hrecv
  rcases access_afterUse inv he hv hacc with ⟨inv1, hau, _, _, hval⟩
  rcases hval heff with ⟨hmv, hnclaim, hnpg, hΓ1⟩
  have hmode : (effRecv sig).mode = .mut := by rw [heff]; rfl
  have hc := inv.closed e he hv
  -- entries that survive the move hold no loan on the receiver
  have hsurv : ∀ g ∈ Γ1.ents, g.valid = true → g ∈ Γ.ents ∧ g.self.on e.var = false ∧ g.var ≠ e.var := by
    intro g hg hgv
    rw [hΓ1] at hg
    exact mem_remove_valid hg hgv
  rcases hcase with ⟨ho, rfl⟩ | ⟨ho, rfl⟩
  · -- a `Bump`
    rw [ho] at hkinds; simp only [ownerKinds] at hkinds
    have heH : e.isHandle = true := by simp [Entry.isHandle, hkinds]
    rcases ht.kind_ne heH with ⟨hk1, hk2, hlive⟩
    have hacc' : e.acc = .own := by
      unfold Entry.movable at hmv
      rcases (Bool.or_eq_true _ _).mp hmv with h | h
      · simpa using h
      · rw [hkinds] at h; simp at h
    have hown : r.own = true := (ht.2.1 hkinds).1.2 hacc'
    have hself : e.self = [] := (ht.2.1 hkinds).2 hacc'
    have hparam : e.param = [] := by
      cases hp : e.param with
      | nil => rfl
      | cons l ls => have := hc.1 l (by rw [hp]; exact List.mem_cons_self); rw [hself] at this; cases this
    have hon : EnderOn σ e r r.arena := Or.inr (Or.inl ⟨hkinds, by rw [hacc']; decide, rfl⟩)
    simp only [DeclRes] at hdecl
    rcases declare_ok hdecl with ⟨hfresh, rfl⟩
    refine ⟨σ.set x r, ?_, ?_⟩
    · rw [runCall_handle hr hk1 hk2 hlive]; simp [ht.1, hkinds]
    · -- nothing valid is left on the arena
      have hnoHandle : ∀ h ∈ Γ1.ents, h.valid = true → h.isHandle = true → ∀ rh, σ.get h.var = some rh → rh.arena ≠ r.arena := by
        intro h hh hvh hH rh hrh harena
        rcases hsurv h hh hvh with ⟨hhΓ, hno, hne⟩
        have := inv.handle_covered he hv hr hhΓ hvh hH (Ne.symm hne) hno hrh (harena ▸ hon)
        rw [hself] at this; simp [Region.mutOn] at this
      apply inv1.add ⟨x, .bump, .own, [], [], true, Γ.depth⟩ r hfresh rfl
      · refine ⟨by rw [ht.1, hkinds], ?_, ?_, ?_, ?_, ht.2.2.2.2.2.1, ?_⟩
        · intro _; exact ⟨⟨fun _ => rfl, fun _ => hown⟩, fun _ => rfl⟩
        · intro h; cases h
        · intro _; exact hlive
        · intro h; cases h
        · intro h; cases h
      · refine ⟨fun l hl => hl, ?_, ?_⟩
        · intro p m h; cases h
        · intro p m h; cases h
      · intro h; cases h
      · intro v hv1 hvv hvk rv hrv ex hex hend
        exfalso
        rcases hsurv v hv1 hvv with ⟨hvΓ, hno, _⟩
        apply inv.no_val_covered he hv hr hvΓ hvv hvk hno hrv hex
        have harena : r.arena = rv.arena := by
          rcases hend.1 with ⟨hg, _⟩ | ⟨_, _, ha⟩ | ⟨hp, _⟩
          · cases hg
          · exact ha
          · cases hp
        exact ⟨harena ▸ hon, fun hg => by rw [hkinds] at hg; cases hg⟩
      · intro _ g hg hgv rg hrg hong
        exfalso
        rcases hsurv g hg hgv with ⟨hgΓ, hno, hne⟩
        rcases inv.handles e he hv heH r hr g hgΓ hgv hne rg hrg hong with h | h
        · rw [hparam] at h; simp [Region.on] at h
        · have := Region.on_of_mutOn h
          rw [hno] at this; exact Bool.false_ne_true this
      · intro h hh hvh hH rh hrh honx
        exfalso
        rcases honx with ⟨hg, _⟩ | ⟨_, _, ha⟩ | ⟨hp, _⟩
        · cases hg
        · exact hnoHandle h hh hvh hH rh hrh ha.symm
        · cases hp
      · intro _ _ h2 hh2 hv2 hH2 r2 hr2 har
        exact absurd har.symm (hnoHandle h2 hh2 hv2 hH2 r2 hr2)
      · intro _ h1 hh1 hv1 hH1 _ r1 hr1 har
        exact absurd har (hnoHandle h1 hh1 hv1 hH1 r1 hr1)
  · -- an owned `BumpScope`
    rw [ho] at hkinds; simp only [ownerKinds] at hkinds
    have hk : e.kind = .scope := by
      rcases hkinds with h | h | h
      · exact h
      · exact absurd h hnclaim
      · exact absurd h hnpg
    have heH : e.isHandle = true := by simp [Entry.isHandle, hk]
    rcases ht.kind_ne heH with ⟨hk1, hk2, hlive⟩
    have hacc' : e.acc = .own := by
      unfold Entry.movable at hmv
      rcases (Bool.or_eq_true _ _).mp hmv with h | h
      · simpa using h
      · rw [hk] at h; simp at h
    have hW : ∀ l ∈ e.self, l ∈ e.param := ht.2.2.2.2.1 hk hacc'
    simp only [DeclRes] at hdecl
    rcases declare_ok hdecl with ⟨hfresh, rfl⟩
    refine ⟨σ.set x r, ?_, ?_⟩
    · rw [runCall_handle hr hk1 hk2 hlive]; simp [ht.1, hk]
    · have hnotOn : ∀ a, ¬ EnderOn σ ⟨x, .scope, .own, e.param, e.param, true, Γ.depth⟩ r a := by
        intro a hon
        rcases hon with ⟨hg, _⟩ | ⟨hb, _⟩ | ⟨hp, _⟩ <;> cases ‹_ = _›
      have hpne : ∀ p mo, Loan.borrow p mo ∈ e.self → p ≠ e.var := by
        intro p mo hp hpe
        have : e.self.on e.var = true := List.any_eq_true.2 ⟨_, hp, by simp [Loan.on, hpe]⟩
        rw [hc.2.2.1] at this; exact Bool.false_ne_true this
      apply inv1.add ⟨x, .scope, .own, e.param, e.param, true, Γ.depth⟩ r hfresh rfl
      · refine ⟨by rw [ht.1, hk], ?_, ?_, ?_, ?_, ht.2.2.2.2.2.1, ?_⟩
        · intro h; cases h
        · intro h; cases h
        · intro _; exact hlive
        · intro _ _ l hl; exact hl
        · intro h; cases h
      · have hclosedP : ∀ p mo, Loan.borrow p mo ∈ e.param →
            ∃ ep ∈ Γ1.ents, ep.var = p ∧ ep.valid = true ∧ ep.kind ≠ .val ∧ ∀ l ∈ ep.self, l ∈ e.param := by
          intro p mo hp
          have hps := hc.1 _ hp
          rcases hc.2.1 p mo hps with ⟨ep, hep, h1, h2, h3, h4⟩
          exact ⟨ep, hau.keep ep hep h2 h4 (h1 ▸ hpne p mo hps), h1, h2, h3, hc.2.2.2 p mo hp ep hep h1⟩
        refine ⟨fun l hl => hl, hclosedP, ?_⟩
        intro p mo hp ep hep hpv l hl
        rcases hclosedP p mo hp with ⟨ep0, hep0, h1, _, _, h4⟩
        have := inv1.eq_of_var_eq hep hep0 (hpv.trans h1.symm)
        subst this; exact h4 l hl
      · intro h; cases h
      · intro v _ _ _ rv _ ex _ hend; exact absurd hend.1 (hnotOn _)
      · intro _ g hg hgv rg hrg hong
        rcases hsurv g hg hgv with ⟨hgΓ, hno, hne⟩
        rcases inv.handles e he hv heH r hr g hgΓ hgv hne rg hrg hong with h | h
        · exact Or.inl h
        · have := Region.on_of_mutOn h
          rw [hno] at this; exact absurd this Bool.false_ne_true
      · intro h _ _ _ rh _ hon; exact absurd hon (hnotOn _)
      · intro _ _ h2 hh2 hv2 hH2 r2 hr2 har
        rcases hsurv h2 hh2 hv2 with ⟨hhΓ, hno, hne⟩
        rcases inv.uniq e he hv heH (by rw [hacc']; decide) h2 hhΓ hv2 hH2 (Ne.symm hne) r r2 hr hr2 har with h | h
        · exact Or.inl (Region.mutOn_of_subset hW h)
        · rw [hno] at h; exact absurd h Bool.false_ne_true
      · intro _ h1 hh1 hv1 hH1 hacc1 r1 hr1 har
        rcases hsurv h1 hh1 hv1 with ⟨hhΓ, hno, hne⟩
        rcases inv.uniq h1 hhΓ hv1 hH1 hacc1 e he hv heH hne r1 r hr1 hr har with h | h
        · have := Region.on_of_mutOn h
          rw [hno] at this; exact absurd this Bool.false_ne_true
        · exact Or.inr (Region.on_of_subset hW h)

theorem step_call {t : Table} (hok : sigOK t = true) {fl : Flags} {Γ Γ' : SEnv} {σ : DState} (inv : Inv Γ σ)
    {x h : Var} {op : Op} {owner name : String} (hc : checkStmt t fl Γ (.call x h op owner name) = .ok Γ') :
    ∃ σ', runStmt fl σ (.call x h op owner name) = .ok σ' ∧ Inv Γ' σ' := by
  simp only [checkStmt] at hc
  rcases checkCall_ok hc with ⟨sig, e, Γ1, res, hs, hop, hne1, hne2, hl, happ, hacc, hres, hdecl⟩
  rcases lookupValid_ok hl with ⟨he, rfl, hv⟩
  simp only [runStmt]
  subst hop
  cases hop : sig.op
  · exact call_alloc hok inv hs hop he hv happ hacc hres hdecl
  · exact call_mkGuard hok inv hs hop he hv happ hacc hres hdecl
  · exact call_guardScope hok inv hs hop he hv happ hacc hres hdecl
  · exact call_guardReset hok inv hs hop he hv happ hacc hres hdecl
  · exact call_resetAll hok inv hs hop he hv happ hacc hres hdecl
  · exact call_viewScope hok inv hs hop he hv happ hacc hres hdecl
  · exact call_viewSame hok inv hs hop he hv happ hacc hres hdecl
  · exact call_claim hok inv hs hop he hv happ hacc hres hdecl
  · exact call_poolGet hok inv hs hop he hv happ hacc hres hdecl
  · exact call_convert hok inv hs hop he hv happ hacc hres hdecl
  · exact absurd hop hne1
  · exact absurd hop hne2

end Life
