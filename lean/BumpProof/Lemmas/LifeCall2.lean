/-
  Lemmas/LifeCall2.lean — the remaining effect classes of method calls (reset, pool, by-value conversion),
  collections, closures, stores, and the one-step theorem of the region calculus.
-/
import BumpProof.Lemmas.LifeCall

namespace Life

/-! ### `reset` -/

theorem runCall_pool {σ : DState} {x h : Var} {op : Op} {r : Rt} (hr : σ.get h = some r) (hk : r.kind = .pool) :
    runCall σ x h op =
      match op with
      | .poolGet =>
          .ok (({ σ with arenas := σ.arenas ++ [[σ.next]], next := σ.next + 1 } : DState).set h
                { r with arenas := σ.arenas.length :: r.arenas } |>.set x (Rt.hdl .poolGuard σ.arenas.length))
      | .resetAll => .ok (r.arenas.foldl (fun σ a => σ.resetArena a) σ)
      | _ => .error .stuck := by
  unfold runCall
  rw [hr]
  simp only [hk]
  cases op <;> simp

theorem call_resetAll {t : Table} (hok : sigOK t = true) {Γ Γ' Γ1 : SEnv} {σ : DState} (inv : Inv Γ σ)
    {sig : Sig} {e : Entry} {res : Option Entry} {x : Var}
    (hs : sig ∈ t.sigs) (hop : sig.op = .resetAll) (he : e ∈ Γ.ents) (hv : e.valid = true)
    (happ : applicable t sig.ownerK e = true) (hacc : Γ.access e (effRecv sig) = .ok Γ1)
    (hres : mkResult x Γ.depth e (effRecv sig).mode sig.ret sig.lts = some res)
    (hdecl : DeclRes Γ1 Γ' res) :
    ∃ σ', runCall σ x e.var .resetAll = .ok σ' ∧ Inv Γ' σ' := by
  rcases inv.get_of_valid he hv with ⟨r, hr, ht⟩
  rcases unit_shape (sigOK_sig hok hs) (Or.inr hop) hres with ⟨rfl, hrecv, hnc, _, hown⟩
  simp only [DeclRes] at hdecl
  subst hdecl
  have hkinds := applicable_kinds (sigOK_impls hok) happ
  have heff : effRecv sig = .refMut := by rw [effRecv_of_not_claim hnc]; exact hrecv
  rw [heff] at hacc
  rcases access_ok hacc with ⟨h, _⟩ | ⟨_, hacc', rfl⟩ | ⟨h, _⟩
  · cases h
  · have inv1 := inv.useMut e.var
    rcases hown hop with ho | ho <;> rw [ho] at hkinds <;> simp only [ownerKinds] at hkinds
    · -- `Bump::reset`
      have heH : e.isHandle = true := by simp [Entry.isHandle, hkinds]
      rcases ht.kind_ne heH with ⟨hk1, hk2, hlive⟩
      refine ⟨σ.resetArena r.arena, ?_, ?_⟩
      · rw [runCall_handle hr hk1 hk2 hlive]; simp [ht.1, hkinds]
      · apply inv1.resetArena r.arena (DState.lt_of_epochs_ne_nil hlive)
        intro v hv1 hvv hvk rv hrv ex hex harena
        rcases mem_useMut_valid hv1 hvv with ⟨hvΓ, hno⟩
        apply inv.no_val_covered he hv hr hvΓ hvv hvk hno hrv hex
        exact ⟨Or.inr (Or.inl ⟨hkinds, hacc', harena.symm⟩), fun hg => by rw [hkinds] at hg; cases hg⟩
    · -- `BumpPool::reset`
      refine ⟨r.arenas.foldl (fun σ a => σ.resetArena a) σ, ?_, ?_⟩
      · rw [runCall_pool hr (by rw [ht.1]; exact hkinds)]
      · apply Inv.resetArenas r.arenas inv1 (ht.2.2.1 hkinds).2
        intro v hv1 hvv hvk rv hrv ex hex hm
        rcases mem_useMut_valid hv1 hvv with ⟨hvΓ, hno⟩
        apply inv.no_val_covered he hv hr hvΓ hvv hvk hno hrv hex
        exact ⟨Or.inr (Or.inr ⟨hkinds, hm⟩), fun hg => by rw [hkinds] at hg; cases hg⟩
  · cases h

/-! ### `BumpPool::get` -/

theorem poolGet_shape {s : Sig} (had : sigAdequate s = true) (hop : s.op = .poolGet) {x : Var} {d : Nat} {e : Entry}
    {m : Mode} {res : Option Entry} (h : mkResult x d e m s.ret s.lts = some res) :
    res = some ⟨x, .poolGuard, .own, .borrow e.var m :: e.self, .borrow e.var m :: e.self, true, d⟩ ∧
    s.ownerK = .pool ∧ s.recv ≠ .value ∧ s.ret ≠ .claimGuard := by
  unfold sigAdequate at had
  rw [hop] at had
  simp only [Bool.and_eq_true, bne_iff_ne, ne_eq, beq_iff_eq] at had
  rcases had with ⟨⟨⟨ho, hnv⟩, hret⟩, hlts⟩
  rw [hret, hlts] at h
  simp [mkResult] at h
  exact ⟨h.symm, ho, hnv, by rw [hret]; decide⟩

theorem DState.newArena_eq (σ : DState) : ({ σ with arenas := σ.arenas ++ [[σ.next]], next := σ.next + 1 } : DState) = σ.newArena := rfl

theorem call_poolGet {t : Table} (hok : sigOK t = true) {Γ Γ' Γ1 : SEnv} {σ : DState} (inv : Inv Γ σ)
    {sig : Sig} {e : Entry} {res : Option Entry} {x : Var}
    (hs : sig ∈ t.sigs) (hop : sig.op = .poolGet) (he : e ∈ Γ.ents) (hv : e.valid = true)
    (happ : applicable t sig.ownerK e = true) (hacc : Γ.access e (effRecv sig) = .ok Γ1)
    (hres : mkResult x Γ.depth e (effRecv sig).mode sig.ret sig.lts = some res)
    (hdecl : DeclRes Γ1 Γ' res) :
    ∃ σ', runCall σ x e.var .poolGet = .ok σ' ∧ Inv Γ' σ' := by
  rcases inv.get_of_valid he hv with ⟨r, hr, ht⟩
  rcases poolGet_shape (sigOK_sig hok hs) hop hres with ⟨rfl, ho, hnv, hnc⟩
  simp only [DeclRes] at hdecl
  have hkinds := applicable_kinds (sigOK_impls hok) happ
  rw [ho] at hkinds; simp only [ownerKinds] at hkinds
  have hnv' : effRecv sig ≠ .value := by rw [effRecv_of_not_claim hnc]; exact hnv
  refine ⟨_, runCall_pool hr (by rw [ht.1]; exact hkinds), ?_⟩
  show Inv Γ' ((σ.newArena.set e.var { r with arenas := σ.arenas.length :: r.arenas }).set x (Rt.hdl .poolGuard σ.arenas.length))
  rcases access_afterUse inv he hv hacc with ⟨inv1, hau, hkeepE, _, _⟩
  rcases declare_ok hdecl with ⟨hfresh, rfl⟩
  have he1 : e ∈ Γ1.ents := hkeepE hnv'
  have hpoolT := ht.2.2.1 hkinds
  -- 1. the new arena; 2. the pool records it
  have inv2 := inv1.newArena
  have hr2 : σ.newArena.get e.var = some r := hr
  have inv3 : Inv Γ1 (σ.newArena.set e.var { r with arenas := σ.arenas.length :: r.arenas }) := by
    apply inv2.rebind he1 hv hr2 { r with arenas := σ.arenas.length :: r.arenas } rfl
    · refine ⟨ht.1, ?_, ?_, ?_, ?_, ?_, ?_⟩
      · intro h; rw [hkinds] at h; cases h
      · intro _
        refine ⟨hpoolT.1, ?_⟩
        intro a ha
        simp only [DState.newArena, List.length_append, List.length_cons, List.length_nil]
        rcases List.mem_cons.1 ha with rfl | ha
        · omega
        · have := hpoolT.2 a ha; omega
      · intro h; simp [Entry.isHandle, hkinds] at h
      · intro h; rw [hkinds] at h; cases h
      · intro ex hex; exact Nat.lt_succ_of_lt (ht.2.2.2.2.2.1 ex hex)
      · intro h; rw [hkinds] at h; cases h
    · intro h; rw [hkinds] at h; cases h
    · intro v hv1 hvv hvk _ rv hrv ex hex hend
      apply (inv2.vals v hv1 hvv hvk rv hrv ex hex).2 e he1 hv r hr2
      refine ⟨?_, fun hg => by rw [hkinds] at hg; cases hg⟩
      rcases hend.1 with ⟨hg, _⟩ | ⟨hb, _⟩ | ⟨_, hm⟩
      · rw [hkinds] at hg; cases hg
      · rw [hkinds] at hb; cases hb
      · rcases List.mem_cons.1 hm with h | h
        · exfalso
          have := inv1.val_arena_lt hv1 hvv hvk (show σ.get v.var = some rv from hrv) hex
          omega
        · exact Or.inr (Or.inr ⟨hkinds, h⟩)
    · intro h hh hvh hH _ rh hrh hon
      apply inv2.handles h hh hvh hH rh hrh e he1 hv (fun heq => by
        have := inv1.eq_of_var_eq he1 hh heq; subst this
        simp [Entry.isHandle, hkinds] at hH) r hr2
      rcases hon with ⟨hg, _⟩ | ⟨hb, _⟩ | ⟨_, hm⟩
      · rw [hkinds] at hg; cases hg
      · rw [hkinds] at hb; cases hb
      · rcases List.mem_cons.1 hm with h' | h'
        · exfalso
          have := inv1.handle_arena_lt hh hvh hH (show σ.get h.var = some rh from hrh)
          omega
        · exact Or.inr (Or.inr ⟨hkinds, h'⟩)
  -- 3. the guard on the new arena
  have hxe : x ≠ e.var := fun h => hfresh (h ▸ inv1.used e he1)
  have hget3 : ∀ g ∈ Γ1.ents, g.var ≠ e.var →
      (σ.newArena.set e.var { r with arenas := σ.arenas.length :: r.arenas }).get g.var = σ.get g.var :=
    fun g _ hne => DState.get_set_ne _ _ hne
  have hnotOn : ∀ a, ¬ EnderOn (σ.newArena.set e.var { r with arenas := σ.arenas.length :: r.arenas })
      ⟨x, .poolGuard, .own, .borrow e.var (effRecv sig).mode :: e.self, .borrow e.var (effRecv sig).mode :: e.self, true, Γ.depth⟩
      (Rt.hdl .poolGuard σ.arenas.length) a := by
    intro a hon
    rcases hon with ⟨hk, _⟩ | ⟨hk, _⟩ | ⟨hk, _⟩ <;> cases hk
  -- nothing that existed before lives on the new arena
  have hnoHandle : ∀ h ∈ Γ1.ents, h.valid = true → h.isHandle = true → ∀ rh,
      (σ.newArena.set e.var { r with arenas := σ.arenas.length :: r.arenas }).get h.var = some rh →
      rh.arena ≠ σ.arenas.length := by
    intro h hh hvh hH rh hrh heq
    have hne : h.var ≠ e.var := fun heq' => by
      have := inv1.eq_of_var_eq hh he1 heq'; subst this
      simp [Entry.isHandle, hkinds] at hH
    rw [hget3 h hh hne] at hrh
    have := inv1.handle_arena_lt hh hvh hH hrh
    omega
  apply inv3.add _ (Rt.hdl .poolGuard σ.arenas.length) hfresh rfl
  · refine ⟨rfl, ?_, ?_, ?_, ?_, ?_, ?_⟩
    · intro h; cases h
    · intro h; cases h
    · intro _
      show σ.newArena.epochs σ.arenas.length ≠ []
      rw [DState.epochs_newArena_self]; simp
    · intro h; cases h
    · intro ex h; cases h
    · intro h; cases h
  · have hclosedP : ∀ p mo, Loan.borrow p mo ∈ Loan.borrow e.var (effRecv sig).mode :: e.self →
        ∃ ep ∈ Γ1.ents, ep.var = p ∧ ep.valid = true ∧ ep.kind ≠ .val ∧
          ∀ l ∈ ep.self, l ∈ Loan.borrow e.var (effRecv sig).mode :: e.self := by
      intro p mo hp
      rcases List.mem_cons.1 hp with h | h
      · cases h
        exact ⟨e, he1, rfl, hv, by rw [hkinds]; decide, fun l hl => List.mem_cons_of_mem _ hl⟩
      · rw [hpoolT.1] at h; cases h
    refine ⟨fun l hl => hl, hclosedP, ?_⟩
    intro p mo hp ep hep hpv l hl
    rcases hclosedP p mo hp with ⟨ep0, hep0, h1, _, _, h4⟩
    have := inv1.eq_of_var_eq hep hep0 (hpv.trans h1.symm)
    subst this; exact h4 l hl
  · intro h; cases h
  · intro v _ _ _ rv _ ex _ hend; exact absurd hend.1 (hnotOn _)
  · -- the only ender of the new arena is the pool
    intro _ g hg hgv rg hrg hon
    left
    by_cases hge : g.var = e.var
    · have := inv1.eq_of_var_eq hg he1 hge; subst this
      exact Region.on_cons_self _ _ _
    · exfalso
      rw [hget3 g hg hge] at hrg
      have hon' : EnderOn σ.newArena g rg σ.arenas.length := hon
      have := inv1.ender_arena_lt hg hgv hrg (EnderOn_of_newArena inv1 hg hgv hrg hon')
      omega
  · intro h _ _ _ rh _ hon; exact absurd hon (hnotOn _)
  · intro _ _ h2 hh2 hv2 hH2 r2 hr2' har
    exact absurd har.symm (hnoHandle h2 hh2 hv2 hH2 r2 hr2')
  · intro _ h1 hh1 hv1 hH1 _ r1 hr1 har
    exact absurd har (hnoHandle h1 hh1 hv1 hH1 r1 hr1)

/-! ### `with_settings(self)` -/

theorem convert_shape {s : Sig} (had : sigAdequate s = true) (hop : s.op = .convert) {x : Var} {d : Nat} {e : Entry}
    {m : Mode} {res : Option Entry} (h : mkResult x d e m s.ret s.lts = some res) :
    s.recv = .value ∧ s.ret ≠ .claimGuard ∧
    ((s.ownerK = .bump ∧ res = some ⟨x, .bump, .own, [], [], true, d⟩) ∨
     (s.ownerK = .scope ∧ res = some ⟨x, .scope, .own, e.param, e.param, true, d⟩)) := by
  unfold sigAdequate at had
  rw [hop] at had
  simp only [Bool.and_eq_true, beq_iff_eq] at had
  rcases had with ⟨hrecv, hshape⟩
  cases ho : s.ownerK <;> rw [ho] at hshape <;> (try simp only at hshape) <;> try (exact absurd hshape Bool.false_ne_true)
  · cases hr : s.ret <;> rw [hr] at hshape h <;> (try simp only at hshape) <;> try (exact absurd hshape Bool.false_ne_true)
    rcases hl : s.lts with _ | ⟨l0, _⟩ <;> rw [hl] at hshape h <;> (try simp only at hshape) <;>
      try (exact absurd hshape Bool.false_ne_true)
    simp [mkResult] at h
    exact ⟨hrecv, by decide, Or.inl ⟨rfl, h.symm⟩⟩
  · cases hr : s.ret <;> rw [hr] at hshape h <;> (try simp only at hshape) <;> try (exact absurd hshape Bool.false_ne_true)
    rcases hl : s.lts with _ | ⟨l0, _ | _⟩ <;> rw [hl] at hshape h <;> (try simp only at hshape) <;>
      try (exact absurd hshape Bool.false_ne_true)
    cases l0 <;> (try simp only at hshape) <;> try (exact absurd hshape Bool.false_ne_true)
    simp [mkResult, evalLt] at h
    exact ⟨hrecv, by decide, Or.inr ⟨rfl, h.symm⟩⟩

theorem call_convert {t : Table} (hok : sigOK t = true) {Γ Γ' Γ1 : SEnv} {σ : DState} (inv : Inv Γ σ)
    {sig : Sig} {e : Entry} {res : Option Entry} {x : Var}
    (hs : sig ∈ t.sigs) (hop : sig.op = .convert) (he : e ∈ Γ.ents) (hv : e.valid = true)
    (happ : applicable t sig.ownerK e = true) (hacc : Γ.access e (effRecv sig) = .ok Γ1)
    (hres : mkResult x Γ.depth e (effRecv sig).mode sig.ret sig.lts = some res)
    (hdecl : DeclRes Γ1 Γ' res) :
    ∃ σ', runCall σ x e.var .convert = .ok σ' ∧ Inv Γ' σ' := by
  rcases inv.get_of_valid he hv with ⟨r, hr, ht⟩
  rcases convert_shape (sigOK_sig hok hs) hop hres with ⟨hrecv, hnc, hcase⟩
  have hkinds := applicable_kinds (sigOK_impls hok) happ
  have heff : effRecv sig = .value := by rw [effRecv_of_not_claim hnc]; exact hrecv
  rcases access_afterUse inv he hv hacc with ⟨inv1, hau, _, _, hval⟩
  rcases hval heff with ⟨hmv, hnclaim, hnpg, hΓ1⟩
  have hmode : (effRecv sig).mode = .mut := by rw [heff]; rfl
  have hc := inv.closed e he hv
  -- entries that survive the move hold no loan on the receiver
  have hsurv : ∀ g ∈ Γ1.ents, g.valid = true → g ∈ Γ.ents ∧ g.self.on e.var = false ∧ g.var ≠ e.var := by
    intro g hg hgv
    rw [hΓ1] at hg
    exact mem_remove_valid hg hgv
  rcases hcase with ⟨ho, rfl⟩ | ⟨ho, rfl⟩
  · -- a `Bump`
    rw [ho] at hkinds; simp only [ownerKinds] at hkinds
    have heH : e.isHandle = true := by simp [Entry.isHandle, hkinds]
    rcases ht.kind_ne heH with ⟨hk1, hk2, hlive⟩
    have hacc' : e.acc = .own := by
      unfold Entry.movable at hmv
      rcases (Bool.or_eq_true _ _).mp hmv with h | h
      · simpa using h
      · rw [hkinds] at h; simp at h
    have hown : r.own = true := (ht.2.1 hkinds).1.2 hacc'
    have hself : e.self = [] := (ht.2.1 hkinds).2 hacc'
    have hparam : e.param = [] := by
      cases hp : e.param with
      | nil => rfl
      | cons l ls => have := hc.1 l (by rw [hp]; exact List.mem_cons_self); rw [hself] at this; cases this
    have hon : EnderOn σ e r r.arena := Or.inr (Or.inl ⟨hkinds, by rw [hacc']; decide, rfl⟩)
    simp only [DeclRes] at hdecl
    rcases declare_ok hdecl with ⟨hfresh, rfl⟩
    refine ⟨σ.set x r, ?_, ?_⟩
    · rw [runCall_handle hr hk1 hk2 hlive]; simp [ht.1, hkinds]
    · -- nothing valid is left on the arena
      have hnoHandle : ∀ h ∈ Γ1.ents, h.valid = true → h.isHandle = true → ∀ rh, σ.get h.var = some rh → rh.arena ≠ r.arena := by
        intro h hh hvh hH rh hrh harena
        rcases hsurv h hh hvh with ⟨hhΓ, hno, hne⟩
        have := inv.handle_covered he hv hr hhΓ hvh hH (Ne.symm hne) hno hrh (harena ▸ hon)
        rw [hself] at this; simp [Region.mutOn] at this
      apply inv1.add ⟨x, .bump, .own, [], [], true, Γ.depth⟩ r hfresh rfl
      · refine ⟨by rw [ht.1, hkinds], ?_, ?_, ?_, ?_, ht.2.2.2.2.2.1, ?_⟩
        · intro _; exact ⟨⟨fun _ => rfl, fun _ => hown⟩, fun _ => rfl⟩
        · intro h; cases h
        · intro _; exact hlive
        · intro h; cases h
        · intro h; cases h
      · refine ⟨fun l hl => hl, ?_, ?_⟩
        · intro p m h; cases h
        · intro p m h; cases h
      · intro h; cases h
      · intro v hv1 hvv hvk rv hrv ex hex hend
        exfalso
        rcases hsurv v hv1 hvv with ⟨hvΓ, hno, _⟩
        apply inv.no_val_covered he hv hr hvΓ hvv hvk hno hrv hex
        have harena : r.arena = rv.arena := by
          rcases hend.1 with ⟨hg, _⟩ | ⟨_, _, ha⟩ | ⟨hp, _⟩
          · cases hg
          · exact ha
          · cases hp
        exact ⟨harena ▸ hon, fun hg => by rw [hkinds] at hg; cases hg⟩
      · intro _ g hg hgv rg hrg hong
        exfalso
        rcases hsurv g hg hgv with ⟨hgΓ, hno, hne⟩
        rcases inv.handles e he hv heH r hr g hgΓ hgv hne rg hrg hong with h | h
        · rw [hparam] at h; simp [Region.on] at h
        · have := Region.on_of_mutOn h
          rw [hno] at this; exact Bool.false_ne_true this
      · intro h hh hvh hH rh hrh honx
        exfalso
        rcases honx with ⟨hg, _⟩ | ⟨_, _, ha⟩ | ⟨hp, _⟩
        · cases hg
        · exact hnoHandle h hh hvh hH rh hrh ha.symm
        · cases hp
      · intro _ _ h2 hh2 hv2 hH2 r2 hr2 har
        exact absurd har.symm (hnoHandle h2 hh2 hv2 hH2 r2 hr2)
      · intro _ h1 hh1 hv1 hH1 _ r1 hr1 har
        exact absurd har (hnoHandle h1 hh1 hv1 hH1 r1 hr1)
  · -- an owned `BumpScope`
    rw [ho] at hkinds; simp only [ownerKinds] at hkinds
    have hk : e.kind = .scope := by
      rcases hkinds with h | h | h
      · exact h
      · exact absurd h hnclaim
      · exact absurd h hnpg
    have heH : e.isHandle = true := by simp [Entry.isHandle, hk]
    rcases ht.kind_ne heH with ⟨hk1, hk2, hlive⟩
    have hacc' : e.acc = .own := by
      unfold Entry.movable at hmv
      rcases (Bool.or_eq_true _ _).mp hmv with h | h
      · simpa using h
      · rw [hk] at h; simp at h
    have hW : ∀ l ∈ e.self, l ∈ e.param := ht.2.2.2.2.1 hk hacc'
    simp only [DeclRes] at hdecl
    rcases declare_ok hdecl with ⟨hfresh, rfl⟩
    refine ⟨σ.set x r, ?_, ?_⟩
    · rw [runCall_handle hr hk1 hk2 hlive]; simp [ht.1, hk]
    · have hnotOn : ∀ a, ¬ EnderOn σ ⟨x, .scope, .own, e.param, e.param, true, Γ.depth⟩ r a := by
        intro a hon
        rcases hon with ⟨hg, _⟩ | ⟨hb, _⟩ | ⟨hp, _⟩ <;> cases ‹_ = _›
      have hpne : ∀ p mo, Loan.borrow p mo ∈ e.self → p ≠ e.var := by
        intro p mo hp hpe
        have : e.self.on e.var = true := List.any_eq_true.2 ⟨_, hp, by simp [Loan.on, hpe]⟩
        rw [hc.2.2.1] at this; exact Bool.false_ne_true this
      apply inv1.add ⟨x, .scope, .own, e.param, e.param, true, Γ.depth⟩ r hfresh rfl
      · refine ⟨by rw [ht.1, hk], ?_, ?_, ?_, ?_, ht.2.2.2.2.2.1, ?_⟩
        · intro h; cases h
        · intro h; cases h
        · intro _; exact hlive
        · intro _ _ l hl; exact hl
        · intro h; cases h
      · have hclosedP : ∀ p mo, Loan.borrow p mo ∈ e.param →
            ∃ ep ∈ Γ1.ents, ep.var = p ∧ ep.valid = true ∧ ep.kind ≠ .val ∧ ∀ l ∈ ep.self, l ∈ e.param := by
          intro p mo hp
          have hps := hc.1 _ hp
          rcases hc.2.1 p mo hps with ⟨ep, hep, h1, h2, h3, h4⟩
          exact ⟨ep, hau.keep ep hep h2 h4 (h1 ▸ hpne p mo hps), h1, h2, h3, hc.2.2.2 p mo hp ep hep h1⟩
        refine ⟨fun l hl => hl, hclosedP, ?_⟩
        intro p mo hp ep hep hpv l hl
        rcases hclosedP p mo hp with ⟨ep0, hep0, h1, _, _, h4⟩
        have := inv1.eq_of_var_eq hep hep0 (hpv.trans h1.symm)
        subst this; exact h4 l hl
      · intro h; cases h
      · intro v _ _ _ rv _ ex _ hend; exact absurd hend.1 (hnotOn _)
      · intro _ g hg hgv rg hrg hong
        rcases hsurv g hg hgv with ⟨hgΓ, hno, hne⟩
        rcases inv.handles e he hv heH r hr g hgΓ hgv hne rg hrg hong with h | h
        · exact Or.inl h
        · have := Region.on_of_mutOn h
          rw [hno] at this; exact absurd this Bool.false_ne_true
      · intro h _ _ _ rh _ hon; exact absurd hon (hnotOn _)
      · intro _ _ h2 hh2 hv2 hH2 r2 hr2 har
        rcases hsurv h2 hh2 hv2 with ⟨hhΓ, hno, hne⟩
        rcases inv.uniq e he hv heH (by rw [hacc']; decide) h2 hhΓ hv2 hH2 (Ne.symm hne) r r2 hr hr2 har with h | h
        · exact Or.inl (Region.mutOn_of_subset hW h)
        · rw [hno] at h; exact absurd h Bool.false_ne_true
      · intro _ h1 hh1 hv1 hH1 hacc1 r1 hr1 har
        rcases hsurv h1 hh1 hv1 with ⟨hhΓ, hno, hne⟩
        rcases inv.uniq h1 hhΓ hv1 hH1 hacc1 e he hv heH hne r1 r hr1 hr har with h | h
        · have := Region.on_of_mutOn h
          rw [hno] at this; exact absurd this Bool.false_ne_true
        · exact Or.inr (Region.on_of_subset hW h)

theorem step_call {t : Table} (hok : sigOK t = true) {fl : Flags} {Γ Γ' : SEnv} {σ : DState} (inv : Inv Γ σ)
    {x h : Var} {op : Op} {owner name : String} (hc : checkStmt t fl Γ (.call x h op owner name) = .ok Γ') :
    ∃ σ', runStmt fl σ (.call x h op owner name) = .ok σ' ∧ Inv Γ' σ' := by
  simp only [checkStmt] at hc
  rcases checkCall_ok hc with ⟨sig, e, Γ1, res, hs, hop, hne1, hne2, hl, happ, hacc, hres, hdecl⟩
  rcases lookupValid_ok hl with ⟨he, rfl, hv⟩
  simp only [runStmt]
  subst hop
  cases hop : sig.op
  · exact call_alloc hok inv hs hop he hv happ hacc hres hdecl
  · exact call_mkGuard hok inv hs hop he hv happ hacc hres hdecl
  · exact call_guardScope hok inv hs hop he hv happ hacc hres hdecl
  · exact call_guardReset hok inv hs hop he hv happ hacc hres hdecl
  · exact call_resetAll hok inv hs hop he hv happ hacc hres hdecl
  · exact call_viewScope hok inv hs hop he hv happ hacc hres hdecl
  · exact call_viewSame hok inv hs hop he hv happ hacc hres hdecl
  · exact call_claim hok inv hs hop he hv happ hacc hres hdecl
  · exact call_poolGet hok inv hs hop he hv happ hacc hres hdecl
  · exact call_convert hok inv hs hop he hv happ hacc hres hdecl
  · exact absurd hop hne1
  · exact absurd hop hne2

/-! ### structural changes that the invariant does not see -/

theorem Inv.setFrames {Γ : SEnv} {σ : DState} (inv : Inv Γ σ) (f : List Var) :
    Inv { Γ with frames := f } { σ with frames := f } :=
  ⟨inv.nodup, inv.used, inv.storeUsed, rfl, inv.epochs, inv.typed, inv.closed, inv.vals, inv.handles, inv.uniq⟩

/-- no valid entry holds a loan on a variable that was never declared -/
theorem Inv.no_loan_on_fresh {Γ : SEnv} {σ : DState} (inv : Inv Γ σ) {v : Var} (hv : v ∉ Γ.used)
    {e : Entry} (he : e ∈ Γ.ents) (hev : e.valid = true) : e.self.on v = false := by
  apply Bool.eq_false_iff.2
  intro hon
  rcases List.any_eq_true.1 hon with ⟨l, hl, hlo⟩
  cases l with
  | frame k => simp [Loan.on] at hlo
  | borrow q m =>
    rcases (inv.closed e he hev).2.1 q m hl with ⟨ep, hep, h1, _⟩
    have : q = v := by simpa [Loan.on] using hlo
    exact hv (this ▸ h1 ▸ inv.used ep hep)

theorem foldl_remove_frames (ls : List Var) (Γ : SEnv) (f : List Var) :
    ls.foldl (fun Γ v => Γ.remove v) { Γ with frames := f } = { ls.foldl (fun Γ v => Γ.remove v) Γ with frames := f } := by
  induction ls generalizing Γ with
  | nil => rfl
  | cons v ls ih =>
    simp only [List.foldl_cons]
    exact ih (Γ.remove v)

theorem Inv.removeAll {Γ : SEnv} {σ : DState} (inv : Inv Γ σ) (ls : List Var) :
    Inv (ls.foldl (fun Γ v => Γ.remove v) Γ) σ := by
  induction ls generalizing Γ with
  | nil => exact inv
  | cons v ls ih => exact ih (inv.remove v)

/-- changing only the recorded declaration depth of entries -/
theorem Inv.mapDepth {Γ : SEnv} {σ : DState} (inv : Inv Γ σ) (f : Entry → Nat) :
    Inv { Γ with ents := Γ.ents.map fun e => { e with depth := f e } } σ := by
  have hmem : ∀ e', e' ∈ Γ.ents.map (fun e => { e with depth := f e }) →
      ∃ e ∈ Γ.ents, e' = { e with depth := f e } := by
    intro e' he'
    rcases List.mem_map.1 he' with ⟨e, he, rfl⟩
    exact ⟨e, he, rfl⟩
  have hclosed : ∀ e ∈ Γ.ents, Closed Γ e → Closed { Γ with ents := Γ.ents.map fun e => { e with depth := f e } } { e with depth := f e } := by
    intro e _ hc
    refine ⟨hc.1, ?_, hc.2.2.1, ?_⟩
    · intro q m hq
      rcases hc.2.1 q m hq with ⟨ep, hep, h1, h2, h3, h4⟩
      exact ⟨{ ep with depth := f ep }, List.mem_map.2 ⟨ep, hep, rfl⟩, h1, h2, h3, h4⟩
    · intro q m hq ep' hep' hvar l hl
      rcases hmem ep' hep' with ⟨ep, hep, rfl⟩
      exact hc.2.2.2 q m hq ep hep hvar l hl
  constructor
  · show ((Γ.ents.map fun e => { e with depth := f e }).map (·.var)).Nodup
    rw [List.map_map]; exact inv.nodup
  · intro e' he'
    rcases hmem e' he' with ⟨e, he, rfl⟩; exact inv.used e he
  · exact inv.storeUsed
  · exact inv.frames
  · exact inv.epochs
  · intro e' he' hv
    rcases hmem e' he' with ⟨e, he, rfl⟩; exact inv.typed e he hv
  · intro e' he' hv
    rcases hmem e' he' with ⟨e, he, rfl⟩; exact hclosed e he (inv.closed e he hv)
  · intro e' he' hv hk r hr ex hex
    rcases hmem e' he' with ⟨e, he, rfl⟩
    rcases inv.vals e he hv hk r hr ex hex with ⟨h1, h2⟩
    refine ⟨h1, ?_⟩
    intro g' hg' hgv rg hrg hend
    rcases hmem g' hg' with ⟨g, hg, rfl⟩
    exact h2 g hg hgv rg hrg hend
  · intro h' hh' hv hH rh hrh g' hg' hgv hne rg hrg hon
    rcases hmem h' hh' with ⟨h, hh, rfl⟩
    rcases hmem g' hg' with ⟨g, hg, rfl⟩
    exact inv.handles h hh hv hH rh hrh g hg hgv hne rg hrg hon
  · intro h1' hh1' hv1 hH1 ha h2' hh2' hv2 hH2 hne r1 r2 hr1 hr2 har
    rcases hmem h1' hh1' with ⟨h1, hh1, rfl⟩
    rcases hmem h2' hh2' with ⟨h2, hh2, rfl⟩
    exact inv.uniq h1 hh1 hv1 hH1 ha h2 hh2 hv2 hH2 hne r1 r2 hr1 hr2 har

/-! ### collections -/

theorem collParam_cases {t : Table} (himpl : t.implLt .refMutBump = none) {k : Kind} {m : Mode} {b : Bool}
    (h : collParamIsSelf t k m = some b) : (k = .bump ∧ m = .shr ∧ b = true) ∨ (k = .scope ∧ b = false) := by
  unfold collParamIsSelf at h
  cases k <;> cases m <;> simp [himpl] at h
  · exact Or.inl ⟨rfl, rfl, h.2⟩
  · exact Or.inr ⟨rfl, h.2⟩
  · exact Or.inr ⟨rfl, h.2⟩

theorem step_coll {t : Table} (hok : sigOK t = true) {fl : Flags} {Γ Γ' : SEnv} {σ : DState} (inv : Inv Γ σ)
    {v h : Var} {m : Mode} (hc : checkStmt t fl Γ (.coll v h m) = .ok Γ') :
    ∃ σ', runStmt fl σ (.coll v h m) = .ok σ' ∧ Inv Γ' σ' := by
  simp only [checkStmt, checkColl] at hc
  cases hl : Γ.lookupValid h with
  | error r => rw [hl] at hc; cases hc
  | ok e =>
    rw [hl] at hc; simp only at hc
    rcases lookupValid_ok hl with ⟨he, rfl, hv⟩
    cases hcp : collParamIsSelf t e.kind m with
    | none => rw [hcp] at hc; cases hc
    | some b =>
      rw [hcp] at hc; simp only at hc
      cases hacc : Γ.access e m.recv with
      | error r => rw [hacc] at hc; cases hc
      | ok Γ1 =>
        rw [hacc] at hc; simp only at hc
        rcases inv.get_of_valid he hv with ⟨r, hr, ht⟩
        have hcases := collParam_cases (sigOK_impls hok) hcp
        have hfacts : e.kind.scopes = true ∧ e.isHandle = true := by
          rcases hcases with ⟨hk, _⟩ | ⟨hk, _⟩ <;> simp [hk, Kind.scopes, Entry.isHandle]
        rcases hfacts with ⟨hsc, heH⟩
        rcases ht.kind_ne heH with ⟨hk1, hk2, hlive⟩
        refine ⟨σ.set v (Rt.hdl .coll r.arena), ?_, ?_⟩
        · simp only [runStmt, hr]
          have h3 : (σ.epochs r.arena == []) = false := by simpa using hlive
          simp [ht.1, hsc, h3]
        · rcases access_afterUse inv he hv hacc with ⟨inv1, hau, hkeepE, hmutacc, _⟩
          rcases declare_ok hc with ⟨hfresh, rfl⟩
          have hrm : m.recv.mode = m := by cases m <;> rfl
          have hnv : m.recv ≠ .value := by cases m <;> simp [Mode.recv]
          have he1 : e ∈ Γ1.ents := hkeepE hnv
          rw [hrm] at hau
          have hc0 := inv.closed e he hv
          -- the shape of the collection's entry
          have sh : DerivedShape e m v .scope
              ⟨v, .coll, m.refAcc, .borrow e.var m :: e.self,
               if b then .borrow e.var m :: e.self else e.param, true, Γ.depth⟩ := by
            exact
              { var := rfl
                valid := rfl
                handle := (by simp [Entry.isHandle])
                self1 := List.mem_cons_self
                self2 := fun l hl => List.mem_cons_of_mem _ hl
                self3 := (by
                  intro l hl
                  rcases List.mem_cons.1 hl with h | h
                  · exact Or.inl h
                  · exact Or.inr (Or.inl h))
                param := (by
                  cases b
                  · exact Or.inr ⟨rfl, rfl⟩
                  · exact Or.inl ⟨fun l hl => hl, List.mem_cons_self, fun l hl => List.mem_cons_of_mem _ hl⟩)
                excl := (by
                  intro hne
                  cases m
                  · exact absurd rfl hne
                  · rfl)
                ownScope := fun h => by cases h
                bumpRef := fun h => by cases h
                guardOwn := fun h => by cases h }
          apply derived_add inv1 he1 hv heH hr hau.noConflict sh hfresh
            (fun hm => hmutacc (by subst hm; rfl)) _ (Rt.hdl .coll r.arena) rfl rfl rfl
          · intro n hn; cases hn
          · intro hk; cases hk
          · -- a receiver that can end epochs is a `Bump`: the collection is bounded by the borrow
            intro hend
            rcases hcases with ⟨_, _, hb⟩ | ⟨hk, _⟩
            · rw [hb]; exact List.mem_cons_self
            · rcases hend with hg | ⟨hb', _⟩
              · rw [hk] at hg; cases hg
              · rw [hk] at hb'; cases hb'

/-! ### closures -/

theorem checkEnter_ok {t : Table} {Γ Γ' : SEnv} {s g h : Var} {op : Op} {owner name : String}
    (hc : checkEnter t Γ s g h op owner name = .ok Γ') :
    ∃ sig e opens realParam Γ1 Γ2, sig ∈ t.sigs ∧ sig.op = op ∧ sig.ret = .closureResult ∧
      Γ.lookupValid h = .ok e ∧ applicable t sig.ownerK e = true ∧ closureShape op sig.cl = some (opens, realParam) ∧
      Γ.access e sig.recv = .ok Γ1 ∧
      Γ1.declare (if opens then ⟨g, .guard, .own, .borrow e.var sig.recv.mode :: e.self, .borrow e.var sig.recv.mode :: e.self, true, Γ.depth⟩
                  else ⟨g, .scope, .mutRef, .borrow e.var sig.recv.mode :: e.self,
                        if realParam then e.param else .borrow e.var sig.recv.mode :: e.self, true, Γ.depth⟩) = .ok Γ2 ∧
      ({ Γ2 with frames := g :: Γ2.frames } : SEnv).declare
        ⟨s, .scope, .mutRef, .frame g :: .borrow g .mut :: .borrow e.var sig.recv.mode :: e.self,
         if realParam then e.param else .frame g :: .borrow g .mut :: .borrow e.var sig.recv.mode :: e.self, true, Γ.depth + 1⟩ = .ok Γ' := by
  unfold checkEnter at hc
  cases hl : t.lookup owner name with
  | none => rw [hl] at hc; cases hc
  | some sig =>
    rw [hl] at hc; simp only at hc
    have hmem : sig ∈ t.sigs := List.mem_of_find?_eq_some hl
    by_cases hcond : (sig.op != op || sig.ret != .closureResult) = true
    · rw [if_pos hcond] at hc; cases hc
    · rw [if_neg hcond] at hc
      simp only [Bool.or_eq_true, not_or, bne_iff_ne, ne_eq, Decidable.not_not] at hcond
      cases hle : Γ.lookupValid h with
      | error r => rw [hle] at hc; cases hc
      | ok e =>
        rw [hle] at hc; simp only at hc
        by_cases happ : (!applicable t sig.ownerK e) = true
        · rw [if_pos happ] at hc; cases hc
        · rw [if_neg happ] at hc
          have happ' : applicable t sig.ownerK e = true := by simpa using happ
          cases hcs : closureShape op sig.cl with
          | none => rw [hcs] at hc; cases hc
          | some pr =>
            rcases pr with ⟨opens, realParam⟩
            rw [hcs] at hc; simp only at hc
            cases hacc : Γ.access e sig.recv with
            | error r => rw [hacc] at hc; cases hc
            | ok Γ1 =>
              rw [hacc] at hc; simp only at hc
              split at hc
              · cases hc
              · rename_i Γ2 hd
                exact ⟨sig, e, opens, realParam, Γ1, Γ2, hmem, hcond.1, hcond.2, rfl, happ', hcs, hacc, hd, hc⟩

theorem enter_shape {s : Sig} (had : sigAdequate s = true) {op : Op} (hop : s.op = op) {opens realParam : Bool}
    (hcs : closureShape op s.cl = some (opens, realParam)) :
    s.recv = .refMut ∧
    ((op = .enterScoped ∧ opens = true ∧ realParam = false ∧ (s.ownerK = .bump ∨ s.ownerK = .scope ∨ s.ownerK = .trAllocator)) ∨
     (op = .enterAligned ∧ opens = false ∧ (realParam = true → s.ownerK.hasParam = true) ∧
        (s.ownerK = .bump ∨ s.ownerK = .scope ∨ s.ownerK = .trScope))) := by
  unfold sigAdequate at had
  rw [hop] at had
  have hown3 : ∀ {a b c : Prop}, ((a ∨ b) ∨ c) → a ∨ b ∨ c := by
    intro a b c h
    rcases h with (h | h) | h
    · exact Or.inl h
    · exact Or.inr (Or.inl h)
    · exact Or.inr (Or.inr h)
  cases op
  case enterScoped =>
    simp only [Bool.and_eq_true, Bool.or_eq_true, beq_iff_eq] at had
    rcases had with ⟨⟨⟨hrecv, _⟩, hcl⟩, hown⟩
    rw [hcl] at hcs
    simp [closureShape] at hcs
    exact ⟨hrecv, Or.inl ⟨rfl, hcs.1, hcs.2, hown3 hown⟩⟩
  case enterAligned =>
    simp only [Bool.and_eq_true, Bool.or_eq_true, beq_iff_eq] at had
    rcases had with ⟨⟨⟨hrecv, _⟩, hcl⟩, hown⟩
    rcases hcl with hcl | ⟨hcl, hp⟩
    · rw [hcl] at hcs
      simp [closureShape] at hcs
      exact ⟨hrecv, Or.inr ⟨rfl, hcs.1, fun h => (by rw [hcs.2] at h; cases h), hown3 hown⟩⟩
    · rw [hcl] at hcs
      simp [closureShape] at hcs
      exact ⟨hrecv, Or.inr ⟨rfl, hcs.1, fun _ => hp, hown3 hown⟩⟩
  all_goals (simp [closureShape] at hcs)

/-- the closure parameter `s`, derived from the implicit guard / reborrow `G` (declared last in `Γ2`) -/
theorem enter_param {Γ2 : SEnv} {σ2 : DState} (inv2 : Inv Γ2 σ2) {G : Entry} (hG : G ∈ Γ2.ents) (hGv : G.valid = true)
    (hGH : G.isHandle = true) (hGacc : G.acc ≠ .shrRef) {rg : Rt} (hrg : σ2.get G.var = some rg)
    (hnoloan : ∀ e' ∈ Γ2.ents, e'.valid = true → e'.self.on G.var = false)
    {s : Var} (hfresh : s ∉ Γ2.used) (d : Nat) (o : Owner) (P : Region)
    (hP : P = .frame G.var :: .borrow G.var .mut :: G.self ∨ (P = G.param ∧ o.hasParam = true ∧ G.kind = .scope))
    (f : List Var) :
    Inv { ents := ⟨s, .scope, .mutRef, .frame G.var :: .borrow G.var .mut :: G.self, P, true, d⟩ :: Γ2.ents,
          used := s :: Γ2.used, frames := f }
        { (σ2.set s (Rt.hdl .scope rg.arena)) with frames := f } := by
  have sh : DerivedShape G .mut s o ⟨s, .scope, .mutRef, .frame G.var :: .borrow G.var .mut :: G.self, P, true, d⟩ :=
    { var := rfl
      valid := rfl
      handle := (by simp [Entry.isHandle])
      self1 := List.mem_cons_of_mem _ List.mem_cons_self
      self2 := fun l hl => List.mem_cons_of_mem _ (List.mem_cons_of_mem _ hl)
      self3 := (by
        intro l hl
        rcases List.mem_cons.1 hl with h | h
        · exact Or.inr (Or.inr ⟨_, h⟩)
        · rcases List.mem_cons.1 h with h | h
          · exact Or.inl h
          · exact Or.inr (Or.inl h))
      param := (by
        rcases hP with hP | ⟨hP, ho, _⟩
        · left; rw [hP]
          exact ⟨fun l hl => hl, List.mem_cons_of_mem _ List.mem_cons_self,
                 fun l hl => List.mem_cons_of_mem _ (List.mem_cons_of_mem _ hl)⟩
        · exact Or.inr ⟨hP, ho⟩)
      excl := fun _ => rfl
      ownScope := fun _ h => by cases h
      bumpRef := fun h => by cases h
      guardOwn := fun h => by cases h }
  have := derived_add inv2 hG hGv hGH hrg (m := .mut) (fun e' he' hv' => hnoloan e' he' hv') sh hfresh (fun _ => hGacc)
    (by
      intro hend
      rcases hP with hP | ⟨_, _, hk⟩
      · rw [hP]; exact List.mem_cons_of_mem _ List.mem_cons_self
      · rcases hend with h | ⟨h, _⟩ <;> rw [hk] at h <;> cases h)
    (Rt.hdl .scope rg.arena) rfl rfl rfl (fun n hn => by cases hn) (fun hk => by cases hk)
  exact this.setFrames f

theorem step_enter {t : Table} (hok : sigOK t = true) {fl : Flags} {Γ Γ' : SEnv} {σ : DState} (inv : Inv Γ σ)
    {s g h : Var} {op : Op} {owner name : String} (hc : checkStmt t fl Γ (.enter s g h op owner name) = .ok Γ') :
    ∃ σ', runStmt fl σ (.enter s g h op owner name) = .ok σ' ∧ Inv Γ' σ' := by
  simp only [checkStmt] at hc
  rcases checkEnter_ok hc with ⟨sig, e, opens, realParam, Γ1, Γ2, hs, hop, hret, hl, happ, hcs, hacc, hd2, hd3⟩
  rcases lookupValid_ok hl with ⟨he, rfl, hv⟩
  rcases inv.get_of_valid he hv with ⟨r, hr, ht⟩
  rcases enter_shape (sigOK_sig hok hs) hop hcs with ⟨hrecv, hcase⟩
  have hkinds := applicable_kinds (sigOK_impls hok) happ
  have hfacts : e.kind.scopes = true ∧ e.isHandle = true := by
    rcases hcase with ⟨_, _, _, hown⟩ | ⟨_, _, _, hown⟩ <;>
      rcases hown with ho | ho | ho <;> rw [ho] at hkinds <;> simp only [ownerKinds] at hkinds
    all_goals (first
      | (rcases hkinds with h | h | h <;> simp [h, Kind.scopes, Entry.isHandle])
      | (rcases hkinds with h | h <;> simp [h, Kind.scopes, Entry.isHandle])
      | simp [hkinds, Kind.scopes, Entry.isHandle])
  rcases hfacts with ⟨hsc, heH⟩
  rcases ht.kind_ne heH with ⟨hk1, hk2, hlive⟩
  have hmode : sig.recv.mode = .mut := by rw [hrecv]; rfl
  rw [hrecv] at hacc
  rcases access_afterUse inv he hv hacc with ⟨inv1, hau, hkeepE, hmutacc, _⟩
  have he1 : e ∈ Γ1.ents := hkeepE (by decide)
  have heacc : e.acc ≠ .shrRef := hmutacc rfl
  have hau' : AfterUse Γ Γ1 e .mut := hau
  rw [hmode] at hd2 hd3
  have hlive3 : (σ.epochs r.arena == []) = false := by simpa using hlive
  rcases hcase with ⟨rfl, rfl, rfl, _⟩ | ⟨rfl, rfl, hreal, _⟩
  · -- scoped / scoped_aligned: an implicit guard with a new epoch
    simp only [if_true] at hd2
    simp only [Bool.false_eq_true, if_false] at hd3
    rcases declare_ok hd2 with ⟨hfg, rfl⟩
    rcases declare_ok hd3 with ⟨hfs, rfl⟩
    refine ⟨_, by simp only [runStmt, hr]; simp [ht.1, hsc, hlive3]; rfl, ?_⟩
    have inv1p := inv1.push r.arena (DState.lt_of_epochs_ne_nil hlive)
    rcases fresh_guard_epoch inv1 hlive with ⟨f1, f2, f3, f4, f5⟩
    have shG : DerivedShape e .mut g sig.ownerK
        ⟨g, .guard, .own, .borrow e.var .mut :: e.self, .borrow e.var .mut :: e.self, true, Γ.depth⟩ :=
      DerivedShape.mk' .guard .own _ (by decide) (by decide) (Or.inl rfl) (fun _ => rfl) (fun h => by cases h)
        (fun h => by cases h) (fun _ => rfl)
    have inv2 := derived_add inv1p he1 hv heH (rh := r) (by simpa using hr) hau'.noConflict shG hfg (fun _ => heacc)
      (fun _ => List.mem_cons_self) ⟨.guard, r.arena, some σ.next, false, []⟩ rfl rfl rfl
      (by
        intro n hn
        have : n = σ.next := by simpa using hn.symm
        subst this
        exact ⟨rfl, f1, f2, f3, f4, fun v hv1 hvv hvk rv hrv => f5 v hv1 hvv hvk rv (by simpa using hrv)⟩)
      (fun hb => by cases hb)
    have hfr : Γ1.frames = σ.frames := by rw [hau.frames]; exact inv.frames
    have := enter_param inv2 (G := ⟨g, .guard, .own, .borrow e.var .mut :: e.self, .borrow e.var .mut :: e.self, true, Γ.depth⟩)
      List.mem_cons_self rfl (by simp [Entry.isHandle]) (by simp) (DState.get_set_self _ _ _)
      (by
        intro e' he' hv'
        rcases List.mem_cons.1 he' with rfl | he''
        · exact (inv2.closed _ List.mem_cons_self rfl).2.2.1
        · exact inv1.no_loan_on_fresh hfg he'' hv')
      hfs (Γ.depth + 1) sig.ownerK _ (Or.inl rfl) (g :: Γ1.frames)
    rw [hfr] at this ⊢
    exact this
  · -- aligned: an implicit reborrow, no new epoch
    simp only [Bool.false_eq_true, if_false] at hd2
    rcases declare_ok hd2 with ⟨hfg, rfl⟩
    rcases declare_ok hd3 with ⟨hfs, rfl⟩
    refine ⟨_, by simp only [runStmt, hr]; simp [ht.1, hsc, hlive3]; rfl, ?_⟩
    have shG : DerivedShape e .mut g sig.ownerK
        ⟨g, .scope, .mutRef, .borrow e.var .mut :: e.self,
         if realParam then e.param else .borrow e.var .mut :: e.self, true, Γ.depth⟩ :=
      DerivedShape.mk' .scope .mutRef _ (by decide) (by decide)
        (by cases hrp : realParam
            · exact Or.inl rfl
            · exact Or.inr ⟨rfl, hreal hrp⟩)
        (fun _ => rfl) (fun _ h => by cases h) (fun h => by cases h) (fun h => by cases h)
    have inv2 := derived_add inv1 he1 hv heH hr hau'.noConflict shG hfg (fun _ => heacc)
      (by
        intro hend
        cases hrp : realParam
        · exact List.mem_cons_self
        · have := ender_owner_noParam hkinds hend
          rw [hreal hrp] at this; cases this)
      (Rt.hdl .scope r.arena) rfl rfl rfl (fun n hn => by cases hn) (fun hb => by cases hb)
    have hfr : Γ1.frames = σ.frames := by rw [hau.frames]; exact inv.frames
    have := enter_param inv2 (G := ⟨g, .scope, .mutRef, .borrow e.var .mut :: e.self,
        if realParam then e.param else .borrow e.var .mut :: e.self, true, Γ.depth⟩)
      List.mem_cons_self rfl (by simp [Entry.isHandle]) (by simp) (DState.get_set_self _ _ _)
      (by
        intro e' he' hv'
        rcases List.mem_cons.1 he' with rfl | he''
        · exact (inv2.closed _ List.mem_cons_self rfl).2.2.1
        · exact inv1.no_loan_on_fresh hfg he'' hv')
      hfs (Γ.depth + 1) sig.ownerK
      (if realParam then e.param else .frame g :: .borrow g .mut :: .borrow e.var .mut :: e.self)
      (by
        cases hrp : realParam
        · exact Or.inl rfl
        · exact Or.inr ⟨by simp, hreal hrp, rfl⟩)
      (g :: Γ1.frames)
    rw [hfr] at this ⊢
    exact this

theorem find_some {Γ : SEnv} {v : Var} {e : Entry} (h : Γ.find v = some e) : e ∈ Γ.ents ∧ e.var = v := by
  unfold SEnv.find at h
  exact ⟨List.mem_of_find?_eq_some h, by simpa using List.find?_some h⟩

theorem step_exit {t : Table} {fl : Flags} {Γ Γ' : SEnv} {σ : DState} (inv : Inv Γ σ)
    {ret : Option Var} (hc : checkStmt t fl Γ (.exit ret) = .ok Γ') :
    ∃ σ', runStmt fl σ (.exit ret) = .ok σ' ∧ Inv Γ' σ' := by
  simp only [checkStmt, checkExit] at hc
  cases hf : Γ.frames with
  | nil => rw [hf] at hc; cases hc
  | cons g rest =>
    rw [hf] at hc; simp only at hc
    rw [foldl_remove_frames] at hc
    generalize hΓ1 : ((locals Γ).filter (fun v => some v != ret)).foldl (fun Γ v => Γ.remove v) Γ = Γ1' at hc
    have inv1 : Inv Γ1' σ := hΓ1 ▸ inv.removeAll _
    cases hfg : ({ Γ1' with frames := rest } : SEnv).find g with
    | none => rw [hfg] at hc; cases hc
    | some eg =>
      rw [hfg] at hc; simp only at hc
      by_cases hegv : (!eg.valid) = true
      · rw [if_pos hegv] at hc; cases hc
      · rw [if_neg hegv] at hc
        have hegv' : eg.valid = true := by simpa using hegv
        have hfg' : Γ1'.find g = some eg := hfg
        rcases find_some hfg' with ⟨heg, rfl⟩
        rcases inv1.get_of_valid heg hegv' with ⟨rg, hrg, _⟩
        rcases dropRt_sound inv1 heg hegv' hrg with ⟨σ1, hd1, inv2, hfr⟩
        have hσf : σ.frames = eg.var :: rest := by rw [← inv.frames]; exact hf
        have hrun : runStmt fl σ (.exit ret) = .ok { σ1 with frames := rest } := by
          simp only [runStmt, hσf, hrg, hd1]
        have inv3' : Inv (({ Γ1' with frames := rest } : SEnv).remove eg.var) { σ1 with frames := rest } :=
          inv2.setFrames rest
        cases ret with
        | none =>
          simp only at hc; cases hc
          exact ⟨_, hrun, inv3'⟩
        | some r =>
          simp only at hc
          cases hfr' : (({ Γ1' with frames := rest } : SEnv).remove eg.var).find r with
          | none => rw [hfr'] at hc; cases hc
          | some er =>
            rw [hfr'] at hc; simp only at hc
            split at hc
            · cases hc
            · split at hc
              · cases hc
              · cases hc
                refine ⟨_, hrun, ?_⟩
                have := inv3'.mapDepth (fun e => if e.var == r then min e.depth rest.length else e.depth)
                have heq : ∀ e : Entry, (if (e.var == r) = true then { e with depth := min e.depth rest.length } else e) =
                    { e with depth := if (e.var == r) = true then min e.depth rest.length else e.depth } := by
                  intro e; by_cases h : (e.var == r) = true <;> simp [h]
                simp only [heq]
                exact this

/-! ### stores into an outer variable -/

/-- the entry of a value variable gets larger regions and is bound to another run-time value -/
theorem Inv.updateVal {Γ : SEnv} {σ : DState} (inv : Inv Γ σ) {o : Entry} (ho : o ∈ Γ.ents) (hov : o.valid = true)
    (hok : o.kind = .val) (S' P' : Region) (r' : Rt)
    (hrk : r'.kind = .val) (hrn : ∀ ex, r'.epoch = some ex → ex < σ.next)
    (hC : (∀ l ∈ P', l ∈ S') ∧
          (∀ p m, Loan.borrow p m ∈ S' →
            ∃ ep ∈ Γ.ents, ep.var = p ∧ ep.valid = true ∧ ep.kind ≠ .val ∧ ∀ l ∈ ep.self, l ∈ S') ∧
          (∀ p m, Loan.borrow p m ∈ P' → ∀ ep ∈ Γ.ents, ep.var = p → ∀ l ∈ ep.self, l ∈ P'))
    (hV : ∀ ex, r'.epoch = some ex → ex ∈ σ.epochs r'.arena ∧
          ∀ g ∈ Γ.ents, g.valid = true → ∀ rg, σ.get g.var = some rg → Ender σ g rg r'.arena ex → S'.on g.var = true) :
    Inv { Γ with ents := Γ.ents.map fun e => if e.var == o.var then { e with self := S', param := P' } else e }
        (σ.set o.var r') := by
  -- membership in the new environment
  have hmem : ∀ e', e' ∈ (Γ.ents.map fun e => if e.var == o.var then { e with self := S', param := P' } else e) →
      (e' = { o with self := S', param := P' }) ∨ (e' ∈ Γ.ents ∧ e'.var ≠ o.var) := by
    intro e' he'
    rcases List.mem_map.1 he' with ⟨e, he, rfl⟩
    by_cases hx : e.var = o.var
    · have := inv.eq_of_var_eq he ho hx; subst this
      left; simp
    · right
      have : (e.var == o.var) = false := by simpa using hx
      simp [this]; exact ⟨he, hx⟩
  have hkeep : ∀ e ∈ Γ.ents, e.var ≠ o.var →
      e ∈ (Γ.ents.map fun e => if e.var == o.var then { e with self := S', param := P' } else e) := by
    intro e he hx
    refine List.mem_map.2 ⟨e, he, ?_⟩
    have : (e.var == o.var) = false := by simpa using hx
    simp [this]
  -- a place that is borrowed is not the value variable `o`
  have hplace : ∀ ep ∈ Γ.ents, ep.kind ≠ .val → ep.var ≠ o.var := by
    intro ep hep hk hx
    have := inv.eq_of_var_eq hep ho hx; subst this
    exact hk hok
  have hget : ∀ e ∈ Γ.ents, e.var ≠ o.var → (σ.set o.var r').get e.var = σ.get e.var :=
    fun e _ hx => DState.get_set_ne σ r' hx
  have hnotEnder : ∀ (e' : Entry) (re : Rt) a, e'.kind = .val → ¬ EnderOn σ e' re a := by
    intro e' re a hk hon
    rcases hon with ⟨hk', _⟩ | ⟨hk', _⟩ | ⟨hk', _⟩ <;> rw [hk] at hk' <;> cases hk'
  constructor
  · show ((Γ.ents.map fun e => if e.var == o.var then { e with self := S', param := P' } else e).map (·.var)).Nodup
    rw [List.map_map]
    have : ((fun e : Entry => e.var) ∘ fun e => if e.var == o.var then { e with self := S', param := P' } else e) = (·.var) := by
      funext e
      show (if (e.var == o.var) = true then ({ e with self := S', param := P' } : Entry) else e).var = e.var
      split <;> rfl
    rw [this]; exact inv.nodup
  · intro e' he'
    rcases hmem e' he' with rfl | ⟨he, _⟩
    · exact inv.used o ho
    · exact inv.used e' he
  · intro p hp
    rcases List.mem_cons.1 hp with rfl | hp
    · exact inv.used o ho
    · exact inv.storeUsed p hp
  · exact inv.frames
  · exact inv.epochs
  · intro e' he' hv
    rcases hmem e' he' with rfl | ⟨he, hx⟩
    · refine ⟨r', DState.get_set_self σ _ r', hrk.trans hok.symm, ?_, ?_, ?_, ?_, hrn, ?_⟩
      · intro h; rw [hok] at h; cases h
      · intro h; rw [hok] at h; cases h
      · intro h; simp [Entry.isHandle, hok] at h
      · intro h; rw [hok] at h; cases h
      · intro h; rw [hok] at h; cases h
    · rcases inv.typed e' he hv with ⟨r0, hr0, ht⟩
      exact ⟨r0, by rw [hget e' he hx]; exact hr0, ht⟩
  · intro e' he' hv
    rcases hmem e' he' with rfl | ⟨he, hx⟩
    · have hfree : Region.on S' o.var = false := by
        apply Bool.eq_false_iff.2
        intro hon
        rcases List.any_eq_true.1 hon with ⟨l, hl, hlo⟩
        cases l with
        | frame k => simp [Loan.on] at hlo
        | borrow q m =>
          rcases hC.2.1 q m hl with ⟨ep, hep, h1, _, h3, _⟩
          have : q = o.var := by simpa [Loan.on] using hlo
          exact hplace ep hep h3 (h1.trans this)
      refine ⟨hC.1, ?_, hfree, ?_⟩
      · intro q m hq
        rcases hC.2.1 q m hq with ⟨ep, hep, h1, h2, h3, h4⟩
        exact ⟨ep, hkeep ep hep (hplace ep hep h3), h1, h2, h3, h4⟩
      · intro q m hq ep' hep' hvar l hl
        rcases hmem ep' hep' with rfl | ⟨hep, _⟩
        · -- the borrowed place would be the value variable itself
          exfalso
          have : Region.on S' o.var = true :=
            List.any_eq_true.2 ⟨_, hC.1 _ hq, by simp [Loan.on]; exact hvar.symm⟩
          rw [hfree] at this; exact Bool.false_ne_true this
        · exact hC.2.2 q m hq ep' hep hvar l hl
    · have hc := inv.closed e' he hv
      refine ⟨hc.1, ?_, hc.2.2.1, ?_⟩
      · intro q m hq
        rcases hc.2.1 q m hq with ⟨ep, hep, h1, h2, h3, h4⟩
        exact ⟨ep, hkeep ep hep (hplace ep hep h3), h1, h2, h3, h4⟩
      · intro q m hq ep' hep' hvar l hl
        rcases hmem ep' hep' with rfl | ⟨hep, _⟩
        · exfalso
          rcases hc.2.1 q m (hc.1 _ hq) with ⟨ep0, hep0, h1, _, h3, _⟩
          exact hplace ep0 hep0 h3 (h1.trans hvar.symm)
        · exact hc.2.2.2 q m hq ep' hep hvar l hl
  · intro e' he' hv hk r0 hr0 ex hex
    rcases hmem e' he' with rfl | ⟨he, hx⟩
    · rw [DState.get_set_self] at hr0; cases hr0
      rcases hV ex hex with ⟨h1, h2⟩
      refine ⟨h1, ?_⟩
      intro g' hg' hgv rg hrg hend
      rcases hmem g' hg' with rfl | ⟨hg, hgx⟩
      · exact absurd hend.1 (hnotEnder _ _ _ hok)
      · rw [hget g' hg hgx] at hrg
        exact h2 g' hg hgv rg hrg hend
    · rw [hget e' he hx] at hr0
      rcases inv.vals e' he hv hk r0 hr0 ex hex with ⟨h1, h2⟩
      refine ⟨h1, ?_⟩
      intro g' hg' hgv rg hrg hend
      rcases hmem g' hg' with rfl | ⟨hg, hgx⟩
      · exact absurd hend.1 (hnotEnder _ _ _ hok)
      · rw [hget g' hg hgx] at hrg
        exact h2 g' hg hgv rg hrg hend
  · intro h' hh' hv hH rh hrh g' hg' hgv hne rg hrg hon
    rcases hmem h' hh' with rfl | ⟨hh, hhx⟩
    · simp [Entry.isHandle, hok] at hH
    · rcases hmem g' hg' with rfl | ⟨hg, hgx⟩
      · exact absurd hon (hnotEnder _ _ _ hok)
      · rw [hget h' hh hhx] at hrh
        rw [hget g' hg hgx] at hrg
        exact inv.handles h' hh hv hH rh hrh g' hg hgv hne rg hrg hon
  · intro h1' hh1' hv1 hH1 ha h2' hh2' hv2 hH2 hne r1 r2 hr1 hr2 har
    rcases hmem h1' hh1' with rfl | ⟨hh1, hx1⟩
    · simp [Entry.isHandle, hok] at hH1
    · rcases hmem h2' hh2' with rfl | ⟨hh2, hx2⟩
      · simp [Entry.isHandle, hok] at hH2
      · rw [hget h1' hh1 hx1] at hr1
        rw [hget h2' hh2 hx2] at hr2
        exact inv.uniq h1' hh1 hv1 hH1 ha h2' hh2 hv2 hH2 hne r1 r2 hr1 hr2 har

theorem step_store {t : Table} {fl : Flags} {Γ Γ' : SEnv} {σ : DState} (inv : Inv Γ σ)
    {o x : Var} (hc : checkStmt t fl Γ (.store o x) = .ok Γ') :
    ∃ σ', runStmt fl σ (.store o x) = .ok σ' ∧ Inv Γ' σ' := by
  simp only [checkStmt, checkStore] at hc
  cases hlo : Γ.lookupValid o with
  | error r => rw [hlo] at hc; cases hc
  | ok eo =>
    rw [hlo] at hc; simp only at hc
    cases hlx : Γ.lookupValid x with
    | error r => rw [hlx] at hc; cases hc
    | ok ex =>
      rw [hlx] at hc; simp only at hc
      split at hc
      · cases hc
      · rename_i hcond
        split at hc
        · cases hc
        · cases hc
          simp only [Bool.or_eq_true, not_or, bne_iff_ne, ne_eq, Decidable.not_not, beq_iff_eq] at hcond
          rcases hcond with ⟨⟨hko, hkx⟩, hox⟩
          rcases lookupValid_ok hlo with ⟨heo, rfl, hvo⟩
          rcases lookupValid_ok hlx with ⟨hex, rfl, hvx⟩
          rcases inv.get_of_valid heo hvo with ⟨ro, hro, hto⟩
          rcases inv.get_of_valid hex hvx with ⟨rx, hrx, htx⟩
          have halive := inv.alive heo hvo hko hro
          refine ⟨σ.set eo.var rx, by simp only [runStmt, hro, hrx]; simp [halive], ?_⟩
          have inv1 := inv.remove ex.var
          have hcx := inv.closed ex hex hvx
          have hco := inv.closed eo heo hvo
          -- a value variable is never a borrowed place
          have hnoval : ∀ (e v : Entry), e ∈ Γ.ents → e.valid = true → v ∈ Γ.ents → v.kind = .val → e.self.on v.var = false := by
            intro e v he hev hv hvk
            apply Bool.eq_false_iff.2
            intro hon
            rcases List.any_eq_true.1 hon with ⟨l, hl, hlo'⟩
            cases l with
            | frame k => simp [Loan.on] at hlo'
            | borrow q m =>
              rcases (inv.closed e he hev).2.1 q m hl with ⟨ep, hep, h1, _, h3, _⟩
              have : q = v.var := by simpa [Loan.on] using hlo'
              have := inv.eq_of_var_eq hep hv (h1.trans this)
              subst this; exact h3 hvk
          have heo1 : eo ∈ (Γ.remove ex.var).ents :=
            List.mem_filter.2 ⟨mem_killEnts_of_survivor heo (hnoval eo ex heo hvo hex hkx), by simpa using hox⟩
          -- places borrowed by `x` survive the move of `x`
          have hkeepx : ∀ ep ∈ Γ.ents, ep.valid = true → (∀ l ∈ ep.self, l ∈ ex.self) → ep.kind ≠ .val → ep ∈ (Γ.remove ex.var).ents := by
            intro ep hep _ hsub hk
            refine List.mem_filter.2 ⟨mem_killEnts_of_survivor hep (any_false_of_subset hsub hcx.2.2.1), ?_⟩
            have : ep.var ≠ ex.var := fun h => by
              have := inv.eq_of_var_eq hep hex h; subst this; exact hk hkx
            simpa using this
          have hkeepo : ∀ ep ∈ Γ.ents, ep.valid = true → (∀ l ∈ ep.self, l ∈ eo.self) → ep.kind ≠ .val → ep ∈ (Γ.remove ex.var).ents := by
            intro ep hep hepv hsub hk
            refine List.mem_filter.2 ⟨mem_killEnts_of_survivor hep ?_, ?_⟩
            · exact hnoval ep ex hep hepv hex hkx
            · have : ep.var ≠ ex.var := fun h => by
                have := inv.eq_of_var_eq hep hex h; subst this; exact hk hkx
              simpa using this
          have hsubΓ : ∀ ep, ep ∈ (Γ.remove ex.var).ents → ∃ ep0 ∈ Γ.ents, ep0.var = ep.var ∧ ep0.self = ep.self := by
            intro ep hep
            have h1 := (List.mem_filter.1 hep).1
            rcases mem_killEnts h1 with ⟨ep0, hep0, rfl⟩
            exact ⟨ep0, hep0, by simp, by simp⟩
          have hmapeq : ((Γ.remove ex.var).ents.map fun e =>
                if e.var == eo.var then { e with self := e.self ++ ex.self, param := e.param ++ ex.self } else e) =
              ((Γ.remove ex.var).ents.map fun e =>
                if e.var == eo.var then { e with self := eo.self ++ ex.self, param := eo.param ++ ex.self } else e) := by
            apply List.map_congr_left
            intro e he
            by_cases hx : (e.var == eo.var) = true
            · have := inv1.eq_of_var_eq he heo1 (by simpa using hx)
              subst this; rfl
            · simp [hx]
          show Inv { (Γ.remove ex.var) with ents := _ } _
          rw [hmapeq]
          apply inv1.updateVal heo1 hvo hko (eo.self ++ ex.self) (eo.param ++ ex.self) rx (htx.1.trans hkx) htx.2.2.2.2.2.1
          · refine ⟨?_, ?_, ?_⟩
            · intro l hl
              rcases List.mem_append.1 hl with h | h
              · exact List.mem_append_left _ (hco.1 l h)
              · exact List.mem_append_right _ h
            · intro p m hp
              rcases List.mem_append.1 hp with h | h
              · rcases hco.2.1 p m h with ⟨ep, hep, h1, h2, h3, h4⟩
                exact ⟨ep, hkeepo ep hep h2 h4 h3, h1, h2, h3, fun l hl => List.mem_append_left _ (h4 l hl)⟩
              · rcases hcx.2.1 p m h with ⟨ep, hep, h1, h2, h3, h4⟩
                exact ⟨ep, hkeepx ep hep h2 h4 h3, h1, h2, h3, fun l hl => List.mem_append_right _ (h4 l hl)⟩
            · intro p m hp ep hep hvar l hl
              rcases hsubΓ ep hep with ⟨ep0, hep0, hv0, hs0⟩
              rw [← hs0] at hl
              rcases List.mem_append.1 hp with h | h
              · exact List.mem_append_left _ (hco.2.2.2 p m h ep0 hep0 (hv0.trans hvar) l hl)
              · rcases hcx.2.1 p m h with ⟨ep1, hep1, h1, _, _, h4⟩
                have := inv.eq_of_var_eq hep0 hep1 ((hv0.trans hvar).trans h1.symm)
                subst this
                exact List.mem_append_right _ (h4 l hl)
          · intro e' he'
            rcases inv.vals ex hex hvx hkx rx hrx e' he' with ⟨h1, h2⟩
            refine ⟨h1, ?_⟩
            intro g hg hgv rg hrg hend
            rcases mem_remove_valid hg hgv with ⟨hgΓ, _, _⟩
            have := h2 g hgΓ hgv rg hrg hend
            exact Region.on_of_subset (fun l hl => List.mem_append_right _ hl) this

/-! ### conversions between lifetime-carrying values -/

/-- with `convsAdequate`, the output of a conversion carries the region of its source: it is invalidated together with
    the source, in particular when the epoch of the source's memory ends -/
theorem convRegion_tied {c : ValueConv} (h : c.tied = true) (e : Entry) : convRegion c e = e.self := by
  unfold ValueConv.tied at h
  simp only [Bool.and_eq_true, bne_iff_ne, ne_eq] at h
  unfold convRegion
  rcases hl : c.lts with _ | ⟨l, rest⟩
  · exact absurd hl h.1
  · have := List.all_eq_true.1 h.2 l (by rw [hl]; exact List.mem_cons_self)
    simp [this]

theorem step_vconv {t : Table} (hok : sigOK t = true) {fl : Flags} {Γ Γ' : SEnv} {σ : DState} (inv : Inv Γ σ)
    {x v : Var} {input name : String} (hc : checkStmt t fl Γ (.vconv x v input name) = .ok Γ') :
    ∃ σ', runStmt fl σ (.vconv x v input name) = .ok σ' ∧ Inv Γ' σ' := by
  simp only [checkStmt, checkVconv] at hc
  cases hlc : t.lookupConv input name with
  | none => rw [hlc] at hc; cases hc
  | some c =>
    rw [hlc] at hc; simp only at hc
    split at hc
    · cases hc
    · cases hl : Γ.lookupValid v with
      | error r => rw [hl] at hc; cases hc
      | ok e =>
        rw [hl] at hc; simp only at hc
        split at hc
        · cases hc
        · rename_i hk
          have hk : e.kind = .val := by simpa using hk
          rw [convRegion_tied (sigOK_conv hok hlc)] at hc
          rcases lookupValid_ok hl with ⟨he, rfl, hv⟩
          rcases inv.get_of_valid he hv with ⟨r, hr, ht⟩
          rcases declare_ok hc with ⟨hfresh, rfl⟩
          have hrk : r.kind = .val := ht.1.trans hk
          have halive := inv.alive he hv hk hr
          refine ⟨σ.set x r, ?_, ?_⟩
          · simp [runStmt, hr, hrk, halive]
          · have hcl := inv.closed e he hv
            have hvo := inv.vals e he hv hk r hr
            apply inv.add ⟨x, .val, .own, e.self, e.self, true, Γ.depth⟩ r hfresh rfl
            · refine ⟨hrk, ?_, ?_, ?_, ?_, ht.2.2.2.2.2.1, ?_⟩
              · intro h; cases h
              · intro h; cases h
              · intro h; simp [Entry.isHandle] at h
              · intro h; cases h
              · intro h; cases h
            · refine ⟨fun l hl => hl, hcl.2.1, ?_⟩
              intro p m hp ep hep hvar l hl
              rcases hcl.2.1 p m hp with ⟨ep0, hep0, h1, _, _, h4⟩
              have := inv.eq_of_var_eq hep hep0 (hvar.trans h1.symm)
              subst this; exact h4 l hl
            · intro _ ex hex
              exact hvo ex hex
            · intro e' _ _ _ re _ ex _ hend
              rcases hend.1 with ⟨hk', _⟩ | ⟨hk', _⟩ | ⟨hk', _⟩ <;> cases hk'
            · intro h; simp [Entry.isHandle] at h
            · intro h _ _ _ rh' _ hon
              rcases hon with ⟨hk', _⟩ | ⟨hk', _⟩ | ⟨hk', _⟩ <;> cases hk'
            · intro h; simp [Entry.isHandle] at h
            · intro h; simp [Entry.isHandle] at h

theorem step_join {t : Table} (hok : sigOK t = true) {fl : Flags} {Γ Γ' : SEnv} {σ : DState} (inv : Inv Γ σ)
    {x f : Var} {input name : String} (hc : checkStmt t fl Γ (.join x f input name) = .ok Γ') :
    ∃ σ', runStmt fl σ (.join x f input name) = .ok σ' ∧ Inv Γ' σ' := by
  simp only [checkStmt, checkJoin] at hc
  cases hlc : t.lookupConv input name with
  | none => rw [hlc] at hc; cases hc
  | some c =>
    rw [hlc] at hc; simp only at hc
    split at hc
    · cases hc
    · rw [sigOK_conv hok hlc] at hc
      simp only [if_true] at hc
      have hs : checkStmt t fl Γ (.store x f) = .ok Γ' := by simpa only [checkStmt] using hc
      exact step_store inv hs

/-- **one step**: a statement accepted by the type checker runs without a fault and re-establishes the invariant -/
theorem step_sound {t : Table} (hok : sigOK t = true) {fl : Flags} {Γ Γ' : SEnv} {σ : DState} (inv : Inv Γ σ)
    (st : Stmt) (hc : checkStmt t fl Γ st = .ok Γ') : ∃ σ', runStmt fl σ st = .ok σ' ∧ Inv Γ' σ' := by
  cases st with
  | newBump b => exact step_newBump inv (by simpa only [checkStmt] using hc)
  | newPool p => exact step_newPool inv (by simpa only [checkStmt] using hc)
  | call x h op owner name => exact step_call hok inv hc
  | coll v h m => exact step_coll hok inv hc
  | enter s g h op owner name => exact step_enter hok inv hc
  | exit ret => exact step_exit inv hc
  | use x => exact step_use inv hc
  | drop x => exact step_drop inv hc
  | slot o => exact step_slot inv (by simpa only [checkStmt] using hc)
  | store o x => exact step_store inv hc
  | send x => exact step_send hok inv hc
  | share x => exact step_share hok inv hc
  | vconv x v input name => exact step_vconv hok inv hc
  | join x f input name => exact step_join hok inv hc

theorem Inv.empty : Inv SEnv.empty DState.empty := by
  constructor
  · simp [SEnv.empty]
  · intro e he; cases he
  · intro p hp; cases hp
  · rfl
  · intro a; simp [DState.empty, DState.epochs]
  · intro e he; cases he
  · intro e he; cases he
  · intro e he; cases he
  · intro e he; cases he
  · intro e he; cases he

/-- **soundness**: a program accepted by the type checker runs to completion without a fault, from any state
    that satisfies the invariant -/
theorem check_sound {t : Table} (hok : sigOK t = true) (fl : Flags) (p : List Stmt) :
    ∀ {Γ Γ' : SEnv} {σ : DState}, Inv Γ σ → check t fl Γ p = .ok Γ' → ∃ σ', run fl σ p = .ok σ' ∧ Inv Γ' σ' := by
  induction p with
  | nil =>
    intro Γ Γ' σ inv hc
    simp only [check] at hc; cases hc
    exact ⟨σ, rfl, inv⟩
  | cons st rest ih =>
    intro Γ Γ' σ inv hc
    simp only [check] at hc
    cases hst : checkStmt t fl Γ st with
    | error r => rw [hst] at hc; cases hc
    | ok Γ1 =>
      rw [hst] at hc; simp only at hc
      rcases step_sound hok inv st hst with ⟨σ1, hrun, inv1⟩
      rcases ih inv1 hc with ⟨σ', hrun', inv'⟩
      exact ⟨σ', by simp only [run, hrun]; exact hrun', inv'⟩

end Life
