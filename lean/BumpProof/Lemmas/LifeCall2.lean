/-
  Lemmas/LifeCall2.lean — the remaining effect classes of method calls (reset, pool, by-value conversion),
  collections, closures, stores, and the one-step theorem of the region calculus.
-/
import BumpProof.Lemmas.LifeCall

namespace Life

/-! ### `reset` -/

theorem runCall_pool {σ : DState} {x h : Var} {op : Op} {r : Rt} (hr : σ.get h = some r) (hk : r.kind = .pool) :
    runCall σ x h op =
      match op with
      | .poolGet =>
          .ok (({ σ with arenas := σ.arenas ++ [[σ.next]], next := σ.next + 1 } : DState).set h
                { r with arenas := σ.arenas.length :: r.arenas } |>.set x (Rt.hdl .poolGuard σ.arenas.length))
      | .resetAll => .ok (r.arenas.foldl (fun σ a => σ.resetArena a) σ)
      | _ => .error .stuck := by
  unfold runCall
  rw [hr]
  simp only [hk]
  cases op <;> simp

theorem call_resetAll {t : Table} (hok : sigOK t = true) {Γ Γ' Γ1 : SEnv} {σ : DState} (inv : Inv Γ σ)
    {sig : Sig} {e : Entry} {res : Option Entry} {x : Var}
    (hs : sig ∈ t.sigs) (hop : sig.op = .resetAll) (he : e ∈ Γ.ents) (hv : e.valid = true)
    (happ : applicable t sig.ownerK e = true) (hacc : Γ.access e (effRecv sig) = .ok Γ1)
    (hres : mkResult x Γ.depth e (effRecv sig).mode sig.ret sig.lts = some res)
    (hdecl : match res with | none => Γ' = Γ1 | some ne => Γ1.declare ne = .ok Γ') :
    ∃ σ', runCall σ x e.var .resetAll = .ok σ' ∧ Inv Γ' σ' := by
  rcases inv.get_of_valid he hv with ⟨r, hr, ht⟩
  rcases unit_shape (sigOK_sig hok hs) (Or.inr hop) hres with ⟨rfl, hrecv, hnc, _, hown⟩
  simp only at hdecl
  subst hdecl
  have hkinds := applicable_kinds (sigOK_impls hok) happ
  have heff : effRecv sig = .refMut := by rw [effRecv_of_not_claim hnc]; exact hrecv
  rw [heff] at hacc
  rcases access_ok hacc with ⟨h, _⟩ | ⟨_, hacc', rfl⟩ | ⟨h, _⟩
  · cases h
  · have inv1 := inv.useMut e.var
    rcases hown hop with ho | ho <;> rw [ho] at hkinds <;> simp only [ownerKinds] at hkinds
    · -- `Bump::reset`
      have heH : e.isHandle = true := by simp [Entry.isHandle, hkinds]
      rcases ht.kind_ne heH with ⟨hk1, hk2, hlive⟩
      refine ⟨σ.resetArena r.arena, ?_, ?_⟩
      · rw [runCall_handle hr hk1 hk2 hlive]; simp [ht.1, hkinds]
      · apply inv1.resetArena r.arena (DState.lt_of_epochs_ne_nil hlive)
        intro v hv1 hvv hvk rv hrv ex hex harena
        rcases mem_useMut_valid hv1 hvv with ⟨hvΓ, hno⟩
        apply inv.no_val_covered he hv hr hvΓ hvv hvk hno hrv hex
        exact ⟨Or.inr (Or.inl ⟨hkinds, hacc', harena.symm⟩), fun hg => by rw [hkinds] at hg; cases hg⟩
    · -- `BumpPool::reset`
      refine ⟨r.arenas.foldl (fun σ a => σ.resetArena a) σ, ?_, ?_⟩
      · rw [runCall_pool hr (by rw [ht.1]; exact hkinds)]
      · apply Inv.resetArenas r.arenas inv1 (ht.2.2.1 hkinds).2
        intro v hv1 hvv hvk rv hrv ex hex hm
        rcases mem_useMut_valid hv1 hvv with ⟨hvΓ, hno⟩
        apply inv.no_val_covered he hv hr hvΓ hvv hvk hno hrv hex
        exact ⟨Or.inr (Or.inr ⟨hkinds, hm⟩), fun hg => by rw [hkinds] at hg; cases hg⟩
  · cases h

end Life
