/-
  Lemmas/MemLive.lean — the invariant `LiveOK` on the ghost list of live blocks (aligned, inside
  the content range of a chunk not after the current one, on the allocated side of the bump position,
  pairwise byte-disjoint) and its preservation by allocation / deallocation / scope exit.
-/
import BumpProof.Lemmas.MemTry

set_option linter.unusedSimpArgs false

namespace Arena.Mem
open Rs

/-! ## Definitions -/

/-- `[addr, addr+size)` lies in the content range (not the header) of `c` -/
def InContent (cfg : Cfg) (c : Chunk) (addr size : Nat) : Prop :=
  c.contentStart cfg ≤ addr ∧ addr + size ≤ c.contentEnd cfg

/-- `[addr, addr+size)` lies on the handed-out side of the bump position of `c` -/
def OnAllocatedSide (cfg : Cfg) (c : Chunk) (addr size : Nat) : Prop :=
  if cfg.up then addr + size ≤ c.pos else c.pos ≤ addr

/-- where a non-empty live block may lie: in the content range of a chunk that is not after the current
    one; if it is the current chunk, on the allocated side of its position -/
def Placed (cfg : Cfg) (s : State) (addr size : Nat) : Prop :=
  ∃ i j c, s.cur = .chunk i ∧ j ≤ i ∧ s.chunks[j]? = some c ∧ InContent cfg c addr size ∧
    (j = i → OnAllocatedSide cfg c addr size)

/-- two blocks share no byte -/
def BlocksDisjoint (a b : Block) : Prop :=
  a.size = 0 ∨ b.size = 0 ∨ a.addr + a.size ≤ b.addr ∨ b.addr + b.size ≤ a.addr

/-- byte ranges `[a1, a1+s1)`, `[a2, a2+s2)` share no byte -/
def RangesDisjoint (a1 s1 a2 s2 : Nat) : Prop := s1 = 0 ∨ s2 = 0 ∨ a1 + s1 ≤ a2 ∨ a2 + s2 ≤ a1

/-- C01 for the ghost state: every live block is aligned and placed, live blocks are pairwise disjoint -/
structure LiveOK (cfg : Cfg) (s : State) : Prop where
  aligned : ∀ b ∈ s.live, b.align ∣ b.addr
  placed : ∀ b ∈ s.live, 0 < b.size → Placed cfg s b.addr b.size
  disjoint : s.live.Pairwise BlocksDisjoint

/-- the position of the current chunk is inside its content range -/
def CurPosOK (cfg : Cfg) (s : State) : Prop :=
  ∀ i c, s.cur = .chunk i → s.chunks[i]? = some c → c.contentStart cfg ≤ c.pos ∧ c.pos ≤ c.contentEnd cfg

theorem BlocksDisjoint.symm {a b : Block} (h : BlocksDisjoint a b) : BlocksDisjoint b a := by
  unfold BlocksDisjoint at h ⊢; omega

/-! ## Geometry -/

theorem inContent_in_chunk {cfg : Cfg} {c : Chunk} {a sz : Nat} (h : InContent cfg c a sz) :
    c.base ≤ a ∧ a + sz ≤ c.base + c.size := by
  unfold InContent Chunk.contentStart Chunk.contentEnd at h
  split at h <;> omega

theorem inContent_disjoint_chunks {cfg : Cfg} {l : List Chunk} (hd : ChunksDisjoint l) {i j : Nat} {ci cj : Chunk}
    (hi : l[i]? = some ci) (hj : l[j]? = some cj) (hij : j ≠ i) {a1 s1 a2 s2 : Nat}
    (h1 : InContent cfg cj a1 s1) (h2 : InContent cfg ci a2 s2) : RangesDisjoint a1 s1 a2 s2 := by
  have b1 := inContent_in_chunk h1
  have b2 := inContent_in_chunk h2
  obtain ⟨hli, hgi⟩ := List.getElem?_eq_some_iff.mp hi
  obtain ⟨hlj, hgj⟩ := List.getElem?_eq_some_iff.mp hj
  have hpw := List.pairwise_iff_getElem.mp hd
  unfold RangesDisjoint
  rcases Nat.lt_or_gt_of_ne hij with h | h
  · have := hpw j i hlj hli h
    rw [hgi, hgj] at this
    omega
  · have := hpw i j hli hlj h
    rw [hgi, hgj] at this
    omega

theorem pairwise_of_mem_ne {α} {R : α → α → Prop} (hs : ∀ a b, R a b → R b a) {l : List α} (h : l.Pairwise R)
    {a b : α} (ha : a ∈ l) (hb : b ∈ l) (hab : a ≠ b) : R a b := by
  obtain ⟨i, hi, rfl⟩ := List.getElem_of_mem ha
  obtain ⟨j, hj, rfl⟩ := List.getElem_of_mem hb
  have hpw := List.pairwise_iff_getElem.mp h
  rcases Nat.lt_trichotomy i j with h1 | h1 | h1
  · exact hpw i j hi hj h1
  · subst h1; exact absurd rfl hab
  · exact hs _ _ (hpw j i hj hi h1)

/-! ## `LiveOK` depends on chunk geometry, `cur` and `live` only -/

theorem getElem?_geom {l l' : List Chunk} (h : l'.map Chunk.memGeom = l.map Chunk.memGeom) {j : Nat} {c : Chunk}
    (hc : l[j]? = some c) : ∃ c', l'[j]? = some c' ∧ c'.memGeom = c.memGeom := by
  have : (l'.map Chunk.memGeom)[j]? = (l.map Chunk.memGeom)[j]? := by rw [h]
  simp only [List.getElem?_map, hc, Option.map_some] at this
  cases h' : l'[j]? with
  | none => rw [h'] at this; cases this
  | some c' =>
    rw [h'] at this
    simp only [Option.map_some, Option.some.injEq] at this
    exact ⟨c', rfl, this⟩

theorem Placed.of_geom {cfg : Cfg} {s s' : State} (hg : s'.chunks.map Chunk.memGeom = s.chunks.map Chunk.memGeom)
    (hcur : s'.cur = s.cur) {a sz : Nat} (h : Placed cfg s a sz) : Placed cfg s' a sz := by
  obtain ⟨i, j, c, h1, h2, h3, h4, h5⟩ := h
  obtain ⟨c', hc', hgeo⟩ := getElem?_geom hg h3
  have e1 : c'.base = c.base := congrArg (·.1) hgeo
  have e2 : c'.size = c.size := congrArg (·.2.1) hgeo
  have e3 : c'.pos = c.pos := congrArg (·.2.2.1) hgeo
  refine ⟨i, j, c', hcur.trans h1, h2, hc', ?_, ?_⟩
  · unfold InContent Chunk.contentStart Chunk.contentEnd at h4 ⊢
    rw [e1, e2]; exact h4
  · intro hji
    have := h5 hji
    unfold OnAllocatedSide at this ⊢
    rw [e3]; exact this

theorem LiveOK.of_geom {cfg : Cfg} {s s' : State} (hg : s'.chunks.map Chunk.memGeom = s.chunks.map Chunk.memGeom)
    (hcur : s'.cur = s.cur) (hlive : s'.live = s.live) (h : LiveOK cfg s) : LiveOK cfg s' := by
  refine ⟨?_, ?_, ?_⟩
  · rw [hlive]; exact h.aligned
  · rw [hlive]; exact fun b hb hs => (h.placed b hb hs).of_geom hg hcur
  · rw [hlive]; exact h.disjoint

theorem LiveOK.of_onlyData {cfg : Cfg} {s s' : State} (ho : OnlyDataChanged s s') (h : LiveOK cfg s) : LiveOK cfg s' := by
  obtain ⟨h1, h2⟩ := ho
  exact h.of_geom h2 (by rw [h1]) (by rw [h1])

/-! ## Adding / removing blocks -/

/-- adding a block that is aligned, placed and disjoint from the live ones -/
theorem LiveOK.addBlock {cfg : Cfg} {s : State} (h : LiveOK cfg s) {p size align : Nat} (init : Nat)
    (hal : align ∣ p) (hpl : 0 < size → Placed cfg s p size)
    (hdj : ∀ b ∈ s.live, RangesDisjoint b.addr b.size p size) :
    LiveOK cfg (addBlock s p size align init).1 := by
  unfold Arena.addBlock
  simp only
  refine ⟨?_, ?_, ?_⟩
  · intro b hb
    rcases List.mem_append.mp hb with hb | hb
    · exact h.aligned b hb
    · simp only [List.mem_singleton] at hb; subst hb; exact hal
  · intro b hb hs
    rcases List.mem_append.mp hb with hb | hb
    · exact h.placed b hb hs
    · simp only [List.mem_singleton] at hb; subst hb; exact hpl hs
  · rw [List.pairwise_append]
    refine ⟨h.disjoint, List.pairwise_singleton _ _, ?_⟩
    intro a ha b hb
    simp only [List.mem_singleton] at hb
    subst hb
    exact hdj a ha

/-- dropping blocks keeps the invariant -/
theorem LiveOK.filter {cfg : Cfg} {s : State} (h : LiveOK cfg s) (f : Block → Bool) :
    LiveOK cfg { s with live := s.live.filter f } := by
  refine ⟨?_, ?_, ?_⟩
  · exact fun b hb => h.aligned b (List.mem_filter.mp hb).1
  · exact fun b hb hs => h.placed b (List.mem_filter.mp hb).1 hs
  · exact h.disjoint.sublist List.filter_sublist

theorem LiveOK.removeBlock {cfg : Cfg} {s : State} (h : LiveOK cfg s) (id : Nat) : LiveOK cfg (removeBlock s id) :=
  h.filter _

/-! ## Allocation from the current chunk -/

theorem setPos_getElem?_self {s : State} {i : Nat} {c : Chunk} (hc : s.chunks[i]? = some c) (np : Nat) :
    (setPos s i np).chunks[i]? = some { c with pos := np } := by
  unfold setPos
  simp only [List.getElem?_modify, hc, Option.map_eq_map, Option.map_some, ↓reduceIte]

theorem setPos_getElem?_ne {s : State} {i j : Nat} (hij : j ≠ i) (np : Nat) :
    (setPos s i np).chunks[j]? = s.chunks[j]? := by
  unfold setPos
  simp only [List.getElem?_modify]
  cases s.chunks[j]? with
  | none => rfl
  | some d => simp [Ne.symm hij]

/-- carving a block from the free side of the current chunk: the old blocks stay placed, the new block
    is placed and disjoint from all old ones -/
theorem liveOK_carve {cfg : Cfg} {s : State} {i : Nat} {c : Chunk} {p size np : Nat}
    (h : LiveOK cfg s) (hd : ChunksDisjoint s.chunks) (hp : CurPosOK cfg s)
    (hcur : s.cur = .chunk i) (hc : s.chunks[i]? = some c) (hcv : Carved cfg c p size np) :
    LiveOK cfg (setPos s i np) ∧ Placed cfg (setPos s i np) p size ∧
    ∀ b ∈ s.live, RangesDisjoint b.addr b.size p size := by
  have hpos := hp i c hcur hc
  have hself := setPos_getElem?_self hc np
  -- the new block lies in the content range of `c`
  have hnew : InContent cfg c p size := by
    unfold Carved at hcv
    unfold InContent
    split at hcv <;> omega
  refine ⟨⟨h.aligned, ?_, h.disjoint⟩, ?_, ?_⟩
  · intro b hb hs
    obtain ⟨i', j, cj, h1, h2, h3, h4, h5⟩ := h.placed b hb hs
    have hii : i' = i := by rw [hcur] at h1; cases h1; rfl
    subst hii
    by_cases hji : j = i'
    · subst hji
      rw [hc] at h3; cases h3
      refine ⟨j, j, _, hcur, Nat.le_refl _, hself, h4, fun _ => ?_⟩
      have := h5 rfl
      unfold OnAllocatedSide at this ⊢
      unfold Carved at hcv
      simp only
      split at hcv <;> simp_all <;> omega
    · exact ⟨i', j, cj, hcur, h2, by rw [setPos_getElem?_ne hji]; exact h3, h4, fun e => absurd e hji⟩
  · refine ⟨i, i, _, hcur, Nat.le_refl _, hself, hnew, fun _ => ?_⟩
    unfold OnAllocatedSide
    unfold Carved at hcv
    simp only
    split at hcv <;> simp_all
  · intro b hb
    by_cases hs : 0 < b.size
    · obtain ⟨i', j, cj, h1, h2, h3, h4, h5⟩ := h.placed b hb hs
      have hii : i' = i := by rw [hcur] at h1; cases h1; rfl
      subst hii
      by_cases hji : j = i'
      · subst hji
        rw [hc] at h3; cases h3
        have := h5 rfl
        unfold OnAllocatedSide at this
        unfold Carved at hcv
        unfold RangesDisjoint
        split at hcv <;> simp_all <;> omega
      · exact inContent_disjoint_chunks hd hc h3 hji h4 hnew
    · left; omega

/-- fast-path allocation keeps `LiveOK` -/
theorem liveOK_tryCur_alloc {cfg : Cfg} {s s' : State} {L : Layout} {h : Hints} {p x : Nat}
    (hl : LiveOK cfg s) (hd : ChunksDisjoint s.chunks) (hp : CurPosOK cfg s)
    (hv : C11.Valid cfg.up (bumpProps cfg s L h))
    (hr : tryCur cfg .alloc s L h = .ok (some ((p, x), s'))) (init : Nat) :
    LiveOK cfg (addBlock s' p L.size L.align init).1 := by
  obtain ⟨i, c, np, hcur, hc, hal, _, hcv, rfl⟩ := tryCur_alloc_carved hv hr
  obtain ⟨h1, h2, h3⟩ := liveOK_carve hl hd hp hcur hc hcv
  exact h1.addBlock init hal (fun _ => h2) h3

/-! ## `stepCore`'s `.allocate` -/

theorem alloc_of_tryCur {cfg : Cfg} {s s' : State} {L : Layout} {p x : Nat}
    (hr : tryCur cfg .alloc s L Hints.custom = .ok (some ((p, x), s'))) :
    alloc cfg s L = .ok (s', .ok p) := by
  unfold alloc allocGeneric
  simp only [bind, Except.bind, pure, Except.pure, hr]
  rfl

theorem okOut_fst (s : State) (a sz al init : Nat) : (okOut s a sz al init).1 = (addBlock s a sz al init).1 := rfl

theorem stepCore_allocate_inv {cfg : Cfg} {g g' : GState} {L : Layout} {zeroed : Bool} {via : Via} {out : Out}
    (h : stepCore cfg g (.allocate L zeroed via) = .ok (g', out)) :
    ∃ s1 r, alloc cfg g.s L = .ok (s1, r) ∧
      ((∃ e, r = .error e ∧ g' = { g with s := s1 }) ∨
       (∃ p s2, r = .ok p ∧ (if zeroed then zeroRange cfg s1 p L.size else pure s1) = .ok s2 ∧
          g' = { g with s := (addBlock s2 p L.size L.align (if zeroed then L.size else 0)).1 })) := by
  unfold stepCore at h
  simp only [bind, Except.bind, pure, Except.pure] at h
  split at h
  · cases h
  · split at h
    · cases h
    · split at h
      · cases h
      · rename_i v hv
        split at h
        · cases h
          exact ⟨_, _, hv, .inl ⟨_, rfl, rfl⟩⟩
        · rename_i s' p
          refine ⟨_, _, hv, .inr ⟨p, ?_⟩⟩
          split at h
          · rename_i hz
            split at h
            · cases h
            · rename_i s2 hs2
              cases h
              exact ⟨s2, rfl, by simp only [hz, ↓reduceIte]; exact hs2, by simp only [okOut_fst, if_pos hz]⟩
          · rename_i hz
            cases h
            exact ⟨s', rfl, by simp only [hz]; rfl, by simp only [okOut_fst, if_neg hz]⟩

/-- what an allocation of `[p, p+size)` that ends in state `s1` must establish -/
structure AllocOutcome (cfg : Cfg) (s1 : State) (p size : Nat) : Prop where
  live : LiveOK cfg s1
  placed : Placed cfg s1 p size
  disj : ∀ b ∈ s1.live, RangesDisjoint b.addr b.size p size

theorem AllocOutcome.of_onlyData {cfg : Cfg} {s1 s2 : State} {p size : Nat} (h : AllocOutcome cfg s1 p size)
    (ho : OnlyDataChanged s1 s2) : AllocOutcome cfg s2 p size := by
  have e := ho.1
  refine ⟨h.live.of_onlyData ho, h.placed.of_geom ho.2 (by rw [e]), ?_⟩
  have : s2.live = s1.live := by rw [e]
  rw [this]; exact h.disj

theorem AllocOutcome.addBlock {cfg : Cfg} {s1 : State} {p size align : Nat} (h : AllocOutcome cfg s1 p size)
    (hal : align ∣ p) (init : Nat) : LiveOK cfg (addBlock s1 p size align init).1 :=
  h.live.addBlock init hal (fun _ => h.placed) h.disj

/-- fast path: the state `tryCur` returns satisfies `AllocOutcome` -/
theorem allocOutcome_tryCur {cfg : Cfg} {s s' : State} {L : Layout} {h : Hints} {p x : Nat}
    (hl : LiveOK cfg s) (hd : ChunksDisjoint s.chunks) (hp : CurPosOK cfg s)
    (hv : C11.Valid cfg.up (bumpProps cfg s L h))
    (hr : tryCur cfg .alloc s L h = .ok (some ((p, x), s'))) :
    AllocOutcome cfg s' p L.size ∧ L.align ∣ p := by
  obtain ⟨i, c, np, hcur, hc, hal, _, hcv, rfl⟩ := tryCur_alloc_carved hv hr
  obtain ⟨h1, h2, h3⟩ := liveOK_carve hl hd hp hcur hc hcv
  exact ⟨⟨h1, h2, h3⟩, hal⟩

/-- `stepCore`'s `.allocate` (also `allocate_zeroed`) served by the fast path keeps `LiveOK` -/
theorem stepCore_allocate_fast_liveOK {cfg : Cfg} {g g' : GState} {L : Layout} {zeroed : Bool} {via : Via} {out : Out}
    {r : (Nat × Nat) × State}
    (hl : LiveOK cfg g.s) (hd : ChunksDisjoint g.s.chunks) (hp : CurPosOK cfg g.s)
    (hv : C11.Valid cfg.up (bumpProps cfg g.s L Hints.custom))
    (hfast : tryCur cfg .alloc g.s L Hints.custom = .ok (some r))
    (h : stepCore cfg g (.allocate L zeroed via) = .ok (g', out)) : LiveOK cfg g'.s := by
  obtain ⟨⟨p, x⟩, s'⟩ := r
  obtain ⟨s1, r1, ha, hcase⟩ := stepCore_allocate_inv h
  rw [alloc_of_tryCur hfast] at ha
  cases ha
  obtain ⟨ho, hal⟩ := allocOutcome_tryCur hl hd hp hv hfast
  rcases hcase with ⟨e, he, _⟩ | ⟨p', s2, hp', hz, rfl⟩
  · cases he
  · cases hp'
    simp only
    have ho2 : AllocOutcome cfg s2 p L.size := by
      cases zeroed
      · simp only [Bool.false_eq_true, ↓reduceIte, pure, Except.pure] at hz
        cases hz; exact ho
      · simp only [↓reduceIte] at hz
        exact ho.of_onlyData (writeRange_onlyData hz)
    exact ho2.addBlock hal _

/-! ## Deallocation -/

/-- minimum alignment is one of the five supported values -/
def MinAlignOK (s : State) : Prop :=
  s.minAlign = 1 ∨ s.minAlign = 2 ∨ s.minAlign = 4 ∨ s.minAlign = 8 ∨ s.minAlign = 16

theorem MinAlignOK.p2 {s : State} (h : MinAlignOK s) : Lemmas.P2 s.minAlign ∧ s.minAlign < 2 ^ 64 := by
  rcases h with h | h | h | h | h <;> rw [h]
  · exact ⟨⟨0, rfl⟩, by decide⟩
  · exact ⟨⟨1, rfl⟩, by decide⟩
  · exact ⟨⟨2, rfl⟩, by decide⟩
  · exact ⟨⟨3, rfl⟩, by decide⟩
  · exact ⟨⟨4, rfl⟩, by decide⟩

theorem align_pos_down_le {ma x p : Nat} (h : liftM (Gen.LibArith.align_pos false ma x) = .ok p) : p ≤ x := by
  have h := liftM_ok h
  unfold Gen.LibArith.align_pos Gen.LibArith.down_align_usize at h
  simp only [bind, Except.bind, pure, Except.pure, Bool.false_eq_true, ↓reduceIte] at h
  repeat' split at h
  all_goals first | (cases h; done) | (cases h)
  exact Nat.and_le_left

theorem align_pos_up_ge {ma x p : Nat} (hma : Lemmas.P2 ma) (h64 : ma < 2 ^ 64)
    (h : liftM (Gen.LibArith.align_pos true ma x) = .ok p) : x ≤ p := by
  have h := liftM_ok h
  unfold Gen.LibArith.align_pos Gen.LibArith.up_align_usize_unchecked at h
  simp only [bind, Except.bind, pure, Except.pure, ↓reduceIte] at h
  split at h
  · cases h
  · split at h
    · cases h
    · rename_i t0 ht0
      split at h
      · cases h
      · rename_i t1 ht1
        cases h
        unfold Rs.sub at ht0
        split at ht0
        · cases ht0
          unfold Rs.add at ht1
          split at ht1
          · rename_i hle
            cases ht1
            have hlt : x + (ma - 1) < 2 ^ 64 := by
              have := Lemmas.MAX_eq
              rw [this] at hle
              rw [Lemmas.two_pow_64]; omega
            rw [Lemmas.P2.band_bnot hma h64 hlt, Lemmas.downAlign_eq]
            have := Nat.mod_lt (x + (ma - 1)) hma.pos
            omega
          · cases ht1
        · cases ht0

theorem deallocAssumeLast_inv {cfg : Cfg} {s s' : State} {ptr size : Nat}
    (h : deallocAssumeLast cfg s ptr size = .ok s') :
    s' = s ∨ ∃ i p, s.cur = .chunk i ∧
      liftM (Gen.LibArith.align_pos cfg.up s.minAlign (if cfg.up then ptr else ptr + size)) = .ok p ∧
      s' = setPos s i p := by
  unfold deallocAssumeLast at h
  cases hup : cfg.up
  all_goals simp only [hup, bind, Except.bind, pure, Except.pure, throw, throwThe, MonadExceptOf.throw,
    Bool.false_eq_true, ↓reduceIte] at h ⊢
  all_goals split at h
  all_goals first | (cases h; exact .inl rfl) | skip
  all_goals split at h
  all_goals first | (cases h; done) | skip
  all_goals rename_i i hcur
  all_goals split at h
  all_goals first | (cases h; done) | skip
  all_goals split at h
  all_goals first | (cases h; done) | skip
  all_goals rename_i p hp
  all_goals cases h
  all_goals exact .inr ⟨i, p, hcur, hp, setCurPos_chunk hcur p⟩

theorem deallocate_inv {cfg : Cfg} {s s' : State} {ptr size : Nat}
    (h : deallocate cfg s ptr size = .ok s') :
    s' = s ∨ ∃ i p, s.cur = .chunk i ∧ isLast cfg s ptr size = true ∧
      liftM (Gen.LibArith.align_pos cfg.up s.minAlign (if cfg.up then ptr else ptr + size)) = .ok p ∧
      s' = setPos s i p := by
  unfold deallocate at h
  simp only [bind, Except.bind, pure, Except.pure] at h
  split at h
  · cases h; exact .inl rfl
  · split at h
    · rename_i hlast
      rcases deallocAssumeLast_inv h with h1 | ⟨i, p, h1, h2, h3⟩
      · exact .inl h1
      · exact .inr ⟨i, p, h1, hlast, h2, h3⟩
    · cases h; exact .inl rfl

theorem curPos_chunk {cfg : Cfg} {s : State} {i : Nat} {c : Chunk} (hcur : s.cur = .chunk i) (hc : s.chunks[i]? = some c) :
    curPos cfg s = c.pos := by
  unfold curPos
  rw [hcur]
  simp only [hc]

/-- `deallocate` of a live block, followed by dropping it from the ghost list, keeps `LiveOK`: when the
    position moves back over the block, every other block stays on the allocated side -/
theorem liveOK_deallocate {cfg : Cfg} {s s' : State} {blk : Block}
    (hl : LiveOK cfg s) (hma : MinAlignOK s) (hb : blk ∈ s.live)
    (h : deallocate cfg s blk.addr blk.size = .ok s') : LiveOK cfg (removeBlock s' blk.id) := by
  rcases deallocate_inv h with rfl | ⟨i, p, hcur, hlast, hp, rfl⟩
  · exact hl.removeBlock _
  · refine ⟨?_, ?_, ?_⟩
    · exact fun b hb' => hl.aligned b (List.mem_filter.mp hb').1
    · intro b hb' hs
      obtain ⟨hbm, hid⟩ := List.mem_filter.mp hb'
      have hne : b ≠ blk := by
        intro e; subst e; simp at hid
      have hdj : BlocksDisjoint b blk := pairwise_of_mem_ne (fun _ _ => BlocksDisjoint.symm) hl.disjoint hbm hb hne
      obtain ⟨i', j, cj, h1, h2, h3, h4, h5⟩ := hl.placed b hbm hs
      have hii : i' = i := by rw [hcur] at h1; cases h1; rfl
      subst hii
      by_cases hji : j = i'
      · subst hji
        refine ⟨j, j, _, hcur, Nat.le_refl _, setPos_getElem?_self h3 p, h4, fun _ => ?_⟩
        have hside := h5 rfl
        have hcp := curPos_chunk (cfg := cfg) hcur h3
        unfold isLast at hlast
        unfold OnAllocatedSide at hside ⊢
        unfold BlocksDisjoint at hdj
        cases hup : cfg.up
        · simp only [hup, Bool.false_eq_true, ↓reduceIte, beq_iff_eq] at hlast hside hp ⊢
          have := align_pos_down_le hp
          rw [hcp] at hlast
          omega
        · simp only [hup, ↓reduceIte, beq_iff_eq] at hlast hside hp ⊢
          have := align_pos_up_ge hma.p2.1 hma.p2.2 hp
          rw [hcp] at hlast
          omega
      · exact ⟨i', j, cj, hcur, h2, (setPos_getElem?_ne hji p).trans h3, h4, fun e => absurd e hji⟩
    · exact hl.disjoint.sublist List.filter_sublist

theorem findBlock_ok {s : State} {id : Nat} {blk : Block} (h : findBlock s id = .ok blk) :
    blk ∈ s.live ∧ blk.id = id := by
  unfold findBlock at h
  split at h
  · rename_i b hb
    cases h
    have := List.find?_some hb
    exact ⟨List.mem_of_find?_eq_some hb, by simpa using this⟩
  · cases h

/-- `stepCore`'s `.deallocate` (through any wrapper) keeps `LiveOK` -/
theorem stepCore_deallocate_liveOK {cfg : Cfg} {g g' : GState} {b : Nat} {via : Via} {out : Out}
    (hl : LiveOK cfg g.s) (hma : MinAlignOK g.s)
    (h : stepCore cfg g (.deallocate b via) = .ok (g', out)) : LiveOK cfg g'.s := by
  unfold stepCore at h
  simp only [bind, Except.bind, pure, Except.pure] at h
  split at h
  · cases h
  · split at h
    · cases h
    · rename_i blk hblk
      obtain ⟨hmem, hid⟩ := findBlock_ok hblk
      split at h
      · cases h
        exact hl.removeBlock _
      · split at h
        · cases h
        · rename_i s' hs'
          cases h
          subst hid
          exact liveOK_deallocate hl hma hmem hs'

/-! ## Leaving a scope -/

/-- the block was placed relative to the checkpoint: in a chunk not after the checkpoint's chunk and,
    inside that chunk, on the allocated side of the checkpoint's address -/
def PlacedAt (cfg : Cfg) (s : State) (cp : Checkpoint) (addr size : Nat) : Prop :=
  ∃ i j c, cp.cur = .chunk i ∧ j ≤ i ∧ s.chunks[j]? = some c ∧ InContent cfg c addr size ∧
    (j = i → if cfg.up then addr + size ≤ cp.addr else cp.addr ≤ addr)

theorem resetTo_inv {cfg : Cfg} {s s' : State} {cp : Checkpoint} (h : resetTo cfg s cp = .ok s') :
    (cp.cur = .unallocated ∧ s' = resetToStart cfg s) ∨
    ∃ i c p, cp.cur = .chunk i ∧ s.chunks[i]? = some c ∧
      liftM (Gen.LibArith.align_pos cfg.up s.minAlign cp.addr) = .ok p ∧
      s' = { setPos s i p with cur := .chunk i } := by
  unfold resetTo at h
  split at h
  · rename_i hc
    cases h
    simp only [Bool.and_eq_true, beq_iff_eq] at hc
    exact .inl ⟨hc.2, rfl⟩
  · split at h
    · rename_i i hi
      split at h
      · cases h
      · rename_i c hc
        split at h
        · simp only [bind, Except.bind, pure, Except.pure] at h
          split at h
          · cases h
          · rename_i p hp
            cases h
            exact .inr ⟨i, c, p, hi, hc, hp, rfl⟩
        · cases h
    · cases h

/-- `reset_to` a checkpoint and dropping the blocks allocated after it keeps `LiveOK`, provided the
    older blocks were placed relative to the checkpoint -/
theorem liveOK_resetTo_killFrom {cfg : Cfg} {s s' : State} {cp : Checkpoint} {m : Nat}
    (hl : LiveOK cfg s) (hma : MinAlignOK s)
    (hcp : ∀ b ∈ s.live, b.id < m → 0 < b.size → PlacedAt cfg s cp b.addr b.size)
    (h : resetTo cfg s cp = .ok s') : LiveOK cfg (killFrom s' m) := by
  have hlive : s'.live = s.live := by
    rcases resetTo_inv h with ⟨_, rfl⟩ | ⟨i, c, p, _, _, _, rfl⟩
    · unfold resetToStart
      split
      · split <;> rfl
      · rfl
    · rfl
  refine ⟨?_, ?_, ?_⟩
  · intro b hb
    have := (List.mem_filter.mp hb).1
    rw [hlive] at this
    exact hl.aligned b this
  · intro b hb hs
    obtain ⟨hbm, hid⟩ := List.mem_filter.mp hb
    rw [hlive] at hbm
    have hid' : b.id < m := by simpa using hid
    obtain ⟨i, j, cj, h1, h2, h3, h4, h5⟩ := hcp b hbm hid' hs
    rcases resetTo_inv h with ⟨hu, _⟩ | ⟨i', c, p, hi', hc, hp, rfl⟩
    · rw [hu] at h1; cases h1
    · have hii : i' = i := by rw [hi'] at h1; cases h1; rfl
      subst hii
      by_cases hji : j = i'
      · subst hji
        rw [hc] at h3; cases h3
        refine ⟨j, j, _, rfl, Nat.le_refl _, setPos_getElem?_self hc p, h4, fun _ => ?_⟩
        have hside := h5 rfl
        unfold OnAllocatedSide
        cases hup : cfg.up
        · simp only [hup, Bool.false_eq_true, ↓reduceIte] at hside hp ⊢
          have := align_pos_down_le hp
          omega
        · simp only [hup, ↓reduceIte] at hside hp ⊢
          have := align_pos_up_ge hma.p2.1 hma.p2.2 hp
          omega
      · exact ⟨i', j, cj, rfl, h2, (setPos_getElem?_ne hji p).trans h3, h4, fun e => absurd e hji⟩
  · have : (killFrom s' m).live = s.live.filter (·.id < m) := by
      unfold killFrom; simp only [hlive]
    rw [this]
    exact hl.disjoint.sublist List.filter_sublist

/-- `stepCore`'s `.scopeExit` (drop of a `BumpScopeGuard` / end of `scoped`) keeps `LiveOK` -/
theorem stepCore_scopeExit_liveOK {cfg : Cfg} {g g' : GState} {out : Out}
    (hl : LiveOK cfg g.s) (hma : MinAlignOK g.s)
    (hcp : ∀ cp rest m ms, g.s.frames = .scope cp :: rest → g.marks = m :: ms →
      ∀ b ∈ g.s.live, b.id < m → 0 < b.size → PlacedAt cfg g.s cp b.addr b.size)
    (h : stepCore cfg g .scopeExit = .ok (g', out)) : LiveOK cfg g'.s := by
  unfold stepCore at h
  simp only [bind, Except.bind, pure, Except.pure] at h
  split at h
  · cases h
  · split at h
    · rename_i cp rest m ms hf hm
      split at h
      · cases h
      · rename_i s' hs'
        cases h
        have := liveOK_resetTo_killFrom hl hma (hcp cp rest m ms hf hm) hs'
        exact LiveOK.of_geom (s := killFrom s' m) rfl rfl rfl this
    · cases h

end Arena.Mem
