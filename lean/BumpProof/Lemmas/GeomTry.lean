/-
  Lemmas/GeomTry.lean — `bumpProps` of a state that satisfies the invariant is a valid input of
  the bump computations (C11), hence `tryCur` equals its wide-integer specification and preserves
  the invariant.
-/
import BumpProof.Lemmas.GeomBasic
import BumpProof.Props.C11

set_option linter.unusedSimpArgs false
set_option linter.unusedVariables false

namespace Arena
open Rs Lemmas

section
variable {cfg : Cfg} {s : State}

/-! ## The free range -/

theorem freeRange_chunk {i : Nat} {c : Chunk} (hcur : s.cur = .chunk i) (hi : s.chunks[i]? = some c) :
    freeRange cfg s = if cfg.up then (c.pos, c.contentEnd cfg) else (c.contentStart cfg, c.pos) := by
  unfold freeRange
  rw [hcur]
  simp only [hi]

theorem freeRange_dummy (hcur : ∀ i, s.cur ≠ .chunk i) : freeRange cfg s = (dummyAddr + 16, dummyAddr) := by
  unfold freeRange
  split
  · exact absurd ‹_› (hcur _)
  · rfl

theorem curPos_chunk {i : Nat} {c : Chunk} (hcur : s.cur = .chunk i) (hi : s.chunks[i]? = some c) :
    curPos cfg s = c.pos := by
  unfold curPos
  rw [hcur]
  simp only [hi]

/-- in a regular state the free range is the part of the content range on the free side of the position -/
theorem GeomInv.freeRange_regular (hc : CfgOK cfg) (h : GeomInv cfg s) {i : Nat} (hcur : s.cur = .chunk i) :
    let r := freeRange cfg s
    r.1 ≠ 0 ∧ r.2 ≠ 0 ∧ r.1 < 2 ^ 64 ∧ r.2 < 2 ^ 64 ∧ r.1 ≤ r.2 ∧ r.2 - r.1 ≤ Rs.IMAX ∧
    (if cfg.up then s.minAlign ∣ r.1 ∧ 16 ∣ r.2 else 16 ∣ r.1 ∧ s.minAlign ∣ r.2) := by
  obtain ⟨c, hi, hw, hd⟩ := h.curChunk hcur
  have h1 := hw.pos_ge
  have h2 := hw.pos_le
  have h3 := hw.start_pos
  have h4 := hw.end_lt64
  have h5 := hw.cap_le
  have h6 := hw.size_le
  have h7 := hw.start16 hc
  have h8 := hw.end16 hc
  rw [freeRange_chunk hcur hi]
  cases hup : cfg.up
  · simp only [Bool.false_eq_true, ↓reduceIte]
    refine ⟨by omega, by omega, by omega, by omega, by omega, by omega, h7, hd⟩
  · simp only [↓reduceIte]
    refine ⟨by omega, by omega, by omega, by omega, by omega, by omega, hd, h8⟩

theorem dummy_facts : dummyAddr + 16 ≠ 0 ∧ dummyAddr ≠ 0 ∧ dummyAddr + 16 < 2 ^ 64 ∧ dummyAddr < 2 ^ 64 ∧ 16 ∣ dummyAddr := by
  decide

/-! ## Validity of `bumpProps` (the bridge to C11) -/

theorem bumpProps_common (hc : CfgOK cfg) (h : GeomInv cfg s) {L : Layout} {hints : Hints} (hL : L.Valid)
    (hh : hints.sma = true → L.align ∣ L.size) : C11.ValidCommon (bumpProps cfg s L hints) := by
  have hne : (freeRange cfg s).1 ≠ 0 ∧ (freeRange cfg s).2 ≠ 0 ∧ (freeRange cfg s).1 < 2 ^ 64 ∧ (freeRange cfg s).2 < 2 ^ 64 := by
    by_cases hcur : ∃ i, s.cur = .chunk i
    · obtain ⟨i, hcur⟩ := hcur
      have := h.freeRange_regular hc hcur
      exact ⟨this.1, this.2.1, this.2.2.1, this.2.2.2.1⟩
    · rw [freeRange_dummy (fun i hi => hcur ⟨i, hi⟩)]
      exact ⟨dummy_facts.1, dummy_facts.2.1, dummy_facts.2.2.1, dummy_facts.2.2.2.1⟩
  exact ⟨hne.1, hne.2.1, hne.2.2.1, hne.2.2.2, h.minAlign, hL, hh⟩

theorem bumpProps_regular (hc : CfgOK cfg) (h : GeomInv cfg s) {i : Nat} (hcur : s.cur = .chunk i) (L : Layout) (hints : Hints) :
    C11.Regular cfg.up (bumpProps cfg s L hints) := by
  have := h.freeRange_regular hc hcur
  exact ⟨this.2.2.2.2.1, this.2.2.2.2.2.1, this.2.2.2.2.2.2⟩

theorem bumpProps_dummy (hcur : ∀ i, s.cur ≠ .chunk i) (L : Layout) (hints : Hints) :
    C11.Dummy (bumpProps cfg s L hints) := by
  unfold C11.Dummy bumpProps
  simp only [freeRange_dummy hcur]
  exact ⟨trivial, dummy_facts.2.2.2.2⟩

theorem bumpProps_valid (hc : CfgOK cfg) (h : GeomInv cfg s) {L : Layout} {hints : Hints} (hL : L.Valid)
    (hh : hints.sma = true → L.align ∣ L.size) : C11.Valid cfg.up (bumpProps cfg s L hints) := by
  refine ⟨bumpProps_common hc h hL hh, ?_⟩
  by_cases hcur : ∃ i, s.cur = .chunk i
  · obtain ⟨i, hcur⟩ := hcur
    exact Or.inl (bumpProps_regular hc h hcur L hints)
  · exact Or.inr (bumpProps_dummy (fun i hi => hcur ⟨i, hi⟩) L hints)

/-! ## `tryCur` = its wide-integer specification -/

/-- what `tryCur` computes, over wide integers and without hints -/
def tryCurSpec (cfg : Cfg) (k : Kind) (s : State) (L : Layout) : Option ((Nat × Nat) × State) :=
  let r := freeRange cfg s
  match k with
  | .alloc =>
    if cfg.up then (Spec.bumpUp r.1 r.2 L.size L.align s.minAlign).map (fun x => ((x.1, 0), setCurPos s x.2))
    else (Spec.bumpDown r.1 r.2 L.size L.align s.minAlign).map (fun p => ((p, 0), setCurPos s p))
  | .prepare =>
    if cfg.up then (Spec.bumpUp r.1 r.2 L.size L.align s.minAlign).map (fun x => ((x.1, 0), s))
    else (Spec.bumpDown r.1 r.2 L.size L.align s.minAlign).map (fun p => ((p, 0), s))
  | .range =>
    (if cfg.up then Spec.prepareUp r.1 r.2 L.size L.align else Spec.prepareDown r.1 r.2 L.size L.align).map
      (fun x => (x, s))

theorem bumpProps_start (L : Layout) (hints : Hints) : (bumpProps cfg s L hints).start = (freeRange cfg s).1 := rfl
theorem bumpProps_end (L : Layout) (hints : Hints) : (bumpProps cfg s L hints).«end» = (freeRange cfg s).2 := rfl
theorem bumpProps_layout (L : Layout) (hints : Hints) : (bumpProps cfg s L hints).layout = L := rfl
theorem bumpProps_min_align (L : Layout) (hints : Hints) : (bumpProps cfg s L hints).min_align = s.minAlign := rfl

theorem tryCur_eq (hc : CfgOK cfg) (h : GeomInv cfg s) (k : Kind) {L : Layout} {hints : Hints} (hL : L.Valid)
    (hh : hints.sma = true → L.align ∣ L.size) :
    tryCur cfg k s L hints = .ok (tryCurSpec cfg k s L) := by
  have hv := bumpProps_valid hc h hL hh
  unfold tryCur tryCurSpec
  cases hup : cfg.up
  · rw [hup] at hv
    cases k
    · simp only [Bool.false_eq_true, ↓reduceIte, C11.bump_down_eq _ hv, liftM_ok, r_ok_bind,
        bumpProps_start, bumpProps_end, bumpProps_layout, bumpProps_min_align]
      cases Spec.bumpDown (freeRange cfg s).1 (freeRange cfg s).2 L.size L.align s.minAlign <;> rfl
    · simp only [Bool.false_eq_true, ↓reduceIte, C11.bump_down_eq _ hv, liftM_ok, r_ok_bind,
        bumpProps_start, bumpProps_end, bumpProps_layout, bumpProps_min_align]
      cases Spec.bumpDown (freeRange cfg s).1 (freeRange cfg s).2 L.size L.align s.minAlign <;> rfl
    · simp only [Bool.false_eq_true, ↓reduceIte, C11.bump_prepare_down_eq _ hv, liftM_ok, r_ok_bind,
        bumpProps_start, bumpProps_end, bumpProps_layout, bumpProps_min_align]
      cases Spec.prepareDown (freeRange cfg s).1 (freeRange cfg s).2 L.size L.align <;> rfl
  · rw [hup] at hv
    cases k
    · simp only [↓reduceIte, C11.bump_up_eq _ hv, liftM_ok, r_ok_bind,
        bumpProps_start, bumpProps_end, bumpProps_layout, bumpProps_min_align]
      cases Spec.bumpUp (freeRange cfg s).1 (freeRange cfg s).2 L.size L.align s.minAlign <;> rfl
    · simp only [↓reduceIte, C11.bump_up_eq _ hv, liftM_ok, r_ok_bind,
        bumpProps_start, bumpProps_end, bumpProps_layout, bumpProps_min_align]
      cases Spec.bumpUp (freeRange cfg s).1 (freeRange cfg s).2 L.size L.align s.minAlign <;> rfl
    · simp only [↓reduceIte, C11.bump_prepare_up_eq _ hv, liftM_ok, r_ok_bind,
        bumpProps_start, bumpProps_end, bumpProps_layout, bumpProps_min_align]
      cases Spec.prepareUp (freeRange cfg s).1 (freeRange cfg s).2 L.size L.align <;> rfl

/-! ## Facts about the specification of `tryCur` -/

theorem bumpUp_dummy_none {sz al ma : Nat} (hal : 0 < al) :
    Spec.bumpUp (dummyAddr + 16) dummyAddr sz al ma = none := by
  unfold Spec.bumpUp
  have := le_upAlign (dummyAddr + 16) hal
  simp only
  rw [if_neg (by omega)]

theorem bumpDown_dummy_none {sz al ma : Nat} :
    Spec.bumpDown (dummyAddr + 16) dummyAddr sz al ma = none := by
  unfold Spec.bumpDown
  split
  · have := downAlign_le (dummyAddr - sz) (Nat.max al ma)
    simp only
    rw [if_neg (by omega)]
  · rfl

theorem prepareUp_dummy_none {sz al : Nat} (hal : 0 < al) :
    Spec.prepareUp (dummyAddr + 16) dummyAddr sz al = none := by
  unfold Spec.prepareUp
  have := le_upAlign (dummyAddr + 16) hal
  simp only
  rw [if_neg (by omega)]

theorem prepareDown_dummy_none {sz al : Nat} :
    Spec.prepareDown (dummyAddr + 16) dummyAddr sz al = none := by
  unfold Spec.prepareDown
  have := downAlign_le dummyAddr al
  simp only
  rw [if_neg (by omega)]

/-- a claimed / unallocated arena never serves anything from its (dummy) current chunk -/
theorem tryCurSpec_dummy (hcur : ∀ i, s.cur ≠ .chunk i) (k : Kind) {L : Layout} (hL : L.Valid) :
    tryCurSpec cfg k s L = none := by
  unfold tryCurSpec
  rw [freeRange_dummy hcur]
  cases k <;> cases cfg.up <;>
    simp only [Bool.false_eq_true, ↓reduceIte, bumpUp_dummy_none hL.pos, bumpDown_dummy_none, prepareUp_dummy_none hL.pos,
      prepareDown_dummy_none, Option.map_none]

theorem tryCurSpec_isChunk {k : Kind} {L : Layout} (hL : L.Valid) {r : (Nat × Nat) × State}
    (hs : tryCurSpec cfg k s L = some r) : ∃ i, s.cur = .chunk i := by
  apply Classical.byContradiction
  intro hn
  rw [tryCurSpec_dummy (fun i hi => hn ⟨i, hi⟩) k hL] at hs
  cases hs

/-- `alloc`: the block is aligned and lies on the free side of the old position; the new position is
    aligned for the minimum alignment, inside the content range, just past the block -/
theorem tryCurSpec_alloc_some (hc : CfgOK cfg) (h : GeomInv cfg s) {L : Layout} (hL : L.Valid)
    {v : Nat × Nat} {s' : State} (hs : tryCurSpec cfg .alloc s L = some (v, s')) :
    ∃ i c np, s.cur = .chunk i ∧ s.chunks[i]? = some c ∧ s' = setCurPos s np ∧
      c.contentStart cfg ≤ np ∧ np ≤ c.contentEnd cfg ∧ s.minAlign ∣ np ∧ L.align ∣ v.1 ∧ v.2 = 0 ∧
      (if cfg.up then c.pos ≤ v.1 ∧ v.1 + L.size ≤ np ∧ np < v.1 + L.size + s.minAlign ∧ c.pos ≤ np
       else np = v.1 ∧ v.1 + L.size ≤ c.pos ∧ np ≤ c.pos) := by
  obtain ⟨i, hcur⟩ := tryCurSpec_isChunk hL hs
  obtain ⟨c, hi, hw, hd⟩ := h.curChunk hcur
  refine ⟨i, c, ?_⟩
  obtain ⟨v1, v2⟩ := v
  unfold tryCurSpec at hs
  rw [freeRange_chunk hcur hi] at hs
  have hma := h.minAlign.pos
  cases hup : cfg.up
  · simp only [hup, Bool.false_eq_true, ↓reduceIte, Option.map_eq_some_iff, Prod.mk.injEq] at hs ⊢
    obtain ⟨p, hp, ⟨hv1, hv2⟩, hs'⟩ := hs
    have hdd : L.align ∣ s.minAlign ∨ s.minAlign ∣ L.align := hL.p2.dvd_or_dvd h.minAlign.p2
    obtain ⟨a1, a2, a3, a4, _⟩ := C11.bumpDown_some hL.pos hma hdd hp
    have := hw.pos_le
    refine ⟨p, hcur, hi, hs'.symm, a3, by omega, a2, by rw [← hv1]; exact a1, hv2.symm, by rw [← hv1], by rw [← hv1]; exact a4, by omega⟩
  · simp only [hup, ↓reduceIte, Option.map_eq_some_iff, Prod.mk.injEq] at hs ⊢
    obtain ⟨⟨ptr, np⟩, hp, ⟨hv1, hv2⟩, hs'⟩ := hs
    have hme : s.minAlign ∣ c.contentEnd cfg := h.minAlign.dvd_of_16 (hw.end16 hc)
    obtain ⟨a1, a2, a3, a4, a5, a6, _⟩ := C11.bumpUp_some hL.pos hma hme hp
    have := hw.pos_ge
    simp only at hv1 hs'
    refine ⟨np, hcur, hi, hs'.symm, by omega, a4, a5, by rw [← hv1]; exact a1, hv2.symm, by rw [← hv1]; exact a2,
      by rw [← hv1]; exact a3, by rw [← hv1]; exact a6, by omega⟩

/-- `prepare`: the state is untouched; the block is aligned and lies in the free range -/
theorem tryCurSpec_prepare_some (hc : CfgOK cfg) (h : GeomInv cfg s) {L : Layout} (hL : L.Valid)
    {v : Nat × Nat} {s' : State} (hs : tryCurSpec cfg .prepare s L = some (v, s')) :
    s' = s ∧ ∃ i c, s.cur = .chunk i ∧ s.chunks[i]? = some c ∧ L.align ∣ v.1 ∧ v.2 = 0 ∧
      (if cfg.up then c.pos ≤ v.1 ∧ v.1 + L.size ≤ c.contentEnd cfg
       else c.contentStart cfg ≤ v.1 ∧ v.1 + L.size ≤ c.pos) := by
  obtain ⟨i, hcur⟩ := tryCurSpec_isChunk hL hs
  obtain ⟨c, hi, hw, hd⟩ := h.curChunk hcur
  obtain ⟨v1, v2⟩ := v
  unfold tryCurSpec at hs
  rw [freeRange_chunk hcur hi] at hs
  have hma := h.minAlign.pos
  cases hup : cfg.up
  · simp only [hup, Bool.false_eq_true, ↓reduceIte, Option.map_eq_some_iff, Prod.mk.injEq] at hs ⊢
    obtain ⟨p, hp, ⟨hv1, hv2⟩, hs'⟩ := hs
    have hdd : L.align ∣ s.minAlign ∨ s.minAlign ∣ L.align := hL.p2.dvd_or_dvd h.minAlign.p2
    obtain ⟨a1, a2, a3, a4, _⟩ := C11.bumpDown_some hL.pos hma hdd hp
    exact ⟨hs'.symm, i, c, hcur, hi, by rw [← hv1]; exact a1, hv2.symm, by rw [← hv1]; exact a3, by rw [← hv1]; exact a4⟩
  · simp only [hup, ↓reduceIte, Option.map_eq_some_iff, Prod.mk.injEq] at hs ⊢
    obtain ⟨⟨ptr, np⟩, hp, ⟨hv1, hv2⟩, hs'⟩ := hs
    have hme : s.minAlign ∣ c.contentEnd cfg := h.minAlign.dvd_of_16 (hw.end16 hc)
    obtain ⟨a1, a2, a3, a4, a5, a6, _⟩ := C11.bumpUp_some hL.pos hma hme hp
    simp only at hv1
    exact ⟨hs'.symm, i, c, hcur, hi, by rw [← hv1]; exact a1, hv2.symm, by rw [← hv1]; exact a2, by rw [← hv1]; omega⟩

/-- `range`: the state is untouched -/
theorem tryCurSpec_range_state {L : Layout} {v : Nat × Nat} {s' : State}
    (hs : tryCurSpec cfg .range s L = some (v, s')) : s' = s := by
  unfold tryCurSpec at hs
  simp only [Option.map_eq_some_iff, Prod.mk.injEq] at hs
  obtain ⟨_, _, _, hs'⟩ := hs
  exact hs'.symm

/-- `range` (for `align ∣ size`): both ends aligned, inside the free range, large enough -/
theorem tryCurSpec_range_some (hc : CfgOK cfg) (h : GeomInv cfg s) {L : Layout} (hL : L.Valid) (hsz : L.align ∣ L.size)
    {v : Nat × Nat} {s' : State} (hs : tryCurSpec cfg .range s L = some (v, s')) :
    s' = s ∧ ∃ i c, s.cur = .chunk i ∧ s.chunks[i]? = some c ∧ L.align ∣ v.1 ∧ L.align ∣ v.2 ∧ v.1 + L.size ≤ v.2 ∧
      (if cfg.up then c.pos ≤ v.1 ∧ v.2 ≤ c.contentEnd cfg else c.contentStart cfg ≤ v.1 ∧ v.2 ≤ c.pos) := by
  refine ⟨tryCurSpec_range_state hs, ?_⟩
  obtain ⟨i, hcur⟩ := tryCurSpec_isChunk hL hs
  obtain ⟨c, hi, hw, hd⟩ := h.curChunk hcur
  unfold tryCurSpec at hs
  rw [freeRange_chunk hcur hi] at hs
  cases hup : cfg.up
  · simp only [hup, Bool.false_eq_true, ↓reduceIte, Option.map_eq_some_iff, Prod.mk.injEq] at hs ⊢
    obtain ⟨⟨a, b⟩, hp, hv, hs'⟩ := hs
    subst hv
    obtain ⟨a1, a2, a3, a4, a5, _⟩ := C11.prepareDown_some hL.pos hsz hp
    exact ⟨i, c, hcur, hi, a1, a2, a5, a3, a4⟩
  · simp only [hup, ↓reduceIte, Option.map_eq_some_iff, Prod.mk.injEq] at hs ⊢
    obtain ⟨⟨a, b⟩, hp, hv, hs'⟩ := hs
    subst hv
    obtain ⟨a1, a2, a3, a4, a5, _⟩ := C11.prepareUp_some hL.pos hsz hp
    exact ⟨i, c, hcur, hi, a1, a2, a5, a3, a4⟩

/-- whatever the kind, a successful `tryCur` preserves the invariant, the shape of the chunks,
    the current chunk, the minimum alignment and the pending responses -/
theorem tryCurSpec_inv (hc : CfgOK cfg) (h : GeomInv cfg s) {k : Kind} {L : Layout} (hL : L.Valid)
    {v : Nat × Nat} {s' : State} (hs : tryCurSpec cfg k s L = some (v, s')) :
    GeomInv cfg s' ∧ SameShape s s' ∧ s'.cur = s.cur ∧ s'.minAlign = s.minAlign ∧ s'.resps = s.resps ∧ s'.reqs = s.reqs := by
  cases k
  · obtain ⟨i, c, np, hcur, hi, hs', h1, h2, h3, _⟩ := tryCurSpec_alloc_some hc h hL hs
    subst hs'
    refine ⟨h.setCurPos hcur hi h1 h2 h3, setCurPos_shape _ _, setCurPos_cur _ _, setCurPos_minAlign _ _, setCurPos_resps _ _, ?_⟩
    unfold setCurPos; split <;> rfl
  · obtain ⟨hs', _⟩ := tryCurSpec_prepare_some hc h hL hs
    subst hs'
    exact ⟨h, SameShape.refl _, rfl, rfl, rfl, rfl⟩
  · have hs' := tryCurSpec_range_state hs
    subst hs'
    exact ⟨h, SameShape.refl _, rfl, rfl, rfl, rfl⟩

/-- a successful `tryCur` touches only the current chunk -/
theorem tryCurSpec_other (hc : CfgOK cfg) (h : GeomInv cfg s) {k : Kind} {L : Layout} (hL : L.Valid)
    {v : Nat × Nat} {s' : State} (hs : tryCurSpec cfg k s L = some (v, s')) {c : Nat} (hcur : s.cur = .chunk c)
    {j : Nat} (hj : j ≠ c) : s'.chunks[j]? = s.chunks[j]? := by
  cases k
  · obtain ⟨i, ci, np, hcur', hi, hs', _⟩ := tryCurSpec_alloc_some hc h hL hs
    rw [hcur] at hcur'; cases hcur'
    subst hs'
    unfold setCurPos
    rw [hcur, setPos_getElem?, if_neg (fun hx => hj hx.symm)]
  · obtain ⟨hs', _⟩ := tryCurSpec_prepare_some hc h hL hs
    rw [hs']
  · rw [tryCurSpec_range_state hs]

end
end Arena
