/-
  Lemmas/CtrlMem.lean — read-after-write for `writeRange` / `copyBytes` (needed by C15: the finalised
  slice holds the elements that were pushed).  Standing hypothesis `MemOk`: the chunks are pairwise
  disjoint address ranges and each carries exactly `size` bytes.
-/
import BumpProof.Lemmas.CtrlCommit

set_option linter.unusedVariables false
set_option linter.unusedSimpArgs false

namespace Ctrl
open Arena Rs Lemmas

structure MemOk (s : State) : Prop where
  disjoint : ∀ (j k : Nat) (cj ck : Chunk), s.chunks[j]? = some cj → s.chunks[k]? = some ck → j ≠ k →
    cj.base + cj.size ≤ ck.base ∨ ck.base + ck.size ≤ cj.base
  dataSize : ∀ (j : Nat) (c : Chunk), s.chunks[j]? = some c → c.data.size = c.size

/-- the byte at `a` is stored in the (unique) chunk that contains `a` -/
theorem readByte_of_get {s : State} (hm : MemOk s) {j : Nat} {c : Chunk} {a : Nat}
    (hj : s.chunks[j]? = some c) (h1 : c.base ≤ a) (h2 : a < c.base + c.size) :
    readByte s a = c.data.getD (a - c.base) 0 := by
  have hjl := lt_length_of_get' hj
  have hfind : s.chunks.find? (fun c => c.base ≤ a ∧ a < c.base + c.size) = some c := by
    rw [List.find?_eq_some_iff_getElem]
    refine ⟨by simp [h1, h2], j, hjl, ?_, fun k hk => ?_⟩
    · have := List.getElem?_eq_getElem hjl
      rw [hj] at this
      exact (Option.some.inj this).symm
    · have hkl : k < s.chunks.length := by omega
      have hkget := List.getElem?_eq_getElem hkl
      rcases hm.disjoint k j _ c hkget hj (by omega) with h | h
      · simp only [Bool.not_eq_eq_eq_not, Bool.not_true, decide_eq_false_iff_not]; omega
      · simp only [Bool.not_eq_eq_eq_not, Bool.not_true, decide_eq_false_iff_not]; omega
  unfold readByte
  rw [hfind]

theorem readByte_of_none {s : State} {a : Nat}
    (h : ∀ (j : Nat) (c : Chunk), s.chunks[j]? = some c → ¬ (c.base ≤ a ∧ a < c.base + c.size)) :
    readByte s a = 0 := by
  have hfind : s.chunks.find? (fun c => c.base ≤ a ∧ a < c.base + c.size) = none := by
    rw [List.find?_eq_none]
    intro c hc
    obtain ⟨j, hjl, hj⟩ := List.getElem_of_mem hc
    have := h j c (by rw [List.getElem?_eq_getElem hjl, hj])
    simpa using this
  unfold readByte
  rw [hfind]

theorem writeRange_read {cfg : Cfg} {s s' : State} {lo hi : Nat} {f : Nat → UInt8} (hm : MemOk s)
    (h : writeRange cfg s lo hi f = .ok s') (x : Nat) :
    readByte s' x = if lo ≤ x ∧ x < hi then f x else readByte s x := by
  unfold writeRange at h
  split at h
  · cases h
    rw [if_neg (by omega)]
  · rename_i hlohi
    split at h
    · cases h
    · rename_i i hfc
      split at h
      · cases h
      · rename_i c hget
        split at h
        · simp only [R_pure_eq, Except.ok.injEq] at h
          subst h
          -- chunk `i` contains `[lo, hi)`
          unfold findChunk at hfc
          rw [List.findIdx?_eq_some_iff_getElem] at hfc
          obtain ⟨hil, hpi, _⟩ := hfc
          have hci : s.chunks[i] = c := by
            have := List.getElem?_eq_getElem hil
            rw [hget] at this
            exact (Option.some.inj this).symm
          rw [hci] at hpi
          simp only [decide_eq_true_eq] at hpi
          obtain ⟨hb1, hb2⟩ := hpi
          -- the new chunk list
          generalize hD : (Array.ofFn (n := c.data.size) fun (k : Fin c.data.size) =>
            if lo ≤ c.base + k.val ∧ c.base + k.val < hi then f (c.base + k.val) else c.data.getD k.val 0) = D
          have hDget : ∀ k, k < c.data.size →
              D.getD k 0 = if lo ≤ c.base + k ∧ c.base + k < hi then f (c.base + k) else c.data.getD k 0 := by
            intro k hk
            rw [← hD, Array.getD_eq_getD_getElem?, Array.getElem?_ofFn, dif_pos hk]
            rfl
          have hget' : ∀ j : Nat, (s.chunks.modify i (fun c => { c with data := D }))[j]? =
              (fun a => if i = j then { a with data := D } else a) <$> s.chunks[j]? :=
            fun j => List.getElem?_modify _ _ _ _
          have hm' : MemOk { s with chunks := s.chunks.modify i (fun c => { c with data := D }) } := by
            constructor
            · intro j k cj ck hj hk hjk
              simp only [hget'] at hj hk
              cases hj0 : s.chunks[j]? with
              | none => rw [hj0] at hj; cases hj
              | some cj0 =>
                cases hk0 : s.chunks[k]? with
                | none => rw [hk0] at hk; cases hk
                | some ck0 =>
                  rw [hj0] at hj; rw [hk0] at hk
                  simp only [Option.map_eq_map, Option.map_some, Option.some.injEq] at hj hk
                  have := hm.disjoint j k cj0 ck0 hj0 hk0 hjk
                  subst hj; subst hk
                  split <;> split <;> exact this
            · intro j cj hj
              simp only [hget'] at hj
              cases hj0 : s.chunks[j]? with
              | none => rw [hj0] at hj; cases hj
              | some cj0 =>
                rw [hj0] at hj
                simp only [Option.map_eq_map, Option.map_some, Option.some.injEq] at hj
                subst hj
                split
                · rename_i hij
                  subst hij
                  rw [hget] at hj0
                  cases hj0
                  show D.size = c.size
                  rw [← hD, Array.size_ofFn]
                  exact hm.dataSize i c hget
                · exact hm.dataSize j cj0 hj0
          have hsz := hm.dataSize i c hget
          by_cases hex : ∃ (j : Nat) (cj : Chunk), s.chunks[j]? = some cj ∧ cj.base ≤ x ∧ x < cj.base + cj.size
          · obtain ⟨j, cj, hj, hx1, hx2⟩ := hex
            rw [readByte_of_get hm hj hx1 hx2]
            by_cases hij : i = j
            · subst hij
              rw [hget] at hj
              cases hj
              have hj' : ({ s with chunks := s.chunks.modify i (fun c => { c with data := D }) } : State).chunks[i]? =
                  some { c with data := D } := by
                show (s.chunks.modify i _)[i]? = _
                rw [hget', hget]; simp
              rw [readByte_of_get hm' hj' hx1 hx2]
              show D.getD (x - c.base) 0 = _
              rw [hDget _ (by omega)]
              have hxb : c.base + (x - c.base) = x := by omega
              rw [hxb]
            · have hj' : ({ s with chunks := s.chunks.modify i (fun c => { c with data := D }) } : State).chunks[j]? =
                  some cj := by
                show (s.chunks.modify i _)[j]? = _
                rw [hget', hj]; simp [hij]
              rw [readByte_of_get hm' hj' hx1 hx2]
              have := hm.disjoint i j c cj hget hj hij
              rw [if_neg (by omega)]
          · have hnone : ∀ (j : Nat) (cj : Chunk), s.chunks[j]? = some cj → ¬ (cj.base ≤ x ∧ x < cj.base + cj.size) :=
              fun j cj hj hx => hex ⟨j, cj, hj, hx.1, hx.2⟩
            have hxi := hnone i c hget
            rw [readByte_of_none hnone, if_neg (by omega)]
            apply readByte_of_none
            intro j cj hj
            show ¬ _
            change (s.chunks.modify i _)[j]? = _ at hj
            rw [hget'] at hj
            cases hj0 : s.chunks[j]? with
            | none => rw [hj0] at hj; cases hj
            | some cj0 =>
              rw [hj0] at hj
              simp only [Option.map_eq_map, Option.map_some, Option.some.injEq] at hj
              subst hj
              have := hnone j cj0 hj0
              split <;> exact this
        · cases h

theorem copyBytes_read {cfg : Cfg} {s s' : State} {src dst len : Nat} {no : Bool} (hm : MemOk s)
    (h : copyBytes cfg s src dst len no = .ok s') (x : Nat) :
    readByte s' x = if dst ≤ x ∧ x < dst + len then readByte s (src + (x - dst)) else readByte s x := by
  unfold copyBytes at h
  split at h
  · rename_i h0
    cases h
    rw [if_neg (by omega)]
  · split at h
    · cases h
    · split at h
      · cases h
      · exact writeRange_read hm h x

end Ctrl
