/-
  Lemmas/HistOpsGrow.lean — preservation of `Arena.Hist.Inv` by the `.grow` operation: a function-level
  post-condition of `Arena.grow` in the live-block world (`GrowPost`), then the assembly of `inv_grow`.
-/
import BumpProof.Lemmas.HistRealloc
set_option linter.unusedSimpArgs false
set_option linter.unusedVariables false
namespace Arena.Hist
open Rs Lemmas
variable {cfg : Cfg}

/-! ## survivors of a reallocation of the last block of the current chunk -/

/-- the live blocks other than `blk` that lie in the current chunk `c` are on the far side of `blk`, when `blk`
    is the last block of `c` (it touches the bump position) -/
theorem survivors_side {s : State} (hl : Mem.LiveOK cfg s) (hd : Mem.ChunksDisjoint s.chunks) {blk : Block}
    (hb : blk ∈ s.live) {i : Nat} {c : Chunk} (hcur : s.cur = .chunk i) (hc : s.chunks[i]? = some c)
    (hpos : if cfg.up then blk.addr + blk.size = c.pos else blk.addr = c.pos) :
    ∀ x ∈ s.live, (x.id != blk.id) = true → 0 < x.size → Mem.InContent cfg c x.addr x.size →
      if cfg.up then x.addr + x.size ≤ blk.addr else blk.addr + blk.size ≤ x.addr := by
  intro x hx hne hs hin
  have hxb : x ≠ blk := by
    intro e; subst e; simp at hne
  have hdj : Mem.BlocksDisjoint x blk :=
    Mem.pairwise_of_mem_ne (fun a b hab => Mem.BlocksDisjoint.symm hab) hl.disjoint hx hb hxb
  obtain ⟨i', j, cj, h1, h2, h3, h4, h5⟩ := hl.placed x hx hs
  have hii : i' = i := by rw [hcur] at h1; cases h1; rfl
  subst hii
  have hside : Mem.OnAllocatedSide cfg c x.addr x.size := by
    by_cases hji : j = i'
    · subst hji
      rw [hc] at h3; cases h3
      exact h5 rfl
    · exfalso
      have := Mem.inContent_disjoint_chunks hd hc h3 hji h4 hin
      unfold Mem.RangesDisjoint at this
      omega
  unfold Mem.OnAllocatedSide at hside
  unfold Mem.BlocksDisjoint at hdj
  cases hup : cfg.up
  · simp only [hup, Bool.false_eq_true, ↓reduceIte] at hside hpos ⊢; omega
  · simp only [hup, ↓reduceIte] at hside hpos ⊢; omega

/-- in-place reallocation of the last block `blk` of the current chunk: the new block `[p, p+size)` lies between
    the far end of `blk` and the new position `np` -/
theorem liveOK_regrow {s : State} (hl : Mem.LiveOK cfg s) (hd : Mem.ChunksDisjoint s.chunks) {blk : Block}
    (hb : blk ∈ s.live) {i : Nat} {c : Chunk} (hcur : s.cur = .chunk i) (hc : s.chunks[i]? = some c)
    (hpos : if cfg.up then blk.addr + blk.size = c.pos else blk.addr = c.pos) {p size np : Nat}
    (hgeo : if cfg.up then c.contentStart cfg ≤ blk.addr ∧ blk.addr ≤ p ∧ p + size ≤ np ∧ np ≤ c.contentEnd cfg
            else c.contentStart cfg ≤ np ∧ np ≤ p ∧ p + size ≤ blk.addr + blk.size ∧ blk.addr + blk.size ≤ c.contentEnd cfg) :
    Mem.LiveOK cfg (removeBlock (setCurPos s np) blk.id) ∧ Mem.Placed cfg (setCurPos s np) p size ∧
    ∀ x ∈ (removeBlock (setCurPos s np) blk.id).live, Mem.RangesDisjoint x.addr x.size p size := by
  have key := liveOK_recarve (cfg := cfg) (fun x => x.id != blk.id) (q := if cfg.up then blk.addr else blk.addr + blk.size)
    (p := p) (size := size) (np := np) hl hd hcur hc
    (by
      intro x hx hk hs hin
      have := survivors_side hl hd hb hcur hc hpos x hx hk hs hin
      cases hup : cfg.up
      · simp only [hup, Bool.false_eq_true, ↓reduceIte] at this ⊢; exact this
      · simp only [hup, ↓reduceIte] at this ⊢; exact this)
    (by
      cases hup : cfg.up
      · simp only [hup, Bool.false_eq_true, ↓reduceIte] at hgeo ⊢; exact hgeo
      · simp only [hup, ↓reduceIte] at hgeo ⊢; exact hgeo)
  rw [Mem.setCurPos_chunk hcur]
  obtain ⟨k1, k2, k3⟩ := key
  exact ⟨k1, placed_congr (s := { setPos s i np with live := s.live.filter (fun x => x.id != blk.id) }) rfl rfl k2, k3⟩

end Arena.Hist
