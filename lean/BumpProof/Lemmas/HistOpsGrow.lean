/-
  Lemmas/HistOpsGrow.lean — preservation of `Arena.Hist.Inv` by the `.grow` operation: a function-level
  post-condition of `Arena.grow` in the live-block world (`GrowPost`), then the assembly of `inv_grow`.
-/
import BumpProof.Lemmas.HistRealloc
set_option linter.unusedSimpArgs false
set_option linter.unusedVariables false
namespace Arena.Hist
open Rs Lemmas
variable {cfg : Cfg}

/-! ## survivors of a reallocation of the last block of the current chunk -/

/-- the live blocks other than `blk` that lie in the current chunk `c` are on the far side of `blk`, when `blk`
    is the last block of `c` (it touches the bump position) -/
theorem survivors_side {s : State} (hl : Mem.LiveOK cfg s) (hd : Mem.ChunksDisjoint s.chunks) {blk : Block}
    (hb : blk ∈ s.live) {i : Nat} {c : Chunk} (hcur : s.cur = .chunk i) (hc : s.chunks[i]? = some c)
    (hpos : if cfg.up then blk.addr + blk.size = c.pos else blk.addr = c.pos) :
    ∀ x ∈ s.live, (x.id != blk.id) = true → 0 < x.size → Mem.InContent cfg c x.addr x.size →
      if cfg.up then x.addr + x.size ≤ blk.addr else blk.addr + blk.size ≤ x.addr := by
  intro x hx hne hs hin
  have hxb : x ≠ blk := by
    intro e; subst e; simp at hne
  have hdj : Mem.BlocksDisjoint x blk :=
    Mem.pairwise_of_mem_ne (fun a b hab => Mem.BlocksDisjoint.symm hab) hl.disjoint hx hb hxb
  obtain ⟨i', j, cj, h1, h2, h3, h4, h5⟩ := hl.placed x hx hs
  have hii : i' = i := by rw [hcur] at h1; cases h1; rfl
  subst hii
  have hside : Mem.OnAllocatedSide cfg c x.addr x.size := by
    by_cases hji : j = i'
    · subst hji
      rw [hc] at h3; cases h3
      exact h5 rfl
    · exfalso
      have := Mem.inContent_disjoint_chunks hd hc h3 hji h4 hin
      unfold Mem.RangesDisjoint at this
      omega
  unfold Mem.OnAllocatedSide at hside
  unfold Mem.BlocksDisjoint at hdj
  cases hup : cfg.up
  · simp only [hup, Bool.false_eq_true, ↓reduceIte] at hside hpos ⊢; omega
  · simp only [hup, ↓reduceIte] at hside hpos ⊢; omega

/-- in-place reallocation of the last block `blk` of the current chunk: the new block `[p, p+size)` lies between
    the far end of `blk` and the new position `np` -/
theorem liveOK_regrow {s : State} (hl : Mem.LiveOK cfg s) (hd : Mem.ChunksDisjoint s.chunks) {blk : Block}
    (hb : blk ∈ s.live) {i : Nat} {c : Chunk} (hcur : s.cur = .chunk i) (hc : s.chunks[i]? = some c)
    (hpos : if cfg.up then blk.addr + blk.size = c.pos else blk.addr = c.pos) {p size np : Nat}
    (hgeo : if cfg.up then c.contentStart cfg ≤ blk.addr ∧ blk.addr ≤ p ∧ p + size ≤ np ∧ np ≤ c.contentEnd cfg
            else c.contentStart cfg ≤ np ∧ np ≤ p ∧ p + size ≤ blk.addr + blk.size ∧ blk.addr + blk.size ≤ c.contentEnd cfg) :
    Mem.LiveOK cfg (removeBlock (setCurPos s np) blk.id) ∧ Mem.Placed cfg (setCurPos s np) p size ∧
    ∀ x ∈ (removeBlock (setCurPos s np) blk.id).live, Mem.RangesDisjoint x.addr x.size p size := by
  have key := liveOK_recarve (cfg := cfg) (fun x => x.id != blk.id) (q := if cfg.up then blk.addr else blk.addr + blk.size)
    (p := p) (size := size) (np := np) hl hd hcur hc
    (by
      intro x hx hk hs hin
      have := survivors_side hl hd hb hcur hc hpos x hx hk hs hin
      cases hup : cfg.up
      · simp only [hup, Bool.false_eq_true, ↓reduceIte] at this ⊢; exact this
      · simp only [hup, ↓reduceIte] at this ⊢; exact this)
    (by
      cases hup : cfg.up
      · simp only [hup, Bool.false_eq_true, ↓reduceIte] at hgeo ⊢; exact hgeo
      · simp only [hup, ↓reduceIte] at hgeo ⊢; exact hgeo)
  rw [Mem.setCurPos_chunk hcur]
  obtain ⟨k1, k2, k3⟩ := key
  exact ⟨k1, placed_congr (s := { setPos s i np with live := s.live.filter (fun x => x.id != blk.id) }) rfl rfl k2, k3⟩

/-! ## the post-condition of `grow` in the live-block world -/

/-- what `grow` of the live block `blk` to layout `L`, ending in `s'` with result `r`, establishes -/
structure GrowPost (cfg : Cfg) (s s' : State) (blk : Block) (L : Layout) (r : Except AErr Nat) : Prop where
  stable : Stable s s'
  curKind : s'.cur = s.cur ∨ ∃ j, s'.cur = .chunk j
  unalloc : s'.cur = .unallocated → s.cur = .unallocated ∧ SameShape s s'
  /-- a refused request: every live block (also `blk`) stays fine -/
  err : ∀ e, r = .error e → Mem.LiveOK cfg s'
  /-- success: the new block is aligned, placed, and disjoint from every live block but `blk` -/
  ok : ∀ np, r = .ok np → L.align ∣ np ∧ (∃ j, s'.cur = .chunk j) ∧ Mem.LiveOK cfg (removeBlock s' blk.id) ∧
    (0 < L.size → Mem.Placed cfg s' np L.size) ∧
    ∀ x ∈ (removeBlock s' blk.id).live, Mem.RangesDisjoint x.addr x.size np L.size

/-- the `moveTo` continuation of `grow` after an allocation path -/
theorem moveTo_hist {s s1 s' : State} (hl : Mem.LiveOK cfg s) {blk : Block} {L : Layout}
    {r1' : Except AErr (Nat × Nat)} {r1 r : Except AErr Nat} (p : AllocPost cfg .alloc L s s1 r1')
    (hr1 : r1 = r1'.map (·.1))
    (he : (match (s1, r1) with
      | (s', Except.error e) => (pure (s', Except.error e) : R (State × Except AErr Nat))
      | (s', Except.ok np) => do
        let s'' ← copyBytes cfg s' blk.addr np blk.size true
        pure (s'', Except.ok np)) = .ok (s', r)) : GrowPost cfg s s' blk L r := by
  cases r1' with
  | error e =>
    simp only [Except.map] at hr1
    subst hr1
    cases he
    exact ⟨p.stable, p.curKind, p.unalloc, fun _ _ => p.live hl, fun np hnp => by cases hnp⟩
  | ok v =>
    simp only [Except.map] at hr1
    subst hr1
    obtain ⟨s2, h1, h2⟩ := bind_eq_ok he
    cases h2
    have ho := Mem.copyBytes_onlyData h1
    have hcur2 : s'.cur = s1.cur := by rw [ho.1]
    obtain ⟨j, hj⟩ := p.cur_ok v rfl
    have out : Mem.AllocOutcome cfg s' v.1 L.size := (p.outcome rfl v rfl hl).of_onlyData ho
    refine ⟨p.stable.trans (Stable.of_onlyData ho), Or.inr ⟨j, hcur2.trans hj⟩, ?_, (fun e he' => by cases he'), ?_⟩
    · intro hu
      rw [hcur2, hj] at hu; cases hu
    · intro np hnp
      cases hnp
      exact ⟨p.found v rfl, ⟨j, hcur2.trans hj⟩, out.live.removeBlock _, fun _ => out.placed,
        fun x hx => out.disj x (mem_filter_sub hx)⟩

/-- `grow` seen from the live-block world, all paths -/
theorem grow_hist (hc : CfgOK cfg) {s : State} (h : GeomInv cfg s) (hr : RespsOK cfg s) (hd : ChunksDisjoint s)
    (hf : RespsFresh s) (hl : Mem.LiveOK cfg s) {blk : Block} (hb : blk ∈ s.live) {newL : Layout} (hL : newL.Valid)
    (hbc : isLast cfg s blk.addr blk.size = true → BlockInCur cfg s blk.addr blk.size)
    {s' : State} {r : Except AErr Nat} (he : grow cfg s blk.addr blk.size newL = .ok (s', r)) :
    GrowPost cfg s s' blk newL r := by
  unfold grow at he
  obtain ⟨_, hassert, he⟩ := bind_eq_ok he
  have hsz : blk.size ≤ newL.size := by
    have := liftM_eq_ok hassert
    unfold Rs.assert at this
    split at this
    · simpa using ‹decide (newL.size ≥ blk.size) = true›
    · cases this
  simp only at he
  have hslow : ∀ {s' r}, (inAnotherChunk cfg Kind.alloc s newL Hints.custom >>= fun x =>
      match x with
      | (s1, r1) => (match (s1, Except.map (fun x => x.fst) r1) with
        | (s', Except.error e) => (pure (s', Except.error e) : R (State × Except AErr Nat))
        | (s', Except.ok np) => do
          let s'' ← copyBytes cfg s' blk.addr np blk.size true
          pure (s'', Except.ok np))) = .ok (s', r) → GrowPost cfg s s' blk newL r := by
    intro s' r he
    obtain ⟨⟨s1, r1⟩, h1, h2⟩ := bind_eq_ok he
    have p := inAnotherChunk_post hc h hr hd hf .alloc hL (custom_truthful newL) (fun hx => by cases hx) h1
    exact moveTo_hist hl p rfl h2
  have halloc : ∀ {s' r}, (alloc cfg s newL >>= fun x =>
      (match x with
        | (s', Except.error e) => (pure (s', Except.error e) : R (State × Except AErr Nat))
        | (s', Except.ok np) => do
          let s'' ← copyBytes cfg s' blk.addr np blk.size true
          pure (s'', Except.ok np))) = .ok (s', r) → GrowPost cfg s s' blk newL r := by
    intro s' r he
    obtain ⟨⟨s1, r1⟩, h1, h2⟩ := bind_eq_ok he
    obtain ⟨r', hr', p⟩ := alloc_post hc h hr hd hf hL h1
    exact moveTo_hist hl p hr' h2
  split at he
  · -- upwards
    rename_i hup
    split at he
    · rename_i hcond
      simp only [Bool.and_eq_true] at hcond
      split at he
      · cases he
      · rename_i c hcc
        obtain ⟨i, hcur, hi⟩ := curChunk?_eq_some hcc
        have hw := h.chunks i c hi
        obtain ⟨rem, h1, he⟩ := bind_eq_ok he
        split at he
        · rename_i hle
          obtain ⟨t, h2, he⟩ := bind_eq_ok he
          obtain ⟨np, h3, he⟩ := bind_eq_ok he
          cases he
          have h1' := liftM_eq_ok h1
          have h2' := liftM_eq_ok h2
          have h3' := liftM_eq_ok h3
          unfold Rs.sub at h1'
          split at h1'
          · cases h1'
            unfold Rs.add at h2'
            split at h2'
            · cases h2'
              obtain ⟨j, c2, hcur2, hi2, hb1, hb2, hb3⟩ := hbc hcond.1
              rw [hcur] at hcur2; cases hcur2
              rw [hi] at hi2; cases hi2
              have hend := hw.end_lt64
              have h16 := hw.end16 hc
              have hm := h.minAlign
              have hmle := hm.le
              rw [up_align_usize_unchecked_eq hm.p2 hm.lt64 (by rw [two_pow_64] at hend ⊢; omega)] at h3'
              cases h3'
              have hup1 : blk.addr + newL.size ≤ Spec.upAlign (blk.addr + newL.size) s.minAlign := le_upAlign _ hm.pos
              have hup2 : Spec.upAlign (blk.addr + newL.size) s.minAlign ≤ c.contentEnd cfg :=
                upAlign_le_of_dvd hm.pos (hm.dvd_of_16 h16) (by omega)
              have hpos := isLast_pos hcond.1 hcur hi
              obtain ⟨k1, k2, k3⟩ := liveOK_regrow (p := blk.addr) (size := newL.size)
                (np := Spec.upAlign (blk.addr + newL.size) s.minAlign) hl ((disjoint_iff s).mp hd) hb hcur hi hpos
                (by simp only [hup, ↓reduceIte]; omega)
              refine ⟨Stable.setCurPos _ _, Or.inl (setCurPos_cur _ _), ?_, (fun e he' => by cases he'), ?_⟩
              · intro hu
                rw [setCurPos_cur, hcur] at hu; cases hu
              · intro np hnp
                cases hnp
                exact ⟨alignFits_dvd hcond.2, ⟨i, (setCurPos_cur _ _).trans hcur⟩, k1, fun _ => k2, k3⟩
            · cases h2'
          · cases h1'
        · exact hslow he
    · exact halloc he
  · -- downwards
    rename_i hup
    split at he
    · rename_i hlast
      split at he
      · cases he
      · rename_i c hcc
        obtain ⟨i, hcur, hi⟩ := curChunk?_eq_some hcc
        have hw := h.chunks i c hi
        obtain ⟨add, h1, he⟩ := bind_eq_ok he
        obtain ⟨newAddr, h2, he⟩ := bind_eq_ok he
        split at he
        · rename_i hge
          obtain ⟨newEnd, h3, he⟩ := bind_eq_ok he
          obtain ⟨s1, h4, he⟩ := bind_eq_ok he
          cases he
          have h1' := liftM_eq_ok h1
          have h2' := liftM_eq_ok h2
          have hpos := isLast_pos hlast hcur hi
          obtain ⟨j, c2, hcur2, hi2, hb1, hb2, hb3⟩ := hbc hlast
          rw [hcur] at hcur2; cases hcur2
          rw [hi] at hi2; cases hi2
          have hm := h.minAlign
          have hp2 : P2 (Rs.max newL.align s.minAlign) := by rw [rs_max_eq]; exact hL.p2.max hm.p2
          have hlt : Rs.max newL.align s.minAlign < 2 ^ 64 := by
            rw [rs_max_eq, Lemmas.Size.natmax]
            have := hL.lt64; have := hm.lt64; omega
          have hend := hw.end_lt64
          have hple := hw.pos_le
          have hsp := hw.start_pos
          unfold Rs.sub at h1'
          split at h1'
          · cases h1'
            have hpos' : blk.addr = c.pos := by simpa only [hup, Bool.false_eq_true, ↓reduceIte] using hpos
            rw [lib_bump_down_eq hp2 hlt (by omega)] at h2'
            cases h2'
            have hle : Spec.downAlign (blk.addr - (newL.size - blk.size)) (Rs.max newL.align s.minAlign)
                ≤ blk.addr - (newL.size - blk.size) := downAlign_le _ _
            have hdvd : newL.align ∣ Spec.downAlign (blk.addr - (newL.size - blk.size)) (Rs.max newL.align s.minAlign) := by
              rw [rs_max_eq]
              exact Nat.dvd_trans (dvd_max_left hL.p2 hm.p2) (downAlign_dvd _ _)
            -- the state after the copy
            have ho := Mem.copyBytes_onlyData h4
            have hgs := copyBytes_geom h4
            have hl1 : Mem.LiveOK cfg s1 := hl.of_onlyData ho
            have hd1 : Mem.ChunksDisjoint s1.chunks := (disjoint_iff s1).mp (hgs.shape.disjoint hd)
            have hlive1 : s1.live = s.live := by rw [ho.1]
            have hcur1 : s1.cur = s.cur := hgs.cur
            obtain ⟨c', hi', hgeo⟩ := Mem.getElem?_geom ho.2 hi
            have e1 : c'.base = c.base := congrArg (·.1) hgeo
            have e2 : c'.size = c.size := congrArg (·.2.1) hgeo
            have e3 : c'.pos = c.pos := congrArg (·.2.2.1) hgeo
            have es : c'.contentStart cfg = c.contentStart cfg := contentStart_same e1
            have ee : c'.contentEnd cfg = c.contentEnd cfg := contentEnd_same e1 e2
            obtain ⟨k1, k2, k3⟩ := liveOK_regrow
              (p := Spec.downAlign (blk.addr - (newL.size - blk.size)) (Rs.max newL.align s.minAlign)) (size := newL.size)
              (np := Spec.downAlign (blk.addr - (newL.size - blk.size)) (Rs.max newL.align s.minAlign)) hl1 hd1
              (hlive1 ▸ hb) (hcur1.trans hcur) hi'
              (by simp only [hup, Bool.false_eq_true, ↓reduceIte]; rw [e3]; exact hpos')
              (by simp only [hup, Bool.false_eq_true, ↓reduceIte]; rw [es, ee]; omega)
            refine ⟨(Stable.of_onlyData ho).trans (Stable.setCurPos _ _),
              Or.inl ((setCurPos_cur _ _).trans hcur1), ?_, (fun e he' => by cases he'), ?_⟩
            · intro hu
              rw [setCurPos_cur, hcur1, hcur] at hu; cases hu
            · intro np hnp
              cases hnp
              exact ⟨hdvd, ⟨i, (setCurPos_cur _ _).trans (hcur1.trans hcur)⟩, k1, fun _ => k2, k3⟩
          · rename_i hn; exact absurd hsz hn
        · exact hslow he
    · exact halloc he

/-! ## the `.grow` operation -/

/-- a refused `grow`: nothing happens to the ghost state -/
theorem inv_grow_error {g : GState} (h : Inv cfg g) (hr : RespsOK cfg g.s) (hf : RespsFresh g.s) {blk : Block}
    (hb : blk ∈ g.s.live) {L : Layout} (hL : L.Valid) (hp : g.s.prepared = none) {s1 : State} {e : AErr}
    (hgrow : grow cfg g.s blk.addr blk.size L = .ok (s1, .error e)) : Inv cfg ⟨s1, g.marks⟩ := by
  have hbc := h.blockInCur' hb
  obtain ⟨g1, g2, g3⟩ := C10.grow_inv h.cfgOK h.geom hr hL hbc hgrow
  obtain ⟨d1, d2⟩ := C10.trace_disjoint (C10.grow_trace h.cfgOK h.geom hr hL hbc hgrow) h.disj hf
  have gp := grow_hist h.cfgOK h.geom hr h.disj hf h.live hb hL hbc hgrow
  exact inv_of_stable h hp g1 d1 g3 gp.stable gp.unalloc gp.curKind (gp.err e rfl)

/-- a successful `grow`, optionally followed by zeroing a range, then the ghost reallocation `blk ↦ [np, np+L.size)` -/
theorem inv_grow_success {g : GState} (h : Inv cfg g) (hr : RespsOK cfg g.s) (hf : RespsFresh g.s) {blk : Block}
    (hb : blk ∈ g.s.live) {L : Layout} (hL : L.Valid) (hp : g.s.prepared = none) {s1 s2 : State} {np : Nat}
    (hgrow : grow cfg g.s blk.addr blk.size L = .ok (s1, .ok np)) {z : Bool} {p n init : Nat}
    (hz : (if z then zeroRange cfg s1 p n else pure s1) = .ok s2) :
    Inv cfg ⟨(addBlock (removeBlock s2 blk.id) np L.size L.align init).1, g.marks⟩ := by
  have hbc := h.blockInCur' hb
  obtain ⟨g1, g2, g3⟩ := C10.grow_inv h.cfgOK h.geom hr hL hbc hgrow
  obtain ⟨d1, d2⟩ := C10.trace_disjoint (C10.grow_trace h.cfgOK h.geom hr hL hbc hgrow) h.disj hf
  have gp := grow_hist h.cfgOK h.geom hr h.disj hf h.live hb hL hbc hgrow
  obtain ⟨a1, ⟨j, hj⟩, a3, a4, a5⟩ := gp.ok np rfl
  obtain ⟨ho, hgz, hsh⟩ := zero_or_id_onlyData hz
  have e := ho.1
  have hcur2 : s2.cur = s1.cur := by rw [e]
  have hma2 : s2.minAlign = s1.minAlign := by rw [e]
  have hlive2 : s2.live = s1.live := by rw [e]
  have hl2 : Mem.LiveOK cfg (removeBlock s2 blk.id) :=
    Mem.LiveOK.of_geom (s := removeBlock s1 blk.id) (s' := removeBlock s2 blk.id) ho.2 hcur2
      (by show s2.live.filter _ = s1.live.filter _; rw [hlive2]) a3
  have hI : Inv cfg ⟨removeBlock s2 blk.id, g.marks⟩ :=
    inv_of_stable_drop h blk.id hp (hgz g1) (hsh.disjoint d1) (hma2.trans g3)
      (gp.stable.trans (Stable.of_onlyData ho))
      (fun hu => by rw [hcur2, hj] at hu; cases hu) (Or.inr ⟨j, hcur2.trans hj⟩) hl2
  have hl3 : Mem.LiveOK cfg (addBlock (removeBlock s2 blk.id) np L.size L.align init).1 := by
    refine liveOK_addBlock_of hl2 init a1 ?_ ?_
    · intro hs
      exact Mem.Placed.of_geom (s := s1) (s' := removeBlock s2 blk.id) ho.2 hcur2 (a4 hs)
    · intro x hx
      apply a5 x
      show x ∈ s1.live.filter _
      rw [← hlive2]; exact hx
  exact Inv.withBlock (g := ⟨removeBlock s2 blk.id, g.marks⟩) hI hl3 ⟨j, hcur2.trans hj⟩ hL.1

theorem inv_grow {g g' : GState} {out : Out} {b : Nat} {L : Layout} {z : Bool} {via : Via} (h : Inv cfg g)
    (hr : RespsOK cfg g.s) (hf : RespsFresh g.s)
    (hs : stepCore cfg g (.grow b L z via) = .ok (g', out)) : Inv cfg g' := by
  unfold stepCore at hs
  simp only [bind, Except.bind, pure, Except.pure] at hs
  split at hs
  · cases hs
  · rename_i u hu
    have hL := validLayout_valid hu
    split at hs
    · cases hs
    · rename_i u2 hu2
      have hp := noPrepared_ok hu2
      split at hs
      · cases hs
      · rename_i blk hblk
        obtain ⟨hb, hid⟩ := Mem.findBlock_ok hblk
        subst hid
        split at hs
        · cases hs
        · split at hs
          · cases hs
          · rename_i x hx
            obtain ⟨s1, r1⟩ := x
            cases r1 with
            | error e =>
              simp only at hs
              cases hs
              exact inv_grow_error h hr hf hb hL hp hx
            | ok np =>
              simp only at hs
              cases z
              · simp only [Bool.false_eq_true, ↓reduceIte] at hs
                cases hs
                exact inv_grow_success (z := false) (p := 0) (n := 0) h hr hf hb hL hp hx rfl
              · simp only [↓reduceIte] at hs
                split at hs
                · cases hs
                · rename_i s2 hs2
                  cases hs
                  exact inv_grow_success (z := true) h hr hf hb hL hp hx hs2

end Arena.Hist
