/-
  Lemmas/HistOpsGrow.lean — preservation of `Arena.Hist.Inv` by the `.grow` operation: a function-level
  post-condition of `Arena.grow` in the live-block world (`GrowPost`), then the assembly of `inv_grow`.
-/
import BumpProof.Lemmas.HistRealloc
set_option linter.unusedSimpArgs false
set_option linter.unusedVariables false
namespace Arena.Hist
open Rs Lemmas
variable {cfg : Cfg}

/-! ## survivors of a reallocation of the last block of the current chunk -/

/-- the live blocks other than `blk` that lie in the current chunk `c` are on the far side of `blk`, when `blk`
    is the last block of `c` (it touches the bump position) -/
theorem survivors_side {s : State} (hl : Mem.LiveOK cfg s) (hd : Mem.ChunksDisjoint s.chunks) {blk : Block}
    (hb : blk ∈ s.live) {i : Nat} {c : Chunk} (hcur : s.cur = .chunk i) (hc : s.chunks[i]? = some c)
    (hpos : if cfg.up then blk.addr + blk.size = c.pos else blk.addr = c.pos) :
    ∀ x ∈ s.live, (x.id != blk.id) = true → 0 < x.size → Mem.InContent cfg c x.addr x.size →
      if cfg.up then x.addr + x.size ≤ blk.addr else blk.addr + blk.size ≤ x.addr := by
  intro x hx hne hs hin
  have hxb : x ≠ blk := by
    intro e; subst e; simp at hne
  have hdj : Mem.BlocksDisjoint x blk :=
    Mem.pairwise_of_mem_ne (fun a b hab => Mem.BlocksDisjoint.symm hab) hl.disjoint hx hb hxb
  obtain ⟨i', j, cj, h1, h2, h3, h4, h5⟩ := hl.placed x hx hs
  have hii : i' = i := by rw [hcur] at h1; cases h1; rfl
  subst hii
  have hside : Mem.OnAllocatedSide cfg c x.addr x.size := by
    by_cases hji : j = i'
    · subst hji
      rw [hc] at h3; cases h3
      exact h5 rfl
    · exfalso
      have := Mem.inContent_disjoint_chunks hd hc h3 hji h4 hin
      unfold Mem.RangesDisjoint at this
      omega
  unfold Mem.OnAllocatedSide at hside
  unfold Mem.BlocksDisjoint at hdj
  cases hup : cfg.up
  · simp only [hup, Bool.false_eq_true, ↓reduceIte] at hside hpos ⊢; omega
  · simp only [hup, ↓reduceIte] at hside hpos ⊢; omega

/-- in-place reallocation of the last block `blk` of the current chunk: the new block `[p, p+size)` lies between
    the far end of `blk` and the new position `np` -/
theorem liveOK_regrow {s : State} (hl : Mem.LiveOK cfg s) (hd : Mem.ChunksDisjoint s.chunks) {blk : Block}
    (hb : blk ∈ s.live) {i : Nat} {c : Chunk} (hcur : s.cur = .chunk i) (hc : s.chunks[i]? = some c)
    (hpos : if cfg.up then blk.addr + blk.size = c.pos else blk.addr = c.pos) {p size np : Nat}
    (hgeo : if cfg.up then c.contentStart cfg ≤ blk.addr ∧ blk.addr ≤ p ∧ p + size ≤ np ∧ np ≤ c.contentEnd cfg
            else c.contentStart cfg ≤ np ∧ np ≤ p ∧ p + size ≤ blk.addr + blk.size ∧ blk.addr + blk.size ≤ c.contentEnd cfg) :
    Mem.LiveOK cfg (removeBlock (setCurPos s np) blk.id) ∧ Mem.Placed cfg (setCurPos s np) p size ∧
    ∀ x ∈ (removeBlock (setCurPos s np) blk.id).live, Mem.RangesDisjoint x.addr x.size p size := by
  have key := liveOK_recarve (cfg := cfg) (fun x => x.id != blk.id) (q := if cfg.up then blk.addr else blk.addr + blk.size)
    (p := p) (size := size) (np := np) hl hd hcur hc
    (by
      intro x hx hk hs hin
      have := survivors_side hl hd hb hcur hc hpos x hx hk hs hin
      cases hup : cfg.up
      · simp only [hup, Bool.false_eq_true, ↓reduceIte] at this ⊢; exact this
      · simp only [hup, ↓reduceIte] at this ⊢; exact this)
    (by
      cases hup : cfg.up
      · simp only [hup, Bool.false_eq_true, ↓reduceIte] at hgeo ⊢; exact hgeo
      · simp only [hup, ↓reduceIte] at hgeo ⊢; exact hgeo)
  rw [Mem.setCurPos_chunk hcur]
  obtain ⟨k1, k2, k3⟩ := key
  exact ⟨k1, placed_congr (s := { setPos s i np with live := s.live.filter (fun x => x.id != blk.id) }) rfl rfl k2, k3⟩

/-! ## the post-condition of `grow` in the live-block world -/

/-- what `grow` of the live block `blk` to layout `L`, ending in `s'` with result `r`, establishes -/
structure GrowPost (cfg : Cfg) (s s' : State) (blk : Block) (L : Layout) (r : Except AErr Nat) : Prop where
  stable : Stable s s'
  curKind : s'.cur = s.cur ∨ ∃ j, s'.cur = .chunk j
  unalloc : s'.cur = .unallocated → s.cur = .unallocated ∧ SameShape s s'
  /-- a refused request: every live block (also `blk`) stays fine -/
  err : ∀ e, r = .error e → Mem.LiveOK cfg s'
  /-- success: the new block is aligned, placed, and disjoint from every live block but `blk` -/
  ok : ∀ np, r = .ok np → L.align ∣ np ∧ (∃ j, s'.cur = .chunk j) ∧ Mem.LiveOK cfg (removeBlock s' blk.id) ∧
    (0 < L.size → Mem.Placed cfg s' np L.size) ∧
    ∀ x ∈ (removeBlock s' blk.id).live, Mem.RangesDisjoint x.addr x.size np L.size

/-- the `moveTo` continuation of `grow` after an allocation path -/
theorem moveTo_hist {s s1 s' : State} (hl : Mem.LiveOK cfg s) {blk : Block} {L : Layout}
    {r1' : Except AErr (Nat × Nat)} {r1 r : Except AErr Nat} (p : AllocPost cfg .alloc L s s1 r1')
    (hr1 : r1 = r1'.map (·.1))
    (he : (match (s1, r1) with
      | (s', Except.error e) => (pure (s', Except.error e) : R (State × Except AErr Nat))
      | (s', Except.ok np) => do
        let s'' ← copyBytes cfg s' blk.addr np blk.size true
        pure (s'', Except.ok np)) = .ok (s', r)) : GrowPost cfg s s' blk L r := by
  cases r1' with
  | error e =>
    simp only [Except.map] at hr1
    subst hr1
    cases he
    exact ⟨p.stable, p.curKind, p.unalloc, fun _ _ => p.live hl, fun np hnp => by cases hnp⟩
  | ok v =>
    simp only [Except.map] at hr1
    subst hr1
    obtain ⟨s2, h1, h2⟩ := bind_eq_ok he
    cases h2
    have ho := Mem.copyBytes_onlyData h1
    have hcur2 : s'.cur = s1.cur := by rw [ho.1]
    obtain ⟨j, hj⟩ := p.cur_ok v rfl
    have out : Mem.AllocOutcome cfg s' v.1 L.size := (p.outcome rfl v rfl hl).of_onlyData ho
    refine ⟨p.stable.trans (Stable.of_onlyData ho), Or.inr ⟨j, hcur2.trans hj⟩, ?_, (fun e he' => by cases he'), ?_⟩
    · intro hu
      rw [hcur2, hj] at hu; cases hu
    · intro np hnp
      cases hnp
      exact ⟨p.found v rfl, ⟨j, hcur2.trans hj⟩, out.live.removeBlock _, fun _ => out.placed,
        fun x hx => out.disj x (mem_filter_sub hx)⟩

end Arena.Hist
