/-
  Lemmas/Hist2Prep.lean — the life of an exclusive-borrow collection in a history: any number of `prepare` /
  `prepareSlice` (creation, growth) / `fillPrepared` steps keep the positions of all chunks up to the one that
  was current at the start, the live blocks and their bytes.
-/
import BumpProof.Lemmas.Hist2Frames
import BumpProof.Lemmas.Hist2Run
import BumpProof.Props.C15

set_option linter.unusedSimpArgs false
set_option linter.unusedVariables false

namespace Arena
/-- the operations of an unfinished exclusive-borrow collection / `prepare_allocation`: create, grow, fill -/
def Op.isPrepFill : Op → Bool
  | .prepare _ => true
  | .prepareSlice _ _ _ _ => true
  | .fillPrepared _ _ => true
  | _ => false
end Arena

namespace Arena.Hist
open Rs Ledger

variable {cfg : Cfg}

/-- relative to a start state `s` whose current chunk was `i`: positions of chunks `≤ i`, live blocks, regions and
    minimum alignment are the same; every chunk is still in place; the current chunk is `i` or a later one -/
structure PrepKept (i : Nat) (s s' : State) : Prop where
  pos : ∀ j, j ≤ i → (s'.chunks[j]?).map (·.pos) = (s.chunks[j]?).map (·.pos)
  live : s'.live = s.live
  frames : s'.frames = s.frames
  minAlign : s'.minAlign = s.minAlign
  cov : ChunksCov s s'
  cur : ∃ j, i ≤ j ∧ s'.cur = .chunk j

theorem PrepKept.refl {i : Nat} {s : State} (h : s.cur = .chunk i) : PrepKept i s s :=
  ⟨fun _ _ => rfl, rfl, rfl, rfl, ChunksCov.refl s, i, Nat.le_refl i, h⟩

theorem PrepKept.of_effect {i : Nat} {s s' : State} (h : C15.PrepareEffect cfg i s s') : PrepKept i s s' := by
  refine ⟨fun j hj => by rw [h.upto j hj], h.live, h.frames, h.minAlign, fun j c hc => ?_, ?_⟩
  · obtain ⟨c', h1, h2, h3, _⟩ := h.later j c hc
    exact ⟨c', h1, h2, h3⟩
  · obtain ⟨j, h1, h2, _⟩ := h.cur
    exact ⟨j, h1, h2⟩

theorem PrepKept.trans {i j : Nat} {a b c : State} (h1 : PrepKept i a b) (hcur : b.cur = .chunk j)
    (h2 : PrepKept j b c) : PrepKept i a c := by
  obtain ⟨j', hij, hj'⟩ := h1.cur
  have : j' = j := by rw [hcur] at hj'; cases hj'; rfl
  subst this
  refine ⟨fun k hk => (h2.pos k (Nat.le_trans hk hij)).trans (h1.pos k hk), h2.live.trans h1.live,
    h2.frames.trans h1.frames, h2.minAlign.trans h1.minAlign, h1.cov.trans h2.cov, ?_⟩
  obtain ⟨k, hk1, hk2⟩ := h2.cur
  exact ⟨k, Nat.le_trans hij hk1, hk2⟩

theorem fillPrepared_form {g g' : GState} {out : Out} {len seed : Nat}
    (hs : stepCore cfg g (.fillPrepared len seed) = .ok (g', out)) :
    ∃ lo hi f s', writeRange cfg g.s lo hi f = .ok s' ∧ g' = { g with s := s' } := by
  fs_op hs
  exact ⟨_, _, _, _, by assumption, rfl⟩

theorem abandonPrepared_form {g g' : GState} {out : Out}
    (hs : stepCore cfg g .abandonPrepared = .ok (g', out)) : g' = { g with s := { g.s with prepared := none } } := by
  fs_op hs
  rfl

/-- one step of the collection's life -/
theorem prepKept_stepCore {g g' : GState} {op : Op} {out : Out} {i : Nat} {c : Chunk}
    (hcur : g.s.cur = .chunk i) (hget : g.s.chunks[i]? = some c) (hop : op.isPrepFill = true)
    (hs : stepCore cfg g op = .ok (g', out)) : PrepKept i g.s g'.s ∧ g'.marks = g.marks := by
  cases op <;> simp only [Op.isPrepFill] at hop <;> try (cases hop; done)
  case prepare L =>
    obtain ⟨h1, h2⟩ := C15.step_prepare_effect cfg g g' L out i c hcur hget hs
    exact ⟨PrepKept.of_effect h1, h2⟩
  case prepareSlice esize ealign minCap rev =>
    obtain ⟨h1, h2⟩ := C15.step_prepareSlice_effect cfg g g' esize ealign minCap rev out i c hcur hget hs
    exact ⟨PrepKept.of_effect h1, h2⟩
  case fillPrepared len seed =>
    obtain ⟨lo, hi, f, s', hw, rfl⟩ := fillPrepared_form hs
    have ho := Mem.writeRange_onlyData hw
    obtain ⟨e1, e2⟩ := ho
    refine ⟨⟨fun j _ => ?_, by rw [e1], by rw [e1], by rw [e1], ChunksCov.of_geom e2, i, Nat.le_refl i, by rw [e1]; exact hcur⟩, rfl⟩
    obtain ⟨_, hpos⟩ := C15.step_fillPrepared_positions cfg g _ len seed out hs j
    exact (C15.step_fillPrepared_positions cfg g _ len seed out hs j).1

/-- every operation of the history belongs to the life of an unfinished collection -/
def AllPrepFill (w : List (Op × List BaseResp)) : Prop := ∀ x ∈ w, x.1.isPrepFill = true

/-- the whole life: any number of creations / growths / fills, in any order -/
theorem prepKept_runOps {i : Nat} {s0 : State} {m0 : List Nat} :
    ∀ (w : List (Op × List BaseResp)) (g g2 : GState), Inv cfg g → AllCovered w → RunEnvOK cfg g w → AllPrepFill w →
      runOps cfg g w = .ok g2 → PrepKept i s0 g.s → g.marks = m0 →
      (∀ b ∈ s0.live, ∀ k, k < b.size → readByte g.s (b.addr + k) = readByte s0 (b.addr + k)) →
      Inv cfg g2 ∧ PrepKept i s0 g2.s ∧ g2.marks = m0 ∧
      (∀ b ∈ s0.live, ∀ k, k < b.size → readByte g2.s (b.addr + k) = readByte s0 (b.addr + k)) := by
  intro w
  induction w with
  | nil => intro g g2 hi _ _ _ hr hk hm hb; cases hr; exact ⟨hi, hk, hm, hb⟩
  | cons x rest ih =>
    intro g g2 hi hc he hp hr hk hm hb
    obtain ⟨op, resps⟩ := x
    obtain ⟨g1, out, reqs, hs, hrest⟩ := runOps_cons hr
    obtain ⟨he1, he2⟩ := he
    obtain ⟨hcov, hc'⟩ := allCovered_cons hc
    obtain ⟨j, hij, hj⟩ := hk.cur
    obtain ⟨cj, hcj, _⟩ := hi.geom.cur j hj
    have hop := hp (op, resps) List.mem_cons_self
    obtain ⟨k1, k2⟩ := prepKept_stepCore (g := install g resps) (i := j) (c := cj) hj hcj hop (step_ok hs).1
    have k1' : PrepKept j g.s g1.s := ⟨k1.pos, k1.live, k1.frames, k1.minAlign, k1.cov, k1.cur⟩
    have hi1 := inv_step hcov hi he1 hs
    refine ih g1 g2 hi1 hc' (he2 g1 out reqs hs) (fun y hy => hp y (List.mem_cons_of_mem _ hy)) hrest
      (hk.trans hj k1') ((show g1.marks = g.marks from k2).trans hm) ?_
    intro b hb0 k hkk
    have hbg : b ∈ g.s.live := by rw [hk.live]; exact hb0
    have hbg1 : b ∈ g1.s.live := by rw [k1'.live]; exact hbg
    have hnw : ∀ seed, op ≠ .write b.id seed := by
      intro seed e
      rw [e] at hop; cases hop
    rw [bytes_step hi he1 hs b hbg hbg1 hnw k hkk]
    exact hb b hb0 k hkk

end Arena.Hist
