/-
  Lemmas/StrExtra.lean — extend_zeroed, fmt::Write, Extend<char> / Extend<&str>, shrink_to(_fit) and the
  consuming conversions.
-/
import BumpProof.Lemmas.StrOps

namespace Str

theorem encode_replicate_nul (n : Nat) : encode (List.replicate n (Char.ofNat 0)) = List.replicate n 0 := by
  induction n with
  | zero => rfl
  | succ n ih =>
    rw [List.replicate_succ, encode_cons, ih, List.replicate_succ]
    have : encodeChar (Char.ofNat 0) = [0] := by decide
    rw [this]; rfl

/-- `extend_zeroed(n)` appends `n` NUL characters (valid UTF-8); a fixed string without the room
    fails and is unchanged -/
theorem extendZeroed_spec (al : Alloc) (s : State) (n : Nat) (cs : List Char) (h : Holds s cs) :
    GrowsToText al s n (extendZeroed al s n) (cs ++ List.replicate n (Char.ofNat 0)) := by
  unfold extendZeroed
  have := appendBytes_spec al s (List.replicate n 0) h.1
  rw [List.length_replicate] at this
  exact this.text (cs := cs ++ List.replicate n (Char.ofNat 0)) (by rw [h.2, encode_append, encode_replicate_nul])

theorem writeStr_eq (al : Alloc) (s : State) (str : Bytes) : writeStr al s str = pushStr al s str := rfl
theorem writeChar_eq (al : Alloc) (s : State) (c : Char) : writeChar al s c = push al s c := rfl

/-- the push loop of `Extend<char>`: everything is pushed, or — only a FIXED string — an
    allocation error after the first `k` characters, which stay -/
theorem pushAllChars_spec (al : Alloc) (xs : List Char) (s : State) (cs : List Char) (h : Holds s cs) :
    ∃ k s', ((pushAllChars al s xs = .ok () s' ∧ k = xs.length) ∨
             (pushAllChars al s xs = .err s' ∧ al.isFixed = true ∧ k < xs.length)) ∧
            Holds s' (cs ++ xs.take k) := by
  induction xs generalizing s cs with
  | nil => exact ⟨0, s, Or.inl ⟨rfl, rfl⟩, by simpa using h⟩
  | cons x xs ih =>
    have hp := push_spec al s x cs h
    unfold GrowsToText at hp
    split at hp
    · rename_i hc
      refine ⟨0, s, Or.inr ⟨?_, hc.1, by simp⟩, by simpa using h⟩
      simp only [pushAllChars, hp]
    · obtain ⟨s1, hr, hh, _⟩ := hp
      obtain ⟨k, s', hk, hh'⟩ := ih s1 (cs ++ [x]) hh
      refine ⟨k + 1, s', ?_, by simpa using hh'⟩
      simp only [pushAllChars, hr]
      rcases hk with ⟨h1, h2⟩ | ⟨h1, h2, h3⟩
      · exact Or.inl ⟨h1, by simp [h2]⟩
      · exact Or.inr ⟨h1, h2, by simp; omega⟩

/-- `Extend<char>` / `Extend<&char>` -/
theorem extendChars_spec (al : Alloc) (xs : List Char) (s : State) (cs : List Char) (h : Holds s cs) :
    ∃ k s', ((extendChars al s xs = .ok () s' ∧ k = xs.length) ∨
             (extendChars al s xs = .err s' ∧ al.isFixed = true ∧ (k < xs.length ∨ s' = s))) ∧
            Holds s' (cs ++ xs.take k) := by
  unfold extendChars
  cases hr : reserve al s xs.length with
  | none =>
    have := reserve_none_iff.1 hr
    exact ⟨0, s, Or.inr ⟨rfl, this.1, Or.inr rfl⟩, by simpa using h⟩
  | some s1 =>
    obtain ⟨_, hb, _, hw, _⟩ := reserve_some h.1 hr
    have h1 : Holds s1 cs := ⟨hw, by rw [hb, h.2]⟩
    obtain ⟨k, s', hk, hh⟩ := pushAllChars_spec al xs s1 cs h1
    refine ⟨k, s', ?_, hh⟩
    rcases hk with ⟨e, hk⟩ | ⟨e, hf, hk⟩
    · exact Or.inl ⟨e, hk⟩
    · exact Or.inr ⟨e, hf, Or.inl hk⟩

/-- a growable string takes the whole extension -/
theorem extendChars_growable (al : Alloc) (hal : al.isFixed = false) (xs : List Char) (s : State) (cs : List Char)
    (h : Holds s cs) : ∃ s', extendChars al s xs = .ok () s' ∧ Holds s' (cs ++ xs) := by
  obtain ⟨k, s', hk, hh⟩ := extendChars_spec al xs s cs h
  rcases hk with ⟨e, rfl⟩ | ⟨_, hf, _⟩
  · exact ⟨s', e, by simpa using hh⟩
  · rw [hal] at hf; simp at hf

/-- `Extend<&str>` / repeated `+=` -/
theorem extendStrs_spec (al : Alloc) (ps : List (List Char)) (s : State) (cs : List Char) (h : Holds s cs) :
    ∃ k s', ((extendStrs al s (ps.map encode) = .ok () s' ∧ k = ps.length) ∨
             (extendStrs al s (ps.map encode) = .err s' ∧ al.isFixed = true ∧ k < ps.length)) ∧
            Holds s' (cs ++ (ps.take k).flatten) := by
  induction ps generalizing s cs with
  | nil => exact ⟨0, s, Or.inl ⟨rfl, rfl⟩, by simpa using h⟩
  | cons p ps ih =>
    have hp := pushStr_spec al s p cs h
    unfold GrowsToText at hp
    split at hp
    · rename_i hc
      refine ⟨0, s, Or.inr ⟨?_, hc.1, by simp⟩, by simpa using h⟩
      simp only [List.map_cons, extendStrs, hp]
    · obtain ⟨s1, hr, hh, _⟩ := hp
      obtain ⟨k, s', hk, hh'⟩ := ih s1 (cs ++ p) hh
      refine ⟨k + 1, s', ?_, by simpa using hh'⟩
      simp only [List.map_cons, extendStrs, hr]
      rcases hk with ⟨h1, h2⟩ | ⟨h1, h2, h3⟩
      · exact Or.inl ⟨h1, by simp [h2]⟩
      · exact Or.inr ⟨h1, h2, by simp; omega⟩

/-- `shrink_to(n)`: the contents never change, whatever the arena answers; `len ≤ capacity`; the
    capacity is unchanged or exactly `max(len, n)`, never grows, never drops below `min(n, old capacity)` -/
theorem shrinkTo_spec (s : State) (n : Nat) (b : Bool) (cs : List Char) (h : Holds s cs) :
    ∃ s', shrinkTo s n b = .ok () s' ∧ Holds s' cs ∧ s'.len = s.len ∧
      (s'.cap = s.cap ∨ (b = true ∧ max s.len n < s.cap ∧ s'.cap = max s.len n)) ∧
      s'.cap ≤ s.cap ∧ min n s.cap ≤ s'.cap := by
  have hw := h.1
  unfold WFL at hw
  unfold shrinkTo
  simp only
  by_cases h1 : s.buf.length ≤ max s.len n
  · rw [if_pos h1]
    exact ⟨s, rfl, h, rfl, Or.inl rfl, Nat.le_refl _, by simp only [State.cap]; omega⟩
  · rw [if_neg h1]
    cases b with
    | false => exact ⟨s, rfl, h, rfl, Or.inl rfl, Nat.le_refl _, by simp only [State.cap]; omega⟩
    | true =>
      simp only [↓reduceIte]
      refine ⟨_, rfl, ⟨by unfold WFL; simp; omega, ?_⟩, rfl, Or.inr ⟨by trivial, by simp only [State.cap]; omega, by simp [State.cap]; omega⟩,
        by simp [State.cap]; omega, by simp [State.cap]; omega⟩
      rw [← h.2]
      simp only [State.bytes, List.take_take]
      congr 1; omega

theorem shrinkToFit_eq (s : State) (b : Bool) : shrinkToFit s b = shrinkTo s 0 b := by
  unfold shrinkToFit shrinkTo
  simp

/-- the consuming conversions hand out exactly the contents -/
theorem intoBytes_eq (s : State) (b : Bool) (cs : List Char) (h : Holds s cs) : intoBytes s b = encode cs := by
  unfold intoBytes
  rw [shrinkToFit_eq]
  obtain ⟨s', hs, hh, _⟩ := shrinkTo_spec s 0 b cs h
  rw [hs]; exact hh.2

/-- `clone()`: a new string holding the same characters in exactly `len` bytes -/
theorem cloneStr_spec (s : State) (cs : List Char) (h : Holds s cs) :
    Holds (cloneStr s) cs ∧ (cloneStr s).cap = s.len ∧ (cloneStr s).len = s.len := by
  have hl := bytes_length h.1
  refine ⟨⟨?_, ?_⟩, ?_, rfl⟩
  · unfold WFL cloneStr; simp only; omega
  · rw [← h.2]
    unfold cloneStr
    simp only [State.bytes, List.take_take, Nat.min_self]
  · simp only [cloneStr, State.cap]; exact hl

end Str
