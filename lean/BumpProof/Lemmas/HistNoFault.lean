/-
  Lemmas/HistNoFault.lean — the NO-FAULT companion of the preservation of `Arena.Hist.Inv` (part of
  property C10): from a state satisfying `Inv`, with a correct base allocator, `stepCore` never returns
  `.error (.rs _)` (overflow / failed debug assertion) or `.error (.ub _)` (undefined behaviour).
  The only errors left are `.contract` (the caller broke the documented contract) and `.noResp`
  (the trace supplied no base-allocator response).

  This file: the definitions (`Fault.isBug`, `Answered`), the guards, and the operations that do not
  allocate.  `HistNoFault2.lean`: the allocating operations, constructors, commits.  `HistNoFault3.lean`:
  `shrink_slice`, `grow`, `shrink`, `alloc_try_with`, the claimed handle, `Op.noFaultCovered` and the main
  theorem `noFault_stepCore_partial`.
-/
import BumpProof.Lemmas.HistOpsD
set_option linter.unusedSimpArgs false
set_option linter.unusedVariables false
namespace Arena.Hist
open Rs
variable {cfg : Cfg}

/-- faults that would be bugs of the crate (as opposed to contract violations of the caller / a missing response) -/
def Fault.isBug : Fault → Prop
  | .rs _ => True
  | .ub _ => True
  | _ => False

/-- the base allocator answers the request(s) the operation may make correctly (`BaseOK`/`HeadOK` of
    Arena/Inv.lean: a response is pending and is large enough for the size the slow path will ask for);
    `True` for the operations that never ask -/
def Answered (cfg : Cfg) (s : State) : Op → Prop
  | .newWithSize n =>
    ∀ size, Spec.calcSize cfg.up cfg.hdr (Nat.max n cfg.minChunk) = some size → HeadOK cfg s size
  | .newWithCapacity L => BaseOK cfg s L
  | .allocate L _ _ => BaseOK cfg s L
  | .allocLayout L _ => BaseOK cfg s L
  | .grow _ L _ _ => BaseOK cfg s L
  | .shrink _ L _ => BaseOK cfg s L
  | .prepare L => BaseOK cfg s L
  | .prepareSlice esize ealign minCap _ => BaseOK cfg s { size := esize * minCap, align := ealign }
  | .reserve n dyn =>
    if dyn then BaseOK cfg s { size := n, align := 1 }
    else ∀ rest, rest ≤ n → BaseOK cfg s { size := rest, align := 1 }
  | .allocTryWith L _ _ _ inner mut_ =>
    BaseOK cfg s L ∧
    -- the closure's own allocation asks from the state the first allocation left
    ∀ Li, inner = some Li → ∀ s1 r,
      allocGeneric cfg (if mut_ then .prepare else .alloc) s L Hints.sized Hints.custom = .ok (s1, r) → BaseOK cfg s1 Li
  | _ => True

/-! ## the guards of `stepCore` only throw `.contract` -/

theorem validLayout_err {L : Layout} {f : Fault} (h : validLayout L = .error f) : ¬ Fault.isBug f := by
  unfold validLayout at h
  split at h
  · cases h
  · cases h; exact fun hb => hb

theorem noPrepared_err {s : State} {f : Fault} (h : noPrepared s = .error f) : ¬ Fault.isBug f := by
  unfold noPrepared at h
  split at h
  · cases h
  · cases h; exact fun hb => hb

theorem noFrames_err {s : State} {f : Fault} (h : noFrames s = .error f) : ¬ Fault.isBug f := by
  unfold noFrames at h
  split at h
  · cases h
  · cases h; exact fun hb => hb

theorem findBlock_err {s : State} {id : Nat} {f : Fault} (h : findBlock s id = .error f) : ¬ Fault.isBug f := by
  unfold findBlock at h
  split at h
  · cases h
  · cases h; exact fun hb => hb

/-! ## operations without a failing model function -/

theorem noFault_newUnallocated {g : GState} :
    ∀ f, stepCore cfg g .newUnallocated = .error f → ¬ Fault.isBug f := by
  intro f hf
  unfold stepCore at hf
  simp only [bind, Except.bind, pure, Except.pure] at hf
  split at hf
  · cases hf; exact fun hb => hb
  · cases hf

theorem noFault_scopeEnter {g : GState} :
    ∀ f, stepCore cfg g .scopeEnter = .error f → ¬ Fault.isBug f := by
  intro f hf
  unfold stepCore at hf
  simp only [bind, Except.bind, pure, Except.pure] at hf
  split at hf
  · rename_i e he; cases hf; exact noPrepared_err he
  · cases hf

theorem noFault_checkpoint {g : GState} {k : Nat} :
    ∀ f, stepCore cfg g (.checkpoint k) = .error f → ¬ Fault.isBug f := by
  intro f hf
  unfold stepCore at hf
  simp only [bind, Except.bind, pure, Except.pure] at hf
  split at hf
  · rename_i e he; cases hf; exact noPrepared_err he
  · split at hf
    · cases hf; exact fun hb => hb
    · cases hf

theorem noFault_claim {g : GState} :
    ∀ f, stepCore cfg g .claim = .error f → ¬ Fault.isBug f := by
  intro f hf
  unfold stepCore at hf
  simp only [bind, Except.bind, pure, Except.pure] at hf
  split at hf
  · rename_i e he; cases hf; exact noPrepared_err he
  · split at hf
    · cases hf; exact fun hb => hb
    · cases hf

theorem noFault_claimEnd {g : GState} :
    ∀ f, stepCore cfg g .claimEnd = .error f → ¬ Fault.isBug f := by
  intro f hf
  unfold stepCore at hf
  simp only [bind, Except.bind, pure, Except.pure] at hf
  split at hf
  · rename_i e he; cases hf; exact noPrepared_err he
  · split at hf
    · cases hf
    · cases hf; exact fun hb => hb

theorem noFault_abandonPrepared {g : GState} :
    ∀ f, stepCore cfg g .abandonPrepared = .error f → ¬ Fault.isBug f := by
  intro f hf
  unfold stepCore at hf
  simp only [bind, Except.bind, pure, Except.pure] at hf
  split at hf
  · cases hf
  · cases hf; exact fun hb => hb

theorem noFault_split {g : GState} {b at_ : Nat} :
    ∀ f, stepCore cfg g (.split b at_) = .error f → ¬ Fault.isBug f := by
  intro f hf
  unfold stepCore at hf
  simp only [bind, Except.bind, pure, Except.pure] at hf
  split at hf
  · rename_i e he; cases hf; exact findBlock_err he
  · split at hf
    · cases hf; exact fun hb => hb
    · cases hf

theorem noFault_drop {g : GState} :
    ∀ f, stepCore cfg g .drop = .error f → ¬ Fault.isBug f := by
  intro f hf
  unfold stepCore at hf
  simp only [bind, Except.bind, pure, Except.pure] at hf
  split at hf
  · rename_i e he; cases hf; exact noFrames_err he
  · split at hf
    · rename_i e he; cases hf; exact noPrepared_err he
    · cases hf

theorem noFault_reset {g : GState} :
    ∀ f, stepCore cfg g .reset = .error f → ¬ Fault.isBug f := by
  intro f hf
  unfold stepCore at hf
  simp only [bind, Except.bind, pure, Except.pure] at hf
  split at hf
  · rename_i e he; cases hf; exact noFrames_err he
  · split at hf
    · rename_i e he; cases hf; exact noPrepared_err he
    · cases hf

theorem noFault_resetToStart {g : GState} :
    ∀ f, stepCore cfg g .resetToStart = .error f → ¬ Fault.isBug f := by
  intro f hf
  unfold stepCore at hf
  simp only [bind, Except.bind, pure, Except.pure] at hf
  split at hf
  · rename_i e he; cases hf; exact noFrames_err he
  · split at hf
    · rename_i e he; cases hf; exact noPrepared_err he
    · cases hf

/-! ## leaving a scope, `reset_to` -/

/-- `reset_to` on a geometrically sound checkpoint: either it succeeds, or (checkpoint of an unallocated
    arena used with `GUARANTEED_ALLOCATED`) the model reports a contract violation -/
theorem resetTo_noBug {g : GState} (h : Inv cfg g) {ma : Nat} (hma : MinAlignOK ma) {cp : Checkpoint}
    (hcp : CpGeom cfg g.s cp) {f : Fault} (hf : resetTo cfg { g.s with minAlign := ma } cp = .error f) :
    ¬ Fault.isBug f := by
  have hok : CheckpointOK cfg g.s cp → ¬ Fault.isBug f := by
    intro hck
    obtain ⟨s1, e1, _⟩ := resetTo_ok_min h.cfgOK h.geom hma hck
    rw [e1] at hf; cases hf
  cases hk : cp.cur with
  | chunk i =>
    apply hok
    unfold CheckpointOK; unfold CpGeom at hcp; rw [hk] at hcp ⊢; exact hcp
  | claimed => unfold CpGeom at hcp; rw [hk] at hcp; exact hcp.elim
  | unallocated =>
    cases hga : cfg.ga
    · apply hok
      unfold CheckpointOK; rw [hk]; exact hga
    · unfold resetTo at hf
      simp only [hk, hga, Bool.not_true, Bool.false_and, Bool.false_eq_true, ↓reduceIte] at hf
      cases hf; exact fun hb => hb

theorem noFault_scopeExit {g : GState} (h : Inv cfg g) :
    ∀ f, stepCore cfg g .scopeExit = .error f → ¬ Fault.isBug f := by
  intro f hf
  unfold stepCore at hf
  simp only [bind, Except.bind, pure, Except.pure] at hf
  split at hf
  · rename_i e he; cases hf; exact noPrepared_err he
  · split at hf
    · rename_i cp rest m ms hfr hmk
      have hfo := h.frames
      rw [hfr, hmk] at hfo
      simp only [FramesOK] at hfo
      split at hf
      · rename_i e he; cases hf
        exact resetTo_noBug h h.geom.minAlign hfo.1.geom he
      · cases hf
    · cases hf; exact fun hb => hb

theorem noFault_scopedAlignedExit {g : GState} (h : Inv cfg g) :
    ∀ f, stepCore cfg g .scopedAlignedExit = .error f → ¬ Fault.isBug f := by
  intro f hf
  unfold stepCore at hf
  simp only [bind, Except.bind, pure, Except.pure] at hf
  split at hf
  · rename_i e he; cases hf; exact noPrepared_err he
  · split at hf
    · rename_i cp outer rest m ms hfr hmk
      have hfo := h.frames
      rw [hfr, hmk] at hfo
      simp only [FramesOK] at hfo
      split at hf
      · rename_i e he; cases hf
        exact resetTo_noBug h hfo.1 hfo.2.1.geom he
      · cases hf
    · cases hf; exact fun hb => hb

theorem noFault_resetTo {g : GState} {k : Nat} (h : Inv cfg g) :
    ∀ f, stepCore cfg g (.resetTo k) = .error f → ¬ Fault.isBug f := by
  intro f hf
  unfold stepCore at hf
  simp only [bind, Except.bind, pure, Except.pure] at hf
  split at hf
  · rename_i e he; cases hf; exact noPrepared_err he
  · split at hf
    · cases hf; exact fun hb => hb
    · rename_i k' cp mark hfind
      split at hf
      · cases hf; exact fun hb => hb
      · split at hf
        · cases hf; exact fun hb => hb
        · split at hf
          · rename_i e he; cases hf
            have hmem := List.mem_of_find?_eq_some hfind
            exact resetTo_noBug h h.geom.minAlign (h.cps _ hmem).geom he
          · cases hf

/-! ## minimum-alignment regions -/

theorem noFault_alignedEnter {g : GState} {n : Nat} (h : Inv cfg g) :
    ∀ f, stepCore cfg g (.alignedEnter n) = .error f → ¬ Fault.isBug f := by
  intro f hf
  unfold stepCore at hf
  simp only [bind, Except.bind, pure, Except.pure] at hf
  split at hf
  · rename_i e he; cases hf; exact noPrepared_err he
  · split at hf
    · cases hf; exact fun hb => hb
    · rename_i hchk
      have hn : MinAlignOK n := minAlignOK_of_not_check hchk
      split at hf
      · cases hf
      · split at hf
        · rename_i e he
          obtain ⟨s', hs'⟩ := C10.alignTo_noFault h.cfgOK h.geom hn
          rw [hs'] at he; cases he
        · cases hf

theorem noFault_alignedExit {g : GState} (h : Inv cfg g) :
    ∀ f, stepCore cfg g .alignedExit = .error f → ¬ Fault.isBug f := by
  intro f hf
  unfold stepCore at hf
  simp only [bind, Except.bind, pure, Except.pure] at hf
  split at hf
  · rename_i e he; cases hf; exact noPrepared_err he
  · split at hf
    · rename_i outer start rest hfr
      have hfo := h.frames
      rw [hfr] at hfo
      simp only [FramesOK] at hfo
      split at hf
      · rename_i e he
        obtain ⟨s', hs'⟩ := C10.alignGuardDrop_noFault h.cfgOK h.geom hfo.1
        rw [hs'] at he; cases he
      · rename_i s1 hs1
        split at hf
        · rename_i e he
          obtain ⟨s', hs'⟩ := C10.alignChunkAt_noFault h.cfgOK (C10.alignGuardDrop_inv h.cfgOK h.geom hfo.1 hs1).1 hfo.1 start
          rw [hs'] at he; cases he
        · cases hf
    · cases hf
    · cases hf; exact fun hb => hb

theorem noFault_scopedAlignedEnter {g : GState} {n : Nat} (h : Inv cfg g) :
    ∀ f, stepCore cfg g (.scopedAlignedEnter n) = .error f → ¬ Fault.isBug f := by
  intro f hf
  unfold stepCore at hf
  simp only [bind, Except.bind, pure, Except.pure] at hf
  split at hf
  · rename_i e he; cases hf; exact noPrepared_err he
  · split at hf
    · cases hf; exact fun hb => hb
    · rename_i hchk
      have hn : MinAlignOK n := minAlignOK_of_not_check hchk
      split at hf
      · rename_i e he
        obtain ⟨s', hs'⟩ := C10.alignTo_noFault h.cfgOK h.geom hn
        rw [hs'] at he; cases he
      · cases hf

theorem noFault_withSettings {g : GState} {n : Nat} {ga cl : Bool} (h : Inv cfg g) :
    ∀ f, stepCore cfg g (.withSettings n ga cl) = .error f → ¬ Fault.isBug f := by
  intro f hf
  unfold stepCore at hf
  simp only [bind, Except.bind, pure, Except.pure] at hf
  split at hf
  · rename_i e he; cases hf; exact noFrames_err he
  · split at hf
    · rename_i e he; cases hf; exact noPrepared_err he
    · split at hf
      · cases hf; exact fun hb => hb
      · rename_i hchk
        have hn : MinAlignOK n := minAlignOK_of_not_check hchk
        split at hf
        · cases hf
        · split at hf
          · cases hf
          · split at hf
            · rename_i e he
              obtain ⟨s', hs'⟩ := C10.alignTo_noFault h.cfgOK h.geom hn
              rw [hs'] at he; cases he
            · cases hf

/-! ## deallocate -/

theorem noFault_deallocate {g : GState} {b : Nat} {via : Via} (h : Inv cfg g) :
    ∀ f, stepCore cfg g (.deallocate b via) = .error f → ¬ Fault.isBug f := by
  intro f hf
  unfold stepCore at hf
  simp only [bind, Except.bind, pure, Except.pure] at hf
  split at hf
  · rename_i e he; cases hf; exact noPrepared_err he
  · split at hf
    · rename_i e he; cases hf; exact findBlock_err he
    · rename_i blk hblk
      obtain ⟨hmem, hid⟩ := Mem.findBlock_ok hblk
      split at hf
      · cases hf
      · split at hf
        · rename_i e he
          obtain ⟨s', hs'⟩ := C10.deallocate_noFault h.cfgOK h.geom (h.blockInCur' hmem)
          rw [hs'] at he; cases he
        · cases hf

/-! ## ghost writes -/

/-- a live block is writable: it is empty, or it lies in the content range of a chunk -/
theorem live_writable {g : GState} (h : Inv cfg g) {blk : Block} (hmem : blk ∈ g.s.live) (f : Nat → UInt8) :
    ∃ s', writeRange cfg g.s blk.addr (blk.addr + blk.size) f = .ok s' := by
  apply writeRange_noFault h.disj
  by_cases hs : 0 < blk.size
  · obtain ⟨i, j, c, _, _, hcj, hin, _⟩ := h.live.placed blk hmem hs
    exact Or.inr ⟨j, c, hcj, h.geom.chunks j c hcj, hin.1, hin.2⟩
  · left; omega

theorem noFault_write {g : GState} {b seed : Nat} (h : Inv cfg g) :
    ∀ f, stepCore cfg g (.write b seed) = .error f → ¬ Fault.isBug f := by
  intro f hf
  unfold stepCore at hf
  simp only [bind, Except.bind, pure, Except.pure] at hf
  split at hf
  · rename_i e he; cases hf; exact findBlock_err he
  · rename_i blk hblk
    obtain ⟨hmem, hid⟩ := Mem.findBlock_ok hblk
    split at hf
    · rename_i e he
      obtain ⟨s', hs'⟩ := live_writable h hmem (fun a => pattern seed (a - blk.addr))
      rw [hs'] at he; cases he
    · cases hf

theorem noFault_fillPrepared {g : GState} {len seed : Nat} (h : Inv cfg g) :
    ∀ f, stepCore cfg g (.fillPrepared len seed) = .error f → ¬ Fault.isBug f := by
  intro f hf
  unfold stepCore at hf
  simp only [bind, Except.bind, pure, Except.pure] at hf
  split at hf
  · rename_i p hp
    obtain ⟨i, c, hcur, hc, h1, h2, h3⟩ := prepOK_rangeInCur h.geom (h.prep p hp)
    split at hf
    · cases hf; exact fun hb => hb
    · rename_i hchk
      have hle : len * p.esize ≤ p.rend - p.rstart := by omega
      split at hf
      · rename_i e he
        have hw := h.geom.chunks i c hc
        obtain ⟨s', hs'⟩ := writeRange_noFault (cfg := cfg) h.disj
          (lo := if seed % 2 == 0 then p.rstart else p.rend - len * p.esize)
          (hi := (if seed % 2 == 0 then p.rstart else p.rend - len * p.esize) + len * p.esize)
          (fun a => pattern seed (a - (if seed % 2 == 0 then p.rstart else p.rend - len * p.esize)))
          (Or.inr ⟨i, c, hc, hw, by split <;> omega, by split <;> omega⟩)
        rw [hs'] at he; cases he
      · cases hf
  · cases hf; exact fun hb => hb

end Arena.Hist
