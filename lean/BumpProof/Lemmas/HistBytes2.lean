/-
  Lemmas/HistBytes2.lean — property C02 at the step level (continued): the operations that write
  (`write`, `fillPrepared`, zeroed `allocate`, `commit`, `commitSlice`, `grow`, `shrink`, `shrinkSlice`),
  the operations that empty the live list, and the step theorem `bytes_stepCore` / `bytes_step`.
-/
import BumpProof.Lemmas.HistBytes
set_option linter.unusedSimpArgs false
set_option linter.unusedVariables false
namespace Arena.Hist
open Rs
variable {cfg : Cfg}

/-! ## Operations after which nothing is live -/

theorem bytes_drop {g g' : GState} {out : Out} (hs : stepCore cfg g .drop = .ok (g', out)) :
    BytesKept g g' .drop := by
  unfold stepCore at hs
  simp only [bind, Except.bind, pure, Except.pure] at hs
  (repeat' split at hs) <;> first | (cases hs; done) | (cases hs; exact bytesKept_of_nil rfl)

theorem bytes_reset {g g' : GState} {out : Out} (hs : stepCore cfg g .reset = .ok (g', out)) :
    BytesKept g g' .reset := by
  unfold stepCore at hs
  simp only [bind, Except.bind, pure, Except.pure] at hs
  (repeat' split at hs) <;> first | (cases hs; done) | (cases hs; exact bytesKept_of_nil rfl)

theorem bytes_resetToStart {g g' : GState} {out : Out} (hs : stepCore cfg g .resetToStart = .ok (g', out)) :
    BytesKept g g' .resetToStart := by
  unfold stepCore at hs
  simp only [bind, Except.bind, pure, Except.pure] at hs
  (repeat' split at hs) <;> first | (cases hs; done) | (cases hs; exact bytesKept_of_nil rfl)

/-! ## `write`: only the bytes of the target block change -/

theorem bytes_write {g g' : GState} {out : Out} {bid seed : Nat} (h : Inv cfg g)
    (hs : stepCore cfg g (.write bid seed) = .ok (g', out)) : BytesKept g g' (.write bid seed) := by
  unfold stepCore at hs
  simp only [bind, Except.bind, pure, Except.pure] at hs
  split at hs
  · cases hs
  · rename_i blk hblk
    obtain ⟨hmem, hid⟩ := Mem.findBlock_ok hblk
    split at hs
    · cases hs
    · rename_i s' hw
      cases hs
      intro b hb _ hne k hk
      have hbne : b ≠ blk := by
        intro e
        exact hne seed (by rw [e, hid])
      have hd := Mem.pairwise_of_mem_ne (fun _ _ => Mem.BlocksDisjoint.symm) h.live.disjoint hb hmem hbne
      unfold Mem.BlocksDisjoint at hd
      exact Mem.writeRange_read_out hw (by omega)

/-! ## `fillPrepared`: the prepared range is free memory -/

/-- no byte of the outstanding prepared range belongs to a live block -/
theorem prepared_apart {g : GState} (h : Inv cfg g) {p : Prepared} (hp : PrepOK cfg g.s p) {b : Block}
    (hb : b ∈ g.s.live) {a : Nat} (h1 : p.rstart ≤ a) (h2 : a < p.rend) : a < b.addr ∨ b.addr + b.size ≤ a := by
  by_cases hs : 0 < b.size
  · obtain ⟨i, c, hcur, hc, hlh, hfree⟩ := hp.range
    have hw := h.geom.chunks i c hc
    have hge := hw.pos_ge
    have hle := hw.pos_le
    obtain ⟨i', j, cj, c1, c2, c3, c4, c5⟩ := h.live.placed b hb hs
    have hii : i' = i := by rw [hcur] at c1; cases c1; rfl
    subst hii
    by_cases hji : j = i'
    · subst hji
      rw [hc] at c3; cases c3
      have hside := c5 rfl
      unfold Mem.OnAllocatedSide at hside
      cases hup : cfg.up
      · simp only [hup, Bool.false_eq_true, ↓reduceIte] at hside hfree; omega
      · simp only [hup, ↓reduceIte] at hside hfree; omega
    · have hin : Mem.InContent cfg c p.rstart (p.rend - p.rstart) := by
        unfold Mem.InContent
        cases hup : cfg.up
        · simp only [hup, Bool.false_eq_true, ↓reduceIte] at hfree; omega
        · simp only [hup, ↓reduceIte] at hfree; omega
      have := Mem.inContent_disjoint_chunks ((disjoint_iff g.s).mp h.disj) hc c3 hji c4 hin
      unfold Mem.RangesDisjoint at this
      omega
  · omega

theorem bytes_fillPrepared {g g' : GState} {out : Out} {len seed : Nat} (h : Inv cfg g)
    (hs : stepCore cfg g (.fillPrepared len seed) = .ok (g', out)) : BytesKept g g' (.fillPrepared len seed) := by
  unfold stepCore at hs
  simp only [bind, Except.bind, pure, Except.pure] at hs
  split at hs
  · rename_i p hp
    have hpo := h.prep p hp
    split at hs
    · cases hs
    · rename_i hchk
      have hfit : len * p.esize ≤ p.rend - p.rstart := by omega
      have hlh : p.rstart ≤ p.rend := by
        obtain ⟨_, _, _, _, hlh, _⟩ := hpo.range
        exact hlh
      split at hs
      · cases hs
      · rename_i s' hw
        cases hs
        intro b hb _ _ k hk
        refine Mem.writeRange_read_out hw ?_
        apply Classical.byContradiction
        intro hcon
        have hin : p.rstart ≤ b.addr + k ∧ b.addr + k < p.rend := by
          split at hcon <;> omega
        have := prepared_apart h hpo hb hin.1 hin.2
        omega
  · cases hs

/-! ## zeroed `allocate` -/

theorem bytes_allocate {g g' : GState} {out : Out} {L : Layout} {z : Bool} {via : Via} (h : Inv cfg g)
    (hr : RespsOK cfg g.s) (hf : RespsFresh g.s)
    (hs : stepCore cfg g (.allocate L z via) = .ok (g', out)) : BytesKept g g' (.allocate L z via) := by
  have h' := inv_allocate h hr hf hs
  have hL : L.Valid := by
    unfold stepCore at hs
    simp only [bind, Except.bind, pure, Except.pure] at hs
    split at hs
    · cases hs
    · rename_i u hu
      exact validLayout_valid hu
  obtain ⟨s1, r, ha, hcase⟩ := Mem.stepCore_allocate_inv hs
  rcases hcase with ⟨e, he, rfl⟩ | ⟨p, s2, hp, hz, rfl⟩
  · exact bytesKept_of_memExt h (Mem.alloc_memExt ha)
  · subst hp
    cases z
    · simp only [Bool.false_eq_true, ↓reduceIte, pure, Except.pure] at hz
      cases hz
      exact bytesKept_of_memExt h (memExt_chunks (Mem.alloc_memExt ha) rfl)
    · simp only [↓reduceIte] at hz
      obtain ⟨_, hfr⟩ := C02.allocate_zeroed h.memWF (headFresh_of hf) ha hz
      obtain ⟨r', _, post⟩ := alloc_post h.cfgOK h.geom hr h.disj hf hL ha
      have hn : s2.nextId = g.s.nextId := by
        rw [(Mem.writeRange_onlyData hz).1]
        exact post.stable.nextId
      refine bytesKept_of_frame h h'.live (np := p) (total := L.size) hfr ?_
      rw [← hn]
      exact addBlock_new _ _ _ _ _

/-! ## refused reallocations never write -/

theorem grow_err_memExt {s s' : State} {ptr oldSize : Nat} {newL : Layout} {e : AErr}
    (h : grow cfg s ptr oldSize newL = .ok (s', .error e)) : Mem.MemExt s s' := by
  unfold grow at h
  simp only [bind, Except.bind, pure, Except.pure, throw, throwThe, MonadExceptOf.throw] at h
  repeat' split at h
  all_goals first | (cases h; done) | (cases h)
  all_goals first
    | exact Mem.alloc_memExt (by assumption)
    | exact Mem.inAnotherChunk_memExt_pair (by assumption) (by assumption)

theorem shrink_err_memExt {s s' : State} {ptr oldSize : Nat} {newL : Layout} {e : AErr}
    (h : shrink cfg s ptr oldSize newL = .ok (s', .error e)) : Mem.MemExt s s' := by
  unfold shrink at h
  simp only [bind, Except.bind, pure, Except.pure, throw, throwThe, MonadExceptOf.throw] at h
  repeat' split at h
  all_goals first | (cases h; done) | (cases h)
  all_goals first
    | exact Mem.alloc_memExt (by assumption)
    | exact (Mem.MemExt.of_eq ((Mem.memOf_setCurPos _ _).trans (Mem.deallocAssumeLast_memOf (by assumption)))).trans
        (Mem.inAnotherChunk_memExt (by assumption))

theorem shrinkWithoutShrink_err_memExt {s s' : State} {ptr oldSize : Nat} {newL : Layout} {e : AErr}
    (h : shrinkWithoutShrink cfg s ptr oldSize newL = .ok (s', .error e)) : Mem.MemExt s s' := by
  unfold shrinkWithoutShrink at h
  simp only [bind, Except.bind, pure, Except.pure, throw, throwThe, MonadExceptOf.throw] at h
  repeat' split at h
  all_goals first | (cases h; done) | (cases h)
  all_goals exact Mem.alloc_memExt (by assumption)

/-! ## `grow` -/

theorem zero_or_id_nextId {s1 s2 : State} {z : Bool} {p n : Nat}
    (hz : (if z then zeroRange cfg s1 p n else pure s1) = .ok s2) : s2.nextId = s1.nextId := by
  cases z
  · simp only [Bool.false_eq_true, ↓reduceIte, pure, Except.pure] at hz
    cases hz; rfl
  · simp only [↓reduceIte] at hz
    rw [(Mem.writeRange_onlyData hz).1]

theorem bytes_grow {g g' : GState} {out : Out} {b : Nat} {L : Layout} {z : Bool} {via : Via} (h : Inv cfg g)
    (hr : RespsOK cfg g.s) (hf : RespsFresh g.s)
    (hs : stepCore cfg g (.grow b L z via) = .ok (g', out)) : BytesKept g g' (.grow b L z via) := by
  have h' := inv_grow h hr hf hs
  unfold stepCore at hs
  simp only [bind, Except.bind, pure, Except.pure] at hs
  split at hs
  · cases hs
  · rename_i u hu
    have hL := validLayout_valid hu
    split at hs
    · cases hs
    · split at hs
      · cases hs
      · rename_i blk hblk
        obtain ⟨hb, hid⟩ := Mem.findBlock_ok hblk
        subst hid
        split at hs
        · cases hs
        · split at hs
          · cases hs
          · rename_i x hx
            obtain ⟨s1, r1⟩ := x
            cases r1 with
            | error e =>
              simp only at hs
              cases hs
              exact bytesKept_of_memExt h (grow_err_memExt hx)
            | ok np =>
              simp only at hs
              have hold : ∀ k, k < blk.size → Mem.InChunks g.s (blk.addr + k) := fun k hk => live_inChunks h hb hk
              obtain ⟨hre, hle⟩ := C02.grow_realloc h.memWF (headFresh_of hf) hold hx
              have gp := grow_hist h.cfgOK h.geom hr h.disj hf h.live hb hL (h.blockInCur' hb) hx
              have key : ∀ s2, (if z then zeroRange cfg s1 (np + blk.size) (L.size - blk.size) else pure s1) = .ok s2 →
                  s2.nextId = g.s.nextId ∧
                  ∀ a, (a < np ∨ np + L.size ≤ a) → Mem.InChunks g.s a → readByte s2 a = readByte g.s a := by
                intro s2 hz
                refine ⟨(zero_or_id_nextId hz).trans gp.stable.nextId, fun a ha hin => ?_⟩
                cases z
                · simp only [Bool.false_eq_true, ↓reduceIte, pure, Except.pure] at hz
                  cases hz
                  exact hre.frame a ha hin
                · simp only [↓reduceIte] at hz
                  rw [Mem.zeroRange_read_out hz (by omega)]
                  exact hre.frame a ha hin
              cases z
              · simp only [Bool.false_eq_true, ↓reduceIte] at hs
                cases hs
                obtain ⟨hn, hfr⟩ := key s1 rfl
                refine bytesKept_of_frame h h'.live (np := np) (total := L.size) hfr ?_
                rw [← hn]
                exact addBlock_new _ _ _ _ _
              · simp only [↓reduceIte] at hs
                split at hs
                · cases hs
                · rename_i s2 hs2
                  cases hs
                  obtain ⟨hn, hfr⟩ := key s2 (by simp only [↓reduceIte]; exact hs2)
                  refine bytesKept_of_frame h h'.live (np := np) (total := L.size) hfr ?_
                  rw [← hn]
                  exact addBlock_new _ _ _ _ _

/-! ## `shrink` (also through `WithoutShrink`) and `shrink_slice` -/

theorem bytes_shrink {g g' : GState} {out : Out} {b : Nat} {L : Layout} {via : Via} (h : Inv cfg g)
    (hr : RespsOK cfg g.s) (hf : RespsFresh g.s)
    (hs : stepCore cfg g (.shrink b L via) = .ok (g', out)) : BytesKept g g' (.shrink b L via) := by
  have h' := inv_shrink h hr hf hs
  unfold stepCore at hs
  simp only [bind, Except.bind, pure, Except.pure] at hs
  split at hs
  · cases hs
  · rename_i u hu
    have hL := validLayout_valid hu
    split at hs
    · cases hs
    · split at hs
      · cases hs
      · rename_i blk hblk
        obtain ⟨hmem, hid⟩ := Mem.findBlock_ok hblk
        split at hs
        · cases hs
        · rename_i hsz
          have hsz' : L.size ≤ blk.size := by omega
          have hold : ∀ k, k < L.size → Mem.InChunks g.s (blk.addr + k) :=
            fun k hk => live_inChunks h hmem (by omega)
          split at hs
          all_goals
            split at hs
            · cases hs
            · rename_i x hx
              obtain ⟨s1, r1⟩ := x
              have rp : ReallocPost cfg g.s s1 blk.id L.align (exRes r1) := by
                first
                | exact shrinkWithoutShrink_realloc h hr hf hmem hL hsz' hx
                | exact shrink_realloc h hr hf hmem hL hx
              subst hid
              cases r1 with
              | error e =>
                simp only at hs
                cases hs
                refine bytesKept_of_memExt h ?_
                first
                | exact shrinkWithoutShrink_err_memExt hx
                | exact shrink_err_memExt hx
              | ok v =>
                obtain ⟨np, nsize⟩ := v
                simp only at hs
                cases hs
                have hre : Mem.Realloc g.s s1 blk.addr np L.size nsize := by
                  first
                  | exact (C02.shrinkWithoutShrink_realloc h.memWF (headFresh_of hf) hold hx).1
                  | exact C02.shrink_realloc h.memWF (headFresh_of hf) hold hx
                refine bytesKept_of_frame h h'.live (np := np) (total := nsize) hre.frame ?_
                rw [← rp.ghost.stable.nextId]
                exact addBlock_new _ _ _ _ _

theorem bytes_shrinkSlice {g g' : GState} {out : Out} {b newSize : Nat} (h : Inv cfg g)
    (hr : RespsOK cfg g.s) (hf : RespsFresh g.s)
    (hs : stepCore cfg g (.shrinkSlice b newSize) = .ok (g', out)) : BytesKept g g' (.shrinkSlice b newSize) := by
  have h' := inv_shrinkSlice h hr hf hs
  unfold stepCore at hs
  simp only [bind, Except.bind, pure, Except.pure] at hs
  split at hs
  · cases hs
  · split at hs
    · cases hs
    · rename_i blk hblk
      obtain ⟨hmem, hid⟩ := Mem.findBlock_ok hblk
      split at hs
      · cases hs
      · rename_i hsz
        have hsz' : newSize ≤ blk.size := by omega
        have hold : ∀ k, k < newSize → Mem.InChunks g.s (blk.addr + k) :=
          fun k hk => live_inChunks h hmem (by omega)
        split at hs
        · cases hs
        · rename_i x hx
          obtain ⟨s1, r1⟩ := x
          have rp := shrinkSlice_realloc h hmem hsz' hx
          subst hid
          cases r1 with
          | none =>
            simp only at hs
            cases hs
            have e := C02.shrinkSlice_declined hx
            subst e
            exact bytesKept_of_memExt h (Mem.MemExt.refl _)
          | some np =>
            simp only at hs
            cases hs
            have hre := C02.shrinkSlice_realloc h.memWF hold hx
            refine bytesKept_of_frame h h'.live (np := np) (total := newSize) hre.frame ?_
            rw [← rp.ghost.stable.nextId]
            exact addBlock_new _ _ _ _ _

/-! ## `commit`, `commitSlice`: the bytes move inside the prepared range, which is free memory -/

theorem prepared_inChunks {g : GState} (h : Inv cfg g) {p : Prepared} (hp : PrepOK cfg g.s p) {a : Nat}
    (h1 : p.rstart ≤ a) (h2 : a < p.rend) : Mem.InChunks g.s a := by
  obtain ⟨i, c, hcur, hc, hlh, hfree⟩ := hp.range
  have hw := h.geom.chunks i c hc
  have hge := hw.pos_ge
  have hle := hw.pos_le
  have hin : Mem.InContent cfg c p.rstart (p.rend - p.rstart) := by
    unfold Mem.InContent
    cases hup : cfg.up
    · simp only [hup, Bool.false_eq_true, ↓reduceIte] at hfree; omega
    · simp only [hup, ↓reduceIte] at hfree; omega
  have := Mem.inContent_in_chunk hin
  exact ⟨c, List.mem_of_getElem? hc, by omega, by omega⟩

theorem allocatePrepared_nextId {s s' : State} {size rstart rend addr : Nat} {rev : Bool}
    (h : allocatePrepared cfg s size rstart rend rev = .ok (s', addr)) : s'.nextId = s.nextId := by
  unfold allocatePrepared at h
  cases rev
  all_goals simp only [bind, Except.bind, pure, Except.pure, throw, throwThe, MonadExceptOf.throw,
    Bool.false_eq_true, ↓reduceIte] at h
  all_goals repeat' split at h
  all_goals first | (cases h; done) | (cases h)
  all_goals first
    | exact (Stable.setCurPos _ _).nextId
    | exact ((Stable.of_onlyData (Mem.copyBytes_onlyData (by assumption))).trans (Stable.setCurPos _ _)).nextId

theorem setPosAlignFrom_nextId {s s' : State} {pos al : Nat}
    (h : setPosAlignFrom cfg s pos al = .ok s') : s'.nextId = s.nextId := by
  unfold setPosAlignFrom at h
  simp only [bind, Except.bind, pure, Except.pure, throw, throwThe, MonadExceptOf.throw] at h
  repeat' split at h
  all_goals first | (cases h; done) | (cases h)
  all_goals exact (Stable.setCurPos _ _).nextId

theorem allocatePreparedSlice_nextId {s s' : State} {ptr len cap esize ealign addr : Nat} {rev : Bool}
    (h : allocatePreparedSlice cfg s ptr len cap esize ealign rev = .ok (s', addr)) : s'.nextId = s.nextId := by
  unfold allocatePreparedSlice at h
  cases rev
  all_goals simp only [bind, Except.bind, pure, Except.pure, throw, throwThe, MonadExceptOf.throw,
    Bool.false_eq_true, ↓reduceIte, Bool.not_false, Bool.not_true] at h
  all_goals repeat' split at h
  all_goals first | (cases h; done) | (cases h)
  all_goals first
    | exact setPosAlignFrom_nextId (by assumption)
    | exact (setPosAlignFrom_nextId (by assumption)).trans
        (Stable.of_onlyData (Mem.copyBytes_onlyData (by assumption))).nextId

theorem bytes_commit {g g' : GState} {out : Out} {size : Nat} {rev : Bool} (h : Inv cfg g) (hr : RespsOK cfg g.s)
    (hs : stepCore cfg g (.commit size rev) = .ok (g', out)) : BytesKept g g' (.commit size rev) := by
  have h' := inv_commit h hr hs
  unfold stepCore at hs
  simp only [bind, Except.bind, pure, Except.pure] at hs
  split at hs
  · rename_i p hp
    have hpo := h.prep p hp
    split at hs
    · cases hs
    · split at hs
      · cases hs
      · rename_i hchk
        simp only [Bool.or_eq_true, decide_eq_true_eq, bne_iff_ne, ne_eq, not_or, Nat.not_lt, Decidable.not_not] at hchk
        obtain ⟨hsz, hmod⟩ := hchk
        split at hs
        · cases hs
        · rename_i x hx
          obtain ⟨s', addr⟩ := x
          simp only at hs
          cases hs
          have hlh : p.rstart ≤ p.rend := by
            obtain ⟨_, _, _, _, hlh, _⟩ := hpo.range
            exact hlh
          have hold : ∀ k, k < size →
              Mem.InChunks ({ g.s with prepared := none } : State) ((if rev then p.rend - size else p.rstart) + k) := by
            intro k hk
            refine prepared_inChunks (g := g) h hpo ?_ ?_
            · cases rev <;> simp <;> omega
            · cases rev <;> simp <;> omega
          have hre := C02.allocatePrepared_realloc h.clearPrepared.memWF hold hx
          refine bytesKept_of_frame h h'.live (np := addr) (total := size) hre.frame ?_
          have hn : s'.nextId = g.s.nextId := allocatePrepared_nextId (s := { g.s with prepared := none }) hx
          rw [← hn]
          exact addBlock_new _ _ _ _ _
  · cases hs

theorem bytes_commitSlice {g g' : GState} {out : Out} {len : Nat} (h : Inv cfg g) (hr : RespsOK cfg g.s)
    (hs : stepCore cfg g (.commitSlice len) = .ok (g', out)) : BytesKept g g' (.commitSlice len) := by
  have h' := inv_commitSlice h hr hs
  unfold stepCore at hs
  simp only [bind, Except.bind, pure, Except.pure] at hs
  split at hs
  · rename_i p hp
    have hpo := h.prep p hp
    split at hs
    · cases hs
    · rename_i htyped
      have hty : p.typed = true := by simpa using htyped
      obtain ⟨hes, hae, hdv⟩ := hpo.typed hty
      split at hs
      · cases hs
      · rename_i hchk
        have hlen : len ≤ (p.rend - p.rstart) / p.esize := by simpa using hchk
        split at hs
        · cases hs
        · rename_i x hx
          obtain ⟨s', addr⟩ := x
          simp only at hs
          cases hs
          have hlh : p.rstart ≤ p.rend := by
            obtain ⟨_, _, _, _, hlh, _⟩ := hpo.range
            exact hlh
          have hcap : (p.rend - p.rstart) / p.esize * p.esize = p.rend - p.rstart := Nat.div_mul_cancel hdv
          have hmul : len * p.esize ≤ p.rend - p.rstart := by
            rw [← hcap]; exact Nat.mul_le_mul_right _ hlen
          have hold : ∀ k, k < len * p.esize →
              Mem.InChunks ({ g.s with prepared := none } : State)
                ((if p.rev then (if p.rev then p.rend else p.rstart) - len * p.esize
                  else (if p.rev then p.rend else p.rstart)) + k) := by
            intro k hk
            refine prepared_inChunks (g := g) h hpo ?_ ?_
            · cases p.rev <;> simp <;> omega
            · cases p.rev <;> simp <;> omega
          have hre := C02.allocatePreparedSlice_realloc h.clearPrepared.memWF hold hx
          refine bytesKept_of_frame h h'.live (np := addr) (total := len * p.esize) hre.frame ?_
          have hn : s'.nextId = g.s.nextId := allocatePreparedSlice_nextId (s := { g.s with prepared := none }) hx
          rw [← hn]
          exact addBlock_new _ _ _ _ _
  · cases hs

/-! ## The operations that never write, in `BytesKept` form -/

theorem bytes_newWithSize {g g' : GState} {out : Out} {n : Nat} (h : Inv cfg g)
    (hs : stepCore cfg g (.newWithSize n) = .ok (g', out)) : BytesKept g g' (.newWithSize n) :=
  bytesKept_of_memExt h (memExt_newWithSize hs)

theorem bytes_newWithCapacity {g g' : GState} {out : Out} {L : Layout} (h : Inv cfg g)
    (hs : stepCore cfg g (.newWithCapacity L) = .ok (g', out)) : BytesKept g g' (.newWithCapacity L) :=
  bytesKept_of_memExt h (memExt_newWithCapacity hs)

theorem bytes_newUnallocated {g g' : GState} {out : Out} (h : Inv cfg g)
    (hs : stepCore cfg g (.newUnallocated) = .ok (g', out)) : BytesKept g g' (.newUnallocated) :=
  bytesKept_of_memExt h (memExt_newUnallocated hs)

theorem bytes_deallocate {g g' : GState} {out : Out} {b : Nat} {via : Via} (h : Inv cfg g)
    (hs : stepCore cfg g (.deallocate b via) = .ok (g', out)) : BytesKept g g' (.deallocate b via) :=
  bytesKept_of_memExt h (memExt_deallocate hs)

theorem bytes_allocLayout {g g' : GState} {out : Out} {L : Layout} {hh : Hints} (h : Inv cfg g)
    (hs : stepCore cfg g (.allocLayout L hh) = .ok (g', out)) : BytesKept g g' (.allocLayout L hh) :=
  bytesKept_of_memExt h (memExt_allocLayout hs)

theorem bytes_prepare {g g' : GState} {out : Out} {L : Layout} (h : Inv cfg g)
    (hs : stepCore cfg g (.prepare L) = .ok (g', out)) : BytesKept g g' (.prepare L) :=
  bytesKept_of_memExt h (memExt_prepare hs)

theorem bytes_prepareSlice {g g' : GState} {out : Out} {esize ealign minCap : Nat} {rev : Bool} (h : Inv cfg g)
    (hs : stepCore cfg g (.prepareSlice esize ealign minCap rev) = .ok (g', out)) : BytesKept g g' (.prepareSlice esize ealign minCap rev) :=
  bytesKept_of_memExt h (memExt_prepareSlice hs)

theorem bytes_abandonPrepared {g g' : GState} {out : Out} (h : Inv cfg g)
    (hs : stepCore cfg g (.abandonPrepared) = .ok (g', out)) : BytesKept g g' (.abandonPrepared) :=
  bytesKept_of_memExt h (memExt_abandonPrepared hs)

theorem bytes_reserve {g g' : GState} {out : Out} {n : Nat} {dyn : Bool} (h : Inv cfg g)
    (hs : stepCore cfg g (.reserve n dyn) = .ok (g', out)) : BytesKept g g' (.reserve n dyn) :=
  bytesKept_of_memExt h (memExt_reserve hs)

theorem bytes_scopeEnter {g g' : GState} {out : Out} (h : Inv cfg g)
    (hs : stepCore cfg g (.scopeEnter) = .ok (g', out)) : BytesKept g g' (.scopeEnter) :=
  bytesKept_of_memExt h (memExt_scopeEnter hs)

theorem bytes_scopeExit {g g' : GState} {out : Out} (h : Inv cfg g)
    (hs : stepCore cfg g (.scopeExit) = .ok (g', out)) : BytesKept g g' (.scopeExit) :=
  bytesKept_of_memExt h (memExt_scopeExit hs)

theorem bytes_checkpoint {g g' : GState} {out : Out} {k : Nat} (h : Inv cfg g)
    (hs : stepCore cfg g (.checkpoint k) = .ok (g', out)) : BytesKept g g' (.checkpoint k) :=
  bytesKept_of_memExt h (memExt_checkpoint hs)

theorem bytes_resetTo {g g' : GState} {out : Out} {k : Nat} (h : Inv cfg g)
    (hs : stepCore cfg g (.resetTo k) = .ok (g', out)) : BytesKept g g' (.resetTo k) :=
  bytesKept_of_memExt h (memExt_resetTo hs)

theorem bytes_claim {g g' : GState} {out : Out} (h : Inv cfg g)
    (hs : stepCore cfg g (.claim) = .ok (g', out)) : BytesKept g g' (.claim) :=
  bytesKept_of_memExt h (memExt_claim hs)

theorem bytes_claimEnd {g g' : GState} {out : Out} (h : Inv cfg g)
    (hs : stepCore cfg g (.claimEnd) = .ok (g', out)) : BytesKept g g' (.claimEnd) :=
  bytesKept_of_memExt h (memExt_claimEnd hs)

theorem bytes_onClaimed {g g' : GState} {out : Out} {op : Op} (h : Inv cfg g)
    (hs : stepCore cfg g (.onClaimed op) = .ok (g', out)) : BytesKept g g' (.onClaimed op) :=
  bytesKept_of_memExt h (memExt_onClaimed hs)

theorem bytes_alignedEnter {g g' : GState} {out : Out} {n : Nat} (h : Inv cfg g)
    (hs : stepCore cfg g (.alignedEnter n) = .ok (g', out)) : BytesKept g g' (.alignedEnter n) :=
  bytesKept_of_memExt h (memExt_alignedEnter hs)

theorem bytes_alignedExit {g g' : GState} {out : Out} (h : Inv cfg g)
    (hs : stepCore cfg g (.alignedExit) = .ok (g', out)) : BytesKept g g' (.alignedExit) :=
  bytesKept_of_memExt h (memExt_alignedExit hs)

theorem bytes_scopedAlignedEnter {g g' : GState} {out : Out} {n : Nat} (h : Inv cfg g)
    (hs : stepCore cfg g (.scopedAlignedEnter n) = .ok (g', out)) : BytesKept g g' (.scopedAlignedEnter n) :=
  bytesKept_of_memExt h (memExt_scopedAlignedEnter hs)

theorem bytes_scopedAlignedExit {g g' : GState} {out : Out} (h : Inv cfg g)
    (hs : stepCore cfg g (.scopedAlignedExit) = .ok (g', out)) : BytesKept g g' (.scopedAlignedExit) :=
  bytesKept_of_memExt h (memExt_scopedAlignedExit hs)

theorem bytes_withSettings {g g' : GState} {out : Out} {n : Nat} {ga cl : Bool} (h : Inv cfg g)
    (hs : stepCore cfg g (.withSettings n ga cl) = .ok (g', out)) : BytesKept g g' (.withSettings n ga cl) :=
  bytesKept_of_memExt h (memExt_withSettings hs)

theorem bytes_allocTryWith {g g' : GState} {out : Out} {L : Layout} {off vsize : Nat} {ok : Bool} {inner : Option Layout} {mut_ : Bool} (h : Inv cfg g)
    (hs : stepCore cfg g (.allocTryWith L off vsize ok inner mut_) = .ok (g', out)) : BytesKept g g' (.allocTryWith L off vsize ok inner mut_) :=
  bytesKept_of_memExt h (memExt_allocTryWith hs)

theorem bytes_split {g g' : GState} {out : Out} {b at_ : Nat} (h : Inv cfg g)
    (hs : stepCore cfg g (.split b at_) = .ok (g', out)) : BytesKept g g' (.split b at_) :=
  bytesKept_of_memExt h (memExt_split hs)

/-! ## The step theorem -/

/-- C02 at the step level, every constructor of `Op` (no coverage side condition is needed) -/
theorem bytes_stepCore_any {g g' : GState} {op : Op} {out : Out} (h : Inv cfg g)
    (hr : RespsOK cfg g.s) (hf : RespsFresh g.s) (hs : stepCore cfg g op = .ok (g', out)) : BytesKept g g' op := by
  cases op with
  | newWithSize n => exact bytes_newWithSize h hs
  | newWithCapacity L => exact bytes_newWithCapacity h hs
  | newUnallocated => exact bytes_newUnallocated h hs
  | drop => exact bytes_drop hs
  | allocate L z via => exact bytes_allocate h hr hf hs
  | deallocate b via => exact bytes_deallocate h hs
  | grow b L z via => exact bytes_grow h hr hf hs
  | shrink b L via => exact bytes_shrink h hr hf hs
  | allocLayout L hh => exact bytes_allocLayout h hs
  | shrinkSlice b n => exact bytes_shrinkSlice h hr hf hs
  | prepare L => exact bytes_prepare h hs
  | commit size rev => exact bytes_commit h hr hs
  | prepareSlice esize ealign minCap rev => exact bytes_prepareSlice h hs
  | fillPrepared len seed => exact bytes_fillPrepared h hs
  | commitSlice len => exact bytes_commitSlice h hr hs
  | abandonPrepared => exact bytes_abandonPrepared h hs
  | reserve n dyn => exact bytes_reserve h hs
  | scopeEnter => exact bytes_scopeEnter h hs
  | scopeExit => exact bytes_scopeExit h hs
  | checkpoint k => exact bytes_checkpoint h hs
  | resetTo k => exact bytes_resetTo h hs
  | reset => exact bytes_reset hs
  | resetToStart => exact bytes_resetToStart hs
  | claim => exact bytes_claim h hs
  | claimEnd => exact bytes_claimEnd h hs
  | onClaimed op' => exact bytes_onClaimed h hs
  | alignedEnter n => exact bytes_alignedEnter h hs
  | alignedExit => exact bytes_alignedExit h hs
  | scopedAlignedEnter n => exact bytes_scopedAlignedEnter h hs
  | scopedAlignedExit => exact bytes_scopedAlignedExit h hs
  | withSettings n ga cl => exact bytes_withSettings h hs
  | allocTryWith L off vsize ok inner mut_ => exact bytes_allocTryWith h hs
  | write b seed => exact bytes_write h hs
  | split b at_ => exact bytes_split h hs

/-- the same with the signature of `inv_stepCore` (the coverage hypothesis is not used) -/
theorem bytes_stepCore {g g' : GState} {op : Op} {out : Out} (hcov : op.Covered) (h : Inv cfg g)
    (hr : RespsOK cfg g.s) (hf : RespsFresh g.s) (hs : stepCore cfg g op = .ok (g', out)) : BytesKept g g' op :=
  bytes_stepCore_any h hr hf hs

/-- C02 for `step` (third clause of `C02.live_bytes_preserved_target`): under a correct base allocator, a step
    that does not fault leaves every byte of every block that stays live, and is not the target of a `.write`,
    unchanged -/
theorem bytes_step {g g' : GState} {op : Op} {resps : List BaseResp} {out : Out} {reqs : List BaseReq}
    (h : Inv cfg g) (henv : EnvOK cfg g resps) (hs : step cfg g op resps = .ok (g', out, reqs)) :
    ∀ b ∈ g.s.live, b ∈ g'.s.live → (∀ seed, op ≠ .write b.id seed) →
      ∀ k, k < b.size → readByte g'.s (b.addr + k) = readByte g.s (b.addr + k) :=
  bytes_stepCore_any (g := install g resps) (h.install resps) henv.1 henv.2 (step_ok hs).1

end Arena.Hist
