/-
  Lemmas/TargetsZst4.lean — `BlocksBelow B` is preserved by the operations that register a new block
  (`allocate`, the typed allocations, `grow`, `shrink`, `shrink_slice`, `commit`, `commitSlice`, and `shrink` /
  `deallocate` on the claimed handle); `alloc_try_with` is in `TargetsZst5.lean`.
-/
import BumpProof.Lemmas.TargetsZst3

set_option linter.unusedSimpArgs false
set_option linter.unusedVariables false

namespace Arena.Hist
open Rs Ledger Lemmas

variable {cfg : Cfg} {B : Nat} {g g' : GState} {out : Out}

/-- registering the block `[p, p+size)` on top of a state with the same live blocks as `g.s` -/
theorem bb_addBlock {s2 : State} (hbb : BlocksBelow B g.s) (hl : s2.live = g.s.live) {p size align init : Nat}
    (hp : p + size ≤ B) : BlocksBelow B (addBlock s2 p size align init).1 := by
  refine BlocksBelow.of_append (s := s2) (l := s2.live) rfl (BlocksBelow.of_live_eq hl hbb) hp

/-- … or with one block removed -/
theorem bb_replaceBlock {s2 : State} (hbb : BlocksBelow B g.s) (hl : s2.live = g.s.live) {id p size align init : Nat}
    (hp : p + size ≤ B) : BlocksBelow B (addBlock (removeBlock s2 id) p size align init).1 := by
  refine BlocksBelow.of_append (s := removeBlock s2 id) (l := (removeBlock s2 id).live) rfl ?_ hp
  exact BlocksBelow.of_filter (s := g.s) (l := s2.live) rfl hl hbb

theorem zero_or_id_cov {s1 s2 : State} {z : Bool} {p n : Nat}
    (hz : (if z then zeroRange cfg s1 p n else pure s1) = .ok s2) : ChunksCov s1 s2 ∧ s2.live = s1.live := by
  cases z
  · simp only [Bool.false_eq_true, ↓reduceIte] at hz
    cases hz
    exact ⟨ChunksCov.refl _, rfl⟩
  · simp only [↓reduceIte] at hz
    exact ⟨(tr_zeroRange hz).cov, lv_zeroRange hz⟩

theorem bb_allocate {L : Layout} {z : Bool} {via : Via} (h : Inv cfg g) (hr : RespsOK cfg g.s) (hf : RespsFresh g.s)
    (hbb : BlocksBelow B g.s) (hB' : ChunksBelow B g'.s)
    (hs : stepCore cfg g (.allocate L z via) = .ok (g', out)) : BlocksBelow B g'.s := by
  unfold stepCore at hs
  simp only [bind, Except.bind, pure, Except.pure] at hs
  split at hs
  · cases hs
  · rename_i u hu
    have hL := validLayout_valid hu
    split at hs
    · cases hs
    · split at hs
      · cases hs
      · rename_i x hx
        obtain ⟨s1, r1⟩ := x
        cases r1 with
        | error e =>
          simp only at hs
          cases hs
          exact BlocksBelow.of_live_eq (lv_alloc hx) hbb
        | ok p =>
          simp only at hs
          cases z
          · simp only [Bool.false_eq_true, ↓reduceIte] at hs
            cases hs
            have hp := alloc_below h.cfgOK h.geom hr h.disj hf h.live hL hx (ChunksBelow.of_eq rfl hB')
            exact bb_addBlock hbb (lv_alloc hx) hp
          · simp only [↓reduceIte] at hs
            split at hs
            · cases hs
            · rename_i s2 hz
              cases hs
              have hB2 : ChunksBelow B s2 := ChunksBelow.of_eq rfl hB'
              have hp := alloc_below h.cfgOK h.geom hr h.disj hf h.live hL hx
                (ChunksBelow.of_cov (tr_zeroRange hz).cov hB2)
              exact bb_addBlock hbb ((lv_zeroRange hz).trans (lv_alloc hx)) hp

theorem bb_allocLayout {L : Layout} {hh : Hints} (h : Inv cfg g) (hr : RespsOK cfg g.s) (hf : RespsFresh g.s)
    (hbb : BlocksBelow B g.s) (hB' : ChunksBelow B g'.s)
    (hs : stepCore cfg g (.allocLayout L hh) = .ok (g', out)) : BlocksBelow B g'.s := by
  unfold stepCore at hs
  simp only [bind, Except.bind, pure, Except.pure] at hs
  split at hs
  · cases hs
  · rename_i u hu
    have hL := validLayout_valid hu
    split at hs
    · cases hs
    · split at hs
      · cases hs
      · rename_i hchk
        have htr : hh.sma = true → L.align ∣ L.size := by
          intro hsma
          simp only [hsma, Bool.true_and, bne_iff_ne, ne_eq, Decidable.not_not] at hchk
          exact Nat.dvd_of_mod_eq_zero hchk
        split at hs
        · cases hs
        · rename_i x hx
          obtain ⟨s1, r1⟩ := x
          cases r1 with
          | error e =>
            simp only at hs
            cases hs
            exact BlocksBelow.of_live_eq (lv_allocGeneric hx) hbb
          | ok v =>
            obtain ⟨v1, v2⟩ := v
            simp only at hs
            cases hs
            have hp := allocGeneric_alloc_below h.cfgOK h.geom hr h.disj hf h.live hL htr (custom_truthful L) hx
              (ChunksBelow.of_eq rfl hB')
            exact bb_addBlock hbb (lv_allocGeneric hx) hp

theorem bb_grow {b : Nat} {L : Layout} {z : Bool} {via : Via} (h : Inv cfg g) (hr : RespsOK cfg g.s)
    (hf : RespsFresh g.s) (hbb : BlocksBelow B g.s) (hB' : ChunksBelow B g'.s)
    (hs : stepCore cfg g (.grow b L z via) = .ok (g', out)) : BlocksBelow B g'.s := by
  unfold stepCore at hs
  simp only [bind, Except.bind, pure, Except.pure] at hs
  split at hs
  · cases hs
  · rename_i u hu
    have hL := validLayout_valid hu
    split at hs
    · cases hs
    · split at hs
      · cases hs
      · rename_i blk hblk
        obtain ⟨hb, hid⟩ := Mem.findBlock_ok hblk
        split at hs
        · cases hs
        · split at hs
          · cases hs
          · rename_i x hx
            obtain ⟨s1, r1⟩ := x
            cases r1 with
            | error e =>
              simp only at hs
              cases hs
              exact BlocksBelow.of_live_eq (lv_grow hx) hbb
            | ok np =>
              simp only at hs
              cases z
              · simp only [Bool.false_eq_true, ↓reduceIte] at hs
                cases hs
                have hp := grow_below h hr hf hb hL hx (ChunksBelow.of_eq rfl hB') (hbb blk hb)
                exact bb_replaceBlock hbb (lv_grow hx) hp
              · simp only [↓reduceIte] at hs
                split at hs
                · cases hs
                · rename_i s2 hz
                  cases hs
                  have hB2 : ChunksBelow B s2 := ChunksBelow.of_eq rfl hB'
                  have hp := grow_below h hr hf hb hL hx (ChunksBelow.of_cov (tr_zeroRange hz).cov hB2) (hbb blk hb)
                  exact bb_replaceBlock hbb ((lv_zeroRange hz).trans (lv_grow hx)) hp

theorem bb_shrink {b : Nat} {L : Layout} {via : Via} (h : Inv cfg g) (hr : RespsOK cfg g.s)
    (hf : RespsFresh g.s) (hbb : BlocksBelow B g.s) (hB' : ChunksBelow B g'.s)
    (hs : stepCore cfg g (.shrink b L via) = .ok (g', out)) : BlocksBelow B g'.s := by
  unfold stepCore at hs
  simp only [bind, Except.bind, pure, Except.pure] at hs
  split at hs
  · cases hs
  · rename_i u hu
    have hL := validLayout_valid hu
    split at hs
    · cases hs
    · split at hs
      · cases hs
      · rename_i blk hblk
        obtain ⟨hmem, hid⟩ := Mem.findBlock_ok hblk
        split at hs
        · cases hs
        · rename_i hsz
          have hsz' : L.size ≤ blk.size := by omega
          split at hs
          all_goals
            split at hs
            · cases hs
            · rename_i x hx
              obtain ⟨s1, r1⟩ := x
              cases r1 with
              | error e =>
                simp only at hs
                cases hs
                first
                | exact BlocksBelow.of_live_eq (lv_shrinkWithoutShrink hx) hbb
                | exact BlocksBelow.of_live_eq (lv_shrink hx) hbb
              | ok v =>
                obtain ⟨np, nsize⟩ := v
                simp only at hs
                cases hs
                first
                | exact bb_replaceBlock hbb (lv_shrinkWithoutShrink hx)
                    (shrinkWithoutShrink_below h hr hf hmem hL hsz' hx (ChunksBelow.of_eq rfl hB') (hbb blk hmem))
                | exact bb_replaceBlock hbb (lv_shrink hx)
                    (shrink_below h hr hf hmem hL hx (ChunksBelow.of_eq rfl hB') (hbb blk hmem))

theorem bb_shrinkSlice {b newSize : Nat} (h : Inv cfg g) (hbb : BlocksBelow B g.s)
    (hs : stepCore cfg g (.shrinkSlice b newSize) = .ok (g', out)) : BlocksBelow B g'.s := by
  unfold stepCore at hs
  simp only [bind, Except.bind, pure, Except.pure] at hs
  split at hs
  · cases hs
  · split at hs
    · cases hs
    · rename_i blk hblk
      obtain ⟨hmem, hid⟩ := Mem.findBlock_ok hblk
      split at hs
      · cases hs
      · rename_i hsz
        have hsz' : newSize ≤ blk.size := by omega
        split at hs
        · cases hs
        · rename_i x hx
          obtain ⟨s1, r1⟩ := x
          cases r1 with
          | none =>
            simp only at hs
            cases hs
            exact BlocksBelow.of_live_eq (lv_shrinkSlice hx) hbb
          | some np =>
            simp only at hs
            cases hs
            exact bb_replaceBlock hbb (lv_shrinkSlice hx) (shrinkSlice_below h hmem hsz' hx (hbb blk hmem))

/-- a prepared range lies in the current chunk, hence ends at or below `B` -/
theorem prepared_below (h : Inv cfg g) (hB : ChunksBelow B g.s) {p : Prepared} (hp : g.s.prepared = some p) :
    p.rstart ≤ p.rend ∧ p.rend ≤ B := by
  obtain ⟨i, c, hcur, hi, hle, hfree⟩ := (h.prep p hp).range
  have hw := h.geom.chunks i c hi
  have h1 := hw.pos_le
  have h2 := contentEnd_le_end (cfg := cfg) (c := c)
  have h3 := hB.get hi
  refine ⟨hle, ?_⟩
  cases hup : cfg.up
  · simp only [hup, Bool.false_eq_true, ↓reduceIte] at hfree; omega
  · simp only [hup, ↓reduceIte] at hfree; omega

theorem bb_commit {size : Nat} {rev : Bool} (h : Inv cfg g) (hbb : BlocksBelow B g.s) (hB : ChunksBelow B g.s)
    (hs : stepCore cfg g (.commit size rev) = .ok (g', out)) : BlocksBelow B g'.s := by
  unfold stepCore at hs
  simp only [bind, Except.bind, pure, Except.pure] at hs
  split at hs
  · rename_i p hp
    obtain ⟨hle, hend⟩ := prepared_below h hB hp
    split at hs
    · cases hs
    · split at hs
      · cases hs
      · rename_i hchk
        simp only [Bool.or_eq_true, decide_eq_true_eq, bne_iff_ne, ne_eq, not_or, Nat.not_lt, Decidable.not_not] at hchk
        obtain ⟨hsz, hmod⟩ := hchk
        split at hs
        · cases hs
        · rename_i x hx
          obtain ⟨s', addr⟩ := x
          simp only at hs
          cases hs
          have hcm := allocatePrepared_cases (s := { g.s with prepared := none }) h.geom.minAlign hx
          obtain ⟨s1, np, _, _, _, hdir⟩ := hcm.mid
          have hp' : addr + size ≤ B := by
            cases hup : cfg.up
            · simp only [hup, Bool.false_eq_true, ↓reduceIte] at hdir; omega
            · simp only [hup, ↓reduceIte] at hdir; omega
          exact bb_addBlock hbb (lv_allocatePrepared (s := { g.s with prepared := none }) hx) hp'
  · cases hs

theorem bb_commitSlice {len : Nat} (h : Inv cfg g) (hbb : BlocksBelow B g.s) (hB : ChunksBelow B g.s)
    (hs : stepCore cfg g (.commitSlice len) = .ok (g', out)) : BlocksBelow B g'.s := by
  unfold stepCore at hs
  simp only [bind, Except.bind, pure, Except.pure] at hs
  split at hs
  · rename_i p hp
    have hpo := h.prep p hp
    obtain ⟨hle, hend⟩ := prepared_below h hB hp
    split at hs
    · cases hs
    · rename_i htyped
      have hty : p.typed = true := by simpa using htyped
      obtain ⟨hes, hae, hdv⟩ := hpo.typed hty
      split at hs
      · cases hs
      · rename_i hchk
        have hlen : len ≤ (p.rend - p.rstart) / p.esize := by simpa using hchk
        split at hs
        · cases hs
        · rename_i x hx
          obtain ⟨s', addr⟩ := x
          simp only at hs
          cases hs
          have hcap : (p.rend - p.rstart) / p.esize * p.esize = p.rend - p.rstart := Nat.div_mul_cancel hdv
          have hlo : (if p.rev then (if p.rev then p.rend else p.rstart) - (p.rend - p.rstart) / p.esize * p.esize
              else (if p.rev then p.rend else p.rstart)) = p.rstart := by
            rw [hcap]; cases p.rev <;> simp <;> omega
          have hhi : (if p.rev then (if p.rev then p.rend else p.rstart)
              else (if p.rev then p.rend else p.rstart) + (p.rend - p.rstart) / p.esize * p.esize) = p.rend := by
            rw [hcap]; cases p.rev <;> simp <;> omega
          have hrev : p.rev = true → (p.rend - p.rstart) / p.esize * p.esize ≤ (if p.rev then p.rend else p.rstart) := by
            intro hrv; rw [hcap, hrv]; simp
          have hcm := allocatePreparedSlice_cases (s := { g.s with prepared := none }) h.geom.minAlign hlen hrev hx
          rw [hlo, hhi] at hcm
          have hmul : len * p.esize ≤ p.rend - p.rstart := by
            rw [← hcap]; exact Nat.mul_le_mul_right _ hlen
          obtain ⟨s1, np, _, _, _, hdir⟩ := hcm.mid
          have hp' : addr + len * p.esize ≤ B := by
            cases hup : cfg.up
            · simp only [hup, Bool.false_eq_true, ↓reduceIte] at hdir; omega
            · simp only [hup, ↓reduceIte] at hdir; omega
          exact bb_addBlock hbb (lv_allocatePreparedSlice (s := { g.s with prepared := none }) hx) hp'
  · cases hs

/-- operations addressed to the claimed handle: nothing changes, a block is forgotten, or a block is registered
    again as it is -/
theorem bb_onClaimed {op : Op} (hbb : BlocksBelow B g.s)
    (hs : stepCore cfg g (.onClaimed op) = .ok (g', out)) : BlocksBelow B g'.s := by
  unfold stepCore at hs
  simp only [bind, Except.bind, pure, Except.pure] at hs
  split at hs
  · cases hs
  · cases op
    all_goals simp only [] at hs
    all_goals first | (cases hs; done) | skip
    case claim => cases hs; exact hbb
    case allocate => (repeat' split at hs) <;> first | (cases hs; done) | (cases hs; exact hbb)
    case allocLayout => (repeat' split at hs) <;> first | (cases hs; done) | (cases hs; exact hbb)
    case reserve => (repeat' split at hs) <;> first | (cases hs; done) | (cases hs; exact hbb)
    case grow => (repeat' split at hs) <;> first | (cases hs; done) | (cases hs; exact hbb)
    case deallocate b via =>
      split at hs
      · cases hs
      · rename_i blk hb
        split at hs
        · cases hs
        · rename_i s' hd
          have e := deallocate_claimed_eq rfl hd
          subst e
          cases hs
          exact BlocksBelow.of_filter (s := g.s) (l := g.s.live) rfl rfl hbb
    case shrink b L via =>
      split at hs
      · cases hs
      · split at hs
        · cases hs
        · rename_i blk hb
          obtain ⟨hmem, hid⟩ := Mem.findBlock_ok hb
          split at hs
          · split at hs
            · cases hs
            · rename_i heq; cases heq
          · split at hs
            · split at hs
              · cases hs
              · rename_i heq; cases heq
            · rename_i hnfit
              have hfit : alignFits blk.addr L.align = true := by
                cases hq : alignFits blk.addr L.align
                · rw [hq] at hnfit; exact absurd rfl hnfit
                · rfl
              split at hs
              · cases hs
              · rename_i v hv
                obtain ⟨s', r⟩ := v
                obtain ⟨e1, e2⟩ := shrink_claimed_eq rfl hfit hv
                subst e1 e2
                simp only at hs
                cases hs
                exact bb_replaceBlock (g := g) (s2 := g.s) hbb rfl (hbb blk hmem)

end Arena.Hist
