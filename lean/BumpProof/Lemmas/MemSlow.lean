/-
  Lemmas/MemSlow.lean — the allocation slow path (`inAnotherChunk`): on which state the final
  `tryCur` runs (`SlowTry`), and that an allocation served there keeps `LiveOK`.
-/
import BumpProof.Lemmas.MemLive

set_option linter.unusedSimpArgs false

namespace Arena.Mem
open Rs

/-- the ghost fields an allocation path never touches -/
def SameGhost (s s' : State) : Prop := s'.live = s.live ∧ s'.minAlign = s.minAlign

theorem SameGhost.refl (s : State) : SameGhost s s := ⟨rfl, rfl⟩
theorem SameGhost.trans {s t u : State} (h1 : SameGhost s t) (h2 : SameGhost t u) : SameGhost s u :=
  ⟨h2.1.trans h1.1, h2.2.trans h1.2⟩

theorem tryCur_sameGhost {cfg : Cfg} {k : Kind} {s s' : State} {L : Layout} {h : Hints} {v : Nat × Nat}
    (hr : tryCur cfg k s L h = .ok (some (v, s'))) : SameGhost s s' := by
  rcases tryCur_state hr with rfl | ⟨p, rfl⟩
  · exact SameGhost.refl _
  · unfold setCurPos
    split
    · exact ⟨rfl, rfl⟩
    · exact ⟨rfl, rfl⟩

/-- a successful `newChunk`, in full -/
theorem newChunk_ok_full {cfg : Cfg} {s s' : State} {size i : Nat}
    (h : newChunk cfg s size = .ok (s', .ok i)) :
    ∃ p g rest size', s.resps = .granted p g :: rest ∧
      Gen.SizeConfig.align_size (sizeCfg cfg) g = .ok size' ∧ i = s.chunks.length ∧
      s'.chunks = s.chunks ++ [freshChunk cfg p g size size'] ∧ SameGhost s s' := by
  have hg : SameGhost s s' := by
    unfold newChunk at h
    simp only [bind, Except.bind, pure, Except.pure] at h
    repeat' split at h
    all_goals first | (cases h; done) | (cases h)
    all_goals exact ⟨rfl, rfl⟩
  rcases newChunk_ok h with ⟨_, e, he⟩ | ⟨p, g, rest, size', h1, h2, _, h4, h5⟩
  · cases he
  · cases h4
    exact ⟨p, g, rest, size', h1, h2, rfl, h5, hg⟩

theorem newChunkForCapacity_ok_full {cfg : Cfg} {s s' : State} {L : Layout} {i : Nat}
    (h : newChunkForCapacity cfg s L = .ok (s', .ok i)) :
    ∃ p g rest size size', s.resps = .granted p g :: rest ∧
      Gen.SizeConfig.align_size (sizeCfg cfg) g = .ok size' ∧ i = s.chunks.length ∧
      s'.chunks = s.chunks ++ [freshChunk cfg p g size size'] ∧ SameGhost s s' := by
  unfold newChunkForCapacity at h
  simp only [bind, Except.bind, pure, Except.pure] at h
  split at h
  · cases h
  · split at h
    · cases h
    · split at h
      · cases h
      · split at h
        · cases h
        · rename_i size _
          obtain ⟨p, g, rest, size', h1, h2, h3, h4, h5⟩ := newChunk_ok_full h
          exact ⟨p, g, rest, size, size', h1, h2, h3, h4, h5⟩

theorem appendFor_ok_full {cfg : Cfg} {s s' : State} {L : Layout} {i : Nat}
    (h : appendFor cfg s L = .ok (s', .ok i)) :
    ∃ p g rest size size', s.resps = .granted p g :: rest ∧
      Gen.SizeConfig.align_size (sizeCfg cfg) g = .ok size' ∧ i = s.chunks.length ∧
      s'.chunks = s.chunks ++ [freshChunk cfg p g size size'] ∧ SameGhost s s' := by
  unfold appendFor at h
  simp only [bind, Except.bind, pure, Except.pure] at h
  split at h
  · cases h
  · split at h
    · cases h
    · split at h
      · cases h
      · split at h
        · cases h
        · split at h
          · cases h
          · split at h
            · cases h
            · rename_i size _
              obtain ⟨p, g, rest, size', h1, h2, h3, h4, h5⟩ := newChunk_ok_full h
              exact ⟨p, g, rest, size, size', h1, h2, h3, h4, h5⟩

/-- the state `t` on which the slow path finally calls `tryCur`: chunk `i'` (a later chunk of `s`, reset,
    or the chunk just obtained from the base allocator) is current; nothing else of interest changed -/
structure SlowTry (cfg : Cfg) (s t : State) (i' : Nat) (ct : Chunk) : Prop where
  cur : t.cur = .chunk i'
  chunk : t.chunks[i']? = some ct
  origin : (∃ c, s.chunks[i']? = some c ∧ ct = c.resetPos cfg) ∨
           (∃ p g rest size size', s.resps = .granted p g :: rest ∧
              Gen.SizeConfig.align_size (sizeCfg cfg) g = .ok size' ∧
              ct = freshChunk cfg p g size size' ∧ i' = s.chunks.length)
  after : ∀ j, j < s.chunks.length → (∀ i, s.cur = .chunk i → j ≤ i) → j < i'
  ext : MemExt s t
  wf : WFPres s t
  ghost : SameGhost s t

theorem walkNext_detail {cfg : Cfg} {k : Kind} {L : Layout} {h : Hints} (fuel : Nat) :
    ∀ (i : Nat) (s : State) (r : Option ((Nat × Nat) × State)) (s2 : State),
      walkNext cfg k L h fuel i s = .ok (r, s2) →
      (SameGhost s s2 ∧ s2.chunks.length = s.chunks.length) ∧
      ∀ v s', r = some (v, s') →
        ∃ t i' c, i < i' ∧ s.chunks[i']? = some c ∧ t.cur = .chunk i' ∧ t.chunks[i']? = some (c.resetPos cfg) ∧
          tryCur cfg k t L h = .ok (some (v, s')) ∧ ShapeSame s t ∧ memOf t = memOf s ∧ SameGhost s t := by
  induction fuel with
  | zero =>
    intro i s r s2 hw
    unfold walkNext at hw
    cases hw
    exact ⟨⟨SameGhost.refl _, rfl⟩, fun _ _ h => by cases h⟩
  | succ n ih =>
    intro i s r s2 hw
    unfold walkNext at hw
    split at hw
    · cases hw
      exact ⟨⟨SameGhost.refl _, rfl⟩, fun _ _ h => by cases h⟩
    · rename_i c hc
      simp only [bind, Except.bind, pure, Except.pure] at hw
      have hlt : i + 1 < s.chunks.length := (List.getElem?_eq_some_iff.mp hc).1
      have hmem := memOf_set_resetPos cfg s (i+1) c hc (.chunk (i+1))
      have hshape : ShapeSame s { s with chunks := s.chunks.set (i+1) (c.resetPos cfg), cur := .chunk (i+1) } :=
        ⟨shapeOf_of_memOf hmem, rfl⟩
      have hghost : SameGhost s { s with chunks := s.chunks.set (i+1) (c.resetPos cfg), cur := .chunk (i+1) } :=
        ⟨rfl, rfl⟩
      have hlen : ({ s with chunks := s.chunks.set (i+1) (c.resetPos cfg), cur := Cur.chunk (i+1) } : State).chunks.length
          = s.chunks.length := by simp
      split at hw
      · cases hw
      · rename_i o ho
        split at hw
        · rename_i x
          cases hw
          obtain ⟨v, s'⟩ := x
          have hg2 := tryCur_sameGhost ho
          have hs2 := tryCur_shapeSame ho
          refine ⟨⟨hghost.trans hg2, ?_⟩, ?_⟩
          · have := congrArg List.length hs2.1
            unfold shapeOf at this
            simp only [List.length_map, List.length_set] at this
            exact this
          · intro v' s'' hv
            cases hv
            refine ⟨_, i+1, c, Nat.lt_succ_self i, hc, rfl, ?_, ho, hshape, hmem, hghost⟩
            simp only [List.getElem?_set_self hlt]
        · obtain ⟨⟨g1, l1⟩, ih2⟩ := ih _ _ _ _ hw
          refine ⟨⟨hghost.trans g1, l1.trans hlen⟩, ?_⟩
          intro v s' hv
          obtain ⟨t, i', c', h1, h2, h3, h4, h5, h6, h7, h8⟩ := ih2 v s' hv
          refine ⟨t, i', c', by omega, ?_, h3, h4, h5, hshape.trans h6, h7.trans hmem, hghost.trans h8⟩
          rw [List.getElem?_set_ne (by omega)] at h2
          exact h2

theorem getElem?_append_singleton_length {α} (l : List α) (x : α) : (l ++ [x])[l.length]? = some x := by
  simp

/-- the `fresh` continuation of `inAnotherChunk`, given the facts about the state after chunk creation -/
theorem slowTry_fresh {cfg : Cfg} {s s0 x1 : State} {p g size size' : Nat} {rest : List BaseResp}
    (hresp : s.resps = .granted p g :: rest)
    (hal : Gen.SizeConfig.align_size (sizeCfg cfg) g = .ok size')
    (hlen : s0.chunks.length = s.chunks.length)
    (hch : x1.chunks = s0.chunks ++ [freshChunk cfg p g size size'])
    (hext : MemExt s x1) (hwf : WFPres s x1) (hgh : SameGhost s x1) :
    SlowTry cfg s { x1 with cur := .chunk s0.chunks.length } s0.chunks.length (freshChunk cfg p g size size') := by
  refine ⟨rfl, ?_, .inr ⟨p, g, rest, size, size', hresp, hal, rfl, hlen⟩, ?_, ?_, ?_, hgh⟩
  · show x1.chunks[s0.chunks.length]? = _
    rw [hch]; exact getElem?_append_singleton_length _ _
  · intro j hj _; omega
  · exact hext.trans (MemExt.of_eq (memOf_with_cur x1 _))
  · exact hwf.shape_right rfl

/-- inversion of a successful slow-path allocation: it ends with a successful `tryCur` on a state `t`
    described by `SlowTry` -/
theorem inAnotherChunk_inv {cfg : Cfg} {k : Kind} {s s' : State} {L : Layout} {h : Hints} {v : Nat × Nat}
    (hr : inAnotherChunk cfg k s L h = .ok (s', .ok v)) :
    ∃ t i' ct, SlowTry cfg s t i' ct ∧ tryCur cfg k t L h = .ok (some (v, s')) := by
  unfold inAnotherChunk at hr
  simp only [bind, Except.bind, pure, Except.pure] at hr
  split at hr
  · cases hr
  · split at hr
    · cases hr
    · rename_i x hx
      obtain ⟨x1, x2⟩ := x
      cases x2 with
      | error e => simp only at hr; cases hr
      | ok i =>
        simp only at hr
        split at hr
        · cases hr
        · rename_i o ho
          split at hr
          · cases hr
            obtain ⟨p, g, rest, size, size', h1, h2, h3, h4, h5⟩ := newChunkForCapacity_ok_full hx
            subst h3
            exact ⟨_, _, _, slowTry_fresh h1 h2 rfl h4 (newChunkForCapacity_memExt hx)
              (newChunkForCapacity_wfPres hx) h5, ho⟩
          · cases hr
  · rename_i i hcur
    split at hr
    · cases hr
    · rename_i w hw
      obtain ⟨wr, ws⟩ := w
      obtain ⟨⟨hg, hlen⟩, hdet⟩ := walkNext_detail _ _ _ _ _ hw
      have hss := (walkNext_shapeSame _ _ _ _ _ hw).1
      have hmm := (walkNext_memOf _ _ _ _ _ hw).1
      split at hr
      · rename_i v1 s1 _ heq
        cases hr
        cases heq
        obtain ⟨t, i', c, a1, a2, a3, a4, a5, a6, a7, a8⟩ := hdet _ _ rfl
        refine ⟨t, i', _, ⟨a3, a4, .inl ⟨c, a2, rfl⟩, ?_, MemExt.of_eq a7, a6.wfPres, a8⟩, a5⟩
        intro j _ hj
        have := hj i hcur
        omega
      · rename_i s1 heq
        cases heq
        split at hr
        · cases hr
        · rename_i x hx
          obtain ⟨x1, x2⟩ := x
          cases x2 with
          | error e => simp only at hr; cases hr
          | ok i3 =>
            simp only at hr
            split at hr
            · cases hr
            · rename_i o ho
              split at hr
              · cases hr
                obtain ⟨p, g, rest, size, size', h1, h2, h3, h4, h5⟩ := appendFor_ok_full hx
                subst h3
                rw [hss.2] at h1
                exact ⟨_, _, _, slowTry_fresh h1 h2 hlen h4
                  ((MemExt.of_eq hmm).trans (appendFor_memExt hx))
                  (WFPres.same_left hss (appendFor_wfPres hx)) (hg.trans h5), ho⟩
              · cases hr

theorem MemExt.getElem? {s t : State} (h : MemExt s t) {j : Nat} {c : Chunk} (hc : s.chunks[j]? = some c) :
    ∃ c', t.chunks[j]? = some c' ∧ c'.base = c.base ∧ c'.size = c.size := by
  obtain ⟨e, h⟩ := h
  have hlt : j < s.chunks.length := (List.getElem?_eq_some_iff.mp hc).1
  have h1 : (memOf t)[j]? = some c.memCell := by
    rw [h, List.getElem?_append_left (by unfold memOf; simpa using hlt)]
    unfold memOf
    simp only [List.getElem?_map, hc, Option.map_some]
  unfold memOf at h1
  simp only [List.getElem?_map] at h1
  cases hc' : t.chunks[j]? with
  | none => rw [hc'] at h1; cases h1
  | some c' =>
    rw [hc'] at h1
    simp only [Option.map_some, Option.some.injEq] at h1
    exact ⟨c', rfl, congrArg (·.1) h1, congrArg (·.2.1) h1⟩

theorem InContent.of_same {cfg : Cfg} {c c' : Chunk} (hb : c'.base = c.base) (hs : c'.size = c.size) {a sz : Nat}
    (h : InContent cfg c a sz) : InContent cfg c' a sz := by
  unfold InContent Chunk.contentStart Chunk.contentEnd at h ⊢
  rw [hb, hs]; exact h

theorem SlowTry.isReset {cfg : Cfg} {s t : State} {i' : Nat} {ct : Chunk} (h : SlowTry cfg s t i' ct) :
    ct.pos = if cfg.up then ct.contentStart cfg else ct.contentEnd cfg := by
  rcases h.origin with ⟨c, _, rfl⟩ | ⟨p, g, rest, size, size', _, _, rfl, _⟩
  · rfl
  · unfold freshChunk Chunk.contentStart Chunk.contentEnd
    cases cfg.up <;> rfl

/-- an allocation served by the slow path establishes `AllocOutcome` -/
theorem allocOutcome_slow {cfg : Cfg} {s t s' : State} {i' : Nat} {ct : Chunk} {L : Layout} {h : Hints} {p x : Nat}
    (hl : LiveOK cfg s) (hwf : MemWF s) (hfr : HeadFresh s)
    (hst : SlowTry cfg s t i' ct) (hv : C11.Valid cfg.up (bumpProps cfg t L h))
    (hr : tryCur cfg .alloc t L h = .ok (some ((p, x), s'))) :
    AllocOutcome cfg s' p L.size ∧ L.align ∣ p := by
  obtain ⟨i, c, np, hcur, hc, hal, _, hcv, rfl⟩ := tryCur_alloc_carved hv hr
  have hii : i = i' := by have := hst.cur; rw [hcur] at this; cases this; rfl
  subst hii
  have hcc : c = ct := by have := hst.chunk; rw [hc] at this; cases this; rfl
  subst hcc
  have hreset := hst.isReset
  have hnew : InContent cfg c p L.size := by
    unfold Carved at hcv
    unfold InContent
    split at hcv <;> simp_all <;> omega
  have hwft : MemWF t := hst.wf hwf hfr
  have hd' : ChunksDisjoint (setPos t i np).chunks := (MemWF.of_shape (shapeOf_setPos t i np) hwft).1
  have hself := setPos_getElem?_self hc np
  have hlive : (setPos t i np).live = s.live := hst.ghost.1
  -- an old non-empty block: where it lies in the final state
  have hold : ∀ b ∈ s.live, 0 < b.size → ∃ j c', j < i ∧ (setPos t i np).chunks[j]? = some c' ∧
      InContent cfg c' b.addr b.size := by
    intro b hb hs
    obtain ⟨i0, j, cj, h1, h2, h3, h4, _⟩ := hl.placed b hb hs
    have hjl : j < s.chunks.length := (List.getElem?_eq_some_iff.mp h3).1
    have hji : j < i := hst.after j hjl (fun i1 hi1 => by rw [h1] at hi1; cases hi1; exact h2)
    obtain ⟨c', hc', e1, e2⟩ := hst.ext.getElem? h3
    exact ⟨j, c', hji, (setPos_getElem?_ne (by omega) np).trans hc', h4.of_same e1 e2⟩
  refine ⟨⟨⟨?_, ?_, ?_⟩, ?_, ?_⟩, hal⟩
  · rw [hlive]; exact hl.aligned
  · intro b hb hs
    rw [hlive] at hb
    obtain ⟨j, c', hji, hc', hin⟩ := hold b hb hs
    exact ⟨i, j, c', hcur, by omega, hc', hin, fun e => by omega⟩
  · rw [hlive]; exact hl.disjoint
  · refine ⟨i, i, _, hcur, Nat.le_refl _, hself, hnew, fun _ => ?_⟩
    unfold OnAllocatedSide
    unfold Carved at hcv
    simp only
    split at hcv <;> simp_all
  · intro b hb
    rw [hlive] at hb
    by_cases hs : 0 < b.size
    · obtain ⟨j, c', hji, hc', hin⟩ := hold b hb hs
      exact inContent_disjoint_chunks hd' hself hc' (by omega) hin hnew
    · left; omega

theorem alloc_inv_gen {cfg : Cfg} {s s1 : State} {L : Layout} {r : Except AErr Nat} (h : alloc cfg s L = .ok (s1, r)) :
    (∃ p x, r = .ok p ∧ tryCur cfg .alloc s L Hints.custom = .ok (some ((p, x), s1))) ∨
    (tryCur cfg .alloc s L Hints.custom = .ok none ∧
      ∃ r', inAnotherChunk cfg .alloc s L Hints.custom = .ok (s1, r') ∧ r = r'.map (·.1)) := by
  unfold alloc allocGeneric at h
  simp only [bind, Except.bind, pure, Except.pure] at h
  split at h
  · cases h
  · rename_i y hy
    obtain ⟨y1, y2⟩ := y
    simp only at h
    cases h
    split at hy
    · cases hy
    · rename_i o ho
      split at hy
      · rename_i v s'
        cases hy
        obtain ⟨v1, v2⟩ := v
        exact .inl ⟨v1, v2, rfl, ho⟩
      · exact .inr ⟨ho, y2, hy, rfl⟩

theorem alloc_inv {cfg : Cfg} {s s1 : State} {L : Layout} {p : Nat} (h : alloc cfg s L = .ok (s1, .ok p)) :
    (∃ x, tryCur cfg .alloc s L Hints.custom = .ok (some ((p, x), s1))) ∨
    (tryCur cfg .alloc s L Hints.custom = .ok none ∧
      ∃ x, inAnotherChunk cfg .alloc s L Hints.custom = .ok (s1, .ok (p, x))) := by
  rcases alloc_inv_gen h with ⟨p', x, hp, ht⟩ | ⟨hn, r', hi, hr⟩
  · cases hp; exact .inl ⟨x, ht⟩
  · cases r' with
    | error e => cases hr
    | ok v =>
      obtain ⟨v1, v2⟩ := v
      cases hr
      exact .inr ⟨hn, v2, hi⟩

/-- `alloc` (fast or slow path) establishes `AllocOutcome`: the block is aligned, lies in the content
    range of the (new) current chunk on the allocated side, and is disjoint from every live block -/
theorem alloc_allocOutcome {cfg : Cfg} {s s1 : State} {L : Layout} {p : Nat}
    (hl : LiveOK cfg s) (hwf : MemWF s) (hfr : HeadFresh s) (hp : CurPosOK cfg s)
    (hv : C11.Valid cfg.up (bumpProps cfg s L Hints.custom))
    (hvslow : ∀ t i' ct, SlowTry cfg s t i' ct → C11.Valid cfg.up (bumpProps cfg t L Hints.custom))
    (h : alloc cfg s L = .ok (s1, .ok p)) : AllocOutcome cfg s1 p L.size ∧ L.align ∣ p := by
  rcases alloc_inv h with ⟨x, hf⟩ | ⟨_, x, hs⟩
  · exact allocOutcome_tryCur hl hwf.1 hp hv hf
  · obtain ⟨t, i', ct, hst, htry⟩ := inAnotherChunk_inv hs
    exact allocOutcome_slow hl hwf hfr hst (hvslow t i' ct hst) htry

/-! ## A failed allocation -/

/-- only bookkeeping of the base-allocator traffic differs -/
def SameArena (s s' : State) : Prop := s'.chunks = s.chunks ∧ s'.cur = s.cur ∧ s'.live = s.live

theorem newChunk_error {cfg : Cfg} {s s' : State} {size : Nat} {e : AErr}
    (h : newChunk cfg s size = .ok (s', .error e)) : SameArena s s' := by
  unfold newChunk at h
  simp only [bind, Except.bind, pure, Except.pure] at h
  repeat' split at h
  all_goals first | (cases h; done) | (cases h)
  all_goals exact ⟨rfl, rfl, rfl⟩

theorem newChunkForCapacity_error {cfg : Cfg} {s s' : State} {L : Layout} {e : AErr}
    (h : newChunkForCapacity cfg s L = .ok (s', .error e)) : SameArena s s' := by
  unfold newChunkForCapacity at h
  simp only [bind, Except.bind, pure, Except.pure] at h
  split at h
  · cases h
  · split at h
    · cases h; exact ⟨rfl, rfl, rfl⟩
    · split at h
      · cases h
      · split at h
        · cases h; exact ⟨rfl, rfl, rfl⟩
        · exact newChunk_error h

theorem appendFor_error {cfg : Cfg} {s s' : State} {L : Layout} {e : AErr}
    (h : appendFor cfg s L = .ok (s', .error e)) : SameArena s s' := by
  unfold appendFor at h
  simp only [bind, Except.bind, pure, Except.pure] at h
  split at h
  · cases h
  · split at h
    · cases h
    · split at h
      · cases h; exact ⟨rfl, rfl, rfl⟩
      · split at h
        · cases h; exact ⟨rfl, rfl, rfl⟩
        · split at h
          · cases h
          · split at h
            · cases h; exact ⟨rfl, rfl, rfl⟩
            · exact newChunk_error h

/-- moving the current chunk forward (or not at all) while the chunks up to the old current one stay
    as they are keeps `LiveOK` -/
theorem LiveOK.advance {cfg : Cfg} {s s2 : State} (hl : LiveOK cfg s) (hlive : s2.live = s.live)
    (hkeep : ∀ i, s.cur = .chunk i → ∀ j, j ≤ i → s2.chunks[j]? = s.chunks[j]?)
    (hcur : s2.cur = s.cur ∨ ∃ i2, s2.cur = .chunk i2 ∧ ∀ i, s.cur = .chunk i → i < i2) : LiveOK cfg s2 := by
  refine ⟨?_, ?_, ?_⟩
  · rw [hlive]; exact hl.aligned
  · intro b hb hs
    rw [hlive] at hb
    obtain ⟨i, j, c, h1, h2, h3, h4, h5⟩ := hl.placed b hb hs
    have hk := hkeep i h1 j h2
    rcases hcur with hc | ⟨i2, hc, hlt⟩
    · exact ⟨i, j, c, hc.trans h1, h2, hk.trans h3, h4, h5⟩
    · have := hlt i h1
      exact ⟨i2, j, c, hc, by omega, hk.trans h3, h4, fun e => by omega⟩
  · rw [hlive]; exact hl.disjoint

theorem walkNext_keep {cfg : Cfg} {k : Kind} {L : Layout} {h : Hints} (fuel : Nat) :
    ∀ (i : Nat) (s : State) (r : Option ((Nat × Nat) × State)) (s2 : State),
      walkNext cfg k L h fuel i s = .ok (r, s2) →
      (∀ j, j ≤ i → s2.chunks[j]? = s.chunks[j]?) ∧
      ((s2.cur = s.cur ∧ s2.chunks = s.chunks) ∨ ∃ i2, s2.cur = .chunk i2 ∧ i < i2) := by
  induction fuel with
  | zero =>
    intro i s r s2 hw
    unfold walkNext at hw
    cases hw
    exact ⟨fun _ _ => rfl, .inl ⟨rfl, rfl⟩⟩
  | succ n ih =>
    intro i s r s2 hw
    unfold walkNext at hw
    split at hw
    · cases hw
      exact ⟨fun _ _ => rfl, .inl ⟨rfl, rfl⟩⟩
    · rename_i c hc
      simp only [bind, Except.bind, pure, Except.pure] at hw
      split at hw
      · cases hw
      · rename_i o ho
        split at hw
        · rename_i x
          cases hw
          obtain ⟨v, s'⟩ := x
          simp only
          rcases tryCur_state ho with rfl | ⟨p, rfl⟩
          · refine ⟨fun j hj => ?_, .inr ⟨i+1, rfl, Nat.lt_succ_self i⟩⟩
            simp only [List.getElem?_set_ne (show i + 1 ≠ j by omega)]
          · refine ⟨fun j hj => ?_, .inr ⟨i+1, ?_, Nat.lt_succ_self i⟩⟩
            · rw [setCurPos_chunk (i := i+1) rfl, setPos_getElem?_ne (by omega)]
              simp only [List.getElem?_set_ne (show i + 1 ≠ j by omega)]
            · rw [setCurPos_chunk (i := i+1) rfl]; rfl
        · obtain ⟨k1, k2⟩ := ih _ _ _ _ hw
          refine ⟨fun j hj => ?_, ?_⟩
          · rw [k1 j (by omega)]
            simp only [List.getElem?_set_ne (show i + 1 ≠ j by omega)]
          · rcases k2 with ⟨e1, _⟩ | ⟨i2, e1, e2⟩
            · exact .inr ⟨i+1, e1, Nat.lt_succ_self i⟩
            · exact .inr ⟨i2, e1, by omega⟩

/-- a refused slow-path allocation (`AllocError`) keeps `LiveOK`: the original chunk stays current,
    only positions of later chunks may have been reset -/
theorem inAnotherChunk_error_liveOK {cfg : Cfg} {k : Kind} {s s' : State} {L : Layout} {h : Hints} {e : AErr}
    (hl : LiveOK cfg s) (hr : inAnotherChunk cfg k s L h = .ok (s', .error e)) : LiveOK cfg s' := by
  unfold inAnotherChunk at hr
  simp only [bind, Except.bind, pure, Except.pure] at hr
  split at hr
  · cases hr; exact hl
  · split at hr
    · cases hr
    · rename_i x hx
      obtain ⟨x1, x2⟩ := x
      cases x2 with
      | error e' =>
        simp only at hr; cases hr
        obtain ⟨a1, a2, a3⟩ := newChunkForCapacity_error hx
        exact hl.advance a3 (fun i _ j _ => by rw [a1]) (.inl a2)
      | ok i =>
        simp only at hr
        split at hr
        · cases hr
        · split at hr <;> cases hr
  · rename_i i hcur
    split at hr
    · cases hr
    · rename_i w hw
      obtain ⟨wr, ws⟩ := w
      obtain ⟨k1, k2⟩ := walkNext_keep _ _ _ _ _ hw
      obtain ⟨⟨hg, _⟩, _⟩ := walkNext_detail _ _ _ _ _ hw
      split at hr
      · cases hr
      · rename_i s1 heq
        cases heq
        split at hr
        · cases hr
        · rename_i x hx
          obtain ⟨x1, x2⟩ := x
          cases x2 with
          | error e' =>
            simp only at hr; cases hr
            obtain ⟨a1, a2, a3⟩ := appendFor_error hx
            refine hl.advance (a3.trans hg.1) (fun i0 hi0 j hj => ?_) ?_
            · rw [hcur] at hi0; cases hi0
              rw [a1]; exact k1 j hj
            · -- after the fix c107ca6 the refused request leaves the ORIGINAL chunk current
              exact .inl hcur.symm
          | ok i3 =>
            simp only at hr
            split at hr
            · cases hr
            · split at hr <;> cases hr

theorem alloc_error_liveOK {cfg : Cfg} {s s1 : State} {L : Layout} {e : AErr}
    (hl : LiveOK cfg s) (h : alloc cfg s L = .ok (s1, .error e)) : LiveOK cfg s1 := by
  rcases alloc_inv_gen h with ⟨p', x, hp, _⟩ | ⟨_, r', hi, hr⟩
  · cases hp
  · cases r' with
    | error e' => exact inAnotherChunk_error_liveOK hl hi
    | ok v => cases hr

/-- `stepCore`'s `.allocate` / `allocate_zeroed`, whichever path serves it, keeps `LiveOK` -/
theorem stepCore_allocate_liveOK {cfg : Cfg} {g g' : GState} {L : Layout} {zeroed : Bool} {via : Via} {out : Out}
    (hl : LiveOK cfg g.s) (hwf : MemWF g.s) (hfr : HeadFresh g.s) (hp : CurPosOK cfg g.s)
    (hv : C11.Valid cfg.up (bumpProps cfg g.s L Hints.custom))
    (hvslow : ∀ t i' ct, SlowTry cfg g.s t i' ct → C11.Valid cfg.up (bumpProps cfg t L Hints.custom))
    (h : stepCore cfg g (.allocate L zeroed via) = .ok (g', out)) : LiveOK cfg g'.s := by
  obtain ⟨s1, r1, ha, hcase⟩ := stepCore_allocate_inv h
  rcases hcase with ⟨e, rfl, rfl⟩ | ⟨p, s2, rfl, hz, rfl⟩
  · -- the allocation was refused: the original chunk stays current (fix c107ca6), later chunks may have been reset
    exact alloc_error_liveOK hl ha
  · obtain ⟨ho, hal⟩ := alloc_allocOutcome hl hwf hfr hp hv hvslow ha
    simp only
    have ho2 : AllocOutcome cfg s2 p L.size := by
      cases zeroed
      · simp only [Bool.false_eq_true, ↓reduceIte, pure, Except.pure] at hz
        cases hz; exact ho
      · simp only [↓reduceIte] at hz
        exact ho.of_onlyData (writeRange_onlyData hz)
    exact ho2.addBlock hal _

/-! ## The typed fast paths (`allocGeneric .alloc` with hints) -/

theorem allocGeneric_inv {cfg : Cfg} {k : Kind} {s s1 : State} {L : Layout} {h hSlow : Hints}
    {r : Except AErr (Nat × Nat)} (hr : allocGeneric cfg k s L h hSlow = .ok (s1, r)) :
    (∃ v, r = .ok v ∧ tryCur cfg k s L h = .ok (some (v, s1))) ∨
    (tryCur cfg k s L h = .ok none ∧ inAnotherChunk cfg k s L hSlow = .ok (s1, r)) := by
  unfold allocGeneric at hr
  simp only [bind, Except.bind, pure, Except.pure] at hr
  split at hr
  · cases hr
  · rename_i o ho
    split at hr
    · cases hr
      exact .inl ⟨_, rfl, ho⟩
    · exact .inr ⟨ho, hr⟩

theorem allocGeneric_allocOutcome {cfg : Cfg} {s s1 : State} {L : Layout} {h hSlow : Hints} {p x : Nat}
    (hl : LiveOK cfg s) (hwf : MemWF s) (hfr : HeadFresh s) (hp : CurPosOK cfg s)
    (hv : C11.Valid cfg.up (bumpProps cfg s L h))
    (hvslow : ∀ t i' ct, SlowTry cfg s t i' ct → C11.Valid cfg.up (bumpProps cfg t L hSlow))
    (hr : allocGeneric cfg .alloc s L h hSlow = .ok (s1, .ok (p, x))) : AllocOutcome cfg s1 p L.size ∧ L.align ∣ p := by
  rcases allocGeneric_inv hr with ⟨v, hv', hf⟩ | ⟨_, hs⟩
  · cases hv'
    exact allocOutcome_tryCur hl hwf.1 hp hv hf
  · obtain ⟨t, i', ct, hst, htry⟩ := inAnotherChunk_inv hs
    exact allocOutcome_slow hl hwf hfr hst (hvslow t i' ct hst) htry

theorem allocGeneric_error_liveOK {cfg : Cfg} {k : Kind} {s s1 : State} {L : Layout} {h hSlow : Hints} {e : AErr}
    (hl : LiveOK cfg s) (hr : allocGeneric cfg k s L h hSlow = .ok (s1, .error e)) : LiveOK cfg s1 := by
  rcases allocGeneric_inv hr with ⟨v, hv', _⟩ | ⟨_, hs⟩
  · cases hv'
  · exact inAnotherChunk_error_liveOK hl hs

/-- `stepCore`'s `.allocLayout` (`try_alloc_layout / _sized / _slice` with their layout hints) keeps `LiveOK` -/
theorem stepCore_allocLayout_liveOK {cfg : Cfg} {g g' : GState} {L : Layout} {h : Hints} {out : Out}
    (hl : LiveOK cfg g.s) (hwf : MemWF g.s) (hfr : HeadFresh g.s) (hp : CurPosOK cfg g.s)
    (hv : C11.Valid cfg.up (bumpProps cfg g.s L h))
    (hvslow : ∀ t i' ct, SlowTry cfg g.s t i' ct → C11.Valid cfg.up (bumpProps cfg t L Hints.custom))
    (hstep : stepCore cfg g (.allocLayout L h) = .ok (g', out)) : LiveOK cfg g'.s := by
  unfold stepCore at hstep
  simp only [bind, Except.bind, pure, Except.pure] at hstep
  split at hstep
  · cases hstep
  · split at hstep
    · cases hstep
    · split at hstep
      · cases hstep
      · split at hstep
        · cases hstep
        · rename_i v hv'
          split at hstep
          · cases hstep
            exact allocGeneric_error_liveOK hl hv'
          · rename_i s' p x
            cases hstep
            obtain ⟨ho, hal⟩ := allocGeneric_allocOutcome hl hwf hfr hp hv hvslow hv'
            exact ho.addBlock hal 0

/-! ## Contents of live blocks across `stepCore`'s `.allocate`, `.deallocate`, `.scopeExit` -/

theorem alloc_live_eq {cfg : Cfg} {s s1 : State} {L : Layout} {p : Nat} (h : alloc cfg s L = .ok (s1, .ok p)) :
    s1.live = s.live := by
  rcases alloc_inv h with ⟨x, hf⟩ | ⟨_, x, hs⟩
  · exact (tryCur_sameGhost hf).1
  · obtain ⟨t, i', ct, hst, htry⟩ := inAnotherChunk_inv hs
    exact (hst.ghost.trans (tryCur_sameGhost htry)).1

theorem readByte_addBlock (s : State) (p size align init a : Nat) :
    readByte (addBlock s p size align init).1 a = readByte s a := rfl

/-- `allocate` / `allocate_zeroed` does not alter a byte of any block that was live before -/
theorem stepCore_allocate_keeps_bytes {cfg : Cfg} {g g' : GState} {L : Layout} {zeroed : Bool} {via : Via} {out : Out}
    (hl : LiveOK cfg g.s) (hwf : MemWF g.s) (hfr : HeadFresh g.s) (hp : CurPosOK cfg g.s)
    (hv : C11.Valid cfg.up (bumpProps cfg g.s L Hints.custom))
    (hvslow : ∀ t i' ct, SlowTry cfg g.s t i' ct → C11.Valid cfg.up (bumpProps cfg t L Hints.custom))
    (h : stepCore cfg g (.allocate L zeroed via) = .ok (g', out))
    {b : Block} (hb : b ∈ g.s.live) {k : Nat} (hk : k < b.size) :
    readByte g'.s (b.addr + k) = readByte g.s (b.addr + k) := by
  have hin : InChunks g.s (b.addr + k) := by
    obtain ⟨i, j, c, _, _, hc, hcont, _⟩ := hl.placed b hb (by omega)
    have := inContent_in_chunk hcont
    exact ⟨c, List.mem_of_getElem? hc, by omega, by omega⟩
  obtain ⟨s1, r1, ha, hcase⟩ := stepCore_allocate_inv h
  have h1 : readByte s1 (b.addr + k) = readByte g.s (b.addr + k) := (alloc_memExt ha).readByte hin
  rcases hcase with ⟨e, rfl, rfl⟩ | ⟨p, s2, rfl, hz, rfl⟩
  · exact h1
  · simp only
    rw [readByte_addBlock, ← h1]
    cases zeroed
    · simp only [Bool.false_eq_true, ↓reduceIte, pure, Except.pure] at hz
      cases hz; rfl
    · simp only [↓reduceIte] at hz
      obtain ⟨ho, _⟩ := alloc_allocOutcome hl hwf hfr hp hv hvslow ha
      have hb1 : b ∈ s1.live := by rw [alloc_live_eq ha]; exact hb
      have hd := ho.disj b hb1
      apply zeroRange_read_out hz
      unfold RangesDisjoint at hd
      omega

theorem stepCore_deallocate_memOf {cfg : Cfg} {g g' : GState} {b : Nat} {via : Via} {out : Out}
    (h : stepCore cfg g (.deallocate b via) = .ok (g', out)) : memOf g'.s = memOf g.s := by
  unfold stepCore at h
  simp only [bind, Except.bind, pure, Except.pure] at h
  split at h
  · cases h
  · split at h
    · cases h
    · split at h
      · cases h; rfl
      · split at h
        · cases h
        · rename_i s' hs'
          cases h
          exact (show memOf (removeBlock s' b) = memOf s' from rfl).trans (deallocate_memOf hs')

theorem stepCore_scopeExit_memOf {cfg : Cfg} {g g' : GState} {out : Out}
    (h : stepCore cfg g .scopeExit = .ok (g', out)) : memOf g'.s = memOf g.s := by
  unfold stepCore at h
  simp only [bind, Except.bind, pure, Except.pure] at h
  split at h
  · cases h
  · split at h
    · split at h
      · cases h
      · rename_i s' hs'
        cases h
        exact (show memOf (killFrom { s' with frames := _ } _) = memOf s' from rfl).trans (resetTo_memOf hs')
    · cases h

end Arena.Mem
