/-
  Spec/Bump.lean — wide-integer (unbounded `Nat`) reference specification of the
  bump-pointer computations.  Hand-written; nothing here mentions hints, masks,
  wrapping or saturation.
-/
namespace Spec

/-- least multiple of `a` that is `≥ x` (for `a > 0`) -/
def upAlign (x a : Nat) : Nat := (x + (a - 1)) / a * a
/-- greatest multiple of `a` that is `≤ x` (for `a > 0`) -/
def downAlign (x a : Nat) : Nat := x / a * a

/-- Upward bump in the free range `[start, end_)`: the block starts at the least
    `align`-multiple `≥ start`; it fits iff it ends at or before `end_`; the new
    position is the least `minAlign`-multiple at or after the block's end.
    Result: `(ptr, new_pos)`. -/
def bumpUp (start end_ size align minAlign : Nat) : Option (Nat × Nat) :=
  let ptr := upAlign start align
  if ptr + size ≤ end_ then some (ptr, upAlign (ptr + size) minAlign) else none

/-- Downward bump in the free range `[start, end_)`: the block starts at the greatest
    multiple of `max align minAlign` that leaves `size` bytes below `end_`; it fits iff
    that address is `≥ start`.  The result is both the block address and the new position. -/
def bumpDown (start end_ size align minAlign : Nat) : Option Nat :=
  if size ≤ end_ then
    let ptr := downAlign (end_ - size) (Nat.max align minAlign)
    if start ≤ ptr then some ptr else none
  else none

/-- Upward prepare: the largest range `[s, e)` inside `[start, end_)` with both ends
    `align`-aligned, provided `size` bytes fit after `s`. -/
def prepareUp (start end_ size align : Nat) : Option (Nat × Nat) :=
  let s := upAlign start align
  if s + size ≤ end_ then some (s, downAlign end_ align) else none

/-- Downward prepare. -/
def prepareDown (start end_ size align : Nat) : Option (Nat × Nat) :=
  let e := downAlign end_ align
  if start + size ≤ e then some (upAlign start align, e) else none

end Spec
