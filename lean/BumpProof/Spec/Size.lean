/-
  Spec/Size.lean — wide-integer reference specification of the chunk-size
  computations (`src/chunk/size_config.rs`) and of the layout of a fresh chunk
  (`NonDummyChunk::new`).  Hand-written.
-/
import BumpProof.Rs
import BumpProof.Gen.SizeConfig
import BumpProof.Spec.Bump
namespace Spec
open Rs

/-- the header layouts the theorems quantify over: `ChunkHeader<A>` is `repr(C, align(16))`
    with four pointers before the allocator value, so its alignment is a power of two `≥ 16`,
    its size a non-zero multiple of the alignment, `≥ 32`.  The upper bounds are far above
    what any base-allocator value of size/alignment `≤ 256` produces (`align ≤ 256`, `size ≤ 768`). -/
structure HeaderOK (H : Layout) : Prop where
  pow : ∃ j, 4 ≤ j ∧ j ≤ 16 ∧ H.align = 2^j
  dvd : H.align ∣ H.size
  ge : 32 ≤ H.size
  le : H.size ≤ 2^20

/-- the configuration `chunk::size::config::<A, S>()` assembles: `AssumedMallocOverhead = [usize; 2]` -/
def mkCfg (up : Bool) (H : Layout) : Gen.SizeConfig.ChunkSizeConfig :=
  { up := up, assumed_malloc_overhead_layout := { size := 16, align := 8 }, chunk_header_layout := H }

/-- least power of two `≥ h` (for `h ≤ 2^63`) -/
def nextPow2 (h : Nat) : Nat := Rs.npotFrom h 64 1

/-- smallest size that has room for the assumed malloc overhead and the header -/
def minSize (H : Layout) : Nat := upAlign 16 H.align + H.size

/-- size before the overhead is subtracted: next power of two below one page-step,
    otherwise the next multiple of the step -/
def calcSizeRaw (H : Layout) (hint : Nat) : Nat :=
  let step := Nat.max 4096 H.align
  let h := Nat.max hint (minSize H)
  if h < step then nextPow2 h else upAlign h step

/-- alignment every chunk size is rounded down to -/
def sizeAlign (up : Bool) (H : Layout) : Nat := if up then 16 else Nat.max 16 H.align

/-- `ChunkSizeConfig::calc_size_from_hint` over wide integers: `none` exactly when the
    wide-integer result does not fit in `usize`. -/
def calcSize (up : Bool) (H : Layout) (hint : Nat) : Option Nat :=
  let raw := calcSizeRaw H hint
  if raw ≥ 2^64 then none
  else if up ∨ H.align ≤ 16 then some (downAlign (raw - 16) (sizeAlign up H))
  else some raw

/-- `ChunkSizeConfig::calc_hint_from_capacity_bytes` over wide integers -/
def hintFromBytes (up : Bool) (H : Layout) (bytes : Nat) : Nat :=
  if up then upAlign 16 H.align + H.size + bytes + 16
  else upAlign (16 + bytes) H.align + H.size + 16

/-- `ChunkSizeConfig::calc_hint_from_capacity` over wide integers -/
def hintFromCapacity (up : Bool) (H : Layout) (L : Layout) : Nat :=
  hintFromBytes up H (L.size + (L.align - H.align))

/-- free range `(start, end)` (in `BumpProps` orientation) of a fresh chunk whose granted block
    starts at `p` and whose aligned size is `s'` (`NonDummyChunk::new`): upwards the header is at
    the start, downwards at the end. -/
def freshRange (up : Bool) (H : Layout) (p s' : Nat) : Nat × Nat :=
  if up then (p + H.size, p + s') else (p, p + s' - H.size)

end Spec
