/-
  Spec/BumpValid.lean — the precondition of the bump computations: what
  `BumpProps::debug_assert_valid` asserts, `Layout`'s own rules, and the 64-bit
  range of the addresses.  Hand-written; `harness/purefn` checks on every run that
  the Rust `debug_assert_valid` panics exactly when this predicate is false.
-/
import BumpProof.Gen.Bumping
namespace C11
open Gen.Bumping Rs

/-! ## Preconditions: what `BumpProps::debug_assert_valid` and `Layout` guarantee -/

/-- the part of `debug_assert_valid` that does not depend on the direction, plus
    `Layout`'s own rules and 64-bit range of the two addresses -/
structure ValidCommon (p : BumpProps) : Prop where
  start_ne : p.start ≠ 0
  end_ne : p.«end» ≠ 0
  start_lt : p.start < 2^64
  end_lt : p.«end» < 2^64
  min_align : p.min_align = 1 ∨ p.min_align = 2 ∨ p.min_align = 4 ∨ p.min_align = 8 ∨ p.min_align = 16
  layout : p.layout.Valid
  /-- the hint `size_is_multiple_of_align` is truthful -/
  truthful : p.size_is_multiple_of_align = true → p.layout.align ∣ p.layout.size

/-- a regular free range of a real chunk -/
def Regular (up : Bool) (p : BumpProps) : Prop :=
  p.start ≤ p.«end» ∧ p.«end» - p.start ≤ Rs.IMAX ∧
  (if up then p.min_align ∣ p.start ∧ 16 ∣ p.«end» else 16 ∣ p.start ∧ p.min_align ∣ p.«end»)

/-- the negative-capacity range of the `unallocated` / `claimed` dummy chunks -/
def Dummy (p : BumpProps) : Prop := p.start = p.«end» + 16 ∧ 16 ∣ p.«end»

def Valid (up : Bool) (p : BumpProps) : Prop := ValidCommon p ∧ (Regular up p ∨ Dummy p)


end C11
