/-
  Coll/Prim.lean — slot-level machine on which the collection algorithms of bump-scope are modelled
  (`src/bump_box.rs` slice part, `src/owned_slice/*.rs`, `src/fixed_bump_vec.rs`, `src/bump_vec.rs`,
  `src/mut_bump_vec.rs`, `src/mut_bump_vec_rev.rs`).

  A vector is a buffer of `cap` slots (`slots`, each `init id` or `hole`), a length and two ghost
  logs: `dropLog` (ids whose `Drop::drop` ran, in order) and `escaped` (ids moved out of the buffer to
  the caller or into a callback).  Every value carries a unique id, so a bitwise copy of a value is a
  MOVE in the model: the source slot becomes a `hole`.  What the unsafe code must never do is a
  `Fault`:
    * `readHole`    — reading / dropping / handing out a reference to a moved-from or uninitialised slot
                      (use after move, double drop),
    * `overwrite`   — storing over a live value without dropping it (silent leak),
    * `outOfBounds` — touching a slot outside the buffer,
    * `overlap`     — `copy_nonoverlapping` on overlapping ranges.
  User callbacks are an ORACLE: a list of outcomes consumed in call order (`ret v | panic`; an
  exhausted list panics, so a finite list describes a run that panics at its end).  `Drop` of the
  element type panics for the ids in `bombs` — unless the thread is already unwinding (a second
  panic would abort the process; the harness' element type never does that).

  The list `slots` plays the role of the array of DESIGN.md §4.4 (a `List` because the proofs are
  by structural decomposition `kept ++ holes ++ unchecked ++ spare`).  No imports (driver links natively).
-/

namespace Coll

abbrev Id := Nat

inductive Slot where
  | init (id : Id)
  | hole
  deriving DecidableEq, Repr, Inhabited

/-- outcome of one callback invocation (predicates: `ret 0` = false, `ret _` = true; `Clone` and
    mapping closures: `ret id` = the id of the value produced) -/
inductive Outcome where
  | ret (v : Nat)
  | panic
  deriving DecidableEq, Repr, Inhabited

inductive Fault where
  | readHole (i : Nat)
  | overwrite (i : Nat)
  | outOfBounds (i : Nat)
  | overlap
  | assertion (what : String)
  deriving DecidableEq, Repr, Inhabited

abbrev M := Except Fault

deriving instance DecidableEq for Except

/-- how an operation ended: it returned `a`, or it unwound (`inDrop`: the panic came out of a
    `Drop::drop` of an element, not out of a closure / `Clone` / an argument check) -/
inductive Exit (α : Type) where
  | ret (a : α)
  | panic (inDrop : Bool)
  deriving DecidableEq, Repr, Inhabited

structure Vec where
  slots : List Slot            -- the buffer, `capacity` slots
  len : Nat
  dropLog : List Id := []      -- ghost
  escaped : List Id := []      -- ghost
  deriving DecidableEq, Repr, Inhabited

namespace Vec
def cap (v : Vec) : Nat := v.slots.length
end Vec

def Slot.id? : Slot → Option Id
  | .init id => some id
  | .hole => none

/-- ids held by a list of slots, in slot order -/
def idsOf (s : List Slot) : List Id := s.filterMap Slot.id?

/-- the initialised prefix as a list of ids: what `Deref<Target = [T]>` shows -/
def Vec.abs (v : Vec) : List Id := idsOf (v.slots.take v.len)

/-- every id the vector state knows about: live in the buffer, dropped, or handed out -/
def Vec.total (v : Vec) : List Id := idsOf v.slots ++ v.dropLog ++ v.escaped

/-- `n` slots initialised with the given ids / `k` holes -/
def I (l : List Id) : List Slot := l.map Slot.init
def H (k : Nat) : List Slot := List.replicate k Slot.hole

/-- a vector holding `xs` with `spare` unused slots -/
def Vec.mk' (xs : List Id) (spare : Nat) : Vec := { slots := I xs ++ H spare, len := xs.length }

/-! ## Primitive memory operations -/

/-- `&mut *ptr.add(i)` / `&*ptr.add(i)`: a reference to slot `i` is created (handed to a callback or
    read through): the slot must hold a value -/
def peek (v : Vec) (i : Nat) : M Id :=
  match v.slots[i]? with
  | some (.init id) => .ok id
  | some .hole => .error (.readHole i)
  | none => .error (.outOfBounds i)

/-- `ptr.add(i).read()`: the value is moved out of the buffer (to the caller / into a callback) -/
def readOut (v : Vec) (i : Nat) : M (Id × Vec) :=
  match v.slots[i]? with
  | some (.init id) => .ok (id, { v with slots := v.slots.set i .hole, escaped := v.escaped ++ [id] })
  | some .hole => .error (.readHole i)
  | none => .error (.outOfBounds i)

/-- `ptr.add(i).write(id)`: the slot must not hold a live value (it would be leaked) -/
def write (v : Vec) (i : Nat) (id : Id) : M Vec :=
  match v.slots[i]? with
  | some .hole => .ok { v with slots := v.slots.set i (.init id) }
  | some (.init _) => .error (.overwrite i)
  | none => .error (.outOfBounds i)

/-- `ptr::drop_in_place(ptr.add(i))`; the flag says whether `Drop::drop` panicked
    (`unwinding`: the thread is already panicking, the element type then does not panic again) -/
def dropAt (bombs : List Id) (unwinding : Bool) (v : Vec) (i : Nat) : M (Vec × Bool) :=
  match v.slots[i]? with
  | some (.init id) =>
    .ok ({ v with slots := v.slots.set i .hole, dropLog := v.dropLog ++ [id] }, !unwinding && bombs.contains id)
  | some .hole => .error (.readHole i)
  | none => .error (.outOfBounds i)

/-- `ptr::drop_in_place(slice_from_raw_parts_mut(ptr.add(i), n))`: the drop glue of a slice drops the
    elements front to back and keeps going when one of them panics (the flag reports that panic) -/
def dropRange (bombs : List Id) (unwinding : Bool) (v : Vec) (i : Nat) : Nat → M (Vec × Bool)
  | 0 => .ok (v, false)
  | n + 1 =>
    match dropAt bombs unwinding v i with
    | .error e => .error e
    | .ok (v1, p1) =>
      match dropRange bombs (unwinding || p1) v1 (i + 1) n with
      | .error e => .error e
      | .ok (v2, p2) => .ok (v2, p1 || p2)

/-- slot `j` after `ptr::copy(ptr.add(src), ptr.add(dst), n)` (memmove): destination slots receive the
    source slots, source slots outside the destination range are moved-from -/
def copySlot (s : List Slot) (src dst n j : Nat) : Slot :=
  if dst ≤ j ∧ j < dst + n then s.getD (src + (j - dst)) .hole
  else if src ≤ j ∧ j < src + n then .hole
  else s.getD j .hole

/-- the destination slots that are not themselves part of the source must not hold live values -/
def copyClobbers (s : List Slot) (src dst n : Nat) : Option Nat :=
  (List.range n).find? (fun k => !(decide (src ≤ dst + k ∧ dst + k < src + n)) && (s.getD (dst + k) .hole != .hole))
    |>.map (dst + ·)

/-- `ptr::copy(ptr.add(src), ptr.add(dst), n)` -/
def copy (v : Vec) (src dst n : Nat) : M Vec :=
  if n = 0 then .ok v
  else if src + n > v.cap then .error (.outOfBounds (src + n - 1))
  else if dst + n > v.cap then .error (.outOfBounds (dst + n - 1))
  else match copyClobbers v.slots src dst n with
    | some j => .error (.overwrite j)
    | none => .ok { v with slots := (List.range v.cap).map (copySlot v.slots src dst n) }

/-- `ptr::copy_nonoverlapping(ptr.add(src), ptr.add(dst), n)` -/
def copyNonoverlapping (v : Vec) (src dst n : Nat) : M Vec :=
  if n ≠ 0 ∧ src < dst + n ∧ dst < src + n then .error .overlap
  else copy v src dst n

/-- `set_len` (unsafe, unchecked) -/
def setLen (v : Vec) (n : Nat) : Vec := { v with len := n }

/-! ## Well-formedness (the safety invariant of the vector types) -/

/-- `len ≤ cap`, the first `len` slots hold values, the spare slots hold none, and no id occurs
    twice anywhere (buffer, drop log, handed-out values) -/
def Vec.WF (v : Vec) : Prop :=
  (∃ xs, v.slots = I xs ++ H (v.cap - v.len) ∧ xs.length = v.len) ∧ v.total.Nodup

end Coll
