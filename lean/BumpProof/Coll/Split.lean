/-
  Coll/Split.lean — splitting and merging owned slices / fixed vectors (property C16):
  `BumpBox<[T]>::split_off` (`src/bump_box.rs` l.1854-1918), `FixedBumpVec::split_off`
  (`src/fixed_bump_vec.rs` l.778-906; `BumpVec::split_off` forwards to it), `split_at` (l.2018-2098),
  `split_first` / `split_last` (l.2123-2180), `split_off_first` / `split_off_last` (l.1942-1975),
  `merge` (l.2204-2242), `FixedBumpVec::split_at_spare` (l.2294-2305).

  A part is a vector plus the byte address of its first slot, so that the contiguity test of
  `merge` can be modelled as the implementation performs it (on addresses).  A `BumpBox<[T]>` is the
  special case `cap = len` (it does not track capacity); sized `T` only (`esize > 0`).
-/
import BumpProof.Coll.Vecs

namespace Coll

structure Part where
  vec : Vec
  addr : Nat
  deriving DecidableEq, Repr, Inhabited

/-- element layout: `size_of::<T>()`, `align_of::<T>()` (`NonNull::dangling()` is the alignment) -/
structure Lay where
  esize : Nat
  align : Nat
  deriving DecidableEq, Repr, Inhabited

/-- `slice.rotate_right(k)` / `rotate_left(k)` (core): a permutation of whole values, no callbacks -/
def rotateRight (l : List Slot) (k : Nat) : List Slot := l.drop (l.length - k) ++ l.take (l.length - k)
def rotateLeft (l : List Slot) (k : Nat) : List Slot := l.drop k ++ l.take k

/-- a part made of the slots `[lo, lo + cap)` of `v`, `len` of them initialised; fresh logs -/
def subPart (lay : Lay) (base : Nat) (slots : List Slot) (lo cap len : Nat) : Part :=
  { vec := { slots := (slots.drop lo).take cap, len := len }, addr := base + lo * lay.esize }

/-- the empty vector `FixedBumpVec::new()` / `BumpBox::EMPTY`: dangling pointer, no capacity -/
def emptyPart (lay : Lay) : Part := { vec := { slots := [], len := 0 }, addr := lay.align }

/-- `split_off(start..end)`: `none` = the range check of `slice::range` panicked (nothing changed);
    otherwise `(self afterwards, returned part)`.  The logs stay with `self`. -/
def splitOff (lay : Lay) (p : Part) (start end_ : Nat) : Option (Part × Part) :=
  let v := p.vec
  let len := v.len
  let cap := v.cap
  if start > end_ ∨ end_ > len then none
  else
    let keepLogs (q : Part) : Part := { q with vec := { q.vec with dropLog := v.dropLog, escaped := v.escaped } }
    if end_ = len then
      -- lhs = [0, start) stays, rhs = [start, cap) is returned (`rhs_cap = capacity - start`)
      some (keepLogs (subPart lay p.addr v.slots 0 start start), subPart lay p.addr v.slots start (cap - start) (len - start))
    else if start = 0 then
      -- lhs = [0, end) is returned, rhs = [end, cap) stays
      some (keepLogs (subPart lay p.addr v.slots end_ (cap - end_) (len - end_)), subPart lay p.addr v.slots 0 end_ end_)
    else if start = end_ then some (p, emptyPart lay)
    else
      let headLen := start
      let tailLen := len - end_
      let rangeLen := end_ - start
      let remainingLen := len - rangeLen
      if headLen < tailLen then
        -- `as_mut_slice()[..end].rotate_right(range_len)`: the range moves to the front
        let slots := rotateRight (v.slots.take end_) rangeLen ++ v.slots.drop end_
        some (keepLogs (subPart lay p.addr slots rangeLen (cap - rangeLen) remainingLen), subPart lay p.addr slots 0 rangeLen rangeLen)
      else
        -- `as_mut_slice()[start..].rotate_left(range_len)`: the range moves to the end (of the initialised part)
        let slots := v.slots.take start ++ rotateLeft ((v.slots.drop start).take (len - start)) rangeLen ++ v.slots.drop len
        some (keepLogs (subPart lay p.addr slots 0 remainingLen remainingLen), subPart lay p.addr slots remainingLen (cap - remainingLen) rangeLen)

/-- `BumpBox<[T]>::split_at(at)`: `none` = `assert_failed` (`at > len`); `(left, right)` -/
def splitAt (lay : Lay) (p : Part) (at_ : Nat) : Option (Part × Part) :=
  let v := p.vec
  if at_ > v.len then none
  else some (subPart lay p.addr v.slots 0 at_ at_, subPart lay p.addr v.slots at_ (v.len - at_) (v.len - at_))

/-- `split_first`: `(first element as a one-slot box, rest)` -/
def splitFirst (lay : Lay) (p : Part) : Option (Part × Part) :=
  if p.vec.len = 0 then none else splitAt lay p 1

/-- `split_last`: `(last element, rest)` -/
def splitLast (lay : Lay) (p : Part) : Option (Part × Part) :=
  if p.vec.len = 0 then none
  else (splitAt lay p (p.vec.len - 1)).map fun (rest, last) => (last, rest)

/-- `FixedBumpVec::split_at_spare`: `(initialised part, spare capacity)` -/
def splitAtSpare (lay : Lay) (p : Part) : Part × Part :=
  (subPart lay p.addr p.vec.slots 0 p.vec.len p.vec.len, subPart lay p.addr p.vec.slots p.vec.len (p.vec.cap - p.vec.len) 0)

/-- `BumpBox<[T]>::merge(self, other)` for sized `T`: `none` = "the two slices are not contiguous" -/
def merge (lay : Lay) (a b : Part) : Option Part :=
  if a.addr + a.vec.len * lay.esize ≠ b.addr then none
  else some { vec := { slots := a.vec.slots.take a.vec.len ++ b.vec.slots.take b.vec.len, len := a.vec.len + b.vec.len,
                       dropLog := a.vec.dropLog ++ b.vec.dropLog, escaped := a.vec.escaped ++ b.vec.escaped },
              addr := a.addr }

/-! ## `partition` — `BumpBox<[T]>::partition` (l.2662-2668) = `partition_in_place` (`src/polyfill/iter.rs`
    l.5-45, the algorithm of `Iterator::partition_in_place`) followed by `split_at(true_count)` -/

/-- `mem::swap(head, tail)` on two initialised slots -/
def swapSlots (v : Vec) (i j : Nat) : M Vec :=
  match v.slots[i]?, v.slots[j]? with
  | some (.init a), some (.init b) => .ok { v with slots := (v.slots.set i (.init b)).set j (.init a) }
  | some .hole, _ => .error (.readHole i)
  | _, some .hole => .error (.readHole j)
  | _, _ => .error (.outOfBounds (max i j))

/-- the state of the two nested searches: looking for the first `false` from the front, or (having
    found it at `head`) for the last `true` from the back -/
inductive Seek where
  | firstFalse
  | lastTrue (head : Nat)
  deriving DecidableEq, Repr

/-- `partition_in_place`: `f` / `b` are the two ends of the `iter_mut()` that is consumed from both
    sides, `tc` is `true_count`; `fuel = b - f` (every step evaluates the predicate on one new element).
    Result: `some true_count`, or `none` if the predicate panicked. -/
def partitionLoop : (fuel : Nat) → Vec → (f b tc : Nat) → Seek → List Outcome → M (Vec × Option Nat × List Outcome)
  | 0, v, _, _, tc, _, o => .ok (v, some tc, o)
  | fuel + 1, v, f, b, tc, .firstFalse, o =>
    match peek v f with                                   -- `iter.find(is_false(..))`: `predicate(&**x)`
    | .error e => .error e
    | .ok _ =>
      match o with
      | [] => .ok (v, none, [])
      | .panic :: o => .ok (v, none, o)
      | .ret p :: o =>
        if p ≠ 0 then partitionLoop fuel v (f + 1) b (tc + 1) .firstFalse o   -- `*true_count += p as usize; !p`
        else partitionLoop fuel v (f + 1) b tc (.lastTrue f) o
  | fuel + 1, v, f, b, tc, .lastTrue head, o =>
    match peek v (b - 1) with                             -- `iter.rfind(is_true(..))`
    | .error e => .error e
    | .ok _ =>
      match o with
      | [] => .ok (v, none, [])
      | .panic :: o => .ok (v, none, o)
      | .ret p :: o =>
        if p ≠ 0 then
          match swapSlots v head (b - 1) with             -- `mem::swap(head, tail); true_count += 1`
          | .error e => .error e
          | .ok v => partitionLoop fuel v f (b - 1) (tc + 1) .firstFalse o
        else partitionLoop fuel v f (b - 1) tc (.lastTrue head) o

/-- `partition(f)`: `(left, right)`, or — the predicate panicked — the box (moved into the call) is
    dropped by the unwind with everything in it -/
def partition (lay : Lay) (bombs : List Id) (p : Part) (o : List Outcome) : M (Option (Part × Part) × Vec × List Outcome) :=
  match partitionLoop p.vec.len p.vec 0 p.vec.len 0 .firstFalse o with
  | .error e => .error e
  | .ok (v, some tc, o) => .ok (splitAt lay { p with vec := v } tc, v, o)
  | .ok (v, none, o) =>
    match dropRange bombs true (setLen v 0) 0 v.len with
    | .error e => .error e
    | .ok (v, _) => .ok (none, v, o)

end Coll
