/-
  Coll/Split.lean — splitting and merging owned slices / fixed vectors (property C16):
  `BumpBox<[T]>::split_off` (`src/bump_box.rs` l.1854-1918), `FixedBumpVec::split_off`
  (`src/fixed_bump_vec.rs` l.778-906; `BumpVec::split_off` forwards to it), `split_at` (l.2018-2098),
  `split_first` / `split_last` (l.2123-2180), `split_off_first` / `split_off_last` (l.1942-1975),
  `merge` (l.2204-2242), `FixedBumpVec::split_at_spare` (l.2294-2305).

  A part is a vector plus the byte address of its first slot, so that the contiguity test of
  `merge` can be modelled as the implementation performs it (on addresses).  A `BumpBox<[T]>` is the
  special case `cap = len` (it does not track capacity); sized `T` only (`esize > 0`).
-/
import BumpProof.Coll.Vecs

namespace Coll

structure Part where
  vec : Vec
  addr : Nat
  deriving DecidableEq, Repr, Inhabited

/-- element layout: `size_of::<T>()`, `align_of::<T>()` (`NonNull::dangling()` is the alignment) -/
structure Lay where
  esize : Nat
  align : Nat
  deriving DecidableEq, Repr, Inhabited

/-- `slice.rotate_right(k)` / `rotate_left(k)` (core): a permutation of whole values, no callbacks -/
def rotateRight (l : List Slot) (k : Nat) : List Slot := l.drop (l.length - k) ++ l.take (l.length - k)
def rotateLeft (l : List Slot) (k : Nat) : List Slot := l.drop k ++ l.take k

/-- a part made of the slots `[lo, lo + cap)` of `v`, `len` of them initialised; fresh logs -/
def subPart (lay : Lay) (base : Nat) (slots : List Slot) (lo cap len : Nat) : Part :=
  { vec := { slots := (slots.drop lo).take cap, len := len }, addr := base + lo * lay.esize }

/-- the empty vector `FixedBumpVec::new()` / `BumpBox::EMPTY`: dangling pointer, no capacity -/
def emptyPart (lay : Lay) : Part := { vec := { slots := [], len := 0 }, addr := lay.align }

/-- `split_off(start..end)`: `none` = the range check of `slice::range` panicked (nothing changed);
    otherwise `(self afterwards, returned part)`.  The logs stay with `self`. -/
def splitOff (lay : Lay) (p : Part) (start end_ : Nat) : Option (Part × Part) :=
  let v := p.vec
  let len := v.len
  let cap := v.cap
  if start > end_ ∨ end_ > len then none
  else
    let keepLogs (q : Part) : Part := { q with vec := { q.vec with dropLog := v.dropLog, escaped := v.escaped } }
    if end_ = len then
      -- lhs = [0, start) stays, rhs = [start, cap) is returned (`rhs_cap = capacity - start`)
      some (keepLogs (subPart lay p.addr v.slots 0 start start), subPart lay p.addr v.slots start (cap - start) (len - start))
    else if start = 0 then
      -- lhs = [0, end) is returned, rhs = [end, cap) stays
      some (keepLogs (subPart lay p.addr v.slots end_ (cap - end_) (len - end_)), subPart lay p.addr v.slots 0 end_ end_)
    else if start = end_ then some (p, emptyPart lay)
    else
      let headLen := start
      let tailLen := len - end_
      let rangeLen := end_ - start
      let remainingLen := len - rangeLen
      if headLen < tailLen then
        -- `as_mut_slice()[..end].rotate_right(range_len)`: the range moves to the front
        let slots := rotateRight (v.slots.take end_) rangeLen ++ v.slots.drop end_
        some (keepLogs (subPart lay p.addr slots rangeLen (cap - rangeLen) remainingLen), subPart lay p.addr slots 0 rangeLen rangeLen)
      else
        -- `as_mut_slice()[start..].rotate_left(range_len)`: the range moves to the end (of the initialised part)
        let slots := v.slots.take start ++ rotateLeft ((v.slots.drop start).take (len - start)) rangeLen ++ v.slots.drop len
        some (keepLogs (subPart lay p.addr slots 0 remainingLen remainingLen), subPart lay p.addr slots remainingLen (cap - remainingLen) rangeLen)

/-- `BumpBox<[T]>::split_at(at)`: `none` = `assert_failed` (`at > len`); `(left, right)` -/
def splitAt (lay : Lay) (p : Part) (at_ : Nat) : Option (Part × Part) :=
  let v := p.vec
  if at_ > v.len then none
  else some (subPart lay p.addr v.slots 0 at_ at_, subPart lay p.addr v.slots at_ (v.len - at_) (v.len - at_))

/-- `split_first`: `(first element as a one-slot box, rest)` -/
def splitFirst (lay : Lay) (p : Part) : Option (Part × Part) :=
  if p.vec.len = 0 then none else splitAt lay p 1

/-- `split_last`: `(last element, rest)` -/
def splitLast (lay : Lay) (p : Part) : Option (Part × Part) :=
  if p.vec.len = 0 then none
  else (splitAt lay p (p.vec.len - 1)).map fun (rest, last) => (last, rest)

/-- `FixedBumpVec::split_at_spare`: `(initialised part, spare capacity)` -/
def splitAtSpare (lay : Lay) (p : Part) : Part × Part :=
  (subPart lay p.addr p.vec.slots 0 p.vec.len p.vec.len, subPart lay p.addr p.vec.slots p.vec.len (p.vec.cap - p.vec.len) 0)

/-- `BumpBox<[T]>::merge(self, other)` for sized `T`: `none` = "the two slices are not contiguous" -/
def merge (lay : Lay) (a b : Part) : Option Part :=
  if a.addr + a.vec.len * lay.esize ≠ b.addr then none
  else some { vec := { slots := a.vec.slots.take a.vec.len ++ b.vec.slots.take b.vec.len, len := a.vec.len + b.vec.len,
                       dropLog := a.vec.dropLog ++ b.vec.dropLog, escaped := a.vec.escaped ++ b.vec.escaped },
              addr := a.addr }

end Coll
