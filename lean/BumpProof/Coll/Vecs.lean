/-
  Coll/Vecs.lean — the growing operations of `FixedBumpVec` (`src/fixed_bump_vec.rs`), `BumpVec`
  (`src/bump_vec.rs`) and `MutBumpVec` (`src/mut_bump_vec.rs`): reservation / growth policy, `push`,
  `insert`, `extend_from_slice_clone`, `resize` / `extend_with`, `append`.
  (The three types share the text of these functions; they differ in `generic_reserve*`.)
-/
import BumpProof.Coll.Slice

namespace Coll

inductive Kind where
  | box      -- `BumpBox<[T]>`: no capacity of its own (`cap = len`)
  | fixed    -- `FixedBumpVec`: never reallocates
  | bump     -- `BumpVec`: grows by `allocator.grow` to exactly the computed capacity
  | mut      -- `MutBumpVec`: owns the rest of the chunk, capacity is whatever fits
  | rev      -- `MutBumpVecRev`
  deriving DecidableEq, Repr, Inhabited

/-- what an operation needs to know besides the vector -/
structure Env where
  bombs : List Id := []
  kind : Kind := .bump
  /-- capacity the implementation reported after the operation; consulted only when a `mut` / `rev`
      vector grows (its new capacity is decided by the arena: "as much as fits") -/
  capIn : Nat := 0
  /-- `min_non_zero_cap(T::SIZE)` (`src/lib.rs` l.544) -/
  minCap : Nat := 4
  /-- the largest element count that still has a valid layout (`isize::MAX / T::SIZE`): a growth to more than
      that ends in "capacity overflow" (`checked_add` / `checked_mul` / `Layout::from_size_align`, `bump_vec.rs`
      l.2665-2681 + l.2732-2760, `prepare_slice_allocation`); `none`: an idealised, unbounded address space -/
  maxCap : Option Nat := none
  deriving Repr, Inhabited

/-- does a capacity of `c` elements have a layout? -/
def Env.fits (env : Env) (c : Nat) : Bool :=
  match env.maxCap with
  | none => true
  | some m => decide (c ≤ m)

/-- a reallocation to `newCap` slots: `allocator.grow` / `grow_prepared_allocation` keep the contents -/
def growTo (v : Vec) (newCap : Nat) : Vec := { v with slots := v.slots ++ H (newCap - v.cap) }

/-- `generic_grow_amortized(additional)` — `bump_vec.rs` l.2665-2681, `mut_bump_vec.rs` l.2199-2215;
    `none` = the request is refused (`FixedBumpVec`: `fixed_size_vector_is_full / _no_space`) -/
def growAmortized (env : Env) (v : Vec) (additional : Nat) : Option Vec :=
  let required := v.len + additional
  let newCap := max (max (v.cap * 2) required) env.minCap
  match env.kind with
  | .box | .fixed => none
  | .bump => if env.fits newCap then some (growTo v newCap) else none                     -- else: capacity overflow
  | .mut | .rev => if env.fits newCap ∧ required ≤ env.capIn then some (growTo v env.capIn) else none

/-- `generic_reserve(additional)` — `fixed_bump_vec.rs` l.1629, `bump_vec.rs` l.1909 -/
def reserve (env : Env) (v : Vec) (additional : Nat) : Option Vec :=
  if additional > v.cap - v.len then growAmortized env v additional else some v

/-- `generic_reserve_one` — `fixed_bump_vec.rs` l.2374 (`is_full`), `bump_vec.rs` l.2655 -/
def reserveOne (env : Env) (v : Vec) : Option Vec :=
  match env.kind with
  | .fixed | .box => if v.len ≥ v.cap then none else some v
  | _ => if v.cap = v.len then growAmortized env v 1 else some v

/-- a value that is not in the buffer (an argument, a closure capture) is dropped while unwinding -/
def dropArg (v : Vec) (id : Id) : Vec := { v with dropLog := v.dropLog ++ [id] }

/-- `generic_push_mut_with(|| value)` — `fixed_bump_vec.rs` l.1107-1110, `bump_vec.rs` l.1374:
    `self.generic_reserve_one()?; self.push_mut_unchecked(f())` -/
def push (env : Env) (v : Vec) (id : Id) : M (Out Unit) :=
  match reserveOne env v with
  | none => .ok ⟨dropArg v id, .panic false, []⟩            -- the closure owning `value` is dropped by the unwind
  | some v =>
    match write v v.len id with                               -- `ptr.add(len).write(value); inc_len(1)`
    | .error e => .error e
    | .ok v => .ok ⟨setLen v (v.len + 1), .ret (), []⟩

/-- `push_with(f)` (`bump_vec.rs` l.1229 → `generic_push_mut_with(f)`): `self.generic_reserve_one()?;
    self.push_mut_unchecked(f())` — when the reservation is refused `f` is never called: no value exists -/
def pushWith (env : Env) (v : Vec) (id : Id) : M (Out Unit) :=
  match reserveOne env v with
  | none => .ok ⟨v, .panic false, []⟩
  | some _ => push env v id

/-- the `try_*` twin of an operation whose reservation is refused returns `Err(_)`; its by-value arguments are
    then dropped as ordinary locals — NOT by an unwind — so a panicking destructor among them does panic -/
def tryRefusedExit (bombs : List Id) (args : List Id) : Exit Unit :=
  if args.any bombs.contains then .panic true else .panic false

/-- `generic_insert_mut` — `fixed_bump_vec.rs` l.1215-1240, `bump_vec.rs` l.1433-1461 -/
def insert (env : Env) (v : Vec) (index : Nat) (id : Id) : M (Out Unit) :=
  if index > v.len then .ok ⟨dropArg v id, .panic false, []⟩  -- `assert_failed`; `element` dropped by the unwind
  else
    match reserveOne env v with
    | none => .ok ⟨dropArg v id, .panic false, []⟩
    | some v =>
      -- `if index != len { ptr::copy(pos, pos.add(1), len - index) }`
      match (if index ≠ v.len then copy v index (index + 1) (v.len - index) else .ok v) with
      | .error e => .error e
      | .ok v =>
        match write v index id with                           -- `pos.write(element); inc_len(1)`
        | .error e => .error e
        | .ok v => .ok ⟨setLen v (v.len + 1), .ret (), []⟩

/-- the loop of `generic_extend_from_slice_clone` — `fixed_bump_vec.rs` l.1384-1392:
    `while pos != slice.len() { self.push_unchecked(elem.clone()); pos += 1 }`; no guard: every clone
    that was produced is already counted in `len` -/
def extendCloneLoop : (fuel : Nat) → Vec → List Outcome → M (Out Unit)
  | 0, v, o => .ok ⟨v, .ret (), o⟩
  | _ + 1, v, [] => .ok ⟨v, .panic false, []⟩
  | _ + 1, v, .panic :: o => .ok ⟨v, .panic false, o⟩
  | fuel + 1, v, .ret id :: o =>
    match write v v.len id with
    | .error e => .error e
    | .ok v => extendCloneLoop fuel (setLen v (v.len + 1)) o

/-- `generic_extend_from_slice_clone(slice)` with `slice.len() = n` (the slice is borrowed: its own
    elements are not touched, `Clone::clone` is the oracle and yields the ids of the copies) -/
def extendFromSliceClone (env : Env) (v : Vec) (n : Nat) (o : List Outcome) : M (Out Unit) :=
  match reserve env v n with
  | none => .ok ⟨v, .panic false, o⟩
  | some v => extendCloneLoop n v o

/-- the `for _ in 1..n` loop of `extend_with_unchecked` (`fixed_bump_vec.rs` l.2044-2072) under
    `SetLenOnDropByPtr`: `ptr` = next slot, `localLen` = the guard's length -/
def extendWithLoop : (fuel : Nat) → Vec → (ptr localLen : Nat) → List Outcome → M (Vec × Nat × Nat × Bool × List Outcome)
  | 0, v, ptr, localLen, o => .ok (v, ptr, localLen, false, o)
  | _ + 1, v, ptr, localLen, [] => .ok (v, ptr, localLen, true, [])          -- `value.clone()` panicked
  | _ + 1, v, ptr, localLen, .panic :: o => .ok (v, ptr, localLen, true, o)
  | fuel + 1, v, ptr, localLen, .ret id :: o =>
    match write v ptr id with
    | .error e => .error e
    | .ok v => extendWithLoop fuel v (ptr + 1) (localLen + 1) o

/-- `extend_with(n, value)` — `fixed_bump_vec.rs` l.2029-2072, `bump_vec.rs` l.2628-2638 -/
def extendWith (env : Env) (v : Vec) (n : Nat) (value : Id) (o : List Outcome) : M (Out Unit) :=
  match reserve env v n with
  | none => .ok ⟨dropArg v value, .panic false, o⟩
  | some v =>
    match extendWithLoop (n - 1) v v.len v.len o with
    | .error e => .error e
    | .ok (v, _, localLen, true, o) =>
      -- unwinding: the guard stores `local_len`, then `value` is dropped
      .ok ⟨dropArg (setLen v localLen) value, .panic false, o⟩
    | .ok (v, ptr, localLen, false, o) =>
      if n > 0 then
        match write v ptr value with                          -- `ptr.write(value); local_len.increment_len(1)`
        | .error e => .error e
        | .ok v => .ok ⟨setLen v (localLen + 1), .ret (), o⟩
      else
        -- `value` goes out of scope
        .ok ⟨dropArg (setLen v localLen) value, if env.bombs.contains value then .panic true else .ret (), o⟩

/-- `generic_resize(new_len, value)` — `fixed_bump_vec.rs` l.1722-1735, `bump_vec.rs` l.2067 -/
def resize (env : Env) (v : Vec) (newLen : Nat) (value : Id) (o : List Outcome) : M (Out Unit) :=
  if newLen > v.len then extendWith env v (newLen - v.len) value o
  else
    match truncate env.bombs v newLen with
    | .error e => .error e
    | .ok r =>
      -- `value` is dropped on return (its `Drop` may panic) / by the unwind (it does not panic again)
      match r.exit with
      | .ret _ => .ok ⟨dropArg r.vec value, if env.bombs.contains value then .panic true else .ret (), o⟩
      | .panic d => .ok ⟨dropArg r.vec value, .panic d, o⟩

/-- the copy loop of `generic_extend_from_within_clone` (`fixed_bump_vec.rs` l.1561-1606, sized `T`):
    `dst.write((*src).clone()); src += 1; dst += 1; inc_len(1)`; no guard, every clone is counted at once -/
def extendWithinLoop : (fuel : Nat) → Vec → (src : Nat) → List Outcome → M (Out Unit)
  | 0, v, _, o => .ok ⟨v, .ret (), o⟩
  | fuel + 1, v, src, o =>
    match peek v src with                                   -- `(*src).clone()` reads the source element
    | .error e => .error e
    | .ok _ =>
      match o with
      | [] => .ok ⟨v, .panic false, []⟩
      | .panic :: o => .ok ⟨v, .panic false, o⟩
      | .ret id :: o =>
        match write v v.len id with
        | .error e => .error e
        | .ok v => extendWithinLoop fuel (setLen v (v.len + 1)) (src + 1) o

/-- `extend_from_within_clone(start..end)`: `slice::range` panics for a bad range, then `generic_reserve(count)` -/
def extendFromWithinClone (env : Env) (v : Vec) (start end_ : Nat) (o : List Outcome) : M (Out Unit) :=
  if start > end_ ∨ end_ > v.len then .ok ⟨v, .panic false, o⟩
  else
    match reserve env v (end_ - start) with
    | none => .ok ⟨v, .panic false, o⟩
    | some v => extendWithinLoop (end_ - start) v start o

/-- `generic_reserve_exact(additional)` — `bump_vec.rs` l.1978-1984 / `generic_grow_exact` l.2715-2729: grows to
    exactly `len + additional` (`MutBumpVec`: to what the chunk holds, observed) -/
def reserveExact (env : Env) (v : Vec) (additional : Nat) : Option Vec :=
  if additional > v.cap - v.len then
    match env.kind with
    | .box | .fixed => none
    | .bump => if env.fits (v.len + additional) then some (growTo v (v.len + additional)) else none
    | .mut | .rev => if env.fits (v.len + additional) ∧ v.len + additional ≤ env.capIn then some (growTo v env.capIn) else none
  else some v

/-- `BumpVec::shrink_to_fit` (l.2793-2814): if `cap > len` the allocator is asked to shrink the block to
    `len` slots; whether it does (`shrink_slice` returns `Some`) is the arena's decision (observed: `capIn`) -/
def shrinkToFit (env : Env) (v : Vec) : Vec :=
  if v.cap ≤ v.len then v
  else if env.capIn = v.len then { v with slots := v.slots.take v.len }
  else v

/-- `BumpVec::shrink_to(min_capacity)` (`bump_vec.rs` l.2836-2857): `new_cap = max(len, min_capacity)`; nothing to
    do unless `new_cap < cap`; then the allocator is asked (`shrink_slice`), and when it agrees (the vector is
    the last allocation; observed: `capIn`) the pointer IT returns and `new_cap` are stored -/
def shrinkTo (env : Env) (v : Vec) (minCapacity : Nat) : Vec :=
  let newCap := max v.len minCapacity
  if v.cap ≤ newCap then v
  else if env.capIn = newCap then { v with slots := v.slots.take newCap }
  else v

/-- `generic_resize_with(new_len, f)` — `fixed_bump_vec.rs` l.1819-1831, `bump_vec.rs` l.2162-2174: grows
    through `extend_trusted(repeat_with(f).take(n))` (`bump_vec.rs` l.2862-2903): under
    `SetLenOnDropByPtr`, `ptr.add(local_len).write(f()); local_len += 1` for each element; a panicking
    `f` leaves what was written so far -/
def resizeWith (env : Env) (v : Vec) (newLen : Nat) (o : List Outcome) : M (Out Unit) :=
  if newLen > v.len then
    let n := newLen - v.len
    match reserve env v n with
    | none => .ok ⟨v, .panic false, o⟩
    | some v =>
      match extendWithLoop n v v.len v.len o with
      | .error e => .error e
      | .ok (v, _, localLen, panicked, o) => .ok ⟨setLen v localLen, if panicked then .panic false else .ret (), o⟩
  else
    match truncate env.bombs v newLen with
    | .error e => .error e
    | .ok r => .ok ⟨r.vec, r.exit, o⟩

/-- `pop_if(predicate)` — `fixed_bump_vec.rs` l.460-463: `let last = self.last_mut()?; if predicate(last) { self.pop() } else { None }` -/
def popIf (v : Vec) (o : List Outcome) : M (Out (Option Id)) :=
  if v.len = 0 then .ok ⟨v, .ret none, o⟩
  else
    match peek v (v.len - 1) with
    | .error e => .error e
    | .ok _ =>
      match o with
      | [] => .ok ⟨v, .panic false, []⟩
      | .panic :: o => .ok ⟨v, .panic false, o⟩
      | .ret b :: o =>
        if b ≠ 0 then
          match pop v with
          | .error e => .error e
          | .ok r => .ok ⟨r.vec, r.exit, o⟩
        else .ok ⟨v, .ret none, o⟩

/-- `generic_append(other)` — `fixed_bump_vec.rs` l.1891-1906, `bump_vec.rs` l.2234-2250, with `other`
    an owned slice (`BumpBox<[T]>`, a vector): returns `(self, other)` afterwards -/
def append (env : Env) (v other : Vec) : M (Out Unit × Vec) :=
  let n := other.len
  match reserve env v n with
  | none =>
    -- `?` returns / unwinds: `owned_slice` is dropped with its elements
    match dropRange env.bombs true (setLen other 0) 0 n with
    | .error e => .error e
    | .ok (other, _) => .ok (⟨v, .panic false, []⟩, other)
  | some v =>
    -- `ptr::copy_nonoverlapping(src, dst, n); owned_slice.take_owned_slice(); self.inc_len(n)`
    match (other.slots.take n).mapM Slot.id? with
    | none => .error (.readHole 0)
    | some ids =>
      if v.len + n > v.cap then .error (.outOfBounds (v.len + n))
      else if (v.slots.drop v.len).take n ≠ H n then .error (.overwrite v.len)
      else
        let v := { v with slots := v.slots.take v.len ++ I ids ++ v.slots.drop (v.len + n) }
        let other := setLen { other with slots := H n ++ other.slots.drop n } 0
        .ok (⟨setLen v (v.len + n), .ret (), []⟩, other)

end Coll
