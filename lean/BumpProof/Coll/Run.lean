/-
  Coll/Run.lean — histories: a finite sequence of (modelled, single-vector) operations applied to one
  vector, each with its own arguments and callback oracle.  `Props/C06.lean` / `C08.lean` lift the
  per-operation theorems to every history by induction over the list.
-/
import BumpProof.Coll.Vecs
import BumpProof.Coll.Iter
import BumpProof.Coll.Spec

namespace Coll

inductive Op where
  | retain (o : List Outcome)
  | dedupBy (o : List Outcome)
  | dedupByKey (o : List Outcome)
  | truncate (n : Nat)
  | clear
  | pop
  | popIf (o : List Outcome)
  | remove (i : Nat)
  | swapRemove (i : Nat)
  | push (id : Id)
  | insert (i : Nat) (id : Id)
  | extendClone (n : Nat) (o : List Outcome)
  | extendWithin (start end_ : Nat) (o : List Outcome)
  | resize (n : Nat) (value : Id) (o : List Outcome)
  | resizeWith (n : Nat) (o : List Outcome)
  | drain (start end_ : Nat) (script : List Pull) (fin : Fin)
  | extractIf (calls : Nat) (o : List Outcome)
  | mapInPlace (o : List Outcome)
  deriving Repr

/-- one operation; only the vector afterwards matters for what follows (a panic leaves the vector
    in the state the guards produced, and the history goes on) -/
def stepVec (env : Env) (v : Vec) : Op → M Vec
  | .retain o => (retain env.bombs v o).map (·.vec)
  | .dedupBy o => (dedupBy env.bombs v o).map (·.vec)
  | .dedupByKey o => (dedupByKey env.bombs v o).map (·.vec)
  | .truncate n => (truncate env.bombs v n).map (·.vec)
  | .clear => (clear env.bombs v).map (·.vec)
  | .pop => (pop v).map (·.vec)
  | .popIf o => (popIf v o).map (·.vec)
  | .remove i => (remove v i).map (·.vec)
  | .swapRemove i => (swapRemove v i).map (·.vec)
  | .push id => (push env v id).map (·.vec)
  | .insert i id => (insert env v i id).map (·.vec)
  | .extendClone n o => (extendFromSliceClone env v n o).map (·.vec)
  | .extendWithin s e o => (extendFromWithinClone env v s e o).map (·.vec)
  | .resize n value o => (resize env v n value o).map (·.vec)
  | .resizeWith n o => (resizeWith env v n o).map (·.vec)
  | .drain s e script fin => (drain env.bombs v s e script fin).map (·.vec)
  | .extractIf calls o => (extractIf v calls o).map (·.vec)
  | .mapInPlace o => (mapInPlace env.bombs v o).map (·.vec)

/-- ids the operation brings into the accounting (arguments moved in, values produced by `Clone` / closures) -/
def insOf (env : Env) (v : Vec) : Op → List Id
  | .push id => [id]
  | .insert _ id => [id]
  | .extendClone n o => if (reserve env v n).isSome then clonedIds n o else []
  | .extendWithin s e o => if s ≤ e ∧ e ≤ v.len ∧ (reserve env v (e - s)).isSome then clonedIds (e - s) o else []
  | .resize n value o => resizeIns ((reserve env v (n - v.len)).isSome) v.abs n value o
  | .resizeWith n o => if n > v.len ∧ (reserve env v (n - v.len)).isSome then clonedIds (n - v.len) o else []
  | .mapInPlace o => mapIns v.abs o
  | _ => []

/-- the vector after one operation (a model fault leaves it; the theorems show it never happens) -/
def stepD (env : Env) (v : Vec) (op : Op) : Vec :=
  match stepVec env v op with
  | .ok v' => v'
  | .error _ => v

/-- the vector after a history -/
def runD (env : Env) : Vec → List Op → Vec
  | v, [] => v
  | v, op :: ops => runD env (stepD env v op) ops

/-- the history in the fault monad: a model fault (read of a moved-out slot, overwrite of a live value,
    out-of-bounds access) stops it -/
def run (env : Env) : Vec → List Op → M Vec
  | v, [] => .ok v
  | v, op :: ops =>
    match stepVec env v op with
    | .ok v' => run env v' ops
    | .error e => .error e

/-- all ids a history brings in -/
def insRun (env : Env) : Vec → List Op → List Id
  | _, [] => []
  | v, op :: ops => insOf env v op ++ insRun env (stepD env v op) ops

/-! ## the same history on plain lists (the `Vec`-like specification) -/

/-- did the reservation the operation asks for succeed (`true` for operations that never allocate) -/
def roomOf (env : Env) (v : Vec) : Op → Bool
  | .push _ => (reserveOne env v).isSome
  | .insert _ _ => (reserveOne env v).isSome
  | .extendClone n _ => (reserve env v n).isSome
  | .extendWithin s e _ => (reserve env v (e - s)).isSome
  | .resize n _ _ => (reserve env v (n - v.len)).isSome
  | .resizeWith n _ => (reserve env v (n - v.len)).isSome
  | _ => true

/-- the contents after one operation, on lists; `room` is the only thing the list level cannot know:
    whether the allocator granted the reservation (`FixedBumpVec`: whether the capacity suffices) -/
def specStep (bombs : List Id) (xs : List Id) (room : Bool) : Op → List Id
  | .retain o => (retainSpec bombs xs o).final
  | .dedupBy o => (dedupSpec bombs xs o).final
  | .dedupByKey o => (dedupSpec bombs xs (pairUp o)).final
  | .truncate n => (truncateSpec bombs xs n).final
  | .clear => (clearSpec bombs xs).final
  | .pop => (popSpec xs).final
  | .popIf o => (popIfSpec xs o).final
  | .remove i => (removeSpec xs i).final
  | .swapRemove i => (swapRemoveSpec xs i).final
  | .push id => (pushSpec room xs id).final
  | .insert i id => (insertSpec room xs i id).final
  | .extendClone n o => (extendCloneSpecR room xs n o).final
  | .extendWithin s e o => if s ≤ e ∧ e ≤ xs.length then (extendCloneSpecR room xs (e - s) o).final else xs
  | .resize n value o => (resizeSpec room bombs xs n value o).final
  | .resizeWith n o => (resizeWithSpec room bombs xs n o).final
  | .drain s e script fin => (drainSpec bombs xs s e script fin).final
  | .extractIf calls o => (extractSpec calls xs o).final
  | .mapInPlace o => (mapSpec [] xs o).final

/-- the allocation results along the concrete history -/
def roomsRun (env : Env) : Vec → List Op → List Bool
  | _, [] => []
  | v, op :: ops => roomOf env v op :: roomsRun env (stepD env v op) ops

/-- the list-level history, given the allocation results -/
def specRun (bombs : List Id) : List Id → List Op → List Bool → List Id
  | xs, [], _ => xs
  | xs, op :: ops, [] => specRun bombs (specStep bombs xs true op) ops []
  | xs, op :: ops, b :: bs => specRun bombs (specStep bombs xs b op) ops bs

end Coll
