/-
  Coll/Spec.lean — list-level descriptions of the slice algorithms: what each operation does to
  the SEQUENCE of ids `abs v`, which ids it drops (in order) and hands out, how it ends — for every
  oracle, including the panicking ones.  `Lemmas/Coll*.lean` prove that the slot-level models of
  `Coll/Slice.lean` (cursors, holes, guards) compute exactly these functions on well-formed
  vectors; `Props/C06|C08|C16.lean` then reason about plain lists.
-/
import BumpProof.Coll.Vecs
import BumpProof.Coll.Iter

namespace Coll

/-- list-level result: contents afterwards, ids dropped (in order), ids handed out, exit, oracle left -/
structure SpecOut (α : Type) where
  final : List Id
  dropped : List Id := []
  escaped : List Id := []
  exit : Exit α
  rest : List Outcome
  deriving Repr

/-- the vector `v` after an operation described by `r` (`spare` = unused slots afterwards) -/
def Vec.after {α} (v : Vec) (r : SpecOut α) : Vec :=
  { slots := I r.final ++ H (v.cap - r.final.length), len := r.final.length,
    dropLog := v.dropLog ++ r.dropped, escaped := v.escaped ++ r.escaped }

/-! ## retain / dedup_by: one pass that keeps or drops each element -/

/-- one pass over the unchecked elements: the callback's answer `b` decides (`keep b`) whether the
    element survives (appended to `kept`) or is dropped; a panicking callback leaves everything that
    was not dropped in place, in order; a panicking `Drop` ends the pass with the element gone -/
def sieve (keep : Nat → Bool) (bombs : List Id) (kept : List Id) : List Id → List Outcome → SpecOut Unit
  | [], o => { final := kept, exit := .ret (), rest := o }
  | x :: rest, [] => { final := kept ++ x :: rest, exit := .panic false, rest := [] }
  | x :: rest, .panic :: o => { final := kept ++ x :: rest, exit := .panic false, rest := o }
  | x :: rest, .ret b :: o =>
    if keep b then sieve keep bombs (kept ++ [x]) rest o
    else if bombs.contains x then { final := kept ++ rest, dropped := [x], exit := .panic true, rest := o }
    else
      let r := sieve keep bombs kept rest o
      { r with dropped := x :: r.dropped }

/-- `retain`: the predicate's answer `b ≠ 0` keeps the element -/
def retainSpec (bombs : List Id) (xs : List Id) (o : List Outcome) : SpecOut Unit :=
  sieve (· != 0) bombs [] xs o

/-- `dedup_by`: the first element always stays; `same_bucket(cur, prev) = true` drops `cur` -/
def dedupSpec (bombs : List Id) (xs : List Id) (o : List Outcome) : SpecOut Unit :=
  match xs with
  | [] => { final := [], exit := .ret (), rest := o }
  | x :: rest => sieve (· == 0) bombs [x] rest o

/-- the calls `Vec::dedup_by(same_bucket)` makes on a list: every element after the first is compared with the
    last element that was RETAINED so far (`last`) -/
def dedupCallsSpec (bombs : List Id) (last : Id) : List Id → List Outcome → List (Id × Id)
  | [], _ => []
  | x :: _, [] => [(x, last)]
  | x :: _, .panic :: _ => [(x, last)]
  | x :: rest, .ret c :: o =>
    (x, last) :: (if c ≠ 0 then (if bombs.contains x then [] else dedupCallsSpec bombs last rest o)
                  else dedupCallsSpec bombs x rest o)

/-! ## truncate / clear / pop / remove / swap_remove -/

/-- exit of an operation whose only possible panic is a `Drop` of one of `ds` -/
def dropExit (bombs : List Id) (ds : List Id) : Exit Unit :=
  if ds.any bombs.contains then .panic true else .ret ()

def truncateSpec (bombs : List Id) (xs : List Id) (n : Nat) : SpecOut Unit :=
  if n ≥ xs.length then { final := xs, exit := .ret (), rest := [] }
  else { final := xs.take n, dropped := xs.drop n, exit := dropExit bombs (xs.drop n), rest := [] }

def clearSpec (bombs : List Id) (xs : List Id) : SpecOut Unit :=
  { final := [], dropped := xs, exit := dropExit bombs xs, rest := [] }

def popSpec (xs : List Id) : SpecOut (Option Id) :=
  match xs.getLast? with
  | none => { final := xs, exit := .ret none, rest := [] }
  | some x => { final := xs.dropLast, escaped := [x], exit := .ret (some x), rest := [] }

def removeSpec (xs : List Id) (i : Nat) : SpecOut Id :=
  match xs[i]? with
  | none => { final := xs, exit := .panic false, rest := [] }
  | some x => { final := xs.eraseIdx i, escaped := [x], exit := .ret x, rest := [] }

/-- `swap_remove`: the last element takes the place of the removed one -/
def swapRemoveSpec (xs : List Id) (i : Nat) : SpecOut Id :=
  match xs[i]?, xs.getLast? with
  | some x, some l => { final := (xs.set i l).dropLast, escaped := [x], exit := .ret x, rest := [] }
  | _, _ => { final := xs, exit := .panic false, rest := [] }

/-! ## push / insert / extend_from_slice_clone / resize (given whether the reservation succeeded) -/

def pushSpec (room : Bool) (xs : List Id) (id : Id) : SpecOut Unit :=
  if room then { final := xs ++ [id], exit := .ret (), rest := [] }
  else { final := xs, dropped := [id], exit := .panic false, rest := [] }

def insertSpec (room : Bool) (xs : List Id) (i : Nat) (id : Id) : SpecOut Unit :=
  if i ≤ xs.length ∧ room then { final := xs.take i ++ id :: xs.drop i, exit := .ret (), rest := [] }
  else { final := xs, dropped := [id], exit := .panic false, rest := [] }

/-- `n` clones are appended one by one; a panicking `Clone` keeps the clones made so far -/
def extendCloneSpec (xs : List Id) : Nat → List Outcome → SpecOut Unit
  | 0, o => { final := xs, exit := .ret (), rest := o }
  | _ + 1, [] => { final := xs, exit := .panic false, rest := [] }
  | _ + 1, .panic :: o => { final := xs, exit := .panic false, rest := o }
  | n + 1, .ret id :: o => extendCloneSpec (xs ++ [id]) n o

/-- `extend_with(n, value)` after a successful reservation: `n - 1` clones, then the value itself -/
def extendWithSpec (bombs : List Id) (xs : List Id) (n : Nat) (value : Id) (o : List Outcome) : SpecOut Unit :=
  match n with
  | 0 => { final := xs, dropped := [value], exit := if bombs.contains value then .panic true else .ret (), rest := o }
  | m + 1 =>
    let r := extendCloneSpec xs m o
    match r.exit with
    | .ret _ => { r with final := r.final ++ [value] }
    | .panic _ => { r with dropped := [value], exit := .panic false }

/-- with the outcome of the reservation -/
def extendCloneSpecR (room : Bool) (xs : List Id) (n : Nat) (o : List Outcome) : SpecOut Unit :=
  if room then extendCloneSpec xs n o else { final := xs, exit := .panic false, rest := o }

def extendWithSpecR (room : Bool) (bombs : List Id) (xs : List Id) (n : Nat) (value : Id) (o : List Outcome) : SpecOut Unit :=
  if room then extendWithSpec bombs xs n value o
  else { final := xs, dropped := [value], exit := .panic false, rest := o }

/-- `resize(new_len, value)`: grow by clones of `value` (and `value` itself), or truncate and drop `value` -/
def resizeSpec (room : Bool) (bombs : List Id) (xs : List Id) (newLen : Nat) (value : Id) (o : List Outcome) : SpecOut Unit :=
  if newLen > xs.length then extendWithSpecR room bombs xs (newLen - xs.length) value o
  else
    let t := truncateSpec bombs xs newLen
    { final := t.final, dropped := t.dropped ++ [value],
      exit := match t.exit with
        | .ret _ => if bombs.contains value then .panic true else .ret ()
        | .panic d => .panic d,
      rest := o }

/-- `resize_with(new_len, f)`: grow by values produced by `f`, or truncate -/
def resizeWithSpec (room : Bool) (bombs : List Id) (xs : List Id) (newLen : Nat) (o : List Outcome) : SpecOut Unit :=
  if newLen > xs.length then extendCloneSpecR room xs (newLen - xs.length) o
  else { truncateSpec bombs xs newLen with rest := o }

/-- `pop_if(pred)` -/
def popIfSpec (xs : List Id) (o : List Outcome) : SpecOut (Option Id) :=
  match xs.getLast?, o with
  | none, o => { final := xs, exit := .ret none, rest := o }
  | some _, [] => { final := xs, exit := .panic false, rest := [] }
  | some _, .panic :: o => { final := xs, exit := .panic false, rest := o }
  | some x, .ret b :: o =>
    if b ≠ 0 then { final := xs.dropLast, escaped := [x], exit := .ret (some x), rest := o }
    else { final := xs, exit := .ret none, rest := o }

/-- ids the operation brought into existence (inserted by the caller or produced by `Clone`) -/
def clonedIds : Nat → List Outcome → List Id
  | 0, _ => []
  | _ + 1, [] => []
  | _ + 1, .panic :: _ => []
  | n + 1, .ret id :: o => id :: clonedIds n o

/-- ids that `extend_with` / `resize` bring into the accounting: the clones that were made and `value` -/
def extendWithIns (room : Bool) (n : Nat) (value : Id) (o : List Outcome) : List Id :=
  (if room then clonedIds (n - 1) o else []) ++ [value]

def resizeIns (room : Bool) (xs : List Id) (newLen : Nat) (value : Id) (o : List Outcome) : List Id :=
  if newLen > xs.length then extendWithIns room (newLen - xs.length) value o else [value]

/-! ## drain / into_iter / extract_if / map_in_place / append -/

/-- a script of `next` / `next_back` calls on the un-yielded elements `u`: what each call returned,
    and what is left -/
def pullsSpec : List Id → List Pull → List (Option Id) × List Id
  | u, [] => ([], u)
  | u, .front :: ps =>
    match u with
    | [] => let r := pullsSpec [] ps; (none :: r.1, r.2)
    | x :: u' => let r := pullsSpec u' ps; (some x :: r.1, r.2)
  | u, .back :: ps =>
    match u.getLast? with
    | none => let r := pullsSpec u ps; (none :: r.1, r.2)
    | some x => let r := pullsSpec u.dropLast ps; (some x :: r.1, r.2)

/-- ids among the results of a script -/
def yielded (rs : List (Option Id)) : List Id := rs.filterMap id

/-- `drain(start..end)`, pulls, then drop / `keep_rest` -/
def drainSpec (bombs : List Id) (xs : List Id) (start end_ : Nat) (script : List Pull) (fin : Fin) :
    SpecOut (List (Option Id)) :=
  if start > end_ ∨ end_ > xs.length then { final := xs, exit := .panic false, rest := [] }
  else
    let head := xs.take start
    let range := (xs.take end_).drop start
    let tail := xs.drop end_
    let r := pullsSpec range script
    match fin with
    | .drop => { final := head ++ tail, dropped := r.2, escaped := yielded r.1,
                 exit := if r.2.any bombs.contains then .panic true else .ret r.1, rest := [] }
    | .keepRest => { final := head ++ r.2 ++ tail, escaped := yielded r.1, exit := .ret r.1, rest := [] }

/-- `into_iter()`, pulls, drop of the iterator: the owner is gone, nothing remains -/
def intoIterSpec (bombs : List Id) (xs : List Id) (script : List Pull) : SpecOut (List (Option Id)) :=
  let r := pullsSpec xs script
  { final := [], dropped := r.2, escaped := yielded r.1,
    exit := if r.2.any bombs.contains then .panic true else .ret r.1, rest := [] }

/-- one `ExtractIf::next()`: scan the unscanned elements until one is extracted (`some (some x)`),
    the end is reached (`some none`) or the predicate panics (`none`) -/
def scanSpec (kept : List Id) : List Id → List Outcome → List Id × List Id × Option (Option Id) × List Outcome
  | [], o => (kept, [], some none, o)
  | x :: rest, [] => (kept, x :: rest, none, [])
  | x :: rest, .panic :: o => (kept, x :: rest, none, o)
  | x :: rest, .ret b :: o =>
    if b ≠ 0 then (kept, rest, some (some x), o) else scanSpec (kept ++ [x]) rest o

/-- `calls` × `next()` (stopping at the end or at a panic): retained prefix, unscanned rest, whether
    the predicate panicked, the extracted ids, the oracle left -/
def extractRun : (calls : Nat) → (kept rest : List Id) → List Outcome → List Id × List Id × Bool × List Id × List Outcome
  | 0, kept, rest, o => (kept, rest, false, [], o)
  | c + 1, kept, rest, o =>
    match scanSpec kept rest o with
    | (kept', rest', none, o') => (kept', rest', true, [], o')
    | (kept', rest', some none, o') => (kept', rest', false, [], o')
    | (kept', rest', some (some x), o') =>
      let r := extractRun c kept' rest' o'
      (r.1, r.2.1, r.2.2.1, x :: r.2.2.2.1, r.2.2.2.2)

/-- `extract_if(pred)`, `calls` × `next()`, then the iterator is dropped: whatever was not extracted
    stays, in order -/
def extractSpec (calls : Nat) (xs : List Id) (o : List Outcome) : SpecOut (List Id) :=
  let r := extractRun calls [] xs o
  { final := r.1 ++ r.2.1, escaped := r.2.2.2.1,
    exit := if r.2.2.1 then .panic false else .ret r.2.2.2.1, rest := r.2.2.2.2 }

/-- `map_in_place(f)`: every element is moved into `f`; if `f` panics the unread elements and the
    results produced so far are dropped and the owner is gone -/
def mapSpec (done : List Id) : List Id → List Outcome → SpecOut Unit
  | [], o => { final := done, exit := .ret (), rest := o }
  | x :: rest, [] => { final := [], dropped := rest ++ done, escaped := [x], exit := .panic false, rest := [] }
  | x :: rest, .panic :: o => { final := [], dropped := rest ++ done, escaped := [x], exit := .panic false, rest := o }
  | x :: rest, .ret id :: o =>
    let r := mapSpec (done ++ [id]) rest o
    { r with escaped := x :: r.escaped }

/-- ids produced by the closure of `map_in_place` -/
def mapIns : List Id → List Outcome → List Id
  | [], _ => []
  | _ :: _, [] => []
  | _ :: _, .panic :: _ => []
  | _ :: rest, .ret id :: o => id :: mapIns rest o

/-- `append(other)` -/
def appendSpec (room : Bool) (xs ys : List Id) : SpecOut Unit :=
  if room then { final := xs ++ ys, exit := .ret (), rest := [] }
  else { final := xs, exit := .panic false, rest := [] }

/-- the owned slice that was passed to `append`, afterwards: emptied (`take_owned_slice`), or dropped
    with all its elements when the reservation was refused -/
def appendedOther (room : Bool) (other : Vec) (ys : List Id) : Vec :=
  { slots := H other.cap, len := 0, dropLog := if room then other.dropLog else other.dropLog ++ ys, escaped := other.escaped }

end Coll
