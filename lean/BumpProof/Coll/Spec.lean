/-
  Coll/Spec.lean — list-level descriptions of the slice algorithms: what each operation does to
  the SEQUENCE of ids `abs v`, which ids it drops (in order) and hands out, how it ends — for every
  oracle, including the panicking ones.  `Lemmas/Coll*.lean` prove that the slot-level models of
  `Coll/Slice.lean` (cursors, holes, guards) compute exactly these functions on well-formed
  vectors; `Props/C06|C08|C16.lean` then reason about plain lists.
-/
import BumpProof.Coll.Vecs

namespace Coll

/-- list-level result: contents afterwards, ids dropped (in order), ids handed out, exit, oracle left -/
structure SpecOut (α : Type) where
  final : List Id
  dropped : List Id := []
  escaped : List Id := []
  exit : Exit α
  rest : List Outcome
  deriving Repr

/-- the vector `v` after an operation described by `r` (`spare` = unused slots afterwards) -/
def Vec.after {α} (v : Vec) (r : SpecOut α) : Vec :=
  { slots := I r.final ++ H (v.cap - r.final.length), len := r.final.length,
    dropLog := v.dropLog ++ r.dropped, escaped := v.escaped ++ r.escaped }

/-! ## retain / dedup_by: one pass that keeps or drops each element -/

/-- one pass over the unchecked elements: the callback's answer `b` decides (`keep b`) whether the
    element survives (appended to `kept`) or is dropped; a panicking callback leaves everything that
    was not dropped in place, in order; a panicking `Drop` ends the pass with the element gone -/
def sieve (keep : Nat → Bool) (bombs : List Id) (kept : List Id) : List Id → List Outcome → SpecOut Unit
  | [], o => { final := kept, exit := .ret (), rest := o }
  | x :: rest, [] => { final := kept ++ x :: rest, exit := .panic false, rest := [] }
  | x :: rest, .panic :: o => { final := kept ++ x :: rest, exit := .panic false, rest := o }
  | x :: rest, .ret b :: o =>
    if keep b then sieve keep bombs (kept ++ [x]) rest o
    else if bombs.contains x then { final := kept ++ rest, dropped := [x], exit := .panic true, rest := o }
    else
      let r := sieve keep bombs kept rest o
      { r with dropped := x :: r.dropped }

/-- `retain`: the predicate's answer `b ≠ 0` keeps the element -/
def retainSpec (bombs : List Id) (xs : List Id) (o : List Outcome) : SpecOut Unit :=
  sieve (· != 0) bombs [] xs o

/-- `dedup_by`: the first element always stays; `same_bucket(cur, prev) = true` drops `cur` -/
def dedupSpec (bombs : List Id) (xs : List Id) (o : List Outcome) : SpecOut Unit :=
  match xs with
  | [] => { final := [], exit := .ret (), rest := o }
  | x :: rest => sieve (· == 0) bombs [x] rest o

/-! ## truncate / clear / pop / remove / swap_remove -/

/-- exit of an operation whose only possible panic is a `Drop` of one of `ds` -/
def dropExit (bombs : List Id) (ds : List Id) : Exit Unit :=
  if ds.any bombs.contains then .panic true else .ret ()

def truncateSpec (bombs : List Id) (xs : List Id) (n : Nat) : SpecOut Unit :=
  if n ≥ xs.length then { final := xs, exit := .ret (), rest := [] }
  else { final := xs.take n, dropped := xs.drop n, exit := dropExit bombs (xs.drop n), rest := [] }

def clearSpec (bombs : List Id) (xs : List Id) : SpecOut Unit :=
  { final := [], dropped := xs, exit := dropExit bombs xs, rest := [] }

def popSpec (xs : List Id) : SpecOut (Option Id) :=
  match xs.getLast? with
  | none => { final := xs, exit := .ret none, rest := [] }
  | some x => { final := xs.dropLast, escaped := [x], exit := .ret (some x), rest := [] }

def removeSpec (xs : List Id) (i : Nat) : SpecOut Id :=
  match xs[i]? with
  | none => { final := xs, exit := .panic false, rest := [] }
  | some x => { final := xs.eraseIdx i, escaped := [x], exit := .ret x, rest := [] }

/-- `swap_remove`: the last element takes the place of the removed one -/
def swapRemoveSpec (xs : List Id) (i : Nat) : SpecOut Id :=
  match xs[i]?, xs.getLast? with
  | some x, some l => { final := (xs.set i l).dropLast, escaped := [x], exit := .ret x, rest := [] }
  | _, _ => { final := xs, exit := .panic false, rest := [] }

/-! ## push / insert / extend_from_slice_clone / resize (given whether the reservation succeeded) -/

def pushSpec (room : Bool) (xs : List Id) (id : Id) : SpecOut Unit :=
  if room then { final := xs ++ [id], exit := .ret (), rest := [] }
  else { final := xs, dropped := [id], exit := .panic false, rest := [] }

def insertSpec (room : Bool) (xs : List Id) (i : Nat) (id : Id) : SpecOut Unit :=
  if i ≤ xs.length ∧ room then { final := xs.take i ++ id :: xs.drop i, exit := .ret (), rest := [] }
  else { final := xs, dropped := [id], exit := .panic false, rest := [] }

/-- `n` clones are appended one by one; a panicking `Clone` keeps the clones made so far -/
def extendCloneSpec (xs : List Id) : Nat → List Outcome → SpecOut Unit
  | 0, o => { final := xs, exit := .ret (), rest := o }
  | _ + 1, [] => { final := xs, exit := .panic false, rest := [] }
  | _ + 1, .panic :: o => { final := xs, exit := .panic false, rest := o }
  | n + 1, .ret id :: o => extendCloneSpec (xs ++ [id]) n o

/-- `extend_with(n, value)` after a successful reservation: `n - 1` clones, then the value itself -/
def extendWithSpec (bombs : List Id) (xs : List Id) (n : Nat) (value : Id) (o : List Outcome) : SpecOut Unit :=
  match n with
  | 0 => { final := xs, dropped := [value], exit := if bombs.contains value then .panic true else .ret (), rest := o }
  | m + 1 =>
    let r := extendCloneSpec xs m o
    match r.exit with
    | .ret _ => { r with final := r.final ++ [value] }
    | .panic _ => { r with dropped := [value], exit := .panic false }

/-- with the outcome of the reservation -/
def extendCloneSpecR (room : Bool) (xs : List Id) (n : Nat) (o : List Outcome) : SpecOut Unit :=
  if room then extendCloneSpec xs n o else { final := xs, exit := .panic false, rest := o }

def extendWithSpecR (room : Bool) (bombs : List Id) (xs : List Id) (n : Nat) (value : Id) (o : List Outcome) : SpecOut Unit :=
  if room then extendWithSpec bombs xs n value o
  else { final := xs, dropped := [value], exit := .panic false, rest := o }

/-- `resize(new_len, value)`: grow by clones of `value` (and `value` itself), or truncate and drop `value` -/
def resizeSpec (room : Bool) (bombs : List Id) (xs : List Id) (newLen : Nat) (value : Id) (o : List Outcome) : SpecOut Unit :=
  if newLen > xs.length then extendWithSpecR room bombs xs (newLen - xs.length) value o
  else
    let t := truncateSpec bombs xs newLen
    { final := t.final, dropped := t.dropped ++ [value],
      exit := match t.exit with
        | .ret _ => if bombs.contains value then .panic true else .ret ()
        | .panic d => .panic d,
      rest := o }

/-- ids the operation brought into existence (inserted by the caller or produced by `Clone`) -/
def clonedIds : Nat → List Outcome → List Id
  | 0, _ => []
  | _ + 1, [] => []
  | _ + 1, .panic :: _ => []
  | n + 1, .ret id :: o => id :: clonedIds n o

/-- ids that `extend_with` / `resize` bring into the accounting: the clones that were made and `value` -/
def extendWithIns (room : Bool) (n : Nat) (value : Id) (o : List Outcome) : List Id :=
  (if room then clonedIds (n - 1) o else []) ++ [value]

def resizeIns (room : Bool) (xs : List Id) (newLen : Nat) (value : Id) (o : List Outcome) : List Id :=
  if newLen > xs.length then extendWithIns room (newLen - xs.length) value o else [value]

end Coll
