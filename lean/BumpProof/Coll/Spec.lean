/-
  Coll/Spec.lean — list-level descriptions of the slice algorithms: what each operation does to
  the SEQUENCE of ids `abs v`, which ids it drops (in order) and hands out, how it ends — for every
  oracle, including the panicking ones.  `Lemmas/Coll*.lean` prove that the slot-level models of
  `Coll/Slice.lean` (cursors, holes, guards) compute exactly these functions on well-formed
  vectors; `Props/C06|C08|C16.lean` then reason about plain lists.
-/
import BumpProof.Coll.Slice

namespace Coll

/-- list-level result: contents afterwards, ids dropped (in order), ids handed out, exit, oracle left -/
structure SpecOut (α : Type) where
  final : List Id
  dropped : List Id := []
  escaped : List Id := []
  exit : Exit α
  rest : List Outcome
  deriving Repr

/-- the vector `v` after an operation described by `r` (`spare` = unused slots afterwards) -/
def Vec.after {α} (v : Vec) (r : SpecOut α) : Vec :=
  { slots := I r.final ++ H (v.cap - r.final.length), len := r.final.length,
    dropLog := v.dropLog ++ r.dropped, escaped := v.escaped ++ r.escaped }

/-! ## retain -/

/-- `retain` from a point where `kept` are the survivors so far and the given list is unchecked -/
def retainTail (bombs : List Id) (kept : List Id) : List Id → List Outcome → SpecOut Unit
  | [], o => { final := kept, exit := .ret (), rest := o }
  | x :: rest, [] => { final := kept ++ x :: rest, exit := .panic false, rest := [] }
  | x :: rest, .panic :: o => { final := kept ++ x :: rest, exit := .panic false, rest := o }
  | x :: rest, .ret b :: o =>
    if b = 0 then
      if bombs.contains x then { final := kept ++ rest, dropped := [x], exit := .panic true, rest := o }
      else
        let r := retainTail bombs kept rest o
        { r with dropped := x :: r.dropped }
    else retainTail bombs (kept ++ [x]) rest o

/-- `retain` on the id sequence (both phases of the Rust function act alike on the sequence: an
    element is kept, or dropped, or the callback panics and everything not yet dropped stays) -/
def retainSpec (bombs : List Id) (xs : List Id) (o : List Outcome) : SpecOut Unit :=
  retainTail bombs [] xs o

end Coll
