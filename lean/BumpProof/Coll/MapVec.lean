/-
  Coll/MapVec.lean — `BumpVec::map` (`generic_map`, `src/bump_vec.rs` l.2360-2441): a `BumpVec<T>` becomes a
  `BumpVec<U>`, reusing the buffer when the layouts allow it.

  The buffer is a list of `T`-sized slots; the `U`s that were written live in the SAME bytes, at
  `[j * U::SIZE, (j + 1) * U::SIZE)` — the model keeps them in a list of their own and checks, at every
  write, that no live `T` slot overlaps the bytes written (`uClobbers`).
-/
import BumpProof.Coll.Iter
import BumpProof.Coll.Spec

namespace Coll

/-- what `generic_map` asks about the two element types -/
structure MapLay where
  st : Nat                -- `T::SIZE`
  su : Nat                -- `U::SIZE`
  alignOk : Bool := true  -- `T::ALIGN >= U::ALIGN`
  deriving DecidableEq, Repr, Inhabited

/-- `!T::IS_ZST && !U::IS_ZST && T::ALIGN >= U::ALIGN && T::SIZE >= U::SIZE` (l.2364) -/
def MapLay.inPlace (l : MapLay) : Bool := l.st != 0 && l.su != 0 && l.alignOk && decide (l.su ≤ l.st)

/-- a live `T` slot whose bytes `[i*st, (i+1)*st)` meet the bytes `[dst*su, (dst+1)*su)` of the `U` being written -/
def uClobbers (slots : List Slot) (lay : MapLay) (dst : Nat) : Option Nat :=
  (List.range slots.length).find? fun i =>
    (match slots[i]? with | some (.init _) => true | _ => false) &&
      decide (i * lay.st < (dst + 1) * lay.su) && decide (dst * lay.su < (i + 1) * lay.st)

/-- `DropGuard::drop` (l.2381-2401), running during an unwind: the unread `T`s `[src+1, end)`, then the
    written `U`s `[ptr, dst)`, then the buffer is deallocated -/
def vecMapGuard (bombs : List Id) (v : Vec) (src end_ : Nat) (us : List Id) : M Vec :=
  match dropRange bombs true v (src + 1) (end_ - (src + 1)) with
  | .error e => .error e
  | .ok (v, _) => .ok { slots := [], len := 0, dropLog := v.dropLog ++ us, escaped := v.escaped }

/-- the `while guard.src < guard.end` loop (l.2420-2426), `fuel = end - src`; `us` = the `U`s written so far
    (`dst - ptr` of them); at the end `BumpVec::from_raw_parts(ptr, len, (cap * T::SIZE) / U::SIZE)` -/
def vecMapLoop (bombs : List Id) (lay : MapLay) (cap end_ : Nat) :
    (fuel : Nat) → Vec → (src : Nat) → (us : List Id) → List Outcome → M (Out Unit)
  | 0, v, _, us, o =>
    let newCap := cap * lay.st / lay.su
    .ok ⟨{ slots := I us ++ H (newCap - us.length), len := end_, dropLog := v.dropLog, escaped := v.escaped }, .ret (), o⟩
  | fuel + 1, v, src, us, o =>
    match readOut v src with                              -- `let src_value = guard.src.read()` moved into `f`
    | .error e => .error e
    | .ok (_, v) =>
      match o with
      | [] => (vecMapGuard bombs v src end_ us).map (⟨·, .panic false, []⟩)
      | .panic :: o => (vecMapGuard bombs v src end_ us).map (⟨·, .panic false, o⟩)
      | .ret id :: o =>
        match uClobbers v.slots lay us.length with        -- `guard.dst.write(dst_value)`
        | some i => .error (.overwrite i)
        | none => vecMapLoop bombs lay cap end_ fuel v (src + 1) (us ++ [id]) o

/-- the fallback (l.2438-2439): `BumpVec::generic_from_iter_exact_in(self.into_iter().map(f), allocator)`
    (l.688-707): a new vector of capacity `len`, one `IntoIter::next` + `f` + `push_unchecked` per element.
    When `f` panics the unwind drops the new vector (its `U`s) and then the iterator (the unread `T`s,
    and the old buffer). -/
def vecMapFallbackLoop (bombs : List Id) (end_ : Nat) :
    (fuel : Nat) → Vec → (i : Nat) → (us : List Id) → List Outcome → M (Out Unit)
  | 0, v, _, us, o =>
    .ok ⟨{ slots := I us ++ H (end_ - us.length), len := us.length, dropLog := v.dropLog, escaped := v.escaped }, .ret (), o⟩
  | fuel + 1, v, i, us, o =>
    match readOut v i with                                -- `iter.next()`: `ptr.read()`, moved into `f`
    | .error e => .error e
    | .ok (_, v) =>
      let unwind (o : List Outcome) : M (Out Unit) :=
        match dropRange bombs true { v with dropLog := v.dropLog ++ us } (i + 1) (end_ - (i + 1)) with
        | .error e => .error e
        | .ok (v, _) => .ok ⟨{ slots := [], len := 0, dropLog := v.dropLog, escaped := v.escaped }, .panic false, o⟩
      match o with
      | [] => unwind []
      | .panic :: o => unwind o
      | .ret id :: o => vecMapFallbackLoop bombs end_ fuel v (i + 1) (us ++ [id]) o

/-- `BumpVec<T>::map(f)`; `self` is consumed (`destructure!`, `into_boxed_slice().into_raw()`) -/
def vecMap (bombs : List Id) (lay : MapLay) (v : Vec) (o : List Outcome) : M (Out Unit) :=
  if lay.inPlace then vecMapLoop bombs lay v.cap v.len v.len (setLen v 0) 0 [] o
  else vecMapFallbackLoop bombs v.len v.len (setLen v 0) 0 [] o

/-- `map` on lists: every element is moved into `f`; if `f` panics everything that is left (the unread
    elements, the results so far — in the order the code path drops them) is dropped and the owner is gone -/
def vecMapSpec (usFirst : Bool) (done : List Id) : List Id → List Outcome → SpecOut Unit
  | [], o => { final := done, exit := .ret (), rest := o }
  | x :: rest, [] =>
    { final := [], dropped := if usFirst then done ++ rest else rest ++ done, escaped := [x], exit := .panic false, rest := [] }
  | x :: rest, .panic :: o =>
    { final := [], dropped := if usFirst then done ++ rest else rest ++ done, escaped := [x], exit := .panic false, rest := o }
  | x :: rest, .ret id :: o =>
    let r := vecMapSpec usFirst (done ++ [id]) rest o
    { r with escaped := x :: r.escaped }

end Coll
