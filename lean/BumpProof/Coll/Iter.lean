/-
  Coll/Iter.lean — the draining / consuming iterators and in-place mapping:
  `owned_slice::Drain` (`src/owned_slice/drain.rs`), `owned_slice::ExtractIf`
  (`src/owned_slice/extract_if.rs`), `owned_slice::IntoIter` (`src/owned_slice/into_iter.rs`),
  `BumpBox<[T]>::map_in_place` (`src/bump_box.rs` l.2711-2765).

  An iterator lives across several calls of the caller; the caller's behaviour is a SCRIPT
  (`Pull.front` = `next()`, `Pull.back` = `next_back()`) followed by how it lets go of the iterator
  (`Fin.drop`: normal drop, `Fin.keepRest`: `Drain::keep_rest`).
-/
import BumpProof.Coll.Vecs

namespace Coll

inductive Pull where
  | front | back
  deriving DecidableEq, Repr, Inhabited

inductive Fin where
  | drop | keepRest
  deriving DecidableEq, Repr, Inhabited

/-! ## `Drain` -/

/-- `Drain { tail_start, tail_len, iter: IntoIter { ptr, end } }`; the vector's `len` is `range.start` -/
structure DrainSt where
  tailStart : Nat
  tailLen : Nat
  ptr : Nat
  end_ : Nat
  deriving DecidableEq, Repr, Inhabited

/-- `Drain::next` / `next_back` → `IntoIter::next` (l.141-160) / `next_back` (l.176-195) -/
def drainPull (v : Vec) (d : DrainSt) (p : Pull) : M (Vec × DrainSt × Option Id) :=
  if d.ptr = d.end_ then .ok (v, d, none)
  else
    match p with
    | .front =>
      match readOut v d.ptr with                    -- `old = self.ptr; self.ptr = self.ptr.add(1); old.read()`
      | .error e => .error e
      | .ok (id, v) => .ok (v, { d with ptr := d.ptr + 1 }, some id)
    | .back =>
      match readOut v (d.end_ - 1) with             -- `self.end = self.end.sub(1); self.end.read()`
      | .error e => .error e
      | .ok (id, v) => .ok (v, { d with end_ := d.end_ - 1 }, some id)

def drainPulls : Vec → DrainSt → List Pull → List (Option Id) → M (Vec × DrainSt × List (Option Id))
  | v, d, [], acc => .ok (v, d, acc)
  | v, d, p :: ps, acc =>
    match drainPull v d p with
    | .error e => .error e
    | .ok (v, d, r) => drainPulls v d ps (acc ++ [r])

/-- `DropGuard::drop` inside `Drain::drop` (l.205-226): move the tail back, restore the length -/
def drainGuard (v : Vec) (d : DrainSt) : M Vec :=
  if d.tailLen > 0 then
    let start := v.len
    match (if d.tailStart ≠ start then copy v d.tailStart start d.tailLen else .ok v) with
    | .error e => .error e
    | .ok v => .ok (setLen v (start + d.tailLen))
  else .ok v

/-- `impl Drop for Drain` (l.201-247), sized `T`: `drop(iter)` = `drop_in_place` of what was not
    yielded, then the guard (also when a `Drop` panicked) -/
def drainDrop (bombs : List Id) (v : Vec) (d : DrainSt) : M (Vec × Bool) :=
  match dropRange bombs false v d.ptr (d.end_ - d.ptr) with
  | .error e => .error e
  | .ok (v, panicked) =>
    match drainGuard v d with
    | .error e => .error e
    | .ok v => .ok (v, panicked)

/-- `Drain::keep_rest` (l.73-121) -/
def drainKeepRest (v : Vec) (d : DrainSt) : M Vec :=
  let start := v.len
  let unyieldedLen := d.end_ - d.ptr
  match (if d.ptr ≠ start then copy v d.ptr start unyieldedLen else .ok v) with
  | .error e => .error e
  | .ok v =>
    match (if d.tailStart ≠ start + unyieldedLen then copy v d.tailStart (start + unyieldedLen) d.tailLen else .ok v) with
    | .error e => .error e
    | .ok v => .ok (setLen v (start + unyieldedLen + d.tailLen))

/-- `v.drain(start..end)`, the caller pulls according to `script`, then lets go; the result lists
    what each pull returned.  `slice::range` panics for `start > end` or `end > len` (nothing happens). -/
def drain (bombs : List Id) (v : Vec) (start end_ : Nat) (script : List Pull) (fin : Fin) : M (Out (List (Option Id))) :=
  if start > end_ ∨ end_ > v.len then .ok ⟨v, .panic false, []⟩
  else
    -- `Drain::new` (l.39-64): `boxed.set_len(range.start)`
    let d : DrainSt := { tailStart := end_, tailLen := v.len - end_, ptr := start, end_ := end_ }
    let v := setLen v start
    match drainPulls v d script [] with
    | .error e => .error e
    | .ok (v, d, rs) =>
      match fin with
      | .drop =>
        match drainDrop bombs v d with
        | .error e => .error e
        | .ok (v, panicked) => .ok ⟨v, if panicked then .panic true else .ret rs, []⟩
      | .keepRest =>
        match drainKeepRest v d with
        | .error e => .error e
        | .ok v => .ok ⟨v, .ret rs, []⟩

/-- `v.drain(start..end)`, pulls, then the `Drain` is LEAKED (`mem::forget`): no `Drop` runs; the vector keeps the
    length `Drain::new` gave it (`range.start`).  What was yielded belongs to the caller, what is still in the
    range and the tail are leaked (never dropped — allowed), nothing can be dropped twice. -/
def drainForget (v : Vec) (start end_ : Nat) (script : List Pull) : M (Out (List (Option Id))) :=
  if start > end_ ∨ end_ > v.len then .ok ⟨v, .panic false, []⟩
  else
    let d : DrainSt := { tailStart := end_, tailLen := v.len - end_, ptr := start, end_ := end_ }
    match drainPulls (setLen v start) d script [] with
    | .error e => .error e
    | .ok (v, _, rs) => .ok ⟨v, .ret rs, []⟩

/-! ## `ExtractIf` -/

/-- `ExtractIf { index, drained_count, original_len }`; the vector's `len` is 0 while it exists -/
structure ExtractSt where
  index : Nat
  drained : Nat
  origLen : Nat
  deriving DecidableEq, Repr, Inhabited

/-- one `ExtractIf::next` (l.53-79); `fuel = original_len - index`.  Result: `some (some id)` yielded,
    `some none` exhausted, `none` the filter panicked (the panic leaves `next`) -/
def extractNext : (fuel : Nat) → Vec → ExtractSt → List Outcome → M (Vec × ExtractSt × Option (Option Id) × List Outcome)
  | 0, v, s, o => .ok (v, s, some none, o)
  | fuel + 1, v, s, o =>
    match peek v s.index with                        -- `(self.filter)(value_ptr.as_mut())`
    | .error e => .error e
    | .ok _ =>
      match o with
      | [] => .ok (v, s, none, [])
      | .panic :: o => .ok (v, s, none, o)
      | .ret b :: o =>
        let s1 := { s with index := s.index + 1 }      -- `self.index += 1` (after the predicate)
        if b ≠ 0 then
          match readOut v s.index with                 -- `self.drained_count += 1; return Some(value_ptr.read())`
          | .error e => .error e
          | .ok (id, v) => .ok (v, { s1 with drained := s.drained + 1 }, some (some id), o)
        else if s.drained > 0 then
          match copyNonoverlapping v s.index (s.index - s.drained) 1 with
          | .error e => .error e
          | .ok v => extractNext fuel v s1 o
        else extractNext fuel v s1 o

/-- `impl Drop for ExtractIf` (l.90-110) -/
def extractDrop (v : Vec) (s : ExtractSt) : M Vec :=
  match (if s.index < s.origLen ∧ s.drained > 0 then copy v s.index (s.index - s.drained) (s.origLen - s.index) else .ok v) with
  | .error e => .error e
  | .ok v => .ok (setLen v (s.origLen - s.drained))

/-- `calls` times `next()` (stopping early when exhausted or on a panic), then the iterator is dropped -/
def extractPulls : (calls : Nat) → Vec → ExtractSt → List Outcome → List Id → M (Vec × ExtractSt × Bool × List Id × List Outcome)
  | 0, v, s, o, acc => .ok (v, s, false, acc, o)
  | calls + 1, v, s, o, acc =>
    match extractNext (s.origLen - s.index) v s o with
    | .error e => .error e
    | .ok (v, s, none, o) => .ok (v, s, true, acc, o)
    | .ok (v, s, some none, o) => .ok (v, s, false, acc, o)
    | .ok (v, s, some (some id), o) => extractPulls calls v s o (acc ++ [id])

/-- `v.extract_if(filter)`, `calls` × `next()`, drop — `ExtractIf::new` (l.22-44) sets the length to 0 -/
def extractIf (v : Vec) (calls : Nat) (o : List Outcome) : M (Out (List Id)) :=
  let s : ExtractSt := { index := 0, drained := 0, origLen := v.len }
  match extractPulls calls (setLen v 0) s o [] with
  | .error e => .error e
  | .ok (v, s, panicked, ids, o) =>
    match extractDrop v s with
    | .error e => .error e
    | .ok v => .ok ⟨v, if panicked then .panic false else .ret ids, o⟩

/-! ## `IntoIter` of an owned slice (consumes the box / vector) -/

/-- `into_iter()`, pulls, drop (`impl Drop for IntoIter` l.209-216: `drop_in_place` of the rest).
    The owner is consumed: afterwards the vector is empty (`len = 0`). -/
def intoIter (bombs : List Id) (v : Vec) (script : List Pull) : M (Out (List (Option Id))) :=
  let d : DrainSt := { tailStart := v.len, tailLen := 0, ptr := 0, end_ := v.len }
  match drainPulls (setLen v 0) d script [] with
  | .error e => .error e
  | .ok (v, d, rs) =>
    match dropRange bombs false v d.ptr (d.end_ - d.ptr) with
    | .error e => .error e
    | .ok (v, panicked) => .ok ⟨v, if panicked then .panic true else .ret rs, []⟩

/-! ## `map_in_place` (same size and alignment of `T` and `U`: the slot is reused) -/

/-- `DropGuard::drop` (l.2725-2739), running during an unwind: the unread `T`s, then the written `U`s -/
def mapGuard (bombs : List Id) (v : Vec) (src end_ : Nat) : M Vec :=
  match dropRange bombs true v (src + 1) (end_ - (src + 1)) with
  | .error e => .error e
  | .ok (v, _) =>
    match dropRange bombs true v 0 src with          -- `dst - ptr = src - ptr` elements of type `U`
    | .error e => .error e
    | .ok (v, _) => .ok v

/-- the `while guard.src < guard.end` loop (l.2753-2759), `fuel = end - src` -/
def mapLoop (bombs : List Id) (end_ : Nat) : (fuel : Nat) → Vec → (src : Nat) → List Outcome → M (Out Unit)
  | 0, v, _, o => .ok ⟨setLen v end_, .ret (), o⟩       -- `mem::forget(guard); from_raw(ptr, len)`
  | fuel + 1, v, src, o =>
    match readOut v src with                              -- `let src_value = guard.src.read()` moved into `f`
    | .error e => .error e
    | .ok (_, v) =>
      match o with
      | [] => (mapGuard bombs v src end_).map (⟨·, .panic false, []⟩)
      | .panic :: o => (mapGuard bombs v src end_).map (⟨·, .panic false, o⟩)
      | .ret id :: o =>
        match write v src id with                         -- `guard.dst.write(dst_value)`
        | .error e => .error e
        | .ok v => mapLoop bombs end_ fuel v (src + 1) o

/-- `BumpBox<[T]>::map_in_place(f)`: `self` is consumed (`into_raw`), so while it runs the length is 0 -/
def mapInPlace (bombs : List Id) (v : Vec) (o : List Outcome) : M (Out Unit) :=
  mapLoop bombs v.len v.len (setLen v 0) 0 o

end Coll
