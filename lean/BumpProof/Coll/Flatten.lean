/-
  Coll/Flatten.lean — `into_flattened` of a vector of arrays `[T; N]`:
  `BumpBox<[[T; N]]>::into_flattened` (`src/bump_box.rs` l.2792-2808), `FixedBumpVec` (`src/fixed_bump_vec.rs`
  l.2408-2432; `BumpVec` l.3312 and `MutBumpVec` l.2665 go through it), `MutBumpVecRev` (`src/mut_bump_vec_rev.rs`
  l.2650-2665).

  A vector of arrays is its buffer seen as `T`-sized slots (`flat`, `arrCap * n` of them; array number `i`
  is the slots `[i*n, (i+1)*n)`) together with the number of ARRAYS that are initialised and allocated.
-/
import BumpProof.Coll.Prim

namespace Coll

structure ArrVec where
  n : Nat                -- `N`
  arrLen : Nat           -- `len` (arrays)
  arrCap : Nat           -- `cap` (arrays)
  flat : List Slot       -- the buffer, one entry per `T`
  dropLog : List Id := []
  deriving Repr, Inhabited

/-- sized `T`: `(new_len, new_cap) = (len.unchecked_mul(N), cap.unchecked_mul(N))`, same pointer
    (`from_raw_parts(slice_from_raw_parts(ptr.cast(), new_len), new_cap)`); no destructor runs.
    The resulting vector claims `arrCap * n` slots: `claimed` (the model's `Vec.cap` is the real buffer). -/
def intoFlattened (a : ArrVec) : Vec × Nat :=
  ({ slots := a.flat, len := a.arrLen * a.n, dropLog := a.dropLog }, a.arrCap * a.n)

/-- zero-sized `T` (`usizeMax` = `usize::MAX`): `len.checked_mul(N).expect(..)`, capacity `usize::MAX`;
    `none` = the `expect` panics (after `into_raw`: nothing is dropped) -/
def intoFlattenedZst (usizeMax n arrLen : Nat) : Option (Nat × Nat) :=
  if arrLen * n > usizeMax then none else some (arrLen * n, usizeMax)

/-- the invariant of a vector of arrays: the buffer has `arrCap * n` slots, the first `arrLen` arrays
    (`arrLen * n` slots) are initialised, the others are not; `rev` = `MutBumpVecRev` (arrays at the end) -/
def ArrVec.Holds (a : ArrVec) (rev : Bool) (xs : List Id) : Prop :=
  xs.length = a.arrLen * a.n ∧ a.arrLen ≤ a.arrCap ∧
    a.flat = (if rev then H ((a.arrCap - a.arrLen) * a.n) ++ I xs else I xs ++ H ((a.arrCap - a.arrLen) * a.n))

end Coll
