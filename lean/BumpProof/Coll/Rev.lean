/-
  Coll/Rev.lean — `MutBumpVecRev` (`src/mut_bump_vec_rev.rs`): the elements occupy the LAST `len`
  slots of the buffer (`end` pointer at slot `cap`, `as_ptr() = end - len`), pushes go to the front.
  Mirrors of `push`, `pop`, `insert`, `remove`, `swap_remove`, `truncate`, `clear`,
  `extend_from_slice_clone`, `extend_with` / `resize`, `append`, drop.
-/
import BumpProof.Coll.Vecs
import BumpProof.Coll.Iter

namespace Coll

/-- `as_ptr()`: slot index of the first element -/
def Vec.rstart (v : Vec) : Nat := v.cap - v.len

/-- what `Deref<Target = [T]>` shows for a `MutBumpVecRev` -/
def Vec.rabs (v : Vec) : List Id := idsOf (v.slots.drop v.rstart)

/-- `generic_grow_to` (l.2312-2326): a NEW block is prepared, the elements are copied to its end -/
def rgrowTo (v : Vec) (newCap : Nat) : Vec :=
  { v with slots := H (max newCap v.cap - v.len) ++ v.slots.drop v.rstart }

/-- `generic_grow_amortized` (l.2275-2292); the new capacity is whatever the rest of the chunk holds (observed) -/
def rgrowAmortized (env : Env) (v : Vec) (additional : Nat) : Option Vec :=
  if env.fits (max (max (v.cap * 2) (v.len + additional)) env.minCap) ∧ v.len + additional ≤ env.capIn then
    some (rgrowTo v env.capIn)
  else none

/-- `generic_reserve` (l.1869) / `generic_reserve_one` (l.2265) -/
def rreserve (env : Env) (v : Vec) (additional : Nat) : Option Vec :=
  if additional > v.cap - v.len then rgrowAmortized env v additional else some v

/-- `generic_push_mut_with` → `push_mut_unchecked` (l.293-305): `len += 1; end.sub(len).write(value)` -/
def rpush (env : Env) (v : Vec) (id : Id) : M (Out Unit) :=
  match rreserve env v 1 with
  | none => .ok ⟨dropArg v id, .panic false, []⟩
  | some v =>
    let v := setLen v (v.len + 1)
    match write v v.rstart id with
    | .error e => .error e
    | .ok v => .ok ⟨v, .ret (), []⟩

/-- `pop` (l.354-366): `ptr = as_ptr(); len -= 1; ptr.read()` -/
def rpop (v : Vec) : M (Out (Option Id)) :=
  if v.len = 0 then .ok ⟨v, .ret none, []⟩
  else
    match readOut v v.rstart with
    | .error e => .error e
    | .ok (id, v) => .ok ⟨setLen v (v.len - 1), .ret (some id), []⟩

/-- `clear` (l.404-417): `len = 0; drop_in_place(elems)` -/
def rclear (bombs : List Id) (v : Vec) : M (Out Unit) :=
  match dropRange bombs false (setLen v 0) v.rstart v.len with
  | .error e => .error e
  | .ok (v, panicked) => .ok ⟨v, if panicked then .panic true else .ret (), []⟩

/-- `truncate(len)` (l.619-640): the FIRST `self.len - len` elements are dropped, the last `len` stay -/
def rtruncate (bombs : List Id) (v : Vec) (len : Nat) : M (Out Unit) :=
  if len ≥ v.len then .ok ⟨v, .ret (), []⟩
  else
    let remainingLen := v.len - len
    match dropRange bombs false (setLen v len) v.rstart remainingLen with
    | .error e => .error e
    | .ok (v, panicked) => .ok ⟨v, if panicked then .panic true else .ret (), []⟩

/-- `generic_insert_mut` (l.1433-1461) -/
def rinsert (env : Env) (v : Vec) (index : Nat) (id : Id) : M (Out Unit) :=
  if index > v.len then .ok ⟨dropArg v id, .panic false, []⟩
  else
    match rreserve env v 1 with
    | none => .ok ⟨dropArg v id, .panic false, []⟩
    | some v =>
      if index = 0 then
        -- `self.len += 1; self.as_mut_ptr().write(element)`
        let v := setLen v (v.len + 1)
        match write v v.rstart id with
        | .error e => .error e
        | .ok v => .ok ⟨v, .ret (), []⟩
      else
        -- `ptr::copy(start, start.sub(1), index); self.len += 1; start_sub.add(index).write(element)`
        let start := v.rstart
        match copy v start (start - 1) index with
        | .error e => .error e
        | .ok v =>
          match write v (start - 1 + index) id with
          | .error e => .error e
          | .ok v => .ok ⟨setLen v (v.len + 1), .ret (), []⟩

/-- `remove(index)` (l.2349-2378): the elements BEFORE `index` move one slot towards the end -/
def rremove (v : Vec) (index : Nat) : M (Out Id) :=
  if index ≥ v.len then .ok ⟨v, .panic false, []⟩
  else
    let start := v.rstart
    match readOut v (start + index) with
    | .error e => .error e
    | .ok (id, v) =>
      match (if index ≠ 0 then copy v start (start + 1) index else .ok v) with
      | .error e => .error e
      | .ok v => .ok ⟨setLen v (v.len - 1), .ret id, []⟩

/-- `swap_remove(index)` (l.2405-2431): the FIRST element takes the place of the removed one -/
def rswapRemove (v : Vec) (index : Nat) : M (Out Id) :=
  if index ≥ v.len then .ok ⟨v, .panic false, []⟩
  else
    let start := v.rstart
    match readOut v (start + index) with
    | .error e => .error e
    | .ok (id, v) =>
      match copy v start (start + index) 1 with          -- `self.len -= 1; start.copy_to(value_ptr, 1)`
      | .error e => .error e
      | .ok v => .ok ⟨setLen v (v.len - 1), .ret id, []⟩

/-- the loop of `generic_extend_from_slice_clone` (l.1595-1613): the source is walked from its end,
    every clone is pushed to the front -/
def rextendCloneLoop : (fuel : Nat) → Vec → List Outcome → M (Out Unit)
  | 0, v, o => .ok ⟨v, .ret (), o⟩
  | _ + 1, v, [] => .ok ⟨v, .panic false, []⟩
  | _ + 1, v, .panic :: o => .ok ⟨v, .panic false, o⟩
  | fuel + 1, v, .ret id :: o =>
    let v := setLen v (v.len + 1)
    match write v v.rstart id with
    | .error e => .error e
    | .ok v => rextendCloneLoop fuel v o

def rextendFromSliceClone (env : Env) (v : Vec) (n : Nat) (o : List Outcome) : M (Out Unit) :=
  match rreserve env v n with
  | none => .ok ⟨v, .panic false, o⟩
  | some v => rextendCloneLoop n v o

/-- the `for _ in 1..n` loop of `extend_with` (l.2214-2246) under `SetLenOnDrop`: `ptr` walks towards the front -/
def rextendWithLoop : (fuel : Nat) → Vec → (ptr localLen : Nat) → List Outcome → M (Vec × Nat × Nat × Bool × List Outcome)
  | 0, v, ptr, localLen, o => .ok (v, ptr, localLen, false, o)
  | _ + 1, v, ptr, localLen, [] => .ok (v, ptr, localLen, true, [])
  | _ + 1, v, ptr, localLen, .panic :: o => .ok (v, ptr, localLen, true, o)
  | fuel + 1, v, ptr, localLen, .ret id :: o =>
    match write v ptr id with
    | .error e => .error e
    | .ok v => rextendWithLoop fuel v (ptr - 1) (localLen + 1) o

def rextendWith (env : Env) (v : Vec) (n : Nat) (value : Id) (o : List Outcome) : M (Out Unit) :=
  match rreserve env v n with
  | none => .ok ⟨dropArg v value, .panic false, o⟩
  | some v =>
    -- `let mut ptr = self.as_mut_ptr().sub(1)`
    match rextendWithLoop (n - 1) v (v.rstart - 1) v.len o with
    | .error e => .error e
    | .ok (v, _, localLen, true, o) => .ok ⟨dropArg (setLen v localLen) value, .panic false, o⟩
    | .ok (v, ptr, localLen, false, o) =>
      if n > 0 then
        match write v ptr value with
        | .error e => .error e
        | .ok v => .ok ⟨setLen v (localLen + 1), .ret (), o⟩
      else
        .ok ⟨dropArg (setLen v localLen) value, if env.bombs.contains value then .panic true else .ret (), o⟩

/-- `generic_resize` (l.2027-2040) -/
def rresize (env : Env) (v : Vec) (newLen : Nat) (value : Id) (o : List Outcome) : M (Out Unit) :=
  if newLen > v.len then rextendWith env v (newLen - v.len) value o
  else
    match rtruncate env.bombs v newLen with
    | .error e => .error e
    | .ok r =>
      match r.exit with
      | .ret _ => .ok ⟨dropArg r.vec value, if env.bombs.contains value then .panic true else .ret (), o⟩
      | .panic d => .ok ⟨dropArg r.vec value, .panic d, o⟩

/-- `generic_resize_with` (l.2122-2135) → `extend_trusted` (l.2458-2494): under `SetLenOnDrop`,
    `end.sub(local_len + 1).write(f()); local_len += 1` -/
def rresizeWith (env : Env) (v : Vec) (newLen : Nat) (o : List Outcome) : M (Out Unit) :=
  if newLen > v.len then
    let n := newLen - v.len
    match rreserve env v n with
    | none => .ok ⟨v, .panic false, o⟩
    | some v =>
      match rextendWithLoop n v (v.rstart - 1) v.len o with
      | .error e => .error e
      | .ok (v, _, localLen, panicked, o) => .ok ⟨setLen v localLen, if panicked then .panic false else .ret (), o⟩
  else
    match rtruncate env.bombs v newLen with
    | .error e => .error e
    | .ok r => .ok ⟨r.vec, r.exit, o⟩

/-- `pop_if` (l.382-385): `let first = self.first_mut()?; if predicate(first) { self.pop() } else { None }` -/
def rpopIf (v : Vec) (o : List Outcome) : M (Out (Option Id)) :=
  if v.len = 0 then .ok ⟨v, .ret none, o⟩
  else
    match peek v v.rstart with
    | .error e => .error e
    | .ok _ =>
      match o with
      | [] => .ok ⟨v, .panic false, []⟩
      | .panic :: o => .ok ⟨v, .panic false, o⟩
      | .ret b :: o =>
        if b ≠ 0 then
          match rpop v with
          | .error e => .error e
          | .ok r => .ok ⟨r.vec, r.exit, o⟩
        else .ok ⟨v, .ret none, o⟩

/-- `generic_append(other)` (l.2196-2211): `other` is copied IN FRONT of the elements -/
def rappend (env : Env) (v other : Vec) : M (Out Unit × Vec) :=
  let n := other.len
  match rreserve env v n with
  | none =>
    match dropRange env.bombs true (setLen other 0) 0 n with
    | .error e => .error e
    | .ok (other, _) => .ok (⟨v, .panic false, []⟩, other)
  | some v =>
    match (other.slots.take n).mapM Slot.id? with
    | none => .error (.readHole 0)
    | some ids =>
      let start := v.rstart
      if n > start then .error (.outOfBounds 0)
      else if ((v.slots.take start).drop (start - n)) ≠ H n then .error (.overwrite (start - n))
      else
        let v := { v with slots := v.slots.take (start - n) ++ I ids ++ v.slots.drop start }
        let other := setLen { other with slots := H n ++ other.slots.drop n } 0
        .ok (⟨setLen v (v.len + n), .ret (), []⟩, other)

/-- `Drop for MutBumpVecRev` (l.2732-2746): `drop_in_place` of the elements -/
def rdropVec (bombs : List Id) (unwinding : Bool) (v : Vec) : M (Out Unit) :=
  match dropRange bombs unwinding (setLen v 0) v.rstart v.len with
  | .error e => .error e
  | .ok (v, panicked) => .ok ⟨v, if panicked then .panic true else .ret (), []⟩

/-- `into_iter()` (l.2787-2793: `mut_bump_vec::IntoIter` over `[end - len, end)`), pulls, drop of the iterator -/
def rintoIter (bombs : List Id) (v : Vec) (script : List Pull) : M (Out (List (Option Id))) :=
  let d : DrainSt := { tailStart := v.cap, tailLen := 0, ptr := v.rstart, end_ := v.cap }
  match drainPulls (setLen v 0) d script [] with
  | .error e => .error e
  | .ok (v, d, rs) =>
    match dropRange bombs false v d.ptr (d.end_ - d.ptr) with
    | .error e => .error e
    | .ok (v, panicked) => .ok ⟨v, if panicked then .panic true else .ret rs, []⟩

end Coll
