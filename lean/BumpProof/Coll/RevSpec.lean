/-
  Coll/RevSpec.lean — list-level descriptions of the `MutBumpVecRev` operations, on the sequence that
  `as_slice()` shows (index 0 = front = the most recently pushed element).  Compared with `Vec` the two
  ends are mirrored: `push` / `pop` / `extend*` / `resize` / `append` / `truncate` work at the FRONT,
  `swap_remove` fills the gap with the FIRST element; `insert` / `remove` take ordinary indices.
-/
import BumpProof.Coll.Spec
import BumpProof.Coll.Rev

namespace Coll

/-- the vector `v` (a `MutBumpVecRev`: elements at the end of the buffer) after an operation described by `r` -/
def Vec.rafter {α} (v : Vec) (r : SpecOut α) : Vec :=
  { slots := H (v.cap - r.final.length) ++ I r.final, len := r.final.length,
    dropLog := v.dropLog ++ r.dropped, escaped := v.escaped ++ r.escaped }

def rpushSpec (room : Bool) (xs : List Id) (id : Id) : SpecOut Unit :=
  if room then { final := id :: xs, exit := .ret (), rest := [] }
  else { final := xs, dropped := [id], exit := .panic false, rest := [] }

def rpopSpec (xs : List Id) : SpecOut (Option Id) :=
  match xs with
  | [] => { final := [], exit := .ret none, rest := [] }
  | x :: rest => { final := rest, escaped := [x], exit := .ret (some x), rest := [] }

/-- `truncate(n)` keeps the LAST `n` elements -/
def rtruncateSpec (bombs : List Id) (xs : List Id) (n : Nat) : SpecOut Unit :=
  if n ≥ xs.length then { final := xs, exit := .ret (), rest := [] }
  else { final := xs.drop (xs.length - n), dropped := xs.take (xs.length - n),
         exit := dropExit bombs (xs.take (xs.length - n)), rest := [] }

/-- `swap_remove(i)`: the FIRST element takes the place of the removed one -/
def rswapRemoveSpec (xs : List Id) (i : Nat) : SpecOut Id :=
  match xs[i]?, xs.head? with
  | some x, some f => { final := (xs.set i f).tail, escaped := [x], exit := .ret x, rest := [] }
  | _, _ => { final := xs, exit := .panic false, rest := [] }

/-- clones are pushed to the front one by one -/
def rextendCloneSpec (xs : List Id) : Nat → List Outcome → SpecOut Unit
  | 0, o => { final := xs, exit := .ret (), rest := o }
  | _ + 1, [] => { final := xs, exit := .panic false, rest := [] }
  | _ + 1, .panic :: o => { final := xs, exit := .panic false, rest := o }
  | n + 1, .ret id :: o => rextendCloneSpec (id :: xs) n o

def rextendCloneSpecR (room : Bool) (xs : List Id) (n : Nat) (o : List Outcome) : SpecOut Unit :=
  if room then rextendCloneSpec xs n o else { final := xs, exit := .panic false, rest := o }

def rextendWithSpec (bombs : List Id) (xs : List Id) (n : Nat) (value : Id) (o : List Outcome) : SpecOut Unit :=
  match n with
  | 0 => { final := xs, dropped := [value], exit := if bombs.contains value then .panic true else .ret (), rest := o }
  | m + 1 =>
    let r := rextendCloneSpec xs m o
    match r.exit with
    | .ret _ => { r with final := value :: r.final }
    | .panic _ => { r with dropped := [value], exit := .panic false }

def rextendWithSpecR (room : Bool) (bombs : List Id) (xs : List Id) (n : Nat) (value : Id) (o : List Outcome) : SpecOut Unit :=
  if room then rextendWithSpec bombs xs n value o
  else { final := xs, dropped := [value], exit := .panic false, rest := o }

def rresizeSpec (room : Bool) (bombs : List Id) (xs : List Id) (newLen : Nat) (value : Id) (o : List Outcome) : SpecOut Unit :=
  if newLen > xs.length then rextendWithSpecR room bombs xs (newLen - xs.length) value o
  else
    let t := rtruncateSpec bombs xs newLen
    { final := t.final, dropped := t.dropped ++ [value],
      exit := match t.exit with
        | .ret _ => if bombs.contains value then .panic true else .ret ()
        | .panic d => .panic d,
      rest := o }

def rresizeWithSpec (room : Bool) (bombs : List Id) (xs : List Id) (newLen : Nat) (o : List Outcome) : SpecOut Unit :=
  if newLen > xs.length then rextendCloneSpecR room xs (newLen - xs.length) o
  else { rtruncateSpec bombs xs newLen with rest := o }

/-- `pop_if(pred)` looks at the FIRST element -/
def rpopIfSpec (xs : List Id) (o : List Outcome) : SpecOut (Option Id) :=
  match xs, o with
  | [], o => { final := [], exit := .ret none, rest := o }
  | x :: rest, [] => { final := x :: rest, exit := .panic false, rest := [] }
  | x :: rest, .panic :: o => { final := x :: rest, exit := .panic false, rest := o }
  | x :: rest, .ret b :: o =>
    if b ≠ 0 then { final := rest, escaped := [x], exit := .ret (some x), rest := o }
    else { final := x :: rest, exit := .ret none, rest := o }

/-- `append(other)`: `other` ends up IN FRONT -/
def rappendSpec (room : Bool) (xs ys : List Id) : SpecOut Unit :=
  if room then { final := ys ++ xs, exit := .ret (), rest := [] }
  else { final := xs, exit := .panic false, rest := [] }

end Coll
