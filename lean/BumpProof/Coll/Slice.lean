/-
  Coll/Slice.lean — the in-place algorithms of `BumpBox<[T]>` (`src/bump_box.rs`, slice part) which
  `FixedBumpVec`, `BumpVec` and `MutBumpVec` forward to (`src/fixed_bump_vec.rs`, `src/bump_vec.rs`,
  `src/mut_bump_vec.rs`: `self.initialized.<op>` / `self.fixed.cook_mut().<op>`).

  Every function keeps the cursors of the Rust function it mirrors and runs the model of the drop
  guard that is armed at that point when a callback (oracle) or a `Drop` (bombs) panics.
  Loops `while read < len` are recursions on `fuel = len - read` (computed where the loop is entered).
-/
import BumpProof.Coll.Prim

namespace Coll

/-- result of an operation: the vector afterwards, how it ended, the unconsumed oracle -/
structure Out (α : Type) where
  vec : Vec
  exit : Exit α
  rest : List Outcome
  deriving Repr, DecidableEq

/-! ## `retain` — `src/bump_box.rs` `BumpBox<[T]>::retain` (l.2273-2378) -/

/-- `PanicGuard::drop` (l.2306-2318): shift the unchecked tail over the holes, fix the length -/
def retainGuard (v : Vec) (read write origLen : Nat) : M Vec :=
  let remaining := origLen - read
  match copy v read write remaining with
  | .error e => .error e
  | .ok v => .ok (setLen v (write + remaining))

inductive RetainScan where
  | allKept (o : List Outcome)                  -- `return` at l.2330
  | firstRemoved (read : Nat) (o : List Outcome) -- `break` at l.2325
  | panicked (o : List Outcome)                 -- `f` panicked; no guard exists yet
  deriving Repr, DecidableEq

/-- first loop (l.2320-2333), `fuel = original_len - read` -/
def retainScan (v : Vec) : (fuel : Nat) → (read : Nat) → List Outcome → M RetainScan
  | 0, _, _ => .error (.assertion "retain: read < original_len")
  | fuel + 1, read, o =>
    match peek v read with                      -- `self.get_unchecked_mut(read)`
    | .error e => .error e
    | .ok _ =>
      match o with
      | [] => .ok (.panicked [])
      | .panic :: o => .ok (.panicked o)
      | .ret b :: o =>
        if b = 0 then .ok (.firstRemoved read o)
        else if fuel = 0 then .ok (.allKept o)   -- `read += 1; if read == original_len { return }`
        else retainScan v fuel (read + 1) o

/-- second loop (l.2349-2368) under `PanicGuard { read, write, original_len }`, `fuel = original_len - read` -/
def retainLoop (bombs : List Id) (origLen : Nat) : (fuel : Nat) → Vec → (read write : Nat) → List Outcome → M (Out Unit)
  | 0, v, _, write, o => .ok ⟨setLen v write, .ret (), o⟩          -- `g.v.set_len(g.write); mem::forget(g)`
  | fuel + 1, v, read, write, o =>
    match peek v read with                                          -- `&mut *g.v.as_mut_ptr().add(g.read)`
    | .error e => .error e
    | .ok _ =>
      match o with
      | [] => (retainGuard v read write origLen).map (⟨·, .panic false, []⟩)
      | .panic :: o => (retainGuard v read write origLen).map (⟨·, .panic false, o⟩)
      | .ret b :: o =>
        if b = 0 then
          -- `g.read += 1; ptr::drop_in_place(cur)`
          match dropAt bombs false v read with
          | .error e => .error e
          | .ok (v, panicked) =>
            if panicked then (retainGuard v (read + 1) write origLen).map (⟨·, .panic true, o⟩)
            else retainLoop bombs origLen fuel v (read + 1) write o
        else
          -- `ptr::copy_nonoverlapping(cur, hole, 1); g.write += 1; g.read += 1`
          match copyNonoverlapping v read write 1 with
          | .error e => .error e
          | .ok v => retainLoop bombs origLen fuel v (read + 1) (write + 1) o

/-- what follows the first loop (l.2335-2378) -/
def retainAfterScan (bombs : List Id) (v : Vec) (origLen : Nat) : RetainScan → M (Out Unit)
  | .allKept o => .ok ⟨v, .ret (), o⟩
  | .panicked o => .ok ⟨v, .panic false, o⟩
  | .firstRemoved read o =>
    -- `PanicGuard { read: read + 1, write: read }`, then `drop_in_place(add(read))`
    match dropAt bombs false v read with
    | .error e => .error e
    | .ok (v, panicked) =>
      if panicked then (retainGuard v (read + 1) read origLen).map (⟨·, .panic true, o⟩)
      else retainLoop bombs origLen (origLen - (read + 1)) v (read + 1) read o

def retain (bombs : List Id) (v : Vec) (o : List Outcome) : M (Out Unit) :=
  let origLen := v.len
  if origLen = 0 then .ok ⟨v, .ret (), o⟩
  else
    (retainScan v origLen 0 o).bind (retainAfterScan bombs v origLen)

/-! ## `dedup_by` — `BumpBox<[T]>::dedup_by` (l.2538-2640) -/

/-- `FillGapOnDrop::drop` (l.2562-2592) -/
def dedupGuard (v : Vec) (read write : Nat) : M Vec :=
  let len := v.len
  let itemsLeft := len - read
  match copy v read write itemsLeft with
  | .error e => .error e
  | .ok v => .ok (setLen v (len - (read - write)))

/-- the `while gap.read < len` loop (l.2608-2631), `fuel = len - read` -/
def dedupLoop (bombs : List Id) : (fuel : Nat) → Vec → (read write : Nat) → List Outcome → M (Out Unit)
  | 0, v, _, write, o => .ok ⟨setLen v write, .ret (), o⟩          -- `gap.boxed.set_len(gap.write); mem::forget(gap)`
  | fuel + 1, v, read, write, o =>
    -- `same_bucket(&mut *read_ptr, &mut *prev_ptr)` with `prev_ptr = ptr.add(write - 1)`
    match peek v read with
    | .error e => .error e
    | .ok _ =>
      match peek v (write - 1) with
      | .error e => .error e
      | .ok _ =>
        match o with
        | [] => (dedupGuard v read write).map (⟨·, .panic false, []⟩)
        | .panic :: o => (dedupGuard v read write).map (⟨·, .panic false, o⟩)
        | .ret b :: o =>
          if b ≠ 0 then
            -- `gap.read += 1; ptr::drop_in_place(read_ptr)`
            match dropAt bombs false v read with
            | .error e => .error e
            | .ok (v, panicked) =>
              if panicked then (dedupGuard v (read + 1) write).map (⟨·, .panic true, o⟩)
              else dedupLoop bombs fuel v (read + 1) write o
          else
            -- `ptr::copy(read_ptr, write_ptr, 1); gap.write += 1; gap.read += 1`
            match copy v read write 1 with
            | .error e => .error e
            | .ok v => dedupLoop bombs fuel v (read + 1) (write + 1) o

def dedupBy (bombs : List Id) (v : Vec) (o : List Outcome) : M (Out Unit) :=
  let len := v.len
  if len ≤ 1 then .ok ⟨v, .ret (), o⟩
  else dedupLoop bombs (len - 1) v 1 1 o

/-- GHOST: the pairs `same_bucket` is handed, in call order — `(slot[read], slot[write - 1])`, i.e. the element
    under inspection and the LAST RETAINED one (not its predecessor in the original sequence); same control
    flow as `dedupLoop` -/
def dedupCallsLoop (bombs : List Id) : (fuel : Nat) → Vec → (read write : Nat) → List Outcome → List (Id × Id)
  | 0, _, _, _, _ => []
  | fuel + 1, v, read, write, o =>
    match peek v read, peek v (write - 1) with
    | .ok a, .ok b =>
      (a, b) ::
        (match o with
         | [] => []
         | .panic :: _ => []
         | .ret c :: o =>
           if c ≠ 0 then
             match dropAt bombs false v read with
             | .ok (v, false) => dedupCallsLoop bombs fuel v (read + 1) write o
             | _ => []
           else
             match copy v read write 1 with
             | .ok v => dedupCallsLoop bombs fuel v (read + 1) (write + 1) o
             | .error _ => [])
    | _, _ => []

/-- the arguments of the calls `dedup_by(same_bucket)` makes -/
def dedupCalls (bombs : List Id) (v : Vec) (o : List Outcome) : List (Id × Id) :=
  if v.len ≤ 1 then [] else dedupCallsLoop bombs (v.len - 1) v 1 1 o

/-! ## `dedup_by_key` — `BumpBox<[T]>::dedup_by_key` (l.2510-2516): `self.dedup_by(|a, b| key(a) == key(b))`,
    i.e. the loop of `dedup_by` with TWO callback invocations per comparison (`key(read)`, then `key(prev)`) -/

def dedupKeyLoop (bombs : List Id) : (fuel : Nat) → Vec → (read write : Nat) → List Outcome → M (Out Unit)
  | 0, v, _, write, o => .ok ⟨setLen v write, .ret (), o⟩
  | fuel + 1, v, read, write, o =>
    match peek v read with
    | .error e => .error e
    | .ok _ =>
      match peek v (write - 1) with
      | .error e => .error e
      | .ok _ =>
        match o with
        | [] => (dedupGuard v read write).map (⟨·, .panic false, []⟩)                     -- `key(a)` panicked
        | .panic :: o => (dedupGuard v read write).map (⟨·, .panic false, o⟩)
        | [.ret _] => (dedupGuard v read write).map (⟨·, .panic false, []⟩)              -- `key(b)` panicked
        | .ret _ :: .panic :: o => (dedupGuard v read write).map (⟨·, .panic false, o⟩)
        | .ret ka :: .ret kb :: o =>
          if ka = kb then
            match dropAt bombs false v read with
            | .error e => .error e
            | .ok (v, panicked) =>
              if panicked then (dedupGuard v (read + 1) write).map (⟨·, .panic true, o⟩)
              else dedupKeyLoop bombs fuel v (read + 1) write o
          else
            match copy v read write 1 with
            | .error e => .error e
            | .ok v => dedupKeyLoop bombs fuel v (read + 1) (write + 1) o

def dedupByKey (bombs : List Id) (v : Vec) (o : List Outcome) : M (Out Unit) :=
  let len := v.len
  if len ≤ 1 then .ok ⟨v, .ret (), o⟩
  else dedupKeyLoop bombs (len - 1) v 1 1 o

/-- the answers `same_bucket` gives when it is `|a, b| key(a) == key(b)` and the key calls follow `o` -/
def pairUp : List Outcome → List Outcome
  | [] => []
  | .panic :: _ => [.panic]
  | [.ret _] => [.panic]
  | .ret _ :: .panic :: _ => [.panic]
  | .ret ka :: .ret kb :: o => .ret (if ka = kb then 1 else 0) :: pairUp o

/-! ## `truncate`, `clear`, `pop`, `remove`, `swap_remove` -/

/-- `non_null::truncate` (`src/polyfill/non_null.rs` l.55-80) behind `BumpBox<[T]>::truncate` (l.1587) -/
def truncate (bombs : List Id) (v : Vec) (len : Nat) : M (Out Unit) :=
  if len ≥ v.len then .ok ⟨v, .ret (), []⟩
  else
    let remainingLen := v.len - len
    -- `set_len(slice, len); to_drop.drop_in_place()`
    match dropRange bombs false (setLen v len) len remainingLen with
    | .error e => .error e
    | .ok (v, panicked) => .ok ⟨v, if panicked then .panic true else .ret (), []⟩

/-- `BumpBox<[T]>::clear` (l.1525-1537): `set_len(0); elems.drop_in_place()` -/
def clear (bombs : List Id) (v : Vec) : M (Out Unit) :=
  match dropRange bombs false (setLen v 0) 0 v.len with
  | .error e => .error e
  | .ok (v, panicked) => .ok ⟨v, if panicked then .panic true else .ret (), []⟩

/-- `BumpBox<[T]>::pop` (l.1501-1511) -/
def pop (v : Vec) : M (Out (Option Id)) :=
  if v.len = 0 then .ok ⟨v, .ret none, []⟩
  else
    let v := setLen v (v.len - 1)
    match readOut v v.len with
    | .error e => .error e
    | .ok (id, v) => .ok ⟨v, .ret (some id), []⟩

/-- `BumpBox<[T]>::remove` (l.1733-1762) -/
def remove (v : Vec) (index : Nat) : M (Out Id) :=
  if index ≥ v.len then .ok ⟨v, .panic false, []⟩        -- `assert_failed`
  else
    match readOut v index with                              -- `value_ptr.read()`
    | .error e => .error e
    | .ok (id, v) =>
      -- `if index != self.len() { value_ptr.add(1).copy_to(value_ptr, len - index - 1) }`
      match copy v (index + 1) index (v.len - index - 1) with
      | .error e => .error e
      | .ok v => .ok ⟨setLen v (v.len - 1), .ret id, []⟩   -- `self.dec_len(1)`

/-- `BumpBox<[T]>::swap_remove` (l.1790-1815) -/
def swapRemove (v : Vec) (index : Nat) : M (Out Id) :=
  if index ≥ v.len then .ok ⟨v, .panic false, []⟩
  else
    match readOut v index with
    | .error e => .error e
    | .ok (id, v) =>
      let v := setLen v (v.len - 1)                         -- `self.dec_len(1)`
      match copy v v.len index 1 with                       -- `start.add(self.len()).copy_to(value_ptr, 1)`
      | .error e => .error e
      | .ok v => .ok ⟨v, .ret id, []⟩

/-- dropping the owner: `impl Drop for BumpBox<[T]>` (l.2923-2928) / `BumpVec::drop_inner` → `clear` -/
def dropVec (bombs : List Id) (unwinding : Bool) (v : Vec) : M (Out Unit) :=
  match dropRange bombs unwinding (setLen v 0) 0 v.len with
  | .error e => .error e
  | .ok (v, panicked) => .ok ⟨v, if panicked then .panic true else .ret (), []⟩

end Coll
