/-
  Coll/Splice.lean — `BumpVec::splice` (`src/bump_vec.rs` l.2569-2605), the iterator `Splice`
  (`src/bump_vec/splice.rs`) and the `Drain` it wraps (`src/bump_vec/drain.rs`; this is NOT
  `owned_slice::Drain`: it keeps `tail_start` / `tail_len` and a `slice::Iter` over the drained range).

  `replace_with` is an iterator that owns the ids `src` (it never panics; what it still owns when it is
  dropped is dropped), and whose `size_hint().0` is `min remaining hintCap` (`hintCap` large: exact hint,
  `hintCap = 0`: the iterator promises nothing, the `collected` fallback runs).
  The caller pulls according to a script and then drops the `Splice`.
-/
import BumpProof.Coll.Iter
import BumpProof.Coll.Spec

namespace Coll

/-- `self.drain.by_ref().for_each(drop)` (splice.rs l.58): every value not yet yielded is read out and
    dropped at once; a panicking `Drop` leaves the loop (that value is gone, the rest stays for `Drain::drop`) -/
def spliceDropRest (bombs : List Id) : (fuel : Nat) → Vec → DrainSt → M (Vec × DrainSt × Bool)
  | 0, v, d => .ok (v, d, false)
  | fuel + 1, v, d =>
    if d.ptr = d.end_ then .ok (v, d, false)
    else
      match dropAt bombs false v d.ptr with             -- `iter.next().map(ptr::read)`, then `drop(value)`
      | .error e => .error e
      | .ok (v, panicked) =>
        let d := { d with ptr := d.ptr + 1 }
        if panicked then .ok (v, d, true) else spliceDropRest bombs fuel v d

/-- `Drain::fill` (splice.rs l.112-133): `for place in [vec.len, tail_start) { match replace_with.next() {
    Some(x) => { ptr::write(place, x); vec.inc_len(1) } None => return false } } true`;
    `fuel = range_end - range_start`; gives back what the iterator still owns -/
def spliceFill : (fuel : Nat) → Vec → List Id → M (Vec × List Id × Bool)
  | 0, v, src => .ok (v, src, true)
  | _ + 1, v, [] => .ok (v, [], false)
  | fuel + 1, v, id :: src =>
    match write v v.len id with
    | .error e => .error e
    | .ok v => spliceFill fuel (setLen v (v.len + 1)) src

/-- `Drain::move_tail(additional)` (splice.rs l.136-152): `buf_reserve(tail_start + tail_len, additional)`
    (`bump_vec.rs` l.2619: `generic_grow_amortized_buf(len, additional)` l.2695 when it does not fit — the whole
    old buffer is carried over by `allocator.grow`), then `ptr::copy` of the tail -/
def spliceMoveTail (env : Env) (v : Vec) (d : DrainSt) (additional : Nat) : M (Vec × DrainSt) :=
  let len := d.tailStart + d.tailLen
  let v := if additional > v.cap - len then growTo v (max (max (v.cap * 2) (len + additional)) env.minCap) else v
  match copy v d.tailStart (d.tailStart + additional) d.tailLen with
  | .error e => .error e
  | .ok v => .ok (v, { d with tailStart := d.tailStart + additional })

/-- `impl Drop for Drain` (drain.rs l.67-136), sized `T`: `drop_in_place` of what the iterator still
    covers, the `DropGuard` moves the tail back and restores the length (the guard is `drainGuard`) -/
def spliceDrainDrop (bombs : List Id) (unwinding : Bool) (v : Vec) (d : DrainSt) : M (Vec × Bool) :=
  match dropRange bombs unwinding v d.ptr (d.end_ - d.ptr) with
  | .error e => .error e
  | .ok (v, panicked) =>
    match drainGuard v d with
    | .error e => .error e
    | .ok v => .ok (v, panicked)

/-- dropping an iterator that still owns `src` (a `vec::IntoIter`): its values are dropped -/
def dropArgs (v : Vec) (src : List Id) : Vec := { v with dropLog := v.dropLog ++ src }

/-- `vec.extend(replace_with.by_ref())` (`bump_vec.rs` l.3344-3352): `reserve(size_hint().0)`, then `push` each;
    gives back what was not consumed (only when a push is refused) -/
def spliceExtendLoop (env : Env) : Vec → List Id → M (Vec × List Id × Bool)
  | v, [] => .ok (v, [], false)
  | v, id :: src =>
    match push env v id with
    | .error e => .error e
    | .ok r =>
      match r.exit with
      | .ret _ => spliceExtendLoop env r.vec src
      | .panic _ => .ok (r.vec, src, true)

/-- `if lower_bound > 0 { self.drain.move_tail(lower_bound); if !self.drain.fill(&mut self.replace_with) { return } }`
    (splice.rs l.78-83); the flag: go on to the `collected` part -/
def spliceSecond (env : Env) (v : Vec) (d : DrainSt) (src : List Id) (lower : Nat) : M (Vec × DrainSt × List Id × Bool) :=
  if lower > 0 then
    match spliceMoveTail env v d lower with
    | .error e => .error e
    | .ok (v, d) =>
      match spliceFill (d.tailStart - v.len) v src with
      | .error e => .error e
      | .ok (v, src, filled) => .ok (v, d, src, filled)
  else .ok (v, d, src, true)

/-- the body of `impl Drop for Splice` after the `for_each(drop)` (splice.rs l.64-104); the flag says
    whether it unwound (a refused reservation); the list is what `replace_with` still owns -/
def spliceBody (env : Env) (v : Vec) (d : DrainSt) (src : List Id) (hintCap : Nat) : M (Vec × DrainSt × List Id × Bool) :=
  if d.tailLen = 0 then
    -- `self.drain.vec.as_mut().extend(self.replace_with.by_ref()); return`
    match reserve env v (min src.length hintCap) with
    | none => .ok (v, d, src, true)
    | some v =>
      match spliceExtendLoop env v src with
      | .error e => .error e
      | .ok (v, src, p) => .ok (v, d, src, p)
  else
    -- `if !self.drain.fill(&mut self.replace_with) { return }`
    match spliceFill (d.tailStart - v.len) v src with
    | .error e => .error e
    | .ok (v, src, false) => .ok (v, d, src, false)
    | .ok (v, src, true) =>
      -- `let (lower_bound, _) = self.replace_with.size_hint(); if lower_bound > 0 { move_tail; fill }`
      let lower := min src.length hintCap
      match spliceSecond env v d src lower with
      | .error e => .error e
      | .ok (v, d, src, false) => .ok (v, d, src, false)
      | .ok (v, d, src, true) =>
        -- `collected = BumpVec::from_iter_in(&mut self.replace_with, allocator)…into_iter()`: the rest, in a
        -- buffer of its own; `if collected.len() > 0 { move_tail(collected.len()); fill(&mut collected) }`
        if src.length > 0 then
          match spliceMoveTail env v d src.length with
          | .error e => .error e
          | .ok (v, d) =>
            match spliceFill (d.tailStart - v.len) v src with
            | .error e => .error e
            | .ok (v, src, _) => .ok (v, d, src, false)
        else .ok (v, d, src, false)

/-- the part of `Splice::drop` after the `for_each(drop)` (its iterator is empty now), then the fields of
    the `Splice` are dropped: `drain` (`Drain::drop`: the guard), `replace_with` -/
def spliceFinish (env : Env) (v : Vec) (d : DrainSt) (src : List Id) (hintCap : Nat) : M (Vec × Bool × Bool) :=
  match spliceBody env v d src hintCap with
  | .error e => .error e
  | .ok (v, d, src, unwound) =>
    match spliceDrainDrop env.bombs unwound v d with
    | .error e => .error e
    | .ok (v, p) => .ok (dropArgs v src, unwound || p, p)

/-- `impl Drop for Splice`, then the fields: `drain` (`Drain::drop`), `replace_with` -/
def spliceDrop (env : Env) (v : Vec) (d : DrainSt) (src : List Id) (hintCap : Nat) : M (Vec × Bool × Bool) :=
  match spliceDropRest env.bombs (d.end_ - d.ptr) v d with
  | .error e => .error e
  | .ok (v, d, true) =>
    -- a `Drop` panicked inside `for_each(drop)`: the unwind drops `drain`, then `replace_with`
    match spliceDrainDrop env.bombs true v d with
    | .error e => .error e
    | .ok (v, _) => .ok (dropArgs v src, true, true)
  | .ok (v, d, false) =>
    -- `self.drain.iter = [].iter()`
    spliceFinish env v { d with ptr := d.end_ } src hintCap

/-- `v.splice(start..end, replace_with)`, the caller pulls according to `script`, then drops the `Splice`.
    `slice::range` panics for `start > end` or `end > len`: the unwind drops `replace_with` -/
def splice (env : Env) (v : Vec) (start end_ : Nat) (src : List Id) (hintCap : Nat) (script : List Pull) :
    M (Out (List (Option Id))) :=
  if start > end_ ∨ end_ > v.len then .ok ⟨dropArgs v src, .panic false, []⟩
  else
    -- `self.set_len(start); Drain { tail_start: end, tail_len: len - end, iter: [start, end) }`
    let d : DrainSt := { tailStart := end_, tailLen := v.len - end_, ptr := start, end_ := end_ }
    let v := setLen v start
    match drainPulls v d script [] with
    | .error e => .error e
    | .ok (v, d, rs) =>
      match spliceDrop env v d src hintCap with
      | .error e => .error e
      | .ok (v, panicked, inDrop) => .ok ⟨v, if panicked then .panic inDrop else .ret rs, []⟩

/-- `splice` on lists (`BumpVec`: reservations are never refused): the range is replaced by `src`; what was
    pulled went to the caller, the rest of the range is dropped.  When one of those destructors panics,
    `replace_with` is dropped unused and the range is simply removed -/
def spliceSpec (bombs : List Id) (xs : List Id) (start end_ : Nat) (src : List Id) (script : List Pull) :
    SpecOut (List (Option Id)) :=
  if start > end_ ∨ end_ > xs.length then { final := xs, dropped := src, exit := .panic false, rest := [] }
  else
    let head := xs.take start
    let range := (xs.take end_).drop start
    let tail := xs.drop end_
    let r := pullsSpec range script
    if r.2.any bombs.contains then
      { final := head ++ tail, dropped := r.2 ++ src, escaped := yielded r.1, exit := .panic true, rest := [] }
    else
      { final := head ++ src ++ tail, dropped := r.2, escaped := yielded r.1, exit := .ret r.1, rest := [] }

end Coll
