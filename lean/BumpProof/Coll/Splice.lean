/-
  Coll/Splice.lean — `BumpVec::splice` (`src/bump_vec.rs` l.2569-2605), the iterator `Splice`
  (`src/bump_vec/splice.rs`) and the `Drain` it wraps (`src/bump_vec/drain.rs`; this is NOT
  `owned_slice::Drain`: it keeps `tail_start` / `tail_len` and a `slice::Iter` over the drained range).

  `replace_with` is an iterator that owns the ids `src` (it never panics; what it still owns when it is
  dropped is dropped).  Its `size_hint().0` is `spliceLower hintCap lie remaining`: an honest source reports
  `min remaining hintCap` (`hintCap` large: exact, `hintCap = 0`: promises nothing, the `collected` fallback runs);
  a LYING source (`lie = some l`) reports `l` whatever is left — over-reporting included, up to numbers for which
  the reservation ends in the "capacity overflow" panic (`capOverflow`, `maxCap = isize::MAX / T::SIZE`) in the
  middle of `Splice::drop`; the unwind then runs `Drain::drop` and drops `replace_with`.
  The caller pulls according to a script and then drops the `Splice`.
-/
import BumpProof.Coll.Iter
import BumpProof.Coll.Spec

namespace Coll

/-- `self.drain.by_ref().for_each(drop)` (splice.rs l.58): every value not yet yielded is read out and
    dropped at once; a panicking `Drop` leaves the loop (that value is gone, the rest stays for `Drain::drop`) -/
def spliceDropRest (bombs : List Id) : (fuel : Nat) → Vec → DrainSt → M (Vec × DrainSt × Bool)
  | 0, v, d => .ok (v, d, false)
  | fuel + 1, v, d =>
    if d.ptr = d.end_ then .ok (v, d, false)
    else
      match dropAt bombs false v d.ptr with             -- `iter.next().map(ptr::read)`, then `drop(value)`
      | .error e => .error e
      | .ok (v, panicked) =>
        let d := { d with ptr := d.ptr + 1 }
        if panicked then .ok (v, d, true) else spliceDropRest bombs fuel v d

/-- `Drain::fill` (splice.rs l.112-133): `for place in [vec.len, tail_start) { match replace_with.next() {
    Some(x) => { ptr::write(place, x); vec.inc_len(1) } None => return false } } true`;
    `fuel = range_end - range_start`; gives back what the iterator still owns -/
def spliceFill : (fuel : Nat) → Vec → List Id → M (Vec × List Id × Bool)
  | 0, v, src => .ok (v, src, true)
  | _ + 1, v, [] => .ok (v, [], false)
  | fuel + 1, v, id :: src =>
    match write v v.len id with
    | .error e => .error e
    | .ok v => spliceFill fuel (setLen v (v.len + 1)) src

/-- `Drain::move_tail(additional)` (splice.rs l.136-152): `buf_reserve(tail_start + tail_len, additional)`
    (`bump_vec.rs` l.2619: `generic_grow_amortized_buf(len, additional)` l.2695 when it does not fit — the whole
    old buffer is carried over by `allocator.grow`), then `ptr::copy` of the tail -/
def spliceMoveTail (env : Env) (v : Vec) (d : DrainSt) (additional : Nat) : M (Vec × DrainSt) :=
  let len := d.tailStart + d.tailLen
  let v := if additional > v.cap - len then growTo v (max (max (v.cap * 2) (len + additional)) env.minCap) else v
  match copy v d.tailStart (d.tailStart + additional) d.tailLen with
  | .error e => .error e
  | .ok v => .ok (v, { d with tailStart := d.tailStart + additional })

/-- `impl Drop for Drain` (drain.rs l.67-136), sized `T`: `drop_in_place` of what the iterator still
    covers, the `DropGuard` moves the tail back and restores the length (the guard is `drainGuard`) -/
def spliceDrainDrop (bombs : List Id) (unwinding : Bool) (v : Vec) (d : DrainSt) : M (Vec × Bool) :=
  match dropRange bombs unwinding v d.ptr (d.end_ - d.ptr) with
  | .error e => .error e
  | .ok (v, panicked) =>
    match drainGuard v d with
    | .error e => .error e
    | .ok v => .ok (v, panicked)

/-- dropping an iterator that still owns `src` (a `vec::IntoIter`): its values are dropped -/
def dropArgs (v : Vec) (src : List Id) : Vec := { v with dropLog := v.dropLog ++ src }

/-- `vec.extend(replace_with.by_ref())` (`bump_vec.rs` l.3344-3352): `reserve(size_hint().0)`, then `push` each;
    gives back what was not consumed (only when a push is refused) -/
def spliceExtendLoop (env : Env) : Vec → List Id → M (Vec × List Id × Bool)
  | v, [] => .ok (v, [], false)
  | v, id :: src =>
    match push env v id with
    | .error e => .error e
    | .ok r =>
      match r.exit with
      | .ret _ => spliceExtendLoop env r.vec src
      | .panic _ => .ok (r.vec, src, true)

/-- `replace_with.size_hint().0` with `remaining` items left: an honest iterator reports `min remaining hintCap`
    (it may under-report), a LYING one reports `l` whatever is left (over-reporting included) -/
def spliceLower (hintCap : Nat) (lie : Option Nat) (remaining : Nat) : Nat :=
  match lie with
  | some l => l
  | none => min remaining hintCap

/-- does a reservation of `additional` slots beyond `len` end in the "capacity overflow" panic?
    `generic_reserve` l.1909 / `buf_reserve` l.2619: only when it does not fit; then `generic_grow_amortized(_buf)`
    (l.2665 / l.2695) computes `max (max (cap*2) (len+additional)) min_non_zero_cap` and `generic_grow_to`
    (l.2732) finds no valid layout for it: more than `maxCap = isize::MAX / T::SIZE` elements.
    (`len.checked_add(additional)` overflowing `usize` is the same case: the sum exceeds `maxCap`.)
    An allocation FAILURE is not an outcome here: `panic-on-alloc` aborts the process. -/
def capOverflow (env : Env) (maxCap : Nat) (v : Vec) (len additional : Nat) : Bool :=
  decide (additional > v.cap - len) && decide (max (max (v.cap * 2) (len + additional)) env.minCap > maxCap)

/-- `impl Extend<T> for BumpVec` (`bump_vec.rs` l.3344-3352): `self.reserve(iter.size_hint().0); for value in iter
    { self.push(value) }`, the source owning `src` and reporting its length like the one of `splice`
    (honest / under-reporting / lying); a "capacity overflow" of the up-front reservation unwinds before
    anything is pushed, the source is dropped with everything it owns -/
def extendIter (env : Env) (v : Vec) (src : List Id) (hintCap : Nat) (lie : Option Nat) (maxCap : Nat) : M (Out Unit) :=
  let lower := spliceLower hintCap lie src.length
  if capOverflow env maxCap v v.len lower then .ok ⟨dropArgs v src, .panic false, []⟩
  else
    match reserve env v lower with
    | none => .ok ⟨dropArgs v src, .panic false, []⟩
    | some v =>
      match spliceExtendLoop env v src with
      | .error e => .error e
      | .ok (v, rest, p) => .ok ⟨dropArgs v rest, if p then .panic false else .ret (), []⟩

/-- how a step of `Splice::drop` ends: go on with the next one, `return`, or unwind ("capacity overflow") -/
inductive SpliceStep where
  | goOn | done | unwind
  deriving DecidableEq, Repr, Inhabited

/-- `if lower_bound > 0 { self.drain.move_tail(lower_bound); if !self.drain.fill(&mut self.replace_with) { return } }`
    (splice.rs l.78-83); `move_tail` reserves FIRST (`buf_reserve`, which may panic) and only then touches
    `tail_start` -/
def spliceSecond (env : Env) (maxCap : Nat) (v : Vec) (d : DrainSt) (src : List Id) (lower : Nat) :
    M (Vec × DrainSt × List Id × SpliceStep) :=
  if lower > 0 then
    if capOverflow env maxCap v (d.tailStart + d.tailLen) lower then .ok (v, d, src, .unwind)
    else
      match spliceMoveTail env v d lower with
      | .error e => .error e
      | .ok (v, d) =>
        match spliceFill (d.tailStart - v.len) v src with
        | .error e => .error e
        | .ok (v, src, filled) => .ok (v, d, src, if filled then .goOn else .done)
  else .ok (v, d, src, .goOn)

/-- the body of `impl Drop for Splice` after the `for_each(drop)` (splice.rs l.64-104); the flag says
    whether it unwound (a refused reservation / "capacity overflow"); the list is what `replace_with` still owns.
    The size hint is consulted in three places: `extend` → `reserve(hint)`, `move_tail(lower_bound)`, and
    `from_iter_in` → `with_capacity(hint)`; only these reservations are about a CLAIMED count (the others are
    about values that exist, which always fit the address space). -/
def spliceBody (env : Env) (v : Vec) (d : DrainSt) (src : List Id) (hintCap : Nat) (lie : Option Nat) (maxCap : Nat) :
    M (Vec × DrainSt × List Id × Bool) :=
  if d.tailLen = 0 then
    -- `self.drain.vec.as_mut().extend(self.replace_with.by_ref()); return`: `self.reserve(iter.size_hint().0)` …
    let lower := spliceLower hintCap lie src.length
    if capOverflow env maxCap v v.len lower then .ok (v, d, src, true)
    else
      match reserve env v lower with
      | none => .ok (v, d, src, true)
      | some v =>
        match spliceExtendLoop env v src with
        | .error e => .error e
        | .ok (v, src, p) => .ok (v, d, src, p)
  else
    -- `if !self.drain.fill(&mut self.replace_with) { return }`
    match spliceFill (d.tailStart - v.len) v src with
    | .error e => .error e
    | .ok (v, src, false) => .ok (v, d, src, false)
    | .ok (v, src, true) =>
      -- `let (lower_bound, _) = self.replace_with.size_hint(); if lower_bound > 0 { move_tail; fill }`
      match spliceSecond env maxCap v d src (spliceLower hintCap lie src.length) with
      | .error e => .error e
      | .ok (v, d, src, .unwind) => .ok (v, d, src, true)
      | .ok (v, d, src, .done) => .ok (v, d, src, false)
      | .ok (v, d, src, .goOn) =>
        -- `collected = BumpVec::from_iter_in(&mut self.replace_with, allocator)…into_iter()`: the rest, in a
        -- buffer of its own (`with_capacity(size_hint().0)`: a claimed count again);
        -- `if collected.len() > 0 { move_tail(collected.len()); fill(&mut collected) }`
        if spliceLower hintCap lie src.length > maxCap then .ok (v, d, src, true)
        else if src.length > 0 then
          match spliceMoveTail env v d src.length with
          | .error e => .error e
          | .ok (v, d) =>
            match spliceFill (d.tailStart - v.len) v src with
            | .error e => .error e
            | .ok (v, src, _) => .ok (v, d, src, false)
        else .ok (v, d, src, false)

/-- the part of `Splice::drop` after the `for_each(drop)` (its iterator is empty now), then the fields of
    the `Splice` are dropped — also by the unwind of a "capacity overflow": `drain` (`Drain::drop`: the guard
    puts the tail where `tail_start` says), `replace_with` -/
def spliceFinish (env : Env) (v : Vec) (d : DrainSt) (src : List Id) (hintCap : Nat) (lie : Option Nat) (maxCap : Nat) :
    M (Vec × Bool × Bool) :=
  match spliceBody env v d src hintCap lie maxCap with
  | .error e => .error e
  | .ok (v, d, src, unwound) =>
    match spliceDrainDrop env.bombs unwound v d with
    | .error e => .error e
    | .ok (v, p) => .ok (dropArgs v src, unwound || p, p)

/-- `impl Drop for Splice`, then the fields: `drain` (`Drain::drop`), `replace_with` -/
def spliceDrop (env : Env) (v : Vec) (d : DrainSt) (src : List Id) (hintCap : Nat) (lie : Option Nat) (maxCap : Nat) :
    M (Vec × Bool × Bool) :=
  match spliceDropRest env.bombs (d.end_ - d.ptr) v d with
  | .error e => .error e
  | .ok (v, d, true) =>
    -- a `Drop` panicked inside `for_each(drop)`: the unwind drops `drain`, then `replace_with`
    match spliceDrainDrop env.bombs true v d with
    | .error e => .error e
    | .ok (v, _) => .ok (dropArgs v src, true, true)
  | .ok (v, d, false) =>
    -- `self.drain.iter = [].iter()`
    spliceFinish env v { d with ptr := d.end_ } src hintCap lie maxCap

/-- `v.splice(start..end, replace_with)`, the caller pulls according to `script`, then drops the `Splice`.
    `slice::range` panics for `start > end` or `end > len`: the unwind drops `replace_with` -/
def splice (env : Env) (v : Vec) (start end_ : Nat) (src : List Id) (hintCap : Nat) (lie : Option Nat) (maxCap : Nat)
    (script : List Pull) : M (Out (List (Option Id))) :=
  if start > end_ ∨ end_ > v.len then .ok ⟨dropArgs v src, .panic false, []⟩
  else
    -- `self.set_len(start); Drain { tail_start: end, tail_len: len - end, iter: [start, end) }`
    let d : DrainSt := { tailStart := end_, tailLen := v.len - end_, ptr := start, end_ := end_ }
    let v := setLen v start
    match drainPulls v d script [] with
    | .error e => .error e
    | .ok (v, d, rs) =>
      match spliceDrop env v d src hintCap lie maxCap with
      | .error e => .error e
      | .ok (v, panicked, inDrop) => .ok ⟨v, if panicked then .panic inDrop else .ret rs, []⟩

/-- what the list level cannot know about a `BumpVec`: its capacity and the layout bounds, and how the source
    reports its length -/
structure SpliceCaps where
  cap : Nat
  minCap : Nat
  maxCap : Nat
  hintCap : Nat
  lie : Option Nat
  deriving Repr, Inhabited

def SpliceCaps.overflows (c : SpliceCaps) (len additional : Nat) : Bool :=
  decide (additional > c.cap - len) && decide (max (max (c.cap * 2) (len + additional)) c.minCap > c.maxCap)

/-- which prefix of `src` ends up in the vector, and whether `Splice::drop` unwound with "capacity overflow"
    (`start..end_` of a vector of `xsLen` elements, nothing of the range left to drop) -/
def spliceWritten (c : SpliceCaps) (start end_ xsLen : Nat) (src : List Id) : List Id × Bool :=
  if end_ = xsLen then
    -- no tail: `extend`
    if c.overflows start (spliceLower c.hintCap c.lie src.length) then ([], true) else (src, false)
  else
    let gap := end_ - start
    if src.length < gap then (src, false)
    else
      let rest := src.drop gap
      let lower := spliceLower c.hintCap c.lie rest.length
      if lower > 0 ∧ c.overflows xsLen lower then (src.take gap, true)
      else if lower > rest.length then (src, false)
      else if spliceLower c.hintCap c.lie (rest.drop lower).length > c.maxCap then (src.take (gap + lower), true)
      else (src, false)

/-- `splice` on lists: the range is replaced by `src`; what was pulled went to the caller, the rest of the
    range is dropped.  When one of those destructors panics, `replace_with` is dropped unused and the range
    is simply removed.  When a reservation for the CLAIMED number of further items overflows, the items
    written so far stay between head and tail, the others are dropped with `replace_with`. -/
def spliceSpec (bombs : List Id) (c : SpliceCaps) (xs : List Id) (start end_ : Nat) (src : List Id) (script : List Pull) :
    SpecOut (List (Option Id)) :=
  if start > end_ ∨ end_ > xs.length then { final := xs, dropped := src, exit := .panic false, rest := [] }
  else
    let head := xs.take start
    let range := (xs.take end_).drop start
    let tail := xs.drop end_
    let r := pullsSpec range script
    if r.2.any bombs.contains then
      { final := head ++ tail, dropped := r.2 ++ src, escaped := yielded r.1, exit := .panic true, rest := [] }
    else
      let w := spliceWritten c start end_ xs.length src
      { final := head ++ w.1 ++ tail, dropped := r.2 ++ src.drop w.1.length, escaped := yielded r.1,
        exit := if w.2 then .panic false else .ret r.1, rest := [] }

end Coll
