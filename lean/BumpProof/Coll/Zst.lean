/-
  Coll/Zst.lean — counting model of the ZERO-SIZED-element code paths.  Values of a zero-sized type have
  no identity (every slot is the same dangling address), so a vector is just its length and the
  ghost counters `drops` (destructor calls so far) and `escaped` (values handed to the caller).
  Modelled: the `T::IS_ZST` branches of `owned_slice::Drain` (`src/owned_slice/drain.rs`: `new`,
  `IntoIter::next/next_back` on a length-only iterator, `keep_rest`, `Drop` AS REPAIRED — the iterator is
  forgotten BEFORE `set_len` / `truncate`), `owned_slice::IntoIter` (`new_zst`, `Drop`), `split_off` /
  `merge` (`src/bump_box.rs` l.1859-1867, l.2219-2228), `truncate` / `clear`.

  `Drop` of the element type panics at the `bomb`-th destructor call from now on (`none`: never) — unless
  the thread is already unwinding; the drop glue of a slice keeps going after a panic.
-/

namespace Coll.Zst

structure ZVec where
  len : Nat
  drops : Nat := 0
  escaped : Nat := 0
  deriving DecidableEq, Repr, Inhabited

/-- `drop_in_place` of `n` zero-sized values: `n` destructor calls; reports whether one of them panicked -/
def dropN (v : ZVec) (n : Nat) (bomb : Option Nat) (unwinding : Bool) : ZVec × Bool :=
  ({ v with drops := v.drops + n }, !unwinding && (match bomb with | some k => decide (k < n) | none => false))

/-- `non_null::truncate(slice, len)` (`src/polyfill/non_null.rs` l.55-80) -/
def truncate (v : ZVec) (len : Nat) (bomb : Option Nat) : ZVec × Bool :=
  if len ≥ v.len then (v, false)
  else dropN { v with len := len } (v.len - len) bomb false     -- `set_len(len); to_drop.drop_in_place()`

/-- `Drain { tail_len, iter: IntoIter::new_zst(end - start) }`; the vector's length is `start` -/
structure ZDrain where
  tailLen : Nat
  iterLen : Nat          -- `iter.len()`: un-yielded values
  deriving DecidableEq, Repr, Inhabited

/-- `next()` / `next_back()` on the zero-sized iterator (`into_iter.rs` l.141-151): `end -= 1; Some(zeroed())` -/
def pull (v : ZVec) (d : ZDrain) : ZVec × ZDrain × Bool :=
  if d.iterLen = 0 then (v, d, false)
  else ({ v with escaped := v.escaped + 1 }, { d with iterLen := d.iterLen - 1 }, true)

def pulls : Nat → ZVec → ZDrain → ZVec × ZDrain
  | 0, v, d => (v, d)
  | k + 1, v, d => let (v, d, _) := pull v d; pulls k v d

/-- `impl Drop for Drain`, `T::IS_ZST` branch, as repaired (commit 0480075):
    `let remaining = iter.len(); mem::forget(iter); set_len(old_len + remaining + tail_len);
     truncate(old_len + tail_len)` -/
def drainDrop (v : ZVec) (d : ZDrain) (bomb : Option Nat) : ZVec × Bool :=
  let remaining := d.iterLen
  let oldLen := v.len
  truncate { v with len := oldLen + remaining + d.tailLen } (oldLen + d.tailLen) bomb

/-- the ORIGINAL code: the taken iterator is still alive when the function returns / unwinds and its own
    `Drop` runs the destructors of the un-yielded values a second time -/
def drainDropOriginal (v : ZVec) (d : ZDrain) (bomb : Option Nat) : ZVec × Bool :=
  let (v, panicked) := drainDrop v d bomb
  -- `drop(iter)` at the end of the scope (or by the unwind): `iter.len()` more destructor calls
  let (v, _) := dropN v d.iterLen none panicked
  (v, panicked)

/-- `Drain::keep_rest` (l.73-121): only the length is fixed up for zero-sized types -/
def drainKeepRest (v : ZVec) (d : ZDrain) : ZVec :=
  { v with len := v.len + d.iterLen + d.tailLen }

/-- `v.drain(start..end)`, `k` pulls, then drop (`keep = false`) or `keep_rest` (`keep = true`);
    `none` = the range check panicked (nothing happened) -/
def drain (v : ZVec) (start end_ k : Nat) (keep : Bool) (bomb : Option Nat) : Option (ZVec × Bool) :=
  if start > end_ ∨ end_ > v.len then none
  else
    let d : ZDrain := { tailLen := v.len - end_, iterLen := end_ - start }
    let (v, d) := pulls k { v with len := start } d
    if keep then some (drainKeepRest v d, false) else some (drainDrop v d bomb)

/-- the same with the original `Drop` -/
def drainOriginal (v : ZVec) (start end_ k : Nat) (bomb : Option Nat) : Option (ZVec × Bool) :=
  if start > end_ ∨ end_ > v.len then none
  else
    let d : ZDrain := { tailLen := v.len - end_, iterLen := end_ - start }
    let (v, d) := pulls k { v with len := start } d
    some (drainDropOriginal v d bomb)

/-- `into_iter()` (`IntoIter::new_zst(len)`), `k` pulls, drop of the iterator (`drop_in_place` of `iter.len()` values) -/
def intoIter (v : ZVec) (k : Nat) (bomb : Option Nat) : ZVec × Bool :=
  let (v, d) := pulls k { v with len := 0 } { tailLen := 0, iterLen := v.len }
  dropN v d.iterLen bomb false

/-- `split_off(start..end)`, `T::IS_ZST` branch (`bump_box.rs` l.1859-1867): `(self, returned)`; `none` = range check -/
def splitOff (v : ZVec) (start end_ : Nat) : Option (ZVec × ZVec) :=
  if start > end_ ∨ end_ > v.len then none
  else some ({ v with len := v.len - (end_ - start) }, { len := end_ - start })

/-- `merge(self, other)`, `T::IS_ZST` branch (l.2219-2228): `into_raw` both (no destructor runs), new length the sum -/
def merge (a b : ZVec) : ZVec :=
  { len := a.len + b.len, drops := a.drops + b.drops, escaped := a.escaped + b.escaped }

/-- dropping the owner -/
def dropVec (v : ZVec) (bomb : Option Nat) (unwinding : Bool) : ZVec × Bool :=
  dropN { v with len := 0 } v.len bomb unwinding

/-- `extend_from_within_clone(range)`, `T::IS_ZST` branch (`mut_bump_vec_rev.rs` l.1785-1797; the other vectors
    have the same text): a prototype value is materialised from nothing INSIDE `ManuallyDrop` — it is not a value
    of the vector and is never dropped —, then `count` clones of it are pushed one by one (`push_unchecked(
    (*fake).clone())`).  `panicAt = some k`: the `k`-th call of `Clone::clone` (0-based) panics.
    Result: the vector, the number of clones MADE, and whether it unwound. -/
def extendWithinClone (v : ZVec) (count : Nat) (panicAt : Option Nat) : ZVec × Nat × Bool :=
  match panicAt with
  | some k => if k < count then ({ v with len := v.len + k }, k, true) else ({ v with len := v.len + count }, count, false)
  | none => ({ v with len := v.len + count }, count, false)

/-- the same WITHOUT the `ManuallyDrop` (prototype as a plain local, `mem::forget` only on the success path): the
    unwind of a panicking `clone` drops the prototype — a destructor call for a value that was never made -/
def extendWithinCloneUnguarded (v : ZVec) (count : Nat) (panicAt : Option Nat) : ZVec × Nat × Bool :=
  let r := extendWithinClone v count panicAt
  if r.2.2 then ({ r.1 with drops := r.1.drops + 1 }, r.2.1, true) else r

/-- everything the state accounts for: still owned + destructor calls + handed out -/
def ZVec.total (v : ZVec) : Nat := v.len + v.drops + v.escaped

end Coll.Zst
