/-
  Props/C10.lean — property C10: arena bookkeeping and the reported statistics are always
  coherent.  This file holds the geometry / position part of the central arena invariant
  (`Arena.GeomInv`, defined in `Arena/Inv.lean`): the statistics identities that follow from it,
  the bridge to C11 (`bumpProps` is a valid input of the bump computations), and its preservation
  by the functions of the frozen model `Arena/Model.lean` — together with "no fault" companions,
  in particular: the slow path's `unreachable_unchecked` is unreachable (from C12).

  Helper lemmas: `Lemmas/Geom*.lean`.  All theorems are about the MODEL functions; `= .ok _`
  conclusions also say that no overflow / failed assertion / UB / contract fault happens.
-/
import BumpProof.Lemmas.GeomReserve
import BumpProof.Lemmas.GeomNoFault2
import BumpProof.Arena.Step

namespace C10
open Arena Rs

variable {cfg : Cfg} {s : State}

/-! ## Statistics (`Stats::{count, size, capacity, allocated, remaining}`) -/

/-- a claimed or unallocated arena reports all zeros -/
theorem stats_zero (hcur : s.cur = .claimed ∨ s.cur = .unallocated) : stats cfg s = ⟨0, 0, 0, 0, 0⟩ := by
  unfold stats
  rcases hcur with hcur | hcur <;> rw [hcur]

/-- `allocated() + remaining() = capacity()` -/
theorem stats_allocated_add_remaining (h : GeomInv cfg s) :
    (stats cfg s).allocated + (stats cfg s).remaining = (stats cfg s).capacity := by
  cases hcur : s.cur with
  | chunk i =>
    obtain ⟨c, hi, hw, _⟩ := h.curChunk hcur
    rw [stats_chunk hcur hi]
    simp only
    have hsplit := split_at s.chunks i c hi
    have : (s.chunks.map (Chunk.capacity cfg)).foldl (· + ·) 0 =
        ((s.chunks.take i).map (Chunk.capacity cfg)).foldl (· + ·) 0 +
        (c.capacity cfg + ((s.chunks.drop (i+1)).map (Chunk.capacity cfg)).foldl (· + ·) 0) := by
      conv => lhs; rw [hsplit]
      rw [List.map_append, foldl_add_append, List.map_cons, foldl_add_cons]
    rw [this]
    have := hw.alloc_add_rem
    omega
  | unallocated => rw [stats_zero (Or.inr hcur)]; simp
  | claimed => rw [stats_zero (Or.inl hcur)]; simp

/-- `capacity() ≤ size()` -/
theorem stats_capacity_le_size (h : GeomInv cfg s) : (stats cfg s).capacity ≤ (stats cfg s).size := by
  cases hcur : s.cur with
  | chunk i =>
    obtain ⟨c, hi, hw, _⟩ := h.curChunk hcur
    rw [stats_chunk hcur hi]
    simp only
    apply foldl_add_le
    intro x hx
    have hwx := h.mem hx
    have := hwx.cap_add
    omega
  | unallocated => rw [stats_zero (Or.inr hcur)]; exact Nat.le_refl _
  | claimed => rw [stats_zero (Or.inl hcur)]; exact Nat.le_refl _

/-- every chunk spends exactly one header: `size() = capacity() + count() * size_of::<ChunkHeader<A>>()` -/
theorem stats_size_eq (h : GeomInv cfg s) :
    (stats cfg s).size = (stats cfg s).capacity + (stats cfg s).count * cfg.hdr.size := by
  have key : ∀ l : List Chunk, (∀ x ∈ l, ChunkWF cfg x) →
      (l.map (·.size)).foldl (· + ·) 0 = (l.map (Chunk.capacity cfg)).foldl (· + ·) 0 + l.length * cfg.hdr.size := by
    intro l
    induction l with
    | nil => intro _; simp
    | cons x xs ih =>
      intro hl
      simp only [List.map_cons, List.length_cons]
      rw [foldl_add_cons, foldl_add_cons, ih (fun y hy => hl y (List.mem_cons_of_mem x hy))]
      have := (hl x List.mem_cons_self).cap_add
      rw [Nat.succ_mul]
      omega
  cases hcur : s.cur with
  | chunk i =>
    obtain ⟨c, hi, hw, _⟩ := h.curChunk hcur
    rw [stats_chunk hcur hi]
    exact key s.chunks (fun x hx => h.mem hx)
  | unallocated => rw [stats_zero (Or.inr hcur)]; simp
  | claimed => rw [stats_zero (Or.inl hcur)]; simp

/-- `count()` is the number of chunks -/
theorem stats_count (h : GeomInv cfg s) {i : Nat} (hcur : s.cur = .chunk i) :
    (stats cfg s).count = s.chunks.length := by
  obtain ⟨c, hi, _, _⟩ := h.curChunk hcur
  rw [stats_chunk hcur hi]

/-- the bump position of the current chunk lies in its content range and is a multiple of the
    minimum alignment in force -/
theorem curPos_in_range (h : GeomInv cfg s) {i : Nat} (hcur : s.cur = .chunk i) :
    ∃ c, s.chunks[i]? = some c ∧ c.contentStart cfg ≤ curPos cfg s ∧ curPos cfg s ≤ c.contentEnd cfg ∧
      s.minAlign ∣ curPos cfg s := by
  obtain ⟨c, hi, hw, hd⟩ := h.curChunk hcur
  rw [curPos_chunk hcur hi]
  exact ⟨c, hi, hw.pos_ge, hw.pos_le, hd⟩

/-- every chunk: size a multiple of 16, header inside the granted block -/
theorem chunk_header_in_block (hc : CfgOK cfg) (h : GeomInv cfg s) {i : Nat} {c : Chunk} (hi : s.chunks[i]? = some c) :
    16 ∣ c.size ∧ cfg.hdr.size ≤ c.size ∧ c.size ≤ c.granted ∧ cfg.hdr.align ∣ c.base ∧
      (cfg.up = false → cfg.hdr.align ∣ c.base + c.size - cfg.hdr.size) := by
  have hw := h.chunks i c hi
  refine ⟨hw.size16, hw.hdr_le, hw.le_granted, hw.base_al, ?_⟩
  intro hup
  rw [Nat.add_sub_assoc hw.hdr_le]
  exact (Nat.dvd_add_right hw.base_al).2 (Nat.dvd_sub (hw.size_al hup) hc.hdr.dvd)

/-! ## The bridge to C11: `bumpProps` of an invariant state is a valid input of the bump functions -/

/-- `RawChunk::bump_props` always passes `debug_assert_valid`; every `Gen.Bumping.*` call inside the
    model can therefore be rewritten with C11 -/
theorem bumpProps_valid (hc : CfgOK cfg) (h : GeomInv cfg s) {L : Layout} {hints : Hints} (hL : L.Valid)
    (hh : hints.sma = true → L.align ∣ L.size) : C11.Valid cfg.up (bumpProps cfg s L hints) :=
  Arena.bumpProps_valid hc h hL hh

/-- with a real current chunk the range is a regular one -/
theorem bumpProps_regular (hc : CfgOK cfg) (h : GeomInv cfg s) {i : Nat} (hcur : s.cur = .chunk i)
    (L : Layout) (hints : Hints) : C11.Regular cfg.up (bumpProps cfg s L hints) :=
  Arena.bumpProps_regular hc h hcur L hints

/-- a claimed / unallocated arena presents the negative-capacity dummy range -/
theorem bumpProps_dummy (hcur : s.cur = .claimed ∨ s.cur = .unallocated) (L : Layout) (hints : Hints) :
    C11.Dummy (bumpProps cfg s L hints) :=
  Arena.bumpProps_dummy (by rcases hcur with h | h <;> intro i hi <;> rw [h] at hi <;> cases hi) L hints

example : C11.Valid exCfg.up (bumpProps exCfg exState { size := 24, align := 32 } Hints.custom) :=
  bumpProps_valid exCfg_ok exState_inv ⟨⟨5, by decide, rfl⟩, by decide⟩ (fun h => by cases h)

/-! ## `tryCur` (`RawChunk::alloc / prepare_allocation / prepare_allocation_range`) -/

/-- `tryCur` never faults and computes the hint-free wide-integer specification `tryCurSpec` -/
theorem tryCur_eq_spec (hc : CfgOK cfg) (h : GeomInv cfg s) (k : Kind) {L : Layout} {hints : Hints} (hL : L.Valid)
    (hh : hints.sma = true → L.align ∣ L.size) : tryCur cfg k s L hints = .ok (tryCurSpec cfg k s L) :=
  Arena.tryCur_eq hc h k hL hh

theorem tryCur_noFault (hc : CfgOK cfg) (h : GeomInv cfg s) (k : Kind) {L : Layout} {hints : Hints} (hL : L.Valid)
    (hh : hints.sma = true → L.align ∣ L.size) : ∃ r, tryCur cfg k s L hints = .ok r :=
  ⟨_, Arena.tryCur_eq hc h k hL hh⟩

/-- hint independence at the level of the arena -/
theorem tryCur_hint_independent (hc : CfgOK cfg) (h : GeomInv cfg s) (k : Kind) {L : Layout} {h1 h2 : Hints} (hL : L.Valid)
    (hh1 : h1.sma = true → L.align ∣ L.size) (hh2 : h2.sma = true → L.align ∣ L.size) :
    tryCur cfg k s L h1 = tryCur cfg k s L h2 := by
  rw [Arena.tryCur_eq hc h k hL hh1, Arena.tryCur_eq hc h k hL hh2]

/-- all three kinds preserve the invariant; only positions change -/
theorem tryCur_inv (hc : CfgOK cfg) (h : GeomInv cfg s) {k : Kind} {L : Layout} {hints : Hints} (hL : L.Valid)
    (hh : hints.sma = true → L.align ∣ L.size) {v : Nat × Nat} {s' : State}
    (he : tryCur cfg k s L hints = .ok (some (v, s'))) :
    GeomInv cfg s' ∧ SameShape s s' ∧ s'.cur = s.cur ∧ s'.minAlign = s.minAlign ∧ s'.resps = s.resps := by
  rw [Arena.tryCur_eq hc h k hL hh] at he
  have he' : tryCurSpec cfg k s L = some (v, s') := by injection he
  obtain ⟨g1, g2, g3, g4, g5, _⟩ := tryCurSpec_inv hc h hL he'
  exact ⟨g1, g2, g3, g4, g5⟩

/-- a claimed / unallocated arena serves nothing from its current (dummy) chunk -/
theorem tryCur_dummy (hc : CfgOK cfg) (h : GeomInv cfg s) (hcur : s.cur = .claimed ∨ s.cur = .unallocated)
    (k : Kind) {L : Layout} {hints : Hints} (hL : L.Valid) (hh : hints.sma = true → L.align ∣ L.size) :
    tryCur cfg k s L hints = .ok none := by
  rw [Arena.tryCur_eq hc h k hL hh, tryCurSpec_dummy _ k hL]
  rcases hcur with h | h <;> intro i hi <;> rw [h] at hi <;> cases hi

/-- `alloc`: the block is aligned, lies on the free side of the old position inside the content range,
    and the new position is just past it -/
theorem tryCur_alloc_block (hc : CfgOK cfg) (h : GeomInv cfg s) {L : Layout} {hints : Hints} (hL : L.Valid)
    (hh : hints.sma = true → L.align ∣ L.size) {v : Nat × Nat} {s' : State}
    (he : tryCur cfg .alloc s L hints = .ok (some (v, s'))) :
    ∃ i c np, s.cur = .chunk i ∧ s.chunks[i]? = some c ∧ s' = setCurPos s np ∧
      c.contentStart cfg ≤ np ∧ np ≤ c.contentEnd cfg ∧ s.minAlign ∣ np ∧ L.align ∣ v.1 ∧ v.2 = 0 ∧
      (if cfg.up then c.pos ≤ v.1 ∧ v.1 + L.size ≤ np ∧ np < v.1 + L.size + s.minAlign ∧ c.pos ≤ np
       else np = v.1 ∧ v.1 + L.size ≤ c.pos ∧ np ≤ c.pos) := by
  rw [Arena.tryCur_eq hc h .alloc hL hh] at he
  have he' : tryCurSpec cfg .alloc s L = some (v, s') := by injection he
  exact tryCurSpec_alloc_some hc h hL he'

example : (tryCurSpec exCfg .alloc exState { size := 24, align := 32 }).isSome = true := by decide

/-! ## Position updates -/

/-- `set_pos`-style update of chunk `i`: inside the content range, aligned if the chunk is current -/
theorem setPos_inv (h : GeomInv cfg s) {i p : Nat} {c : Chunk} (hi : s.chunks[i]? = some c)
    (h1 : c.contentStart cfg ≤ p) (h2 : p ≤ c.contentEnd cfg) (h3 : s.cur = .chunk i → s.minAlign ∣ p) :
    GeomInv cfg (setPos s i p) :=
  h.setPos hi h1 h2 h3

theorem setCurPos_inv (h : GeomInv cfg s) {i p : Nat} {c : Chunk} (hcur : s.cur = .chunk i) (hi : s.chunks[i]? = some c)
    (h1 : c.contentStart cfg ≤ p) (h2 : p ≤ c.contentEnd cfg) (h3 : s.minAlign ∣ p) :
    GeomInv cfg (setCurPos s p) :=
  h.setCurPos hcur hi h1 h2 h3

example : GeomInv exCfg (setCurPos exState (0x10000 + 32 + 80)) :=
  setCurPos_inv exState_inv (i := 0) (c := exChunk) rfl rfl (by decide) (by decide) (by decide)

/-! ## Chunk creation -/

/-- `NonDummyChunk::new`: the new chunk is well formed whatever admissible block the base allocator
    hands out (a block smaller than requested is a fault, not a broken state) -/
theorem newChunk_inv (hc : CfgOK cfg) (h : GeomInv cfg s) (hr : RespsOK cfg s) {size : Nat}
    (hsz : cfg.hdr.size ≤ size) {s' : State} {r : Except AErr Nat} (he : newChunk cfg s size = .ok (s', r)) :
    GeomInv cfg s' ∧ RespsOK cfg s' ∧ s'.cur = s.cur ∧ s'.minAlign = s.minAlign :=
  have p := (newChunk_post hc h hr hsz he).1
  ⟨p.inv, p.resps, p.cur, p.minAlign⟩

/-- the new chunk is appended at the end, is at least as big as requested, and starts empty -/
theorem newChunk_appended (hc : CfgOK cfg) (h : GeomInv cfg s) (hr : RespsOK cfg s) {size : Nat}
    (hsz : cfg.hdr.size ≤ size) {s' : State} {i : Nat} (he : newChunk cfg s size = .ok (s', .ok i)) :
    i = s.chunks.length ∧ ∃ c, s'.chunks = s.chunks ++ [c] ∧ size ≤ c.size ∧ c.pos = (c.resetPos cfg).pos := by
  obtain ⟨p, q⟩ := newChunk_post hc h hr hsz he
  obtain ⟨e1, c, e2, _, e4⟩ := p.ok i rfl
  obtain ⟨c', e5, e6⟩ := q i rfl
  refine ⟨e1, c, e2, ?_, e4⟩
  rw [e2, e1, List.getElem?_append, if_neg (Nat.lt_irrefl _), Nat.sub_self] at e5
  simp only [List.getElem?_cons_zero, Option.some.injEq] at e5
  rw [e5]; exact e6

/-- `newChunk` does not fault when a correct response (`RespOK`) is pending -/
theorem newChunk_noFault (hc : CfgOK cfg) (hr : RespsOK cfg s) {size : Nat}
    (hd : Spec.sizeAlign cfg.up cfg.hdr ∣ size) (hh : HeadOK cfg s size) :
    ∃ s' r, newChunk cfg s size = .ok (s', r) :=
  Arena.newChunk_noFault hc hr hd hh

theorem exState_resps : RespsOK exCfg exState := by
  intro r hr
  simp [exState] at hr
  subst hr
  exact ⟨by decide, by decide, by decide⟩

example : HeadOK exCfg exState 2032 := ⟨_, _, rfl, by decide, by decide, by decide, by decide⟩

theorem newChunkForCapacity_inv (hc : CfgOK cfg) (h : GeomInv cfg s) (hr : RespsOK cfg s) {L : Layout} (hL : L.Valid)
    {s' : State} {r : Except AErr Nat} (he : newChunkForCapacity cfg s L = .ok (s', r)) :
    GeomInv cfg s' ∧ RespsOK cfg s' ∧ s'.cur = s.cur ∧ s'.minAlign = s.minAlign :=
  have p := (newChunkForCapacity_post hc h hr hL).1 s' r he
  ⟨p.inv, p.resps, p.cur, p.minAlign⟩

theorem newChunkForCapacity_noFault (hc : CfgOK cfg) (h : GeomInv cfg s) (hr : RespsOK cfg s) {L : Layout} (hL : L.Valid)
    (hb : ∀ size, Spec.calcSize cfg.up cfg.hdr (Nat.max (Spec.hintFromCapacity cfg.up cfg.hdr L) cfg.minChunk) = some size →
        HeadOK cfg s size) :
    ∃ s' r, newChunkForCapacity cfg s L = .ok (s', r) :=
  (newChunkForCapacity_post hc h hr hL).2 hb

theorem appendFor_inv (hc : CfgOK cfg) (h : GeomInv cfg s) (hr : RespsOK cfg s) {L : Layout} (hL : L.Valid)
    {last : Chunk} (hlast : s.chunks.getLast? = some last)
    {s' : State} {r : Except AErr Nat} (he : appendFor cfg s L = .ok (s', r)) :
    GeomInv cfg s' ∧ RespsOK cfg s' ∧ s'.cur = s.cur ∧ s'.minAlign = s.minAlign :=
  have p := (appendFor_post hc h hr hL hlast).1 s' r he
  ⟨p.inv, p.resps, p.cur, p.minAlign⟩

theorem appendFor_noFault (hc : CfgOK cfg) (h : GeomInv cfg s) (hr : RespsOK cfg s) {L : Layout} (hL : L.Valid)
    {last : Chunk} (hlast : s.chunks.getLast? = some last)
    (hb : ∀ size, Spec.calcSize cfg.up cfg.hdr
        (Nat.max (Nat.max (Spec.hintFromCapacity cfg.up cfg.hdr L) (2 * last.size)) cfg.minChunk) = some size →
        HeadOK cfg s size) :
    ∃ s' r, appendFor cfg s L = .ok (s', r) :=
  (appendFor_post hc h hr hL hlast).2 hb

/-! ## The allocation slow path -/

/-- walking the successors never faults and keeps the invariant -/
theorem walkNext_inv (hc : CfgOK cfg) (h : GeomInv cfg s) (k : Kind) {L : Layout} {hints : Hints} (hL : L.Valid)
    (hh : hints.sma = true → L.align ∣ L.size) {j : Nat} (hcur : s.cur = .chunk j) (fuel i : Nat) :
    ∃ o s', walkNext cfg k L hints fuel i s = .ok (o, s') ∧ GeomInv cfg s' ∧ SameShape s s' ∧
      s'.minAlign = s.minAlign ∧ (∃ j, s'.cur = .chunk j) := by
  obtain ⟨o, s', e1, e2, e3, e4, _, _, e7, _⟩ := walkNext_ok hc k hL hh fuel i s h ⟨j, hcur⟩
  exact ⟨o, s', e1, e2, e3, e4, e7⟩

/-- `in_another_chunk` preserves the invariant -/
theorem inAnotherChunk_inv (hc : CfgOK cfg) (h : GeomInv cfg s) (hr : RespsOK cfg s) (k : Kind)
    {L : Layout} {hints : Hints} (hL : L.Valid) (hh : hints.sma = true → L.align ∣ L.size)
    (hk : k = .range → L.align ∣ L.size) {s' : State} {r : Except AErr (Nat × Nat)}
    (he : inAnotherChunk cfg k s L hints = .ok (s', r)) : SlowPost cfg L s s' r :=
  (inAnotherChunk_ok hc h hr k hL hh hk).1 s' r he

/-- `in_another_chunk` does not fault when the base allocator answers its (at most one) request
    correctly; in particular the `unreachable_unchecked` after the creation of a chunk is unreachable:
    the layout always fits the chunk that was created for it (C12) -/
theorem inAnotherChunk_noFault (hc : CfgOK cfg) (h : GeomInv cfg s) (hr : RespsOK cfg s) (k : Kind)
    {L : Layout} {hints : Hints} (hL : L.Valid) (hh : hints.sma = true → L.align ∣ L.size)
    (hk : k = .range → L.align ∣ L.size) (hb : BaseOK cfg s L) :
    ∃ s' r, inAnotherChunk cfg k s L hints = .ok (s', r) :=
  (inAnotherChunk_ok hc h hr k hL hh hk).2 hb

theorem allocGeneric_inv (hc : CfgOK cfg) (h : GeomInv cfg s) (hr : RespsOK cfg s) (k : Kind)
    {L : Layout} {hints hSlow : Hints} (hL : L.Valid) (hh : hints.sma = true → L.align ∣ L.size)
    (hhs : hSlow.sma = true → L.align ∣ L.size) (hk : k = .range → L.align ∣ L.size)
    {s' : State} {r : Except AErr (Nat × Nat)} (he : allocGeneric cfg k s L hints hSlow = .ok (s', r)) :
    SlowPost cfg L s s' r :=
  (allocGeneric_ok hc h hr k hL hh hhs hk).1 s' r he

theorem allocGeneric_noFault (hc : CfgOK cfg) (h : GeomInv cfg s) (hr : RespsOK cfg s) (k : Kind)
    {L : Layout} {hints hSlow : Hints} (hL : L.Valid) (hh : hints.sma = true → L.align ∣ L.size)
    (hhs : hSlow.sma = true → L.align ∣ L.size) (hk : k = .range → L.align ∣ L.size) (hb : BaseOK cfg s L) :
    ∃ s' r, allocGeneric cfg k s L hints hSlow = .ok (s', r) :=
  (allocGeneric_ok hc h hr k hL hh hhs hk).2 hb

/-- `Allocator::allocate` -/
theorem alloc_inv (hc : CfgOK cfg) (h : GeomInv cfg s) (hr : RespsOK cfg s) {L : Layout} (hL : L.Valid)
    {s' : State} {r : Except AErr Nat} (he : alloc cfg s L = .ok (s', r)) : SlowPost cfg L s s' r :=
  (alloc_ok hc h hr hL).1 s' r he

theorem alloc_noFault (hc : CfgOK cfg) (h : GeomInv cfg s) (hr : RespsOK cfg s) {L : Layout} (hL : L.Valid)
    (hb : BaseOK cfg s L) : ∃ s' r, alloc cfg s L = .ok (s', r) :=
  (alloc_ok hc h hr hL).2 hb

/-- a failed allocation leaves the current chunk where it was (after the fix of the crate, c107ca6:
    `in_another_chunk` no longer stays in the last chunk it walked to when the base allocator refuses) -/
theorem alloc_error_cur (hc : CfgOK cfg) (h : GeomInv cfg s) (hr : RespsOK cfg s) {L : Layout} (hL : L.Valid)
    {s' : State} {e : AErr} (he : alloc cfg s L = .ok (s', .error e)) : s'.cur = s.cur :=
  (alloc_inv hc h hr hL he).cur_err e rfl

theorem allocGeneric_error_cur (hc : CfgOK cfg) (h : GeomInv cfg s) (hr : RespsOK cfg s) (k : Kind)
    {L : Layout} {hints hSlow : Hints} (hL : L.Valid) (hh : hints.sma = true → L.align ∣ L.size)
    (hhs : hSlow.sma = true → L.align ∣ L.size) (hk : k = .range → L.align ∣ L.size)
    {s' : State} {e : AErr} (he : allocGeneric cfg k s L hints hSlow = .ok (s', .error e)) : s'.cur = s.cur :=
  (allocGeneric_inv hc h hr k hL hh hhs hk he).cur_err e rfl

/-- each later chunk is strictly larger than its predecessor: preserved by every path of an allocation -/
theorem slow_sizesIncreasing {α : Type} (hc : CfgOK cfg) {L : Layout} {s' : State} {r : Except AErr α}
    (p : SlowPost cfg L s s' r) (h : GeomInv cfg s) (hs : SizesIncreasing s) (hu : UnallocEmpty s) :
    SizesIncreasing s' ∧ UnallocEmpty s' :=
  ⟨p.sizesIncreasing hc h hs hu, p.unallocEmpty hu⟩

example : SizesIncreasing exState := by
  intro i a b ha hb
  match i, ha, hb with
  | 0, ha, hb => simp [exState] at ha hb; subst ha; subst hb; decide
  | n+1, ha, hb => simp [exState] at hb

/-- the example state answers the slow path's request (2032 bytes) correctly -/
example : BaseOK exCfg exState { size := 100, align := 8 } := by
  intro size hs
  have : requestSize exCfg exState { size := 100, align := 8 } = some 2032 := by decide
  rw [this] at hs; cases hs
  exact ⟨_, _, rfl, by decide, by decide, by decide, by decide⟩

/-! ## deallocate, reset_to, reset, reset_to_start -/

theorem deallocAssumeLast_inv (hc : CfgOK cfg) (h : GeomInv cfg s) {ptr size : Nat} (hb : BlockInCur cfg s ptr size)
    {s' : State} (he : deallocAssumeLast cfg s ptr size = .ok s') :
    GeomInv cfg s' ∧ SameShape s s' ∧ s'.cur = s.cur ∧ s'.minAlign = s.minAlign ∧ s'.resps = s.resps := by
  obtain ⟨s1, e1, e2, e3, e4, e5, e6, _⟩ := deallocAssumeLast_ok hc h hb
  rw [e1] at he; cases he
  exact ⟨e2, e3, e4, e5, e6⟩

theorem deallocAssumeLast_noFault (hc : CfgOK cfg) (h : GeomInv cfg s) {ptr size : Nat} (hb : BlockInCur cfg s ptr size) :
    ∃ s', deallocAssumeLast cfg s ptr size = .ok s' := by
  obtain ⟨s1, e1, _⟩ := deallocAssumeLast_ok hc h hb
  exact ⟨s1, e1⟩

/-- `deallocate`: the caller's block, if it is the last one, lies in the current chunk -/
theorem deallocate_inv (hc : CfgOK cfg) (h : GeomInv cfg s) {ptr size : Nat}
    (hb : isLast cfg s ptr size = true → BlockInCur cfg s ptr size)
    {s' : State} (he : deallocate cfg s ptr size = .ok s') :
    GeomInv cfg s' ∧ SameShape s s' ∧ s'.cur = s.cur ∧ s'.minAlign = s.minAlign ∧ s'.resps = s.resps := by
  obtain ⟨s1, e1, e2, e3, e4, e5, e6⟩ := deallocate_ok hc h hb
  rw [e1] at he; cases he
  exact ⟨e2, e3, e4, e5, e6⟩

theorem deallocate_noFault (hc : CfgOK cfg) (h : GeomInv cfg s) {ptr size : Nat}
    (hb : isLast cfg s ptr size = true → BlockInCur cfg s ptr size) :
    ∃ s', deallocate cfg s ptr size = .ok s' := by
  obtain ⟨s1, e1, _⟩ := deallocate_ok hc h hb
  exact ⟨s1, e1⟩

example : BlockInCur exCfg exState (0x10000 + 32) 40 :=
  ⟨0, exChunk, rfl, rfl, by decide, by decide, by decide⟩

theorem resetTo_inv (hc : CfgOK cfg) (h : GeomInv cfg s) {cp : Checkpoint} (hcp : CheckpointOK cfg s cp)
    {s' : State} (he : resetTo cfg s cp = .ok s') :
    GeomInv cfg s' ∧ SameShape s s' ∧ s'.minAlign = s.minAlign ∧ s'.resps = s.resps := by
  obtain ⟨s1, e1, e2, e3, e4, e5, _⟩ := resetTo_ok hc h hcp
  rw [e1] at he; cases he
  exact ⟨e2, e3, e4, e5⟩

theorem resetTo_noFault (hc : CfgOK cfg) (h : GeomInv cfg s) {cp : Checkpoint} (hcp : CheckpointOK cfg s cp) :
    ∃ s', resetTo cfg s cp = .ok s' := by
  obtain ⟨s1, e1, _⟩ := resetTo_ok hc h hcp
  exact ⟨s1, e1⟩

example : CheckpointOK exCfg exState { cur := .chunk 0, addr := 0x10000 + 32 + 3 } :=
  ⟨exChunk, rfl, by decide, by decide⟩

theorem reset_inv (hc : CfgOK cfg) (h : GeomInv cfg s) : GeomInv cfg (reset cfg s) :=
  Arena.reset_inv hc h

theorem reset_sizesIncreasing (hs : SizesIncreasing s) : SizesIncreasing (reset cfg s) :=
  Arena.reset_sizesIncreasing hs

theorem resetToStart_inv (hc : CfgOK cfg) (h : GeomInv cfg s) :
    GeomInv cfg (resetToStart cfg s) ∧ SameShape s (resetToStart cfg s) :=
  ⟨Arena.resetToStart_inv hc h, resetToStart_shape s⟩

/-! ## minimum-alignment changes -/

/-- `align_to::<N>` never faults; afterwards the state satisfies the invariant for the old and for the
    new minimum alignment -/
theorem alignTo_inv (hc : CfgOK cfg) (h : GeomInv cfg s) {n : Nat} (hn : MinAlignOK n)
    {s' : State} (he : alignTo cfg s n = .ok s') :
    GeomInv cfg s' ∧ GeomInv cfg { s' with minAlign := n } ∧ SameShape s s' ∧ s'.cur = s.cur ∧ s'.resps = s.resps := by
  obtain ⟨s1, e1, e2, e3, e4, e5, _, e7, _⟩ := alignTo_ok hc h hn
  rw [e1] at he; cases he
  exact ⟨e2, e3, e4, e5, e7⟩

theorem alignTo_noFault (hc : CfgOK cfg) (h : GeomInv cfg s) {n : Nat} (hn : MinAlignOK n) :
    ∃ s', alignTo cfg s n = .ok s' := by
  obtain ⟨s1, e1, _⟩ := alignTo_ok hc h hn
  exact ⟨s1, e1⟩

theorem alignGuardDrop_inv (hc : CfgOK cfg) (h : GeomInv cfg s) {outer : Nat} (hn : MinAlignOK outer)
    {s' : State} (he : alignGuardDrop cfg s outer = .ok s') :
    GeomInv cfg s' ∧ GeomInv cfg { s' with minAlign := outer } ∧ SameShape s s' ∧ s'.cur = s.cur ∧ s'.resps = s.resps := by
  obtain ⟨s1, e1, e2, e3, e4, e5, _, e7, _⟩ := alignGuardDrop_ok hc h hn
  rw [e1] at he; cases he
  exact ⟨e2, e3, e4, e5, e7⟩

theorem alignGuardDrop_noFault (hc : CfgOK cfg) (h : GeomInv cfg s) {outer : Nat} (hn : MinAlignOK outer) :
    ∃ s', alignGuardDrop cfg s outer = .ok s' := by
  obtain ⟨s1, e1, _⟩ := alignGuardDrop_ok hc h hn
  exact ⟨s1, e1⟩

/-- second half of `BumpAlignGuard::drop`: the chunk the guard started in is re-aligned too (since the fix of
    the by-value-copy finding C18-e); the geometry invariant survives under the inner and the outer minimum
    alignment, and the current chunk is not touched -/
theorem alignChunkAt_inv (hc : CfgOK cfg) (h : GeomInv cfg s) {outer : Nat} (hn : MinAlignOK outer) {st : Cur}
    {s' : State} (he : alignChunkAt cfg s outer st = .ok s') :
    GeomInv cfg s' ∧ (GeomInv cfg { s with minAlign := outer } → GeomInv cfg { s' with minAlign := outer }) ∧
      SameShape s s' ∧ s'.cur = s.cur ∧ s'.resps = s.resps ∧
      (∀ i, s.cur = .chunk i → s'.chunks[i]? = s.chunks[i]?) := by
  obtain ⟨s1, e1, e2, e3, e4, e5, _, e7, e8⟩ := alignChunkAt_ok hc h hn st
  rw [e1] at he; cases he
  exact ⟨e2, e3, e4, e5, e7, e8⟩

theorem alignChunkAt_noFault (hc : CfgOK cfg) (h : GeomInv cfg s) {outer : Nat} (hn : MinAlignOK outer) (st : Cur) :
    ∃ s', alignChunkAt cfg s outer st = .ok s' := by
  obtain ⟨s1, e1, _⟩ := alignChunkAt_ok hc h hn st
  exact ⟨s1, e1⟩

/-! ## reserve -/

theorem reserve_inv (hc : CfgOK cfg) (h : GeomInv cfg s) (hr : RespsOK cfg s) {additional : Nat}
    {s' : State} {r : Except AErr Unit} (he : reserve cfg s additional = .ok (s', r)) :
    GeomInv cfg s' ∧ RespsOK cfg s' ∧ s'.minAlign = s.minAlign :=
  have p := (reserve_ok hc h hr additional).1 s' r he
  ⟨p.inv, p.resps, p.minAlign⟩

theorem reserve_noFault (hc : CfgOK cfg) (h : GeomInv cfg s) (hr : RespsOK cfg s) {additional : Nat}
    (hb : ∀ rest, rest ≤ additional → BaseOK cfg s { size := rest, align := 1 }) :
    ∃ s' r, reserve cfg s additional = .ok (s', r) :=
  (reserve_ok hc h hr additional).2 hb

theorem reserveDyn_inv (hc : CfgOK cfg) (h : GeomInv cfg s) (hr : RespsOK cfg s) {additional : Nat}
    {s' : State} {r : Except AErr Unit} (he : reserveDyn cfg s additional = .ok (s', r)) :
    GeomInv cfg s' ∧ RespsOK cfg s' ∧ s'.minAlign = s.minAlign :=
  have p := (reserveDyn_ok hc h hr additional).1 s' r he
  ⟨p.inv, p.resps, p.minAlign⟩

theorem reserveDyn_noFault (hc : CfgOK cfg) (h : GeomInv cfg s) (hr : RespsOK cfg s) {additional : Nat}
    (hb : BaseOK cfg s { size := additional, align := 1 }) :
    ∃ s' r, reserveDyn cfg s additional = .ok (s', r) :=
  (reserveDyn_ok hc h hr additional).2 hb

/-! ## make_allocated, drop -/

theorem makeAllocated_inv (hc : CfgOK cfg) (h : GeomInv cfg s) (hr : RespsOK cfg s)
    {s' : State} {r : Except AErr Unit} (he : makeAllocated cfg s = .ok (s', r)) :
    GeomInv cfg s' ∧ RespsOK cfg s' ∧ s'.minAlign = s.minAlign ∧ (r = .ok () → ∃ j, s'.cur = .chunk j) :=
  have p := (makeAllocated_ok hc h hr).1 s' r he
  ⟨p.1.inv, p.1.resps, p.1.minAlign, p.2⟩

/-- `make_allocated` does not fault when `ChunkSize::MINIMUM` is computable (a compile-time check in
    the crate) and the base allocator answers correctly -/
theorem makeAllocated_noFault (hc : CfgOK cfg) (h : GeomInv cfg s) (hr : RespsOK cfg s)
    (hb : ∀ size, Spec.calcSize cfg.up cfg.hdr cfg.minChunk = some size → HeadOK cfg s size)
    (hmin : ∃ size, Spec.calcSize cfg.up cfg.hdr cfg.minChunk = some size) :
    ∃ s' r, makeAllocated cfg s = .ok (s', r) :=
  (makeAllocated_ok hc h hr).2 hb hmin

example : Spec.calcSize exCfg.up exCfg.hdr exCfg.minChunk = some 496 := by decide

theorem manuallyDrop_inv (h : GeomInv cfg s) : GeomInv cfg (manuallyDrop cfg s) :=
  Arena.manuallyDrop_inv h

/-! ## memory writes keep the geometry -/

/-- writing bytes changes bytes only -/
theorem writeRange_inv (h : GeomInv cfg s) {lo hi : Nat} {f : Nat → UInt8} {s' : State}
    (he : writeRange cfg s lo hi f = .ok s') : GeomInv cfg s' ∧ SameGeom s s' :=
  ⟨(writeRange_geom he).inv h, writeRange_geom he⟩

/-- `ptr::copy(_nonoverlapping)` changes bytes only -/
theorem copyBytes_inv (h : GeomInv cfg s) {src dst len : Nat} {no : Bool} {s' : State}
    (he : copyBytes cfg s src dst len no = .ok s') : GeomInv cfg s' ∧ SameGeom s s' :=
  ⟨(copyBytes_geom he).inv h, copyBytes_geom he⟩

/-! ## grow, shrink, shrink_slice, committing prepared allocations

The block argument must satisfy what the safety contract gives: if it is the last allocation
(`isLast`) it lies in the content range of the current chunk on the allocated side of the position
(`BlockInCur`).  Preservation first; the "no fault" companions follow below: they additionally need
that chunks do not overlap (`ChunksDisjoint`, `RespsFresh`) and where the live block is (`LiveBlock`). -/

theorem grow_inv (hc : CfgOK cfg) (h : GeomInv cfg s) (hr : RespsOK cfg s) {ptr oldSize : Nat}
    {newL : Layout} (hL : newL.Valid) (hb : isLast cfg s ptr oldSize = true → BlockInCur cfg s ptr oldSize)
    {s' : State} {r : Except AErr Nat} (he : grow cfg s ptr oldSize newL = .ok (s', r)) :
    GeomInv cfg s' ∧ RespsOK cfg s' ∧ s'.minAlign = s.minAlign :=
  have p := grow_post hc h hr hL hb he
  ⟨p.inv, p.resps, p.minAlign⟩

theorem shrink_inv (hc : CfgOK cfg) (h : GeomInv cfg s) (hr : RespsOK cfg s) {ptr oldSize : Nat}
    {newL : Layout} (hL : newL.Valid) (hb : isLast cfg s ptr oldSize = true → BlockInCur cfg s ptr oldSize)
    {s' : State} {r : Except AErr (Nat × Nat)} (he : shrink cfg s ptr oldSize newL = .ok (s', r)) :
    GeomInv cfg s' ∧ RespsOK cfg s' ∧ s'.minAlign = s.minAlign :=
  have p := shrink_post hc h hr hL hb he
  ⟨p.inv, p.resps, p.minAlign⟩

/-- `WithoutShrink::shrink` -/
theorem shrinkWithoutShrink_inv (hc : CfgOK cfg) (h : GeomInv cfg s) (hr : RespsOK cfg s) {ptr oldSize : Nat}
    {newL : Layout} (hL : newL.Valid)
    {s' : State} {r : Except AErr (Nat × Nat)} (he : shrinkWithoutShrink cfg s ptr oldSize newL = .ok (s', r)) :
    GeomInv cfg s' ∧ RespsOK cfg s' ∧ s'.minAlign = s.minAlign :=
  have p := shrinkWithoutShrink_post hc h hr hL he
  ⟨p.inv, p.resps, p.minAlign⟩

/-- `shrink_slice`: `ealign` is the alignment of the element type, which divides the slice address -/
theorem shrinkSlice_inv (hc : CfgOK cfg) (h : GeomInv cfg s) (hr : RespsOK cfg s)
    {ptr oldSize newSize ealign : Nat} (hal : ∃ k, k < 64 ∧ ealign = 2 ^ k) (hap : ealign ∣ ptr)
    (hsz : newSize ≤ oldSize) (hb : isLast cfg s ptr oldSize = true → BlockInCur cfg s ptr oldSize)
    {s' : State} {r : Option Nat} (he : shrinkSlice cfg s ptr oldSize newSize ealign = .ok (s', r)) :
    GeomInv cfg s' ∧ RespsOK cfg s' ∧ s'.minAlign = s.minAlign := by
  obtain ⟨k, hk, hk2⟩ := hal
  have p := shrinkSlice_post hc h hr ⟨k, hk2⟩ (by rw [hk2]; exact Nat.pow_lt_pow_right (by decide) hk) hap hsz hb he
  exact ⟨p.inv, p.resps, p.minAlign⟩

/-- `allocate_prepared(_rev)`: the prepared range lies in the content range of the current chunk -/
theorem allocatePrepared_inv (hc : CfgOK cfg) (h : GeomInv cfg s) (hr : RespsOK cfg s)
    {size rstart rend : Nat} {rev : Bool} (hrange : RangeInCur cfg s rstart rend) (hsz : size ≤ rend - rstart)
    {s' : State} {a : Nat} (he : allocatePrepared cfg s size rstart rend rev = .ok (s', a)) :
    GeomInv cfg s' ∧ RespsOK cfg s' ∧ s'.minAlign = s.minAlign :=
  have p := allocatePrepared_post hc h hr hrange hsz he
  ⟨p.inv, p.resps, p.minAlign⟩

/-- `allocate_prepared_slice(_rev)`: `ptr` is the start (forward) or the end (rev) of the `cap` prepared slots -/
theorem allocatePreparedSlice_inv (hc : CfgOK cfg) (h : GeomInv cfg s) (hr : RespsOK cfg s)
    {ptr len cap esize ealign : Nat} {rev : Bool} (hal : ∃ k, ealign = 2 ^ k)
    (hrange : RangeInCur cfg s (if rev then ptr - cap * esize else ptr) (if rev then ptr else ptr + cap * esize))
    (hrev : rev = true → cap * esize ≤ ptr) (hlen : len ≤ cap)
    {s' : State} {a : Nat} (he : allocatePreparedSlice cfg s ptr len cap esize ealign rev = .ok (s', a)) :
    GeomInv cfg s' ∧ RespsOK cfg s' ∧ s'.minAlign = s.minAlign :=
  have p := allocatePreparedSlice_post hc h hr hal hrange hrev hlen he
  ⟨p.inv, p.resps, p.minAlign⟩

example : RangeInCur exCfg exState (0x10000 + 32 + 48) (0x10000 + 32 + 448) :=
  ⟨0, exChunk, rfl, rfl, by decide, by decide, by decide⟩

example : isLast exCfg exState (0x10000 + 32) 40 = true ∧ BlockInCur exCfg exState (0x10000 + 32) 40 :=
  ⟨by decide, 0, exChunk, rfl, rfl, by decide, by decide, by decide⟩

/-! ## "no fault" for the operations that copy bytes

These need, beyond `GeomInv`, that the chunks do not overlap (`ChunksDisjoint`): the model locates the
chunk of a copied range by address. -/

/-- a live block that passes the `is_last` test lies in the current chunk (the header between the
    content ranges of different chunks keeps positions of other chunks apart) -/
theorem liveBlock_isLast_inCur (hc : CfgOK cfg) (h : GeomInv cfg s) (hd : ChunksDisjoint s) {ptr size : Nat}
    (hl : LiveBlock cfg s ptr size) (hlast : isLast cfg s ptr size = true) : BlockInCur cfg s ptr size :=
  hl.blockInCur hc h hd hlast

theorem copyBytes_noFault (h : GeomInv cfg s) (hd : ChunksDisjoint s) {src dst len : Nat} {no : Bool}
    (hsrc : BlockInChunk cfg s src len) (hdst : BlockInChunk cfg s dst len)
    (hno : no = true → src + len ≤ dst ∨ dst + len ≤ src) :
    ∃ s', copyBytes cfg s src dst len no = .ok s' := by
  obtain ⟨i, c, hi, h1, h2⟩ := hsrc
  obtain ⟨j, d, hj, h3, h4⟩ := hdst
  have hw := h.chunks i c hi
  have hbs := hw.base_le_start
  have hel := hw.end_le
  exact Arena.copyBytes_noFault hd (Or.inr ⟨i, c, hi, by omega, by omega⟩)
    (Or.inr ⟨j, d, hj, h.chunks j d hj, h3, h4⟩) hno

theorem allocatePrepared_noFault (hc : CfgOK cfg) (h : GeomInv cfg s) (hd : ChunksDisjoint s)
    {size rstart rend : Nat} (rev : Bool) (hrange : RangeInCur cfg s rstart rend) (hsz : size ≤ rend - rstart) :
    ∃ s' a, allocatePrepared cfg s size rstart rend rev = .ok (s', a) :=
  Arena.allocatePrepared_noFault hc h hd rev hrange hsz

theorem allocatePreparedSlice_noFault (hc : CfgOK cfg) (h : GeomInv cfg s) (hd : ChunksDisjoint s)
    {ptr len cap esize ealign : Nat} (rev : Bool) (he1 : ealign ∣ esize) (he2 : ealign ∣ ptr)
    (hrange : RangeInCur cfg s (if rev then ptr - cap * esize else ptr) (if rev then ptr else ptr + cap * esize))
    (hrev : rev = true → cap * esize ≤ ptr) (hlen : len ≤ cap) :
    ∃ s' a, allocatePreparedSlice cfg s ptr len cap esize ealign rev = .ok (s', a) :=
  Arena.allocatePreparedSlice_noFault hc h hd rev he1 he2 hrange hrev hlen

theorem shrinkSlice_noFault (hc : CfgOK cfg) (h : GeomInv cfg s) (hd : ChunksDisjoint s)
    {ptr oldSize newSize ealign : Nat} (hal : ∃ k, k < 64 ∧ ealign = 2 ^ k) (hap : ealign ∣ ptr)
    (hsz : newSize ≤ oldSize) (hl : LiveBlock cfg s ptr oldSize) :
    ∃ s' r, shrinkSlice cfg s ptr oldSize newSize ealign = .ok (s', r) := by
  obtain ⟨k, hk, hk2⟩ := hal
  exact Arena.shrinkSlice_noFault hc h hd ⟨k, hk2⟩ (by rw [hk2]; exact Nat.pow_lt_pow_right (by decide) hk) hap hsz hl

example : ChunksDisjoint exState := by
  intro i j a b hij ha hb
  match i, j, ha, hb with
  | 0, 0, _, _ => exact absurd rfl hij
  | 0, 1, ha, hb => simp [exState] at ha hb; subst ha; subst hb; decide
  | 1, 0, ha, hb => simp [exState] at ha hb; subst ha; subst hb; decide
  | 1, 1, _, _ => exact absurd rfl hij
  | n+2, _, ha, _ => simp [exState] at ha
  | 0, n+2, _, hb => simp [exState] at hb
  | 1, n+2, _, hb => simp [exState] at hb

example : LiveBlock exCfg exState (0x10000 + 32) 40 :=
  ⟨0, 0, exChunk, rfl, Nat.le_refl _, rfl, by decide, by decide, fun _ => by decide⟩

/-- `grow` never faults: in particular the block obtained through the fast or the slow path never
    overlaps the block that is moved (`copy_nonoverlapping` is sound), and the in-place paths stay inside
    the chunk -/
theorem grow_noFault (hc : CfgOK cfg) (h : GeomInv cfg s) (hr : RespsOK cfg s)
    (hd : ChunksDisjoint s) (hf : RespsFresh s) {ptr oldSize : Nat} {newL : Layout} (hL : newL.Valid)
    (hsz : oldSize ≤ newL.size) (hl : LiveBlock cfg s ptr oldSize) (hb : BaseOK cfg s newL) :
    ∃ s' r, grow cfg s ptr oldSize newL = .ok (s', r) :=
  Arena.grow_noFault hc h hr hd hf hL hsz hl hb

theorem shrink_noFault (hc : CfgOK cfg) (h : GeomInv cfg s) (hr : RespsOK cfg s)
    (hd : ChunksDisjoint s) (hf : RespsFresh s) {ptr oldSize : Nat} {newL : Layout} (hL : newL.Valid)
    (hsz : newL.size ≤ oldSize) (hl : LiveBlock cfg s ptr oldSize) (hb : BaseOK cfg s newL) :
    ∃ s' r, shrink cfg s ptr oldSize newL = .ok (s', r) :=
  Arena.shrink_noFault hc h hr hd hf hL hsz hl hb

theorem shrinkWithoutShrink_noFault (hc : CfgOK cfg) (h : GeomInv cfg s) (hr : RespsOK cfg s)
    (hd : ChunksDisjoint s) (hf : RespsFresh s) {ptr oldSize : Nat} {newL : Layout} (hL : newL.Valid)
    (hsz : newL.size ≤ oldSize) (hl : LiveBlock cfg s ptr oldSize) (hb : BaseOK cfg s newL) :
    ∃ s' r, shrinkWithoutShrink cfg s ptr oldSize newL = .ok (s', r) :=
  Arena.shrinkWithoutShrink_noFault hc h hr hd hf hL hsz hl hb

example : RespsFresh exState := by
  refine ⟨by simp [exState], ?_⟩
  intro p g hm i c hc
  simp [exState] at hm
  obtain ⟨rfl, rfl⟩ := hm
  match i, hc with
  | 0, hc => simp [exState] at hc; subst hc; decide
  | 1, hc => simp [exState] at hc; subst hc; decide
  | n+2, hc => simp [exState] at hc

/-! ## Chunks stay disjoint

`Trace s s'` (in `Lemmas/GeomNew.lean`) records how the chunk list and the pending responses evolve:
nothing new up to positions/bytes (possibly a refusal consumed), or exactly one new chunk inside the
block just granted.  Every post-condition above carries it (`SlowPost.trace`, …); along a `Trace`
chunk disjointness and freshness of the pending responses are preserved. -/

theorem trace_disjoint {s' : State} (t : Trace s s') (hd : ChunksDisjoint s) (hf : RespsFresh s) :
    ChunksDisjoint s' ∧ RespsFresh s' :=
  t.disjoint hd hf

/-- position-only updates -/
theorem sameShape_disjoint {s' : State} (hsh : SameShape s s') (hd : ChunksDisjoint s) : ChunksDisjoint s' :=
  hsh.disjoint hd

theorem alloc_trace (hc : CfgOK cfg) (h : GeomInv cfg s) (hr : RespsOK cfg s) {L : Layout} (hL : L.Valid)
    {s' : State} {r : Except AErr Nat} (he : alloc cfg s L = .ok (s', r)) : Trace s s' :=
  (alloc_inv hc h hr hL he).trace

theorem grow_trace (hc : CfgOK cfg) (h : GeomInv cfg s) (hr : RespsOK cfg s) {ptr oldSize : Nat}
    {newL : Layout} (hL : newL.Valid) (hb : isLast cfg s ptr oldSize = true → BlockInCur cfg s ptr oldSize)
    {s' : State} {r : Except AErr Nat} (he : grow cfg s ptr oldSize newL = .ok (s', r)) : Trace s s' :=
  (grow_post hc h hr hL hb he).trace

theorem shrink_trace (hc : CfgOK cfg) (h : GeomInv cfg s) (hr : RespsOK cfg s) {ptr oldSize : Nat}
    {newL : Layout} (hL : newL.Valid) (hb : isLast cfg s ptr oldSize = true → BlockInCur cfg s ptr oldSize)
    {s' : State} {r : Except AErr (Nat × Nat)} (he : shrink cfg s ptr oldSize newL = .ok (s', r)) : Trace s s' :=
  (shrink_post hc h hr hL hb he).trace

theorem reserve_trace (hc : CfgOK cfg) (h : GeomInv cfg s) (hr : RespsOK cfg s) {additional : Nat}
    {s' : State} {r : Except AErr Unit} (he : reserve cfg s additional = .ok (s', r)) : Trace s s' :=
  ((reserve_ok hc h hr additional).1 s' r he).trace

theorem reset_disjoint (hd : ChunksDisjoint s) : ChunksDisjoint (reset cfg s) :=
  Arena.reset_disjoint hd

/-! ## the initial state -/

/-- the state every history starts from satisfies all the invariants of this file -/
theorem initState_inv (hc : CfgOK cfg) :
    GeomInv cfg (initState cfg) ∧ SizesIncreasing (initState cfg) ∧ UnallocEmpty (initState cfg) ∧
      ChunksDisjoint (initState cfg) := by
  refine ⟨⟨?_, hc.minAlign0, ?_⟩, ?_, fun _ => rfl, ?_⟩
  · intro i c hi; simp [initState] at hi
  · intro i hi; simp [initState] at hi
  · intro i a b ha _; simp [initState] at ha
  · intro i j a b _ ha _; simp [initState] at ha

example : CfgOK exCfg := exCfg_ok
example : CfgOK exCfgDown := exCfgDown_ok

example : GeomInv exCfg exState := exState_inv
example : GeomInv exCfgDown exStateDown := exStateDown_inv
example : GeomInv exCfg exStateUnalloc := exStateUnalloc_inv
example : (stats exCfg exState).allocated = 40 ∧ (stats exCfg exState).remaining = 424 + 944 := by decide

end C10
