/-
  Props/C05.lean — property C05: every chunk is returned to the base allocator exactly once
  and fits.  Ledger view over the frozen arena model (`Arena/Model.lean`): `s.reqs` is the
  list of calls made to the base allocator, `owned cfg s` the releases that are still due.

  ONLY property theorems live here; helper lemmas are in `Lemmas/Ledger*.lean`.
-/
import BumpProof.Lemmas.LedgerFail
import BumpProof.Lemmas.LedgerEx

set_option linter.unusedSimpArgs false
set_option linter.unusedVariables false

namespace C05
open Arena Rs Ledger

/-- the releases that are still due: one `dealloc` per chunk, with the address the base allocator
    returned, the (down-aligned) size in use and the header alignment -/
def owned (cfg : Cfg) (s : State) : List BaseReq := s.chunks.map (deallocReq cfg)

/-! ## Drop: every chunk is released exactly once -/

/-- `manually_drop` on an allocated arena whose current chunk exists: the requests issued are a
    permutation of the releases due (each chunk exactly once, nothing else), and afterwards the
    arena owns nothing. -/
theorem manuallyDrop_releases_all (cfg : Cfg) (s : State) {i : Nat}
    (hcur : s.cur = .chunk i) (hi : i < s.chunks.length) :
    ∃ l, (manuallyDrop cfg s).reqs = s.reqs ++ l ∧ l.Perm (owned cfg s) ∧
      owned cfg (manuallyDrop cfg s) = [] ∧ (manuallyDrop cfg s).cur = .unallocated ∧
      (manuallyDrop cfg s).resps = s.resps := by
  have hsplit : s.chunks = s.chunks.take i ++ s.chunks[i] :: s.chunks.drop (i+1) := by
    rw [← List.drop_eq_getElem_cons hi, List.take_append_drop]
  refine ⟨((s.chunks.take i).reverse ++ s.chunks.drop (i+1) ++ (s.chunks[i]?).toList).map (deallocReq cfg), ?_, ?_, ?_, ?_, ?_⟩
  · simp only [manuallyDrop, hcur]
  · unfold owned
    apply List.Perm.map
    rw [List.getElem?_eq_getElem hi, Option.toList_some]
    have h1 : ((s.chunks.take i).reverse ++ s.chunks.drop (i+1) ++ [s.chunks[i]]).Perm
        (s.chunks[i] :: (s.chunks.take i ++ s.chunks.drop (i+1))) :=
      List.perm_append_comm.trans
        (List.Perm.cons _ ((List.reverse_perm (s.chunks.take i)).append_right _))
    have h2 : (s.chunks[i] :: (s.chunks.take i ++ s.chunks.drop (i+1))).Perm s.chunks := by
      conv => rhs; rw [hsplit]
      exact List.perm_middle.symm
    exact h1.trans h2
  · simp only [owned, manuallyDrop, hcur, List.map_nil]
  · simp only [manuallyDrop, hcur]
  · simp only [manuallyDrop, hcur]

/-- dropping an arena that never allocated (or whose chunks were handed to a claimant — leaked by
    design) makes no base-allocator call -/
theorem manuallyDrop_quiet (cfg : Cfg) (s : State) (hcur : s.cur = .unallocated ∨ s.cur = .claimed) :
    (manuallyDrop cfg s).reqs = s.reqs ∧ (manuallyDrop cfg s).chunks = s.chunks := by
  rcases hcur with h | h <;> simp only [manuallyDrop, h, and_self]

/-! ## `reset` keeps exactly the last (largest) chunk and releases the rest exactly once -/

theorem reset_releases (cfg : Cfg) (s : State) {i : Nat}
    (hcur : s.cur = .chunk i) (hi : i < s.chunks.length) :
    ∃ l last, s.chunks.getLast? = some last ∧
      (reset cfg s).reqs = s.reqs ++ l ∧ l.Perm (s.chunks.dropLast.map (deallocReq cfg)) ∧
      (reset cfg s).chunks = [last.resetPos cfg] ∧ (reset cfg s).cur = .chunk 0 ∧
      owned cfg (reset cfg s) = [deallocReq cfg last] ∧
      (last.resetPos cfg).allocated cfg = 0 := by
  have hne : s.chunks ≠ [] := by
    intro h0; rw [h0] at hi; simp only [List.length_nil] at hi; omega
  have hdne : s.chunks.drop i ≠ [] := by
    intro h0
    have := congrArg List.length h0
    simp only [List.length_drop, List.length_nil] at this
    omega
  refine ⟨((s.chunks.take i).reverse ++ (s.chunks.drop i).dropLast).map (deallocReq cfg),
    s.chunks.getLast hne, List.getLast?_eq_some_getLast hne, ?_, ?_, ?_, ?_, ?_, ?_⟩
  · simp only [reset, hcur, List.getLast?_eq_some_getLast hne]
  · apply List.Perm.map
    have : s.chunks.dropLast = s.chunks.take i ++ (s.chunks.drop i).dropLast := by
      conv => lhs; rw [← List.take_append_drop i s.chunks]
      exact List.dropLast_append_of_ne_nil hdne
    rw [this]
    exact (List.reverse_perm _).append_right _
  · simp only [reset, hcur, List.getLast?_eq_some_getLast hne]
  · simp only [reset, hcur, List.getLast?_eq_some_getLast hne]
  · simp only [owned, reset, hcur, List.getLast?_eq_some_getLast hne, List.map_cons, List.map_nil]
    rfl
  · unfold Chunk.allocated Chunk.resetPos
    cases cfg.up <;> simp [Chunk.contentStart, Chunk.contentEnd]

/-- chunk sizes grow strictly along the list (`append_for` at least doubles): the chunk `reset`
    keeps is the largest one -/
theorem reset_keeps_largest (s : State) {last : Chunk}
    (hinc : s.chunks.Pairwise (fun a b => a.size < b.size))
    (hlast : s.chunks.getLast? = some last) : ∀ c ∈ s.chunks, c.size ≤ last.size := by
  intro c hc
  have hne : s.chunks ≠ [] := List.ne_nil_of_mem hc
  have hl : last = s.chunks.getLast hne := by
    rw [List.getLast?_eq_some_getLast hne] at hlast
    exact (Option.some.inj hlast).symm
  have hsplit := List.dropLast_concat_getLast hne
  rw [← hsplit] at hinc hc
  rw [List.pairwise_append] at hinc
  rcases List.mem_append.1 hc with h | h
  · have := hinc.2.2 c h (s.chunks.getLast hne) (List.mem_singleton.2 rfl)
    rw [hl]; omega
  · rw [List.mem_singleton.1 h, hl]; exact Nat.le_refl _

/-- `reset` of an arena without a current chunk does nothing -/
theorem reset_quiet (cfg : Cfg) (s : State) (hcur : s.cur = .unallocated ∨ s.cur = .claimed) :
    reset cfg s = s := by
  rcases hcur with h | h <;> simp only [reset, h]

/-! ## Operations without base-allocator traffic: nothing released, nothing acquired -/

theorem owned_setPos (cfg : Cfg) (s : State) (i p : Nat) : owned cfg (setPos s i p) = owned cfg s := by
  unfold owned
  apply List.ext_getElem?
  intro j
  simp only [setPos_chunks, List.getElem?_map, List.getElem?_modify]
  by_cases hij : i = j
  · subst hij; cases s.chunks[i]? <;> simp [deallocReq]
  · simp [hij]

theorem owned_setCurPos (cfg : Cfg) (s : State) (p : Nat) : owned cfg (setCurPos s p) = owned cfg s := by
  rcases setCurPos_eq s p with e | ⟨i, _, e⟩
  · rw [e]
  · rw [e]; exact owned_setPos cfg s i p

theorem resetToStart_quiet (cfg : Cfg) (s : State) :
    (resetToStart cfg s).reqs = s.reqs ∧ (resetToStart cfg s).resps = s.resps ∧
    owned cfg (resetToStart cfg s) = owned cfg s := by
  unfold resetToStart
  split
  · split
    · exact ⟨rfl, rfl, rfl⟩
    · next c rest hc =>
      refine ⟨rfl, rfl, ?_⟩
      simp only [owned, hc, List.map_cons]
      rfl
  · exact ⟨rfl, rfl, rfl⟩

/-- leaving a scope / `reset_to`: no chunk is released (they stay available) and none acquired -/
theorem resetTo_quiet {cfg : Cfg} {s s' : State} {cp : Checkpoint} (h : resetTo cfg s cp = .ok s') :
    s'.reqs = s.reqs ∧ s'.resps = s.resps ∧ owned cfg s' = owned cfg s := by
  unfold resetTo at h
  split at h
  · simp only [pure_eq_ok, Except.ok.injEq] at h
    subst h
    exact resetToStart_quiet cfg s
  · split at h
    · split at h
      · cases h
      · split at h
        · obtain ⟨p, _, h⟩ := bind_eq_ok h
          simp only [pure_eq_ok, Except.ok.injEq] at h
          subst h
          exact ⟨rfl, rfl, owned_setPos cfg s _ p⟩
        · cases h
    · cases h

theorem deallocate_quiet {cfg : Cfg} {s s' : State} {ptr size : Nat} (h : deallocate cfg s ptr size = .ok s') :
    s'.reqs = s.reqs ∧ s'.resps = s.resps ∧ owned cfg s' = owned cfg s := by
  unfold deallocate at h
  split at h
  · simp only [pure_eq_ok, Except.ok.injEq] at h
    subst h; exact ⟨rfl, rfl, rfl⟩
  · split at h
    · rcases deallocAssumeLast_cases h with rfl | ⟨p, rfl⟩
      · exact ⟨rfl, rfl, rfl⟩
      · exact ⟨setCurPos_reqs _ _, setCurPos_resps _ _, owned_setCurPos cfg s p⟩
    · simp only [pure_eq_ok, Except.ok.injEq] at h
      subst h; exact ⟨rfl, rfl, rfl⟩

/-- the allocation fast path never talks to the base allocator -/
theorem tryCur_quiet {cfg : Cfg} {k : Kind} {s : State} {L : Layout} {h : Hints} {v : Nat × Nat} {s' : State}
    (e : tryCur cfg k s L h = .ok (some (v, s'))) :
    s'.reqs = s.reqs ∧ s'.resps = s.resps ∧ owned cfg s' = owned cfg s := by
  rcases tryCur_some e with rfl | ⟨p, rfl⟩
  · exact ⟨rfl, rfl, rfl⟩
  · exact ⟨setCurPos_reqs _ _, setCurPos_resps _ _, owned_setCurPos cfg s p⟩

theorem alignTo_quiet {cfg : Cfg} {s s' : State} {n : Nat} (h : alignTo cfg s n = .ok s') :
    s'.reqs = s.reqs ∧ s'.resps = s.resps ∧ owned cfg s' = owned cfg s := by
  unfold alignTo at h
  split at h
  · split at h
    · split at h
      · simp only [pure_eq_ok, Except.ok.injEq] at h
        subst h; exact ⟨rfl, rfl, rfl⟩
      · obtain ⟨p, _, h⟩ := bind_eq_ok h
        simp only [pure_eq_ok, Except.ok.injEq] at h
        subst h
        exact ⟨rfl, rfl, owned_setPos cfg s _ p⟩
    · simp only [pure_eq_ok, Except.ok.injEq] at h
      subst h; exact ⟨rfl, rfl, rfl⟩
  · simp only [pure_eq_ok, Except.ok.injEq] at h
    subst h; exact ⟨rfl, rfl, rfl⟩

/-! ## Chunk creation: one request, and the chunk fits what was granted -/

/-- A granted request.  `NonDummyChunk::new` succeeds (no fault), issues exactly one `alloc` request
    with the header alignment, and links one chunk whose size in use — the size that will later be
    passed to `dealloc` — lies between the requested and the granted size and is a multiple of 16;
    the release uses the granted address and the same alignment. -/
theorem newChunk_granted {cfg : Cfg} {s : State} {size p g : Nat} {rest : List BaseResp}
    (hH : Spec.HeaderOK cfg.hdr) (hl : layoutOk size cfg.hdr.align = true)
    (hr : s.resps = .granted p g :: rest) (hg : size ≤ g) (hg64 : g < 2^64)
    (h16 : 16 ∣ size) (hsa : Spec.sizeAlign cfg.up cfg.hdr ∣ size) :
    ∃ c, newChunk cfg s size =
        .ok ({ s with reqs := s.reqs ++ [BaseReq.alloc size cfg.hdr.align], resps := rest,
                      chunks := s.chunks ++ [c] }, .ok s.chunks.length) ∧
      size ≤ c.size ∧ c.size ≤ g ∧ 16 ∣ c.size ∧ c.granted = g ∧ c.reqSize = size ∧
      deallocReq cfg c = .dealloc p c.size cfg.hdr.align := by
  have hsp := Lemmas.Size.sizeAlign_pos hH cfg.up
  have h16sa := Lemmas.Size.sizeAlign_16_dvd hH cfg.up
  have hle : size ≤ Spec.downAlign g (Spec.sizeAlign cfg.up cfg.hdr) := Lemmas.le_downAlign_of_dvd hsp hsa hg
  have hd16 : 16 ∣ Spec.downAlign g (Spec.sizeAlign cfg.up cfg.hdr) :=
    Nat.dvd_trans h16sa (Lemmas.downAlign_dvd _ _)
  refine ⟨freshChunk cfg p g size (Spec.downAlign g (Spec.sizeAlign cfg.up cfg.hdr)), ?_, hle,
    Lemmas.downAlign_le _ _, hd16, rfl, rfl, rfl⟩
  unfold newChunk
  simp only [hl, Bool.not_true, Bool.false_eq_true, ↓reduceIte, hr]
  rw [sizeCfg_eq, C12.align_size_eq cfg.up cfg.hdr hH g hg64]
  simp only [liftM_ok, bind_ok, Lemmas.assert_dec hle, Lemmas.assert_dec (Nat.mod_eq_zero_of_dvd hd16)]
  rfl

/-- the same with the size coming from the proved size computation (C12): every size `calc_size`
    produces satisfies the divisibility hypotheses of `newChunk_granted` -/
theorem newChunk_granted_calcSize {cfg : Cfg} {s : State} {hint size p g : Nat} {rest : List BaseResp}
    (hH : Spec.HeaderOK cfg.hdr) (hs : Spec.calcSize cfg.up cfg.hdr hint = some size)
    (hl : layoutOk size cfg.hdr.align = true)
    (hr : s.resps = .granted p g :: rest) (hg : size ≤ g) (hg64 : g < 2^64) :
    ∃ c, newChunk cfg s size =
        .ok ({ s with reqs := s.reqs ++ [BaseReq.alloc size cfg.hdr.align], resps := rest,
                      chunks := s.chunks ++ [c] }, .ok s.chunks.length) ∧
      size ≤ c.size ∧ c.size ≤ g ∧ 16 ∣ c.size ∧ c.granted = g ∧ c.reqSize = size ∧
      deallocReq cfg c = .dealloc p c.size cfg.hdr.align := by
  obtain ⟨h16, hsa, _⟩ := C12.calcSize_some hH hs
  exact newChunk_granted hH hl hr hg hg64 h16 hsa

/-- A refused request: an error value (no fault), exactly one request, nothing linked — so nothing
    has to be released for it. -/
theorem newChunk_refused {cfg : Cfg} {s : State} {size : Nat} {rest : List BaseResp}
    (hl : layoutOk size cfg.hdr.align = true) (hr : s.resps = .fail :: rest) :
    newChunk cfg s size =
      .ok ({ s with reqs := s.reqs ++ [BaseReq.alloc size cfg.hdr.align], resps := rest }, .error .alloc) := by
  rw [newChunk_fail hr, hl]; rfl

/-- An invalid layout is rejected before the base allocator is involved: no request at all. -/
theorem newChunk_invalid_layout {cfg : Cfg} {s : State} {size : Nat}
    (hl : layoutOk size cfg.hdr.align = false) :
    newChunk cfg s size = .ok (s, .error .capacityOverflow) := by
  unfold newChunk
  simp only [hl, Bool.not_false, ↓reduceIte]
  rfl

/-- Whatever `newChunk` does (any response, any size): at most one request, and the releases due grow
    by exactly the new chunk when it succeeds and not at all when it fails. -/
theorem newChunk_ledger {cfg : Cfg} {s s' : State} {size : Nat} {r : Except AErr Nat}
    (h : newChunk cfg s size = .ok (s', r)) :
    (s'.reqs = s.reqs ∨ s'.reqs = s.reqs ++ [BaseReq.alloc size cfg.hdr.align]) ∧
    ((∃ e, r = .error e) → owned cfg s' = owned cfg s) ∧
    ((∃ i, r = .ok i) → ∃ c, owned cfg s' = owned cfg s ++ [deallocReq cfg c] ∧
        size ≤ c.size ∧ 16 ∣ c.size ∧ c.reqSize = size) := by
  rcases newChunk_cases h with ⟨_, rfl, rfl⟩ | ⟨_, rest, hr, rfl, rfl⟩ | ⟨_, p, g, rest, size', hr, _, hge, h16, rfl, rfl⟩
  · exact ⟨Or.inl rfl, fun _ => rfl, fun ⟨i, hi⟩ => by cases hi⟩
  · exact ⟨Or.inr rfl, fun _ => rfl, fun ⟨i, hi⟩ => by cases hi⟩
  · refine ⟨Or.inr rfl, fun ⟨e, he⟩ => (by cases he), fun _ => ⟨freshChunk cfg p g size size', ?_, hge,
      Nat.dvd_of_mod_eq_zero h16, rfl⟩⟩
    simp only [owned, List.map_append, List.map_cons, List.map_nil]

/-! ## An arena created unallocated never talks to the base allocator until memory is needed -/

/-- for an unallocated arena every operation that does not need memory leaves the request log
    untouched (and the arena unallocated) -/
theorem unallocated_quiet (cfg : Cfg) (s : State) (hcur : s.cur = .unallocated) (hch : s.chunks = []) :
    reset cfg s = s ∧ resetToStart cfg s = s ∧
    (manuallyDrop cfg s).reqs = s.reqs ∧
    (∀ ptr size s', deallocate cfg s ptr size = .ok s' → s'.reqs = s.reqs ∧ s'.chunks = []) ∧
    (∀ n s', alignTo cfg s n = .ok s' → s' = s) ∧
    (cfg.ga = false → resetTo cfg s (checkpoint cfg s) = .ok s) := by
  refine ⟨by simp only [reset, hcur], by simp only [resetToStart, hcur], by simp only [manuallyDrop, hcur],
    ?_, ?_, ?_⟩
  · intro ptr size s' h
    obtain ⟨h1, _, h3⟩ := deallocate_quiet h
    refine ⟨h1, ?_⟩
    unfold owned at h3
    rw [hch] at h3
    simpa only [List.map_nil, List.map_eq_nil_iff] using h3
  · intro n s' h
    unfold alignTo at h
    simp only [hcur] at h
    split at h <;> simp only [pure_eq_ok, Except.ok.injEq] at h <;> exact h.symm
  · intro hga
    simp only [resetTo, checkpoint, hga, hcur, resetToStart, Bool.not_false, beq_self_eq_true, Bool.and_self,
      ↓reduceIte]
    rfl

/-! ## Allocation never releases a chunk and never forgets one -/

/-- across any `Ext`-related pair of states the releases due only grow at the end -/
theorem owned_prefix_of_ext {cfg : Cfg} {n : Nat} {s s' : State} (h : Ext n s s') :
    owned cfg s = (owned cfg s').take s.chunks.length := by
  unfold owned
  apply List.ext_getElem?
  intro j
  simp only [List.getElem?_map, List.getElem?_take]
  cases hc : s.chunks[j]? with
  | none =>
    have : ¬ j < s.chunks.length := by rw [List.getElem?_eq_none_iff] at hc; omega
    simp only [this, ↓reduceIte, Option.map_none]
  | some c =>
    have hj := (List.getElem?_eq_some_iff.1 hc).1
    obtain ⟨c', h1, sp, _⟩ := h.chunk j c hc
    simp only [hj, ↓reduceIte, h1, Option.map_some, deallocReq, sp.1, sp.2.1]

/-- `alloc` (fast and slow path, every outcome): the only request it can make is ONE `alloc` with the
    header alignment — never a release; every release that was due is still due, unchanged; when it
    reports an error the releases due are exactly the same (a refused chunk is not owed) -/
theorem alloc_never_releases {cfg : Cfg} {s s' : State} {L : Layout} {r : Except AErr Nat}
    (e : alloc cfg s L = .ok (s', r)) :
    (s'.reqs = s.reqs ∨ ∃ size, s'.reqs = s.reqs ++ [BaseReq.alloc size cfg.hdr.align]) ∧
    owned cfg s = (owned cfg s').take s.chunks.length ∧
    (∀ er, r = .error er → owned cfg s' = owned cfg s) := by
  obtain ⟨a1, a2, _, a4⟩ := alloc_frame e
  have hx := a1 0 (fun _ _ => Nat.zero_le _)
  refine ⟨a2, owned_prefix_of_ext hx, fun er he => ?_⟩
  have hlen := ((a4 er he).2.err er he).1
  have := owned_prefix_of_ext (cfg := cfg) hx
  rw [this, ← hlen]
  unfold owned
  rw [← List.length_map (f := deallocReq cfg), List.take_length]

theorem allocGeneric_never_releases {cfg : Cfg} {k : Kind} {s s' : State} {L : Layout} {h hs : Hints}
    {r : Except AErr (Nat × Nat)} (e : allocGeneric cfg k s L h hs = .ok (s', r)) :
    (s'.reqs = s.reqs ∨ ∃ size, s'.reqs = s.reqs ++ [BaseReq.alloc size cfg.hdr.align]) ∧
    owned cfg s = (owned cfg s').take s.chunks.length ∧
    (∀ er, r = .error er → owned cfg s' = owned cfg s) := by
  obtain ⟨a1, a2, _, a4⟩ := allocGeneric_frame e
  have hx := a1 0 (fun _ _ => Nat.zero_le _)
  refine ⟨a2, owned_prefix_of_ext hx, fun er he => ?_⟩
  have hlen := ((a4 er he).2.err er he).1
  have := owned_prefix_of_ext (cfg := cfg) hx
  rw [this, ← hlen]
  unfold owned
  rw [← List.length_map (f := deallocReq cfg), List.take_length]

theorem reserve_never_releases {cfg : Cfg} {s s' : State} {add : Nat} {r : Except AErr Unit}
    (e : reserve cfg s add = .ok (s', r)) :
    (s'.reqs = s.reqs ∨ ∃ size, s'.reqs = s.reqs ++ [BaseReq.alloc size cfg.hdr.align]) ∧
    owned cfg s = (owned cfg s').take s.chunks.length ∧
    (∀ er, r = .error er → owned cfg s' = owned cfg s) := by
  obtain ⟨a1, a2, _⟩ := reserve_frame e
  refine ⟨a2.reqs, owned_prefix_of_ext (a1 0), fun er he => ?_⟩
  have hlen := (a2.err er he).1
  have := owned_prefix_of_ext (cfg := cfg) (a1 0)
  rw [this, ← hlen]
  unfold owned
  rw [← List.length_map (f := deallocReq cfg), List.take_length]

/-! ## Unproved part -/

/-- RESOLVED — PROVED AS STATED: `C05.history_ledger_holds` in Props/Targets.lean (from
    `Arena.Hist.stepCore_ledger`); the history-level forms are `C05.history_ledger`, `history_releases_match`,
    `history_drop_releases_all` (Props/Hist.lean).  Original comment:
    NOT PROVED (history level): along every sequence of `stepCore` steps the multiset of blocks
    granted so far equals the multiset of blocks released so far plus the releases due (`owned`), hence
    after `drop` everything granted has been released exactly once.  Proved above: the per-function
    ledger facts this induction needs for chunk creation, allocation, reserve, the quiet operations,
    `reset` and `manually_drop`.  Missing: the case analysis over all 40 operations of `stepCore`
    (the remaining ones only reposition or write bytes).  The two hypotheses are the part of the arena
    invariant (`Arena/Inv`) the statement needs: the current chunk exists, an unallocated arena has no chunk. -/
def history_ledger_target : Prop :=
  ∀ (cfg : Cfg) (g g' : GState) (op : Op) (out : Out),
    (∀ i, g.s.cur = .chunk i → i < g.s.chunks.length) → (g.s.cur = .unallocated → g.s.chunks = []) →
    stepCore cfg g op = .ok (g', out) →
    ∃ l, g'.s.reqs = g.s.reqs ++ l ∧
      ∃ acquired : List Chunk,
        ((l.filter (fun q => match q with | .dealloc .. => true | _ => false)) ++ owned cfg g'.s).Perm
          (owned cfg g.s ++ acquired.map (deallocReq cfg)) ∧
        acquired.length ≤ (l.filter (fun q => match q with | .alloc .. => true | _ => false)).length

/-! ## Non-vacuity: concrete states satisfying the hypotheses (checked by evaluation) -/

section Examples
open Ledger.Ex

/-- drop of a two-chunk arena: both chunks released, each once -/
example : ∃ l, (manuallyDrop cfg0 s2).reqs = s2.reqs ++ l ∧ l.Perm (owned cfg0 s2) ∧
    owned cfg0 (manuallyDrop cfg0 s2) = [] ∧ (manuallyDrop cfg0 s2).cur = .unallocated ∧
    (manuallyDrop cfg0 s2).resps = s2.resps :=
  manuallyDrop_releases_all cfg0 s2 (i := 0) rfl (by decide)
example : (manuallyDrop cfg0 s2).reqs = [.dealloc 8192 1008 16, .dealloc 4096 496 16] := rfl
/-- the second chunk current: the order differs, the multiset does not -/
example : (manuallyDrop cfg0 s2later).reqs = [.dealloc 4096 496 16, .dealloc 8192 1008 16] := rfl
example : (reset cfg0 s2).reqs = [.dealloc 4096 496 16] ∧ (reset cfg0 s2).chunks.length = 1 := ⟨rfl, rfl⟩
example : s2.cur = .chunk 0 ∧ 0 < s2.chunks.length := ⟨rfl, by decide⟩
example : s2.chunks.Pairwise (fun a b => a.size < b.size) := by decide
/-- hypotheses of `newChunk_granted` for a 496-byte request answered with 512 bytes -/
example : Spec.HeaderOK cfg0.hdr ∧ layoutOk 496 cfg0.hdr.align = true ∧ 496 ≤ 512 ∧ 512 < 2^64 ∧ 16 ∣ 496 ∧
    Spec.sizeAlign cfg0.up cfg0.hdr ∣ 496 := ⟨hH0, by decide, by decide, by decide, by decide, by decide⟩
example : Spec.calcSize cfg0.up cfg0.hdr 512 = some 496 := by decide
example : ∃ c, newChunk cfg0 { sUnalloc with resps := [.granted 4096 512] } 496 =
      .ok ({ sUnalloc with reqs := [BaseReq.alloc 496 16], resps := [], chunks := [c] }, .ok 0) ∧
      496 ≤ c.size ∧ c.size ≤ 512 ∧ 16 ∣ c.size ∧ c.granted = 512 ∧ c.reqSize = 496 ∧
      deallocReq cfg0 c = .dealloc 4096 c.size 16 :=
  newChunk_granted (s := { sUnalloc with resps := [.granted 4096 512] }) hH0 (by decide) rfl (by decide) (by decide)
    (by decide) (by decide)
example : layoutOk (2^63) cfg0.hdr.align = false := by decide
example : (initState cfg0).cur = .unallocated ∧ (initState cfg0).chunks = [] := ⟨rfl, rfl⟩

end Examples

end C05
