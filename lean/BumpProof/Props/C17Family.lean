/-
  Props/C17Family.lean — property C17 for the high-level typed family (`alloc`, `alloc_with`,
  `alloc_default`, `alloc_uninit`, `alloc_slice_copy/_clone/_fill/_fill_with/_move`, `alloc_str`,
  `alloc_cstr(_from_str)`, `alloc_uninit_slice(_for)`, `alloc_iter(_exact)` and their `try_` twins).

  `Arena/Family.lean` gives every entry point its denotation in the model's operation alphabet (the
  harness logs exactly these lists when it drives the real methods).  Here: the allocating step of every
  such denotation IS the step of `Allocator::allocate` with the entry point's layout — same outcome, same
  successor state (address, positions, chunks, ghost block) — whichever hints the entry point passes and
  whether it is reached statically or through a trait object.  Hence any two entry points asked for equal
  layouts are interchangeable, and so are whole calls (allocation + contents, or allocation + unwinding).
  (`alloc_iter_mut(_rev)` denote prepare/commit sequences of C15; they are listed in `Entry` but are
  not claimed equal to a plain `allocate`: the committed slice is not re-aligned to the minimum alignment.)
-/
import BumpProof.Arena.Family
import BumpProof.Props.C17

namespace C17
open Arena Rs Ctrl Lemmas

/-- the hints an entry point passes are truthful for its layout as soon as `align_of::<T>()` divides
    `size_of::<T>()` (true of every Rust type) -/
theorem entry_hints_truthful (e : Entry) (es ea len : Nat) (dyn : Bool) (hdiv : ea ∣ es) :
    Truthful (e.layout es ea len) (e.hints dyn) := by
  intro _
  cases e <;> simp only [Entry.layout] <;>
    first
      | exact hdiv
      | exact Nat.dvd_trans hdiv (Nat.dvd_mul_right es len)
      | exact Nat.one_dvd _

/-- **Every entry point of the family allocates exactly like `Allocator::allocate` of its layout**:
    same result, same successor state — for every entry point, element layout, length, state, and both
    for the static handle (compile-time hints) and the trait object (no hints). -/
theorem family_step_eq_allocate (cfg : Cfg) (g : GState) (e : Entry) (es ea len : Nat) (dyn : Bool)
    (hdiv : ea ∣ es)
    (hv : C11.Valid cfg.up (bumpProps cfg g.s (e.layout es ea len) Hints.custom)) :
    stepCore cfg g (.allocLayout (e.layout es ea len) (e.hints dyn))
      = stepCore cfg g (.allocate (e.layout es ea len) false .plain) :=
  step_allocLayout_eq_allocate cfg g _ _ hv (entry_hints_truthful e es ea len dyn hdiv)

/-- two entry points (possibly of different element types, one static and one through `dyn`) asked for the
    same layout are interchangeable: e.g. `alloc_slice_copy(&[u32; 6])`, `alloc_iter_exact` of 6 `u32`s,
    `alloc::<[u32; 6]>` and `alloc_uninit_slice::<u32>(6)` through `dyn BumpAllocatorCoreScope` -/
theorem family_entries_interchangeable (cfg : Cfg) (g : GState) (e1 e2 : Entry)
    (es1 ea1 len1 es2 ea2 len2 : Nat) (dyn1 dyn2 : Bool)
    (hdiv1 : ea1 ∣ es1) (hdiv2 : ea2 ∣ es2)
    (hL : e1.layout es1 ea1 len1 = e2.layout es2 ea2 len2)
    (hv : C11.Valid cfg.up (bumpProps cfg g.s (e1.layout es1 ea1 len1) Hints.custom)) :
    stepCore cfg g (.allocLayout (e1.layout es1 ea1 len1) (e1.hints dyn1))
      = stepCore cfg g (.allocLayout (e2.layout es2 ea2 len2) (e2.hints dyn2)) := by
  rw [family_step_eq_allocate cfg g e1 es1 ea1 len1 dyn1 hdiv1 hv]
  rw [hL] at hv
  rw [family_step_eq_allocate cfg g e2 es2 ea2 len2 dyn2 hdiv2 hv, hL]

/-- shape of the denotation of a returning call that allocates and does not go through `MutBumpVec` -/
theorem family_ops_shape (e : Entry) (es ea len seed : Nat) (dyn : Bool) (blk : Nat)
    (ha : e.allocates es len = true) (hp : e.viaPrepare = false) :
    e.ops es ea len seed dyn blk = [.allocLayout (e.layout es ea len) (e.hints dyn), .write blk seed] := by
  simp [Entry.ops, ha, hp]

theorem family_opsUnwound_shape (e : Entry) (es ea len seed : Nat) (dyn : Bool) (blk : Nat)
    (ha : e.allocates es len = true) (hp : e.viaPrepare = false) :
    e.opsUnwound es ea len seed dyn blk
      = [.allocLayout (e.layout es ea len) (e.hints dyn),
         .deallocate blk (if e.viaBumpVec then .plain else .withoutDealloc)] := by
  simp [Entry.opsUnwound, ha, hp]

theorem runOps_cons_congr (cfg : Cfg) (g : GState) (op1 op2 : Op) (rest : List Op)
    (h : stepCore cfg g op1 = stepCore cfg g op2) :
    runOps cfg g (op1 :: rest) = runOps cfg g (op2 :: rest) := by
  simp only [runOps, h]

/-- **A whole call of the family = `Allocator::allocate` of its layout followed by the owner writing the
    contents**: every outcome and the final state (positions, chunks, live blocks, memory bytes) agree. -/
theorem family_call_eq_allocate_write (cfg : Cfg) (g : GState) (e : Entry) (es ea len seed : Nat) (dyn : Bool)
    (blk : Nat) (hdiv : ea ∣ es) (ha : e.allocates es len = true) (hp : e.viaPrepare = false)
    (hv : C11.Valid cfg.up (bumpProps cfg g.s (e.layout es ea len) Hints.custom)) :
    runOps cfg g (e.ops es ea len seed dyn blk)
      = runOps cfg g [.allocate (e.layout es ea len) false .plain, .write blk seed] := by
  rw [family_ops_shape e es ea len seed dyn blk ha hp]
  exact runOps_cons_congr cfg g _ _ _ (family_step_eq_allocate cfg g e es ea len dyn hdiv hv)

/-- … and a call unwound by a panicking callback = `allocate` followed by the end of the block
    (`deallocate` for the `BumpVec`-based entry points, nothing reclaimed for the others) -/
theorem family_unwound_eq_allocate_dealloc (cfg : Cfg) (g : GState) (e : Entry) (es ea len seed : Nat) (dyn : Bool)
    (blk : Nat) (hdiv : ea ∣ es) (ha : e.allocates es len = true) (hp : e.viaPrepare = false)
    (hv : C11.Valid cfg.up (bumpProps cfg g.s (e.layout es ea len) Hints.custom)) :
    runOps cfg g (e.opsUnwound es ea len seed dyn blk)
      = runOps cfg g [.allocate (e.layout es ea len) false .plain,
                      .deallocate blk (if e.viaBumpVec then .plain else .withoutDealloc)] := by
  rw [family_opsUnwound_shape e es ea len seed dyn blk ha hp]
  exact runOps_cons_congr cfg g _ _ _ (family_step_eq_allocate cfg g e es ea len dyn hdiv hv)

/-- two complete calls through different entry points with equal layouts and equal contents -/
theorem family_calls_interchangeable (cfg : Cfg) (g : GState) (e1 e2 : Entry)
    (es1 ea1 len1 es2 ea2 len2 seed : Nat) (dyn1 dyn2 : Bool) (blk : Nat)
    (hdiv1 : ea1 ∣ es1) (hdiv2 : ea2 ∣ es2)
    (ha1 : e1.allocates es1 len1 = true) (hp1 : e1.viaPrepare = false)
    (ha2 : e2.allocates es2 len2 = true) (hp2 : e2.viaPrepare = false)
    (hL : e1.layout es1 ea1 len1 = e2.layout es2 ea2 len2)
    (hv : C11.Valid cfg.up (bumpProps cfg g.s (e1.layout es1 ea1 len1) Hints.custom)) :
    runOps cfg g (e1.ops es1 ea1 len1 seed dyn1 blk) = runOps cfg g (e2.ops es2 ea2 len2 seed dyn2 blk) := by
  rw [family_call_eq_allocate_write cfg g e1 es1 ea1 len1 seed dyn1 blk hdiv1 ha1 hp1 hv]
  rw [hL] at hv
  rw [family_call_eq_allocate_write cfg g e2 es2 ea2 len2 seed dyn2 blk hdiv2 ha2 hp2 hv, hL]

/-- zero-sized element types: every entry point except `alloc_uninit_slice(_for)` (and the text ones, whose element
    is `u8`) short-circuits — the empty denotation, returning or unwinding -/
theorem family_zst_no_ops (e : Entry) (ea len seed : Nat) (dyn : Bool) (blk : Nat)
    (ht : e.isText = false) (hz : e.zstReachesAllocator = false) :
    e.ops 0 ea len seed dyn blk = [] ∧ e.opsUnwound 0 ea len seed dyn blk = [] := by
  simp [Entry.ops, Entry.opsUnwound, Entry.allocates, ht, hz]

/-- … and exactly those: the denotation for a zero-sized element type is empty iff the entry point is not
    `alloc_uninit_slice`, `alloc_uninit_slice_for` or a text entry point -/
theorem family_zst_no_ops_iff (e : Entry) (ea len seed : Nat) (dyn : Bool) (blk : Nat) :
    e.ops 0 ea len seed dyn blk = [] ↔ (e.isText = false ∧ e.zstReachesAllocator = false) := by
  cases e <;> simp [Entry.ops, Entry.allocates, Entry.isText, Entry.zstReachesAllocator, Entry.viaPrepare]

/-- `alloc_uninit_slice(_for)` of a zero-sized type: a size-0 request with the alignment of `T` … -/
theorem family_zst_uninit_ops (e : Entry) (ea len seed : Nat) (dyn : Bool) (blk : Nat) (hz : e.zstReachesAllocator = true) :
    e.ops 0 ea len seed dyn blk = [.allocLayout { size := 0, align := ea } (e.hints dyn), .write blk seed] := by
  cases e <;> simp_all [Entry.ops, Entry.allocates, Entry.isText, Entry.zstReachesAllocator, Entry.viaPrepare, Entry.layout]

/-- … which steps exactly like `Allocator::allocate(Layout(0, align_of::<T>()))` (so it pads the bump position) -/
theorem family_zst_uninit_step (cfg : Cfg) (g : GState) (e : Entry) (ea len : Nat) (dyn : Bool)
    (hv : C11.Valid cfg.up (bumpProps cfg g.s (e.layout 0 ea len) Hints.custom)) :
    stepCore cfg g (.allocLayout (e.layout 0 ea len) (e.hints dyn)) = stepCore cfg g (.allocate (e.layout 0 ea len) false .plain) :=
  family_step_eq_allocate cfg g e 0 ea len dyn (Nat.dvd_zero ea) hv

/-! ## Non-vacuity (the concrete upward state `exUp` of `Lemmas/CtrlEx.lean`: 24 bytes, align 8) -/

example : (Entry.sliceCopy.layout 8 8 3 = exL) ∧ (Entry.alloc.layout 24 8 1 = exL) ∧ (Entry.cstr.layout 1 1 23).size = 24 :=
  ⟨rfl, rfl, rfl⟩

/-- `alloc_slice_copy(&[u64; 3])` on the static handle steps like `allocate(Layout(24, 8))` -/
example : stepCore wCfg ⟨exUp, []⟩ (.allocLayout (Entry.sliceCopy.layout 8 8 3) (Entry.sliceCopy.hints false))
    = stepCore wCfg ⟨exUp, []⟩ (.allocate exL false .plain) :=
  family_step_eq_allocate wCfg ⟨exUp, []⟩ .sliceCopy 8 8 3 false ⟨1, rfl⟩ (exUp_valid exL exL_valid _ (truthful_custom _))

/-- `alloc_iter_exact` of 3 `u64`s through `dyn` versus `alloc::<[u64; 3]>` on the static handle -/
example : stepCore wCfg ⟨exUp, []⟩ (.allocLayout (Entry.iterExact.layout 8 8 3) (Entry.iterExact.hints true))
    = stepCore wCfg ⟨exUp, []⟩ (.allocLayout (Entry.alloc.layout 24 8 1) (Entry.alloc.hints false)) :=
  family_entries_interchangeable wCfg ⟨exUp, []⟩ .iterExact .alloc 8 8 3 24 8 1 true false ⟨1, rfl⟩ ⟨3, rfl⟩ rfl
    (exUp_valid exL exL_valid _ (truthful_custom _))

/-- the whole call, contents included -/
example : runOps wCfg ⟨exUp, []⟩ (Entry.sliceFillWith.ops 8 8 3 5 false 1)
    = runOps wCfg ⟨exUp, []⟩ [.allocate exL false .plain, .write 1 5] :=
  family_call_eq_allocate_write wCfg ⟨exUp, []⟩ .sliceFillWith 8 8 3 5 false 1 ⟨1, rfl⟩ rfl rfl
    (exUp_valid exL exL_valid _ (truthful_custom _))

/-- … and neither side is a fault: the block (id 1) is placed at the bump position 0x10040, the write succeeds -/
example : (runOps wCfg ⟨exUp, []⟩ (Entry.sliceFillWith.ops 8 8 3 5 false 1)).toOption.map (·.2)
    = some [.block 1 0x10040 24, .unit] := by rfl

/-- unwinding: `alloc_iter_exact` gives the buffer back (position 0x10040 again), `alloc_slice_fill_with` does not -/
example : (runOps wCfg ⟨exUp, []⟩ (Entry.iterExact.opsUnwound 8 8 3 5 true 1)).toOption.map (fun x => curPos wCfg x.1.s) = some 0x10040
    ∧ (runOps wCfg ⟨exUp, []⟩ (Entry.sliceFillWith.opsUnwound 8 8 3 5 true 1)).toOption.map (fun x => curPos wCfg x.1.s) = some 0x10058 :=
  ⟨by rfl, by rfl⟩


/-- zero-sized `[u64; 0]` (size 0, align 8): `alloc_slice_copy` denotes nothing, `alloc_uninit_slice` a size-0 request -/
example : Entry.sliceCopy.ops 0 8 5 7 false 1 = []
    ∧ Entry.uninitSlice.ops 0 8 5 7 false 1 = [.allocLayout { size := 0, align := 8 } Hints.array, .write 1 7] :=
  ⟨(family_zst_no_ops .sliceCopy 8 5 7 false 1 rfl rfl).1, family_zst_uninit_ops .uninitSlice 8 5 7 false 1 rfl⟩

end C17
