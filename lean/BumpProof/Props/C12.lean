/-
  Props/C12.lean — property C12: a fresh chunk always fits the request that caused
  it; sizes never wrap.  ONLY property theorems live here.

  `Gen.SizeConfig.*` is regenerated from /repo/src/chunk/size_config.rs on every
  run; `Spec.*` is the wide-integer (unbounded `Nat`) specification.
-/
import BumpProof.Gen.SizeConfig
import BumpProof.Spec.Size
import BumpProof.Lemmas.SizeEq

namespace C12
open Gen.SizeConfig Rs Spec

/-! ## Generated code = wide-integer specification: never wraps, never panics, overflow ⇒ `none` -/

theorem calc_size_from_hint_eq (up : Bool) (H : Layout) (hH : HeaderOK H) (hint : Nat) (hh : hint < 2^64) :
    calc_size_from_hint (mkCfg up H) hint = .ok (calcSize up H hint) :=
  Lemmas.calc_size_from_hint_eq up H hH hint hh

/-- `none` is returned exactly when the wide-integer size does not fit in `usize` -/
theorem calcSize_none_iff (up : Bool) (H : Layout) (hint : Nat) :
    calcSize up H hint = none ↔ 2^64 ≤ calcSizeRaw H hint :=
  Lemmas.calcSize_none_iff up H hint

theorem calc_hint_from_capacity_eq (up : Bool) (H : Layout) (hH : HeaderOK H) (L : Layout) (hL : L.Valid) :
    calc_hint_from_capacity (mkCfg up H) L =
      .ok (if hintFromCapacity up H L < 2^64 then some (hintFromCapacity up H L) else none) :=
  Lemmas.calc_hint_from_capacity_eq up H hH L hL

theorem calc_hint_from_capacity_bytes_eq (up : Bool) (H : Layout) (hH : HeaderOK H) (bytes : Nat) (hb : bytes < 2^64) :
    calc_hint_from_capacity_bytes (mkCfg up H) bytes =
      .ok (if hintFromBytes up H bytes < 2^64 then some (hintFromBytes up H bytes) else none) :=
  Lemmas.calc_hint_from_capacity_bytes_eq up H hH bytes hb

theorem align_size_eq (up : Bool) (H : Layout) (hH : HeaderOK H) (g : Nat) (hg : g < 2^64) :
    align_size (mkCfg up H) g = .ok (downAlign g (sizeAlign up H)) :=
  Lemmas.align_size_eq up H hH g hg

/-! ## Computed sizes: multiples of 16 (and of the header alignment downwards), room for the
    header and the requested capacity -/

theorem calcSize_some {up : Bool} {H : Layout} (hH : HeaderOK H) {hint s : Nat}
    (h : calcSize up H hint = some s) :
    16 ∣ s ∧ sizeAlign up H ∣ s ∧ H.size ≤ s ∧ hint ≤ s + 16 ∧ s < 2^64 :=
  Lemmas.calcSize_some hH h

/-- whatever the base allocator grants (`g ≥ s`), the aligned size the arena uses is between the
    requested and the granted size (memory fitting), a multiple of 16 and of the header alignment
    when bumping downwards -/
theorem align_size_fits {up : Bool} {H : Layout} (hH : HeaderOK H) {hint s g : Nat}
    (h : calcSize up H hint = some s) (hg : s ≤ g) :
    s ≤ downAlign g (sizeAlign up H) ∧ downAlign g (sizeAlign up H) ≤ g ∧
    16 ∣ downAlign g (sizeAlign up H) ∧ sizeAlign up H ∣ downAlign g (sizeAlign up H) :=
  Lemmas.align_size_fits hH h hg

/-- a later chunk is never smaller than twice the previous one less 16 bytes
    (`append_for` asks for `max(required, 2 * prev)`) -/
theorem grow_ge {up : Bool} {H : Layout} (hH : HeaderOK H) {prev req s : Nat}
    (h : calcSize up H (Nat.max req (2 * prev)) = some s) : 2 * prev ≤ s + 16 :=
  Lemmas.grow_ge hH h

/-- hence a later chunk is STRICTLY larger than its predecessor as soon as the predecessor is larger than 16 bytes
    (every real chunk is: its size is a multiple of 16 that also holds a header) — the computed-size half of C10's
    "each later chunk strictly larger than its predecessor" -/
theorem grow_strict {up : Bool} {H : Layout} (hH : HeaderOK H) {prev req s : Nat} (hp : 16 < prev)
    (h : calcSize up H (Nat.max req (2 * prev)) = some s) : prev < s := by
  have := grow_ge hH h
  omega

theorem calcSize_mono {up : Bool} {H : Layout} (hH : HeaderOK H) {h1 h2 s1 s2 : Nat} (hle : h1 ≤ h2)
    (e1 : calcSize up H h1 = some s1) (e2 : calcSize up H h2 = some s2) : s1 ≤ s2 :=
  Lemmas.calcSize_mono hH hle e1 e2

/-! ## Fit: the layout that caused a chunk can be allocated (and prepared) in the fresh chunk,
    for every header layout, both directions, every minimum chunk size / growth hint (any
    `hint ≥ hintFromCapacity`), every granted size `g ≥ s` and every block address `p`. -/

theorem fresh_fits_up {H : Layout} (hH : HeaderOK H) {L : Layout} (hL : L.Valid) {ma : Nat}
    (hma : ma = 1 ∨ ma = 2 ∨ ma = 4 ∨ ma = 8 ∨ ma = 16)
    {hint s g p : Nat} (hhint : hintFromCapacity true H L ≤ hint)
    (hs : calcSize true H hint = some s) (hg : s ≤ g) (hp : H.align ∣ p) :
    let s' := downAlign g (sizeAlign true H)
    let r := freshRange true H p s'
    (∃ x, bumpUp r.1 r.2 L.size L.align ma = some x) ∧
    (L.align ∣ L.size → ∃ x, prepareUp r.1 r.2 L.size L.align = some x) :=
  Lemmas.fresh_fits_up hH hL hma hhint hs hg hp

theorem fresh_fits_down {H : Layout} (hH : HeaderOK H) {L : Layout} (hL : L.Valid) {ma : Nat}
    (hma : ma = 1 ∨ ma = 2 ∨ ma = 4 ∨ ma = 8 ∨ ma = 16)
    {hint s g p : Nat} (hhint : hintFromCapacity false H L ≤ hint)
    (hs : calcSize false H hint = some s) (hg : s ≤ g) (hp : H.align ∣ p) :
    let s' := downAlign g (sizeAlign false H)
    let r := freshRange false H p s'
    (∃ x, bumpDown r.1 r.2 L.size L.align ma = some x) ∧
    (L.align ∣ L.size → ∃ x, prepareDown r.1 r.2 L.size L.align = some x) :=
  Lemmas.fresh_fits_down hH hL hma hhint hs hg hp

/-! ## Non-vacuity -/

/-- header of `Bump<Global>` (zero-sized base allocator) -/
def H0 : Layout := { size := 32, align := 16 }
/-- header with an over-aligned 8-byte base allocator value (`align 64`) -/
def H64 : Layout := { size := 64, align := 64 }

example : HeaderOK H0 := ⟨⟨4, by decide, by decide, by decide⟩, by decide, by decide, by decide⟩
example : HeaderOK H64 := ⟨⟨6, by decide, by decide, by decide⟩, by decide, by decide, by decide⟩
example : calcSize true H0 512 = some 496 := by decide
example : calcSize false H64 (hintFromCapacity false H64 { size := 1000, align := 256 }) = some 2048 := by decide

end C12
