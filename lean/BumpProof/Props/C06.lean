/-
  Props/C06.lean — property C06: every value stored in a bump collection is dropped exactly once,
  also when a user callback (closure, predicate, `Clone`, `Drop`) panics in the middle of an operation.

  Model: `Coll/Prim.lean` (slots `init id | hole`, ghost `dropLog` / `escaped`; reading, dropping or
  handing out a `hole` and overwriting a live value are FAULTS), `Coll/Slice.lean` … (the algorithms
  with the cursors and drop guards of the Rust code).  Each theorem below is about ONE algorithm
  and quantifies over every well-formed vector (any length, any spare capacity, any ids), every
  argument, every oracle list (return values and a panic at any invocation) and every set `bombs`
  of ids whose `Drop` panics.  Shape of every statement (`DropsOnce`):

    * the model does not fault  (no `hole` is read or dropped: no use-after-move, no double drop;
      no live value is overwritten; no out-of-bounds access);
    * afterwards the vector is well-formed: `len ≤ cap`, the first `len` slots are initialised, the
      spare ones are holes, and `ids(buffer) ++ dropLog ++ escaped` has NO DUPLICATES — nothing was
      dropped twice, nothing that was dropped or handed out is still owned;
    * conservation: `ids(buffer) ++ dropLog ++ escaped` afterwards is a permutation of the same list
      before plus the ids inserted by the operation — nothing is lost, EVEN when the panic came out
      of a `Drop` (the model proves more than the property asks for);
  `drop_owner` closes the argument: dropping a well-formed owner drops exactly its contents.

  Algorithms covered here: `retain`, `dedup_by`, `dedup_by_key`, `truncate`, `clear`, `pop`, `pop_if`, `remove`,
  `swap_remove`, `push`, `insert`, `extend_from_slice_clone`, `extend_from_within_clone`, `resize` (`extend_with`),
  `resize_with` (`extend_trusted`), `append`, `drain` (+ `keep_rest`), `extract_if`, `into_iter`, `map_in_place`,
  `BumpVec::splice` (`Coll/Splice.lean`), `BumpVec::map` (`Coll/MapVec.lean`, both code paths);
  `MutBumpVecRev`: `push`, `pop`, `pop_if`, `clear`, `truncate`, `insert`, `remove`, `swap_remove`,
  `extend_from_slice_clone`, `resize`, `resize_with`, `append`, `into_iter`, drop (`partition` and `into_flattened`
  are in `Props/C16.lean`).  Each theorem rests on a refinement lemma
  `Lemmas/Coll*.lean : op v = .ok ⟨v.after (opSpec …), …⟩` (cursor/guard model = list-level description).
  HISTORY LEVEL (`Coll/Run.lean`): `history_drops_once` / `history_never_drops_twice` — every finite sequence
  of the 18 single-vector operations from a well-formed vector, by induction over the list.
  Zero-sized element types (`Coll/Zst.lean`, by counts): `zst_drain_exactly_once` (the repaired
  `owned_slice::Drain::drop`, incl. a panicking destructor inside `truncate`), `zst_into_iter_exactly_once`,
  `zst_truncate_exactly_once`.
  The freshness hypotheses of the cloning operations only ask for fresh ids when the reservation succeeds.
-/
import BumpProof.Coll.Spec
import BumpProof.Coll.Run
import BumpProof.Lemmas.CollWF
import BumpProof.Lemmas.CollRetain
import BumpProof.Lemmas.CollDedup
import BumpProof.Lemmas.CollBasic
import BumpProof.Lemmas.CollGrow
import BumpProof.Lemmas.CollPerm
import BumpProof.Lemmas.CollDrain
import BumpProof.Lemmas.CollExtract
import BumpProof.Lemmas.CollRev
import BumpProof.Lemmas.CollRevPerm
import BumpProof.Lemmas.CollZst
import BumpProof.Lemmas.CollSplice
import BumpProof.Lemmas.CollMapVec

namespace C06
open Coll

/-- the statement shape described in the header; `ins` = ids the operation inserted -/
def DropsOnce {α : Type} (res : M (Out α)) (v : Vec) (ins : List Id) : Prop :=
  ∃ r, res = .ok r ∧ r.vec.WF ∧ r.vec.total.Perm (v.total ++ ins)

/-- what `DropsOnce` gives in plain words -/
theorem DropsOnce.spelled_out {α : Type} {res : M (Out α)} {v : Vec} {ins : List Id} (h : DropsOnce res v ins) :
    ∃ r, res = .ok r ∧
      r.vec.dropLog.Nodup ∧                                      -- no value dropped twice
      (∀ id ∈ r.vec.abs, id ∉ r.vec.dropLog ∧ id ∉ r.vec.escaped) ∧  -- what is still owned was not dropped / given away
      (∀ id ∈ r.vec.dropLog, id ∉ r.vec.escaped) ∧               -- what was given away was not dropped by the vector
      (∀ id, id ∈ v.total ++ ins ↔ id ∈ r.vec.abs ++ r.vec.dropLog ++ r.vec.escaped) ∧  -- nothing lost, nothing invented
      r.vec.len ≤ r.vec.cap := by
  obtain ⟨r, hr, hwf, hp⟩ := h
  refine ⟨r, hr, ?_, ?_, ?_, ?_, hwf.len_le_cap⟩
  · have := hwf.2; rw [hwf.total_eq] at this
    exact (List.nodup_append.mp (List.nodup_append.mp this).1).2.1
  · intro id hid
    have := hwf.2; rw [hwf.total_eq] at this
    have h1 := List.nodup_append.mp this
    have h2 := List.nodup_append.mp h1.1
    exact ⟨fun hd => h2.2.2 id hid id hd rfl, fun he => h1.2.2 id (List.mem_append_left _ hid) id he rfl⟩
  · intro id hid he
    have := hwf.2; rw [hwf.total_eq] at this
    exact (List.nodup_append.mp this).2.2 id (List.mem_append_right _ hid) id he rfl
  · intro id
    rw [← hwf.total_eq]
    exact (hp.mem_iff).symm

/-- dropping a well-formed owner (`Drop for BumpBox<[T]>`, `BumpVec::drop_inner` → `clear`) drops
    exactly the values it still holds, each once, front to back, also if one of the drops panics -/
theorem drop_owner (bombs : List Id) (u : Bool) (v : Vec) (hv : v.WF) :
    dropVec bombs u v =
      .ok ⟨{ v with slots := H v.cap, len := 0, dropLog := v.dropLog ++ v.abs },
           if (!u && v.abs.any bombs.contains) then .panic true else .ret (), []⟩ := by
  have ⟨hs, hl⟩ := hv.slots_eq
  unfold dropVec
  have h := dropRange_seg bombs v.abs u (setLen v 0) [] (H (v.cap - v.len)) 0 (by simpa [setLen] using hs) rfl
  rw [← hl, h]
  simp only [setLen, List.nil_append]
  congr 3
  rw [← H_add]
  congr 1
  have := hv.len_le_cap
  omega

/-- from a refinement equation to `DropsOnce` (in-place operations: the buffer is not reallocated) -/
theorem dropsOnce_inplace {α : Type} {res : M (Out α)} {v : Vec} {r : SpecOut α} {rest : List Outcome} {ins : List Id}
    (hv : v.WF) (hres : res = .ok ⟨v.after r, r.exit, rest⟩)
    (hperm : (r.final ++ r.dropped ++ r.escaped).Perm (v.abs ++ ins)) (hlen : r.final.length ≤ v.cap)
    (hins : (v.total ++ ins).Nodup) : DropsOnce res v ins := by
  have := wf_after_of_eq hv (Grows.refl hv.slots_eq.1) hperm hlen hins
  exact ⟨_, hres, this.1, this.2⟩

/-- the same for operations that may reallocate first (`v'` = the vector after the reservation) -/
theorem dropsOnce_grown {α : Type} {res : M (Out α)} {v v' : Vec} {r : SpecOut α} {rest : List Outcome} {ins : List Id}
    (hv : v.WF) (hg : Grows v v' v.abs) (hres : res = .ok ⟨v'.after r, r.exit, rest⟩)
    (hperm : (r.final ++ r.dropped ++ r.escaped).Perm (v.abs ++ ins)) (hlen : r.final.length ≤ v'.cap)
    (hins : (v.total ++ ins).Nodup) : DropsOnce res v ins := by
  have := wf_after_of_eq hv hg hperm hlen hins
  exact ⟨_, hres, this.1, this.2⟩

theorem grown_grows {env : Env} {v : Vec} {n : Nat} (hv : v.WF) :
    Grows v (grown env v n) v.abs ∧ (room env v n = true → v.len + n ≤ (grown env v n).cap) := by
  have ⟨hs, hl⟩ := hv.slots_eq
  unfold grown room
  cases hr : reserve env v n with
  | none => exact ⟨Grows.refl hs, by simp⟩
  | some v' => have ⟨g, hc⟩ := reserve_some hs hl hr; exact ⟨g, fun _ => hc⟩

theorem grownOne_grows {env : Env} {v : Vec} (hv : v.WF) :
    Grows v (grownOne env v) v.abs ∧ (roomOne env v = true → v.len + 1 ≤ (grownOne env v).cap) := by
  have ⟨hs, hl⟩ := hv.slots_eq
  unfold grownOne roomOne
  cases hr : reserveOne env v with
  | none => exact ⟨Grows.refl hs, by simp⟩
  | some v' => have ⟨g, hc⟩ := reserveOne_some hs hl hr; exact ⟨g, fun _ => hc⟩

/-! ## `retain`, `dedup_by` (`BumpBox<[T]>::retain`, `::dedup_by`; used by all vector types) -/

theorem retain_drops_once (bombs : List Id) (v : Vec) (o : List Outcome) (hv : v.WF) :
    DropsOnce (retain bombs v o) v [] := by
  have ⟨hs, hl⟩ := hv.slots_eq
  refine dropsOnce_inplace hv (retain_eq bombs v v.abs o hs hl) ?_ ?_ (by simpa using hv.2)
  · simpa [retainSpec, sieve_escaped] using sieve_perm (· != 0) bombs v.abs [] o
  · have := sieve_length_le (· != 0) bombs [] v.abs o
    have := hv.len_le_cap
    simp [retainSpec] at *; omega

theorem dedup_by_drops_once (bombs : List Id) (v : Vec) (o : List Outcome) (hv : v.WF) :
    DropsOnce (dedupBy bombs v o) v [] := by
  have ⟨hs, hl⟩ := hv.slots_eq
  refine dropsOnce_inplace hv (dedupBy_eq bombs v v.abs o hs hl) ?_ ?_ (by simpa using hv.2)
  · cases hx : v.abs with
    | nil => simp [dedupSpec]
    | cons x rest => simpa [dedupSpec, sieve_escaped] using sieve_perm (· == 0) bombs rest [x] o
  · have := hv.len_le_cap
    cases hx : v.abs with
    | nil => simp [dedupSpec]
    | cons x rest =>
      have := sieve_length_le (· == 0) bombs [x] rest o
      rw [hx] at hl
      simp [dedupSpec] at *; omega

/-- `dedup_by_key(key)`: two key calls per comparison, a panic in either is covered (the oracle is arbitrary) -/
theorem dedup_by_key_drops_once (bombs : List Id) (v : Vec) (o : List Outcome) (hv : v.WF) :
    DropsOnce (dedupByKey bombs v o) v [] := by
  obtain ⟨r, hr, hwf, hp⟩ := dedup_by_drops_once bombs v (pairUp o) hv
  obtain ⟨r', h1, h2, _⟩ := proj_ok (dedupByKey_pair bombs v o) hr
  exact ⟨r', h1, by rw [h2]; exact hwf, by rw [h2]; exact hp⟩

/-! ## `truncate`, `clear`, `pop`, `remove`, `swap_remove` -/

theorem truncate_drops_once (bombs : List Id) (v : Vec) (n : Nat) (hv : v.WF) :
    DropsOnce (truncate bombs v n) v [] := by
  have ⟨hs, hl⟩ := hv.slots_eq
  refine dropsOnce_inplace hv (truncate_eq bombs v v.abs n hs hl) (by simpa using truncateSpec_perm bombs v.abs n) ?_
    (by simpa using hv.2)
  have := truncateSpec_len bombs v.abs n; have := hv.len_le_cap; omega

theorem clear_drops_once (bombs : List Id) (v : Vec) (hv : v.WF) : DropsOnce (clear bombs v) v [] := by
  have ⟨hs, hl⟩ := hv.slots_eq
  exact dropsOnce_inplace hv (clear_eq bombs v v.abs hs hl) (by simpa using clearSpec_perm bombs v.abs)
    (by simp [clearSpec]) (by simpa using hv.2)

theorem pop_drops_once (v : Vec) (hv : v.WF) : DropsOnce (pop v) v [] := by
  have ⟨hs, hl⟩ := hv.slots_eq
  refine dropsOnce_inplace hv (pop_eq v v.abs hs hl) (by simpa using popSpec_perm v.abs) ?_ (by simpa using hv.2)
  have := popSpec_len v.abs; have := hv.len_le_cap; omega

theorem remove_drops_once (v : Vec) (i : Nat) (hv : v.WF) : DropsOnce (remove v i) v [] := by
  have ⟨hs, hl⟩ := hv.slots_eq
  refine dropsOnce_inplace hv (remove_eq v v.abs i hs hl) (by simpa using removeSpec_perm v.abs i) ?_ (by simpa using hv.2)
  have := removeSpec_len v.abs i; have := hv.len_le_cap; omega

theorem swap_remove_drops_once (v : Vec) (i : Nat) (hv : v.WF) : DropsOnce (swapRemove v i) v [] := by
  have ⟨hs, hl⟩ := hv.slots_eq
  refine dropsOnce_inplace hv (swapRemove_eq v v.abs i hs hl) (by simpa using swapRemoveSpec_perm v.abs i) ?_
    (by simpa using hv.2)
  have := swapRemoveSpec_len v.abs i; have := hv.len_le_cap; omega

/-! ## `push`, `insert`, `extend_from_slice_clone`, `resize` (`FixedBumpVec`, `BumpVec`, `MutBumpVec`)

  `id` / the ids produced by `Clone` are fresh (`hfresh`): they enter the accounting with the call.
  A refused reservation (full `FixedBumpVec`) drops the argument exactly once and changes nothing else. -/

theorem push_drops_once (env : Env) (v : Vec) (id : Id) (hv : v.WF) (hfresh : (v.total ++ [id]).Nodup) :
    DropsOnce (push env v id) v [id] := by
  have ⟨hs, hl⟩ := hv.slots_eq
  have ⟨g, hc⟩ := grownOne_grows (env := env) hv
  refine dropsOnce_grown hv g (push_eq env v v.abs id hs hl) (pushSpec_perm _ _ _) ?_ hfresh
  have hlen := pushSpec_len (roomOne env v) v.abs id
  have := hv.len_le_cap; have := g.cap
  by_cases hr : roomOne env v = true
  · have := hc hr; rw [hr] at hlen ⊢; simp at hlen; omega
  · have hr' : roomOne env v = false := by simpa using hr
    rw [hr'] at hlen ⊢; simp at hlen; omega

theorem insert_drops_once (env : Env) (v : Vec) (i : Nat) (id : Id) (hv : v.WF) (hfresh : (v.total ++ [id]).Nodup) :
    DropsOnce (insert env v i id) v [id] := by
  have ⟨hs, hl⟩ := hv.slots_eq
  have ⟨g, hc⟩ := grownOne_grows (env := env) hv
  have hlen := insertSpec_len (roomOne env v) v.abs i id
  have hcap := hv.len_le_cap
  by_cases hi : i ≤ v.len
  · have := insert_eq env v v.abs i id hs hl
    simp only [hi, ↓reduceIte] at this
    refine dropsOnce_grown hv g this (insertSpec_perm _ _ _ _) ?_ hfresh
    have := g.cap
    by_cases hr : roomOne env v = true
    · have := hc hr; split at hlen <;> omega
    · have hr' : roomOne env v = false := by simpa using hr
      rw [hr'] at hlen ⊢; simp at hlen; omega
  · have := insert_eq env v v.abs i id hs hl
    simp only [hi, ↓reduceIte] at this
    refine dropsOnce_inplace hv this (insertSpec_perm _ _ _ _) ?_ hfresh
    have : ¬ (i ≤ v.abs.length ∧ roomOne env v = true) := by omega
    simp [this] at hlen; omega

/-- NOTE on the freshness hypotheses of `extend_from_slice_clone` / `extend_from_within_clone` / `resize_with`:
    the clones only have to be fresh WHEN THE RESERVATION SUCCEEDS (when it is refused no clone is ever
    made) — the weaker hypothesis is what the induction over histories (`step_drops_once`) needs.  The
    examples right below exhibit successful reservations, so the `if … then clonedIds … else []` is not
    vacuously `[]`. -/
example : room { kind := .bump } (Vec.mk' [1, 2] 0) 2 = true ∧
    extendFromSliceClone { kind := .bump } (Vec.mk' [1, 2] 0) 2 [.ret 5, .ret 6] =
      .ok ⟨{ slots := I [1, 2, 5, 6], len := 4 }, .ret (), []⟩ := by decide

/-- `resize_with(4, f)` on a full `BumpVec` `[1,2]` reserves, `f` makes 5 and panics at its second call -/
example : resizeWith { kind := .bump } (Vec.mk' [1, 2] 0) 4 [.ret 5, .panic] =
    .ok ⟨{ slots := I [1, 2, 5] ++ H 1, len := 3 }, .panic false, []⟩ := by decide

/-- `extend_from_within_clone(0..2)` on a `FixedBumpVec` with room for two more -/
example : extendFromWithinClone { kind := .fixed } (Vec.mk' [1, 2] 2) 0 2 [.ret 5, .ret 6] =
    .ok ⟨{ slots := I [1, 2, 5, 6], len := 4 }, .ret (), []⟩ := by decide

theorem extend_from_slice_clone_drops_once (env : Env) (v : Vec) (n : Nat) (o : List Outcome) (hv : v.WF)
    (hfresh : (v.total ++ (if room env v n then clonedIds n o else [])).Nodup) :
    DropsOnce (extendFromSliceClone env v n o) v (if room env v n then clonedIds n o else []) := by
  have ⟨hs, hl⟩ := hv.slots_eq
  have ⟨g, hc⟩ := grown_grows (env := env) (n := n) hv
  refine dropsOnce_grown hv g (extendFromSliceClone_eq env v v.abs n o hs hl) (extendCloneSpecR_perm _ _ _ _) ?_ ?_
  · have hlen := extendCloneSpecR_len (room env v n) v.abs n o
    have := hv.len_le_cap; have := g.cap
    by_cases hr : room env v n = true
    · have := hc hr; rw [hr] at hlen ⊢; simp at hlen; omega
    · have hr' : room env v n = false := by simpa using hr
      rw [hr'] at hlen ⊢; simp at hlen; omega
  · exact hfresh

/-- `extend_from_within_clone(start..end)`: a bad range panics and changes nothing; otherwise the clones of
    `self[start..end)` are appended one by one (a panicking `Clone` keeps those made so far) -/
theorem extend_from_within_clone_drops_once (env : Env) (v : Vec) (start end_ : Nat) (o : List Outcome) (hv : v.WF)
    (hfresh : (v.total ++ (if start ≤ end_ ∧ end_ ≤ v.len ∧ room env v (end_ - start) then clonedIds (end_ - start) o else [])).Nodup) :
    DropsOnce (extendFromWithinClone env v start end_ o) v
      (if start ≤ end_ ∧ end_ ≤ v.len ∧ room env v (end_ - start) then clonedIds (end_ - start) o else []) := by
  have ⟨hs, hl⟩ := hv.slots_eq
  by_cases hr : start ≤ end_ ∧ end_ ≤ v.len
  · rw [extendFromWithinClone_eq env v v.abs start end_ o hs hl hr]
    by_cases hroom : room env v (end_ - start) = true
    · have := extend_from_slice_clone_drops_once env v (end_ - start) o hv (by simpa [hr, hroom] using hfresh)
      simpa [hr, hroom] using this
    · have h' : room env v (end_ - start) = false := by simpa using hroom
      have := extend_from_slice_clone_drops_once env v (end_ - start) o hv (by simpa [h'] using hv.2)
      simpa [hr, h'] using this
  · rw [extendFromWithinClone_bad env v start end_ o (by omega)]
    have hif : ¬ (start ≤ end_ ∧ end_ ≤ v.len ∧ room env v (end_ - start) = true) := by
      intro h; exact hr ⟨h.1, h.2.1⟩
    simp only [hif, ↓reduceIte]
    exact ⟨_, rfl, hv, by simp⟩

theorem resize_drops_once (env : Env) (v : Vec) (newLen : Nat) (value : Id) (o : List Outcome) (hv : v.WF)
    (hfresh : (v.total ++ resizeIns (room env v (newLen - v.len)) v.abs newLen value o).Nodup) :
    DropsOnce (resize env v newLen value o) v (resizeIns (room env v (newLen - v.len)) v.abs newLen value o) := by
  have ⟨hs, hl⟩ := hv.slots_eq
  have hcap := hv.len_le_cap
  have hlen := resizeSpec_len (room env v (newLen - v.len)) env.bombs v.abs newLen value o
  have heq := resize_eq env v v.abs newLen value o hs hl
  by_cases h : newLen > v.len
  · have ⟨g, hc⟩ := grown_grows (env := env) (n := newLen - v.len) hv
    simp only [h, ↓reduceIte] at heq
    refine dropsOnce_grown hv g heq (resizeSpec_perm _ _ _ _ _ _) ?_ hfresh
    have := g.cap
    by_cases hr : room env v (newLen - v.len) = true
    · have := hc hr; rw [hr] at hlen ⊢; simp at hlen; omega
    · have hr' : room env v (newLen - v.len) = false := by simpa using hr
      rw [hr'] at hlen ⊢; simp at hlen; omega
  · simp only [h, ↓reduceIte] at heq
    refine dropsOnce_inplace hv heq (resizeSpec_perm _ _ _ _ _ _) ?_ hfresh
    split at hlen <;> omega

theorem resize_with_drops_once (env : Env) (v : Vec) (newLen : Nat) (o : List Outcome) (hv : v.WF)
    (hfresh : (v.total ++ (if newLen > v.len ∧ room env v (newLen - v.len) then clonedIds (newLen - v.len) o else [])).Nodup) :
    DropsOnce (resizeWith env v newLen o) v
      (if newLen > v.len ∧ room env v (newLen - v.len) then clonedIds (newLen - v.len) o else []) := by
  have ⟨hs, hl⟩ := hv.slots_eq
  have hcap := hv.len_le_cap
  have heq := resizeWith_eq env v v.abs newLen o hs hl
  by_cases h : newLen > v.len
  · have h' : newLen > v.abs.length := by omega
    have ⟨g, hc⟩ := grown_grows (env := env) (n := newLen - v.len) hv
    simp only [h, ↓reduceIte, resizeWithSpec, h', hl] at heq
    have hlen := extendCloneSpecR_len (room env v (newLen - v.len)) v.abs (newLen - v.len) o
    have := g.cap
    by_cases hr : room env v (newLen - v.len) = true
    · have := hc hr
      simp only [h, hr, and_self, ↓reduceIte]
      rw [hr] at heq hlen
      refine dropsOnce_grown hv g heq (by simpa using extendCloneSpecR_perm true v.abs (newLen - v.len) o) ?_ (by simpa [h, hr] using hfresh)
      simp at hlen; omega
    · have hr' : room env v (newLen - v.len) = false := by simpa using hr
      simp only [hr', Bool.false_eq_true, and_false, ↓reduceIte]
      rw [hr'] at heq hlen
      refine dropsOnce_grown hv g heq (by simpa using extendCloneSpecR_perm false v.abs (newLen - v.len) o) ?_ (by simpa using hv.2)
      simp at hlen; omega
  · have h' : ¬ newLen > v.abs.length := by omega
    simp only [h, false_and, ↓reduceIte, resizeWithSpec, h'] at heq ⊢
    refine dropsOnce_inplace hv heq (by simpa using truncateSpec_perm env.bombs v.abs newLen) ?_ (by simpa using hv.2)
    have := truncateSpec_len env.bombs v.abs newLen; simp only; omega

theorem pop_if_drops_once (v : Vec) (o : List Outcome) (hv : v.WF) : DropsOnce (popIf v o) v [] := by
  have ⟨hs, hl⟩ := hv.slots_eq
  have hcap := hv.len_le_cap
  have hperm : ((popIfSpec v.abs o).final ++ (popIfSpec v.abs o).dropped ++ (popIfSpec v.abs o).escaped).Perm v.abs := by
    unfold popIfSpec
    by_cases hne : v.abs = []
    · rw [hne]; simp
    · rw [List.getLast?_eq_some_getLast hne]
      match o with
      | [] => simp
      | .panic :: o => simp
      | .ret b :: o =>
        simp only
        split
        · simp [List.dropLast_concat_getLast]
        · simp
  refine dropsOnce_inplace hv (popIf_eq v v.abs o hs hl) (by simpa using hperm) ?_ (by simpa using hv.2)
  have := hperm.length_eq; simp only [List.length_append] at this; omega

/-! ## the draining / consuming iterators: `drain` (+ `keep_rest`), `extract_if`, `into_iter`

  The caller's behaviour is a script of `next` / `next_back` calls followed by how the iterator is
  let go; every yielded value is accounted for in `escaped` (the caller owns it now). -/

theorem drain_drops_once (bombs : List Id) (v : Vec) (start end_ : Nat) (script : List Pull) (fin : Fin) (hv : v.WF) :
    DropsOnce (drain bombs v start end_ script fin) v [] := by
  have ⟨hs, hl⟩ := hv.slots_eq
  refine dropsOnce_inplace hv (drain_eq bombs v v.abs start end_ script fin hs hl)
    (by simpa using drainSpec_perm bombs v.abs start end_ script fin) ?_ (by simpa using hv.2)
  have := drainSpec_len bombs v.abs start end_ script fin; have := hv.len_le_cap; omega

theorem into_iter_drops_once (bombs : List Id) (v : Vec) (script : List Pull) (hv : v.WF) :
    DropsOnce (intoIter bombs v script) v [] := by
  have ⟨hs, hl⟩ := hv.slots_eq
  exact dropsOnce_inplace hv (intoIter_eq bombs v v.abs script hs hl)
    (by simpa using intoIterSpec_perm bombs v.abs script) (by simp [intoIterSpec]) (by simpa using hv.2)

/-- after `into_iter` + drop of the iterator nothing is owned any more: every value was yielded or dropped -/
theorem into_iter_leaves_nothing (bombs : List Id) (v : Vec) (script : List Pull) (hv : v.WF) :
    ∃ r, intoIter bombs v script = .ok r ∧ r.vec.abs = [] := by
  have ⟨hs, hl⟩ := hv.slots_eq
  exact ⟨_, intoIter_eq bombs v v.abs script hs hl, by simp [after_abs, intoIterSpec]⟩

theorem extract_if_drops_once (v : Vec) (calls : Nat) (o : List Outcome) (hv : v.WF) :
    DropsOnce (extractIf v calls o) v [] := by
  have ⟨hs, hl⟩ := hv.slots_eq
  refine dropsOnce_inplace hv (extractIf_eq v v.abs calls o hs hl)
    (by simpa using extractSpec_perm calls v.abs o) ?_ (by simpa using hv.2)
  have := extractSpec_len calls v.abs o; have := hv.len_le_cap; omega

/-- a LEAKED `Drain` (`mem::forget` after any pulls): no fault; the owner shows exactly the elements before the
    range (`len = start`), no destructor ran, the yielded values went to the caller, and every id is still
    accounted for exactly once (`total` is a permutation of the old one: what is still in the range and the tail
    sits beyond `len`, leaked) — so dropping the owner afterwards cannot drop anything twice -/
theorem drain_forget_leaks (v : Vec) (start end_ : Nat) (script : List Pull) (hv : v.WF) (hr : start ≤ end_ ∧ end_ ≤ v.len) :
    ∃ r, drainForget v start end_ script = .ok r ∧ r.vec.len = start ∧ r.vec.abs = v.abs.take start ∧
      r.vec.dropLog = v.dropLog ∧
      r.vec.escaped = v.escaped ++ yielded (pullsSpec ((v.abs.take end_).drop start) script).1 ∧
      r.exit = .ret (pullsSpec ((v.abs.take end_).drop start) script).1 ∧
      r.vec.total.Perm v.total ∧ r.vec.total.Nodup := by
  have ⟨hs, hl⟩ := hv.slots_eq
  unfold drainForget
  have hr' : ¬ (start > end_ ∨ end_ > v.len) := by omega
  simp only [hr', ↓reduceIte]
  obtain ⟨head, hhead⟩ : ∃ l, l = v.abs.take start := ⟨_, rfl⟩
  obtain ⟨range, hrange⟩ : ∃ l, l = (v.abs.take end_).drop start := ⟨_, rfl⟩
  obtain ⟨tail, htail⟩ : ∃ l, l = v.abs.drop end_ := ⟨_, rfl⟩
  have hxs : v.abs = head ++ (range ++ tail) := by
    have h1 : v.abs.take start = (v.abs.take end_).take start := by rw [List.take_take]; congr 1; omega
    rw [hhead, hrange, htail, h1, ← List.append_assoc, List.take_append_drop, List.take_append_drop]
  have hhl : head.length = start := by rw [hhead]; simp; omega
  have hrl : range.length = end_ - start := by rw [hrange]; simp; omega
  have hs0 : (setLen v start).slots = I head ++ H 0 ++ I range ++ H 0 ++ (I tail ++ H (v.cap - v.len)) := by
    simp only [setLen]; rw [hs]; conv => lhs; rw [hxs]
    simp
  obtain ⟨a', b', vp, dp, e1, sp, lp, dlp, escp, _, _, _, _, _⟩ := drainPulls_ex script (setLen v start)
    { tailStart := end_, tailLen := v.len - end_, ptr := start, end_ := end_ } (I head) _ 0 0 range hs0
    (by simp; omega) (by simp; omega)
  rw [e1, ← hrange]
  have hperm := pullsSpec_perm script range
  have habs : vp.abs = head := by
    simp only [Vec.abs, lp, setLen, sp]
    rw [← hhl]
    simp [List.take_append, idsOf_append, idsOf_I]
  have htot : vp.total.Perm v.total := by
    rw [hv.total_eq]
    simp only [Vec.total, sp, dlp, escp, setLen, idsOf_append, idsOf_I, idsOf_H, List.append_nil]
    rw [List.perm_iff_count] at hperm ⊢
    intro a
    have h1 := hperm a
    have h2 := congrArg (List.count a) hxs
    simp only [List.count_append] at h1 h2 ⊢
    omega
  exact ⟨_, rfl, by simp [lp, setLen], by rw [habs, hhead], by simp [dlp, setLen], by simp [escp, setLen], rfl, htot,
    htot.nodup_iff.mpr hv.2⟩

/-! ## `map_in_place` (closure `T → U` with `U` of the size of `T`), `append` -/

/-- every element is handed to the closure exactly once; if the closure panics, the unread elements
    and the results produced so far are dropped (each once) and nothing is owned any more -/
theorem map_in_place_drops_once (bombs : List Id) (v : Vec) (o : List Outcome) (hv : v.WF)
    (hfresh : (v.total ++ mapIns v.abs o).Nodup) :
    DropsOnce (mapInPlace bombs v o) v (mapIns v.abs o) := by
  have ⟨hs, hl⟩ := hv.slots_eq
  refine dropsOnce_inplace hv (mapInPlace_eq bombs v v.abs o hs hl)
    (by simpa using mapSpec_perm v.abs [] o) ?_ hfresh
  have h1 := mapSpec_len v.abs [] o; have := hv.len_le_cap; simp at h1; omega

/-- `append(other)`: the elements of `other` move over (each still owned exactly once, now by `self`),
    or — if the reservation is refused — `other` is dropped with all its elements; `other` is left
    empty either way (nothing can be dropped a second time through it) -/
theorem append_drops_once (env : Env) (v other : Vec) (hv : v.WF) (ho : other.WF)
    (hdisj : (v.total ++ other.abs).Nodup) :
    ∃ r o', append env v other = .ok (r, o') ∧ r.vec.WF ∧ o'.abs = [] ∧ o'.len = 0 ∧
      (r.vec.total ++ (o'.dropLog.drop other.dropLog.length)).Perm (v.total ++ other.abs) ∧
      (r.exit = .ret () ∨ r.vec.abs = v.abs) := by
  have ⟨hs, hl⟩ := hv.slots_eq
  have ⟨hso, hlo⟩ := ho.slots_eq
  have heq := append_eq env v other v.abs other.abs hs hl hso hlo
  have ⟨g, hc⟩ := grown_grows (env := env) (n := other.len) hv
  refine ⟨_, _, heq, ?_⟩
  by_cases hr : room env v other.len = true
  · have hcap := hc hr
    rw [hr]
    have hw := wf_after_of_eq (r := appendSpec true v.abs other.abs) (ins := other.abs) hv g
      (by simp [appendSpec]) (by simp [appendSpec]; omega) hdisj
    refine ⟨hw.1, by simp [appendedOther, Vec.abs, idsOf], rfl, ?_, Or.inl (by simp [appendSpec])⟩
    simpa [appendedOther] using hw.2
  · have hr' : room env v other.len = false := by simpa using hr
    rw [hr']
    have hw := wf_after_of_eq (r := appendSpec false v.abs other.abs) (ins := []) hv g
      (by simp [appendSpec]) (by simp [appendSpec]; have := hv.len_le_cap; have := g.cap; omega) (by simpa using hv.2)
    refine ⟨hw.1, by simp [appendedOther, Vec.abs, idsOf], rfl, ?_, Or.inr (by simp [after_abs, appendSpec])⟩
    have h2 := hw.2
    simp only [List.append_nil] at h2
    simpa [appendedOther] using List.Perm.append_right other.abs h2

/-! ## `MutBumpVecRev` (elements at the END of the buffer, `Coll/Rev.lean`)

  Same statement shape with the reverse well-formedness `RWF` (`slots = holes ++ values`). -/

/-- `DropsOnce` for a reverse vector -/
def RDropsOnce {α : Type} (res : M (Out α)) (v : Vec) (ins : List Id) : Prop :=
  ∃ r, res = .ok r ∧ r.vec.RWF ∧ r.vec.total.Perm (v.total ++ ins)

theorem rdropsOnce_of_eq {α : Type} {res : M (Out α)} {v v' : Vec} {r : SpecOut α} {rest : List Outcome} {ins : List Id}
    (hv : v.RWF) (hg : RGrows v v' v.rabs) (hres : res = .ok ⟨v'.rafter r, r.exit, rest⟩)
    (hperm : (r.final ++ r.dropped ++ r.escaped).Perm (v.rabs ++ ins)) (hlen : r.final.length ≤ v'.cap)
    (hins : (v.total ++ ins).Nodup) : RDropsOnce res v ins := by
  have := rwf_after_of_eq hv hg hperm hlen hins
  exact ⟨_, hres, this.1, this.2⟩

theorem RGrows.refl_of_rwf {v : Vec} (hv : v.RWF) : RGrows v v v.rabs :=
  ⟨hv.slots_eq.1, rfl, rfl, rfl, Nat.le_refl _⟩

theorem rev_drop_owner (bombs : List Id) (u : Bool) (v : Vec) (hv : v.RWF) :
    rdropVec bombs u v =
      .ok ⟨{ v with slots := H v.cap, len := 0, dropLog := v.dropLog ++ v.rabs },
           if (!u && v.rabs.any bombs.contains) then .panic true else .ret (), []⟩ :=
  rdropVec_eq bombs u v v.rabs hv.slots_eq.1 hv.slots_eq.2

theorem rev_pop_drops_once (v : Vec) (hv : v.RWF) : RDropsOnce (rpop v) v [] := by
  have ⟨hs, hl⟩ := hv.slots_eq
  refine rdropsOnce_of_eq hv (RGrows.refl_of_rwf hv) (rpop_eq v v.rabs hs hl) (by simpa using rpopSpec_perm v.rabs) ?_ (by simpa using hv.2)
  have h1 := (rpopSpec_perm v.rabs).length_eq; have := hv.len_le_cap
  simp only [List.length_append] at h1; omega

theorem rev_clear_drops_once (bombs : List Id) (v : Vec) (hv : v.RWF) : RDropsOnce (rclear bombs v) v [] := by
  have ⟨hs, hl⟩ := hv.slots_eq
  exact rdropsOnce_of_eq hv (RGrows.refl_of_rwf hv) (rclear_eq bombs v v.rabs hs hl) (by simpa using clearSpec_perm bombs v.rabs)
    (by simp [clearSpec]) (by simpa using hv.2)

theorem rev_truncate_drops_once (bombs : List Id) (v : Vec) (n : Nat) (hv : v.RWF) : RDropsOnce (rtruncate bombs v n) v [] := by
  have ⟨hs, hl⟩ := hv.slots_eq
  refine rdropsOnce_of_eq hv (RGrows.refl_of_rwf hv) (rtruncate_eq bombs v v.rabs n hs hl) (by simpa using rtruncateSpec_perm bombs v.rabs n) ?_
    (by simpa using hv.2)
  have h1 := (rtruncateSpec_perm bombs v.rabs n).length_eq; have := hv.len_le_cap
  simp only [List.length_append] at h1; omega

theorem rev_remove_drops_once (v : Vec) (i : Nat) (hv : v.RWF) : RDropsOnce (rremove v i) v [] := by
  have ⟨hs, hl⟩ := hv.slots_eq
  refine rdropsOnce_of_eq hv (RGrows.refl_of_rwf hv) (rremove_eq v v.rabs i hs hl) (by simpa using removeSpec_perm v.rabs i) ?_
    (by simpa using hv.2)
  have := removeSpec_len v.rabs i; have := hv.len_le_cap; omega

theorem rev_swap_remove_drops_once (v : Vec) (i : Nat) (hv : v.RWF) : RDropsOnce (rswapRemove v i) v [] := by
  have ⟨hs, hl⟩ := hv.slots_eq
  refine rdropsOnce_of_eq hv (RGrows.refl_of_rwf hv) (rswapRemove_eq v v.rabs i hs hl) (by simpa using rswapRemoveSpec_perm v.rabs i) ?_
    (by simpa using hv.2)
  have h1 := (rswapRemoveSpec_perm v.rabs i).length_eq; have := hv.len_le_cap
  simp only [List.length_append] at h1; omega

theorem rev_push_drops_once (env : Env) (v : Vec) (id : Id) (hv : v.RWF) (hfresh : (v.total ++ [id]).Nodup) :
    RDropsOnce (rpush env v id) v [id] := by
  have ⟨hs, hl⟩ := hv.slots_eq
  have ⟨g, hc⟩ := rgrown_grows (env := env) (n := 1) hv
  refine rdropsOnce_of_eq hv g (rpush_eq env v v.rabs id hs hl) (rpushSpec_perm _ _ _) ?_ hfresh
  have := hv.len_le_cap; have := g.cap
  by_cases hr : rroom env v 1 = true
  · have := hc hr; rw [hr]; simp [rpushSpec]; omega
  · have hr' : rroom env v 1 = false := by simpa using hr
    rw [hr']; simp [rpushSpec]; omega

theorem rev_insert_drops_once (env : Env) (v : Vec) (i : Nat) (id : Id) (hv : v.RWF) (hfresh : (v.total ++ [id]).Nodup) :
    RDropsOnce (rinsert env v i id) v [id] := by
  have ⟨hs, hl⟩ := hv.slots_eq
  have ⟨g, hc⟩ := rgrown_grows (env := env) (n := 1) hv
  have hlen := insertSpec_len (rroom env v 1) v.rabs i id
  have hcap := hv.len_le_cap
  have heq := rinsert_eq env v v.rabs i id hs hl
  by_cases hi : i ≤ v.len
  · simp only [hi, ↓reduceIte] at heq
    refine rdropsOnce_of_eq hv g heq (insertSpec_perm _ _ _ _) ?_ hfresh
    have := g.cap
    by_cases hr : rroom env v 1 = true
    · have := hc hr; split at hlen <;> omega
    · have hr' : rroom env v 1 = false := by simpa using hr
      rw [hr'] at hlen ⊢; simp at hlen; omega
  · simp only [hi, ↓reduceIte] at heq
    refine rdropsOnce_of_eq hv (RGrows.refl_of_rwf hv) heq (insertSpec_perm _ _ _ _) ?_ hfresh
    have : ¬ (i ≤ v.rabs.length ∧ rroom env v 1 = true) := by omega
    simp [this] at hlen; omega

theorem rev_extend_from_slice_clone_drops_once (env : Env) (v : Vec) (n : Nat) (o : List Outcome) (hv : v.RWF)
    (hfresh : (v.total ++ clonedIds n o).Nodup) :
    RDropsOnce (rextendFromSliceClone env v n o) v (if rroom env v n then clonedIds n o else []) := by
  have ⟨hs, hl⟩ := hv.slots_eq
  have ⟨g, hc⟩ := rgrown_grows (env := env) (n := n) hv
  refine rdropsOnce_of_eq hv g (rextendFromSliceClone_eq env v v.rabs n o hs hl) (rextendCloneSpecR_perm _ _ _ _) ?_ ?_
  · have hlen := rextendCloneSpecR_len (rroom env v n) v.rabs n o
    have := hv.len_le_cap; have := g.cap
    by_cases hr : rroom env v n = true
    · have := hc hr; rw [hr] at hlen ⊢; simp at hlen; omega
    · have hr' : rroom env v n = false := by simpa using hr
      rw [hr'] at hlen ⊢; simp at hlen; omega
  · split
    · exact hfresh
    · simpa using hv.2

theorem rev_resize_drops_once (env : Env) (v : Vec) (newLen : Nat) (value : Id) (o : List Outcome) (hv : v.RWF)
    (hfresh : (v.total ++ resizeIns (rroom env v (newLen - v.len)) v.rabs newLen value o).Nodup) :
    RDropsOnce (rresize env v newLen value o) v (resizeIns (rroom env v (newLen - v.len)) v.rabs newLen value o) := by
  have ⟨hs, hl⟩ := hv.slots_eq
  have hcap := hv.len_le_cap
  have hlen := rresizeSpec_len (rroom env v (newLen - v.len)) env.bombs v.rabs newLen value o
  have heq := rresize_eq env v v.rabs newLen value o hs hl
  by_cases h : newLen > v.len
  · have ⟨g, hc⟩ := rgrown_grows (env := env) (n := newLen - v.len) hv
    simp only [h, ↓reduceIte] at heq
    refine rdropsOnce_of_eq hv g heq (rresizeSpec_perm _ _ _ _ _ _) ?_ hfresh
    have := g.cap
    by_cases hr : rroom env v (newLen - v.len) = true
    · have := hc hr; rw [hr] at hlen ⊢; simp at hlen; omega
    · have hr' : rroom env v (newLen - v.len) = false := by simpa using hr
      rw [hr'] at hlen ⊢; simp at hlen; omega
  · simp only [h, ↓reduceIte] at heq
    refine rdropsOnce_of_eq hv (RGrows.refl_of_rwf hv) heq (rresizeSpec_perm _ _ _ _ _ _) ?_ hfresh
    split at hlen <;> omega

theorem rev_into_iter_drops_once (bombs : List Id) (v : Vec) (script : List Pull) (hv : v.RWF) :
    RDropsOnce (rintoIter bombs v script) v [] := by
  have ⟨hs, hl⟩ := hv.slots_eq
  exact rdropsOnce_of_eq hv (RGrows.refl_of_rwf hv) (rintoIter_eq bombs v v.rabs script hs hl)
    (by simpa using intoIterSpec_perm bombs v.rabs script) (by simp [intoIterSpec]) (by simpa using hv.2)

theorem rev_pop_if_drops_once (v : Vec) (o : List Outcome) (hv : v.RWF) : RDropsOnce (rpopIf v o) v [] := by
  have ⟨hs, hl⟩ := hv.slots_eq
  have hcap := hv.len_le_cap
  have hperm : ((rpopIfSpec v.rabs o).final ++ (rpopIfSpec v.rabs o).dropped ++ (rpopIfSpec v.rabs o).escaped).Perm v.rabs := by
    unfold rpopIfSpec
    cases v.rabs with
    | nil => simp
    | cons x rest =>
      match o with
      | [] => simp
      | .panic :: o => simp
      | .ret b :: o =>
        simp only
        split
        · simpa using List.perm_append_singleton x rest
        · simp
  refine rdropsOnce_of_eq hv (RGrows.refl_of_rwf hv) (rpopIf_eq v v.rabs o hs hl) (by simpa using hperm) ?_ (by simpa using hv.2)
  have h1 := hperm.length_eq; simp only [List.length_append] at h1; omega

theorem rev_resize_with_drops_once (env : Env) (v : Vec) (newLen : Nat) (o : List Outcome) (hv : v.RWF)
    (hfresh : (v.total ++ clonedIds (newLen - v.len) o).Nodup) :
    RDropsOnce (rresizeWith env v newLen o) v
      (if newLen > v.len ∧ rroom env v (newLen - v.len) then clonedIds (newLen - v.len) o else []) := by
  have ⟨hs, hl⟩ := hv.slots_eq
  have hcap := hv.len_le_cap
  have heq := rresizeWith_eq env v v.rabs newLen o hs hl
  by_cases h : newLen > v.len
  · have h' : newLen > v.rabs.length := by omega
    have ⟨g, hc⟩ := rgrown_grows (env := env) (n := newLen - v.len) hv
    simp only [h, ↓reduceIte, rresizeWithSpec, h', hl] at heq
    have hlen := rextendCloneSpecR_len (rroom env v (newLen - v.len)) v.rabs (newLen - v.len) o
    have := g.cap
    by_cases hr : rroom env v (newLen - v.len) = true
    · have := hc hr
      simp only [h, hr, and_self, ↓reduceIte]
      rw [hr] at heq hlen
      refine rdropsOnce_of_eq hv g heq (by simpa using rextendCloneSpecR_perm true v.rabs (newLen - v.len) o) ?_ hfresh
      simp at hlen; omega
    · have hr' : rroom env v (newLen - v.len) = false := by simpa using hr
      simp only [hr', Bool.false_eq_true, and_false, ↓reduceIte]
      rw [hr'] at heq hlen
      refine rdropsOnce_of_eq hv g heq (by simpa using rextendCloneSpecR_perm false v.rabs (newLen - v.len) o) ?_ (by simpa using hv.2)
      simp at hlen; omega
  · have h' : ¬ newLen > v.rabs.length := by omega
    simp only [h, false_and, ↓reduceIte, rresizeWithSpec, h'] at heq ⊢
    refine rdropsOnce_of_eq hv (RGrows.refl_of_rwf hv) heq (by simpa using rtruncateSpec_perm env.bombs v.rabs newLen) ?_ (by simpa using hv.2)
    have h1 := (rtruncateSpec_perm env.bombs v.rabs newLen).length_eq
    simp only [List.length_append] at h1 ⊢; omega

/-- `MutBumpVecRev::append(other)`: the elements of `other` move to the front of `self` (each still owned
    exactly once) or — reservation refused — `other` is dropped with all its elements; `other` is left empty -/
theorem rev_append_drops_once (env : Env) (v other : Vec) (hv : v.RWF) (ho : other.WF)
    (hdisj : (v.total ++ other.abs).Nodup) :
    ∃ r o', rappend env v other = .ok (r, o') ∧ r.vec.RWF ∧ o'.abs = [] ∧ o'.len = 0 ∧
      (r.vec.total ++ (o'.dropLog.drop other.dropLog.length)).Perm (v.total ++ other.abs) := by
  have ⟨hs, hl⟩ := hv.slots_eq
  have ⟨hso, hlo⟩ := ho.slots_eq
  have heq := rappend_eq env v other v.rabs other.abs hs hl hso hlo
  have ⟨g, hc⟩ := rgrown_grows (env := env) (n := other.len) hv
  refine ⟨_, _, heq, ?_⟩
  by_cases hr : rroom env v other.len = true
  · have hcap := hc hr
    rw [hr]
    have hw := rwf_after_of_eq (r := rappendSpec true v.rabs other.abs) (ins := other.abs) hv g
      (by simpa [rappendSpec] using List.perm_append_comm) (by simp [rappendSpec]; omega) hdisj
    refine ⟨hw.1, by simp [appendedOther, Vec.abs, idsOf], rfl, ?_⟩
    simpa [appendedOther] using hw.2
  · have hr' : rroom env v other.len = false := by simpa using hr
    rw [hr']
    have hw := rwf_after_of_eq (r := rappendSpec false v.rabs other.abs) (ins := []) hv g
      (by simp [rappendSpec]) (by simp [rappendSpec]; have := hv.len_le_cap; have := g.cap; omega) (by simpa using hv.2)
    refine ⟨hw.1, by simp [appendedOther, Vec.abs, idsOf], rfl, ?_⟩
    have h2 := hw.2
    simp only [List.append_nil] at h2
    simpa [appendedOther] using List.Perm.append_right other.abs h2

/-! ## `BumpVec::splice` (`Coll/Splice.lean`: `bump_vec/splice.rs` + `bump_vec/drain.rs`) -/

/-- `splice(start..end, replace_with)`, any pulls, then the `Splice` is dropped — for every range, source,
    `size_hint` behaviour of the source (honest, under-reporting `hint`, or LYING `lie = some l`: over-reporting
    up to a reservation that ends in the "capacity overflow" panic, `maxCap` = largest element count with a
    valid layout) and set of panicking destructors: no fault, the vector is well-formed, and every old value and
    every value of `replace_with` is accounted for exactly once — also when a destructor of the drained range
    panics inside `Splice::drop`, when the range check panics, and when `Splice::drop` unwinds out of
    `reserve` / `move_tail` / `from_iter_in` with "capacity overflow" (`Drain::drop` then restores the tail, and
    `replace_with` is dropped with what it still owns) -/
theorem splice_drops_once (env : Env) (hk : env.kind = .bump) (hm : env.maxCap = none) (v : Vec) (start end_ : Nat) (src : List Id) (hint : Nat)
    (lie : Option Nat) (maxCap : Nat)
    (script : List Pull) (hv : v.WF) (hfresh : (v.total ++ src).Nodup) :
    DropsOnce (splice env v start end_ src hint lie maxCap script) v src := by
  have ⟨hs, hl⟩ := hv.slots_eq
  obtain ⟨v', e, h, hc⟩ := splice_holds env hk hm v v.abs start end_ src hint lie maxCap script hs hl
  have ⟨g, gc⟩ := growTo_grows hs hl v'.cap
  have hcap' : (growTo v v'.cap).cap = v'.cap := by rw [gc]; omega
  generalize capsOf env v hint lie maxCap = c at *
  have hfl : (spliceSpec env.bombs c v.abs start end_ src script).final.length ≤ v'.cap := by
    have h1 := congrArg List.length h.slots
    have h2 := h.len
    simp only [List.length_append, length_I, length_H] at h1
    have : v'.slots.length = v'.cap := rfl
    omega
  have hv' : v' = (growTo v v'.cap).after (spliceSpec env.bombs c v.abs start end_ src script) := by
    apply Vec.eq_of
    · rw [h.slots]; simp only [Vec.after]; rw [hcap', h.len]
    · simp only [Vec.after]; exact h.len.symm
    · simp only [Vec.after]; rw [h.dropLog]; rfl
    · simp only [Vec.after]; rw [h.escaped]; rfl
  rw [hv'] at e
  exact dropsOnce_grown hv g e (spliceSpec_perm _ _ _ _ _ _ _) (by rw [hcap']; exact hfl) hfresh

/-- what the vector holds after a splice that unwound with "capacity overflow" (no panicking destructor):
    the head, the items written before the panic, the untouched tail — nothing lost, nothing twice -/
theorem splice_overflow_contents (env : Env) (hk : env.kind = .bump) (hm : env.maxCap = none) (v : Vec) (start end_ : Nat) (src : List Id) (hint : Nat)
    (lie : Option Nat) (maxCap : Nat) (script : List Pull) (hv : v.WF) (hr : start ≤ end_ ∧ end_ ≤ v.len)
    (hb : (pullsSpec ((v.abs.take end_).drop start) script).2.any env.bombs.contains = false) :
    ∃ r, splice env v start end_ src hint lie maxCap script = .ok r ∧
      r.vec.abs = v.abs.take start ++ (spliceWritten (capsOf env v hint lie maxCap) start end_ v.len src).1 ++ v.abs.drop end_ ∧
      r.vec.dropLog = v.dropLog ++ ((pullsSpec ((v.abs.take end_).drop start) script).2 ++
        src.drop (spliceWritten (capsOf env v hint lie maxCap) start end_ v.len src).1.length) ∧
      (r.exit = .panic false ↔ (spliceWritten (capsOf env v hint lie maxCap) start end_ v.len src).2 = true) := by
  have ⟨hs, hl⟩ := hv.slots_eq
  obtain ⟨v', e, h, hc⟩ := splice_holds env hk hm v v.abs start end_ src hint lie maxCap script hs hl
  have hr' : ¬ (start > end_ ∨ end_ > v.abs.length) := by omega
  have habs : v'.abs = _ := Vec.WF.abs_eq h.slots h.len
  generalize capsOf env v hint lie maxCap = c at *
  have hspec : spliceSpec env.bombs c v.abs start end_ src script =
      { final := v.abs.take start ++ (spliceWritten c start end_ v.abs.length src).1 ++ v.abs.drop end_,
        dropped := (pullsSpec ((v.abs.take end_).drop start) script).2 ++ src.drop (spliceWritten c start end_ v.abs.length src).1.length,
        escaped := yielded (pullsSpec ((v.abs.take end_).drop start) script).1,
        exit := if (spliceWritten c start end_ v.abs.length src).2 then .panic false else .ret (pullsSpec ((v.abs.take end_).drop start) script).1,
        rest := [] } := by
    unfold spliceSpec
    rw [if_neg hr']
    simp only [hb, Bool.false_eq_true, ↓reduceIte]
  rw [hspec] at e h habs
  rw [hl] at e h habs
  refine ⟨_, e, habs, h.dropLog, ?_⟩
  simp only
  cases (spliceWritten c start end_ v.len src).2 <;> simp

/-- non-vacuity: `[1,2,3,4,5].splice(1..3, [10,11,12,13])`, one `next()`; the source under-reports its length
    (`size_hint().0 ≤ 1`), so `move_tail` runs twice and the vector reallocates -/
example : splice { kind := .bump } (Vec.mk' [1, 2, 3, 4, 5] 0) 1 3 [10, 11, 12, 13] 1 none 1000 [.front] =
    .ok ⟨{ slots := I [1, 10, 11, 12, 13, 4, 5] ++ H 3, len := 7, dropLog := [3], escaped := [2] }, .ret [some 2], []⟩ := by
  decide

/-- the destructor of 3 panics inside `Splice::drop`: the range is removed, the tail moves back, `replace_with`
    is dropped unused -/
example : splice { kind := .bump, bombs := [3] } (Vec.mk' [1, 2, 3, 4, 5, 6] 0) 1 5 [10, 11] 0 none 1000 [] =
    .ok ⟨{ slots := I [1, 6] ++ H 4, len := 2, dropLog := [2, 3, 4, 5, 10, 11] }, .panic true, []⟩ := by decide

/-- `Splice` is double-ended: `[1,…,6].splice(1..5, [10])`, one `next_back()` hands out 5; then the `Splice` is
    dropped and the destructor of 2 panics inside `for_each(drop)`: the unwind runs `Drain::drop`, which drops what
    the iterator STILL covers — 3 and 4, not the 5 that was already handed out — and moves the tail back; 10 is
    dropped with `replace_with`.  (`splice_drops_once` holds for every script of front / back pulls.) -/
example : splice { kind := .bump, bombs := [2] } (Vec.mk' [1, 2, 3, 4, 5, 6] 0) 1 5 [10] 100 none 1000 [.back] =
    .ok ⟨{ slots := I [1, 6] ++ H 4, len := 2, dropLog := [2, 3, 4, 10], escaped := [5] }, .panic true, []⟩ := by decide

/-- a LYING source (`size_hint().0 = 2^63-1`): the full vector `[1,2,3,4]`, `splice(1..2, [10,11,12])`: 10 fills the
    range, `move_tail(2^63-1)` → `buf_reserve` panics with "capacity overflow" before anything moved; the unwind
    leaves `[1,10,3,4]`, the range's 2 and the unwritten 11, 12 are dropped once -/
example : splice { kind := .bump } (Vec.mk' [1, 2, 3, 4] 0) 1 2 [10, 11, 12] 100 (some 9223372036854775807) 576460752303423487 [] =
    .ok ⟨{ slots := I [1, 10, 3, 4], len := 4, dropLog := [2, 11, 12] }, .panic false, []⟩ := by decide

/-- no tail: `extend` → `reserve(2^63-1)` panics: nothing is written -/
example : splice { kind := .bump } (Vec.mk' [1, 2, 3, 4] 0) 1 4 [10, 11] 100 (some 9223372036854775807) 576460752303423487 [] =
    .ok ⟨{ slots := I [1] ++ H 3, len := 1, dropLog := [2, 3, 4, 10, 11] }, .panic false, []⟩ := by decide

/-- a harmless over-report (5 claimed, 2 left): `move_tail(5)` grows the buffer, `fill` comes up short, the guard
    of `Drain::drop` moves the tail back -/
example : splice { kind := .bump } (Vec.mk' [1, 2, 3, 4] 0) 1 2 [10, 11, 12] 100 (some 5) 576460752303423487 [] =
    .ok ⟨{ slots := I [1, 10, 11, 12, 3, 4] ++ H 3, len := 6, dropLog := [2] }, .ret [], []⟩ := by decide

/-- `Extend::extend(iter)` on a `BumpVec`, for every `size_hint` behaviour of the source (lying included): every
    old value and every item of the source is accounted for exactly once — pushed, or (when the reservation for
    the claimed length overflows) dropped with the source -/
theorem extend_drops_once (env : Env) (hk : env.kind = .bump) (hm : env.maxCap = none) (v : Vec) (src : List Id) (hint : Nat)
    (lie : Option Nat) (maxCap : Nat) (hv : v.WF) (hfresh : (v.total ++ src).Nodup) :
    DropsOnce (extendIter env v src hint lie maxCap) v src := by
  have ⟨hs, hl⟩ := hv.slots_eq
  have h := extendIter_bump env hk hm v v.abs src hint lie maxCap hs hl
  by_cases hov : capOverflow env maxCap v v.len (spliceLower hint lie src.length) = true
  · simp only [hov, ↓reduceIte] at h
    refine ⟨_, h, ⟨hv.1, ?_⟩, ?_⟩
    · have hp : (dropArgs v src).total.Perm (v.total ++ src) := by
        simp only [Vec.total, dropArgs]; rw [List.perm_iff_count]; intro a; simp only [List.count_append]; omega
      exact hp.nodup_iff.mpr hfresh
    · simp only [Vec.total, dropArgs]; rw [List.perm_iff_count]; intro a; simp only [List.count_append]; omega
  · simp only [hov, Bool.false_eq_true, ↓reduceIte] at h
    obtain ⟨v', e, hh, hc⟩ := h
    have hp : v'.total.Perm (v.total ++ src) := by
      rw [hv.total_eq]
      simp only [Vec.total, hh.slots, hh.dropLog, hh.escaped, idsOf_append, idsOf_I, idsOf_H, List.append_nil]
      rw [List.perm_iff_count]; intro a; simp only [List.count_append]; omega
    exact ⟨_, e, ⟨⟨_, hh.slots, hh.len⟩, hp.nodup_iff.mpr hfresh⟩, hp⟩

/-! ## `BumpVec::map` (`Coll/MapVec.lean`: `generic_map`, both code paths) -/

/-- `BumpVec<T>::map(f) -> BumpVec<U>` — for every layout pair (in place when `U` fits the slots of `T`, the
    `from_iter_exact` fallback otherwise), every behaviour of `f` (a panic at any call) and every set of
    panicking destructors: no fault (in particular no `U` is written over an unread `T`), the result is
    well-formed (or empty after a panic), and every element and every result of `f` is accounted for exactly
    once: in the new vector, dropped once by the guard / the unwind, or moved into `f` -/
theorem vec_map_drops_once (bombs : List Id) (lay : MapLay) (v : Vec) (o : List Outcome) (hv : v.WF)
    (hfresh : (v.total ++ mapIns v.abs o).Nodup) :
    DropsOnce (vecMap bombs lay v o) v (mapIns v.abs o) := by
  have ⟨hs, hl⟩ := hv.slots_eq
  have heq := vecMap_eq bombs lay v v.abs o hs hl
  have key : ∀ (b : Bool) (newCap len : Nat),
      ((∃ a, (vecMapSpec b [] v.abs o).exit = .ret a) → len = (vecMapSpec b [] v.abs o).final.length) →
      (mapAfter v newCap len (vecMapSpec b [] v.abs o)).WF ∧
        (mapAfter v newCap len (vecMapSpec b [] v.abs o)).total.Perm (v.total ++ mapIns v.abs o) := by
    intro b newCap len hlen
    have hperm := vecMapSpec_perm b v.abs [] o
    have hpanic := vecMapSpec_final_panic b v.abs [] o
    generalize vecMapSpec b [] v.abs o = r at *
    have htot : (mapAfter v newCap len r).total.Perm (v.total ++ mapIns v.abs o) := by
      rw [hv.total_eq]
      unfold mapAfter
      cases hx : r.exit with
      | ret a =>
        simp only [Vec.total, idsOf_append, idsOf_I, idsOf_H, List.append_nil]
        rw [List.perm_iff_count] at hperm ⊢
        intro a; have := hperm a
        simp only [List.count_append, List.nil_append] at this ⊢; omega
      | panic d =>
        have hf := hpanic d hx
        simp only [Vec.total, idsOf]
        rw [hf] at hperm
        rw [List.perm_iff_count] at hperm ⊢
        intro a; have := hperm a
        simp only [List.count_append, List.nil_append, List.filterMap_nil, List.count_nil] at this ⊢; omega
    refine ⟨⟨?_, htot.nodup_iff.mpr hfresh⟩, htot⟩
    unfold mapAfter
    cases hx : r.exit with
    | ret a =>
      refine ⟨r.final, ?_, (hlen ⟨a, hx⟩).symm⟩
      simp only [Vec.cap, List.length_append, length_I, length_H]
      rw [hlen ⟨a, hx⟩]; congr 2; omega
    | panic d => exact ⟨[], by simp [Vec.cap], rfl⟩
  by_cases hip : lay.inPlace = true
  · simp only [hip, ↓reduceIte] at heq
    have ⟨h1, h2⟩ := key false (v.cap * lay.st / lay.su) v.len (fun h => by
      have := vecMapSpec_final false v.abs [] o h; simp at this; omega)
    exact ⟨_, heq, h1, h2⟩
  · simp only [hip, Bool.false_eq_true, ↓reduceIte] at heq
    have ⟨h1, h2⟩ := key true v.len _ (fun _ => rfl)
    exact ⟨_, heq, h1, h2⟩

/-- non-vacuity: `[1,2,3]` (capacity 4, 16-byte elements) mapped to 8-byte elements in place: capacity 8;
    and `f` panicking at its second call: the unread 3 and the result 7 are dropped, 1 and 2 went into `f` -/
example : vecMap [] { st := 16, su := 8 } (Vec.mk' [1, 2, 3] 1) [.ret 7, .ret 8, .ret 9] =
    .ok ⟨{ slots := I [7, 8, 9] ++ H 5, len := 3, escaped := [1, 2, 3] }, .ret (), []⟩ := by decide

example : vecMap [] { st := 16, su := 8 } (Vec.mk' [1, 2, 3] 1) [.ret 7, .panic] =
    .ok ⟨{ slots := [], len := 0, dropLog := [3, 7], escaped := [1, 2] }, .panic false, []⟩ := by decide

/-- the fallback (bigger `U`) drops in the other order: the new vector first, then the old iterator -/
example : vecMap [] { st := 16, su := 24 } (Vec.mk' [1, 2, 3] 1) [.ret 7, .panic] =
    .ok ⟨{ slots := [], len := 0, dropLog := [7, 3], escaped := [1, 2] }, .panic false, []⟩ := by decide

/-- the layout condition matters: the in-place loop on a BIGGER `U` would write `U` number 1 over the unread `T` number 1 -/
example : vecMapLoop [] { st := 8, su := 16 } 4 3 3 (setLen (Vec.mk' [1, 2, 3] 1) 0) 0 [] [.ret 7, .ret 8, .ret 9] =
    .error (.overwrite 1) := by decide

/-! ## histories (`Coll/Run.lean`): any finite sequence of modelled operations -/

/-- one step of a history, whatever the operation, its arguments and the behaviour of its callbacks -/
theorem step_drops_once (env : Env) (v : Vec) (op : Op) (hv : v.WF) (hfresh : (v.total ++ insOf env v op).Nodup) :
    ∃ v', stepVec env v op = .ok v' ∧ v'.WF ∧ v'.total.Perm (v.total ++ insOf env v op) := by
  have lift : ∀ {α : Type} {res : M (Out α)} {ins : List Id}, DropsOnce res v ins →
      ∃ v', res.map (·.vec) = .ok v' ∧ v'.WF ∧ v'.total.Perm (v.total ++ ins) := by
    intro α res ins h
    obtain ⟨r, hr, hwf, hp⟩ := h
    exact ⟨r.vec, by rw [hr]; rfl, hwf, hp⟩
  cases op with
  | retain o => exact lift (retain_drops_once env.bombs v o hv)
  | dedupBy o => exact lift (dedup_by_drops_once env.bombs v o hv)
  | dedupByKey o => exact lift (dedup_by_key_drops_once env.bombs v o hv)
  | truncate n => exact lift (truncate_drops_once env.bombs v n hv)
  | clear => exact lift (clear_drops_once env.bombs v hv)
  | pop => exact lift (pop_drops_once v hv)
  | popIf o => exact lift (pop_if_drops_once v o hv)
  | remove i => exact lift (remove_drops_once v i hv)
  | swapRemove i => exact lift (swap_remove_drops_once v i hv)
  | push id => exact lift (push_drops_once env v id hv hfresh)
  | insert i id => exact lift (insert_drops_once env v i id hv hfresh)
  | extendClone n o => exact lift (extend_from_slice_clone_drops_once env v n o hv hfresh)
  | extendWithin s e o => exact lift (extend_from_within_clone_drops_once env v s e o hv hfresh)
  | resize n value o => exact lift (resize_drops_once env v n value o hv hfresh)
  | resizeWith n o => exact lift (resize_with_drops_once env v n o hv hfresh)
  | drain s e script fin => exact lift (drain_drops_once env.bombs v s e script fin hv)
  | extractIf calls o => exact lift (extract_if_drops_once v calls o hv)
  | mapInPlace o => exact lift (map_in_place_drops_once env.bombs v o hv hfresh)

/-- HISTORY LEVEL: from a well-formed vector, EVERY finite sequence of modelled operations (any arguments,
    any callback behaviour incl. panics, any panicking destructors), given only that the ids it brings in
    are fresh, runs without a model fault (no read of a moved-out slot, no overwrite of a live value, no
    out-of-bounds access), ends in a well-formed vector, and everything that ever entered is accounted for
    exactly once: still stored, or dropped once, or handed to the caller -/
theorem history_drops_once (env : Env) (ops : List Op) : ∀ (v : Vec), v.WF → (v.total ++ insRun env v ops).Nodup →
    run env v ops = .ok (runD env v ops) ∧ (runD env v ops).WF ∧
      (runD env v ops).total.Perm (v.total ++ insRun env v ops) := by
  induction ops with
  | nil => intro v hv _; simp [run, runD, insRun, hv]
  | cons op ops ih =>
    intro v hv hfresh
    have hsub : (v.total ++ insOf env v op).Nodup := by
      simp only [insRun] at hfresh
      rw [← List.append_assoc] at hfresh
      exact (List.nodup_append.mp hfresh).1
    obtain ⟨v', hstep, hwf, hp⟩ := step_drops_once env v op hv hsub
    have hD : stepD env v op = v' := by simp [stepD, hstep]
    simp only [insRun, hstep, run, runD, hD] at hfresh ⊢
    rw [← List.append_assoc] at hfresh
    have hfresh' : (v'.total ++ insRun env v' ops).Nodup := by
      have hperm : (v'.total ++ insRun env v' ops).Perm ((v.total ++ insOf env v op) ++ insRun env v' ops) :=
        hp.append_right _
      exact hperm.nodup_iff.mpr hfresh
    obtain ⟨h1, h2, h3⟩ := ih v' hwf hfresh'
    refine ⟨h1, h2, ?_⟩
    rw [← List.append_assoc]
    exact h3.trans (hp.append_right _)

/-- no id is dropped twice along a history, and nothing dropped is still stored or was handed out -/
theorem history_never_drops_twice (env : Env) (ops : List Op) (v : Vec) (hv : v.WF)
    (hfresh : (v.total ++ insRun env v ops).Nodup) :
    (runD env v ops).dropLog.Nodup ∧
      ∀ id ∈ (runD env v ops).dropLog, id ∉ (runD env v ops).abs ∧ id ∉ (runD env v ops).escaped := by
  have hw := (history_drops_once env ops v hv hfresh).2.1
  generalize runD env v ops = w at hw
  have h := hw.2
  rw [hw.total_eq] at h
  have ⟨h1, h2, h3⟩ := List.nodup_append.mp h
  have ⟨h4, h5, h6⟩ := List.nodup_append.mp h1
  refine ⟨h5, fun id hid => ⟨fun hc => ?_, fun hc => ?_⟩⟩
  · exact h6 id hc id hid rfl
  · exact h3 id (by simp [hid]) id hc rfl

/-- non-vacuity: `[1,2,3]` in a full `BumpVec`, destructor of 2 panics: `push 4` (grows); `retain` keeps 1,
    removes 2 (its destructor panics, the guard closes the gap); `drain(0..2)` yields 1 and drops 3;
    `resize_with(4)` makes 7 and its closure panics at the second call.  Ends as `[4,7]`, 2 and 3 dropped
    once, 1 handed out; the ids brought in are 4 and 7 -/
example : run { bombs := [2], kind := .bump, capIn := 8 } (Vec.mk' [1, 2, 3] 0)
      [.push 4, .retain [.ret 1, .ret 0, .panic], .drain 0 2 [.front] .drop, .resizeWith 4 [.ret 7, .panic]] =
    .ok { slots := I [4, 7] ++ H 4, len := 2, dropLog := [2, 3], escaped := [1] } := by decide

example : insRun { bombs := [2], kind := .bump, capIn := 8 } (Vec.mk' [1, 2, 3] 0)
      [.push 4, .retain [.ret 1, .ret 0, .panic], .drain 0 2 [.front] .drop, .resizeWith 4 [.ret 7, .panic]] = [4, 7] := by
  decide

/-! ## zero-sized element types, by counts (`Coll/Zst.lean`)

  Values without identity: "exactly once" is the count identity
  `still owned + destructor calls + handed out` = the same before (`ZVec.total`). -/

/-- `drain(start..end)` of a vector of zero-sized values, `k` pulls, then the `Drain` is dropped or
    `keep_rest` is called — for EVERY position of a panicking `Drop` (also inside the `truncate` of
    `Drain::drop`): every value is still owned, or its destructor ran exactly once, or it was handed out;
    the vector keeps exactly the values outside the range (plus the un-yielded ones for `keep_rest`) -/
theorem zst_drain_exactly_once (v : Zst.ZVec) (start end_ k : Nat) (keep : Bool) (bomb : Option Nat)
    (hse : start ≤ end_) (hel : end_ ≤ v.len) :
    ∃ v' p, Zst.drain v start end_ k keep bomb = some (v', p) ∧ v'.total = v.total ∧
      v'.escaped = v.escaped + min k (end_ - start) ∧
      v'.len = v.len - (end_ - start) + (if keep then end_ - start - k else 0) ∧
      v'.drops = v.drops + (if keep then 0 else end_ - start - k) := by
  obtain ⟨v', p, h1, h2, h3, h4⟩ := Zst.drain_spec v start end_ k keep bomb hse hel
  refine ⟨v', p, h1, ?_, h2, h3, h4⟩
  simp only [Zst.ZVec.total, h2, h3, h4]
  cases keep <;> simp <;> omega

/-- the defect the harness found (before commits b2f61d6 / 0480075): with the original `Drop` the taken
    iterator was still alive and ran the destructors of the un-yielded values a second time —
    `drop(v.drain(1..4))` on 5 values makes 6 destructor calls for 3 values -/
example : Zst.drainOriginal { len := 5 } 1 4 0 none = some ({ len := 2, drops := 6 }, false) := by decide

/-- … and the repaired code makes 3, also when the first destructor call panics -/
example : Zst.drain { len := 5 } 1 4 0 false (some 0) = some ({ len := 2, drops := 3 }, true) := by decide

/-- `into_iter()` of zero-sized values, `k` pulls, drop of the iterator: nothing stays owned, every value
    was handed out or destructed once -/
theorem zst_into_iter_exactly_once (v : Zst.ZVec) (k : Nat) (bomb : Option Nat) :
    (Zst.intoIter v k bomb).1.len = 0 ∧ (Zst.intoIter v k bomb).1.total = v.total := by
  unfold Zst.intoIter
  have hp := Zst.pulls_spec k { v with len := 0 } { tailLen := 0, iterLen := v.len }
  obtain ⟨h1, h2, h3, h4, h5⟩ := hp
  simp only at h1 h2 h3 h4 h5
  constructor <;> simp only [Zst.dropN, Zst.ZVec.total, h1, h2, h4, h5] <;> omega

/-- `truncate` / dropping the owner of zero-sized values: one destructor call per value that goes away -/
theorem zst_truncate_exactly_once (v : Zst.ZVec) (n : Nat) (bomb : Option Nat) :
    (Zst.truncate v n bomb).1.total = v.total ∧ (Zst.truncate v n bomb).1.len = min n v.len := by
  have ⟨t1, t2, t3⟩ := Zst.truncate_spec v n bomb
  constructor
  · simp only [Zst.ZVec.total, t1, t2, t3]; omega
  · exact t1

theorem zst_drop_owner (v : Zst.ZVec) (bomb : Option Nat) (u : Bool) :
    (Zst.dropVec v bomb u).1.len = 0 ∧ (Zst.dropVec v bomb u).1.drops = v.drops + v.len := by
  simp [Zst.dropVec, Zst.dropN]

/-- non-vacuity (reverse vector): `[1,2,3]` at the end of a 5-slot buffer; `truncate(1)` with a panicking
    `Drop` of id 1 still drops 1 and 2 (front to back) and keeps 3 -/
example : rtruncate [1] { slots := H 2 ++ I [1, 2, 3], len := 3 } 1 =
    .ok ⟨{ slots := H 4 ++ I [3], len := 1, dropLog := [1, 2] }, .panic true, []⟩ := by decide

example : ({ slots := H 2 ++ I [1, 2, 3], len := 3 } : Vec).RWF := ⟨⟨[1, 2, 3], by decide, by decide⟩, by decide⟩

/-- non-vacuity: a well-formed vector `[1,2,3,4,5]` with one spare slot; the predicate keeps 1, removes 2,
    keeps 3 and panics on 4: the vector is `[1,3,4,5]`, `2` was dropped once -/
example : retain [] (Vec.mk' [1, 2, 3, 4, 5] 1) [.ret 1, .ret 0, .ret 1, .panic] =
    .ok ⟨{ slots := I [1, 3, 4, 5] ++ H 2, len := 4, dropLog := [2] }, .panic false, []⟩ := by decide

example : (Vec.mk' [1, 2, 3, 4, 5] 1).WF := by
  refine ⟨⟨[1, 2, 3, 4, 5], by decide, by decide⟩, by decide⟩

/-- a `Drop` that panics inside `retain` (id 2 is a bomb): the guard closes the gap, nothing is lost -/
example : retain [2] (Vec.mk' [1, 2, 3] 0) [.ret 1, .ret 0, .ret 1] =
    .ok ⟨{ slots := I [1, 3] ++ H 1, len := 2, dropLog := [2] }, .panic true, [.ret 1]⟩ := by decide

/-- `extend_from_within_clone` of zero-sized values with a `Clone` that panics at any call: the vector grows by
    exactly the clones that were made, NO destructor runs (the prototype is not a value), nothing else changes —
    created = still owned -/
theorem zst_extend_from_within_clone_exactly_once (v : Zst.ZVec) (count : Nat) (panicAt : Option Nat) :
    (Zst.extendWithinClone v count panicAt).1.len = v.len + (Zst.extendWithinClone v count panicAt).2.1 ∧
      (Zst.extendWithinClone v count panicAt).1.drops = v.drops ∧
      (Zst.extendWithinClone v count panicAt).1.escaped = v.escaped ∧
      (Zst.extendWithinClone v count panicAt).2.1 ≤ count ∧
      ((Zst.extendWithinClone v count panicAt).2.2 = false → (Zst.extendWithinClone v count panicAt).2.1 = count) := by
  unfold Zst.extendWithinClone
  cases panicAt with
  | none => simp
  | some k => by_cases h : k < count <;> simp [h] <;> omega

/-- … while the unguarded prototype costs one destructor call too many exactly when a clone panics -/
example : (Zst.extendWithinClone { len := 3 } 3 (some 1)).1 = { len := 4 } ∧
    (Zst.extendWithinCloneUnguarded { len := 3 } 3 (some 1)).1 = { len := 4, drops := 1 } := by decide

end C06
