/-
  Props/C06.lean — property C06: every value stored in a bump collection is dropped exactly once,
  also when a user callback (closure, predicate, `Clone`, `Drop`) panics in the middle of an operation.

  Model: `Coll/Prim.lean` (slots `init id | hole`, ghost `dropLog` / `escaped`; reading, dropping or
  handing out a `hole` and overwriting a live value are FAULTS), `Coll/Slice.lean` … (the algorithms
  with the cursors and drop guards of the Rust code).  Each theorem below is about ONE algorithm
  and quantifies over every well-formed vector (any length, any spare capacity, any ids), every
  argument, every oracle list (return values and a panic at any invocation) and every set `bombs`
  of ids whose `Drop` panics.  Shape of every statement (`DropsOnce`):

    * the model does not fault  (no `hole` is read or dropped: no use-after-move, no double drop;
      no live value is overwritten; no out-of-bounds access);
    * afterwards the vector is well-formed: `len ≤ cap`, the first `len` slots are initialised, the
      spare ones are holes, and `ids(buffer) ++ dropLog ++ escaped` has NO DUPLICATES — nothing was
      dropped twice, nothing that was dropped or handed out is still owned;
    * conservation: `ids(buffer) ++ dropLog ++ escaped` afterwards is a permutation of the same list
      before plus the ids inserted by the operation — nothing is lost, EVEN when the panic came out
      of a `Drop` (the model proves more than the property asks for);
  `drop_owner` closes the argument: dropping a well-formed owner drops exactly its contents.
-/
import BumpProof.Coll.Spec
import BumpProof.Lemmas.CollWF
import BumpProof.Lemmas.CollRetain

namespace C06
open Coll

/-- the statement shape described in the header; `ins` = ids the operation inserted -/
def DropsOnce {α : Type} (res : M (Out α)) (v : Vec) (ins : List Id) : Prop :=
  ∃ r, res = .ok r ∧ r.vec.WF ∧ r.vec.total.Perm (v.total ++ ins)

/-- what `DropsOnce` gives in plain words -/
theorem DropsOnce.spelled_out {α : Type} {res : M (Out α)} {v : Vec} {ins : List Id} (h : DropsOnce res v ins) :
    ∃ r, res = .ok r ∧
      r.vec.dropLog.Nodup ∧                                      -- no value dropped twice
      (∀ id ∈ r.vec.abs, id ∉ r.vec.dropLog ∧ id ∉ r.vec.escaped) ∧  -- what is still owned was not dropped / given away
      (∀ id ∈ r.vec.dropLog, id ∉ r.vec.escaped) ∧               -- what was given away was not dropped by the vector
      (∀ id, id ∈ v.total ++ ins ↔ id ∈ r.vec.abs ++ r.vec.dropLog ++ r.vec.escaped) ∧  -- nothing lost, nothing invented
      r.vec.len ≤ r.vec.cap := by
  obtain ⟨r, hr, hwf, hp⟩ := h
  refine ⟨r, hr, ?_, ?_, ?_, ?_, hwf.len_le_cap⟩
  · have := hwf.2; rw [hwf.total_eq] at this
    exact (List.nodup_append.mp (List.nodup_append.mp this).1).2.1
  · intro id hid
    have := hwf.2; rw [hwf.total_eq] at this
    have h1 := List.nodup_append.mp this
    have h2 := List.nodup_append.mp h1.1
    exact ⟨fun hd => h2.2.2 id hid id hd rfl, fun he => h1.2.2 id (List.mem_append_left _ hid) id he rfl⟩
  · intro id hid he
    have := hwf.2; rw [hwf.total_eq] at this
    exact (List.nodup_append.mp this).2.2 id (List.mem_append_right _ hid) id he rfl
  · intro id
    rw [← hwf.total_eq]
    exact (hp.mem_iff).symm

/-- dropping a well-formed owner (`Drop for BumpBox<[T]>`, `BumpVec::drop_inner` → `clear`) drops
    exactly the values it still holds, each once, front to back, also if one of the drops panics -/
theorem drop_owner (bombs : List Id) (u : Bool) (v : Vec) (hv : v.WF) :
    dropVec bombs u v =
      .ok ⟨{ v with slots := H v.cap, len := 0, dropLog := v.dropLog ++ v.abs },
           if (!u && v.abs.any bombs.contains) then .panic true else .ret (), []⟩ := by
  have ⟨hs, hl⟩ := hv.slots_eq
  unfold dropVec
  have h := dropRange_seg bombs v.abs u (setLen v 0) [] (H (v.cap - v.len)) 0 (by simpa [setLen] using hs) rfl
  rw [← hl, h]
  simp only [setLen, List.nil_append]
  congr 3
  rw [← H_add]
  congr 1
  have := hv.len_le_cap
  omega

/-! ## `retain` (`BumpBox<[T]>::retain`, used by all vector types) -/

theorem retain_drops_once (bombs : List Id) (v : Vec) (o : List Outcome) (hv : v.WF) :
    DropsOnce (retain bombs v o) v [] := by
  have ⟨hs, hl⟩ := hv.slots_eq
  refine ⟨_, retain_eq bombs v v.abs o hs hl, ?_⟩
  have hle : (retainSpec bombs v.abs o).final.length ≤ v.cap := by
    have := retainTail_length_le bombs [] v.abs o
    have := hv.len_le_cap
    simp [retainSpec] at *; omega
  have := after_WF v (retainSpec bombs v.abs o) [] hv
    (by simpa [retainSpec, retainTail_escaped] using retainTail_perm bombs v.abs [] o) hle (by simpa using hv.2)
  simpa using this

/-- non-vacuity: a well-formed vector `[1,2,3,4,5]` with one spare slot; the predicate keeps 1, removes 2,
    keeps 3 and panics on 4: the vector is `[1,3,4,5]`, `2` was dropped once -/
example : retain [] (Vec.mk' [1, 2, 3, 4, 5] 1) [.ret 1, .ret 0, .ret 1, .panic] =
    .ok ⟨{ slots := I [1, 3, 4, 5] ++ H 2, len := 4, dropLog := [2] }, .panic false, []⟩ := by decide

example : (Vec.mk' [1, 2, 3, 4, 5] 1).WF := by
  refine ⟨⟨[1, 2, 3, 4, 5], by decide, by decide⟩, by decide⟩

/-- a `Drop` that panics inside `retain` (id 2 is a bomb): the guard closes the gap, nothing is lost -/
example : retain [2] (Vec.mk' [1, 2, 3] 0) [.ret 1, .ret 0, .ret 1] =
    .ok ⟨{ slots := I [1, 3] ++ H 1, len := 2, dropLog := [2] }, .panic true, [.ret 1]⟩ := by decide

end C06
