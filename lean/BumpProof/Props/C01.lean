/-
  Props/C01.lean — property C01: live allocations are valid, aligned and pairwise disjoint.

  Part 1: what the fast path `tryCur` (`RawChunk::alloc / prepare_allocation /
          prepare_allocation_range`) returns, from the C11 theorems about the generated bump arithmetic.
  Part 2: the invariant `LiveOK` on the ghost list of live blocks and its preservation by
          `stepCore`'s `.allocate` (fast path, next chunk, new chunk, refused), `.deallocate`
          and `.scopeExit`.
  What is not proved is recorded as `…_target` definitions at the end.

  Definitions (namespace `Arena.Mem`, in `Lemmas/MemTry.lean`, `MemLive.lean`, `MemSlow.lean`):
  * `Carved cfg c p size np`     : `[p, p+size)` is cut from the free side of chunk `c`, whose bump
                                   position moves from `c.pos` to `np`
                                   (up: `c.pos ≤ p ∧ p+size ≤ np ≤ contentEnd`; down:
                                   `contentStart ≤ p = np ∧ p+size ≤ c.pos`);
  * `InContent`, `OnAllocatedSide`, `Placed`, `BlocksDisjoint`, `RangesDisjoint`, `LiveOK`;
  * `CurPosOK cfg s`             : the position of the current chunk lies in its content range;
  * `MinAlignOK s`               : `s.minAlign ∈ {1,2,4,8,16}`;
  * `SlowTry cfg s t i' ct`      : `t` is the state on which the slow path finally calls `tryCur`
                                   (chunk `i'` = a later chunk of `s`, reset, or the chunk just granted);
  * `MemWF`, `HeadFresh`         : see `Props/C02.lean`.
-/
import BumpProof.Lemmas.MemExLive

set_option linter.unusedSimpArgs false

namespace C01
open Arena Arena.Mem Rs

/-! ## Part 1: the fast path -/

/-- `RawChunk::alloc` on the current chunk: the address satisfies the requested alignment, the block
    lies inside the OLD free range of the current chunk (so it cannot touch anything handed out
    before), the new position is `minAlign`-aligned and only that chunk's position changes.
    In particular no block is ever cut from the dummy chunk of an unallocated / claimed arena. -/
theorem tryCur_alloc {cfg : Cfg} {s s' : State} {L : Layout} {h : Hints} {p x : Nat}
    (hv : C11.Valid cfg.up (bumpProps cfg s L h))
    (hr : tryCur cfg .alloc s L h = .ok (some ((p, x), s'))) :
    ∃ i c np, s.cur = .chunk i ∧ s.chunks[i]? = some c ∧ L.align ∣ p ∧ s.minAlign ∣ np ∧
      Carved cfg c p L.size np ∧ s' = setPos s i np :=
  tryCur_alloc_carved hv hr

/-- corollary: the new block shares no byte with anything on the allocated side of the old position -/
theorem carved_disjoint_allocated {cfg : Cfg} {c : Chunk} {p size np : Nat} (hcv : Carved cfg c p size np)
    {addr sz : Nat} (hside : OnAllocatedSide cfg c addr sz) : RangesDisjoint addr sz p size := by
  unfold Carved at hcv
  unfold OnAllocatedSide at hside
  unfold RangesDisjoint
  split at hcv <;> simp_all <;> omega

/-- corollary: the new block lies in the content range of the chunk (never in its header), given that
    the old position did -/
theorem carved_in_content {cfg : Cfg} {c : Chunk} {p size np : Nat} (hcv : Carved cfg c p size np)
    (hpos : c.contentStart cfg ≤ c.pos ∧ c.pos ≤ c.contentEnd cfg) : InContent cfg c p size := by
  unfold Carved at hcv
  unfold InContent
  split at hcv <;> omega

/-- `prepare_allocation`: same block as `alloc`, state untouched -/
theorem tryCur_prepare {cfg : Cfg} {s s' : State} {L : Layout} {h : Hints} {p x : Nat}
    (hv : C11.Valid cfg.up (bumpProps cfg s L h))
    (hr : tryCur cfg .prepare s L h = .ok (some ((p, x), s'))) :
    s' = s ∧ ∃ i c np, s.cur = .chunk i ∧ s.chunks[i]? = some c ∧ L.align ∣ p ∧ s.minAlign ∣ np ∧
      Carved cfg c p L.size np :=
  tryCur_prepare_carved hv hr

/-- `prepare_allocation_range`: a range with aligned ends inside the free range of the current chunk,
    at least as long as requested; state untouched -/
theorem tryCur_range {cfg : Cfg} {s s' : State} {L : Layout} {h : Hints} {a b : Nat}
    (hv : C11.Valid cfg.up (bumpProps cfg s L h)) (hsz : L.align ∣ L.size)
    (hr : tryCur cfg .range s L h = .ok (some ((a, b), s'))) :
    s' = s ∧ ∃ i c, s.cur = .chunk i ∧ s.chunks[i]? = some c ∧ L.align ∣ a ∧ L.align ∣ b ∧ a + L.size ≤ b ∧
      (if cfg.up then c.pos ≤ a ∧ b ≤ c.contentEnd cfg else c.contentStart cfg ≤ a ∧ b ≤ c.pos) :=
  tryCur_range_inside hv hsz hr

/-! ## Part 2: `LiveOK` and its preservation -/

/-- what `LiveOK` says, spelled out -/
theorem liveOK_iff (cfg : Cfg) (s : State) :
    LiveOK cfg s ↔
      (∀ b ∈ s.live, b.align ∣ b.addr) ∧
      (∀ b ∈ s.live, 0 < b.size → ∃ i j c, s.cur = .chunk i ∧ j ≤ i ∧ s.chunks[j]? = some c ∧
          (c.contentStart cfg ≤ b.addr ∧ b.addr + b.size ≤ c.contentEnd cfg) ∧
          (j = i → if cfg.up then b.addr + b.size ≤ c.pos else c.pos ≤ b.addr)) ∧
      s.live.Pairwise (fun a b => a.size = 0 ∨ b.size = 0 ∨ a.addr + a.size ≤ b.addr ∨ b.addr + b.size ≤ a.addr) :=
  ⟨fun h => ⟨h.aligned, h.placed, h.disjoint⟩, fun h => ⟨h.1, h.2.1, h.2.2⟩⟩

/-- every non-empty live block lies inside memory the arena owns (a chunk of the list) -/
theorem liveOK_block_in_chunk {cfg : Cfg} {s : State} (h : LiveOK cfg s) {b : Block} (hb : b ∈ s.live)
    (hs : 0 < b.size) : BlockInChunks s b.addr (b.addr + b.size) := by
  obtain ⟨i, j, c, _, _, hc, hin, _⟩ := h.placed b hb hs
  have := inContent_in_chunk hin
  exact ⟨c, List.mem_of_getElem? hc, this.1, this.2⟩

/-- fast-path allocation: the state `tryCur` returns plus the new block satisfy `LiveOK` -/
theorem allocate_fast_outcome {cfg : Cfg} {s s' : State} {L : Layout} {h : Hints} {p x : Nat}
    (hl : LiveOK cfg s) (hd : ChunksDisjoint s.chunks) (hp : CurPosOK cfg s)
    (hv : C11.Valid cfg.up (bumpProps cfg s L h))
    (hr : tryCur cfg .alloc s L h = .ok (some ((p, x), s'))) (init : Nat) :
    LiveOK cfg (addBlock s' p L.size L.align init).1 :=
  liveOK_tryCur_alloc hl hd hp hv hr init

/-- slow path, step 1 (no arithmetic involved): a successful `inAnotherChunk` ends with a successful
    `tryCur` on a state `t` in which a later chunk of `s` (reset) or the freshly granted chunk is current -/
theorem slow_path_inv {cfg : Cfg} {k : Kind} {s s' : State} {L : Layout} {h : Hints} {v : Nat × Nat}
    (hr : inAnotherChunk cfg k s L h = .ok (s', .ok v)) :
    ∃ t i' ct, SlowTry cfg s t i' ct ∧ tryCur cfg k t L h = .ok (some (v, s')) :=
  inAnotherChunk_inv hr

/-- slow path, step 2: the block cut from that chunk is aligned, placed and disjoint from every live
    block (they all lie in earlier chunks, and chunk ranges are disjoint) -/
theorem slow_path_outcome {cfg : Cfg} {s t s' : State} {i' : Nat} {ct : Chunk} {L : Layout} {h : Hints} {p x : Nat}
    (hl : LiveOK cfg s) (hwf : MemWF s) (hfr : HeadFresh s)
    (hst : SlowTry cfg s t i' ct) (hv : C11.Valid cfg.up (bumpProps cfg t L h))
    (hr : tryCur cfg .alloc t L h = .ok (some ((p, x), s'))) (init : Nat) :
    LiveOK cfg (addBlock s' p L.size L.align init).1 :=
  let ⟨ho, hal⟩ := allocOutcome_slow hl hwf hfr hst hv hr
  ho.addBlock hal init

/-- `stepCore`'s `.allocate` (`Allocator::allocate / allocate_zeroed` through any wrapper), whichever
    path serves it — fast path, a later chunk, a new chunk — or when it is refused, keeps `LiveOK`.
    `hv` / `hvslow`: the bump requests made are valid inputs in the sense of C11. -/
theorem stepCore_allocate {cfg : Cfg} {g g' : GState} {L : Layout} {zeroed : Bool} {via : Via} {out : Out}
    (hl : LiveOK cfg g.s) (hwf : MemWF g.s) (hfr : HeadFresh g.s) (hp : CurPosOK cfg g.s)
    (hv : C11.Valid cfg.up (bumpProps cfg g.s L Hints.custom))
    (hvslow : ∀ t i' ct, SlowTry cfg g.s t i' ct → C11.Valid cfg.up (bumpProps cfg t L Hints.custom))
    (h : stepCore cfg g (.allocate L zeroed via) = .ok (g', out)) : LiveOK cfg g'.s :=
  stepCore_allocate_liveOK hl hwf hfr hp hv hvslow h

/-- the same restricted to the fast path (no hypothesis about the base allocator or other chunks' bump
    requests needed) -/
theorem stepCore_allocate_fast {cfg : Cfg} {g g' : GState} {L : Layout} {zeroed : Bool} {via : Via} {out : Out}
    {r : (Nat × Nat) × State}
    (hl : LiveOK cfg g.s) (hd : ChunksDisjoint g.s.chunks) (hp : CurPosOK cfg g.s)
    (hv : C11.Valid cfg.up (bumpProps cfg g.s L Hints.custom))
    (hfast : tryCur cfg .alloc g.s L Hints.custom = .ok (some r))
    (h : stepCore cfg g (.allocate L zeroed via) = .ok (g', out)) : LiveOK cfg g'.s :=
  stepCore_allocate_fast_liveOK hl hd hp hv hfast h

/-- the block `stepCore`'s `.allocate` reports is at least as large as requested (exactly), aligned,
    and is the newest live block -/
theorem stepCore_allocate_block {cfg : Cfg} {g g' : GState} {L : Layout} {zeroed : Bool} {via : Via}
    {id addr size : Nat}
    (h : stepCore cfg g (.allocate L zeroed via) = .ok (g', .block id addr size)) :
    size = L.size ∧ ∃ b ∈ g'.s.live, b.id = id ∧ b.addr = addr ∧ b.size = L.size ∧ b.align = L.align := by
  unfold stepCore at h
  simp only [bind, Except.bind, pure, Except.pure] at h
  repeat' split at h
  all_goals first | (cases h; done) | (cases h)
  all_goals exact ⟨rfl, _, List.mem_append_right _ (List.mem_singleton.mpr rfl), rfl, rfl, rfl, rfl⟩

/-- `stepCore`'s `.deallocate` (through any wrapper, also when it is a no-op for the arena) keeps
    `LiveOK`: when the position moves back over the removed block, all others stay on the allocated side -/
theorem stepCore_deallocate {cfg : Cfg} {g g' : GState} {b : Nat} {via : Via} {out : Out}
    (hl : LiveOK cfg g.s) (hma : MinAlignOK g.s)
    (h : stepCore cfg g (.deallocate b via) = .ok (g', out)) : LiveOK cfg g'.s :=
  stepCore_deallocate_liveOK hl hma h

/-- `stepCore`'s `.scopeExit` keeps `LiveOK`, provided the blocks older than the scope were placed
    relative to the scope's checkpoint (`PlacedAt`; this is what entering the scope recorded) -/
theorem stepCore_scopeExit {cfg : Cfg} {g g' : GState} {out : Out}
    (hl : LiveOK cfg g.s) (hma : MinAlignOK g.s)
    (hcp : ∀ cp rest m ms, g.s.frames = .scope cp :: rest → g.marks = m :: ms →
      ∀ b ∈ g.s.live, b.id < m → 0 < b.size → PlacedAt cfg g.s cp b.addr b.size)
    (h : stepCore cfg g .scopeExit = .ok (g', out)) : LiveOK cfg g'.s :=
  stepCore_scopeExit_liveOK hl hma hcp h

/-- `reset_to` + dropping the younger blocks (the core of scope exit, `reset_to` and the error path of
    `alloc_try_with`) -/
theorem resetTo_killFrom {cfg : Cfg} {s s' : State} {cp : Checkpoint} {m : Nat}
    (hl : LiveOK cfg s) (hma : MinAlignOK s)
    (hcp : ∀ b ∈ s.live, b.id < m → 0 < b.size → PlacedAt cfg s cp b.addr b.size)
    (h : resetTo cfg s cp = .ok s') : LiveOK cfg (killFrom s' m) :=
  liveOK_resetTo_killFrom hl hma hcp h

/-- entering a scope records a checkpoint relative to which every live block is placed -/
theorem checkpoint_placedAt {cfg : Cfg} {s : State} (hl : LiveOK cfg s) {b : Block} (hb : b ∈ s.live)
    (hs : 0 < b.size) : PlacedAt cfg s (checkpoint cfg s) b.addr b.size := by
  obtain ⟨i, j, c, h1, h2, h3, h4, h5⟩ := hl.placed b hb hs
  refine ⟨i, j, c, h1, h2, h3, h4, fun hji => ?_⟩
  subst hji
  have := h5 rfl
  unfold OnAllocatedSide at this
  have hcp : (checkpoint cfg s).addr = c.pos := curPos_chunk h1 h3
  rw [hcp]; exact this

/-- `stepCore`'s `.allocLayout` (`try_alloc_layout / _sized / _slice`: fast path with the layout's
    hints, slow path with a plain layout) keeps `LiveOK` -/
theorem stepCore_allocLayout {cfg : Cfg} {g g' : GState} {L : Layout} {h : Hints} {out : Out}
    (hl : LiveOK cfg g.s) (hwf : MemWF g.s) (hfr : HeadFresh g.s) (hp : CurPosOK cfg g.s)
    (hv : C11.Valid cfg.up (bumpProps cfg g.s L h))
    (hvslow : ∀ t i' ct, SlowTry cfg g.s t i' ct → C11.Valid cfg.up (bumpProps cfg t L Hints.custom))
    (hstep : stepCore cfg g (.allocLayout L h) = .ok (g', out)) : LiveOK cfg g'.s :=
  stepCore_allocLayout_liveOK hl hwf hfr hp hv hvslow hstep

/-! ## Summary theorem (partial) and the full target -/

/-- the bump requests an operation makes are valid inputs in the sense of C11 (`debug_assert_valid`
    holds): on the current state for the fast path, on every possible slow-path state for the slow path -/
def BumpReqsValid (cfg : Cfg) (s : State) : Op → Prop
  | .allocate L _ _ => C11.Valid cfg.up (bumpProps cfg s L Hints.custom) ∧
      ∀ t i' ct, SlowTry cfg s t i' ct → C11.Valid cfg.up (bumpProps cfg t L Hints.custom)
  | .allocLayout L h => C11.Valid cfg.up (bumpProps cfg s L h) ∧
      ∀ t i' ct, SlowTry cfg s t i' ct → C11.Valid cfg.up (bumpProps cfg t L Hints.custom)
  | _ => True

/-- the operations for which preservation of `LiveOK` is proved -/
inductive Covered : Op → Prop
  | allocate (L z via) : Covered (.allocate L z via)
  | allocLayout (L h) : Covered (.allocLayout L h)
  | deallocate (b via) : Covered (.deallocate b via)
  | scopeExit : Covered .scopeExit

/-- every open scope's checkpoint bounds the blocks older than the scope -/
def ScopeTopPlaced (cfg : Cfg) (g : GState) : Prop :=
  ∀ cp rest m ms, g.s.frames = .scope cp :: rest → g.marks = m :: ms →
    ∀ b ∈ g.s.live, b.id < m → 0 < b.size → PlacedAt cfg g.s cp b.addr b.size

/-- PARTIAL: `LiveOK` is preserved by allocate / allocate_zeroed / the typed alloc fast paths /
    deallocate / scope exit, through every wrapper, on every path (fast, next chunk, new chunk, refused).
    FULL FORM (all 34 constructors, side conditions discharged by the invariant of histories):
    `C01.stepCore_preserves_liveOK` in Props/Targets.lean; for histories `C01.reachable_liveOK` (Props/Hist.lean). -/
theorem stepCore_preserves_liveOK_partial {cfg : Cfg} {g g' : GState} {op : Op} {out : Out}
    (hop : Covered op)
    (hl : LiveOK cfg g.s) (hwf : MemWF g.s) (hfr : HeadFresh g.s) (hp : CurPosOK cfg g.s)
    (hma : MinAlignOK g.s) (hsc : ScopeTopPlaced cfg g) (hv : BumpReqsValid cfg g.s op)
    (h : stepCore cfg g op = .ok (g', out)) : LiveOK cfg g'.s := by
  cases hop with
  | allocate L z via => exact stepCore_allocate hl hwf hfr hp hv.1 hv.2 h
  | allocLayout L hh => exact stepCore_allocLayout hl hwf hfr hp hv.1 hv.2 h
  | deallocate b via => exact stepCore_deallocate hl hma h
  | scopeExit => exact stepCore_scopeExit hl hma hsc h

/-- RESOLUTION (Props/Targets.lean): NOT resolved as stated (case C) — `C01.liveOK_invariant_corrected` proves the
    statement with `Arena.Hist.Inv` as witness for admissible configurations (`CfgOK`), covered operations and
    `RespsSane` responses below `2^63`; the statement below also quantifies over configurations outside `CfgOK`,
    for which no preservation proof exists (no counterexample is known either).  History form: `C01.reachable_liveOK`.
    TARGET (NOT PROVED): C01 for all histories — there is an inductive invariant of the model that
    implies `LiveOK`, holds initially and is preserved by every step that does not fault and whose
    base-allocator responses are sane.
    Proved so far: `stepCore_preserves_liveOK_partial` (4 of the operations, with the geometric side
    conditions `MemWF`, `CurPosOK`, `MinAlignOK`, `ScopeTopPlaced`, `BumpReqsValid` as hypotheses).
    Missing: (1) `LiveOK` for `.grow`, `.shrink`, `.shrinkSlice`, `.commit`, `.commitSlice`,
    `.allocTryWith`, `.resetTo`, `.reset`, `.resetToStart`, `.split`, `.scopedAlignedExit`, `.onClaimed …`,
    `.withSettings`, `.alignedEnter/Exit`; (2) that the side conditions are themselves invariant (the
    geometry invariant of `Arena/Inv.lean`) and imply `BumpReqsValid`; (3) that `ScopeTopPlaced`
    extends to all open scopes / user checkpoints and is re-established by `.scopeEnter` /
    `.checkpoint` (`checkpoint_placedAt` is the entering half). -/
def liveOK_invariant_target : Prop :=
  ∃ Inv : Cfg → GState → Prop,
    (∀ cfg g, Inv cfg g → LiveOK cfg g.s) ∧
    (∀ cfg, Inv cfg { s := initState cfg, marks := [] }) ∧
    (∀ cfg g op resps g' out reqs, Inv cfg g → RespsSane cfg g.s resps →
      step cfg g op resps = .ok (g', out, reqs) → Inv cfg g')

/-! ## Non-vacuity: concrete states / inputs meeting the hypotheses (see `Lemmas/MemEx.lean`) -/

section NonVacuity
open Arena.Mem.Ex

-- Part 1: a valid bump request on which the three fast paths succeed
example : C11.Valid cfgUp.up (bumpProps cfgUp stUp L8 Hints.custom) := exValidUp
example : ∃ r, tryCur cfgUp .alloc stUp L8 Hints.custom = .ok (some r) := ⟨_, rfl⟩
example : ∃ r, tryCur cfgUp .prepare stUp L8 Hints.custom = .ok (some r) := ⟨_, rfl⟩
example : L8.align ∣ L8.size ∧ ∃ r, tryCur cfgUp .range stUp L8 Hints.custom = .ok (some r) := ⟨by decide, _, rfl⟩
example : CurPosOK cfgUp stUp ∧ ChunksDisjoint stUp.chunks := ⟨stUp_curPosOK, stUp_wf.1⟩

example : ∃ g' out, stepCore cfgUp { s := stUp, marks := [] } (.allocate L8 true .plain) = .ok (g', out) := ⟨_, _, rfl⟩
example : ∃ g' out, stepCore cfgUp { s := stUp, marks := [] } (.deallocate 0 .plain) = .ok (g', out) := ⟨_, _, rfl⟩
example : MinAlignOK stUp := .inl rfl

set_option maxRecDepth 100000 in
example : ∃ g' out, stepCore cfgUp { s := stUpR, marks := [] } (.allocate L200 false .plain) = .ok (g', out) :=
  ⟨_, _, rfl⟩

example : ∃ g' out, stepCore cfgUp gScope .scopeExit = .ok (g', out) := ⟨_, _, rfl⟩

example : MinAlignOK stDown := .inl rfl
example : ∃ g' out, stepCore cfgDown { s := stDown, marks := [] } (.deallocate 0 .plain) = .ok (g', out) :=
  ⟨_, _, rfl⟩

-- all hypotheses of `stepCore_preserves_liveOK_partial` / `stepCore_allocate` hold together:
example : LiveOK cfgUp stUp ∧ MemWF stUp ∧ HeadFresh stUp ∧ CurPosOK cfgUp stUp ∧ MinAlignOK stUp ∧
    BumpReqsValid cfgUp stUp (.allocate L8 true .plain) :=
  ⟨stUp_liveOK, stUp_wf, stUp_fresh, stUp_curPosOK, .inl rfl, exValidUp, stUp_noSlow⟩
-- … and for an allocation that needs a new chunk from the base allocator:
example : LiveOK cfgUp stUpR ∧ MemWF stUpR ∧ HeadFresh stUpR ∧ CurPosOK cfgUp stUpR ∧ MinAlignOK stUpR ∧
    BumpReqsValid cfgUp stUpR (.allocate L200 false .plain) :=
  ⟨stUpR_liveOK, stUpR_wf, stUpR_fresh, stUpR_curPosOK, .inl rfl, exValidUpR, stUpR_slowValid⟩
-- … and for the scope exit:
example : LiveOK cfgUp gScope.s ∧ MinAlignOK gScope.s ∧ ScopeTopPlaced cfgUp gScope :=
  ⟨LiveOK.of_geom (s := stUp) rfl rfl rfl stUp_liveOK, .inl rfl, gScope_placedAt⟩

end NonVacuity

end C01
