/-
  Props/C04.lean — references into a scope cannot outlive it in safe code (partial: rustc trusted).
-/
import BumpProof.Life.SigOK
import BumpProof.Gen.Sigs

namespace C04
open Life

/-- recorded deviation C04-a (known_findings.json): the `&'a mut Bump` implementor of `BumpAllocatorCoreScope<'a>` -/
def knownDeviations : List ImplTy := [.refMutBump]

/-- the extracted table without the recorded deviations -/
def table : Table :=
  { Gen.Sigs.table with scopeImpls := Gen.Sigs.table.scopeImpls.filter (fun i => !knownDeviations.contains i.ty) }

/-- every extracted signature, `BumpAllocatorCoreScope` implementor (minus C04-a), settings assertion and
    auto-trait impl is adequate for what the method / type does at run time -/
theorem sigs_ok : sigOK table = true := by decide

/-- … and C04-a is exactly what is missing: the table as extracted is not adequate -/
theorem extracted_table_has_deviation : sigOK Gen.Sigs.table = false := by decide

end C04
