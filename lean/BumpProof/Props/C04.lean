/-
  Props/C04.lean — references into a scope cannot outlive it in safe code; weakening settings conversions
  are rejected at compile time.

  PARTIAL (rustc trusted): what is proved here is about the region calculus of `Life/Calculus.lean`
  (see its header for the program shapes it covers) and about the signature table `Gen/Sigs.lean`
  that is re-extracted from the Rust sources on every run:

    sigs_ok            the extracted table (minus the recorded deviation C04-a) satisfies the decidable
                       adequacy predicate `sigOK`
    sound              for EVERY table that satisfies `sigOK`, every program the calculus' type checker
                       accepts runs without any fault: no value is used after its memory epoch ended,
                       no handle is used after its arena was dropped, nothing crosses a thread boundary
                       with a base allocator that is not `Send`/`Sync` (induction over the program,
                       invariant in `Lemmas/LifeInv.lean`)
    sound_partial      … in particular for the extracted table
    sound_target_fails the same statement for the table AS EXTRACTED is false: C04-a
                       (`impl BumpAllocatorCoreScope<'a> for &'a mut Bump`) admits a well-typed program
                       that reads a value after `reset` — the Lean image of the known finding
    convs_tied         every extracted conversion between lifetime-carrying values (`From`, the accessors of Stats / Chunk /
                       AnyStats / AnyChunk, iterator items, `AsRef`/`Borrow`/`Deref`, `from_parts`) names only lifetimes of
                       its input on its output (part of `sigOK`; broken by `impl From<Stats<'_,…>> for AnyStats<'_>`)
    conversion_keeps_region / converted_invalidated_with_source
                       with that condition the output of a conversion carries exactly the region of its source, so
                       whatever invalidates the source (the end of its arena's epoch) invalidates the output;
                       `sound` covers the `vconv` / `join` statements
    untied_from_unsound / untied_from_parts_unsound
                       without it (one fresh output lifetime) a well-typed program reads freed memory
    hand_impls_ok      every hand-written `unsafe impl Send/Sync` in the crate requires the auto trait of every type parameter
                       the type stores a value of (table level only: these types are not objects of the calculus)
    conversions_do_not_weaken   a settings conversion that passes the extracted const assertions keeps the
                       direction, does not lower the minimum alignment on a borrow or on a scope, does not
                       upgrade guaranteed-allocated and does not change claimable on a borrow — for all settings

  That rustc enforces the calculus' discipline on real programs is not proved; the calculus' checker is
  compared with rustc on a generated corpus by checks/engines/life.py.
-/
import BumpProof.Lemmas.LifeCall2
import BumpProof.Lemmas.LifeSettings
import BumpProof.Gen.Sigs

namespace C04
open Life

/-- recorded deviation C04-a (known_findings.json): the `&'a mut Bump` implementor of `BumpAllocatorCoreScope<'a>` -/
def knownDeviations : List ImplTy := [.refMutBump]

/-- the extracted table without the recorded deviations -/
def table : Table :=
  { Gen.Sigs.table with scopeImpls := Gen.Sigs.table.scopeImpls.filter (fun i => !knownDeviations.contains i.ty) }

/-- every extracted signature, `BumpAllocatorCoreScope` implementor (minus C04-a), settings assertion and
    auto-trait impl is adequate for what the method / type does at run time -/
theorem sigs_ok : sigOK table = true := by decide

/-- … and C04-a is exactly what is missing: the table as extracted is not adequate -/
theorem extracted_table_has_deviation : sigOK Gen.Sigs.table = false := by decide

/-- **Soundness of the calculus.**  For every signature table that satisfies `sigOK`, every flag combination
    (`A: Send`, `A: Sync`) and every program: if the type checker accepts the program, it runs to completion
    without a fault (`uaf`, `deadArena`, `crossThread`, `stuck`). -/
theorem sound (t : Table) (hok : sigOK t = true) (fl : Flags) (p : List Stmt) (Γ' : SEnv)
    (hc : check t fl SEnv.empty p = .ok Γ') : ∃ σ', run fl DState.empty p = .ok σ' := by
  rcases check_sound hok fl p Inv.empty hc with ⟨σ', h, _⟩
  exact ⟨σ', h⟩

/-- in particular no statement of an accepted program uses a value after its epoch ended -/
theorem no_use_after_end (t : Table) (hok : sigOK t = true) (fl : Flags) (p : List Stmt) (Γ' : SEnv)
    (hc : check t fl SEnv.empty p = .ok Γ') (k : Nat) (f : Fault) : run fl DState.empty p ≠ .error (k, f) := by
  rcases sound t hok fl p Γ' hc with ⟨σ', h⟩
  rw [h]; intro h'; cases h'

/-- the full claim for the crate: soundness for the table exactly as extracted -/
def sound_target : Prop :=
  ∀ (fl : Flags) (p : List Stmt) (Γ' : SEnv), check Gen.Sigs.table fl SEnv.empty p = .ok Γ' →
    ∃ σ', run fl DState.empty p = .ok σ'

/-- what is proved: soundness for the extracted table without the recorded deviation C04-a -/
theorem sound_partial (fl : Flags) (p : List Stmt) (Γ' : SEnv) (hc : check table fl SEnv.empty p = .ok Γ') :
    ∃ σ', run fl DState.empty p = .ok σ' := sound table sigs_ok fl p Γ' hc

/-- C04-a in the calculus:
    `let bm = b.borrow_mut_with_settings(); let x = BumpAllocatorTypedScope::alloc_str(&bm, ..); bm.reset(); use(x)` -/
def c04a_witness : List Stmt :=
  [.newBump 0, .call 1 0 .viewSame "Bump" "borrow_mut_with_settings", .call 2 1 .alloc "BumpAllocatorTypedScope" "alloc_str",
   .call 3 1 .resetAll "Bump" "reset", .use 2]

/-- with the `&'a mut Bump` implementor in the table the witness type-checks and is a use after `reset` -/
theorem c04a_typechecks_and_faults :
    verdict Gen.Sigs.table ⟨true, true⟩ c04a_witness = none ∧ faultOf ⟨true, true⟩ c04a_witness = some (0, .uaf) := by
  constructor <;> decide

/-- … so the full claim fails for the table as extracted (the negation is proved, the witness is replayed on
    the real crate by the check: lifecases/findings/c04a_refmut_bump.rs) -/
theorem sound_target_fails : ¬ sound_target := by
  intro h
  have h1 := c04a_typechecks_and_faults
  unfold verdict faultOf at h1
  cases hc : check Gen.Sigs.table ⟨true, true⟩ SEnv.empty c04a_witness with
  | error e => rw [hc] at h1; cases h1.1
  | ok Γ' =>
    rcases h ⟨true, true⟩ c04a_witness Γ' hc with ⟨σ', hr⟩
    rw [hr] at h1; cases h1.2

/-- without that implementor the same program is rejected -/
example : verdict table ⟨true, true⟩ c04a_witness = some (2, .notApplicable) := by decide

/-- every hand-written `unsafe impl Send/Sync` of the crate bounds every type parameter the type stores a value of (the
    allocator parameter of `mut_bump_vec::IntoIter<T, A>`, of `Bump<A, S>`, the element type of the boxes and vectors) -/
theorem hand_impls_ok : handImplsAdequate Gen.Sigs.table = true := by decide

/-- … and dropping the `A: Send` bound of `mut_bump_vec::IntoIter` (seed C04-f) is not adequate -/
example : handImplsAdequate { table with handImpls :=
    [⟨.send, "mut_bump_vec::IntoIter", [("T", .send)], ["T", "A"], "mut_bump_vec/into_iter.rs"⟩] } = false := by decide

/-! ### conversions between lifetime-carrying values -/

/-- every extracted conversion names only lifetimes of its input on its output -/
theorem convs_tied : convsAdequate Gen.Sigs.table = true := by decide

/-- for an adequate table, `let x = Out::from(v)` (an accessor, an iterator item) gives `x` exactly the region of `v` -/
theorem conversion_keeps_region (t : Table) (hok : sigOK t = true) (fl : Flags) (Γ Γ' : SEnv) (x v : Var)
    (input name : String) (hc : checkStmt t fl Γ (.vconv x v input name) = .ok Γ') :
    ∃ e ∈ Γ.ents, e.var = v ∧ e.valid = true ∧
      Γ'.ents = ⟨x, .val, .own, e.self, e.self, true, Γ.depth⟩ :: Γ.ents := by
  simp only [checkStmt, checkVconv] at hc
  cases hlc : t.lookupConv input name with
  | none => rw [hlc] at hc; cases hc
  | some c =>
    rw [hlc] at hc; simp only at hc
    split at hc
    · cases hc
    · cases hl : Γ.lookupValid v with
      | error r => rw [hl] at hc; cases hc
      | ok e =>
        rw [hl] at hc; simp only at hc
        split at hc
        · cases hc
        · rw [convRegion_tied (sigOK_conv hok hlc)] at hc
          rcases lookupValid_ok hl with ⟨he, hvar, hv⟩
          rcases declare_ok hc with ⟨_, rfl⟩
          exact ⟨e, he, hvar, hv, rfl⟩

/-- … hence every invalidation (a conflicting use, a move, a drop of anything the source borrows: the only ways an
    epoch can end) that hits the source hits the converted value -/
theorem converted_invalidated_with_source (p : Loan → Bool) (e : Entry) (x : Var) (d : Nat) (hv : e.valid = true) :
    (kill1 p e).valid = (kill1 p ⟨x, .val, .own, e.self, e.self, true, d⟩).valid := by
  unfold kill1
  by_cases h : e.self.any p = true
  · simp [h]
  · simp [h, hv]

/-- the extracted table with the `From<Stats> for AnyStats` header as it was before the fix (two elided lifetimes) -/
def untiedFrom : Table :=
  { table with valueConvs := [⟨.from_, "Stats", "AnyStats", "AnyStats", [.fresh], "stats/any.rs (before 19ca7c2)"⟩] }

/-- `let s = b.stats(); let a = AnyStats::from(s); drop(b); a.count()` -/
def anystats_witness : List Stmt :=
  [.newBump 0, .call 1 0 .alloc "Bump" "stats", .vconv 2 1 "Stats" "AnyStats", .drop 0, .use 2]

theorem untied_from_unsound :
    sigOK untiedFrom = false ∧ verdict untiedFrom ⟨true, true⟩ anystats_witness = none ∧
    faultOf ⟨true, true⟩ anystats_witness = some (0, .uaf) := by
  refine ⟨?_, ?_, ?_⟩ <;> decide

/-- with the table as extracted the same program is rejected: `a` is invalidated by the drop of `b` -/
example : verdict table ⟨true, true⟩ anystats_witness = some (0, .dead) := by decide

/-- the same for `BumpVec::from_parts` taking a `FixedBumpVec` of an unrelated lifetime:
    `g = b.scope_guard(); s = g.scope(); f = s.alloc(..) (fixed vec); v = BumpVec::from_parts(f, &c); x = v.into_slice();
     drop(g); use(x)` -/
def untiedFromParts : Table :=
  { table with valueConvs := [⟨.ctor, "FixedBumpVec", "BumpVec::from_parts", "BumpVec", [.fresh], "bump_vec.rs (seed C04-c)"⟩] }

def from_parts_witness : List Stmt :=
  [.newBump 0, .newBump 1, .call 2 0 .mkGuard "Bump" "scope_guard", .call 3 2 .guardScope "BumpScopeGuard" "scope",
   .call 4 3 .alloc "BumpScope" "alloc_slice_copy", .coll 5 1 .shr, .call 6 5 .alloc "BumpVec" "into_slice",
   .join 6 4 "FixedBumpVec" "BumpVec::from_parts", .drop 2, .use 6]

theorem untied_from_parts_unsound :
    sigOK untiedFromParts = false ∧ verdict untiedFromParts ⟨true, true⟩ from_parts_witness = none ∧
    faultOf ⟨true, true⟩ from_parts_witness = some (0, .uaf) := by
  refine ⟨?_, ?_, ?_⟩ <;> decide

example : verdict table ⟨true, true⟩ from_parts_witness = some (0, .dead) := by decide

/-- **Settings conversions.**  For the extracted const assertions and ALL settings (any minimum alignment): a
    conversion that compiles does not weaken a guarantee (`required`: direction kept; minimum alignment not lowered
    on a borrow / on a scope taken by value; guaranteed-allocated not upgraded and claimable unchanged on a borrow). -/
theorem conversions_do_not_weaken (owner name : String) (old new : Settings)
    (hc : convOK table owner name old new = some true) :
    ∃ k, convKind owner name = some k ∧ required k old new = true := by
  have h : settingsOK table = true := by
    have := sigs_ok
    unfold sigOK at this; simp only [Bool.and_eq_true] at this
    exact this.1.1.2
  exact conv_sound h hc

/-! ### non-vacuity: programs the checker accepts / rejects with the extracted table -/

/-- `let x = b.scoped(|s| { let y = s.alloc(..); touch(&y); drop(y); }); drop(b)` is accepted … -/
example : verdict table ⟨true, true⟩
    [.newBump 0, .enter 1 2 0 .enterScoped "Bump" "scoped", .call 3 1 .alloc "BumpScope" "alloc", .use 3, .drop 3,
     .exit none, .drop 0] = none := by decide

/-- … returning `y` from the closure is rejected … -/
example : verdict table ⟨true, true⟩
    [.newBump 0, .enter 1 2 0 .enterScoped "Bump" "scoped", .call 3 1 .alloc "BumpScope" "alloc", .exit (some 3)]
    = some (0, .escape) := by decide

/-- … holding a value across the drop of its guard is rejected … -/
example : verdict table ⟨true, true⟩
    [.newBump 0, .call 1 0 .mkGuard "Bump" "scope_guard", .call 2 1 .guardScope "BumpScopeGuard" "scope",
     .call 3 2 .alloc "BumpScope" "alloc_str", .drop 1, .use 3] = some (0, .dead) := by decide

/-- … moving a `Bump` to another thread needs `A: Send` … -/
example : verdict table ⟨false, false⟩ [.newBump 0, .send 0] = some (0, .notSend) := by decide
example : verdict table ⟨true, false⟩ [.newBump 0, .send 0] = none := by decide

/-- … lowering the minimum alignment on a shared borrow is rejected by the const assertions, raising it on an
    exclusive borrow is accepted -/
example : convOK table "Bump" "borrow_with_settings" ⟨true, 4, true, true⟩ ⟨true, 1, true, true⟩ = some false := by decide
example : convOK table "Bump" "borrow_mut_with_settings" ⟨true, 1, true, true⟩ ⟨true, 4, true, true⟩ = some true := by decide

end C04
