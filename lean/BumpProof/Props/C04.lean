/-
  Props/C04.lean — references into a scope cannot outlive it in safe code; weakening settings conversions
  are rejected at compile time.

  PARTIAL (rustc trusted): what is proved here is about the region calculus of `Life/Calculus.lean`
  (see its header for the program shapes it covers) and about the signature table `Gen/Sigs.lean`
  that is re-extracted from the Rust sources on every run:

    sigs_ok            the extracted table (minus the recorded deviation C04-a) satisfies the decidable
                       adequacy predicate `sigOK`
    sound              for EVERY table that satisfies `sigOK`, every program the calculus' type checker
                       accepts runs without any fault: no value is used after its memory epoch ended,
                       no handle is used after its arena was dropped, nothing crosses a thread boundary
                       with a base allocator that is not `Send`/`Sync` (induction over the program,
                       invariant in `Lemmas/LifeInv.lean`)
    sound_partial      … in particular for the extracted table
    sound_target_fails the same statement for the table AS EXTRACTED is false: C04-a
                       (`impl BumpAllocatorCoreScope<'a> for &'a mut Bump`) admits a well-typed program
                       that reads a value after `reset` — the Lean image of the known finding
    conversions_do_not_weaken   a settings conversion that passes the extracted const assertions keeps the
                       direction, does not lower the minimum alignment on a borrow or on a scope, does not
                       upgrade guaranteed-allocated and does not change claimable on a borrow — for all settings

  That rustc enforces the calculus' discipline on real programs is not proved; the calculus' checker is
  compared with rustc on a generated corpus by checks/engines/life.py.
-/
import BumpProof.Lemmas.LifeCall2
import BumpProof.Lemmas.LifeSettings
import BumpProof.Gen.Sigs

namespace C04
open Life

/-- recorded deviation C04-a (known_findings.json): the `&'a mut Bump` implementor of `BumpAllocatorCoreScope<'a>` -/
def knownDeviations : List ImplTy := [.refMutBump]

/-- the extracted table without the recorded deviations -/
def table : Table :=
  { Gen.Sigs.table with scopeImpls := Gen.Sigs.table.scopeImpls.filter (fun i => !knownDeviations.contains i.ty) }

/-- every extracted signature, `BumpAllocatorCoreScope` implementor (minus C04-a), settings assertion and
    auto-trait impl is adequate for what the method / type does at run time -/
theorem sigs_ok : sigOK table = true := by decide

/-- … and C04-a is exactly what is missing: the table as extracted is not adequate -/
theorem extracted_table_has_deviation : sigOK Gen.Sigs.table = false := by decide

/-- **Soundness of the calculus.**  For every signature table that satisfies `sigOK`, every flag combination
    (`A: Send`, `A: Sync`) and every program: if the type checker accepts the program, it runs to completion
    without a fault (`uaf`, `deadArena`, `crossThread`, `stuck`). -/
theorem sound (t : Table) (hok : sigOK t = true) (fl : Flags) (p : List Stmt) (Γ' : SEnv)
    (hc : check t fl SEnv.empty p = .ok Γ') : ∃ σ', run fl DState.empty p = .ok σ' := by
  rcases check_sound hok fl p Inv.empty hc with ⟨σ', h, _⟩
  exact ⟨σ', h⟩

/-- in particular no statement of an accepted program uses a value after its epoch ended -/
theorem no_use_after_end (t : Table) (hok : sigOK t = true) (fl : Flags) (p : List Stmt) (Γ' : SEnv)
    (hc : check t fl SEnv.empty p = .ok Γ') (k : Nat) (f : Fault) : run fl DState.empty p ≠ .error (k, f) := by
  rcases sound t hok fl p Γ' hc with ⟨σ', h⟩
  rw [h]; intro h'; cases h'

/-- the full claim for the crate: soundness for the table exactly as extracted -/
def sound_target : Prop :=
  ∀ (fl : Flags) (p : List Stmt) (Γ' : SEnv), check Gen.Sigs.table fl SEnv.empty p = .ok Γ' →
    ∃ σ', run fl DState.empty p = .ok σ'

/-- what is proved: soundness for the extracted table without the recorded deviation C04-a -/
theorem sound_partial (fl : Flags) (p : List Stmt) (Γ' : SEnv) (hc : check table fl SEnv.empty p = .ok Γ') :
    ∃ σ', run fl DState.empty p = .ok σ' := sound table sigs_ok fl p Γ' hc

/-- C04-a in the calculus:
    `let bm = b.borrow_mut_with_settings(); let x = BumpAllocatorTypedScope::alloc_str(&bm, ..); bm.reset(); use(x)` -/
def c04a_witness : List Stmt :=
  [.newBump 0, .call 1 0 .viewSame "Bump" "borrow_mut_with_settings", .call 2 1 .alloc "BumpAllocatorTypedScope" "alloc_str",
   .call 3 1 .resetAll "Bump" "reset", .use 2]

/-- with the `&'a mut Bump` implementor in the table the witness type-checks and is a use after `reset` -/
theorem c04a_typechecks_and_faults :
    verdict Gen.Sigs.table ⟨true, true⟩ c04a_witness = none ∧ faultOf ⟨true, true⟩ c04a_witness = some (0, .uaf) := by
  constructor <;> decide

/-- … so the full claim fails for the table as extracted (the negation is proved, the witness is replayed on
    the real crate by the check: lifecases/findings/c04a_refmut_bump.rs) -/
theorem sound_target_fails : ¬ sound_target := by
  intro h
  have h1 := c04a_typechecks_and_faults
  unfold verdict faultOf at h1
  cases hc : check Gen.Sigs.table ⟨true, true⟩ SEnv.empty c04a_witness with
  | error e => rw [hc] at h1; cases h1.1
  | ok Γ' =>
    rcases h ⟨true, true⟩ c04a_witness Γ' hc with ⟨σ', hr⟩
    rw [hr] at h1; cases h1.2

/-- without that implementor the same program is rejected -/
example : verdict table ⟨true, true⟩ c04a_witness = some (2, .notApplicable) := by decide

/-- **Settings conversions.**  For the extracted const assertions and ALL settings (any minimum alignment): a
    conversion that compiles does not weaken a guarantee (`required`: direction kept; minimum alignment not lowered
    on a borrow / on a scope taken by value; guaranteed-allocated not upgraded and claimable unchanged on a borrow). -/
theorem conversions_do_not_weaken (owner name : String) (old new : Settings)
    (hc : convOK table owner name old new = some true) :
    ∃ k, convKind owner name = some k ∧ required k old new = true := by
  have h : settingsOK table = true := by
    have := sigs_ok
    unfold sigOK at this; simp only [Bool.and_eq_true] at this
    exact this.1.2
  exact conv_sound h hc

/-! ### non-vacuity: programs the checker accepts / rejects with the extracted table -/

/-- `let x = b.scoped(|s| { let y = s.alloc(..); touch(&y); drop(y); }); drop(b)` is accepted … -/
example : verdict table ⟨true, true⟩
    [.newBump 0, .enter 1 2 0 .enterScoped "Bump" "scoped", .call 3 1 .alloc "BumpScope" "alloc", .use 3, .drop 3,
     .exit none, .drop 0] = none := by decide

/-- … returning `y` from the closure is rejected … -/
example : verdict table ⟨true, true⟩
    [.newBump 0, .enter 1 2 0 .enterScoped "Bump" "scoped", .call 3 1 .alloc "BumpScope" "alloc", .exit (some 3)]
    = some (0, .escape) := by decide

/-- … holding a value across the drop of its guard is rejected … -/
example : verdict table ⟨true, true⟩
    [.newBump 0, .call 1 0 .mkGuard "Bump" "scope_guard", .call 2 1 .guardScope "BumpScopeGuard" "scope",
     .call 3 2 .alloc "BumpScope" "alloc_str", .drop 1, .use 3] = some (0, .dead) := by decide

/-- … moving a `Bump` to another thread needs `A: Send` … -/
example : verdict table ⟨false, false⟩ [.newBump 0, .send 0] = some (0, .notSend) := by decide
example : verdict table ⟨true, false⟩ [.newBump 0, .send 0] = none := by decide

/-- … lowering the minimum alignment on a shared borrow is rejected by the const assertions, raising it on an
    exclusive borrow is accepted -/
example : convOK table "Bump" "borrow_with_settings" ⟨true, 4, true, true⟩ ⟨true, 1, true, true⟩ = some false := by decide
example : convOK table "Bump" "borrow_mut_with_settings" ⟨true, 1, true, true⟩ ⟨true, 4, true, true⟩ = some true := by decide

end C04
