/-
  Props/Hist.lean — the step-level theorems of C01, C02, C05, C10 lifted to ALL FINITE HISTORIES.

  `Arena.Hist.Inv` (Arena/Hist.lean) is an inductive invariant of `Arena.step`: it holds in the initial
  state (`inv_init`) and is preserved by every covered operation under a correct base allocator
  (`inv_step`; `Op.Covered` is every constructor of `Op`, with three side conditions saying that numeric
  arguments come from Rust values).  Hence every state reached by any finite history satisfies it
  (`Reachable`), and the properties below hold after every public operation of every history.

  Theorem names start with the id of the property they belong to.
  Non-vacuity: `Lemmas/HistEx.lean` contains a concrete history `exOps` (create, allocate twice, enter a
  scope, allocate into a second chunk, leave the scope, deallocate, drop) for which all hypotheses hold;
  the `example`s below instantiate the theorems with it.
-/
import BumpProof.Lemmas.HistRun
import BumpProof.Lemmas.HistBytes3
import BumpProof.Lemmas.HistEx

set_option linter.unusedSimpArgs false
set_option linter.unusedVariables false

namespace Arena.Hist
open Rs

/-- `g` is reached from the initial state by a finite history of covered operations during which the
    base allocator behaved correctly (`RunEnvOK`) and no step faulted -/
def Reachable (cfg : Cfg) (g : GState) : Prop :=
  ∃ ops : List (Op × List BaseResp), AllCovered ops ∧ RunEnvOK cfg (initG cfg) ops ∧
    runOps cfg (initG cfg) ops = .ok g

/-- `Op.Covered` spelled out: every constructor is covered; three of them need their numeric arguments to be
    values a Rust caller can supply (a `usize`; the alignment of a type; the size of a type, which is a
    multiple of its alignment) -/
theorem covered_iff (op : Op) : op.Covered ↔
    match op with
    | .newWithSize n => n < 2 ^ 64
    | .prepareSlice _ ealign _ _ => Rs.is_power_of_two ealign = true
    | .allocTryWith L _ _ _ _ _ => L.size % L.align = 0
    | _ => True := by
  cases op <;> simp [Op.Covered, Op.covered]

theorem Reachable.inv {cfg : Cfg} {g : GState} (hc : CfgOK cfg) (h : Reachable cfg g) : Inv cfg g := by
  obtain ⟨ops, h1, h2, h3⟩ := h
  exact inv_reachable hc h1 h2 h3

theorem reachable_init (cfg : Cfg) : Reachable cfg (initG cfg) :=
  ⟨[], (fun _ h => by cases h), trivial, rfl⟩

theorem Reachable.sizes {cfg : Cfg} {g : GState} (hc : CfgOK cfg) (h : Reachable cfg g) : SizesIncreasing g.s := by
  obtain ⟨ops, h1, h2, h3⟩ := h
  exact sizes_runOps ops _ _ (inv_init hc) (sizes_init cfg) h1 h2 h3

/-- one more covered step under a correct environment -/
theorem Reachable.step {cfg : Cfg} {g g' : GState} (h : Reachable cfg g) {op : Op} {resps : List BaseResp} {out : Out}
    {reqs : List BaseReq} (hc : CfgOK cfg) (hcov : op.Covered) (henv : EnvOK cfg g resps)
    (hs : step cfg g op resps = .ok (g', out, reqs)) : Inv cfg g' :=
  inv_step hcov (h.inv hc) henv hs

/-- the example history reaches a state (an arena with two chunks in use) -/
theorem exReach7 : ∃ g, Reachable exCfg g := by
  obtain ⟨g, hg⟩ := exOps7_run
  exact ⟨g, exOps7, exOps7_covered, exOps7_env, hg⟩

/-- … and, continued by `drop`, another one -/
theorem exReach : ∃ g, Reachable exCfg g := by
  obtain ⟨g, hg⟩ := exOps_run
  exact ⟨g, exOps, exOps_covered, exOps_env, hg⟩

end Arena.Hist

/-! # C10 — arena bookkeeping and statistics are coherent after every operation of every history -/

namespace C10
open Arena Arena.Hist Rs

variable {cfg : Cfg} {g : GState}

/-- every reachable state satisfies the geometry invariant, its chunks are pairwise disjoint, an
    unallocated arena owns no chunk, and the active handle is never the claimed dummy -/
theorem reachable_geomInv (hc : CfgOK cfg) (h : Reachable cfg g) :
    GeomInv cfg g.s ∧ ChunksDisjoint g.s ∧ UnallocEmpty g.s ∧ g.s.cur ≠ .claimed :=
  have hi := h.inv hc
  ⟨hi.geom, hi.disj, hi.unalloc, hi.notClaimed⟩

/-- the invariant is inductive: one more covered step under a correct environment -/
theorem step_geomInv (hi : Inv cfg g) {op : Op} {resps : List BaseResp} {g' : GState} {out : Out} {reqs : List BaseReq}
    (hcov : op.Covered) (henv : EnvOK cfg g resps) (hs : step cfg g op resps = .ok (g', out, reqs)) :
    GeomInv cfg g'.s ∧ ChunksDisjoint g'.s :=
  have hi' := inv_step hcov hi henv hs
  ⟨hi'.geom, hi'.disj⟩

/-- after every operation of every history: `allocated() + remaining() = capacity() ≤ size()`, every chunk
    spends exactly one header, `count()` is the number of chunks, and an unallocated arena reports zeros -/
theorem reachable_stats_coherent (hc : CfgOK cfg) (h : Reachable cfg g) :
    (stats cfg g.s).allocated + (stats cfg g.s).remaining = (stats cfg g.s).capacity ∧
    (stats cfg g.s).capacity ≤ (stats cfg g.s).size ∧
    (stats cfg g.s).size = (stats cfg g.s).capacity + (stats cfg g.s).count * cfg.hdr.size ∧
    (∀ i, g.s.cur = .chunk i → (stats cfg g.s).count = g.s.chunks.length) ∧
    (g.s.cur = .unallocated → stats cfg g.s = ⟨0, 0, 0, 0, 0⟩) :=
  have hg := (h.inv hc).geom
  ⟨stats_allocated_add_remaining hg, stats_capacity_le_size hg, stats_size_eq hg,
   fun i hi => stats_count hg hi, fun hu => stats_zero (Or.inr hu)⟩

/-- after every operation of every history the bump position of the current chunk lies in that chunk's
    content range and is a multiple of the minimum alignment in force, which is a supported one -/
theorem reachable_pos_aligned (hc : CfgOK cfg) (h : Reachable cfg g) :
    MinAlignOK g.s.minAlign ∧
    ∀ i, g.s.cur = .chunk i → ∃ c, g.s.chunks[i]? = some c ∧ c.contentStart cfg ≤ curPos cfg g.s ∧
      curPos cfg g.s ≤ c.contentEnd cfg ∧ g.s.minAlign ∣ curPos cfg g.s :=
  have hg := (h.inv hc).geom
  ⟨hg.minAlign, fun i hi => curPos_in_range hg hi⟩

/-- after every operation of every history every chunk has a size that is a multiple of 16, its header
    inside the granted block, the block aligned for the header (downwards: the header itself too), and
    the chunks are pairwise disjoint -/
theorem reachable_chunks_wellformed (hc : CfgOK cfg) (h : Reachable cfg g) :
    (∀ (i : Nat) (c : Chunk), g.s.chunks[i]? = some c → 16 ∣ c.size ∧ cfg.hdr.size ≤ c.size ∧ c.size ≤ c.granted ∧ cfg.hdr.align ∣ c.base ∧
      (cfg.up = false → cfg.hdr.align ∣ c.base + c.size - cfg.hdr.size)) ∧
    (∀ (i j : Nat) (a b : Chunk), i ≠ j → g.s.chunks[i]? = some a → g.s.chunks[j]? = some b →
      a.base + a.size ≤ b.base ∨ b.base + b.size ≤ a.base) :=
  have hi := h.inv hc
  ⟨fun i c hic => chunk_header_in_block hc hi.geom hic, hi.disj⟩

/-- after every operation of every history each later chunk is strictly larger than its predecessor (hence
    than every earlier chunk): the chunk list is sorted by size, the last chunk is the largest -/
theorem reachable_sizesIncreasing (hc : CfgOK cfg) (h : Reachable cfg g) :
    SizesIncreasing g.s ∧ g.s.chunks.Pairwise (fun a b => a.size < b.size) :=
  ⟨h.sizes hc, pairwise_of_sizesIncreasing (h.sizes hc)⟩

/-- NO FAULT (partial: see `Op.noFaultCovered` in Lemmas/HistNoFault3.lean — every constructor except
    `grow` / `deallocate` / `shrink` addressed to the CLAIMED handle, with the same three numeric side
    conditions as `Op.Covered` plus truthful hints for `onClaimed allocLayout`): from any reachable state,
    with a base allocator that behaves correctly (`EnvOK`) and answers the request of the operation
    (`Answered`: the pending response is large enough for the size the slow path asks for), `step`
    never ends in an overflow / failed debug assertion (`Fault.rs`) or undefined behaviour (`Fault.ub`);
    in particular `unreachable_unchecked` after the creation of a chunk is unreachable, every copy is in
    bounds, `copy_nonoverlapping` never overlaps.  It succeeds or reports a contract violation of the caller. -/
theorem reachable_noFault_partial (hc : CfgOK cfg) (h : Reachable cfg g) {op : Op} {resps : List BaseResp}
    (hcov : op.noFaultCovered = true) (henv : EnvOK cfg g resps) (hans : Answered cfg (install g resps).s op) :
    ∀ f, step cfg g op resps = .error f → ¬ Fault.isBug f :=
  noFault_step hcov (h.inv hc) henv hans

/-- RESOLVED — FALSE AS STATED: `C10.reachable_noFault_target_fails` (Props/Targets.lean; witness: `EnvOK` allows a
    grant that covers the model's `dummyAddr`) and the corrected FULL no-fault theorem `C10.reachable_noFault_corrected`
    (every covered operation with truthful hints, from states reached with grants at or below `2^62`).  Original comment:
    TARGET (not proved): the same for every constructor, i.e. also for `onClaimed (grow/deallocate/shrink)`.
    Missing there: nothing in `Inv` or `EnvOK` says that the base allocator never hands out memory at the
    address of the static dummy chunk header (`dummyAddr`); a live block at that address would pass the
    `is_last` test of the claimed handle.  Proved under that explicit hypothesis as
    `Arena.Hist.noFault_onClaimed_block` (`DummyApart`). -/
def reachable_noFault_target : Prop :=
  ∀ (cfg : Cfg) (g : GState) (op : Op) (resps : List BaseResp), CfgOK cfg → Reachable cfg g → op.Covered →
    EnvOK cfg g resps → Answered cfg (install g resps).s op →
    ∀ f, step cfg g op resps = .error f → ¬ Fault.isBug f

example : CfgOK exCfg := exCfg_ok
/-- hypotheses of `reachable_noFault_partial`: the first step of the example history -/
example : Reachable exCfg (initG exCfg) ∧ (Op.newWithSize 512).noFaultCovered = true ∧
    EnvOK exCfg (initG exCfg) [.granted 0x10000 496] ∧
    Answered exCfg (install (initG exCfg) [.granted 0x10000 496]).s (.newWithSize 512) := by
  refine ⟨reachable_init _, by decide, envCheck_sound (by decide), ?_⟩
  intro size hs
  have : Spec.calcSize exCfg.up exCfg.hdr (Nat.max 512 exCfg.minChunk) = some 496 := by decide
  rw [this] at hs; cases hs
  exact ⟨_, _, rfl, by decide, by decide, by decide, by decide⟩
example : ∃ g, Reachable exCfg g ∧ (stats exCfg g.s).allocated + (stats exCfg g.s).remaining = (stats exCfg g.s).capacity :=
  let ⟨g, hg⟩ := exReach7
  ⟨g, hg, (reachable_stats_coherent exCfg_ok hg).1⟩

end C10

/-! # C01 — live allocations are valid, aligned and pairwise disjoint, in every reachable state -/

namespace C01
open Arena Arena.Hist Arena.Mem Rs

variable {cfg : Cfg} {g : GState}

/-- every reachable state satisfies `LiveOK` -/
theorem reachable_liveOK (hc : CfgOK cfg) (h : Reachable cfg g) : LiveOK cfg g.s := (h.inv hc).live

/-- spelled out: after every operation of every history every live block starts at an address that satisfies
    its alignment (a power of two), every non-empty live block lies completely inside the content range
    (never the header) of a chunk the arena currently owns, and no two live blocks share a byte -/
theorem reachable_live_blocks (hc : CfgOK cfg) (h : Reachable cfg g) :
    (∀ b ∈ g.s.live, b.align ∣ b.addr ∧ ∃ k, k < 64 ∧ b.align = 2 ^ k) ∧
    (∀ b ∈ g.s.live, 0 < b.size → ∃ c ∈ g.s.chunks, c.contentStart cfg ≤ b.addr ∧ b.addr + b.size ≤ c.contentEnd cfg ∧
        c.base ≤ b.addr ∧ b.addr + b.size ≤ c.base + c.size) ∧
    g.s.live.Pairwise (fun a b => a.size = 0 ∨ b.size = 0 ∨ a.addr + a.size ≤ b.addr ∨ b.addr + b.size ≤ a.addr) := by
  have hi := h.inv hc
  refine ⟨fun b hb => ⟨hi.live.aligned b hb, hi.aligns b hb⟩, ?_, hi.live.disjoint⟩
  intro b hb hs
  obtain ⟨i, j, c, _, _, hcj, hin, _⟩ := hi.live.placed b hb hs
  have := inContent_in_chunk hin
  exact ⟨c, List.mem_of_getElem? hcj, hin.1, hin.2, this.1, this.2⟩

/-- the block handed out by `allocate` / `allocate_zeroed` (through any wrapper) at any point of any history is
    at least as large as requested (exactly), aligned as requested, inside owned content memory and shares no
    byte with any other live block -/
theorem allocate_block_valid (hi : Inv cfg g) {L : Layout} {z : Bool} {via : Via} {resps : List BaseResp}
    {g' : GState} {id addr size : Nat} {reqs : List BaseReq} (henv : EnvOK cfg g resps)
    (hs : step cfg g (.allocate L z via) resps = .ok (g', .block id addr size, reqs)) :
    size = L.size ∧ L.align ∣ addr ∧
    (0 < size → ∃ c ∈ g'.s.chunks, c.contentStart cfg ≤ addr ∧ addr + size ≤ c.contentEnd cfg) ∧
    ∀ b ∈ g'.s.live, b.id ≠ id → b.size = 0 ∨ size = 0 ∨ b.addr + b.size ≤ addr ∨ addr + size ≤ b.addr := by
  have hi' := inv_step (op := .allocate L z via) rfl hi henv hs
  obtain ⟨e1, b0, hb0, f1, f2, f3, f4⟩ := stepCore_allocate_block (step_ok hs).1
  subst e1
  refine ⟨rfl, ?_, ?_, ?_⟩
  · have := hi'.live.aligned b0 hb0
    rw [f2, f4] at this; exact this
  · intro hpos
    obtain ⟨i, j, c, _, _, hcj, hin, _⟩ := hi'.live.placed b0 hb0 (by rw [f3]; exact hpos)
    rw [f2, f3] at hin
    exact ⟨c, List.mem_of_getElem? hcj, hin.1, hin.2⟩
  · intro b hb hne
    have hneq : b ≠ b0 := fun e => hne (by rw [e, f1])
    have := pairwise_of_mem_ne (fun _ _ => BlocksDisjoint.symm) hi'.live.disjoint hb hb0 hneq
    unfold BlocksDisjoint at this
    rw [f2, f3] at this
    exact this

example : ∃ g, Reachable exCfg g ∧ LiveOK exCfg g.s :=
  let ⟨g, hg⟩ := exReach7
  ⟨g, hg, reachable_liveOK exCfg_ok hg⟩

end C01

/-! # C02 — the bytes of a live allocation change only through its owner -/

namespace C02
open Arena Arena.Hist Arena.Mem Rs

variable {cfg : Cfg} {g : GState}

/-- across ANY step (every operation, every wrapper, zeroed or not) from ANY reachable state: every byte of
    every block that is live before and after the step and is not the target of a `.write` is unchanged.
    (`grow` / `shrink` / `shrink_slice` / `split` replace their block by a new ghost block, so this speaks
    about all OTHER blocks; that their own contents are carried over is `C02.grow_realloc` etc.) -/
theorem reachable_live_bytes (hc : CfgOK cfg) (h : Reachable cfg g) {op : Op} {resps : List BaseResp}
    {g' : GState} {out : Out} {reqs : List BaseReq} (henv : EnvOK cfg g resps)
    (hs : step cfg g op resps = .ok (g', out, reqs)) :
    ∀ b ∈ g.s.live, b ∈ g'.s.live → (∀ seed, op ≠ .write b.id seed) →
      ∀ k, k < b.size → readByte g'.s (b.addr + k) = readByte g.s (b.addr + k) :=
  bytes_step (h.inv hc) henv hs

/-- `b` stays live, and is never written, through all steps of the history -/
def KeptThrough (cfg : Cfg) (b : Block) : GState → List (Op × List BaseResp) → Prop
  | g, [] => b ∈ g.s.live
  | g, (op, resps) :: rest => b ∈ g.s.live ∧ (∀ seed, op ≠ .write b.id seed) ∧
      ∀ g' out reqs, step cfg g op resps = .ok (g', out, reqs) → KeptThrough cfg b g' rest

/-- along any finite history: a block that stays live and is not written keeps its bytes, whatever else
    happens to the arena (allocations, reallocations and deallocations of other blocks, chunk growth,
    entering and leaving inner scopes, claiming, reserving, prepared allocations) -/
theorem history_live_bytes : ∀ (ops : List (Op × List BaseResp)) (g g' : GState) (b : Block), Inv cfg g →
    AllCovered ops → RunEnvOK cfg g ops → runOps cfg g ops = .ok g' → KeptThrough cfg b g ops →
    b ∈ g'.s.live ∧ ∀ k, k < b.size → readByte g'.s (b.addr + k) = readByte g.s (b.addr + k) := by
  intro ops
  induction ops with
  | nil =>
    intro g g' b _ _ _ hr hk
    unfold runOps at hr
    cases hr
    exact ⟨hk, fun _ _ => rfl⟩
  | cons x rest ih =>
    intro g g' b h hc he hr hk
    obtain ⟨op, resps⟩ := x
    obtain ⟨g1, out, reqs, hs, hrest⟩ := runOps_cons hr
    obtain ⟨he1, he2⟩ := he
    obtain ⟨hb, hw, hk'⟩ := hk
    have hcov := hc (op, resps) List.mem_cons_self
    have hk1 := hk' g1 out reqs hs
    have hb1 : b ∈ g1.s.live := by
      cases rest with
      | nil => exact hk1
      | cons y ys => exact hk1.1
    obtain ⟨r1, r2⟩ := ih g1 g' b (inv_step hcov h he1 hs) (fun y hy => hc y (List.mem_cons_of_mem _ hy))
      (he2 g1 out reqs hs) hrest hk1
    refine ⟨r1, fun k hk => ?_⟩
    rw [r2 k hk]
    exact bytes_step h he1 hs b hb hb1 hw k hk

/-- non-vacuity: a reachable state with two live blocks; writing the second one leaves the first one live -/
example : Inv exCfg exG3 ∧ EnvOK exCfg exG3 [] := ⟨exG3_inv, envCheck_sound (by rfl)⟩

end C02

/-! # C05 — every chunk is returned to the base allocator exactly once and fits -/

namespace C05
open Arena Arena.Hist Rs

variable {cfg : Cfg}

/-- THE LEDGER of any finite history (from the creation on): the chunks ever created correspond one to one, in
    order, to the blocks the base allocator granted — same pointer, requested with the header alignment, size in
    use between the size requested and the size granted — and the releases made so far together with one
    release per chunk still owned are EXACTLY (as a multiset) one release per chunk ever created: nothing is
    released twice, nothing that was not granted is released, nothing is forgotten -/
theorem history_ledger (hc : CfgOK cfg) {ops : List (Op × List BaseResp)} {g : GState} {log : List LogEntry}
    (hcov : AllCovered ops) (henv : RunEnvOK cfg (initG cfg) ops) (hr : runLog cfg (initG cfg) ops = .ok (g, log)) :
    Balanced cfg (logGrants log) (logReleases log) g.s := by
  have := ledger_runLog ops _ _ log [] [] (inv_init hc) (balanced_init cfg) hcov henv hr
  simpa using this

/-- every `dealloc` request of the history matches an earlier grant: same pointer, same alignment, and a size
    between the size that was requested and the size that was granted; and the number of releases plus the
    number of chunks still owned is the number of grants -/
theorem history_releases_match (hc : CfgOK cfg) {ops : List (Op × List BaseResp)} {g : GState} {log : List LogEntry}
    (hcov : AllCovered ops) (henv : RunEnvOK cfg (initG cfg) ops) (hr : runLog cfg (initG cfg) ops = .ok (g, log)) :
    (∀ q ∈ logReleases log, ∃ gr ∈ logGrants log, ∃ size, q = .dealloc gr.ptr size gr.align ∧
        gr.reqSize ≤ size ∧ size ≤ gr.granted) ∧
    (logReleases log).length + g.s.chunks.length = (logGrants log).length := by
  have hb := history_ledger hc hcov henv hr
  refine ⟨fun q hq => hb.release_matches hq, ?_⟩
  have := hb.releases_le
  simpa [Arena.Hist.owned] using this

/-- after `drop` nothing is outstanding: every block ever granted has been released exactly once -/
theorem history_drop_releases_all (hc : CfgOK cfg) {ops : List (Op × List BaseResp)} {resps : List BaseResp}
    {g : GState} {log : List LogEntry} (hcov : AllCovered ops)
    (henv : RunEnvOK cfg (initG cfg) (ops ++ [(.drop, resps)]))
    (hr : runLog cfg (initG cfg) (ops ++ [(.drop, resps)]) = .ok (g, log)) :
    g.s.chunks = [] ∧
    ∃ acq : List Chunk, Matched (ChunkOfGrant cfg) acq (logGrants log) ∧
      (logReleases log).Perm (acq.map (deallocReq cfg)) := by
  have hcov' : AllCovered (ops ++ [(.drop, resps)]) := by
    intro x hx
    rcases List.mem_append.mp hx with hx | hx
    · exact hcov x hx
    · simp only [List.mem_singleton] at hx; subst hx; rfl
  have ho := runLog_append_drop (cfg := cfg) ops (initG cfg) log (inv_init hc) hcov henv hr
  have hb := history_ledger hc hcov' henv hr
  refine ⟨?_, hb.released_all ho⟩
  simpa [Arena.Hist.owned] using ho

/-- only `drop` and `Bump::reset` release chunks: `reset_to_start`, scope exits, `reset_to`, deallocation,
    and every other operation release none -/
theorem only_drop_and_reset_release {g g' : GState} {op : Op} {resps : List BaseResp} {out : Out} {reqs : List BaseReq}
    (hd : op ≠ .drop) (hr : op ≠ .reset) (hs : step cfg g op resps = .ok (g', out, reqs)) :
    releasesOf reqs = [] :=
  step_no_release hd hr hs

/-- whatever is released was owned before the step (never a block granted in the same step, never a
    foreign block), with the chunk's own pointer, its size in use and the header alignment -/
theorem releases_are_owned {g g' : GState} {op : Op} {resps : List BaseResp} {out : Out} {reqs : List BaseReq}
    (h : Inv cfg g) (hs : step cfg g op resps = .ok (g', out, reqs)) :
    ∀ q ∈ releasesOf reqs, ∃ c ∈ g.s.chunks, q = .dealloc c.base c.size cfg.hdr.align :=
  release_shape h hs

/-- `Bump::reset` at any point of any history keeps exactly one chunk — the last one, which is the LARGEST —
    with its position reset, releases every other chunk exactly once and requests nothing -/
theorem reachable_reset_keeps_largest (hc : CfgOK cfg) {g g' : GState} (h : Reachable cfg g) {i : Nat}
    (hcur : g.s.cur = .chunk i) {resps : List BaseResp} {out : Out} {reqs : List BaseReq}
    (hs : step cfg g .reset resps = .ok (g', out, reqs)) :
    ∃ last, g.s.chunks.getLast? = some last ∧ g'.s.chunks = [last.resetPos cfg] ∧
      (∀ c ∈ g.s.chunks, c.size ≤ last.size) ∧ reqs.Perm (g.s.chunks.dropLast.map (deallocReq cfg)) := by
  obtain ⟨last, e1, e2, _, e4, _⟩ := reset_step (h.inv hc) hcur hs
  exact ⟨last, e1, e2, C05.reset_keeps_largest g.s (pairwise_of_sizesIncreasing (h.sizes hc)) e1, e4⟩

/-- non-vacuity: the example history (it ends with `drop`) runs, is covered and its environment is correct -/
example : AllCovered (exOps.take 7) ∧ exOps = exOps.take 7 ++ [(.drop, [])] ∧
    RunEnvOK exCfg (initG exCfg) exOps ∧ ∃ g log, runLog exCfg (initG exCfg) exOps = .ok (g, log) :=
  ⟨exOps7_covered, rfl, exOps_env, exOps_log⟩

end C05

