/-
  Props/Hist.lean — the step-level theorems of C01, C02, C05, C10 lifted to ALL FINITE HISTORIES.

  `Arena.Hist.Inv` (Arena/Hist.lean) is an inductive invariant of `Arena.step`: it holds in the initial
  state (`inv_init`) and is preserved by every covered operation under a correct base allocator
  (`inv_step`; `Op.Covered` is every constructor of `Op`, with three side conditions saying that numeric
  arguments come from Rust values).  Hence every state reached by any finite history satisfies it
  (`Reachable`), and the properties below hold after every public operation of every history.

  Theorem names start with the id of the property they belong to.
  Non-vacuity: `Lemmas/HistEx.lean` contains a concrete history `exOps` (create, allocate twice, enter a
  scope, allocate into a second chunk, leave the scope, deallocate, drop) for which all hypotheses hold;
  the `example`s below instantiate the theorems with it.
-/
import BumpProof.Lemmas.HistStep
import BumpProof.Lemmas.HistEx

set_option linter.unusedSimpArgs false
set_option linter.unusedVariables false

namespace Arena.Hist
open Rs

/-- `g` is reached from the initial state by a finite history of covered operations during which the
    base allocator behaved correctly (`RunEnvOK`) and no step faulted -/
def Reachable (cfg : Cfg) (g : GState) : Prop :=
  ∃ ops : List (Op × List BaseResp), AllCovered ops ∧ RunEnvOK cfg (initG cfg) ops ∧
    runOps cfg (initG cfg) ops = .ok g

theorem Reachable.inv {cfg : Cfg} {g : GState} (hc : CfgOK cfg) (h : Reachable cfg g) : Inv cfg g := by
  obtain ⟨ops, h1, h2, h3⟩ := h
  exact inv_reachable hc h1 h2 h3

theorem reachable_init (cfg : Cfg) : Reachable cfg (initG cfg) :=
  ⟨[], fun _ h => by cases h, trivial, rfl⟩

/-- the example history reaches a state (an arena with two chunks in use) -/
theorem exReach7 : ∃ g, Reachable exCfg g := by
  obtain ⟨g, hg⟩ := exOps7_run
  exact ⟨g, exOps7, exOps7_covered, exOps7_env, hg⟩

/-- … and, continued by `drop`, another one -/
theorem exReach : ∃ g, Reachable exCfg g := by
  obtain ⟨g, hg⟩ := exOps_run
  exact ⟨g, exOps, exOps_covered, exOps_env, hg⟩

end Arena.Hist

/-! # C10 — arena bookkeeping and statistics are coherent after every operation of every history -/

namespace C10
open Arena Arena.Hist Rs

variable {cfg : Cfg} {g : GState}

/-- every reachable state satisfies the geometry invariant, its chunks are pairwise disjoint, an
    unallocated arena owns no chunk, and the active handle is never the claimed dummy -/
theorem reachable_geomInv (hc : CfgOK cfg) (h : Reachable cfg g) :
    GeomInv cfg g.s ∧ ChunksDisjoint g.s ∧ UnallocEmpty g.s ∧ g.s.cur ≠ .claimed :=
  have hi := h.inv hc
  ⟨hi.geom, hi.disj, hi.unalloc, hi.notClaimed⟩

/-- the invariant is inductive: one more covered step under a correct environment -/
theorem step_geomInv (hi : Inv cfg g) {op : Op} {resps : List BaseResp} {g' : GState} {out : Out} {reqs : List BaseReq}
    (hcov : op.Covered) (henv : EnvOK cfg g resps) (hs : step cfg g op resps = .ok (g', out, reqs)) :
    GeomInv cfg g'.s ∧ ChunksDisjoint g'.s :=
  have hi' := inv_step hcov hi henv hs
  ⟨hi'.geom, hi'.disj⟩

/-- after every operation of every history: `allocated() + remaining() = capacity() ≤ size()`, every chunk
    spends exactly one header, `count()` is the number of chunks, and an unallocated arena reports zeros -/
theorem reachable_stats_coherent (hc : CfgOK cfg) (h : Reachable cfg g) :
    (stats cfg g.s).allocated + (stats cfg g.s).remaining = (stats cfg g.s).capacity ∧
    (stats cfg g.s).capacity ≤ (stats cfg g.s).size ∧
    (stats cfg g.s).size = (stats cfg g.s).capacity + (stats cfg g.s).count * cfg.hdr.size ∧
    (∀ i, g.s.cur = .chunk i → (stats cfg g.s).count = g.s.chunks.length) ∧
    (g.s.cur = .unallocated → stats cfg g.s = ⟨0, 0, 0, 0, 0⟩) :=
  have hg := (h.inv hc).geom
  ⟨stats_allocated_add_remaining hg, stats_capacity_le_size hg, stats_size_eq hg,
   fun i hi => stats_count hg hi, fun hu => stats_zero (Or.inr hu)⟩

/-- after every operation of every history the bump position of the current chunk lies in that chunk's
    content range and is a multiple of the minimum alignment in force, which is a supported one -/
theorem reachable_pos_aligned (hc : CfgOK cfg) (h : Reachable cfg g) :
    MinAlignOK g.s.minAlign ∧
    ∀ i, g.s.cur = .chunk i → ∃ c, g.s.chunks[i]? = some c ∧ c.contentStart cfg ≤ curPos cfg g.s ∧
      curPos cfg g.s ≤ c.contentEnd cfg ∧ g.s.minAlign ∣ curPos cfg g.s :=
  have hg := (h.inv hc).geom
  ⟨hg.minAlign, fun i hi => curPos_in_range hg hi⟩

/-- after every operation of every history every chunk has a size that is a multiple of 16, its header
    inside the granted block, the block aligned for the header (downwards: the header itself too), and
    the chunks are pairwise disjoint -/
theorem reachable_chunks_wellformed (hc : CfgOK cfg) (h : Reachable cfg g) :
    (∀ i c, g.s.chunks[i]? = some c → 16 ∣ c.size ∧ cfg.hdr.size ≤ c.size ∧ c.size ≤ c.granted ∧ cfg.hdr.align ∣ c.base ∧
      (cfg.up = false → cfg.hdr.align ∣ c.base + c.size - cfg.hdr.size)) ∧
    (∀ i j a b, i ≠ j → g.s.chunks[i]? = some a → g.s.chunks[j]? = some b →
      a.base + a.size ≤ b.base ∨ b.base + b.size ≤ a.base) :=
  have hi := h.inv hc
  ⟨fun i c hic => chunk_header_in_block hc hi.geom hic, hi.disj⟩

example : CfgOK exCfg := exCfg_ok
example : ∃ g, Reachable exCfg g ∧ (stats exCfg g.s).allocated + (stats exCfg g.s).remaining = (stats exCfg g.s).capacity :=
  let ⟨g, hg⟩ := exReach7
  ⟨g, hg, (reachable_stats_coherent exCfg_ok hg).1⟩

end C10

/-! # C01 — live allocations are valid, aligned and pairwise disjoint, in every reachable state -/

namespace C01
open Arena Arena.Hist Arena.Mem Rs

variable {cfg : Cfg} {g : GState}

/-- every reachable state satisfies `LiveOK` -/
theorem reachable_liveOK (hc : CfgOK cfg) (h : Reachable cfg g) : LiveOK cfg g.s := (h.inv hc).live

/-- spelled out: after every operation of every history every live block starts at an address that satisfies
    its alignment (a power of two), every non-empty live block lies completely inside the content range
    (never the header) of a chunk the arena currently owns, and no two live blocks share a byte -/
theorem reachable_live_blocks (hc : CfgOK cfg) (h : Reachable cfg g) :
    (∀ b ∈ g.s.live, b.align ∣ b.addr ∧ ∃ k, k < 64 ∧ b.align = 2 ^ k) ∧
    (∀ b ∈ g.s.live, 0 < b.size → ∃ c ∈ g.s.chunks, c.contentStart cfg ≤ b.addr ∧ b.addr + b.size ≤ c.contentEnd cfg ∧
        c.base ≤ b.addr ∧ b.addr + b.size ≤ c.base + c.size) ∧
    g.s.live.Pairwise (fun a b => a.size = 0 ∨ b.size = 0 ∨ a.addr + a.size ≤ b.addr ∨ b.addr + b.size ≤ a.addr) := by
  have hi := h.inv hc
  refine ⟨fun b hb => ⟨hi.live.aligned b hb, hi.aligns b hb⟩, ?_, hi.live.disjoint⟩
  intro b hb hs
  obtain ⟨i, j, c, _, _, hcj, hin, _⟩ := hi.live.placed b hb hs
  have := inContent_in_chunk hin
  exact ⟨c, List.mem_of_getElem? hcj, hin.1, hin.2, this.1, this.2⟩

/-- the block handed out by `allocate` / `allocate_zeroed` (through any wrapper) at any point of any history is
    at least as large as requested (exactly), aligned as requested, inside owned content memory and shares no
    byte with any other live block -/
theorem allocate_block_valid (hi : Inv cfg g) {L : Layout} {z : Bool} {via : Via} {resps : List BaseResp}
    {g' : GState} {id addr size : Nat} {reqs : List BaseReq} (henv : EnvOK cfg g resps)
    (hs : step cfg g (.allocate L z via) resps = .ok (g', .block id addr size, reqs)) :
    size = L.size ∧ L.align ∣ addr ∧
    (0 < size → ∃ c ∈ g'.s.chunks, c.contentStart cfg ≤ addr ∧ addr + size ≤ c.contentEnd cfg) ∧
    ∀ b ∈ g'.s.live, b.id ≠ id → b.size = 0 ∨ size = 0 ∨ b.addr + b.size ≤ addr ∨ addr + size ≤ b.addr := by
  have hi' := inv_step (op := .allocate L z via) rfl hi henv hs
  obtain ⟨e1, b0, hb0, f1, f2, f3, f4⟩ := stepCore_allocate_block (step_ok hs).1
  subst e1
  refine ⟨rfl, ?_, ?_, ?_⟩
  · have := hi'.live.aligned b0 hb0
    rw [f2, f4] at this; exact this
  · intro hpos
    obtain ⟨i, j, c, _, _, hcj, hin, _⟩ := hi'.live.placed b0 hb0 (by rw [f3]; exact hpos)
    rw [f2, f3] at hin
    exact ⟨c, List.mem_of_getElem? hcj, hin.1, hin.2⟩
  · intro b hb hne
    have hneq : b ≠ b0 := fun e => hne (by rw [e, f1])
    have := pairwise_of_mem_ne (fun _ _ => BlocksDisjoint.symm) hi'.live.disjoint hb hb0 hneq
    unfold BlocksDisjoint at this
    rw [f2, f3] at this
    exact this

example : ∃ g, Reachable exCfg g ∧ LiveOK exCfg g.s :=
  let ⟨g, hg⟩ := exReach7
  ⟨g, hg, reachable_liveOK exCfg_ok hg⟩

end C01
