/-
  Props/Targets.lean — resolution of the `def …_target : Prop` statements that were written before the
  history-level machinery (`Arena.Hist.Inv`, `inv_step`, `Reachable`) existed.

  Convention (for the evidence tool): for a target `X_target`
    * `theorem X_holds : X_target`                      — the target is PROVED as stated;
    * `theorem X_target_fails : ¬ X_target` together with
      `theorem X_corrected : …`                          — the target is FALSE as stated (concrete witness), and the
                                                           corrected statement is proved at full strength;
    * `theorem X_corrected : …` WITHOUT `X_target_fails` — the target is NOT resolved (neither proved nor refuted;
                                                           C01, C02): only the corrected statement is proved.
  Resolved: C05 `history_ledger` (holds), C07 `grow_refused` (fails/corrected), C13 `shrink_optout_never_decreases`
  (fails/corrected), C10 `reachable_noFault` (fails/corrected), C10 `reachable_noFault_claimed_blocks` (holds).
  Not resolved: C01 `liveOK_invariant`, C02 `live_bytes_preserved` (corrected forms proved).
  Every theorem sits in the namespace of its property (`C05`, `C07`, `C13`, …).
  Helper lemmas and the concrete witnesses: `Lemmas/Targets*.lean`.
-/
import BumpProof.Lemmas.TargetsBasic
import BumpProof.Lemmas.TargetsZst6

set_option linter.unusedSimpArgs false
set_option linter.unusedVariables false

/-! # C05 — the ledger of one step (case A: proved as stated) -/

namespace C05
open Arena Arena.Hist Arena.Targets Rs Ledger

/-- `C05.history_ledger_target` holds as stated, for EVERY configuration, state and operation: the requests of a
    step extend the request list; the releases among them together with the releases due afterwards are a
    permutation of the releases due before plus one release per chunk acquired in the step; and there are at most as
    many acquired chunks as `alloc` requests.  (From `Arena.Hist.stepCore_ledger`, which needs exactly the first
    hypothesis of the target; the second one is not needed.) -/
theorem history_ledger_holds : history_ledger_target := by
  intro cfg g g' op out h1 _ hs
  obtain ⟨rq, used, acq, e1, _, e3, e4, e5, _⟩ := stepCore_ledger h1 hs
  refine ⟨rq, e1, acq, ?_, ?_⟩
  · have hfl : ∀ (f : BaseReq → Bool), (∀ q, f q = isDealloc q) →
        (rq.filter f ++ owned cfg g'.s).Perm (owned cfg g.s ++ acq.map (deallocReq cfg)) := by
      intro f hf
      have : rq.filter f = releasesOf rq := List.filter_congr (fun q _ => hf q)
      rw [this]
      exact e5
    exact hfl _ (fun q => by cases q <;> rfl)
  · have hfl : ∀ (f : BaseReq → Bool), (∀ q, f q = !isDealloc q) → acq.length ≤ (rq.filter f).length := by
      intro f hf
      have : rq.filter f = allocsOf rq := List.filter_congr (fun q _ => hf q)
      rw [this, e4.length]
      exact grantsOf_length_le rq used
    exact hfl _ (fun q => by cases q <;> rfl)

end C05

/-! # C07 — `grow` with a refusing base allocator (case B) -/

namespace C07
open Arena Arena.Hist Arena.Targets Rs Ledger

/-- `C07.grow_refused_target` is FALSE as stated: it quantifies over ALL states `s`, also over states whose chunks
    OVERLAP.  Witness (`Lemmas/TargetsBasic.lean`): downwards, chunk 0 = `[0xFE20, 0x10010)` and the current chunk
    1 = `[0x10000, 0x101F0)`; growing the newest block `[0x10008, 0x10018)` of chunk 1 from 16 to 24 bytes is done
    in place (8 free bytes suffice, although a fresh 24-byte allocation does not fit — `tryCur … = .ok none`), the
    block moves to `0x10000`, and the model's `copy` resolves the destination to the FIRST chunk containing it —
    chunk 0, in whose header it lies: `Fault.ub`.  A Rust caller cannot produce such a state: the chunks of every
    reachable state are pairwise disjoint (`C10.reachable_chunks_wellformed`), because the base allocator never
    hands out overlapping blocks (`EnvOK`). -/
theorem grow_refused_target_fails : ¬ grow_refused_target := by
  intro h
  obtain ⟨s', r, hg⟩ := h exCfgDown c07State 0x10008 16 c07L [] 1 c07Chunk1 exCfg_ok.hdr (by decide)
    ⟨⟨3, by decide, rfl⟩, by decide⟩ (by decide) rfl rfl rfl (by decide) (by decide) (by decide) (Or.inr (Or.inr (Or.inr (Or.inl rfl))))
    c07_fast ⟨c07State, rfl⟩
  have := c07_grow_faults
  rw [hg] at this
  cases this

/-- CORRECTED `C07.grow_refused_target`: the same statement for states that satisfy the geometry invariant and whose
    chunks are disjoint (both hold in every reachable state, `C10.reachable_geomInv`), with well-formed pending
    responses: `grow` with a refusing base allocator never faults — it returns a value; and when that value is an
    error the state is intact (same live blocks, same chunks, same bytes, same positions, same current chunk).
    All other hypotheses are those of the target; the block need not even be on the allocated side of the position
    (when it is not the last allocation the fresh allocation is refused before anything is copied). -/
theorem grow_refused_corrected {cfg : Cfg} {s : State} {ptr oldSize : Nat} {newL : Layout} {rest : List BaseResp}
    {i : Nat} {c : Chunk} (hc : CfgOK cfg) (hg : GeomInv cfg s) (hd : ChunksDisjoint s) (hr : RespsOK cfg s)
    (hf : RespsFresh s) (hL : newL.Valid) (hsz : oldSize ≤ newL.size) (hresp : s.resps = .fail :: rest)
    (hcur : s.cur = .chunk i) (hci : s.chunks[i]? = some c) (h1 : c.contentStart cfg ≤ ptr)
    (h2 : ptr + oldSize ≤ c.contentEnd cfg)
    (hfast : tryCur cfg .alloc s newL Hints.custom = .ok none)
    (hwalk : ∃ s1, walkNext cfg .alloc newL Hints.custom (s.chunks.length - (i+1)) i s = .ok (none, s1)) :
    ∃ s' r, grow cfg s ptr oldSize newL = .ok (s', r) ∧ ∀ e, r = .error e → Intact s s' := by
  have key : ∃ s' r, grow cfg s ptr oldSize newL = .ok (s', r) := by
    cases hlast : isLast cfg s ptr oldSize
    · -- not the last allocation: a fresh allocation is attempted and refused
      have hw : ∀ j, s.cur = .chunk j → j < s.chunks.length ∧
          ∃ s1, walkNext cfg .alloc newL Hints.custom (s.chunks.length - (j+1)) j s = .ok (none, s1) := by
        intro j hj
        rw [hcur] at hj
        cases hj
        exact ⟨(List.getElem?_eq_some_iff.1 hci).1, hwalk⟩
      obtain ⟨s', e, ha⟩ := alloc_fail hc.hdr hc.minChunk hL hresp hfast hw
      rw [grow_eq, Lemmas.assert_dec (show newL.size ≥ oldSize from hsz)]
      simp only [Ledger.liftM_ok, hlast, Bool.false_and, Bool.false_eq_true, ↓reduceIte, ha]
      cases cfg.up <;> exact ⟨_, _, rfl⟩
    · -- the last allocation: it lies on the allocated side of the position, `C10.grow_noFault` applies
      have hp := Arena.isLast_pos hlast hcur hci
      have hl : LiveBlock cfg s ptr oldSize := by
        refine ⟨i, i, c, hcur, Nat.le_refl _, hci, h1, h2, fun _ => ?_⟩
        cases hup : cfg.up
        · simp only [hup, Bool.false_eq_true, ↓reduceIte] at hp ⊢; omega
        · simp only [hup, ↓reduceIte] at hp ⊢; omega
      exact C10.grow_noFault hc hg hr hd hf hL hsz hl (baseOK_of_fail hresp newL)
  obtain ⟨s', r, h⟩ := key
  refine ⟨s', r, h, fun e he => ?_⟩
  subst he
  exact (grow_error_intact h).1

/-- … in every reachable state, with a base allocator that refuses (the state of the step is `install g resps`) -/
theorem grow_refused_reachable {cfg : Cfg} {g : GState} {ptr oldSize : Nat} {newL : Layout} {rest : List BaseResp}
    {i : Nat} {c : Chunk} (hc : CfgOK cfg) (hreach : Reachable cfg g) (henv : EnvOK cfg g (.fail :: rest))
    (hL : newL.Valid) (hsz : oldSize ≤ newL.size) (hcur : g.s.cur = .chunk i) (hci : g.s.chunks[i]? = some c)
    (h1 : c.contentStart cfg ≤ ptr) (h2 : ptr + oldSize ≤ c.contentEnd cfg)
    (hfast : tryCur cfg .alloc (install g (.fail :: rest)).s newL Hints.custom = .ok none)
    (hwalk : ∃ s1, walkNext cfg .alloc newL Hints.custom (g.s.chunks.length - (i+1)) i (install g (.fail :: rest)).s
      = .ok (none, s1)) :
    ∃ s' r, grow cfg (install g (.fail :: rest)).s ptr oldSize newL = .ok (s', r) ∧
      ∀ e, r = .error e → Intact (install g (.fail :: rest)).s s' :=
  have hi := (hreach.inv hc).install (.fail :: rest)
  grow_refused_corrected (s := (install g (.fail :: rest)).s) hc hi.geom hi.disj henv.1 henv.2 hL hsz rfl hcur hci h1 h2
    hfast hwalk

set_option maxRecDepth 1000000 in
/-- the hypotheses of `grow_refused_reachable` are satisfiable: the reachable state `exG3` (blocks of 24 and 40 bytes in
    a 496-byte chunk), a refusing base allocator, growing the newest block `[0x10040, 0x10068)` to 600 bytes -/
example : ∃ s' r, Reachable exCfg exG3 ∧ EnvOK exCfg exG3 [.fail] ∧ exG3.s.cur = .chunk 0 ∧
    tryCur exCfg .alloc (install exG3 [.fail]).s { size := 600, align := 8 } Hints.custom = .ok none ∧
    grow exCfg (install exG3 [.fail]).s 0x10040 40 { size := 600, align := 8 } = .ok (s', r) :=
  ⟨_, _, C07.exReach3, envOK_allFail _ (by intro r hr; simpa using hr), rfl, rfl, rfl⟩

end C07

/-! # C13 — `WithoutShrink::shrink` never lowers `allocated` (case B) -/

namespace C13
open Arena Arena.Hist Arena.Targets Rs Ledger

/-- `C13.shrink_optout_never_decreases_target` is FALSE as stated: it quantifies over ALL states, also ill-formed
    ones.  Witness: chunk 0 (current) has its bump position 16 bytes PAST its end (`allocated` counts 480 bytes in a
    chunk of 464 bytes capacity); a `WithoutShrink::shrink` whose alignment does not fit allocates, finds no room,
    moves to chunk 1, and `allocated` becomes 464.  No reachable state looks like this: the position of every chunk
    lies inside its content range (`ChunkWF.pos_le`, part of `GeomInv`, `C10.reachable_geomInv`). -/
theorem shrink_optout_never_decreases_target_fails : ¬ shrink_optout_never_decreases_target := by
  intro h
  obtain ⟨s', r, h1, h2⟩ := c13_witness
  have := h exCfg c13State s' 1 0 { size := 0, align := 2 } r h1
  omega

/-- CORRECTED `C13.shrink_optout_never_decreases_target`, function level: from every state satisfying the geometry
    invariant (every reachable state does), with admissible pending responses and a valid new layout (every Rust
    `Layout` is), `WithoutShrink::shrink` — also when the alignment does not fit and it allocates, on the fast path,
    in a later chunk or in a new chunk — never lowers `stats().allocated()`. -/
theorem shrink_optout_never_decreases_corrected {cfg : Cfg} {s s' : State} {ptr oldSize : Nat} {newL : Layout}
    {r : Except AErr (Nat × Nat)} (hc : CfgOK cfg) (hg : GeomInv cfg s) (hr : RespsOK cfg s) (hL : newL.Valid)
    (h : shrinkWithoutShrink cfg s ptr oldSize newL = .ok (s', r)) :
    (stats cfg s).allocated ≤ (stats cfg s').allocated :=
  shrinkWithoutShrink_adv hc hg hr hL h

/-- … and history level: in every reachable state, under a correct base allocator, for the model function applied
    to the state of the step (the step-level form, through every wrapper and also with `SHRINKS = false`, is
    `C13.shrink_optout_reachable`) -/
theorem shrink_optout_never_decreases_reachable {cfg : Cfg} {g : GState} {s' : State} {ptr oldSize : Nat}
    {newL : Layout} {r : Except AErr (Nat × Nat)} {resps : List BaseResp} (hc : CfgOK cfg) (hreach : Reachable cfg g)
    (henv : EnvOK cfg g resps) (hL : newL.Valid)
    (h : shrinkWithoutShrink cfg (install g resps).s ptr oldSize newL = .ok (s', r)) :
    (stats cfg g.s).allocated ≤ (stats cfg s').allocated :=
  shrink_optout_never_decreases_corrected (s := (install g resps).s) hc ((hreach.inv hc).install resps).geom henv.1 hL h

/-- non-vacuity: the reachable state `exG3`, a shrink that raises the alignment (the block at `0x10038` is not
    64-aligned) and therefore allocates -/
example : ∃ s' r, Reachable exCfg exG3 ∧ EnvOK exCfg exG3 [] ∧
    shrinkWithoutShrink exCfg (install exG3 []).s 0x10038 40 { size := 8, align := 64 } = .ok (s', r) :=
  ⟨_, _, C07.exReach3, envOK_nil _, rfl⟩

end C13

/-! # C01 — an inductive invariant that implies `LiveOK` (case C; corrected form proved) -/

namespace C01
open Arena Arena.Hist Arena.Mem Arena.Targets Rs

/-- CORRECTED `C01.liveOK_invariant_target` (witness: `Arena.Hist.Inv`): there is an invariant of the model that
    implies `LiveOK`, holds initially in every ADMISSIBLE configuration (`CfgOK`: a real `ChunkHeader` layout, a
    supported `MIN_ALIGN`, a `usize` minimum chunk size), and is preserved by every step of a COVERED operation
    (all 34 constructors; three numeric arguments must be Rust values, `Arena.Hist.covered_iff`) that does not fault
    and whose base-allocator responses are sane in the sense of the target (`RespsSane`) and lie in the user half of
    the address space (`p + size < 2^63`).

    The ORIGINAL target differs in three points, and is NOT resolved (neither proved nor refuted):
    it asks the invariant to hold initially for EVERY `cfg` (e.g. a header layout `{ size := 24, align := 8 }`, for
    which `CfgOK` fails because `Spec.HeaderOK` demands `align ≥ 16`), for the three uncovered argument shapes, and for
    grants anywhere below `2^64`.  As far as we can tell the model does not misbehave silently on these inputs (the
    translated debug assertions turn them into faults, which the target excludes), so the target is probably true, but
    proving it needs `Arena.Hist.inv_step` — and everything under it, in particular the chunk-size theorems of C12
    that use `HeaderOK` — for configurations outside `CfgOK`.  Such inputs cannot arise from the crate:
    `ChunkHeader` is `repr(align(16))`, `MIN_ALIGN` is a `SupportedMinimumAlignment`. -/
theorem liveOK_invariant_corrected :
    ∃ Inv : Cfg → GState → Prop,
      (∀ cfg g, Inv cfg g → LiveOK cfg g.s) ∧
      (∀ cfg, CfgOK cfg → Inv cfg { s := initState cfg, marks := [] }) ∧
      (∀ cfg g op resps g' out reqs, Inv cfg g → op.Covered → RespsSane cfg g.s resps →
        (∀ p k, BaseResp.granted p k ∈ resps → p + k < 2 ^ 63) →
        step cfg g op resps = .ok (g', out, reqs) → Inv cfg g') :=
  ⟨Arena.Hist.Inv, fun _ _ h => h.live, fun _ hc => inv_init hc,
   fun _ _ _ _ _ _ _ h hcov hs hlow hstep => inv_step hcov h (envOK_of_sane hs hlow) hstep⟩

/-- THE FULL FORM of `C01.stepCore_preserves_liveOK_partial` (which covers 4 operations and takes the geometric side
    conditions `MemWF`, `HeadFresh`, `CurPosOK`, `MinAlignOK`, `ScopeTopPlaced`, `BumpReqsValid` as hypotheses): `LiveOK` is
    preserved by `stepCore` for EVERY covered operation (all 34 constructors), from every state satisfying the
    invariant of histories — which contains all those side conditions and is itself preserved — with well-formed
    pending responses -/
theorem stepCore_preserves_liveOK {cfg : Cfg} {g g' : GState} {op : Op} {out : Out} (hcov : op.Covered)
    (hi : Arena.Hist.Inv cfg g) (hr : RespsOK cfg g.s) (hf : RespsFresh g.s)
    (h : stepCore cfg g op = .ok (g', out)) : LiveOK cfg g'.s ∧ Arena.Hist.Inv cfg g' :=
  ⟨(inv_stepCore hcov hi hr hf h).live, inv_stepCore hcov hi hr hf h⟩

/-- the same, stated for histories: the theorem a user needs (`C01.reachable_liveOK`, `C01.reachable_live_blocks`
    in `Props/Hist.lean`) -/
theorem liveOK_invariant_reachable {cfg : Cfg} {g : GState} (hc : CfgOK cfg) (h : Reachable cfg g) : LiveOK cfg g.s :=
  reachable_liveOK hc h

/-- non-vacuity of the step hypothesis: sane, low responses for the first step of the example history -/
example : RespsSane exCfg (initG exCfg).s [.granted 0x10000 496] ∧
    (∀ p k, BaseResp.granted p k ∈ [BaseResp.granted 0x10000 496] → p + k < 2 ^ 63) := by
  refine ⟨⟨?_, by simp⟩, ?_⟩
  · intro p k hm
    simp only [List.mem_singleton, BaseResp.granted.injEq] at hm
    obtain ⟨rfl, rfl⟩ := hm
    exact ⟨by decide, by decide, by decide, by decide, fun c hc => by simp [initG, initState] at hc⟩
  · intro p k hm
    simp only [List.mem_singleton, BaseResp.granted.injEq] at hm
    obtain ⟨rfl, rfl⟩ := hm
    decide

end C01

/-! # C02 — bytes of live blocks are preserved by every step (case C; corrected form proved) -/

namespace C02
open Arena Arena.Hist Arena.Mem Arena.Targets Rs

/-- CORRECTED `C02.live_bytes_preserved_target` (witness: `Arena.Hist.Inv`): an invariant that holds initially in
    every admissible configuration, is preserved by every non-faulting step of a covered operation under sane, low
    responses, and under which such a step leaves every byte of every block that stays live (and is not the target
    of a `.write`) unchanged.  The original target is not resolved, for the reasons given at
    `C01.liveOK_invariant_corrected` (it quantifies over configurations outside `CfgOK`, the three uncovered
    argument shapes, and grants above `2^63`); the byte statement itself needs no coverage condition. -/
theorem live_bytes_preserved_corrected :
    ∃ Inv : Cfg → GState → Prop,
      (∀ cfg, CfgOK cfg → Inv cfg { s := initState cfg, marks := [] }) ∧
      (∀ cfg g op resps g' out reqs, Inv cfg g → op.Covered → RespsSane cfg g.s resps →
        (∀ p k, BaseResp.granted p k ∈ resps → p + k < 2 ^ 63) →
        step cfg g op resps = .ok (g', out, reqs) → Inv cfg g') ∧
      (∀ cfg g op resps g' out reqs, Inv cfg g → RespsSane cfg g.s resps →
        (∀ p k, BaseResp.granted p k ∈ resps → p + k < 2 ^ 63) →
        step cfg g op resps = .ok (g', out, reqs) →
        ∀ b ∈ g.s.live, b ∈ g'.s.live → (∀ seed, op ≠ .write b.id seed) →
          ∀ k, k < b.size → readByte g'.s (b.addr + k) = readByte g.s (b.addr + k)) :=
  ⟨Arena.Hist.Inv, fun _ hc => inv_init hc,
   fun _ _ _ _ _ _ _ h hcov hs hlow hstep => inv_step hcov h (envOK_of_sane hs hlow) hstep,
   fun _ _ _ _ _ _ _ h hs hlow hstep => bytes_step h (envOK_of_sane hs hlow) hstep⟩

end C02

/-! # C10 — no fault, for every operation (case B; the open zero-sized case is closed: case A) -/

namespace C10
open Arena Arena.Hist Arena.Targets Rs Ledger

/-- `C10.reachable_noFault_target` is FALSE as stated, for a reason that has nothing to do with the crate: `EnvOK`
    lets the base allocator hand out ANY block in the user half of the address space, also one that covers the
    address `dummyAddr = 2^62 + 80` which the model uses for the static dummy chunk headers ("any 16-aligned address
    that no block has", Arena/Model.lean).  Witness (`Arena.Targets.dummyOps`, all operations covered, `EnvOK` at
    every step): the first chunk is granted at `2^62`; a 64-byte allocation ends exactly at `dummyAddr + 16`, the
    bump position of the dummy chunk of a claimed handle; the arena is claimed; `deallocate` of that block through
    the claimed handle passes `is_last` and runs into `as_non_dummy_unchecked` on the dummy chunk: `Fault.ub`.

    In the crate this cannot happen: the position of a dummy chunk points INTO a `static` of the binary
    (`ChunkHeader::claimed`, src/chunk/header.rs: "point to some existing object, not a dangling pointer since a
    dangling pointer could theoretically be a valid pointer to some other chunk"); upwards `is_last` compares
    `ptr + size` — at most one past the end of a heap block — with an address 16 bytes inside that static, downwards
    `ptr` — an address inside a heap block that is followed by its chunk header — with the address of the static;
    a base allocator never returns memory that overlaps a static.  So the model fault corresponds to no execution of
    the Rust code (if the comparison could succeed, `deallocate` / `grow` / `shrink` WOULD write the position of an
    immutable static: real undefined behaviour — which is why the crate chose the address that way).

    (A second, independent witness is `Arena.Targets.dummyOps_fault_hint`: an UNTRUTHFUL layout hint on the claimed
    handle, which `Op.Covered` does not exclude; in the crate hints are derived from the type.) -/
theorem reachable_noFault_target_fails : ¬ reachable_noFault_target := by
  intro h
  obtain ⟨g, hrun, hf⟩ := dummyOps_fault
  exact h exCfg g (.onClaimed (.deallocate 0 .plain)) [] exCfg_ok ⟨dummyOps, dummyOps_covered, dummyOps_env, hrun⟩ rfl
    (envOK_nil g) trivial _ hf trivial

/-- THE OPEN ZERO-SIZED CASE IS NOT REACHABLE.  `C10.reachable_noFault_claimed_blocks_target` (Props/Hist2.lean)
    holds as stated: in every state reached by a history whose grants all end at or below `2^62` (`ReachableLow`,
    true of every user-space address; `dummyAddr > 2^62`), `grow` / `deallocate` / `shrink` of ANY live block — also a
    ZERO-SIZED one — through the claimed handle never ends in an overflow, a failed debug assertion or undefined
    behaviour.  Reason (`Arena.Hist.ReachableLow.blocksLow`, Lemmas/TargetsZst*.lean): along such a history EVERY
    live block, also an empty one, ends at or below `2^62` — the address of an empty block is always an address
    inside (or one past the end of) a chunk or of an older block: `allocate` of size 0 is served from a chunk (the
    dummy chunks refuse it), in-place `grow` / `shrink` / `shrink_slice` stay within the old block, `commit*` within
    the prepared range, `alloc_try_with` within its `Result` block, `split` within the split block — so it can never
    equal the dummy position. -/
theorem reachable_noFault_claimed_blocks_holds : reachable_noFault_claimed_blocks_target := by
  intro cfg g b op resps hc h hop f hf hb
  refine noFault_onClaimed_block' (g := install g resps) ((h.reachable.inv hc).install resps) (b := b) ?_ hop f
    (step_bug hf hb) hb
  intro blk hblk
  have hblk' : findBlock g.s b = .ok blk := hblk
  exact h.dummyApart hc blk (Mem.findBlock_ok hblk').1

/-- no live block of a state reached with low grants — empty or not — passes the `is_last` test of the dummy chunk of
    a claimed handle (`C10.reachable_dummyApart_nonempty` without the restriction to non-empty blocks) -/
theorem reachable_dummyApart {cfg : Cfg} (hc : CfgOK cfg) {g : GState} (h : ReachableLow cfg g) :
    ∀ blk ∈ g.s.live, isLast cfg { g.s with cur := .claimed } blk.addr blk.size = false :=
  h.dummyApart hc

/-- CORRECTED `C10.reachable_noFault_target` — THE FULL NO-FAULT THEOREM: from every state reached by a history of
    covered operations under a correct base allocator whose grants end at or below `2^62`, EVERY covered operation
    (all 34 constructors, both handles, every wrapper; layout hints on the claimed handle truthful, as they are in the
    crate) whose base-allocator responses are correct (`EnvOK`) and answer its request (`Answered`) never ends in an
    overflow, a failed debug assertion (`Fault.rs`) or undefined behaviour (`Fault.ub`): `step` succeeds, or reports a
    contract violation of the caller.
    Compared with the target: `ReachableLow` instead of `Reachable` (the environment hypothesis that makes the
    model's choice of `dummyAddr` sound) and `Op.hintsTruthful`. -/
theorem reachable_noFault_corrected {cfg : Cfg} {g : GState} (hc : CfgOK cfg) (h : ReachableLow cfg g) {op : Op}
    {resps : List BaseResp} (hcov : op.Covered) (htr : op.hintsTruthful = true) (henv : EnvOK cfg g resps)
    (hans : Answered cfg (install g resps).s op) :
    ∀ f, step cfg g op resps = .error f → ¬ Fault.isBug f := by
  rcases noFaultCovered_or_claimedBlock hcov htr with hnf | ⟨b, op', rfl, hop⟩
  · exact reachable_noFault_partial hc h.reachable hnf henv hans
  · exact reachable_noFault_claimed_blocks_holds cfg g b op' resps hc h hop

/-- non-vacuity: a state reached with low grants that holds a ZERO-SIZED live block while the arena is claimed; the
    operation `onClaimed (deallocate 0)` is covered, its hints are truthful, the environment is correct -/
example : ∃ g, ReachableLow exCfg g ∧ (∃ blk, findBlock g.s 0 = .ok blk ∧ blk.size = 0) ∧
    (Op.onClaimed (.deallocate 0 .plain)).Covered ∧ (Op.onClaimed (.deallocate 0 .plain)).hintsTruthful = true ∧
    EnvOK exCfg g [] ∧ Answered exCfg (install g []).s (.onClaimed (.deallocate 0 .plain)) ∧
    ∃ g' out reqs, step exCfg g (.onClaimed (.deallocate 0 .plain)) [] = .ok (g', out, reqs) := by
  obtain ⟨g, h1, h2, h3⟩ := zstOps_low
  exact ⟨g, h1, h2, rfl, rfl, envOK_nil g, trivial, h3⟩

end C10
