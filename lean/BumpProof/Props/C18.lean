/-
  Props/C18.lean — property C18 (position part): changing the minimum alignment keeps the bump
  position aligned.  `align_to::<N>` (entry of `aligned`, `scoped_aligned`, `with_settings`),
  `BumpAlignGuard::drop` (exit of a lowering `aligned`: the current chunk AND, since the repair of finding
  C18-e, the chunk the guard was created in), `reset_to` (exit of `scoped_aligned`),
  the position after every allocation, and the runtime checks of `with_settings`.

  Theorems are about the frozen model (`Arena/Model.lean`, `Arena/Step.lean`); the invariant
  `Arena.GeomInv` is defined in `Arena/Inv.lean` and shown to be preserved in `Props/C10.lean`.
-/
import BumpProof.Props.C10
import BumpProof.Arena.Step

set_option linter.unusedSimpArgs false

namespace C18
open Arena Rs

variable {cfg : Cfg} {s : State}

/-! ## `align_to::<N>` -/

/-- After `align_to::<N>` the position of the current chunk is a multiple of `N` (and still of the old
    minimum alignment), lies in the content range, and has moved less than `N` bytes, never towards
    the allocated side (so no handed-out byte is touched).  For `N ≤ MIN_ALIGN` nothing changes. -/
theorem alignTo_position (hc : CfgOK cfg) (h : GeomInv cfg s) {n : Nat} (hn : MinAlignOK n)
    {s' : State} (he : alignTo cfg s n = .ok s') {i : Nat} (hcur : s.cur = .chunk i) :
    ∃ c, s.chunks[i]? = some c ∧ s'.cur = .chunk i ∧
      n ∣ curPos cfg s' ∧ s.minAlign ∣ curPos cfg s' ∧
      c.contentStart cfg ≤ curPos cfg s' ∧ curPos cfg s' ≤ c.contentEnd cfg ∧
      (n ≤ s.minAlign → s' = s) ∧
      (if cfg.up then c.pos ≤ curPos cfg s' ∧ curPos cfg s' < c.pos + n
       else curPos cfg s' ≤ c.pos ∧ c.pos < curPos cfg s' + n) := by
  obtain ⟨s1, e1, e2, e3, e4, e5, e6, e7, e8⟩ := alignTo_ok hc h hn
  rw [e1] at he; cases he
  obtain ⟨c, hi, hw, hd⟩ := h.curChunk hcur
  have hs' := e8 i c hcur hi
  have hcur' : s'.cur = .chunk i := e5.trans hcur
  obtain ⟨c', hi', hw', hd'⟩ := e2.curChunk hcur'
  obtain ⟨c'', hi'', hdn⟩ := e3.cur i hcur'
  have hcc : c'' = c' := by
    have : s'.chunks[i]? = some c'' := hi''
    rw [hi'] at this; cases this; rfl
  subst hcc
  have hp : curPos cfg s' = c''.pos := curPos_chunk hcur' hi'
  have hpos : c''.pos = if n > s.minAlign then alignPos cfg.up n c.pos else c.pos := by
    have : s'.chunks[i]? = some { c with pos := if n > s.minAlign then alignPos cfg.up n c.pos else c.pos } := by
      rw [hs', setPos_getElem?, if_pos rfl, hi]; rfl
    rw [hi'] at this; cases this; rfl
  have hmem : c.contentStart cfg ≤ c''.pos ∧ c''.pos ≤ c.contentEnd cfg := by
    rw [hpos]; split
    · exact hw.alignPos_mem hc hn hw.pos_ge hw.pos_le
    · exact ⟨hw.pos_ge, hw.pos_le⟩
  refine ⟨c, hi, hcur', by rw [hp]; exact hdn, by rw [hp, ← e6]; exact hd', by rw [hp]; exact hmem.1,
    by rw [hp]; exact hmem.2, ?_, ?_⟩
  · intro hle
    have : ¬ n > s.minAlign := by omega
    unfold alignTo at e1
    simp only [this, ↓reduceIte] at e1
    cases e1; rfl
  · rw [hp, hpos]
    have hnp := hn.pos
    by_cases hgt : n > s.minAlign
    · simp only [hgt, ↓reduceIte]
      unfold alignPos
      cases cfg.up
      · simp only [Bool.false_eq_true, ↓reduceIte]
        exact ⟨Lemmas.downAlign_le _ _, Lemmas.lt_downAlign_add _ hnp⟩
      · simp only [↓reduceIte]
        exact ⟨Lemmas.le_upAlign _ hnp, Lemmas.upAlign_lt _ hnp⟩
    · simp only [hgt, ↓reduceIte]
      split <;> omega

theorem alignTo_noFault (hc : CfgOK cfg) (h : GeomInv cfg s) {n : Nat} (hn : MinAlignOK n) :
    ∃ s', alignTo cfg s n = .ok s' := C10.alignTo_noFault hc h hn

/-- entering `aligned::<N>` / `with_settings`: the state with the new minimum alignment satisfies the invariant -/
theorem alignTo_new_minAlign (hc : CfgOK cfg) (h : GeomInv cfg s) {n : Nat} (hn : MinAlignOK n)
    {s' : State} (he : alignTo cfg s n = .ok s') : GeomInv cfg { s' with minAlign := n } :=
  (C10.alignTo_inv hc h hn he).2.1

example : ∃ s', alignTo exCfg exState 16 = .ok s' := alignTo_noFault exCfg_ok exState_inv (by unfold MinAlignOK; omega)

/-! ## `BumpAlignGuard::drop` -/

/-- When a lowering `aligned::<N>` region ends (also by unwinding: the guard's `drop` runs) the position
    is again a multiple of the outer minimum alignment, inside the content range, moved by less than
    `outer` bytes towards the free side only.  (`alignGuardDrop` is the first half of the guard's `drop`,
    `align_chunk(current)`; the second half `alignChunkAt` — the chunk the guard STARTED in, when that is another
    chunk — does not touch the current chunk: `alignGuard_drop_position` below is the same statement for the
    whole `drop`.) -/
theorem alignGuardDrop_position (hc : CfgOK cfg) (h : GeomInv cfg s) {outer : Nat} (hn : MinAlignOK outer)
    {s' : State} (he : alignGuardDrop cfg s outer = .ok s') {i : Nat} (hcur : s.cur = .chunk i) :
    ∃ c, s.chunks[i]? = some c ∧ s'.cur = .chunk i ∧ outer ∣ curPos cfg s' ∧
      c.contentStart cfg ≤ curPos cfg s' ∧ curPos cfg s' ≤ c.contentEnd cfg ∧
      (if cfg.up then c.pos ≤ curPos cfg s' ∧ curPos cfg s' < c.pos + outer
       else curPos cfg s' ≤ c.pos ∧ c.pos < curPos cfg s' + outer) := by
  obtain ⟨s1, e1, e2, e3, e4, e5, e6, e7, e8⟩ := alignGuardDrop_ok hc h hn
  rw [e1] at he; cases he
  obtain ⟨c, hi, hw, hd⟩ := h.curChunk hcur
  have hs' := e8 i c hcur hi
  have hcur' : s'.cur = .chunk i := e5.trans hcur
  have hi' : s'.chunks[i]? = some { c with pos := alignPos cfg.up outer c.pos } := by
    rw [hs', setPos_getElem?, if_pos rfl, hi]; rfl
  have hp : curPos cfg s' = alignPos cfg.up outer c.pos := curPos_chunk hcur' hi'
  have hmem := hw.alignPos_mem hc hn hw.pos_ge hw.pos_le
  have hnp := hn.pos
  refine ⟨c, hi, hcur', by rw [hp]; exact alignPos_dvd _ _ _, by rw [hp]; exact hmem.1, by rw [hp]; exact hmem.2, ?_⟩
  rw [hp]
  unfold alignPos
  cases cfg.up
  · simp only [Bool.false_eq_true, ↓reduceIte]
    exact ⟨Lemmas.downAlign_le _ _, Lemmas.lt_downAlign_add _ hnp⟩
  · simp only [↓reduceIte]
    exact ⟨Lemmas.le_upAlign _ hnp, Lemmas.upAlign_lt _ hnp⟩

theorem alignGuardDrop_outer_minAlign (hc : CfgOK cfg) (h : GeomInv cfg s) {outer : Nat} (hn : MinAlignOK outer)
    {s' : State} (he : alignGuardDrop cfg s outer = .ok s') : GeomInv cfg { s' with minAlign := outer } :=
  (C10.alignGuardDrop_inv hc h hn he).2.1

example : ∃ s', alignGuardDrop exCfg exState 16 = .ok s' :=
  C10.alignGuardDrop_noFault exCfg_ok exState_inv (by unfold MinAlignOK; omega)

/-- Second half of `BumpAlignGuard::drop` (`if self.start.header != current.header { align_chunk(self.start) }`,
    added with the repair of finding C18-e): the chunk `j` that was current when the guard was created — the
    chunk a scope still points at when the region ran on a by-value copy of it that moved on to another
    chunk — is re-aligned too.  Afterwards its position is a multiple of the outer minimum alignment (when it IS
    the current chunk nothing is done: `alignGuardDrop` has aligned it, hypothesis `hal`), it lies in the content
    range and has moved by less than `outer` bytes towards the free side only (no handed-out byte is given
    away); every other chunk, in particular the current one, and the choice of the current chunk are untouched.
    So AT `alignedExit` THE POSITION OF ONE CHUNK OTHER THAN THE CURRENT ONE MAY MOVE UP (DOWN for downwards
    bumping) BY LESS THAN `outer` BYTES. -/
theorem alignChunkAt_position (hc : CfgOK cfg) (h : GeomInv cfg s) {outer : Nat} (hn : MinAlignOK outer)
    {j : Nat} {c : Chunk} (hj : s.chunks[j]? = some c) (hal : s.cur = .chunk j → outer ∣ c.pos)
    {s' : State} (he : alignChunkAt cfg s outer (.chunk j) = .ok s') :
    ∃ c', s'.chunks[j]? = some c' ∧ outer ∣ c'.pos ∧ c'.base = c.base ∧ c'.size = c.size ∧
      c.contentStart cfg ≤ c'.pos ∧ c'.pos ≤ c.contentEnd cfg ∧
      (if cfg.up then c.pos ≤ c'.pos ∧ c'.pos < c.pos + outer else c'.pos ≤ c.pos ∧ c.pos < c'.pos + outer) ∧
      (∀ k, k ≠ j → s'.chunks[k]? = s.chunks[k]?) ∧ s'.cur = s.cur ∧ curPos cfg s' = curPos cfg s := by
  have hw := h.chunks j c hj
  have hnp := hn.pos
  suffices hx : ∃ c', s'.chunks[j]? = some c' ∧ outer ∣ c'.pos ∧ c'.base = c.base ∧ c'.size = c.size ∧
      c.contentStart cfg ≤ c'.pos ∧ c'.pos ≤ c.contentEnd cfg ∧
      (if cfg.up then c.pos ≤ c'.pos ∧ c'.pos < c.pos + outer else c'.pos ≤ c.pos ∧ c.pos < c'.pos + outer) ∧
      (∀ k, k ≠ j → s'.chunks[k]? = s.chunks[k]?) by
    obtain ⟨c', h1, h2, h3, h4, h5, h6, h7, h8⟩ := hx
    exact ⟨c', h1, h2, h3, h4, h5, h6, h7, h8, alignChunkAt_cur_eq he, curPos_alignChunkAt he⟩
  by_cases hcur : s.cur = .chunk j
  · have : s' = s := by
      unfold alignChunkAt at he
      simp only [if_pos hcur, r_pure] at he
      cases he; rfl
    subst this
    refine ⟨c, hj, hal hcur, rfl, rfl, hw.pos_ge, hw.pos_le, ?_, fun _ _ => rfl⟩
    split <;> omega
  · have hs' : s' = setPos s j (alignPos cfg.up outer c.pos) := by
      unfold alignChunkAt at he
      simp only [if_neg hcur, hj, r_pure, r_ok_bind, hw.align_pos_eq hc hn hw.pos_le, liftM_ok] at he
      cases he; rfl
    subst hs'
    have hmem := hw.alignPos_mem hc hn hw.pos_ge hw.pos_le
    refine ⟨{ c with pos := alignPos cfg.up outer c.pos }, by rw [setPos_getElem?, if_pos rfl, hj]; rfl,
      alignPos_dvd _ _ _, rfl, rfl, hmem.1, hmem.2, ?_, fun k hk => by rw [setPos_getElem?, if_neg (Ne.symm hk)]⟩
    show if cfg.up then c.pos ≤ alignPos cfg.up outer c.pos ∧ alignPos cfg.up outer c.pos < c.pos + outer
      else alignPos cfg.up outer c.pos ≤ c.pos ∧ c.pos < alignPos cfg.up outer c.pos + outer
    unfold alignPos
    cases cfg.up
    · simp only [Bool.false_eq_true, ↓reduceIte]
      exact ⟨Lemmas.downAlign_le _ _, Lemmas.lt_downAlign_add _ hnp⟩
    · simp only [↓reduceIte]
      exact ⟨Lemmas.le_upAlign _ hnp, Lemmas.upAlign_lt _ hnp⟩

/-- non-vacuity of `alignChunkAt_position`: chunk 1 of the example arena while chunk 0 is current -/
example : exState.chunks[1]? = some exChunk2 ∧ (exState.cur = .chunk 1 → 16 ∣ exChunk2.pos) ∧
    ∃ s', alignChunkAt exCfg exState 16 (.chunk 1) = .ok s' :=
  ⟨rfl, fun h => by simp [exState] at h, C10.alignChunkAt_noFault exCfg_ok exState_inv (by unfold MinAlignOK; omega) _⟩

/-- `alignGuardDrop_position` for the WHOLE `BumpAlignGuard::drop` (`alignGuardDrop`, then `alignChunkAt` for the
    chunk `st` the guard started in): the current position ends as a multiple of the outer minimum alignment,
    inside the content range, moved by less than `outer` bytes towards the free side only; and the state with
    the outer minimum alignment satisfies the geometry invariant. -/
theorem alignGuard_drop_position (hc : CfgOK cfg) (h : GeomInv cfg s) {outer : Nat} (hn : MinAlignOK outer) {st : Cur}
    {s1 s' : State} (he1 : alignGuardDrop cfg s outer = .ok s1) (he2 : alignChunkAt cfg s1 outer st = .ok s')
    {i : Nat} (hcur : s.cur = .chunk i) :
    (∃ c, s.chunks[i]? = some c ∧ s'.cur = .chunk i ∧ outer ∣ curPos cfg s' ∧
      c.contentStart cfg ≤ curPos cfg s' ∧ curPos cfg s' ≤ c.contentEnd cfg ∧
      (if cfg.up then c.pos ≤ curPos cfg s' ∧ curPos cfg s' < c.pos + outer
       else curPos cfg s' ≤ c.pos ∧ c.pos < curPos cfg s' + outer)) ∧
    GeomInv cfg { s' with minAlign := outer } := by
  obtain ⟨c, h1, h2, h3⟩ := alignGuardDrop_position hc h hn he1 hcur
  obtain ⟨g1, g2, _⟩ := C10.alignGuardDrop_inv hc h hn he1
  refine ⟨⟨c, h1, (alignChunkAt_cur_eq he2).trans h2, ?_⟩, (C10.alignChunkAt_inv hc g1 hn he2).2.1 g2⟩
  rw [curPos_alignChunkAt he2]; exact h3

/-- the whole `drop` never faults -/
theorem alignGuard_drop_noFault (hc : CfgOK cfg) (h : GeomInv cfg s) {outer : Nat} (hn : MinAlignOK outer) (st : Cur) :
    ∃ s1 s', alignGuardDrop cfg s outer = .ok s1 ∧ alignChunkAt cfg s1 outer st = .ok s' := by
  obtain ⟨s1, e1⟩ := C10.alignGuardDrop_noFault hc h hn
  obtain ⟨s', e2⟩ := C10.alignChunkAt_noFault hc (C10.alignGuardDrop_inv hc h hn e1).1 hn st
  exact ⟨s1, s', e1, e2⟩

/-- non-vacuity: a guard created in chunk 1 of the example arena and dropped while chunk 0 is current -/
example : ∃ s1 s', alignGuardDrop exCfg exState 16 = .ok s1 ∧ alignChunkAt exCfg s1 16 (.chunk 1) = .ok s' :=
  alignGuard_drop_noFault exCfg_ok exState_inv (by unfold MinAlignOK; omega) _

/-! ## `reset_to` -/

/-- `reset_to` leaves the position a multiple of the minimum alignment of the handle that resets (the
    checkpoint may stem from a region with a lower one), and it is EXACTLY the checkpoint address when
    that address is already aligned — e.g. when `scoped_aligned` returns: the checkpoint was taken
    by the outer handle before `align_to`. -/
theorem resetTo_position (hc : CfgOK cfg) (h : GeomInv cfg s) {cp : Checkpoint} (hcp : CheckpointOK cfg s cp)
    {s' : State} (he : resetTo cfg s cp = .ok s') {i : Nat} (hk : cp.cur = .chunk i) :
    s'.cur = .chunk i ∧ s.minAlign ∣ curPos cfg s' ∧ (s.minAlign ∣ cp.addr → curPos cfg s' = cp.addr) := by
  obtain ⟨s1, e1, e2, e3, e4, e5, e6⟩ := resetTo_ok hc h hcp
  rw [e1] at he; cases he
  obtain ⟨g1, g2⟩ := e6 i hk
  refine ⟨g1, by rw [g2]; exact alignPos_dvd _ _ _, ?_⟩
  intro hd
  rw [g2, alignPos_eq_self h.minAlign.pos hd]

example : CheckpointOK exCfg exState { cur := .chunk 0, addr := 0x10000 + 32 + 3 } :=
  ⟨exChunk, rfl, by decide, by decide⟩

/-- `scoped_aligned::<N>` exit: the guard was created by the OUTER handle, so `reset_to` runs with the
    outer minimum alignment `outer` while the arena is still in the inner region (minimum alignment
    `s.minAlign`, possibly lower).  It does not fault, re-establishes the invariant for `outer`, and the
    position is exactly the entry position (the checkpoint was taken by the outer handle, hence
    `outer`-aligned). -/
theorem resetTo_outer (hc : CfgOK cfg) (h : GeomInv cfg s) {outer : Nat} (ho : MinAlignOK outer) {cp : Checkpoint}
    (hcp : CheckpointOK cfg s cp) :
    ∃ s', resetTo cfg { s with minAlign := outer } cp = .ok s' ∧ GeomInv cfg s' ∧ s'.minAlign = outer ∧
      SameShape s s' ∧
      (∀ i, cp.cur = .chunk i → s'.cur = .chunk i ∧ outer ∣ curPos cfg s' ∧
        (outer ∣ cp.addr → curPos cfg s' = cp.addr)) := by
  obtain ⟨s1, e1, e2, e3, e4, e5, e6⟩ := resetTo_ok_min hc h ho hcp
  refine ⟨s1, e1, e2, e4, e3, ?_⟩
  intro i hi
  obtain ⟨g1, g2⟩ := e6 i hi
  refine ⟨g1, by rw [g2]; exact alignPos_dvd _ _ _, ?_⟩
  intro hd
  rw [g2, alignPos_eq_self ho.pos hd]

/-- leaving a raising `aligned::<N>` region (or any switch to a LOWER minimum alignment) needs no
    re-alignment: the position is already a multiple of the lower alignment -/
theorem lower_minAlign (h : GeomInv cfg s) {m : Nat} (hm : MinAlignOK m) (hle : m ≤ s.minAlign) :
    GeomInv cfg { s with minAlign := m } := by
  apply h.withMinAlign hm
  intro i c hi hci
  obtain ⟨c', hc', hd⟩ := h.cur i hi
  rw [hci] at hc'; cases hc'
  exact Nat.dvd_trans (hm.p2.dvd_of_le h.minAlign.p2 hle) hd

example : MinAlignOK 2 ∧ 2 ≤ exState.minAlign := ⟨Or.inr (Or.inl rfl), by decide⟩

/-! ## every allocation keeps the position aligned -/

/-- after `RawChunk::alloc` the position is a multiple of the minimum alignment in force -/
theorem tryCur_alloc_position (hc : CfgOK cfg) (h : GeomInv cfg s) {L : Layout} {hints : Hints} (hL : L.Valid)
    (hh : hints.sma = true → L.align ∣ L.size) {v : Nat × Nat} {s' : State}
    (he : tryCur cfg .alloc s L hints = .ok (some (v, s'))) :
    s.minAlign ∣ curPos cfg s' ∧ L.align ∣ v.1 := by
  obtain ⟨i, c, np, hcur, hi, hs', _, _, h3, h4, _⟩ := C10.tryCur_alloc_block hc h hL hh he
  subst hs'
  rw [curPos_setCurPos hcur hi]
  exact ⟨h3, h4⟩

/-- the same through the slow path (`alloc` / `alloc_sized` / … including chunk switches while the
    alignment is lowered): the position of the chunk that is current afterwards is aligned -/
theorem allocGeneric_position (hc : CfgOK cfg) (h : GeomInv cfg s) (hr : RespsOK cfg s) (k : Kind)
    {L : Layout} {hints hSlow : Hints} (hL : L.Valid) (hh : hints.sma = true → L.align ∣ L.size)
    (hhs : hSlow.sma = true → L.align ∣ L.size) (hk : k = .range → L.align ∣ L.size)
    {s' : State} {r : Except AErr (Nat × Nat)} (he : allocGeneric cfg k s L hints hSlow = .ok (s', r))
    {j : Nat} (hj : s'.cur = .chunk j) : s.minAlign ∣ curPos cfg s' := by
  have p := C10.allocGeneric_inv hc h hr k hL hh hhs hk he
  obtain ⟨c, hi, _, hd⟩ := p.inv.curChunk hj
  rw [curPos_chunk hj hi, ← p.minAlign]
  exact hd

/-! ## the runtime checks of `with_settings` -/

theorem stepCore_withSettings {g : GState} {n : Nat} (ga cl : Bool) (hn : MinAlignOK n)
    (hf : g.s.frames = []) (hp : g.s.prepared = none) :
    stepCore cfg g (.withSettings n ga cl) =
      if (!cl && g.s.cur == .claimed) = true then .ok (g, .panic "claimed")
      else if (ga && g.s.cur == .unallocated) = true then .ok (g, .panic "unallocated")
      else alignTo cfg g.s n >>= fun s' => pure ({ g with s := { s' with minAlign := n } }, .unit) := by
  rw [stepCore]
  have h1 : noFrames g.s = .ok () := by unfold noFrames; rw [hf]; rfl
  have h2 : noPrepared g.s = .ok () := by unfold noPrepared; rw [hp]; rfl
  have h3 : (!(n == 1 || n == 2 || n == 4 || n == 8 || n == 16)) = false := by
    rcases hn with h | h | h | h | h <;> subst h <;> rfl
  simp only [h1, h2, h3, r_ok_bind, Bool.false_eq_true, ↓reduceIte]
  rfl

/-- `with_settings` panics exactly when it needs an unclaimed arena but is claimed, or needs an
    allocated arena but is unallocated; it never faults -/
theorem withSettings_panics_iff (hc : CfgOK cfg) {g : GState} (h : GeomInv cfg g.s) {n : Nat} (ga cl : Bool)
    (hn : MinAlignOK n) (hf : g.s.frames = []) (hp : g.s.prepared = none) :
    (∃ g' out, stepCore cfg g (.withSettings n ga cl) = .ok (g', out)) ∧
    ((∃ g' msg, stepCore cfg g (.withSettings n ga cl) = .ok (g', .panic msg)) ↔
      ((cl = false ∧ g.s.cur = .claimed) ∨ (ga = true ∧ g.s.cur = .unallocated))) := by
  rw [stepCore_withSettings ga cl hn hf hp]
  obtain ⟨s1, e1⟩ := C10.alignTo_noFault hc h hn
  by_cases hA : cl = false ∧ g.s.cur = .claimed
  · have : (!cl && g.s.cur == .claimed) = true := by simp [hA.1, hA.2]
    simp only [this, ↓reduceIte]
    exact ⟨⟨_, _, rfl⟩, fun _ => Or.inl hA, fun _ => ⟨_, _, rfl⟩⟩
  · have hA' : ¬ (!cl && g.s.cur == .claimed) = true := by
      intro hx; apply hA
      simp only [Bool.and_eq_true, Bool.not_eq_true', beq_iff_eq] at hx
      exact hx
    simp only [hA', ↓reduceIte]
    by_cases hB : ga = true ∧ g.s.cur = .unallocated
    · have : (ga && g.s.cur == .unallocated) = true := by simp [hB.1, hB.2]
      simp only [this, ↓reduceIte]
      exact ⟨⟨_, _, rfl⟩, fun _ => Or.inr hB, fun _ => ⟨_, _, rfl⟩⟩
    · have hB' : ¬ (ga && g.s.cur == .unallocated) = true := by
        intro hx; apply hB
        simp only [Bool.and_eq_true, beq_iff_eq] at hx
        exact hx
      simp only [hB', ↓reduceIte, e1, r_ok_bind]
      refine ⟨⟨_, _, rfl⟩, ?_, ?_⟩
      · rintro ⟨g', msg, hx⟩
        cases hx
      · rintro (hx | hx)
        · exact absurd hx hA
        · exact absurd hx hB

/-- when `with_settings` does not panic the new handle's minimum alignment holds for the position -/
theorem withSettings_ok (hc : CfgOK cfg) {g : GState} (h : GeomInv cfg g.s) {n : Nat} (ga cl : Bool)
    (hn : MinAlignOK n) (hf : g.s.frames = []) (hp : g.s.prepared = none)
    (hA : ¬ (cl = false ∧ g.s.cur = .claimed)) (hB : ¬ (ga = true ∧ g.s.cur = .unallocated)) :
    ∃ g', stepCore cfg g (.withSettings n ga cl) = .ok (g', .unit) ∧ GeomInv cfg g'.s ∧ g'.s.minAlign = n := by
  rw [stepCore_withSettings ga cl hn hf hp]
  obtain ⟨s1, e1⟩ := C10.alignTo_noFault hc h hn
  have hA' : ¬ (!cl && g.s.cur == .claimed) = true := by
    intro hx; apply hA
    simp only [Bool.and_eq_true, Bool.not_eq_true', beq_iff_eq] at hx
    exact hx
  have hB' : ¬ (ga && g.s.cur == .unallocated) = true := by
    intro hx; apply hB
    simp only [Bool.and_eq_true, beq_iff_eq] at hx
    exact hx
  simp only [hA', hB', ↓reduceIte, e1, r_ok_bind]
  exact ⟨_, rfl, (C10.alignTo_inv hc h hn e1).2.1, rfl⟩

example : (initState exCfg).frames = [] ∧ (initState exCfg).prepared = none := ⟨rfl, rfl⟩

end C18
