/-
  Props/C07Coll.lean — the collection clause of property C07: a collection on which a single
  push / insert / reserve / extend / append / resize FAILED still has its previous length and contents;
  nothing is leaked or dropped twice; `try_*` methods return `Err`, panicking methods never return normally.

  Model: `Coll/Vecs.lean` / `Coll/Rev.lean`.  Every growing operation starts with `generic_reserve*(…)?`
  (`fixed_bump_vec.rs` l.1629 / l.2374, `bump_vec.rs` l.1909 / l.2655, `mut_bump_vec.rs`, `mut_bump_vec_rev.rs`
  l.1869 / l.2265; the four types share the text of the operations).  A refused reservation is
  `reserve … = none` / `reserveOne … = none` / `rreserve … = none`; the model's exit `.panic false` stands for
  BOTH faces of the early return: `Err(_)` of the `try_*` method and the unwinding of its panicking twin
  (`panic_on_error`) — neither returns normally.
  When is it refused (`*_refused_*` below): a `FixedBumpVec` / `BumpBox` that is too full; a `MutBumpVec` /
  `MutBumpVecRev` for which even what the arena can give (`capIn`, observed) is not enough.  A `BumpVec` whose
  allocator refuses takes the same early return — in the correspondence runs (`coll … failing`) it is
  announced to the driver as kind `fixed`: "a vector for which every growth is refused".
  The "capacity overflow" of `BumpVec::splice` with a lying `size_hint` (the reservation panics in the MIDDLE of
  `Splice::drop`) is `C06.splice_drops_once` / `C06.splice_overflow_contents` / `C08.splice_refines`.

  All statements: for every vector, every argument, every oracle; no `sorry`, no axioms beyond the standard three.
-/
import BumpProof.Lemmas.CollFail
import BumpProof.Lemmas.CollWF
import BumpProof.Props.C06

namespace C07Coll
open Coll

/-! ## when a reservation is refused -/

theorem reserve_refused_fixed (env : Env) (v : Vec) (n : Nat) (hk : env.kind = .fixed ∨ env.kind = .box)
    (hn : n > v.cap - v.len) : reserve env v n = none := Coll.reserve_refused_fixed env v n hk hn

theorem reserveOne_refused_fixed (env : Env) (v : Vec) (hk : env.kind = .fixed ∨ env.kind = .box)
    (hn : v.len ≥ v.cap) : reserveOne env v = none := Coll.reserveOne_refused_fixed env v hk hn

theorem reserve_refused_mut (env : Env) (v : Vec) (n : Nat) (hk : env.kind = .mut ∨ env.kind = .rev)
    (hn : n > v.cap - v.len) (hc : v.len + n > env.capIn) : reserve env v n = none :=
  Coll.reserve_refused_mut env v n hk hn hc

theorem reserveOne_refused_mut (env : Env) (v : Vec) (hk : env.kind = .mut ∨ env.kind = .rev)
    (hn : v.cap = v.len) (hc : v.len + 1 > env.capIn) : reserveOne env v = none :=
  Coll.reserveOne_refused_mut env v hk hn hc

theorem reserve_exact_refused_fixed (env : Env) (v : Vec) (n : Nat) (hk : env.kind = .fixed ∨ env.kind = .box)
    (hn : n > v.cap - v.len) : reserveExact env v n = none := Coll.reserveExact_refused_fixed env v n hk hn

theorem reserve_exact_refused_mut (env : Env) (v : Vec) (n : Nat) (hk : env.kind = .mut ∨ env.kind = .rev)
    (hn : n > v.cap - v.len) (hc : v.len + n > env.capIn) : reserveExact env v n = none :=
  Coll.reserveExact_refused_mut env v n hk hn hc

theorem rev_reserve_refused (env : Env) (v : Vec) (n : Nat) (hn : n > v.cap - v.len) (hc : v.len + n > env.capIn) :
    rreserve env v n = none := Coll.rreserve_refused env v n hn hc

/-- "capacity overflow": a request whose total `len + additional` exceeds the largest element count with a valid
    layout (`maxCap = isize::MAX / size_of::<T>()`) is refused by EVERY kind of vector — `FixedBumpVec`, `BumpVec`,
    `MutBumpVec`, `MutBumpVecRev` —, whatever the allocator could give, before anything is touched
    (`try_*`: `Err`, panicking twin: "capacity overflow"); with the `*_failed_unchanged` theorems below: the
    vector is as it was -/
theorem reserve_overflow_refused (env : Env) (v : Vec) (n m : Nat) (hm : env.maxCap = some m) (hl : v.len ≤ v.cap)
    (hc : v.cap ≤ m) (h : v.len + n > m) : reserve env v n = none := Coll.reserve_overflow_refused env v n m hm hl hc h

theorem reserve_exact_overflow_refused (env : Env) (v : Vec) (n m : Nat) (hm : env.maxCap = some m) (hl : v.len ≤ v.cap)
    (hc : v.cap ≤ m) (h : v.len + n > m) : reserveExact env v n = none :=
  Coll.reserveExact_overflow_refused env v n m hm hl hc h

theorem rev_reserve_overflow_refused (env : Env) (v : Vec) (n m : Nat) (hm : env.maxCap = some m) (hl : v.len ≤ v.cap)
    (hc : v.cap ≤ m) (h : v.len + n > m) : rreserve env v n = none := Coll.rreserve_overflow_refused env v n m hm hl hc h

/-- non-vacuity: a `BumpVec<u64>` (`maxCap = (2^63-1)/8`) holding 3 of 4: `try_reserve_exact(usize::MAX/8 + 1)` and
    `try_reserve(usize::MAX)` are refused, `try_reserve(1)` is not -/
example : reserveExact { kind := .bump, maxCap := some 1152921504606846975 } (Vec.mk' [1, 2, 3] 1) 2305843009213693952 = none ∧
    reserve { kind := .bump, maxCap := some 1152921504606846975 } (Vec.mk' [1, 2, 3] 1) 18446744073709551615 = none ∧
    reserve { kind := .bump, maxCap := some 1152921504606846975 } (Vec.mk' [1, 2, 3] 1) 1 = some (Vec.mk' [1, 2, 3] 1) := by
  decide

/-- a reservation never touches the vector it is refused for (`reserve` / `reserve_exact` are functions of the
    vector: the caller keeps `v`), and it is refused only when it does not fit -/
theorem reserve_refused_only_if_needed (env : Env) (v : Vec) (n : Nat) (h : reserve env v n = none) :
    n > v.cap - v.len := by
  unfold reserve at h
  by_cases hh : n > v.cap - v.len
  · exact hh
  · simp [hh] at h

/-! ## one failed operation leaves the vector as it was -/

/-- `try_push` / `push` -/
theorem push_failed_unchanged (env : Env) (v : Vec) (id : Id) (h : reserveOne env v = none) :
    push env v id = .ok ⟨dropArg v id, .panic false, []⟩ := push_refused env v id h

/-- `try_insert` / `insert` (any index) -/
theorem insert_failed_unchanged (env : Env) (v : Vec) (i : Nat) (id : Id) (h : reserveOne env v = none) :
    insert env v i id = .ok ⟨dropArg v id, .panic false, []⟩ := insert_refused env v i id h

/-- `try_extend_from_slice_clone`: not a single `Clone::clone` ran (the oracle is untouched) -/
theorem extend_from_slice_clone_failed_unchanged (env : Env) (v : Vec) (n : Nat) (o : List Outcome)
    (h : reserve env v n = none) : extendFromSliceClone env v n o = .ok ⟨v, .panic false, o⟩ :=
  extendFromSliceClone_refused env v n o h

/-- `try_extend_from_within_clone` -/
theorem extend_from_within_clone_failed_unchanged (env : Env) (v : Vec) (s e : Nat) (o : List Outcome)
    (h : reserve env v (e - s) = none) : extendFromWithinClone env v s e o = .ok ⟨v, .panic false, o⟩ :=
  extendFromWithinClone_refused env v s e o h

/-- `try_resize(new_len, value)`: `value` is dropped, nothing else happens -/
theorem resize_failed_unchanged (env : Env) (v : Vec) (n : Nat) (value : Id) (o : List Outcome)
    (h : reserve env v (n - v.len) = none) : resize env v n value o = .ok ⟨dropArg v value, .panic false, o⟩ :=
  resize_refused env v n value o h

/-- `try_resize_with(new_len, f)`: `f` is not called -/
theorem resize_with_failed_unchanged (env : Env) (v : Vec) (n : Nat) (o : List Outcome)
    (h : reserve env v (n - v.len) = none) : resizeWith env v n o = .ok ⟨v, .panic false, o⟩ :=
  resizeWith_refused env v n o h

/-- `try_append(other)`: `self` is untouched, the owned slice passed in is dropped with exactly its elements -/
theorem append_failed_unchanged (env : Env) (v other : Vec) (ho : other.WF) (h : reserve env v other.len = none) :
    ∃ other', append env v other = .ok (⟨v, .panic false, []⟩, other') ∧ other'.len = 0 ∧ other'.abs = [] ∧
      other'.dropLog = other.dropLog ++ other.abs ∧ other'.escaped = other.escaped := by
  have ⟨hs, hl⟩ := ho.slots_eq
  refine ⟨_, append_refused env v other other.abs (other.cap - other.len) h hs hl, rfl, ?_, rfl, rfl⟩
  simp [Vec.abs, idsOf]

/-- `MutBumpVecRev` -/
theorem rev_push_failed_unchanged (env : Env) (v : Vec) (id : Id) (h : rreserve env v 1 = none) :
    rpush env v id = .ok ⟨dropArg v id, .panic false, []⟩ := rpush_refused env v id h

theorem rev_insert_failed_unchanged (env : Env) (v : Vec) (i : Nat) (id : Id) (h : rreserve env v 1 = none) :
    rinsert env v i id = .ok ⟨dropArg v id, .panic false, []⟩ := rinsert_refused env v i id h

theorem rev_extend_from_slice_clone_failed_unchanged (env : Env) (v : Vec) (n : Nat) (o : List Outcome)
    (h : rreserve env v n = none) : rextendFromSliceClone env v n o = .ok ⟨v, .panic false, o⟩ :=
  rextendFromSliceClone_refused env v n o h

theorem rev_resize_failed_unchanged (env : Env) (v : Vec) (n : Nat) (value : Id) (o : List Outcome)
    (h : rreserve env v (n - v.len) = none) : rresize env v n value o = .ok ⟨dropArg v value, .panic false, o⟩ :=
  rresize_refused env v n value o h

theorem rev_resize_with_failed_unchanged (env : Env) (v : Vec) (n : Nat) (o : List Outcome)
    (h : rreserve env v (n - v.len) = none) : rresizeWith env v n o = .ok ⟨v, .panic false, o⟩ :=
  rresizeWith_refused env v n o h

theorem rev_append_failed_unchanged (env : Env) (v other : Vec) (ho : other.WF) (h : rreserve env v other.len = none) :
    ∃ other', rappend env v other = .ok (⟨v, .panic false, []⟩, other') ∧ other'.len = 0 ∧
      other'.dropLog = other.dropLog ++ other.abs ∧ other'.escaped = other.escaped := by
  have ⟨hs, hl⟩ := ho.slots_eq
  exact ⟨_, rappend_refused env v other other.abs (other.cap - other.len) h hs hl, rfl, rfl, rfl⟩

/-! ## all at once -/

/-- **C07, collections**: whichever growing operation of the history-level operation type (`Coll/Run.lean`) fails
    — for every vector, argument and oracle — buffer, length, capacity, contents and hand-outs are the ones
    before, exactly the by-value arguments were dropped (once), the vector is still well-formed (so it can be
    used and dropped as before: `C06.history_drops_once` applies to whatever follows) -/
theorem failed_op_unchanged (env : Env) (v : Vec) (op : Op) (hv : v.WF) (hfresh : (v.total ++ argsOf op).Nodup)
    (h : roomOf env v op = false) :
    ∃ v', stepVec env v op = .ok v' ∧ v'.slots = v.slots ∧ v'.len = v.len ∧ v'.cap = v.cap ∧ v'.abs = v.abs ∧
      v'.escaped = v.escaped ∧ v'.dropLog = v.dropLog ++ argsOf op ∧ v'.WF := by
  refine ⟨_, failed_step_unchanged env v op h, ?_⟩
  have key : ∀ a : List Id, (v.total ++ a).Nodup →
      let v' : Vec := { v with dropLog := v.dropLog ++ a }
      v'.slots = v.slots ∧ v'.len = v.len ∧ v'.cap = v.cap ∧ v'.abs = v.abs ∧ v'.escaped = v.escaped ∧
        v'.dropLog = v.dropLog ++ a ∧ v'.WF := by
    intro a hn
    refine ⟨rfl, rfl, rfl, rfl, rfl, rfl, hv.1, ?_⟩
    have hp : (Vec.total { v with dropLog := v.dropLog ++ a }).Perm (v.total ++ a) := by
      simp only [Vec.total]
      rw [List.perm_iff_count]; intro x
      simp only [List.count_append]; omega
    exact hp.nodup_iff.mpr hn
  cases hargs : argsOf op with
  | nil =>
    simp only [List.append_nil, true_and]
    exact hv
  | cons x xs =>
    rw [hargs] at hfresh
    exact key (x :: xs) hfresh

/-- non-vacuity: a full `FixedBumpVec` `[1,2,3]`: `try_push(9)` is refused, 9 is dropped, the vector is unchanged -/
example : roomOf { kind := .fixed } (Vec.mk' [1, 2, 3] 0) (.push 9) = false ∧
    push { kind := .fixed } (Vec.mk' [1, 2, 3] 0) 9 = .ok ⟨{ slots := I [1, 2, 3], len := 3, dropLog := [9] }, .panic false, []⟩ := by
  decide

/-- a `MutBumpVec` `[1,2]` that owns 3 slots and cannot get more than 4: `try_extend_from_slice_clone` of 3 is
    refused without a single clone; of 1 it goes through -/
example : extendFromSliceClone { kind := .mut, capIn := 4 } (Vec.mk' [1, 2] 1) 3 [.ret 7, .ret 8, .ret 9] =
      .ok ⟨Vec.mk' [1, 2] 1, .panic false, [.ret 7, .ret 8, .ret 9]⟩ ∧
    extendFromSliceClone { kind := .mut, capIn := 4 } (Vec.mk' [1, 2] 1) 1 [.ret 7] =
      .ok ⟨Vec.mk' [1, 2, 7] 0, .ret (), []⟩ := by decide

/-- `MutBumpVecRev` `[1,2]` (elements at the end of 2 slots), the arena cannot give more: `try_resize(4, 5)` -/
example : rresize { kind := .rev, capIn := 2 } { slots := I [1, 2], len := 2 } 4 5 [.ret 6] =
    .ok ⟨{ slots := I [1, 2], len := 2, dropLog := [5] }, .panic false, [.ret 6]⟩ := by decide

end C07Coll
