/-
  Props/C13.lean — property C13: reclaiming the newest allocation works; the opt-out
  settings (`DEALLOCATES = false`, `SHRINKS = false`, `WithoutDealloc`, `WithoutShrink`) are honoured.

  Part 1: opt-outs.  Part 2: a block that is not the newest one is never reclaimed.
  Part 3: the newest block IS reclaimed: allocate / deallocate / allocate returns the same address
  (both directions).  Part 4: growing the newest block upwards in place.
-/
import BumpProof.Arena.Step
import BumpProof.Props.C11
import BumpProof.Lemmas.CtrlBase
import BumpProof.Lemmas.CtrlEx
import BumpProof.Lemmas.CtrlState
import BumpProof.Lemmas.CtrlRealloc

set_option linter.unusedSimpArgs false
set_option linter.unusedVariables false

namespace C13
open Arena Rs Ctrl Lemmas

/-! ## Part 1: opt-outs -/

/-- `DEALLOCATES = false`: `deallocate` is valid and changes nothing -/
theorem deallocate_optout (cfg : Cfg) (s : State) (ptr size : Nat) (h : cfg.deallocates = false) :
    deallocate cfg s ptr size = .ok s := by
  unfold deallocate
  rw [h]; rfl

/-- `WithoutDealloc(&bump).deallocate(..)`: chunks, current chunk and every position stay as they are;
    only the (ghost) block is forgotten -/
theorem step_deallocate_withoutDealloc (cfg : Cfg) (g : GState) (b : Nat) (blk : Block)
    (hp : g.s.prepared = none) (hb : findBlock g.s b = .ok blk) :
    stepCore cfg g (.deallocate b .withoutDealloc) = .ok ({ g with s := removeBlock g.s b }, .unit) := by
  rw [stepCore]
  simp only [noPrepared, hp, Option.isNone_none, ↓reduceIte, R_pure_bind, hb, R_ok_bind]
  rfl

/-- the same through any wrapper when the arena itself was configured with `DEALLOCATES = false` -/
theorem step_deallocate_optout (cfg : Cfg) (g : GState) (b : Nat) (blk : Block) (via : Via)
    (hd : cfg.deallocates = false) (hp : g.s.prepared = none) (hb : findBlock g.s b = .ok blk) :
    stepCore cfg g (.deallocate b via) = .ok ({ g with s := removeBlock g.s b }, .unit) := by
  rw [stepCore]
  simp only [noPrepared, hp, Option.isNone_none, ↓reduceIte, R_pure_bind, hb, R_ok_bind,
    deallocate_optout cfg g.s blk.addr blk.size hd]
  cases via <;> rfl

/-- `SHRINKS = false`: a shrink whose alignment fits hands the block back unchanged (old size) -/
theorem shrink_optout (cfg : Cfg) (s : State) (ptr oldSize : Nat) (newL : Layout)
    (hs : cfg.shrinks = false) (hsz : newL.size ≤ oldSize) (hfit : alignFits ptr newL.align = true) :
    shrink cfg s ptr oldSize newL = .ok (s, .ok (ptr, oldSize)) := by
  unfold shrink
  have ha : Rs.assert (decide (newL.size ≤ oldSize)) = .ok () := assert_dec hsz
  simp only [ha, liftM_ok, R_ok_bind, hs, hfit, Bool.not_true, Bool.false_eq_true, ↓reduceIte, Bool.not_false,
    Bool.true_or]
  rfl

/-- `WithoutShrink(&bump).shrink(..)` (alignment fits): nothing moves -/
theorem shrinkWithoutShrink_fits (cfg : Cfg) (s : State) (ptr oldSize : Nat) (newL : Layout)
    (hfit : alignFits ptr newL.align = true) :
    shrinkWithoutShrink cfg s ptr oldSize newL = .ok (s, .ok (ptr, newL.size)) := by
  unfold shrinkWithoutShrink
  rw [hfit]; rfl

/-- `SHRINKS = false`: `shrink_slice` does nothing -/
theorem shrinkSlice_optout (cfg : Cfg) (s : State) (ptr oldSize newSize ealign : Nat)
    (hs : cfg.shrinks = false) :
    shrinkSlice cfg s ptr oldSize newSize ealign = .ok (s, none) := by
  unfold shrinkSlice
  rw [hs]; rfl

/-- forgetting a (ghost) block changes no statistic: with `step_deallocate_withoutDealloc` /
    `step_deallocate_optout` / `step_deallocate_not_last` this says that such a `deallocate` leaves
    `stats().allocated()` (and count, size, capacity, remaining) exactly as it was -/
theorem stats_removeBlock (cfg : Cfg) (s : State) (b : Nat) : stats cfg (removeBlock s b) = stats cfg s := rfl

/-- `WithoutShrink(&bump).shrink(..)` in a history (alignment fits): same address, the new size is
    recorded, the arena (chunks, positions, statistics) is untouched -/
theorem step_shrink_withoutShrink_fits (cfg : Cfg) (g : GState) (b : Nat) (blk : Block) (L : Layout)
    (hL : L.Valid) (hp : g.s.prepared = none) (hb : findBlock g.s b = .ok blk) (hsz : L.size ≤ blk.size)
    (hfit : alignFits blk.addr L.align = true) :
    ∃ g', stepCore cfg g (.shrink b L .withoutShrink) = .ok (g', .block g.s.nextId blk.addr L.size) ∧
      g'.s.chunks = g.s.chunks ∧ g'.s.cur = g.s.cur ∧ stats cfg g'.s = stats cfg g.s := by
  refine ⟨{ g with s := (okOut (removeBlock g.s b) blk.addr L.size L.align (Nat.min blk.init L.size)).1 }, ?_, rfl, rfl, rfl⟩
  rw [stepCore]
  simp only [validLayout_ok hL, noPrepared, hp, Option.isNone_none, ↓reduceIte, R_pure_bind, R_ok_bind, hb,
    show ¬ L.size > blk.size from by omega, decide_false,
    shrinkWithoutShrink_fits cfg g.s blk.addr blk.size L hfit]
  rfl

/-- RESOLVED — FALSE AS STATED (it quantifies over ill-formed states): `C13.shrink_optout_never_decreases_target_fails`
    (Props/Targets.lean; witness: a chunk whose position lies past its end) and the corrected statements
    `C13.shrink_optout_never_decreases_corrected` (states satisfying `GeomInv`) / `…_reachable`; step level:
    `C13.shrink_optout_reachable` (Props/Hist2.lean).  Original comment:
    TARGET (not proved): with `SHRINKS = false` / `WithoutShrink` a shrink whose alignment does NOT fit
    allocates a new block; the allocated byte count then grows, it never decreases.  Needs the
    monotonicity of `alloc` on `stats().allocated()` (slow path included), which is part of the
    accounting properties (C02/C03), not of this file. -/
def shrink_optout_never_decreases_target : Prop :=
  ∀ (cfg : Cfg) (s s' : State) (ptr oldSize : Nat) (newL : Layout) (r : Except AErr (Nat × Nat)),
    shrinkWithoutShrink cfg s ptr oldSize newL = .ok (s', r) →
    (stats cfg s).allocated ≤ (stats cfg s').allocated

/-! ## Part 2: a block that is not the newest one -/

/-- deallocating it reclaims nothing: the whole state (positions, other blocks, bytes) is unchanged -/
theorem deallocate_not_last (cfg : Cfg) (s : State) (ptr size : Nat)
    (hl : isLast cfg s ptr size = false) :
    deallocate cfg s ptr size = .ok s := by
  unfold deallocate
  rw [hl]
  cases cfg.deallocates <;> rfl

/-- shrinking it (alignment fits) reclaims nothing either -/
theorem shrink_not_last (cfg : Cfg) (s : State) (ptr oldSize : Nat) (newL : Layout)
    (hsz : newL.size ≤ oldSize) (hfit : alignFits ptr newL.align = true)
    (hl : isLast cfg s ptr oldSize = false) :
    shrink cfg s ptr oldSize newL = .ok (s, .ok (ptr, oldSize)) := by
  unfold shrink
  have ha : Rs.assert (decide (newL.size ≤ oldSize)) = .ok () := assert_dec hsz
  simp only [ha, liftM_ok, R_ok_bind, hl, hfit, Bool.not_true, Bool.false_eq_true, ↓reduceIte, Bool.not_false,
    Bool.or_true]
  rfl

theorem shrinkSlice_not_last (cfg : Cfg) (s : State) (ptr oldSize newSize ealign : Nat)
    (hl : isLast cfg s ptr oldSize = false) :
    shrinkSlice cfg s ptr oldSize newSize ealign = .ok (s, none) := by
  unfold shrinkSlice
  rw [hl]
  cases cfg.shrinks <;> rfl

/-- in a history: deallocating a block that is not the newest one leaves the arena (chunks, current
    chunk, positions, bytes) and every other live block alone, through every wrapper -/
theorem step_deallocate_not_last (cfg : Cfg) (g : GState) (b : Nat) (blk : Block) (via : Via)
    (hp : g.s.prepared = none) (hb : findBlock g.s b = .ok blk)
    (hl : isLast cfg g.s blk.addr blk.size = false) :
    stepCore cfg g (.deallocate b via) = .ok ({ g with s := removeBlock g.s b }, .unit) := by
  rw [stepCore]
  simp only [noPrepared, hp, Option.isNone_none, ↓reduceIte, R_pure_bind, hb, R_ok_bind,
    deallocate_not_last cfg g.s blk.addr blk.size hl]
  cases via <;> rfl

/-! ## Part 3: the newest block is reclaimed — allocate, deallocate, allocate again -/

/-- Upwards.  After a successful allocation of `L` (size a multiple of the minimum alignment) the block
    is the newest one; deallocating it moves the position back to its address; allocating `L` again
    returns the SAME address and leads to the SAME state as after the first allocation. -/
theorem realloc_same_up (cfg : Cfg) (s s1 : State) (L : Layout) (p x : Nat)
    (hup : cfg.up = true) (hd : cfg.deallocates = true)
    (hv : C11.Valid true (bumpProps cfg s L Hints.custom)) (hms : s.minAlign ∣ L.size)
    (h1 : tryCur cfg .alloc s L Hints.custom = .ok (some ((p, x), s1))) :
    isLast cfg s1 p L.size = true ∧
    ∃ s2, deallocate cfg s1 p L.size = .ok s2 ∧ curPos cfg s2 = p ∧
      tryCur cfg .alloc s2 L Hints.custom = .ok (some ((p, x), s1)) := by
  have hmOk : MinAlignOk s.minAlign := hv.1.min_align
  have hm := hmOk.p2
  have ha : P2 L.align := layout_valid_p2 hv.1.layout
  have hnd : ¬ C11.Dummy (bumpProps cfg s L Hints.custom) := by
    intro hdum
    rw [tryCur_alloc_up hup hv] at h1
    rw [← bumpProps_start cfg s L Hints.custom, ← bumpProps_end cfg s L Hints.custom, hdum.1,
      bumpUp_dummy ha.pos] at h1
    cases h1
  obtain ⟨i, c, hc, hreg⟩ := regular_of_success hv hnd
  have hfr := hc.freeRange cfg
  rw [hup] at hfr
  simp only [↓reduceIte] at hfr
  unfold C11.Regular at hreg
  simp only [bumpProps_start, bumpProps_end, bumpProps_min, hfr, ↓reduceIte] at hreg
  obtain ⟨hle, hcap, hmpos, h16⟩ := hreg
  have hs0 : c.pos ≠ 0 := by have := hv.1.start_ne; rw [bumpProps_start, hfr] at this; exact this
  have he64 : c.contentEnd cfg < 2 ^ 64 := by have := hv.1.end_lt; rw [bumpProps_end, hfr] at this; exact this
  have he16 := end_add_16 h16 he64
  have he0 : c.contentEnd cfg ≠ 0 := by have := hv.1.end_ne; rw [bumpProps_end, hfr] at this; exact this
  rw [tryCur_alloc_up hup hv, hfr] at h1
  unfold Spec.bumpUp at h1
  simp only at h1
  split at h1
  · rename_i hfit
    simp only [Option.map_some, Except.ok.injEq, Option.some.injEq, Prod.mk.injEq] at h1
    obtain ⟨⟨hp, hx⟩, hs1⟩ := h1
    have hmp : s.minAlign ∣ p := by rw [← hp]; exact hm.dvd_upAlign ha hmpos
    have hap : L.align ∣ p := by rw [← hp]; exact upAlign_dvd _ _
    have hpos_le : c.pos ≤ p := by rw [← hp]; exact le_upAlign _ ha.pos
    rw [hp] at hfit hs1
    have hnp : Spec.upAlign (p + L.size) s.minAlign = p + L.size :=
      upAlign_add_self hm.pos hmp hms
    rw [hnp] at hs1
    have hc1 : CurChunk s1 i { c with pos := p + L.size } := by rw [← hs1]; exact hc.setCurPos _
    have hs1' : s1 = setPos s i (p + L.size) := by rw [← hs1, setCurPos_chunk hc.cur]
    have hlast : isLast cfg s1 p L.size = true := by
      unfold isLast
      rw [hup, hc1.curPos cfg]
      simp
    refine ⟨hlast, setCurPos s1 p, ?_, (hc1.setCurPos p).curPos cfg, ?_⟩
    · unfold deallocate
      rw [hd, hlast]
      unfold deallocAssumeLast
      have hle' := hmOk.le
      have hgt : ¬ p > Rs.MAX := by rw [MAX_eq]; omega
      simp only [hd, hc1.cur, hup, Bool.not_true, Bool.false_eq_true, ↓reduceIte, hgt,
        lib_align_pos_up hm hmOk.lt64 (show p + (s.minAlign - 1) < 2 ^ 64 by omega), liftM_ok, R_ok_bind,
        upAlign_eq_self hm.pos hmp, hs1.symm ▸ setCurPos_minAlign s _]
      rfl
    · have hs2 : setCurPos s1 p = setPos s i p := by
        rw [setCurPos_chunk hc1.cur, hs1', setPos_setPos]
      have hc2 : CurChunk (setPos s i p) i { c with pos := p } := by
        rw [← setCurPos_chunk hc.cur]; exact hc.setCurPos p
      have hfr2 : freeRange cfg (setPos s i p) = (p, c.contentEnd cfg) := by
        rw [hc2.freeRange cfg, hup]; rfl
      have hv2 : C11.Valid true (bumpProps cfg (setPos s i p) L Hints.custom) :=
        valid_of_regular hfr2 (by omega) he0 (by omega) he64 hmOk hv.1.layout (truthful_custom L)
          ⟨by omega, by omega, hmp, h16⟩
      rw [hs2, tryCur_alloc_up hup hv2, hfr2]
      have hup1 : Spec.upAlign p L.align = p := upAlign_eq_self ha.pos hap
      unfold Spec.bumpUp
      simp only [hup1, hfit, ↓reduceIte, Option.map_some, setPos_minAlign, hnp]
      rw [setCurPos_chunk hc2.cur, setPos_setPos, ← hs1', hx]
  · cases h1

/-- Downwards: the same law.  (After the deallocation the position is the END of the block, i.e.
    padding that the first allocation needed below the old position is not given back — and need
    not be: the next allocation of `L` lands on the same address.) -/
theorem realloc_same_down (cfg : Cfg) (s s1 : State) (L : Layout) (p x : Nat)
    (hup : cfg.up = false) (hd : cfg.deallocates = true)
    (hv : C11.Valid false (bumpProps cfg s L Hints.custom)) (hms : s.minAlign ∣ L.size)
    (h1 : tryCur cfg .alloc s L Hints.custom = .ok (some ((p, x), s1))) :
    isLast cfg s1 p L.size = true ∧
    ∃ s2, deallocate cfg s1 p L.size = .ok s2 ∧ curPos cfg s2 = p + L.size ∧
      tryCur cfg .alloc s2 L Hints.custom = .ok (some ((p, x), s1)) := by
  have hmOk : MinAlignOk s.minAlign := hv.1.min_align
  have hm := hmOk.p2
  have ha : P2 L.align := layout_valid_p2 hv.1.layout
  have hnd : ¬ C11.Dummy (bumpProps cfg s L Hints.custom) := by
    intro hdum
    rw [tryCur_alloc_down hup hv] at h1
    rw [← bumpProps_start cfg s L Hints.custom, ← bumpProps_end cfg s L Hints.custom, hdum.1,
      bumpDown_dummy] at h1
    cases h1
  obtain ⟨i, c, hc, hreg⟩ := regular_of_success hv hnd
  have hfr := hc.freeRange cfg
  rw [hup] at hfr
  simp only [Bool.false_eq_true, ↓reduceIte] at hfr
  unfold C11.Regular at hreg
  simp only [bumpProps_start, bumpProps_end, bumpProps_min, hfr, Bool.false_eq_true, ↓reduceIte] at hreg
  obtain ⟨hle, hcap, h16, hmpos⟩ := hreg
  have hs0 : c.contentStart cfg ≠ 0 := by
    have := hv.1.start_ne; rw [bumpProps_start, hfr] at this; exact this
  have he64 : c.pos < 2 ^ 64 := by have := hv.1.end_lt; rw [bumpProps_end, hfr] at this; exact this
  have hM : P2 (Nat.max L.align s.minAlign) := ha.max hm
  have hmM : s.minAlign ∣ Nat.max L.align s.minAlign := dvd_max_right ha hm
  have haM : L.align ∣ Nat.max L.align s.minAlign := dvd_max_left ha hm
  rw [tryCur_alloc_down hup hv, hfr] at h1
  unfold Spec.bumpDown at h1
  simp only at h1
  split at h1
  · rename_i hsz
    split at h1
    · rename_i hfit
      simp only [Option.map_some, Except.ok.injEq, Option.some.injEq, Prod.mk.injEq] at h1
      obtain ⟨⟨hp, hx⟩, hs1⟩ := h1
      have hMp : Nat.max L.align s.minAlign ∣ p := by rw [← hp]; exact downAlign_dvd _ _
      have hmp : s.minAlign ∣ p := Nat.dvd_trans hmM hMp
      have hple : p ≤ c.pos - L.size := by rw [← hp]; exact downAlign_le _ _
      rw [hp] at hfit hs1
      have hc1 : CurChunk s1 i { c with pos := p } := by rw [← hs1]; exact hc.setCurPos _
      have hs1' : s1 = setPos s i p := by rw [← hs1, setCurPos_chunk hc.cur]
      have hlast : isLast cfg s1 p L.size = true := by
        unfold isLast
        rw [hup, hc1.curPos cfg]
        simp
      have hmps : s.minAlign ∣ p + L.size := (Nat.dvd_add_right hmp).2 hms
      refine ⟨hlast, setCurPos s1 (p + L.size), ?_, (hc1.setCurPos _).curPos cfg, ?_⟩
      · unfold deallocate
        rw [hd, hlast]
        unfold deallocAssumeLast
        have hgt : ¬ p + L.size > Rs.MAX := by rw [MAX_eq]; omega
        simp only [hd, hc1.cur, hup, Bool.not_true, Bool.false_eq_true, ↓reduceIte, hgt,
          lib_align_pos_down hm hmOk.lt64 (show p + L.size < 2 ^ 64 by omega), liftM_ok, R_ok_bind,
          downAlign_eq_self hmps, hs1.symm ▸ setCurPos_minAlign s _]
        rfl
      · have hs2 : setCurPos s1 (p + L.size) = setPos s i (p + L.size) := by
          rw [setCurPos_chunk hc1.cur, hs1', setPos_setPos]
        have hc2 : CurChunk (setPos s i (p + L.size)) i { c with pos := p + L.size } := by
          rw [← setCurPos_chunk hc.cur]; exact hc.setCurPos _
        have hfr2 : freeRange cfg (setPos s i (p + L.size)) = (c.contentStart cfg, p + L.size) := by
          rw [hc2.freeRange cfg, hup]; rfl
        have hv2 : C11.Valid false (bumpProps cfg (setPos s i (p + L.size)) L Hints.custom) :=
          valid_of_regular hfr2 hs0 (by omega) (by omega) (by omega) hmOk hv.1.layout (truthful_custom L)
            ⟨by omega, by omega, h16, hmps⟩
        rw [hs2, tryCur_alloc_down hup hv2, hfr2]
        have h3 : p + L.size - L.size = p := by omega
        have h4 : Spec.downAlign p (Nat.max L.align s.minAlign) = p := downAlign_eq_self hMp
        unfold Spec.bumpDown
        simp only [Nat.le_add_left, h3, h4, hfit, ↓reduceIte, Option.map_some, setPos_minAlign]
        rw [setCurPos_chunk hc2.cur, setPos_setPos, ← hs1', hx]
    · cases h1
  · cases h1

/-! ## Part 4: growing the newest block upwards happens in place -/

/-- upward arena, newest block, alignment fits, room left in the chunk: `grow` returns the SAME address,
    copies nothing, and only moves the position to the (aligned) new end of the block -/
theorem grow_in_place_up (cfg : Cfg) (s : State) (ptr oldSize : Nat) (newL : Layout) (i : Nat) (c : Chunk)
    (hup : cfg.up = true) (hcur : s.cur = .chunk i) (hget : s.chunks[i]? = some c)
    (hm : MinAlignOk s.minAlign)
    (hlast : isLast cfg s ptr oldSize = true) (hfit : alignFits ptr newL.align = true)
    (hsz : oldSize ≤ newL.size) (hroom : ptr + newL.size ≤ c.contentEnd cfg)
    (hend : c.contentEnd cfg + 16 ≤ 2 ^ 64) :
    grow cfg s ptr oldSize newL = .ok (setCurPos s (Spec.upAlign (ptr + newL.size) s.minAlign), .ok ptr) := by
  have hc : CurChunk s i c := ⟨hcur, hget⟩
  have hle := hm.le
  unfold grow
  have ha : Rs.assert (decide (newL.size ≥ oldSize)) = .ok () := assert_dec hsz
  have hrem : newL.size ≤ c.contentEnd cfg - ptr := by omega
  simp only [ha, liftM_ok, R_ok_bind, hup, hlast, hfit, Bool.and_self, ↓reduceIte, hc.curChunk?,
    sub_ok (show ptr ≤ c.contentEnd cfg by omega), hrem,
    add_ok' (show ptr + newL.size < 2 ^ 64 by omega),
    lib_up_align_eq hm.p2 hm.lt64 (show ptr + newL.size + (s.minAlign - 1) < 2 ^ 64 by omega)]
  rfl

/-- … and the new position stays inside the chunk -/
theorem grow_in_place_pos (cfg : Cfg) (s : State) (ptr : Nat) (newL : Layout) (c : Chunk)
    (hm : MinAlignOk s.minAlign) (hroom : ptr + newL.size ≤ c.contentEnd cfg)
    (h16 : 16 ∣ c.contentEnd cfg) :
    ptr + newL.size ≤ Spec.upAlign (ptr + newL.size) s.minAlign ∧
    Spec.upAlign (ptr + newL.size) s.minAlign ≤ c.contentEnd cfg :=
  ⟨le_upAlign _ hm.pos,
   upAlign_le_of_dvd hm.pos (Nat.dvd_trans (hm.p2.dvd_of_le P2.sixteen hm.le) h16) hroom⟩

/-! ## Non-vacuity: the hypotheses hold on concrete states (`Lemmas/CtrlEx.lean`) -/

example : shrink { wCfg with shrinks := false } exUp 0x10030 16 { size := 8, align := 8 } = .ok (exUp, .ok (0x10030, 16)) :=
  shrink_optout _ _ _ _ _ rfl (by decide) rfl

example : stepCore wCfg exG (.deallocate 0 .plain) = .ok ({ exG with s := removeBlock exG.s 0 }, .unit) :=
  step_deallocate_not_last _ _ 0 exBlk _ rfl rfl rfl

example : shrink wCfg exG.s exBlk.addr exBlk.size { size := 8, align := 8 } = .ok (exG.s, .ok (exBlk.addr, exBlk.size)) :=
  shrink_not_last _ _ _ _ _ (by decide) rfl rfl

example : stepCore wCfg exG (.deallocate 0 .withoutDealloc) = .ok ({ exG with s := removeBlock exG.s 0 }, .unit) :=
  step_deallocate_withoutDealloc _ _ 0 exBlk rfl rfl

example : ∃ g', stepCore wCfg exG (.shrink 0 { size := 8, align := 8 } .withoutShrink) =
    .ok (g', .block 1 exBlk.addr 8) ∧ g'.s.chunks = exG.s.chunks ∧ g'.s.cur = exG.s.cur ∧
      stats wCfg g'.s = stats wCfg exG.s :=
  step_shrink_withoutShrink_fits _ _ 0 exBlk _ ⟨⟨3, by decide, rfl⟩, by decide⟩ rfl rfl (by decide) rfl

/-- upwards: allocate 24 bytes at 0x10040, deallocate, allocate again: 0x10040 again -/
example : isLast wCfg (setCurPos exUp 0x10058) 0x10040 24 = true ∧
    ∃ s2, deallocate wCfg (setCurPos exUp 0x10058) 0x10040 24 = .ok s2 ∧ curPos wCfg s2 = 0x10040 ∧
      tryCur wCfg .alloc s2 exL Hints.custom = .ok (some ((0x10040, 0), setCurPos exUp 0x10058)) :=
  realloc_same_up wCfg exUp _ exL 0x10040 0 rfl rfl (exUp_valid exL exL_valid _ (truthful_custom _)) ⟨3, rfl⟩ rfl

/-- downwards: allocate 24 bytes at 0x100A8, deallocate, allocate again: 0x100A8 again -/
example : isLast dCfg (setCurPos exDown 0x100A8) 0x100A8 24 = true ∧
    ∃ s2, deallocate dCfg (setCurPos exDown 0x100A8) 0x100A8 24 = .ok s2 ∧ curPos dCfg s2 = 0x100A8 + 24 ∧
      tryCur dCfg .alloc s2 exL Hints.custom = .ok (some ((0x100A8, 0), setCurPos exDown 0x100A8)) :=
  realloc_same_down dCfg exDown _ exL 0x100A8 0 rfl rfl (exDown_valid exL exL_valid _ (truthful_custom _)) ⟨3, rfl⟩ rfl

/-- the 16-byte block that ends at the position grows to 32 bytes in place -/
example : grow wCfg exUp 0x10030 16 { size := 32, align := 8 } =
    .ok (setCurPos exUp (Spec.upAlign (0x10030 + 32) 8), .ok 0x10030) :=
  grow_in_place_up wCfg exUp 0x10030 16 _ 0 exChunkUp rfl rfl rfl minAlign8 rfl rfl (by decide) (by decide) (by decide)

end C13
