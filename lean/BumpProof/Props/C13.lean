/-
  Props/C13.lean — property C13: reclaiming the newest allocation works; the opt-out
  settings (`DEALLOCATES = false`, `SHRINKS = false`, `WithoutDealloc`, `WithoutShrink`) are honoured.

  Part 1: opt-outs.  Part 2: a block that is not the newest one is never reclaimed.
  Part 3: the newest block IS reclaimed: allocate / deallocate / allocate returns the same address
  (both directions).  Part 4: growing the newest block upwards in place.
-/
import BumpProof.Arena.Step
import BumpProof.Props.C11
import BumpProof.Lemmas.CtrlBase
import BumpProof.Lemmas.CtrlState

namespace C13
open Arena Rs Ctrl Lemmas

/-! ## Part 1: opt-outs -/

/-- `DEALLOCATES = false`: `deallocate` is valid and changes nothing -/
theorem deallocate_optout (cfg : Cfg) (s : State) (ptr size : Nat) (h : cfg.deallocates = false) :
    deallocate cfg s ptr size = .ok s := by
  unfold deallocate
  rw [h]; rfl

/-- `WithoutDealloc(&bump).deallocate(..)`: chunks, current chunk and every position stay as they are;
    only the (ghost) block is forgotten -/
theorem step_deallocate_withoutDealloc (cfg : Cfg) (g : GState) (b : Nat) (blk : Block)
    (hp : g.s.prepared = none) (hb : findBlock g.s b = .ok blk) :
    stepCore cfg g (.deallocate b .withoutDealloc) = .ok ({ g with s := removeBlock g.s b }, .unit) := by
  rw [stepCore]
  simp only [noPrepared, hp, Option.isNone_none, ↓reduceIte, R_pure_bind, hb, R_ok_bind]
  rfl

/-- the same through any wrapper when the arena itself was configured with `DEALLOCATES = false` -/
theorem step_deallocate_optout (cfg : Cfg) (g : GState) (b : Nat) (blk : Block) (via : Via)
    (hd : cfg.deallocates = false) (hp : g.s.prepared = none) (hb : findBlock g.s b = .ok blk) :
    stepCore cfg g (.deallocate b via) = .ok ({ g with s := removeBlock g.s b }, .unit) := by
  rw [stepCore]
  simp only [noPrepared, hp, Option.isNone_none, ↓reduceIte, R_pure_bind, hb, R_ok_bind,
    deallocate_optout cfg g.s blk.addr blk.size hd]
  cases via <;> rfl

/-- `SHRINKS = false`: a shrink whose alignment fits hands the block back unchanged (old size) -/
theorem shrink_optout (cfg : Cfg) (s : State) (ptr oldSize : Nat) (newL : Layout)
    (hs : cfg.shrinks = false) (hsz : newL.size ≤ oldSize) (hfit : alignFits ptr newL.align = true) :
    shrink cfg s ptr oldSize newL = .ok (s, .ok (ptr, oldSize)) := by
  unfold shrink
  have ha : Rs.assert (decide (newL.size ≤ oldSize)) = .ok () := assert_dec hsz
  simp only [ha, liftM_ok, R_ok_bind, hs, hfit, Bool.not_true, Bool.false_eq_true, ↓reduceIte, Bool.not_false,
    Bool.true_or]
  rfl

/-- `WithoutShrink(&bump).shrink(..)` (alignment fits): nothing moves -/
theorem shrinkWithoutShrink_fits (cfg : Cfg) (s : State) (ptr oldSize : Nat) (newL : Layout)
    (hfit : alignFits ptr newL.align = true) :
    shrinkWithoutShrink cfg s ptr oldSize newL = .ok (s, .ok (ptr, newL.size)) := by
  unfold shrinkWithoutShrink
  rw [hfit]; rfl

/-- `SHRINKS = false`: `shrink_slice` does nothing -/
theorem shrinkSlice_optout (cfg : Cfg) (s : State) (ptr oldSize newSize ealign : Nat)
    (hs : cfg.shrinks = false) :
    shrinkSlice cfg s ptr oldSize newSize ealign = .ok (s, none) := by
  unfold shrinkSlice
  rw [hs]; rfl

/-! ## Part 2: a block that is not the newest one -/

/-- deallocating it reclaims nothing: the whole state (positions, other blocks, bytes) is unchanged -/
theorem deallocate_not_last (cfg : Cfg) (s : State) (ptr size : Nat)
    (hl : isLast cfg s ptr size = false) :
    deallocate cfg s ptr size = .ok s := by
  unfold deallocate
  rw [hl]
  cases cfg.deallocates <;> rfl

/-- shrinking it (alignment fits) reclaims nothing either -/
theorem shrink_not_last (cfg : Cfg) (s : State) (ptr oldSize : Nat) (newL : Layout)
    (hsz : newL.size ≤ oldSize) (hfit : alignFits ptr newL.align = true)
    (hl : isLast cfg s ptr oldSize = false) :
    shrink cfg s ptr oldSize newL = .ok (s, .ok (ptr, oldSize)) := by
  unfold shrink
  have ha : Rs.assert (decide (newL.size ≤ oldSize)) = .ok () := assert_dec hsz
  simp only [ha, liftM_ok, R_ok_bind, hl, hfit, Bool.not_true, Bool.false_eq_true, ↓reduceIte, Bool.not_false,
    Bool.or_true]
  rfl

theorem shrinkSlice_not_last (cfg : Cfg) (s : State) (ptr oldSize newSize ealign : Nat)
    (hl : isLast cfg s ptr oldSize = false) :
    shrinkSlice cfg s ptr oldSize newSize ealign = .ok (s, none) := by
  unfold shrinkSlice
  rw [hl]
  cases cfg.shrinks <;> rfl

/-- in a history: deallocating a block that is not the newest one leaves the arena (chunks, current
    chunk, positions, bytes) and every other live block alone, through every wrapper -/
theorem step_deallocate_not_last (cfg : Cfg) (g : GState) (b : Nat) (blk : Block) (via : Via)
    (hp : g.s.prepared = none) (hb : findBlock g.s b = .ok blk)
    (hl : isLast cfg g.s blk.addr blk.size = false) :
    stepCore cfg g (.deallocate b via) = .ok ({ g with s := removeBlock g.s b }, .unit) := by
  rw [stepCore]
  simp only [noPrepared, hp, Option.isNone_none, ↓reduceIte, R_pure_bind, hb, R_ok_bind,
    deallocate_not_last cfg g.s blk.addr blk.size hl]
  cases via <;> rfl

end C13
