/-
  Props/C03.lean — property C03: leaving a scope restores the allocator exactly; earlier data
  survives; chunks acquired inside remain available.  Over the frozen arena model.

  ONLY property theorems live here; helper lemmas are in `Lemmas/Ledger*.lean`.
-/
import BumpProof.Lemmas.LedgerScope
import BumpProof.Lemmas.LedgerReplay
import BumpProof.Lemmas.LedgerEx

set_option linter.unusedSimpArgs false
set_option linter.unusedVariables false

namespace C03
open Arena Rs Ledger

/-! ## `reset_to(checkpoint)` restores the current chunk, the position and the allocated byte count -/

/-- `s` is the state when the scope was entered (checkpoint taken), `s'` the state when it is left.
    Hypotheses (all hold for reachable states; `SameGeometryPrefix` is what `alloc_monotone` below
    provides for everything that happens inside the scope):
    * the chunks up to the checkpoint's chunk still have the same address range in `s'`,
    * the minimum alignment is the one of the checkpoint, and the checkpointed position is aligned
      to it and lies inside its chunk.
    Then `reset_to` does not fault and afterwards: same current chunk, same bump position, same
    `stats().allocated()`; no chunk was released (chunks acquired inside remain available), no
    base-allocator traffic, no byte of any chunk changed, no live block removed by `reset_to` itself. -/
theorem resetTo_checkpoint_restores {cfg : Cfg} {s s' : State} {i : Nat} {c : Chunk}
    (hcur : s.cur = .chunk i) (hc : s.chunks[i]? = some c)
    (hgeo : SameGeometryPrefix (i+1) s s')
    (hm : s'.minAlign = s.minAlign)
    (hma : s.minAlign = 1 ∨ s.minAlign = 2 ∨ s.minAlign = 4 ∨ s.minAlign = 8 ∨ s.minAlign = 16)
    (hd : s.minAlign ∣ c.pos)
    (hin : c.contentStart cfg ≤ c.pos ∧ c.pos ≤ c.contentEnd cfg) (hp : c.pos < 2^64 - 16) :
    ∃ s'', resetTo cfg s' (checkpoint cfg s) = .ok s'' ∧
      s''.cur = s.cur ∧ (s''.chunks[i]?).map (·.pos) = some c.pos ∧ curPos cfg s'' = curPos cfg s ∧
      (stats cfg s'').allocated = (stats cfg s).allocated ∧
      s''.chunks.length = s'.chunks.length ∧ s''.reqs = s'.reqs ∧ s''.resps = s'.resps ∧
      s''.live = s'.live ∧ geometry s'' = geometry s' := by
  have hcp : checkpoint cfg s = { cur := .chunk i, addr := c.pos } := by
    unfold checkpoint curPos; simp only [hcur, hc]
  obtain ⟨c', hc', hb, hs⟩ := hgeo i (Nat.lt_succ_self i) c hc
  have hcs : c'.contentStart cfg = c.contentStart cfg := by unfold Chunk.contentStart; rw [hb]
  have hce : c'.contentEnd cfg = c.contentEnd cfg := by unfold Chunk.contentEnd; rw [hb, hs]
  have hr := resetTo_chunk (cfg := cfg) (a := c.pos) hc' (by rw [hcs, hce]; exact hin)
    (by rw [hm]; exact hma) (by rw [hm]; exact hd) hp
  rw [hcp]
  refine ⟨_, hr, ?_⟩
  have hci : ({ setPos s' i c.pos with cur := Cur.chunk i } : State).chunks[i]? = some { c' with pos := c.pos } := by
    show (s'.chunks.modify i _)[i]? = _
    simp only [List.getElem?_modify, hc', ↓reduceIte, Option.map_some]
    rfl
  have hext : Ext 0 s' { setPos s' i c.pos with cur := Cur.chunk i } :=
    (Ext.setPos s' c.pos (Nat.zero_le i)).trans (Ext.setCur 0 _ _)
  have hlen : ({ setPos s' i c.pos with cur := Cur.chunk i } : State).chunks.length = s'.chunks.length :=
    setPos_length s' i c.pos
  refine ⟨hcur.symm, ?_, ?_, ?_, hlen, rfl, rfl, rfl, hext.geometry_eq hlen⟩
  · rw [hci]; rfl
  · unfold curPos
    simp only [hcur, hc, hci]
  · refine stats_allocated_congr hcur rfl hc hci hb hs rfl ?_
    intro j hj x hx
    obtain ⟨x', hx', hxb, hxs⟩ := hgeo j (Nat.lt_succ_of_lt hj) x hx
    refine ⟨x', ?_, hxb, hxs⟩
    show (s'.chunks.modify i _)[j]? = _
    have hne : ¬ i = j := by omega
    simp only [List.getElem?_modify, hne, ↓reduceIte, hx', Option.map_some]
    rfl

/-! ## A checkpoint of an unallocated arena rewinds to the start of the first chunk -/

/-- the scope was entered before anything was allocated (`!GUARANTEED_ALLOCATED`): leaving it is
    `reset_to_start` — never faults, releases nothing -/
theorem resetTo_unallocated_checkpoint {cfg : Cfg} {s s' : State}
    (hga : cfg.ga = false) (hcur : s.cur = .unallocated) :
    resetTo cfg s' (checkpoint cfg s) = .ok (resetToStart cfg s') := by
  unfold resetTo checkpoint
  simp only [hga, hcur, Bool.not_false, beq_self_eq_true, Bool.and_self, ↓reduceIte]
  rfl

/-- … and `reset_to_start` makes the first chunk current with nothing allocated (`allocated() = 0`),
    keeping all chunks -/
theorem resetToStart_allocated_zero {cfg : Cfg} {s' : State} {j : Nat} {c0 : Chunk} {rest : List Chunk}
    (hcur : s'.cur = .chunk j) (hch : s'.chunks = c0 :: rest) :
    (resetToStart cfg s').cur = .chunk 0 ∧ (resetToStart cfg s').chunks = c0.resetPos cfg :: rest ∧
    (stats cfg (resetToStart cfg s')).allocated = 0 ∧
    (resetToStart cfg s').chunks.length = s'.chunks.length ∧ geometry (resetToStart cfg s') = geometry s' := by
  have h : resetToStart cfg s' = { s' with chunks := c0.resetPos cfg :: rest, cur := .chunk 0 } := by
    unfold resetToStart; simp only [hcur, hch]
  rw [h]
  refine ⟨rfl, rfl, ?_, by simp only [hch, List.length_cons], ?_⟩
  · unfold stats
    simp only [List.getElem?_cons_zero, List.take_zero, List.map_nil, List.foldl_nil, Nat.add_zero]
    unfold Chunk.allocated Chunk.resetPos
    cases cfg.up <;> simp [Chunk.contentStart, Chunk.contentEnd]
  · unfold geometry; simp only [hch, List.map_cons]; rfl

/-! ## The model's scope operations are exactly this checkpoint / `reset_to` pair -/

/-- `scope_guard()` / `scoped`: pushes a frame holding the checkpoint of the current state and the
    id mark; the arena itself is untouched -/
theorem scopeEnter_step {cfg : Cfg} {g : GState} (hp : g.s.prepared = none) :
    stepCore cfg g .scopeEnter =
      .ok ({ s := { g.s with frames := .scope (checkpoint cfg g.s) :: g.s.frames },
             marks := g.s.nextId :: g.marks }, .unit) := by
  unfold stepCore
  simp only [noPrepared, hp, Option.isNone_none, ↓reduceIte]
  rfl

/-- guard drop / closure return: calls `reset_to` with the saved checkpoint, pops the frame, and
    forgets exactly the blocks created since the scope was entered -/
theorem scopeExit_step {cfg : Cfg} {g : GState} {cp : Checkpoint} {rest : List Frame} {m : Nat} {ms : List Nat}
    {s' : State} (hp : g.s.prepared = none) (hf : g.s.frames = .scope cp :: rest) (hm : g.marks = m :: ms)
    (hr : resetTo cfg g.s cp = .ok s') :
    stepCore cfg g .scopeExit = .ok ({ s := killFrom { s' with frames := rest } m, marks := ms }, .unit) := by
  unfold stepCore
  simp only [noPrepared, hp, Option.isNone_none, ↓reduceIte, hf, hm]
  simp only [pure_eq_ok, bind_ok, hr]

/-- if `reset_to` faults (contract violation), so does the step: the model never hides it -/
theorem scopeExit_step_fault {cfg : Cfg} {g : GState} {cp : Checkpoint} {rest : List Frame} {m : Nat} {ms : List Nat}
    {f : Fault} (hp : g.s.prepared = none) (hf : g.s.frames = .scope cp :: rest) (hm : g.marks = m :: ms)
    (hr : resetTo cfg g.s cp = .error f) :
    stepCore cfg g .scopeExit = .error f := by
  unfold stepCore
  simp only [noPrepared, hp, Option.isNone_none, ↓reduceIte, hf, hm]
  simp only [pure_eq_ok, bind_ok, hr]
  rfl

theorem resetTo_live {cfg : Cfg} {s s' : State} {cp : Checkpoint} (h : resetTo cfg s cp = .ok s') :
    s'.live = s.live ∧ s'.nextId = s.nextId := by
  unfold resetTo at h
  split at h
  · simp only [pure_eq_ok, Except.ok.injEq] at h
    subst h
    unfold resetToStart
    split
    · split <;> exact ⟨rfl, rfl⟩
    · exact ⟨rfl, rfl⟩
  · split at h
    · split at h
      · cases h
      · split at h
        · obtain ⟨p, _, h⟩ := bind_eq_ok h
          simp only [pure_eq_ok, Except.ok.injEq] at h
          subst h
          exact ⟨rfl, rfl⟩
        · cases h
    · cases h

/-- after a scope exit the live blocks are exactly the ones that existed when the scope was entered
    (id below the mark): blocks created before the scope survive, blocks created inside are gone -/
theorem scopeExit_live {cfg : Cfg} {g g' : GState} {cp : Checkpoint} {rest : List Frame} {m : Nat} {ms : List Nat}
    {o : Out} (hf : g.s.frames = .scope cp :: rest) (hm : g.marks = m :: ms)
    (h : stepCore cfg g .scopeExit = .ok (g', o)) :
    g'.s.live = g.s.live.filter (·.id < m) ∧ g'.marks = ms ∧ g'.s.frames = rest ∧
    (∀ b ∈ g.s.live, b.id < m → b ∈ g'.s.live) ∧ (∀ b ∈ g'.s.live, b ∈ g.s.live ∧ b.id < m) ∧
    ∃ s', resetTo cfg g.s cp = .ok s' ∧ g'.s.chunks = s'.chunks ∧ g'.s.cur = s'.cur := by
  unfold stepCore at h
  obtain ⟨u, _, h⟩ := bind_eq_ok h
  simp only [hf, hm] at h
  obtain ⟨s', hr, h⟩ := bind_eq_ok h
  simp only [pure_eq_ok, Except.ok.injEq, Prod.mk.injEq] at h
  obtain ⟨rfl, _⟩ := h
  obtain ⟨hl, _⟩ := resetTo_live hr
  refine ⟨by simp only [killFrom, hl], rfl, rfl, ?_, ?_, s', hr, rfl, rfl⟩
  · intro b hb hlt
    simp only [killFrom, hl, List.mem_filter, hb, decide_eq_true_eq, hlt, and_self]
  · intro b hb
    simp only [killFrom, hl, List.mem_filter, decide_eq_true_eq] at hb
    exact hb

/-- the whole round trip: enter a scope in `g0`, do anything that keeps the chunks up to the current
    one in place (`SameGeometryPrefix`) and ends with the scope frame on top and the same minimum
    alignment, leave the scope: current chunk, position and allocated byte count are those of `g0`,
    and the blocks that were live in `g0` and still live before the exit are still live -/
theorem scope_roundtrip {cfg : Cfg} {g0 g1 : GState} {i : Nat} {c : Chunk} {rest : List Frame} {ms : List Nat}
    (hcur : g0.s.cur = .chunk i) (hc : g0.s.chunks[i]? = some c)
    (hma : g0.s.minAlign = 1 ∨ g0.s.minAlign = 2 ∨ g0.s.minAlign = 4 ∨ g0.s.minAlign = 8 ∨ g0.s.minAlign = 16)
    (hd : g0.s.minAlign ∣ c.pos)
    (hin : c.contentStart cfg ≤ c.pos ∧ c.pos ≤ c.contentEnd cfg) (hp : c.pos < 2^64 - 16)
    -- the state in which the scope is left
    (hprep : g1.s.prepared = none)
    (hf : g1.s.frames = .scope (checkpoint cfg g0.s) :: rest) (hmk : g1.marks = g0.s.nextId :: ms)
    (hgeo : SameGeometryPrefix (i+1) g0.s g1.s) (hm : g1.s.minAlign = g0.s.minAlign) :
    ∃ g2, stepCore cfg g1 .scopeExit = .ok (g2, .unit) ∧
      g2.s.cur = g0.s.cur ∧ curPos cfg g2.s = curPos cfg g0.s ∧
      (stats cfg g2.s).allocated = (stats cfg g0.s).allocated ∧
      g2.s.chunks.length = g1.s.chunks.length ∧ geometry g2.s = geometry g1.s ∧ g2.s.reqs = g1.s.reqs ∧
      (∀ b ∈ g1.s.live, b.id < g0.s.nextId → b ∈ g2.s.live) := by
  obtain ⟨s'', hr, r1, r2, r3, r4, r5, r6, r7, r8, r9⟩ :=
    resetTo_checkpoint_restores (cfg := cfg) hcur hc hgeo hm hma hd hin hp
  have hstep := scopeExit_step hprep hf hmk hr
  refine ⟨_, hstep, r1, ?_, ?_, r5, r9, r6, ?_⟩
  · rw [← r3]; rfl
  · rw [← r4]; rfl
  · intro b hb hlt
    show b ∈ (s''.live.filter (·.id < g0.s.nextId))
    rw [r8]
    simp only [List.mem_filter, hb, decide_eq_true_eq, hlt, and_self]

/-! ## Monotonicity: allocation never removes or moves a chunk

  This is what makes `SameGeometryPrefix` hold across everything done inside a scope, and why chunks
  acquired inside a scope are still there for a replay of the same workload. -/

theorem inAnotherChunk_monotone {cfg : Cfg} {k : Kind} {s s' : State} {L : Layout} {h : Hints}
    {r : Except AErr (Nat × Nat)} (e : inAnotherChunk cfg k s L h = .ok (s', r)) :
    s.chunks.length ≤ s'.chunks.length ∧ geometry s = (geometry s').take s.chunks.length ∧
    (∀ n, SameGeometryPrefix n s s') ∧ s'.live = s.live ∧ s'.minAlign = s.minAlign := by
  have hx := (inAnotherChunk_frame e).ext 0 (fun _ _ => Nat.zero_le _)
  exact ⟨hx.length_le, hx.geometry_prefix, fun n => hx.sameGeometryPrefix, hx.live, hx.minAlign⟩

theorem allocGeneric_monotone {cfg : Cfg} {k : Kind} {s s' : State} {L : Layout} {h hs : Hints}
    {r : Except AErr (Nat × Nat)} (e : allocGeneric cfg k s L h hs = .ok (s', r)) :
    s.chunks.length ≤ s'.chunks.length ∧ geometry s = (geometry s').take s.chunks.length ∧
    (∀ n, SameGeometryPrefix n s s') ∧ s'.live = s.live ∧ s'.minAlign = s.minAlign := by
  have hx := (allocGeneric_frame e).1 0 (fun _ _ => Nat.zero_le _)
  exact ⟨hx.length_le, hx.geometry_prefix, fun n => hx.sameGeometryPrefix, hx.live, hx.minAlign⟩

/-- `alloc`: the chunk list of the result extends the old one; additionally the bump positions of all
    chunks BEFORE the current one are untouched (their blocks are not disturbed) -/
theorem alloc_monotone {cfg : Cfg} {s s' : State} {L : Layout} {r : Except AErr Nat}
    (e : alloc cfg s L = .ok (s', r)) :
    s.chunks.length ≤ s'.chunks.length ∧ geometry s = (geometry s').take s.chunks.length ∧
    (∀ n, SameGeometryPrefix n s s') ∧ s'.live = s.live ∧ s'.minAlign = s.minAlign ∧
    (∀ i, s.cur = .chunk i → ∀ j c, j < i → s.chunks[j]? = some c → ∃ c', s'.chunks[j]? = some c' ∧ c'.pos = c.pos) := by
  have hx := (alloc_frame e).1 0 (fun _ _ => Nat.zero_le _)
  refine ⟨hx.length_le, hx.geometry_prefix, fun n => hx.sameGeometryPrefix, hx.live, hx.minAlign, ?_⟩
  intro i hi j c hj hc
  have hy := (alloc_frame e).1 i (fun i' hi' => by rw [hi] at hi'; cases hi'; exact Nat.le_refl _)
  obtain ⟨c', h1, _, h3⟩ := hy.chunk j c hc
  exact ⟨c', h1, h3 hj⟩

/-- `SameGeometryPrefix` composes, so it holds across any sequence of such operations -/
theorem SameGeometryPrefix.trans {n : Nat} {a b c : State}
    (h1 : SameGeometryPrefix n a b) (h2 : SameGeometryPrefix n b c) : SameGeometryPrefix n a c := by
  intro j hj x hx
  obtain ⟨y, hy, hb, hs⟩ := h1 j hj x hx
  obtain ⟨z, hz, hb', hs'⟩ := h2 j hj y hy
  exact ⟨z, hz, hb'.trans hb, hs'.trans hs⟩

/-! ## Repeating the same workload after the scope needs no new memory

  `Ledger.Run cfg s Ls s1 ps`: the allocations `Ls`, executed in order from `s`, all succeed, return the
  addresses `ps` and end in `s1` (any number of them may have acquired new chunks). -/

/-- Replay in any state `t` that has the current chunk and position of `s`, the same minimum
    alignment, and still owns every chunk the first run ended with: every allocation succeeds again
    AT THE SAME ADDRESS, and the base allocator is never consulted. -/
theorem replay_needs_no_memory {cfg : Cfg} {s s1 t : State} {Ls : List Layout} {ps : List Nat} {i : Nat}
    (hrun : Run cfg s Ls s1 ps) (hcur : s.cur = .chunk i) (hi : i < s.chunks.length)
    (hsim : Sim s t) (hfin : CovC s1.chunks t.chunks) :
    ∃ t1, Run cfg t Ls t1 ps ∧ t1.reqs = t.reqs ∧ t1.resps = t.resps ∧ t1.chunks.length = t.chunks.length := by
  obtain ⟨t1, h1, h2, h3, _, h5, _⟩ := hrun.replay t ⟨i, hcur, hi⟩ hsim hfin
  exact ⟨t1, h1, h2, h3, h5⟩

/-- The scope version: run a workload inside a scope entered in `s`, leave the scope (`reset_to` with
    the checkpoint of `s`), run the same workload again: `reset_to` does not fault, the second run
    succeeds with the same addresses, and neither makes any base-allocator request. -/
theorem scope_replay_needs_no_memory {cfg : Cfg} {s s1 : State} {Ls : List Layout} {ps : List Nat} {i : Nat}
    {c : Chunk} (hrun : Run cfg s Ls s1 ps)
    (hcur : s.cur = .chunk i) (hc : s.chunks[i]? = some c)
    (hma : s.minAlign = 1 ∨ s.minAlign = 2 ∨ s.minAlign = 4 ∨ s.minAlign = 8 ∨ s.minAlign = 16)
    (hd : s.minAlign ∣ c.pos)
    (hin : c.contentStart cfg ≤ c.pos ∧ c.pos ≤ c.contentEnd cfg) (hp : c.pos < 2^64 - 16) :
    ∃ s'' s2, resetTo cfg s1 (checkpoint cfg s) = .ok s'' ∧ s''.reqs = s1.reqs ∧
      Run cfg s'' Ls s2 ps ∧ s2.reqs = s1.reqs ∧ s2.chunks.length = s1.chunks.length := by
  have hext := hrun.ext
  have hcp : checkpoint cfg s = { cur := .chunk i, addr := c.pos } := by
    unfold checkpoint curPos; simp only [hcur, hc]
  obtain ⟨c1, hc1, sp, _⟩ := hext.chunk i c hc
  have hr := resetTo_chunk (cfg := cfg) (a := c.pos) hc1
    (by rw [contentStart_congr cfg sp, contentEnd_congr cfg sp]; exact hin)
    (by rw [hext.minAlign]; exact hma) (by rw [hext.minAlign]; exact hd) hp
  have hi := (List.getElem?_eq_some_iff.1 hc).1
  have hsim : Sim s { setPos s1 i c.pos with cur := .chunk i } := by
    refine ⟨⟨hext.minAlign, hext.covC.trans (CovC.modify_pos _ _ _)⟩, hcur.symm, ?_⟩
    intro i' x hi' hx
    rw [hcur] at hi'
    simp only [Cur.chunk.injEq] at hi'
    subst hi'
    rw [hc] at hx; cases hx
    refine ⟨{ c1 with pos := c.pos }, ?_, rfl⟩
    show (s1.chunks.modify i _)[i]? = _
    simp only [List.getElem?_modify, hc1, ↓reduceIte, Option.map_some]
    rfl
  have hfin : CovC s1.chunks ({ setPos s1 i c.pos with cur := .chunk i } : State).chunks :=
    CovC.modify_pos _ _ _
  obtain ⟨t1, h1, h2, _, h4⟩ := replay_needs_no_memory hrun hcur hi hsim hfin
  refine ⟨{ setPos s1 i c.pos with cur := .chunk i }, t1, (by rw [hcp]; exact hr), rfl, h1, h2, ?_⟩
  rw [h4]; exact setPos_length s1 i c.pos

/-- `reset()` loop: once one round of a workload fits in the single chunk the arena has (the round
    acquired nothing), `reset` releases nothing and every later round behaves identically — same
    addresses, no base-allocator request.  The conclusion re-establishes the hypotheses for the next
    round (one chunk at its start position, current), so this holds for all later rounds. -/
theorem reset_loop_stable {cfg : Cfg} {s0 s1 : State} {Ls : List Layout} {ps : List Nat} {c0 : Chunk}
    (hcur : s0.cur = .chunk 0) (hch : s0.chunks = [c0]) (hpos : (c0.resetPos cfg).pos = c0.pos)
    (hrun : Run cfg s0 Ls s1 ps) (hone : s1.chunks.length = 1) :
    (reset cfg s1).reqs = s1.reqs ∧ (reset cfg s1).cur = .chunk 0 ∧
    (∃ c1, (reset cfg s1).chunks = [c1] ∧ (c1.resetPos cfg).pos = c1.pos) ∧
    ∃ t1, Run cfg (reset cfg s1) Ls t1 ps ∧ t1.reqs = (reset cfg s1).reqs ∧ t1.chunks.length = 1 := by
  have hext := hrun.ext
  obtain ⟨c1, hc1⟩ : ∃ c1, s1.chunks = [c1] := by
    cases h : s1.chunks with
    | nil => rw [h] at hone; cases hone
    | cons a l =>
      cases l with
      | nil => exact ⟨a, rfl⟩
      | cons b l' => rw [h] at hone; simp only [List.length_cons] at hone; omega
  have h0 : s0.chunks[0]? = some c0 := by rw [hch]; rfl
  obtain ⟨c1', h1, sp, _⟩ := hext.chunk 0 c0 h0
  have : c1' = c1 := by rw [hc1] at h1; exact (Option.some.inj h1).symm
  subst this
  have hcov10 : CovC s1.chunks s0.chunks := by
    intro j x hx
    rw [hc1] at hx
    cases j with
    | zero => cases hx; exact ⟨c0, h0, sp.symm⟩
    | succ j => cases hx
  obtain ⟨_, _, _, _, _, _, j, hj1, hj2⟩ :=
    hrun.replay s0 ⟨0, hcur, by rw [hch]; exact Nat.zero_lt_one⟩ ⟨⟨rfl, CovC.refl _⟩, rfl, fun i c _ hc => ⟨c, hc, rfl⟩⟩ hcov10
  have hj0 : j = 0 := by omega
  subst hj0
  have hreset : reset cfg s1 = { s1 with reqs := s1.reqs ++ [], chunks := [c1'.resetPos cfg], cur := .chunk 0 } := by
    unfold reset
    simp only [hj1, hc1, List.take_zero, List.reverse_nil, List.drop_zero, List.dropLast_singleton,
      List.append_nil, List.map_nil, List.getLast?_singleton]
  have hrp := resetPos_samePlace cfg sp
  have hidem : ((c1'.resetPos cfg).resetPos cfg).pos = (c1'.resetPos cfg).pos :=
    (resetPos_samePlace cfg (SamePlace.refl c1' : SamePlace c1' (c1'.resetPos cfg))).2
  have hsim : Sim s0 (reset cfg s1) := by
    rw [hreset]
    refine ⟨⟨hext.minAlign, ?_⟩, hcur.symm, ?_⟩
    · intro k x hx
      rw [hch] at hx
      cases k with
      | zero => cases hx; exact ⟨_, rfl, hrp.1⟩
      | succ k => cases hx
    · intro i x hi hx
      rw [hcur] at hi; cases hi
      rw [h0] at hx; cases hx
      exact ⟨_, rfl, hrp.2.trans hpos⟩
  have hfin : CovC s1.chunks (reset cfg s1).chunks := by
    rw [hreset, hc1]
    intro k x hx
    cases k with
    | zero => cases hx; exact ⟨_, rfl, SamePlace.refl _⟩
    | succ k => cases hx
  obtain ⟨t1, r1, r2, _, r4⟩ := replay_needs_no_memory hrun hcur (by rw [hch]; exact Nat.zero_lt_one) hsim hfin
  refine ⟨by rw [hreset]; exact List.append_nil _, by rw [hreset], ⟨c1'.resetPos cfg, by rw [hreset], hidem⟩,
    t1, r1, r2, ?_⟩
  rw [r4, hreset]; rfl

/-! ## Non-vacuity: concrete states satisfying the hypotheses (checked by evaluation) -/

section Examples
open Ledger.Ex

/-- checkpoint in `s2` (first chunk current, position 4200); left in `s2later` (second chunk current) -/
example : ∃ s'', resetTo cfg0 s2later (checkpoint cfg0 s2) = .ok s'' ∧
      s''.cur = s2.cur ∧ (s''.chunks[0]?).map (·.pos) = some 4200 ∧ curPos cfg0 s'' = curPos cfg0 s2 ∧
      (stats cfg0 s'').allocated = (stats cfg0 s2).allocated ∧
      s''.chunks.length = s2later.chunks.length ∧ s''.reqs = s2later.reqs ∧ s''.resps = s2later.resps ∧
      s''.live = s2later.live ∧ geometry s'' = geometry s2later :=
  resetTo_checkpoint_restores (cfg := cfg0) (s := s2) (s' := s2later) (i := 0) (c := ch 4096 496 4200) rfl rfl
    (by
      intro j hj c hc
      have : j = 0 := by omega
      subst this
      cases hc
      exact ⟨_, rfl, rfl, rfl⟩)
    rfl (by decide) (by decide) (by decide) (by decide)
example : (stats cfg0 s2).allocated = 72 := rfl
example : cfg0.ga = false ∧ (initState cfg0).cur = .unallocated := ⟨rfl, rfl⟩
example : (stats cfg0 (resetToStart cfg0 s2later)).allocated = 0 :=
  (resetToStart_allocated_zero (cfg := cfg0) (s' := s2later) (j := 1) rfl rfl).2.2.1

/-- a workload that stays in the current chunk, and one that acquires a chunk (the base allocator
    grants 2048 bytes at 16384) -/
example : ∃ s1, Run cfg0 s2 [L100, L100] s1 [4200, 4304] := ⟨_, Run.cons rfl (Run.cons rfl (Run.nil _))⟩
example : ∃ s1, Run cfg0 { sFull with resps := [.granted 16384 2048] } [L100] s1 [16416] ∧ s1.chunks.length = 2 ∧
    s1.reqs = [.alloc 1008 16] :=
  ⟨_, Run.cons rfl (Run.nil _), rfl, rfl⟩

/-- hypotheses of `reset_loop_stable`: one chunk at its start position, a round that fits in it -/
example : ∃ s1, ({ s2 with chunks := [ch 4096 496 4128] } : State).cur = .chunk 0 ∧
    ((ch 4096 496 4128).resetPos cfg0).pos = (ch 4096 496 4128).pos ∧
    Run cfg0 { s2 with chunks := [ch 4096 496 4128] } [L100, L100] s1 [4128, 4232] ∧ s1.chunks.length = 1 :=
  ⟨_, rfl, rfl, Run.cons rfl (Run.cons rfl (Run.nil _)), rfl⟩

end Examples

end C03
