/-
  Props/C11.lean — property C11: bump-pointer arithmetic is correct, tight and
  hint-independent.  ONLY property theorems live here; helper lemmas are in
  `Lemmas/`.

  The theorems are about the GENERATED definitions `Gen.Bumping.*`
  (regenerated from /repo/src/bumping.rs on every run) and relate them to the
  wide-integer specification `Spec.*`.
-/
import BumpProof.Gen.Bumping
import BumpProof.Spec.Bump
import BumpProof.Spec.BumpValid
import BumpProof.Lemmas.BumpEq

namespace C11
open Gen.Bumping Rs

/-! ## Generated code = specification (no overflow, no assertion failure, hint-independent) -/

theorem bump_up_eq (p : BumpProps) (h : Valid true p) :
    bump_up p = .ok ((Spec.bumpUp p.start p.«end» p.layout.size p.layout.align p.min_align).map
      fun r => { new_pos := r.2, ptr := r.1 }) :=
  Lemmas.bump_up_eq p h

theorem bump_down_eq (p : BumpProps) (h : Valid false p) :
    bump_down p = .ok (Spec.bumpDown p.start p.«end» p.layout.size p.layout.align p.min_align) :=
  Lemmas.bump_down_eq p h

theorem bump_prepare_up_eq (p : BumpProps) (h : Valid true p) :
    bump_prepare_up p = .ok (Spec.prepareUp p.start p.«end» p.layout.size p.layout.align) :=
  Lemmas.bump_prepare_up_eq p h

theorem bump_prepare_down_eq (p : BumpProps) (h : Valid false p) :
    bump_prepare_down p = .ok (Spec.prepareDown p.start p.«end» p.layout.size p.layout.align) :=
  Lemmas.bump_prepare_down_eq p h

/-- Hint independence: two requests that differ only in their (truthful) hints get the same answer. -/
theorem bump_up_hint_independent (p q : BumpProps) (hp : Valid true p) (hq : Valid true q)
    (h1 : p.start = q.start) (h2 : p.«end» = q.«end») (h3 : p.layout = q.layout) (h4 : p.min_align = q.min_align) :
    bump_up p = bump_up q := by
  rw [bump_up_eq p hp, bump_up_eq q hq, h1, h2, h3, h4]

theorem bump_down_hint_independent (p q : BumpProps) (hp : Valid false p) (hq : Valid false q)
    (h1 : p.start = q.start) (h2 : p.«end» = q.«end») (h3 : p.layout = q.layout) (h4 : p.min_align = q.min_align) :
    bump_down p = bump_down q := by
  rw [bump_down_eq p hp, bump_down_eq q hq, h1, h2, h3, h4]

/-! ## The specification is sound, tight and optimal (over unbounded naturals) -/

/-- up, success: aligned, inside the range, nearest to `start`, new position after the block,
    inside the range, `minAlign`-aligned and the least such. -/
theorem bumpUp_some {s e sz al ma ptr np : Nat} (hal : 0 < al) (hma : 0 < ma) (hme : ma ∣ e)
    (h : Spec.bumpUp s e sz al ma = some (ptr, np)) :
    al ∣ ptr ∧ s ≤ ptr ∧ ptr + sz ≤ np ∧ np ≤ e ∧ ma ∣ np ∧ np < ptr + sz + ma ∧
    (∀ q, al ∣ q → s ≤ q → ptr ≤ q) :=
  Lemmas.bumpUp_some hal hma hme h

/-- up, failure happens exactly when no aligned block of that size exists in the range -/
theorem bumpUp_none_iff {s e sz al ma : Nat} (hal : 0 < al) :
    Spec.bumpUp s e sz al ma = none ↔ ¬ ∃ q, al ∣ q ∧ s ≤ q ∧ q + sz ≤ e :=
  Lemmas.bumpUp_none_iff hal

/-- down, success: aligned for the layout and the minimum alignment, inside the range, nearest to `end` -/
theorem bumpDown_some {s e sz al ma ptr : Nat} (hal : 0 < al) (hma : 0 < ma)
    (hdvd : al ∣ ma ∨ ma ∣ al)
    (h : Spec.bumpDown s e sz al ma = some ptr) :
    al ∣ ptr ∧ ma ∣ ptr ∧ s ≤ ptr ∧ ptr + sz ≤ e ∧
    (∀ q, al ∣ q → ma ∣ q → q + sz ≤ e → q ≤ ptr) :=
  Lemmas.bumpDown_some hal hma hdvd h

/-- down, failure happens exactly when no suitably aligned block of that size exists in the range -/
theorem bumpDown_none_iff {s e sz al ma : Nat} (hal : 0 < al) (hma : 0 < ma) (hdvd : al ∣ ma ∨ ma ∣ al) :
    Spec.bumpDown s e sz al ma = none ↔ ¬ ∃ q, al ∣ q ∧ ma ∣ q ∧ s ≤ q ∧ q + sz ≤ e :=
  Lemmas.bumpDown_none_iff hal hma hdvd

/-- prepare (both directions): for `al ∣ sz` the result is a range with aligned ends inside the
    free range, at least as large as the request, and it contains every other such range. -/
theorem prepareUp_some {s e sz al rs re : Nat} (hal : 0 < al) (hsz : al ∣ sz)
    (h : Spec.prepareUp s e sz al = some (rs, re)) :
    al ∣ rs ∧ al ∣ re ∧ s ≤ rs ∧ re ≤ e ∧ rs + sz ≤ re ∧
    (∀ a b, al ∣ a → al ∣ b → s ≤ a → a ≤ b → b ≤ e → rs ≤ a ∧ b ≤ re) :=
  Lemmas.prepareUp_some hal hsz h

theorem prepareUp_none_iff {s e sz al : Nat} (hal : 0 < al) :
    Spec.prepareUp s e sz al = none ↔ ¬ ∃ q, al ∣ q ∧ s ≤ q ∧ q + sz ≤ e :=
  Lemmas.prepareUp_none_iff hal

theorem prepareDown_some {s e sz al rs re : Nat} (hal : 0 < al) (hsz : al ∣ sz)
    (h : Spec.prepareDown s e sz al = some (rs, re)) :
    al ∣ rs ∧ al ∣ re ∧ s ≤ rs ∧ re ≤ e ∧ rs + sz ≤ re ∧
    (∀ a b, al ∣ a → al ∣ b → s ≤ a → a ≤ b → b ≤ e → rs ≤ a ∧ b ≤ re) :=
  Lemmas.prepareDown_some hal hsz h

theorem prepareDown_none_iff {s e sz al : Nat} (hal : 0 < al) (hsz : al ∣ sz) :
    Spec.prepareDown s e sz al = none ↔ ¬ ∃ q, al ∣ q ∧ s ≤ q ∧ q + sz ≤ e :=
  Lemmas.prepareDown_none_iff hal hsz

/-! ## Corollaries: "fits" is monotone in the free range and is the same question for every entry point -/

/-- Growing the free range at its end never turns a request that fits into one that does not (up). -/
theorem bumpUp_fits_mono {s e e' sz al ma ma' : Nat} (hal : 0 < al) (he : e ≤ e')
    (h : Spec.bumpUp s e sz al ma ≠ none) : Spec.bumpUp s e' sz al ma' ≠ none := by
  intro h'
  rw [bumpUp_none_iff hal] at h'
  apply h
  rw [bumpUp_none_iff hal]
  rintro ⟨q, h1, h2, h3⟩
  exact h' ⟨q, h1, h2, by omega⟩

/-- Growing the free range at its start never turns a request that fits into one that does not (down). -/
theorem bumpDown_fits_mono {s s' e sz al ma : Nat} (hal : 0 < al) (hma : 0 < ma) (hdvd : al ∣ ma ∨ ma ∣ al)
    (hs : s' ≤ s) (h : Spec.bumpDown s e sz al ma ≠ none) : Spec.bumpDown s' e sz al ma ≠ none := by
  intro h'
  rw [bumpDown_none_iff hal hma hdvd] at h'
  apply h
  rw [bumpDown_none_iff hal hma hdvd]
  rintro ⟨q, h1, h2, h3, h4⟩
  exact h' ⟨q, h1, h2, by omega, h4⟩

/-- Upwards, the minimum alignment never decides whether a request fits (it only rounds the new position,
    and the end of the range is a multiple of it): the answer is `none` for one minimum alignment iff for all. -/
theorem bumpUp_fits_minAlign_independent {s e sz al ma ma' : Nat} (hal : 0 < al) :
    Spec.bumpUp s e sz al ma = none ↔ Spec.bumpUp s e sz al ma' = none := by
  rw [bumpUp_none_iff hal, bumpUp_none_iff hal]

/-- A prepared allocation (what the `Mut*` collections use) is refused exactly when the plain allocation of the
    same layout would be refused (up). -/
theorem prepareUp_none_iff_bumpUp_none {s e sz al ma : Nat} (hal : 0 < al) :
    Spec.prepareUp s e sz al = none ↔ Spec.bumpUp s e sz al ma = none := by
  rw [prepareUp_none_iff hal, bumpUp_none_iff hal]

/-- The same downwards, for a minimum alignment that divides the layout alignment (then every `al`-aligned
    address is `ma`-aligned, so the two questions coincide). -/
theorem prepareDown_none_iff_bumpDown_none {s e sz al ma : Nat} (hal : 0 < al) (hma : 0 < ma) (hsz : al ∣ sz)
    (hd : ma ∣ al) :
    Spec.prepareDown s e sz al = none ↔ Spec.bumpDown s e sz al ma = none := by
  rw [prepareDown_none_iff hal hsz, bumpDown_none_iff hal hma (Or.inr hd)]
  constructor
  · rintro h ⟨q, h1, _, h3, h4⟩; exact h ⟨q, h1, h3, h4⟩
  · rintro h ⟨q, h1, h3, h4⟩; exact h ⟨q, h1, Nat.dvd_trans hd h1, h3, h4⟩

/-- A request that fits is no larger than the free range, and from an already aligned start the converse holds:
    the only bytes ever lost are alignment padding (up). -/
theorem bumpUp_fits_size_le {s e sz al ma : Nat} (hal : 0 < al)
    (h : Spec.bumpUp s e sz al ma ≠ none) : s + sz ≤ e := by
  apply Classical.byContradiction
  intro hc
  apply h
  rw [bumpUp_none_iff hal]
  rintro ⟨q, _, h2, h3⟩
  omega

theorem bumpUp_fits_of_aligned_start {s e sz al ma : Nat} (hal : 0 < al) (hs : al ∣ s) (hle : s + sz ≤ e) :
    Spec.bumpUp s e sz al ma ≠ none := by
  intro h
  rw [bumpUp_none_iff hal] at h
  exact h ⟨s, hs, Nat.le_refl s, hle⟩

/-- Non-vacuity of the corollaries: a request that fits in [16, 48) and therefore in [16, 64). -/
example : Spec.bumpUp 16 48 24 8 1 ≠ none ∧ Spec.bumpUp 16 64 24 8 16 ≠ none := by decide

/-! ## Non-vacuity: concrete inputs meeting the hypotheses -/

def exUp : BumpProps :=
  { start := 0x1008, «end» := 0x2000, min_align := 8, layout := { size := 24, align := 32 },
    align_is_const := false, size_is_const := false, size_is_multiple_of_align := false }

example : Valid true exUp := by
  refine ⟨⟨by decide, by decide, by decide, by decide, by decide, ⟨⟨5, by decide, by decide⟩, by decide⟩, by decide⟩, Or.inl ?_⟩
  exact ⟨by decide, by decide, by decide⟩

def exDummy : BumpProps :=
  { start := 0x1010, «end» := 0x1000, min_align := 1, layout := { size := 0, align := 1 },
    align_is_const := true, size_is_const := true, size_is_multiple_of_align := true }

example : Valid false exDummy := by
  refine ⟨⟨by decide, by decide, by decide, by decide, by decide, ⟨⟨0, by decide, by decide⟩, by decide⟩, by decide⟩, Or.inr ?_⟩
  exact ⟨by decide, by decide⟩

end C11
