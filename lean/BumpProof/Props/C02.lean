/-
  Props/C02.lean — property C02: bytes of a live block change only through its owner.

  Theorems about the memory functions of the arena model (`Arena/Model.lean`, `Arena/Step.lean`):
  which bytes `writeRange` / `copyBytes` / `zeroRange` touch, that the allocation, deallocation,
  reserve and reset paths never write, and frame + prefix-preservation theorems for every
  reallocating operation (`grow`, `shrink`, `WithoutShrink::shrink`, `shrink_slice`,
  `allocate_prepared(_rev)`, `allocate_prepared_slice(_rev)`).

  Hypotheses (definitions in namespace `Arena.Mem`: `Lemmas/MemBasic.lean`, `MemWrite.lean`, `MemFresh.lean`):
  * `MemWF s`      : chunk address ranges pairwise disjoint, every chunk carries `size` bytes;
  * `HeadFresh s`  : the next base-allocator response (if a grant) overlaps no existing chunk;
  * `InChunks s a` : `a` is an address of some chunk of `s` (bytes outside every chunk are not
                     memory of the arena; `readByte` returns 0 for them).
  `Realloc s s' ptr np n total` : the first `n` bytes of `[np, …)` in `s'` equal those of `[ptr, …)`
  in `s`, and no byte of a chunk of `s` outside `[np, np+total)` changed.
-/
import BumpProof.Lemmas.MemExLive

namespace C02
open Arena Arena.Mem Rs

/-! ## `writeRange`, `copyBytes`, `zeroRange` -/

/-- after a successful write, `[lo, hi)` holds `f` -/
theorem writeRange_inside {cfg : Cfg} {s s' : State} {lo hi : Nat} {f : Nat → UInt8}
    (hwf : MemWF s) (h : writeRange cfg s lo hi f = .ok s') {a : Nat} (h1 : lo ≤ a) (h2 : a < hi) :
    readByte s' a = f a :=
  writeRange_read_in hwf.1 hwf.2 h h1 h2

/-- a write changes no byte outside `[lo, hi)` (no well-formedness needed) -/
theorem writeRange_outside {cfg : Cfg} {s s' : State} {lo hi : Nat} {f : Nat → UInt8}
    (h : writeRange cfg s lo hi f = .ok s') {a : Nat} (h1 : a < lo ∨ hi ≤ a) :
    readByte s' a = readByte s a :=
  writeRange_read_out h h1

/-- a write changes nothing but chunk bytes: positions, chunk geometry, current chunk, live blocks,
    frames, … are untouched -/
theorem writeRange_only_data {cfg : Cfg} {s s' : State} {lo hi : Nat} {f : Nat → UInt8}
    (h : writeRange cfg s lo hi f = .ok s') :
    s' = { s with chunks := s'.chunks } ∧ s'.chunks.map Chunk.memGeom = s.chunks.map Chunk.memGeom :=
  writeRange_onlyData h

/-- a successful non-empty write stays inside the content range (not the header) of one chunk -/
theorem writeRange_in_content {cfg : Cfg} {s s' : State} {lo hi : Nat} {f : Nat → UInt8}
    (h : writeRange cfg s lo hi f = .ok s') (hlt : lo < hi) :
    ∃ c ∈ s.chunks, c.contentStart cfg ≤ lo ∧ hi ≤ c.contentEnd cfg := by
  rcases writeRange_ok h with ⟨h0, _⟩ | ⟨_, i, c, hc, _, _, h3, h4, _⟩
  · omega
  · exact ⟨c, List.mem_of_getElem? hc, h3, h4⟩

/-- memmove semantics, also for overlapping ranges -/
theorem copyBytes_dst {cfg : Cfg} {s s' : State} {src dst len : Nat} {b : Bool}
    (hwf : MemWF s) (h : copyBytes cfg s src dst len b = .ok s') {k : Nat} (hk : k < len) :
    readByte s' (dst + k) = readByte s (src + k) :=
  copyBytes_read_dst hwf h hk

theorem copyBytes_outside {cfg : Cfg} {s s' : State} {src dst len : Nat} {b : Bool}
    (h : copyBytes cfg s src dst len b = .ok s') {a : Nat} (ha : a < dst ∨ dst + len ≤ a) :
    readByte s' a = readByte s a :=
  copyBytes_read_out h ha

theorem copyBytes_only_data {cfg : Cfg} {s s' : State} {src dst len : Nat} {b : Bool}
    (h : copyBytes cfg s src dst len b = .ok s') :
    s' = { s with chunks := s'.chunks } ∧ s'.chunks.map Chunk.memGeom = s.chunks.map Chunk.memGeom :=
  copyBytes_onlyData h

/-- `copy_nonoverlapping` with overlapping ranges is a fault (UB), never a silent success -/
theorem copyBytes_nonoverlapping_faults (cfg : Cfg) (s : State) {src dst len : Nat}
    (hlen : 0 < len) (h1 : src < dst + len) (h2 : dst < src + len) :
    ∃ what, copyBytes cfg s src dst len true = .error (.ub what) :=
  copyBytes_overlap_faults cfg s hlen h1 h2

/-- zeroing: the range reads 0 afterwards whatever it held before -/
theorem zeroRange_zero {cfg : Cfg} {s s' : State} {addr len : Nat} (hwf : MemWF s)
    (h : zeroRange cfg s addr len = .ok s') {a : Nat} (h1 : addr ≤ a) (h2 : a < addr + len) :
    readByte s' a = 0 :=
  zeroRange_read_in hwf h h1 h2

theorem zeroRange_outside {cfg : Cfg} {s s' : State} {addr len : Nat}
    (h : zeroRange cfg s addr len = .ok s') {a : Nat} (h1 : a < addr ∨ addr + len ≤ a) :
    readByte s' a = readByte s a :=
  zeroRange_read_out h h1

/-! ## Operations that never write -/

/-- allocation (fast path, next chunk, new chunk) changes no byte of an existing chunk -/
theorem alloc_never_writes {cfg : Cfg} {s s' : State} {L : Layout} {r : Except AErr Nat}
    (h : alloc cfg s L = .ok (s', r)) {a : Nat} (ha : InChunks s a) : readByte s' a = readByte s a :=
  (alloc_memExt h).readByte ha

/-- the typed fast paths / prepare paths (`allocGeneric` for `alloc`, `prepare`, `range`) -/
theorem allocGeneric_never_writes {cfg : Cfg} {k : Kind} {s s' : State} {L : Layout} {hh hSlow : Hints}
    {r : Except AErr (Nat × Nat)} (h : allocGeneric cfg k s L hh hSlow = .ok (s', r)) {a : Nat}
    (ha : InChunks s a) : readByte s' a = readByte s a :=
  (allocGeneric_memExt h).readByte ha

theorem deallocate_never_writes {cfg : Cfg} {s s' : State} {ptr size : Nat}
    (h : deallocate cfg s ptr size = .ok s') (a : Nat) : readByte s' a = readByte s a :=
  readByte_congr (deallocate_memOf h) a

theorem reserve_never_writes {cfg : Cfg} {s s' : State} {n : Nat} {r : Except AErr Unit}
    (h : reserve cfg s n = .ok (s', r)) {a : Nat} (ha : InChunks s a) : readByte s' a = readByte s a :=
  (reserve_memExt h).readByte ha

theorem reserveDyn_never_writes {cfg : Cfg} {s s' : State} {n : Nat} {r : Except AErr Unit}
    (h : reserveDyn cfg s n = .ok (s', r)) {a : Nat} (ha : InChunks s a) : readByte s' a = readByte s a :=
  (reserveDyn_memExt h).readByte ha

theorem makeAllocated_never_writes {cfg : Cfg} {s s' : State} {r : Except AErr Unit}
    (h : makeAllocated cfg s = .ok (s', r)) {a : Nat} (ha : InChunks s a) : readByte s' a = readByte s a :=
  (makeAllocated_memExt h).readByte ha

/-- leaving a scope / `reset_to` -/
theorem resetTo_never_writes {cfg : Cfg} {s s' : State} {cp : Checkpoint}
    (h : resetTo cfg s cp = .ok s') (a : Nat) : readByte s' a = readByte s a :=
  readByte_congr (resetTo_memOf h) a

theorem resetToStart_never_writes (cfg : Cfg) (s : State) (a : Nat) :
    readByte (resetToStart cfg s) a = readByte s a :=
  readByte_congr (resetToStart_memOf cfg s) a

/-- `reset` frees all chunks but the last; the bytes of the chunk that survives are untouched -/
theorem reset_never_writes (cfg : Cfg) (s : State) (hd : ChunksDisjoint s.chunks) {a : Nat}
    (ha : InChunks (reset cfg s) a) : readByte (reset cfg s) a = readByte s a :=
  reset_readByte cfg s hd ha

theorem alignTo_never_writes {cfg : Cfg} {s s' : State} {n : Nat}
    (h : alignTo cfg s n = .ok s') (a : Nat) : readByte s' a = readByte s a :=
  readByte_congr (alignTo_memOf h) a

theorem alignGuardDrop_never_writes {cfg : Cfg} {s s' : State} {n : Nat}
    (h : alignGuardDrop cfg s n = .ok s') (a : Nat) : readByte s' a = readByte s a :=
  readByte_congr (alignGuardDrop_memOf h) a

/-- the second half of `BumpAlignGuard::drop` (re-aligning the chunk the guard started in) writes no byte -/
theorem alignChunkAt_never_writes {cfg : Cfg} {s s' : State} {n : Nat} {st : Cur}
    (h : alignChunkAt cfg s n st = .ok s') (a : Nat) : readByte s' a = readByte s a :=
  readByte_congr (alignChunkAt_memOf h) a

/-- the chunk list stays well-formed across an allocation when the base allocator grants fresh memory -/
theorem alloc_keeps_wf {cfg : Cfg} {s s' : State} {L : Layout} {r : Except AErr Nat}
    (hwf : MemWF s) (hfr : HeadFresh s) (h : alloc cfg s L = .ok (s', r)) : MemWF s' :=
  alloc_wfPres h hwf hfr

/-! ## Reallocation: prefix preserved, nothing outside the new block written -/

/-- `grow`, every branch (in place upwards; in place downwards with overlapping or non-overlapping
    copy; moved within the chunk, to the next chunk or to a new chunk) -/
theorem grow_realloc {cfg : Cfg} {s s' : State} {ptr oldSize np : Nat} {newL : Layout}
    (hwf : MemWF s) (hfr : HeadFresh s) (hold : ∀ k, k < oldSize → InChunks s (ptr + k))
    (h : grow cfg s ptr oldSize newL = .ok (s', .ok np)) :
    Realloc s s' ptr np oldSize newL.size ∧ oldSize ≤ newL.size :=
  ⟨grow_frame (grow_wfPres h hwf hfr) hold h, grow_size_le h⟩

/-- `shrink` (fits / does not fit the new alignment, upwards / downwards, `SHRINKS` on or off) -/
theorem shrink_realloc {cfg : Cfg} {s s' : State} {ptr oldSize np nsize : Nat} {newL : Layout}
    (hwf : MemWF s) (hfr : HeadFresh s) (hold : ∀ k, k < newL.size → InChunks s (ptr + k))
    (h : shrink cfg s ptr oldSize newL = .ok (s', .ok (np, nsize))) :
    Realloc s s' ptr np newL.size nsize :=
  shrink_frame (shrink_wfPres h hwf hfr) hold h

/-- `WithoutShrink::shrink` -/
theorem shrinkWithoutShrink_realloc {cfg : Cfg} {s s' : State} {ptr oldSize np nsize : Nat} {newL : Layout}
    (hwf : MemWF s) (hfr : HeadFresh s) (hold : ∀ k, k < newL.size → InChunks s (ptr + k))
    (h : shrinkWithoutShrink cfg s ptr oldSize newL = .ok (s', .ok (np, nsize))) :
    Realloc s s' ptr np newL.size nsize ∧ nsize = newL.size :=
  shrinkWithoutShrink_frame (shrinkWithoutShrink_wfPres h hwf hfr) hold h

/-- `shrink_slice` that moves / trims the block -/
theorem shrinkSlice_realloc {cfg : Cfg} {s s' : State} {ptr oldSize newSize ealign np : Nat}
    (hwf : MemWF s) (hold : ∀ k, k < newSize → InChunks s (ptr + k))
    (h : shrinkSlice cfg s ptr oldSize newSize ealign = .ok (s', some np)) :
    Realloc s s' ptr np newSize newSize :=
  shrinkSlice_frame (MemWF.of_shape (shrinkSlice_shapeSame h).1 hwf) hold h

/-- `shrink_slice` that declines does nothing at all -/
theorem shrinkSlice_declined {cfg : Cfg} {s s' : State} {ptr oldSize newSize ealign : Nat}
    (h : shrinkSlice cfg s ptr oldSize newSize ealign = .ok (s', none)) : s' = s :=
  shrinkSlice_none h

/-- `allocate_prepared(_rev)`: the committed block holds what the used part of the prepared range
    held (`[rend - size, rend)` for the rev variant, `[rstart, rstart + size)` otherwise) -/
theorem allocatePrepared_realloc {cfg : Cfg} {s s' : State} {size rstart rend addr : Nat} {rev : Bool}
    (hwf : MemWF s) (hold : ∀ k, k < size → InChunks s ((if rev then rend - size else rstart) + k))
    (h : allocatePrepared cfg s size rstart rend rev = .ok (s', addr)) :
    Realloc s s' (if rev then rend - size else rstart) addr size size :=
  allocatePrepared_frame (MemWF.of_shape (allocatePrepared_shapeSame h).1 hwf) hold h

/-- `allocate_prepared_slice(_rev)` -/
theorem allocatePreparedSlice_realloc {cfg : Cfg} {s s' : State} {ptr len cap esize ealign addr : Nat} {rev : Bool}
    (hwf : MemWF s)
    (hold : ∀ k, k < len * esize → InChunks s ((if rev then ptr - len * esize else ptr) + k))
    (h : allocatePreparedSlice cfg s ptr len cap esize ealign rev = .ok (s', addr)) :
    Realloc s s' (if rev then ptr - len * esize else ptr) addr (len * esize) (len * esize) :=
  allocatePreparedSlice_frame (MemWF.of_shape (allocatePreparedSlice_shapeSame h).1 hwf) hold h

/-! ## Zeroed allocation and zeroed grow (as `stepCore` composes them) -/

/-- `allocate_zeroed`: the new block reads 0 (even if the memory was used before) and no other byte
    of an existing chunk changed -/
theorem allocate_zeroed {cfg : Cfg} {s s1 s2 : State} {L : Layout} {p : Nat}
    (hwf : MemWF s) (hfr : HeadFresh s)
    (h1 : alloc cfg s L = .ok (s1, .ok p)) (h2 : zeroRange cfg s1 p L.size = .ok s2) :
    (∀ a, p ≤ a → a < p + L.size → readByte s2 a = 0) ∧
    (∀ a, (a < p ∨ p + L.size ≤ a) → InChunks s a → readByte s2 a = readByte s a) := by
  have hwf1 := alloc_wfPres h1 hwf hfr
  refine ⟨fun a ha hb => zeroRange_read_in hwf1 h2 ha hb, fun a ha hin => ?_⟩
  rw [zeroRange_read_out h2 ha, (alloc_memExt h1).readByte hin]

/-- `grow_zeroed`: old contents carried over, the new tail reads 0, nothing outside the new block
    changed -/
theorem grow_zeroed {cfg : Cfg} {s s1 s2 : State} {ptr oldSize np : Nat} {newL : Layout}
    (hwf : MemWF s) (hfr : HeadFresh s) (hold : ∀ k, k < oldSize → InChunks s (ptr + k))
    (h1 : grow cfg s ptr oldSize newL = .ok (s1, .ok np))
    (h2 : zeroRange cfg s1 (np + oldSize) (newL.size - oldSize) = .ok s2) :
    (∀ k, k < oldSize → readByte s2 (np + k) = readByte s (ptr + k)) ∧
    (∀ k, oldSize ≤ k → k < newL.size → readByte s2 (np + k) = 0) ∧
    (∀ a, (a < np ∨ np + newL.size ≤ a) → InChunks s a → readByte s2 a = readByte s a) := by
  have hwf1 := grow_wfPres h1 hwf hfr
  obtain ⟨hr, hle⟩ := grow_realloc hwf hfr hold h1
  refine ⟨fun k hk => ?_, fun k hk1 hk2 => ?_, fun a ha hin => ?_⟩
  · rw [zeroRange_read_out h2 (by omega)]; exact hr.prefix_eq k hk
  · exact zeroRange_read_in hwf1 h2 (by omega) (by omega)
  · rw [zeroRange_read_out h2 (by omega)]; exact hr.frame a ha hin

/-! ## Live blocks across whole operations of `stepCore` (uses the C01 invariant `LiveOK`) -/

/-- `allocate` / `allocate_zeroed` (any path: fast, next chunk, new chunk, refused) leaves every byte of
    every block that was live before untouched — also when the new block is zeroed.
    Hypotheses as for `C01.stepCore_allocate`. -/
theorem stepCore_allocate_keeps_live_bytes {cfg : Cfg} {g g' : GState} {L : Layout} {zeroed : Bool} {via : Via}
    {out : Out}
    (hl : LiveOK cfg g.s) (hwf : MemWF g.s) (hfr : HeadFresh g.s) (hp : CurPosOK cfg g.s)
    (hv : C11.Valid cfg.up (bumpProps cfg g.s L Hints.custom))
    (hvslow : ∀ t i' ct, SlowTry cfg g.s t i' ct → C11.Valid cfg.up (bumpProps cfg t L Hints.custom))
    (h : stepCore cfg g (.allocate L zeroed via) = .ok (g', out))
    {b : Block} (hb : b ∈ g.s.live) {k : Nat} (hk : k < b.size) :
    readByte g'.s (b.addr + k) = readByte g.s (b.addr + k) :=
  stepCore_allocate_keeps_bytes hl hwf hfr hp hv hvslow h hb hk

/-- `deallocate` (through any wrapper) changes no byte at all -/
theorem stepCore_deallocate_never_writes {cfg : Cfg} {g g' : GState} {b : Nat} {via : Via} {out : Out}
    (h : stepCore cfg g (.deallocate b via) = .ok (g', out)) (a : Nat) : readByte g'.s a = readByte g.s a :=
  readByte_congr (stepCore_deallocate_memOf h) a

/-- leaving a scope changes no byte at all -/
theorem stepCore_scopeExit_never_writes {cfg : Cfg} {g g' : GState} {out : Out}
    (h : stepCore cfg g .scopeExit = .ok (g', out)) (a : Nat) : readByte g'.s a = readByte g.s a :=
  readByte_congr (stepCore_scopeExit_memOf h) a

/-! ## Non-vacuity: concrete states / inputs meeting the hypotheses (see `Lemmas/MemEx.lean`) -/

section NonVacuity
open Arena.Mem.Ex

example : MemWF stUp ∧ HeadFresh stUp ∧ ∀ k, k < 8 → InChunks stUp (96 + k) :=
  ⟨stUp_wf, stUp_fresh, fun k hk => stUp_in _ (by omega) (by omega)⟩
example : MemWF stDown ∧ HeadFresh stDown ∧ ∀ k, k < 8 → InChunks stDown (80 + k) :=
  ⟨stDown_wf, stDown_fresh, fun k hk => stDown_in _ (by omega) (by omega)⟩

-- writes / copies / zeroing that succeed
example : ∃ s', writeRange cfgUp stUp 96 104 (fun _ => 1) = .ok s' := ⟨_, rfl⟩
example : ∃ s', copyBytes cfgUp stUp 96 100 8 false = .ok s' := ⟨_, rfl⟩      -- overlapping memmove
example : ∃ s', zeroRange cfgUp stUp 96 8 = .ok s' := ⟨_, rfl⟩
-- the operations on the example states: every theorem above has an instance
example : ∃ s' p, alloc cfgUp stUp { size := 8, align := 8 } = .ok (s', .ok p) := ⟨_, _, rfl⟩
example : ∃ s', deallocate cfgUp stUp 96 8 = .ok s' := ⟨_, rfl⟩
example : ∃ s' r, reserve cfgUp stUp 8 = .ok (s', r) := ⟨_, _, rfl⟩
example : ∃ s', resetTo cfgUp stUp { cur := .chunk 0, addr := 96 } = .ok s' := ⟨_, rfl⟩
example : ∃ s', alignTo cfgUp stUp 8 = .ok s' := ⟨_, rfl⟩
example : InChunks (reset cfgUp stUp) 100 ∧ ChunksDisjoint stUp.chunks :=
  ⟨⟨chunkUp.resetPos cfgUp, by simp [reset, stUp], by decide, by decide⟩, stUp_wf.1⟩
example : ∃ s' np, grow cfgUp stUp 96 8 { size := 16, align := 1 } = .ok (s', .ok np) := ⟨_, _, rfl⟩
example : ∃ s' np, grow cfgDown stDown 80 8 { size := 12, align := 1 } = .ok (s', .ok np) := ⟨_, _, rfl⟩
-- a grow that must move the block into a freshly granted chunk
example : MemWF stUpR ∧ HeadFresh stUpR := ⟨stUpR_wf, stUpR_fresh⟩
set_option maxRecDepth 100000 in
example : ∃ s' np, grow cfgUp stUpR 96 8 { size := 200, align := 1 } = .ok (s', .ok np) := ⟨_, _, rfl⟩
example : ∃ s' r, shrink cfgUp stUp 96 8 { size := 4, align := 1 } = .ok (s', .ok r) := ⟨_, _, rfl⟩
example : ∃ s' r, shrink cfgDown stDown 80 8 { size := 4, align := 1 } = .ok (s', .ok r) := ⟨_, _, rfl⟩
example : ∃ s' r, shrinkWithoutShrink cfgUp stUp 96 8 { size := 4, align := 1 } = .ok (s', .ok r) := ⟨_, _, rfl⟩
example : ∃ s' r, shrinkSlice cfgDown stDown 80 8 4 1 = .ok (s', some r) := ⟨_, _, rfl⟩
example : ∃ s', shrinkSlice cfgUp { stUp with chunks := [{ chunkUp with pos := 112 }] } 96 8 4 1 = .ok (s', none) :=
  ⟨_, rfl⟩
example : ∃ s' r, allocatePrepared cfgUp stUp 4 104 128 true = .ok (s', r) := ⟨_, _, rfl⟩
example : ∃ s' r, allocatePreparedSlice cfgUp stUp 128 2 3 4 4 true = .ok (s', r) := ⟨_, _, rfl⟩
example : ∃ s1 p s2, alloc cfgUp stUp { size := 8, align := 8 } = .ok (s1, .ok p) ∧
    zeroRange cfgUp s1 p 8 = .ok s2 := ⟨_, _, _, rfl, rfl⟩
example : ∃ s1 np s2, grow cfgUp stUp 96 8 { size := 16, align := 1 } = .ok (s1, .ok np) ∧
    zeroRange cfgUp s1 (np + 8) (16 - 8) = .ok s2 := ⟨_, _, _, rfl, rfl⟩

-- `stepCore_allocate_keeps_live_bytes`: hypotheses hold for a zeroed fast-path allocation and for an
-- allocation that needs a new chunk; block 0 (`[96, 104)`) is live in both states
example : LiveOK cfgUp stUp ∧ MemWF stUp ∧ HeadFresh stUp ∧ CurPosOK cfgUp stUp ∧
    C11.Valid cfgUp.up (bumpProps cfgUp stUp L8 Hints.custom) ∧
    (∀ t i' ct, SlowTry cfgUp stUp t i' ct → C11.Valid cfgUp.up (bumpProps cfgUp t L8 Hints.custom)) ∧
    blk 96 ∈ stUp.live ∧
    ∃ g' out, stepCore cfgUp { s := stUp, marks := [] } (.allocate L8 true .plain) = .ok (g', out) :=
  ⟨stUp_liveOK, stUp_wf, stUp_fresh, stUp_curPosOK, exValidUp, stUp_noSlow, by simp [stUp], _, _, rfl⟩
example : LiveOK cfgUp stUpR ∧ MemWF stUpR ∧ HeadFresh stUpR ∧ CurPosOK cfgUp stUpR ∧
    C11.Valid cfgUp.up (bumpProps cfgUp stUpR L200 Hints.custom) ∧
    (∀ t i' ct, SlowTry cfgUp stUpR t i' ct → C11.Valid cfgUp.up (bumpProps cfgUp t L200 Hints.custom)) ∧
    blk 96 ∈ stUpR.live :=
  ⟨stUpR_liveOK, stUpR_wf, stUpR_fresh, stUpR_curPosOK, exValidUpR, stUpR_slowValid, by simp [stUpR, stUp]⟩
example : ∃ g' out, stepCore cfgUp { s := stUp, marks := [] } (.deallocate 0 .plain) = .ok (g', out) := ⟨_, _, rfl⟩
example : ∃ g' out, stepCore cfgUp gScope .scopeExit = .ok (g', out) := ⟨_, _, rfl⟩

end NonVacuity

/-! ## Target -/

/-- RESOLUTION (Props/Targets.lean): NOT resolved as stated (case C) — `C02.live_bytes_preserved_corrected` proves it
    with `Arena.Hist.Inv` as witness for admissible configurations (`CfgOK`), covered operations and `RespsSane`
    responses below `2^63` (see `C01.liveOK_invariant_corrected` for what the statement below asks beyond that).
    History forms: `C02.reachable_live_bytes`, `C02.history_live_bytes` (Props/Hist.lean).
    TARGET (NOT PROVED): C02 for whole operations — in every state satisfying the arena invariant
    (an inductive `Inv`, as in `C01.liveOK_invariant_target`), a step that does not fault leaves every byte of every
    block that stays live (and is not the target of a `.write`) unchanged.
    Proved: the memory-function level (`writeRange`, `copyBytes`, `zeroRange`), `… never_writes` for all
    non-reallocating model functions, `Realloc` for all six reallocating model functions,
    `allocate_zeroed`, `grow_zeroed`, and the `stepCore` level for `.allocate`, `.deallocate`, `.scopeExit`.
    Missing: the `stepCore` level for `.grow`, `.shrink`, `.shrinkSlice`, `.commit`, `.commitSlice`,
    `.allocTryWith` (needs C01 for those operations: the new block is disjoint from the other live
    blocks, so that `Realloc.frame` applies to them) and `.write`/`.fillPrepared` (the written block is
    disjoint from the others — immediate from `LiveOK.disjoint` and `writeRange_outside`). -/
def live_bytes_preserved_target : Prop :=
  ∃ Inv : Cfg → GState → Prop,
    (∀ cfg, Inv cfg { s := initState cfg, marks := [] }) ∧
    (∀ cfg g op resps g' out reqs, Inv cfg g → RespsSane cfg g.s resps →
      step cfg g op resps = .ok (g', out, reqs) → Inv cfg g') ∧
    (∀ cfg g op resps g' out reqs, Inv cfg g → RespsSane cfg g.s resps →
      step cfg g op resps = .ok (g', out, reqs) →
      ∀ b ∈ g.s.live, b ∈ g'.s.live → (∀ seed, op ≠ .write b.id seed) →
        ∀ k, k < b.size → readByte g'.s (b.addr + k) = readByte g.s (b.addr + k))

end C02
