/-
  Props/C19.lean — "A BumpPool hands every arena to one user at a time".

  Model: `BumpProof/Pool/Model.lean` (`/repo/src/bump_pool.rs`).  A history is a `List Step`: one
  linearisation of the critical sections (`get*`, guard drop, `mem::forget` of a guard, allocation
  through a guard, `get*` calls whose construction is refused or PANICS inside the critical section
  (poisoning the mutex), and — only when no guard is live, as `&mut self`/`self` enforce — `reset`,
  `reset_to_start`, drop of the pool) of an execution with ANY number of guards and threads.  Every
  theorem below quantifies over all histories `h` that the model accepts from a new pool
  (`run init h = .ok s`; the rejected ones use a guard that does not exist, reuse the id of a live
  guard, or reset/drop a borrowed pool — none of which safe Rust can express).

  Reading of the property text fixed here: "live guards" = guards handed out and not yet DROPPED; a guard
  passed to `mem::forget` is never dropped, its arena never returns to the pool (it is leaked, as the
  SAFETY comment of `Deref for BumpPoolGuard` says), and it keeps counting as live in `peakLive`.  `reset`,
  `reset_to_start` and drop of the pool reach every arena except those leaked ones.

  What is NOT provable in this model and is therefore TRUSTED (claim level: partial):
    * that the critical sections really are atomic — `std::sync::Mutex` (lock/unlock, poisoning is
      ignored by `PoisonError::into_inner`), and the Rust rule that the `MutexGuard` temporary of
      `match self.lock().pop() { … }` lives to the end of the statement, so pop-or-create is ONE
      critical section;
    * that an arena pushed by one thread and popped by another is seen consistently by the second
      thread (`unsafe impl Send for Bump` + the happens-before edge of the mutex): runtime;
    * that a step list is a faithful linearisation: the harness obtains it from a ticket taken inside
      the lock (`verif_hooks::pool_lock_acquired`), replays it on this model and compares the
      identity of the arena behind every guard (correspondence), next to direct oracles on the
      implementation (exclusivity registry, `bumps().len()` vs peak, patterned blocks re-read,
      statistics after `reset`/`reset_to_start`);
    * the arena itself (what `Bump::reset`, `reset_to_start`, `Drop` and an allocation do to ONE
      arena) is the `Arena` engine (C01–C05); here an arena is the list of tags of its blocks plus
      counters of the single-arena operations applied to it.
-/
import BumpProof.Lemmas.PoolHist

namespace C19
open Pool

/-! ## (1) Exclusivity -/

/-- In every reachable state the arenas inside live guards are pairwise distinct, none of them is in
    the idle stack (or among the leaked ones), the idle stack holds no arena twice, and live guards
    are distinct values. -/
theorem exclusive {h : List Step} {s : State} (hr : run init h = .ok s) :
    (s.owned.map (·.2)).Nodup ∧ s.idle.Nodup ∧ s.leaked.Nodup ∧
    (∀ p ∈ s.owned, p.2 ∉ s.idle ∧ p.2 ∉ s.leaked) ∧ (∀ a ∈ s.idle, a ∉ s.leaked) ∧
    (s.owned.map (·.1)).Nodup := by
  have hi := inv_run inv_init hr
  have hn := hi.nodup
  simp only [State.all, List.nodup_append] at hn
  obtain ⟨hidle, ⟨hown, hleak, hol⟩, hio⟩ := hn
  refine ⟨hown, hidle, hleak, ?_, ?_, hi.keys⟩
  · intro p hp
    have hm : p.2 ∈ s.owned.map (·.2) := List.mem_map.mpr ⟨p, hp, rfl⟩
    constructor
    · intro hc; exact hio _ hc _ (List.mem_append_left _ hm) rfl
    · intro hc; exact hol _ hm _ hc rfl
  · intro a ha hc
    exact hio _ ha _ (List.mem_append_right _ hc) rfl

/-- No two live guards ever refer to the same arena. -/
theorem no_shared_arena {h : List Step} {s : State} (hr : run init h = .ok s)
    {g₁ g₂ : GuardId} {a : ArenaId} (h₁ : (g₁, a) ∈ s.owned) (h₂ : (g₂, a) ∈ s.owned) : g₁ = g₂ := by
  have hown := (exclusive hr).1
  -- two entries with the same arena are the same entry
  have key : ∀ (l : List (GuardId × ArenaId)), (l.map (·.2)).Nodup → (g₁, a) ∈ l → (g₂, a) ∈ l → g₁ = g₂ := by
    intro l
    induction l with
    | nil => intro _ h; cases h
    | cons p rest ih =>
      intro hn m₁ m₂
      simp only [List.map_cons, List.nodup_cons] at hn
      have hmem : ∀ g, (g, a) ∈ rest → a ∈ rest.map (·.2) := fun g hg => List.mem_map.mpr ⟨(g, a), hg, rfl⟩
      rcases List.mem_cons.mp m₁ with e₁ | r₁
      · rcases List.mem_cons.mp m₂ with e₂ | r₂
        · rw [← e₂] at e₁; exact (Prod.mk.inj e₁).1
        · subst e₁; exact absurd (hmem _ r₂) hn.1
      · rcases List.mem_cons.mp m₂ with e₂ | r₂
        · subst e₂; exact absurd (hmem _ r₁) hn.1
        · exact ih hn.2 r₁ r₂
  exact key _ hown h₁ h₂

/-- non-vacuity: three guards on two threads' worth of interleaving; the history is accepted -/
example : (run init [.get 0 .ok, .get 1 .ok, .alloc 0 7, .put 0, .get 2 .ok, .alloc 2 8, .put 1, .put 2]).isOk = true := by
  decide

/-! ## (2) Reuse before create; no arena is lost -/

/-- (From any state.) A `get*` constructs a new arena only if the idle stack is empty at that moment; every other step, and
    every `get*` that finds an idle arena, leaves the number of arenas unchanged. -/
theorem creates_only_when_idle_empty {s s' : State} {st : Step} {o : Out} (e : step s st = .ok (s', o)) :
    (s'.created = s.created ∧ ∀ a, o ≠ .got a true) ∨
    (s.idle = [] ∧ s'.created = s.created + 1 ∧ o = .got s.created true) := by
  rcases created_step e with h | ⟨g, _, ho, hidle, hc⟩
  · exact Or.inl h
  · exact Or.inr ⟨hidle, hc, ho⟩

/-- The arena most recently returned by a dropped guard is what the next `get*` hands out (no arena is
    constructed while a returned one waits). -/
theorem returned_arena_is_reused_first {s s₁ s₂ : State} {g g' : GuardId} {c : Create} {a : ArenaId} {o₁ o₂ : Out}
    (ha : arenaOf g s.owned = some a) (e₁ : step s (.put g) = .ok (s₁, o₁))
    (e₂ : step s₁ (.get g' c) = .ok (s₂, o₂)) : o₂ = .got a false := by
  simp only [step] at e₁ e₂
  unfold put at e₁
  split at e₁; · cases e₁
  split at e₁; · cases e₁
  rename_i b owned' ht
  cases e₁
  have hb := (takeOut_some ht).2.2.2
  rw [ha] at hb; cases hb
  unfold Pool.get at e₂
  split at e₂; · cases e₂
  split at e₂; · cases e₂
  simp only at e₂
  cases e₂; rfl

/-- The number of arenas ever created never exceeds the peak number of simultaneously live guards of the
    history (`peakLive` is a function of the observable history only: which calls returned a guard, which
    guards were dropped). -/
theorem created_le_peak {h : List Step} {s : State} {log : List (Step × Out)}
    (hr : runLog init h = .ok (s, log)) : s.created ≤ peakLive log := by
  have := created_le_peakFrom (p := 0) inv_init hr (Nat.le_refl _)
  simpa [peakLive, State.live, init] using this

/-- Every arena that was ever created is in exactly one place: idle in the pool, inside a live guard, or
    inside a forgotten guard (and nothing else is in those places). -/
theorem none_lost {h : List Step} {s : State} (hr : run init h = .ok s) (a : ArenaId) :
    a < s.created ↔ (a ∈ s.idle ∨ (∃ g, (g, a) ∈ s.owned) ∨ a ∈ s.leaked) := by
  have hi := inv_run inv_init hr
  rw [← hi.mem_iff a]
  simp only [State.all, List.mem_append, List.mem_map]
  constructor
  · rintro (h | ⟨p, hp, rfl⟩ | h)
    · exact Or.inl h
    · exact Or.inr (Or.inl ⟨p.1, hp⟩)
    · exact Or.inr (Or.inr h)
  · rintro (h | ⟨g, hg⟩ | h)
    · exact Or.inl h
    · exact Or.inr (Or.inl ⟨(g, a), hg, rfl⟩)
    · exact Or.inr (Or.inr h)

/-- accounting: idle arenas + guards handed out and not dropped = arenas created -/
theorem idle_plus_live {h : List Step} {s : State} (hr : run init h = .ok s) :
    s.idle.length + (s.owned.length + s.leaked.length) = s.created :=
  (inv_run inv_init hr).length

/-- non-vacuity + tightness: two guards live at once, then two more gets one at a time (the second with a
    base allocator that would refuse a new arena — it is not asked): two arenas, peak 2 -/
example : (runLog init [.get 0 .ok, .get 1 .ok, .put 0, .put 1, .get 2 .ok, .put 2, .get 3 .fail, .put 3]).toOption.map
    (fun r => (r.1.created, peakLive r.2)) = some (2, 2) := by decide

/-- the reading of "live" matters for `mem::forget`: a forgotten guard is never dropped, its arena never
    comes back, so it keeps counting as live (otherwise one guard at a time could create two arenas) -/
example : (runLog init [.get 0 .ok, .forget 0, .get 1 .ok]).toOption.map
    (fun r => (r.1.created, peakLive r.2, r.1.owned.length)) = some (2, 2, 1) := by decide

/-! ## (3) Stability of what was allocated through a guard -/

/-- One step changes the contents of an arena only if it is an allocation through the guard that
    currently owns that arena (and then appends exactly the new block), or a reset/rewind/drop of the pool. -/
theorem contents_change_only_by_owner {s s' : State} {st : Step} {o : Out}
    (e : step s st = .ok (s', o)) (a : ArenaId)
    (hne : (s'.arenas a).tags ≠ (s.arenas a).tags) :
    st.isClear = true ∨
    ∃ g t, st = .alloc g t ∧ (g, a) ∈ s.owned ∧ (s'.arenas a).tags = (s.arenas a).tags ++ [t] := by
  cases hc : st.isClear with
  | true => exact Or.inl rfl
  | false =>
    right
    rcases arena_step e hc a with h | ⟨g, t, hst, hg, h⟩
    · exact absurd (by rw [h]) hne
    · exact ⟨g, t, hst, arenaOf_mem hg, by rw [h]; rfl⟩

/-- (From any state `m`, in particular any reachable one.) Between resets the contents of every arena only grow: whatever happens in between — guard drops,
    hand-over to other guards and threads, other allocations — what was there is still there, in place. -/
theorem contents_only_grow {h₂ : List Step} {m s : State} (e : run m h₂ = .ok s) (hc : ∀ st ∈ h₂, st.isClear = false) (a : ArenaId) :
    (m.arenas a).tags <+: (s.arenas a).tags :=
  tags_prefix_run e hc a

/-- A block allocated through guard `g` is still in its arena after any continuation without a reset, in
    particular after `g` was dropped and the arena was handed to other guards. -/
theorem survives_handover {h₂ : List Step} {m s : State} {g : GuardId} {t : Tag} {a : ArenaId}
    (hg : arenaOf g m.owned = some a)
    (e : run m (.alloc g t :: h₂) = .ok s) (hc : ∀ st ∈ h₂, st.isClear = false) :
    (m.arenas a).tags ++ [t] <+: (s.arenas a).tags := by
  unfold run at e
  split at e
  · rename_i m₁ o₁ h1
    have := tags_prefix_run e hc a
    simp only [step] at h1; unfold alloc at h1
    split at h1; · cases h1
    rw [hg] at h1
    simp only at h1
    cases h1
    simpa [update, Arena.alloc] using this
  · cases e

/-- non-vacuity: guard 0 writes 7, is dropped, guard 1 (another thread) gets the same arena and writes 8 -/
example : (run init [.get 0 .ok, .alloc 0 7, .put 0, .get 1 .ok, .alloc 1 8, .put 1]).toOption.map
    (fun s => ((s.arenas 0).tags, s.created)) = some ([7, 8], 1) := by decide

/-! ## (4) `reset`, `reset_to_start`, drop of the pool reach every arena, each exactly once -/

/-- `BumpPool::reset` is `Bump::reset` applied exactly once to every arena ever created (except those
    inside forgotten guards, which the pool no longer has), and nothing else changes. -/
theorem reset_every_arena {h : List Step} {s s' : State} {o : Out} (hr : run init h = .ok s)
    (e : step s .reset = .ok (s', o)) :
    (∀ a, a < s.created → a ∉ s.leaked → s'.arenas a = (s.arenas a).reset) ∧
    (∀ a, (s.created ≤ a ∨ a ∈ s.leaked) → s'.arenas a = s.arenas a) ∧
    s'.idle = s.idle ∧ s'.created = s.created := by
  have c := forAll_covers (inv_run inv_init hr) (by simpa [step] using e)
  exact ⟨c.1, c.2.1, c.2.2.1, c.2.2.2.2.2.1⟩

/-- `BumpPool::reset_to_start` is `Bump::reset_to_start` applied exactly once to every arena. -/
theorem reset_to_start_every_arena {h : List Step} {s s' : State} {o : Out} (hr : run init h = .ok s)
    (e : step s .resetToStart = .ok (s', o)) :
    (∀ a, a < s.created → a ∉ s.leaked → s'.arenas a = (s.arenas a).resetToStart) ∧
    (∀ a, (s.created ≤ a ∨ a ∈ s.leaked) → s'.arenas a = s.arenas a) ∧
    s'.idle = s.idle ∧ s'.created = s.created := by
  have c := forAll_covers (inv_run inv_init hr) (by simpa [step] using e)
  exact ⟨c.1, c.2.1, c.2.2.1, c.2.2.2.2.2.1⟩

/-- Dropping the pool drops every arena ever created (except those inside forgotten guards) exactly once. -/
theorem drop_every_arena {h : List Step} {s s' : State} {o : Out} (hr : run init h = .ok s)
    (e : step s .drop = .ok (s', o)) :
    (∀ a, a < s.created → a ∉ s.leaked → (s'.arenas a).drops = 1) ∧
    (∀ a, (s.created ≤ a ∨ a ∈ s.leaked) → (s'.arenas a).drops = 0) := by
  have hi := inv_run inv_init hr
  have hd := dropInv_run inv_init dropInv_init hr
  have h0 := hd.none_before (step_not_dropped e)
  simp only [step] at e; unfold dropPool at e
  split at e
  · rename_i s1 o1 h1
    cases e
    have c := forAll_covers hi h1
    constructor
    · intro a ha hl
      show (s1.arenas a).drops = 1
      rw [c.1 a ha hl]; simp only [Arena.drop]; rw [h0 a]
    · intro a ha
      show (s1.arenas a).drops = 0
      rw [c.2.1 a ha]; exact h0 a
  · cases e

/-- In no history is an arena dropped twice, and none is dropped before the pool is. -/
theorem no_double_drop {h : List Step} {s : State} (hr : run init h = .ok s) (a : ArenaId) :
    (s.arenas a).drops ≤ 1 ∧ (s.dropped = false → (s.arenas a).drops = 0) := by
  have hd := dropInv_run inv_init dropInv_init hr
  exact ⟨hd.at_most_once a, fun h => hd.none_before h a⟩

/-- With no guard live and none forgotten, the idle vector the loop runs over holds ALL arenas. -/
theorem idle_is_everything {h : List Step} {s : State} (hr : run init h = .ok s)
    (hown : s.owned = []) (hleak : s.leaked = []) : s.idle.Perm (List.range s.created) := by
  have := (inv_run inv_init hr).perm
  simpa [State.all, hown, hleak] using this

/-- non-vacuity: two arenas with contents, all guards dropped, then reset, a rewind and drop -/
example : (run init [.get 0 .ok, .get 1 .ok, .alloc 0 1, .alloc 1 2, .put 1, .put 0, .reset, .get 2 .ok, .alloc 2 3, .put 2,
    .resetToStart, .drop]).toOption.map
    (fun s => ((s.arenas 0).resets, (s.arenas 1).resets, (s.arenas 0).rewinds, (s.arenas 1).drops, (s.arenas 0).tags.length, (s.arenas 2).drops)) =
    some (1, 1, 1, 1, 0, 0) := by decide

/-- the `&mut self` gate: a pool with a live guard cannot be reset (the model rejects the history) -/
example : (run init [.get 0 .ok, .reset]).toOption.isNone = true := by decide

/-! ## (5) A `get*` that fails or panics changes nothing; a poisoned mutex changes nothing

  `pool.get_with_size(usize::MAX)` / `get_with_capacity(huge)` with no idle arena panic ("capacity
  overflow") while the lock guard temporary is alive, which poisons the mutex.  `lock()` and `bumps()`
  recover with `PoisonError::into_inner`.  All theorems of (1)–(4) already quantify over histories
  containing such calls (`Step.get g .panic`); the statements below say what the call itself does and
  that nothing afterwards depends on the poison flag — in particular a guard dropped afterwards still
  returns its arena to the pool. -/

/-- A panicking `get*` either finds an idle arena (then it behaves like any other `get*` and nothing is
    constructed, so nothing panics) or leaves idle stack, guards, leaked arenas, arena count and all arena
    contents exactly as they were and yields no guard. -/
theorem panicking_get_changes_nothing {s s' : State} {g : GuardId} {o : Out}
    (e : step s (.get g .panic) = .ok (s', o)) :
    (s.idle = [] ∧ o = .panicked ∧ s'.unpoison = s.unpoison ∧ s'.poisoned = true) ∨
    (∃ a rest, s.idle = a :: rest ∧ o = .got a false ∧ s'.poisoned = s.poisoned) := by
  simp only [step] at e; unfold Pool.get at e
  split at e; · cases e
  split at e; · cases e
  split at e
  · rename_i a rest hidle
    cases e; exact Or.inr ⟨a, rest, hidle, rfl, rfl⟩
  · rename_i hidle
    simp only at e
    cases e; exact Or.inl ⟨hidle, rfl, rfl, rfl⟩

/-- A refused construction (`try_get*` returning `Err`) leaves the pool exactly as it was. -/
theorem failed_get_changes_nothing {s s' : State} {g : GuardId} {c : Create}
    (e : step s (.get g c) = .ok (s', .failed)) : s' = s ∧ s.idle = [] ∧ c = .fail := by
  simp only [step] at e; unfold Pool.get at e
  split at e; · cases e
  split at e; · cases e
  split at e
  · cases e
  · rename_i hidle
    cases c <;> simp only at e <;> cases e
    exact ⟨rfl, hidle, rfl⟩

/-- Dropping a guard pushes its arena onto the idle stack — whatever the poison flag says — and neither
    drops nor alters any arena. -/
theorem guard_drop_returns_arena {s s' : State} {g : GuardId} {a : ArenaId} {o : Out}
    (ha : arenaOf g s.owned = some a) (e : step s (.put g) = .ok (s', o)) :
    s'.idle = a :: s.idle ∧ s'.arenas = s.arenas ∧ s'.created = s.created ∧ s'.leaked = s.leaked := by
  simp only [step] at e; unfold put at e
  split at e; · cases e
  split at e; · cases e
  rename_i b owned' ht
  cases e
  have hb := (takeOut_some ht).2.2.2
  rw [ha] at hb; cases hb
  exact ⟨rfl, rfl, rfl, rfl⟩

/-- Nothing depends on the poison flag: two states that differ only in it (e.g. the pool before and after a
    panicking `get*`) accept the same histories, return the same guards/arenas/errors at every call and end
    in states that again differ at most in the flag. -/
theorem poison_is_irrelevant {s t : State} (h : List Step) (e : s.unpoison = t.unpoison) :
    (runLog s h).map erase' = (runLog t h).map erase' :=
  runLog_congr h e

/-- non-vacuity: guard 0 lives; a panicking get with no idle arena poisons the pool and creates nothing;
    guard 0 is dropped AFTER the poisoning and its arena (with its contents) is idle again; the next
    panicking get finds it and succeeds; reset still reaches it. -/
example : (runLog init [.get 0 .ok, .alloc 0 5, .get 1 .panic, .put 0, .get 2 .panic, .alloc 2 6, .put 2, .reset]).toOption.map
    (fun r => (r.1.created, r.1.poisoned, r.1.idle, (r.1.arenas 0).resets)) = some (1, true, [0], 1) := by decide

example : (runLog init [.get 0 .ok, .alloc 0 5, .get 1 .panic, .put 0, .get 2 .panic, .alloc 2 6, .put 2, .reset]).toOption.map
    (fun r => (peakLive r.2, r.2.map (·.2))) =
    some (1, [.got 0 true, .done, .panicked, .done, .got 0 false, .done, .done, .done]) := by decide

end C19
