/-
  Props/C19.lean — "A BumpPool hands every arena to one user at a time".

  Model: `BumpProof/Pool/Model.lean` (`/repo/src/bump_pool.rs`).  A history is a `List Step`: one
  linearisation of the critical sections (`get*`, guard drop, `mem::forget` of a guard, allocation
  through a guard, and — only when no guard is live, as `&mut self`/`self` enforce — `reset`,
  `reset_to_start`, drop of the pool) of an execution with ANY number of guards and threads.  Every
  theorem below quantifies over all histories `h` that the model accepts from a new pool
  (`run init h = .ok s`; the rejected ones use a guard that does not exist, reuse the id of a live
  guard, or reset/drop a borrowed pool — none of which safe Rust can express).

  What is NOT provable in this model and is therefore TRUSTED (claim level: partial):
    * that the critical sections really are atomic — `std::sync::Mutex` (lock/unlock, poisoning is
      ignored by `PoisonError::into_inner`), and the Rust rule that the `MutexGuard` temporary of
      `match self.lock().pop() { … }` lives to the end of the statement, so pop-or-create is ONE
      critical section;
    * that an arena pushed by one thread and popped by another is seen consistently by the second
      thread (`unsafe impl Send for Bump` + the happens-before edge of the mutex): runtime;
    * that a step list is a faithful linearisation: the harness obtains it from a ticket taken inside
      the lock (`verif_hooks::pool_lock_acquired`), replays it on this model and compares the
      identity of the arena behind every guard (correspondence), next to direct oracles on the
      implementation (exclusivity registry, `bumps().len()` vs peak, patterned blocks re-read,
      statistics after `reset`/`reset_to_start`);
    * the arena itself (what `Bump::reset`, `reset_to_start`, `Drop` and an allocation do to ONE
      arena) is the `Arena` engine (C01–C05); here an arena is the list of tags of its blocks plus
      counters of the single-arena operations applied to it.
-/
import BumpProof.Lemmas.PoolInv

namespace C19
open Pool

/-! ## (1) Exclusivity -/

/-- In every reachable state the arenas inside live guards are pairwise distinct, none of them is in
    the idle stack (or among the leaked ones), the idle stack holds no arena twice, and live guards
    are distinct values. -/
theorem exclusive {h : List Step} {s : State} (hr : run init h = .ok s) :
    (s.owned.map (·.2)).Nodup ∧ s.idle.Nodup ∧ s.leaked.Nodup ∧
    (∀ p ∈ s.owned, p.2 ∉ s.idle ∧ p.2 ∉ s.leaked) ∧ (∀ a ∈ s.idle, a ∉ s.leaked) ∧
    (s.owned.map (·.1)).Nodup := by
  have hi := inv_run inv_init hr
  have hn := hi.nodup
  simp only [State.all, List.nodup_append] at hn
  obtain ⟨hidle, ⟨hown, hleak, hol⟩, hio⟩ := hn
  refine ⟨hown, hidle, hleak, ?_, ?_, hi.keys⟩
  · intro p hp
    have hm : p.2 ∈ s.owned.map (·.2) := List.mem_map.mpr ⟨p, hp, rfl⟩
    constructor
    · intro hc; exact hio _ hc _ (List.mem_append_left _ hm) rfl
    · intro hc; exact hol _ hm _ hc rfl
  · intro a ha hc
    exact hio _ ha _ (List.mem_append_right _ hc) rfl

/-- No two live guards ever refer to the same arena. -/
theorem no_shared_arena {h : List Step} {s : State} (hr : run init h = .ok s)
    {g₁ g₂ : GuardId} {a : ArenaId} (h₁ : (g₁, a) ∈ s.owned) (h₂ : (g₂, a) ∈ s.owned) : g₁ = g₂ := by
  have hi := inv_run inv_init hr
  have hown := (exclusive hr).1
  -- two entries with the same arena are the same entry
  have key : ∀ (l : List (GuardId × ArenaId)), (l.map (·.2)).Nodup → (g₁, a) ∈ l → (g₂, a) ∈ l → g₁ = g₂ := by
    intro l
    induction l with
    | nil => intro _ h; cases h
    | cons p rest ih =>
      intro hn m₁ m₂
      simp only [List.map_cons, List.nodup_cons] at hn
      have hmem : ∀ g, (g, a) ∈ rest → a ∈ rest.map (·.2) := fun g hg => List.mem_map.mpr ⟨(g, a), hg, rfl⟩
      rcases List.mem_cons.mp m₁ with e₁ | r₁
      · rcases List.mem_cons.mp m₂ with e₂ | r₂
        · rw [← e₂] at e₁; exact (Prod.mk.inj e₁).1
        · subst e₁; exact absurd (hmem _ r₂) hn.1
      · rcases List.mem_cons.mp m₂ with e₂ | r₂
        · subst e₂; exact absurd (hmem _ r₁) hn.1
        · exact ih hn.2 r₁ r₂
  exact key _ hown h₁ h₂

/-- non-vacuity: three guards on two threads' worth of interleaving; the history is accepted -/
example : (run init [.get 0 true, .get 1 true, .alloc 0 7, .put 0, .get 2 true, .alloc 2 8, .put 1, .put 2]).isOk = true := by
  decide

end C19
